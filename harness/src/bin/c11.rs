//! C11: views (UnionGraph, PartialUnionGraph, DatasetGraph, GraphAsDataset) vs the Coq model
//! and vs a naive set oracle, over mixed histories, for every set-like store type.
use sophia_api::dataset::adapter::GraphAsDataset;
use sophia_api::dataset::adapter::GraphAsDatasetMutationError;
use sophia_api::graph::adapter::{DatasetGraph, PartialUnionGraph, UnionGraph};
use sophia_api::prelude::*;
use sophia_api::quad::Spog;
use sophia_api::term::matcher::{GraphNameMatcher, TermMatcher};
use sophia_api::term::GraphName;
use std::collections::{BTreeSet, HashSet};
use verif_harness::*;
use sophia_api::source::IntoSource;

type Tid = u64;
type T3 = [Tid; 3];
type Q4 = (T3, Option<Tid>);

#[derive(Clone, Debug)]
enum MD { Any, OneOf(Vec<Tid>), NotOneOf(Vec<Tid>) }
#[derive(Clone, Debug)]
enum GD { Any, OneOf(Vec<Option<Tid>>), NotOneOf(Vec<Option<Tid>>) }

#[derive(Clone, Debug)]
enum Op {
    DInsert(Q4), DRemove(Q4), VInsert(Option<Tid>, T3), VRemove(Option<Tid>, T3),
    QUnion(MD, MD, MD), QPUnion(GD, MD, MD, MD), QGraph(Option<Tid>, MD, MD, MD),
    QGraphAll(Option<Tid>), QUnionAll, QPUnionAll(GD), QDirect(MD, MD, MD, GD),
    VRemoveMatching(Option<Tid>, MD, MD, MD), VRetainMatching(Option<Tid>, MD, MD, MD), QUnionAtoms(u64), QGraphAtoms(Option<Tid>, u64),
    /// Graph::contains through a view: union, partial union (selector), one graph
    CUnion(T3), CPUnion(GD, T3), CGraph(Option<Tid>, T3),
}
#[derive(Clone, Debug, PartialEq)]
enum Out { Flag(bool), Triples(Vec<T3>), Quads(Vec<Q4>), Count(u64), Terms(Vec<Tid>), Err(String), Has(bool) }

#[derive(Clone, Debug)]
enum GOp { Insert(Q4), Remove(Q4), Contains(Q4), Query(MD, MD, MD, GD), All, DirectInsert(T3), DirectRemove(T3),
           /// bulk mutations through the dataset view (inherited MutableDataset methods, or overrides of them)
           RemoveAll(Vec<Q4>), InsertAll(Vec<T3>) }
#[derive(Clone, Debug, PartialEq)]
enum GOut { Ok(bool), OnlyDefault, Bool(bool), Quads(Vec<Q4>), Err(String), Count(u64) }

struct Ctx { pool: Vec<Vec<ST>> }
impl Ctx {
    fn term(&self, id: Tid, r: &mut Rng) -> ST { r.pick(&self.pool[(id - 1) as usize]).clone() }
    fn id<T: Term>(&self, t: T) -> Tid { class_id(&self.pool, t) }
}

struct TM { d: MD, terms: Vec<ST> }
impl TermMatcher for TM {
    type Term = ST;
    fn matches<T2: Term + ?Sized>(&self, term: &T2) -> bool {
        let hit = self.terms.iter().any(|m| Term::eq(m, term.borrow_term()));
        match self.d { MD::Any => true, MD::OneOf(_) => hit, MD::NotOneOf(_) => !hit }
    }
    fn constant(&self) -> Option<&ST> {
        match &self.d { MD::OneOf(l) if l.len() == 1 => Some(&self.terms[0]), _ => None }
    }
}
struct GM { d: GD, names: Vec<Option<ST>> }
impl GraphNameMatcher for GM {
    type Term = ST;
    fn matches<T2: Term + ?Sized>(&self, g: GraphName<&T2>) -> bool {
        let hit = self.names.iter().any(|m| match (m, g) {
            (None, None) => true,
            (Some(a), Some(b)) => Term::eq(a, b.borrow_term()),
            _ => false,
        });
        match self.d { GD::Any => true, GD::OneOf(_) => hit, GD::NotOneOf(_) => !hit }
    }
    fn constant(&self) -> Option<GraphName<&ST>> {
        match &self.d { GD::OneOf(l) if l.len() == 1 => Some(self.names[0].as_ref()), _ => None }
    }
}
fn tm(c: &Ctx, d: &MD, r: &mut Rng) -> TM {
    let terms = match d { MD::Any => vec![], MD::OneOf(l) | MD::NotOneOf(l) => l.iter().map(|i| c.term(*i, r)).collect() };
    TM { d: d.clone(), terms }
}
fn gm(c: &Ctx, d: &GD, r: &mut Rng) -> GM {
    let names = match d { GD::Any => vec![], GD::OneOf(l) | GD::NotOneOf(l) => l.iter().map(|i| i.map(|i| c.term(i, r))).collect() };
    GM { d: d.clone(), names }
}

fn sort3(mut v: Vec<T3>) -> Vec<T3> { v.sort(); v }
fn sort4(mut v: Vec<Q4>) -> Vec<Q4> { v.sort(); v }

macro_rules! terms_of { ($c:expr, $g:expr, $kind:expr) => {{
    let mut v: Vec<Tid> = vec![]; let mut err: Option<String> = None;
    macro_rules! coll { ($it:expr) => { for t in $it { match t { Ok(t) => v.push($c.id(t)), Err(e) => { err = Some(format!("{e:?}")); break } } } }; }
    match $kind { 0 => coll!($g.blank_nodes()), 1 => coll!($g.iris()), 2 => coll!($g.literals()), 3 => coll!($g.quoted_triples()), _ => coll!($g.variables()) }
    v.sort(); v.dedup(); match err { Some(e) => Out::Err(e), None => Out::Terms(v) }
}}; }
fn run_ds<D>(c: &Ctx, init: &[Q4], ops: &[Op], r: &mut Rng) -> Vec<Out>
where D: MutableDataset + Default, D::Error: std::fmt::Debug, D::MutationError: std::fmt::Debug + From<D::Error>, for<'x> sophia_api::dataset::DTerm<'x, D>: Clone,
{
    let mut d = D::default();
    for (t, g) in init {
        d.insert(c.term(t[0], r), c.term(t[1], r), c.term(t[2], r), g.map(|g| c.term(g, r))).unwrap();
    }
    let mut outs = vec![];
    macro_rules! triples { ($it:expr) => {{
        let mut v = vec![]; let mut err = None;
        for t in $it { match t { Ok(t) => v.push([c.id(t.s()), c.id(t.p()), c.id(t.o())]), Err(e) => { err = Some(format!("{e:?}")); break } } }
        match err { Some(e) => Out::Err(e), None => Out::Triples(sort3(v)) }
    }}; }
    for op in ops {
        let o = match op {
            Op::DInsert((t, g)) => match d.insert(c.term(t[0], r), c.term(t[1], r), c.term(t[2], r), g.map(|g| c.term(g, r))) { Ok(b) => Out::Flag(b), Err(e) => Out::Err(format!("{e:?}")) },
            Op::DRemove((t, g)) => match d.remove(c.term(t[0], r), c.term(t[1], r), c.term(t[2], r), g.map(|g| c.term(g, r))) { Ok(b) => Out::Flag(b), Err(e) => Out::Err(format!("{e:?}")) },
            Op::VInsert(g, t) => {
                let mut v = DatasetGraph::new(&mut d, g.map(|g| c.term(g, r)));
                match v.insert(c.term(t[0], r), c.term(t[1], r), c.term(t[2], r)) { Ok(b) => Out::Flag(b), Err(e) => Out::Err(format!("{e:?}")) }
            }
            Op::VRemove(g, t) => {
                let mut v = DatasetGraph::new(&mut d, g.map(|g| c.term(g, r)));
                match v.remove(c.term(t[0], r), c.term(t[1], r), c.term(t[2], r)) { Ok(b) => Out::Flag(b), Err(e) => Out::Err(format!("{e:?}")) }
            }
            Op::QUnion(s, p, o) => { let v = UnionGraph::new(&d); triples!(v.triples_matching(tm(c, s, r), tm(c, p, r), tm(c, o, r))) }
            Op::QPUnion(g, s, p, o) => { let m = gm(c, g, r); let v = PartialUnionGraph::new(&d, m.matcher_ref()); triples!(v.triples_matching(tm(c, s, r), tm(c, p, r), tm(c, o, r))) }
            Op::QGraph(g, s, p, o) => { let v = DatasetGraph::new(&d, g.map(|g| c.term(g, r))); triples!(v.triples_matching(tm(c, s, r), tm(c, p, r), tm(c, o, r))) }
            Op::CUnion(t) => { let v = UnionGraph::new(&d); match v.contains(c.term(t[0], r), c.term(t[1], r), c.term(t[2], r)) { Ok(b) => Out::Has(b), Err(e) => Out::Err(format!("{e:?}")) } }
            Op::CPUnion(g, t) => { let m = gm(c, g, r); let v = PartialUnionGraph::new(&d, m.matcher_ref()); match v.contains(c.term(t[0], r), c.term(t[1], r), c.term(t[2], r)) { Ok(b) => Out::Has(b), Err(e) => Out::Err(format!("{e:?}")) } }
            Op::CGraph(g, t) => { let v = DatasetGraph::new(&d, g.map(|g| c.term(g, r))); match v.contains(c.term(t[0], r), c.term(t[1], r), c.term(t[2], r)) { Ok(b) => Out::Has(b), Err(e) => Out::Err(format!("{e:?}")) } }
            Op::QGraphAll(g) => { let v = DatasetGraph::new(&d, g.map(|g| c.term(g, r))); triples!(v.triples()) }
            Op::QUnionAll => { let v = UnionGraph::new(&d); triples!(v.triples()) }
            Op::QPUnionAll(g) => { let m = gm(c, g, r); let v = PartialUnionGraph::new(&d, m.matcher_ref()); triples!(v.triples()) }
            Op::VRemoveMatching(g, s, p, o) => {
                let mut v = DatasetGraph::new(&mut d, g.map(|g| c.term(g, r)));
                match v.remove_matching(tm(c, s, r), tm(c, p, r), tm(c, o, r)) { Ok(n) => Out::Count(n as u64), Err(e) => Out::Err(format!("{e:?}")) }
            }
            Op::VRetainMatching(g, s, p, o) => {
                let mut v = DatasetGraph::new(&mut d, g.map(|g| c.term(g, r)));
                match v.retain_matching(tm(c, s, r), tm(c, p, r), tm(c, o, r)) { Ok(()) => Out::Flag(true), Err(e) => Out::Err(format!("{e:?}")) }
            }
            Op::QUnionAtoms(k) => { let v = UnionGraph::new(&d); terms_of!(c, v, *k) }
            Op::QGraphAtoms(g, k) => { let v = DatasetGraph::new(&d, g.map(|g| c.term(g, r))); terms_of!(c, v, *k) }
            Op::QDirect(s, p, o, g) => {
                let mut v = vec![]; let mut err = None;
                for q in d.quads_matching(tm(c, s, r), tm(c, p, r), tm(c, o, r), gm(c, g, r)) {
                    match q { Ok(q) => v.push(([c.id(q.s()), c.id(q.p()), c.id(q.o())], q.g().map(|g| c.id(g)))), Err(e) => { err = Some(format!("{e:?}")); break } }
                }
                match err { Some(e) => Out::Err(e), None => Out::Quads(sort4(v)) }
            }
        };
        outs.push(o);
    }
    outs
}

fn run_gad<G>(c: &Ctx, init: &[T3], ops: &[GOp], r: &mut Rng) -> Vec<GOut>
where G: MutableGraph + Default, G::Error: std::fmt::Debug + std::error::Error, G::MutationError: std::fmt::Debug + std::error::Error,
{
    let mut g = G::default();
    for t in init { g.insert(c.term(t[0], r), c.term(t[1], r), c.term(t[2], r)).unwrap(); }
    let mut d = GraphAsDataset::new(g);
    let mut outs = vec![];
    for op in ops {
        let o = match op {
            GOp::Insert((t, gn)) => match d.insert(c.term(t[0], r), c.term(t[1], r), c.term(t[2], r), gn.map(|g| c.term(g, r))) {
                Ok(b) => GOut::Ok(b), Err(GraphAsDatasetMutationError::OnlyDefaultGraph) => GOut::OnlyDefault, Err(e) => GOut::Err(format!("{e:?}")) },
            GOp::Remove((t, gn)) => match d.remove(c.term(t[0], r), c.term(t[1], r), c.term(t[2], r), gn.map(|g| c.term(g, r))) {
                Ok(b) => GOut::Ok(b), Err(GraphAsDatasetMutationError::OnlyDefaultGraph) => GOut::OnlyDefault, Err(e) => GOut::Err(format!("{e:?}")) },
            GOp::Contains((t, gn)) => match d.contains(c.term(t[0], r), c.term(t[1], r), c.term(t[2], r), gn.map(|g| c.term(g, r))) { Ok(b) => GOut::Bool(b), Err(e) => GOut::Err(format!("{e:?}")) },
            GOp::Query(s, p, o, gm_) => {
                let mut v = vec![];
                for q in d.quads_matching(tm(c, s, r), tm(c, p, r), tm(c, o, r), gm(c, gm_, r)) { let q = q.unwrap(); v.push(([c.id(q.s()), c.id(q.p()), c.id(q.o())], q.g().map(|g| c.id(g)))); }
                GOut::Quads(sort4(v))
            }
            GOp::All => { let mut v = vec![]; for q in d.quads() { let q = q.unwrap(); v.push(([c.id(q.s()), c.id(q.p()), c.id(q.o())], q.g().map(|g| c.id(g)))); } GOut::Quads(sort4(v)) }
            GOp::RemoveAll(l) => { let qs: Vec<([ST; 3], Option<ST>)> = l.iter().map(|(t, gn)| ([c.term(t[0], r), c.term(t[1], r), c.term(t[2], r)], gn.map(|g| c.term(g, r)))).collect();
                match d.remove_all(qs.into_iter().into_source()) { Ok(n) => GOut::Count(n as u64), Err(e) => GOut::Err(format!("{e:?}")) } }
            GOp::InsertAll(l) => { let qs: Vec<([ST; 3], Option<ST>)> = l.iter().map(|t| ([c.term(t[0], r), c.term(t[1], r), c.term(t[2], r)], None)).collect();
                match d.insert_all(qs.into_iter().into_source()) { Ok(n) => GOut::Count(n as u64), Err(e) => GOut::Err(format!("{e:?}")) } }
            GOp::DirectInsert(t) => { let mut g = d.unwrap(); let b = g.insert(c.term(t[0], r), c.term(t[1], r), c.term(t[2], r)).unwrap(); d = GraphAsDataset::new(g); GOut::Ok(b) }
            GOp::DirectRemove(t) => { let mut g = d.unwrap(); let b = g.remove(c.term(t[0], r), c.term(t[1], r), c.term(t[2], r)).unwrap(); d = GraphAsDataset::new(g); GOut::Ok(b) }
        };
        outs.push(o);
    }
    outs
}

// ---------- naive oracle (independent of the Coq model) ----------
fn md_ok(m: &MD, t: Tid) -> bool { match m { MD::Any => true, MD::OneOf(l) => l.contains(&t), MD::NotOneOf(l) => !l.contains(&t) } }
fn gd_ok(m: &GD, g: Option<Tid>) -> bool { match m { GD::Any => true, GD::OneOf(l) => l.contains(&g), GD::NotOneOf(l) => !l.contains(&g) } }
fn t_ok(s: &MD, p: &MD, o: &MD, t: &T3) -> bool { md_ok(s, t[0]) && md_ok(p, t[1]) && md_ok(o, t[2]) }
/// (kind, atoms, triple constituents) of each pool identifier
fn pool_info(id: Tid) -> (u64, Vec<Tid>, Vec<Tid>) {
    match id {
        4 | 5 => (0, vec![id], vec![]), 1 | 2 | 3 | 12 | 13 => (1, vec![id], vec![]), 6 | 7 | 8 | 9 | 15 => (2, vec![id], vec![]), 11 => (4, vec![id], vec![]),
        10 => (3, vec![1, 3, 4], vec![10]), 16 => (3, vec![1, 3, 7], vec![16]), 14 => (3, vec![1, 3, 7, 3, 15], vec![14, 16]),
        _ => unreachable!(),
    }
}
fn atoms_oracle(ts: Vec<T3>, kind: u64) -> Vec<Tid> {
    let mut v: Vec<Tid> = vec![];
    for t in ts { for x in t { let (_, atoms, tc) = pool_info(x); if kind == 3 { v.extend(tc) } else { v.extend(atoms.into_iter().filter(|a| pool_info(*a).0 == kind)) } } }
    v.sort(); v.dedup(); v
}
fn oracle_ds(init: &[Q4], ops: &[Op]) -> Vec<Out> {
    let mut set: Vec<Q4> = vec![];
    for q in init { if !set.contains(q) { set.push(*q) } }
    let mut outs = vec![];
    for op in ops {
        outs.push(match op {
            Op::DInsert(q) => { let b = !set.contains(q); if b { set.push(*q) } Out::Flag(b) }
            Op::DRemove(q) => { let b = set.contains(q); set.retain(|x| x != q); Out::Flag(b) }
            Op::VInsert(g, t) => { let q = (*t, *g); let b = !set.contains(&q); if b { set.push(q) } Out::Flag(b) }
            Op::VRemove(g, t) => { let q = (*t, *g); let b = set.contains(&q); set.retain(|x| *x != q); Out::Flag(b) }
            Op::QUnion(s, p, o) => Out::Triples(sort3(set.iter().filter(|q| t_ok(s, p, o, &q.0)).map(|q| q.0).collect())),
            Op::QPUnion(g, s, p, o) => Out::Triples(sort3(set.iter().filter(|q| gd_ok(g, q.1) && t_ok(s, p, o, &q.0)).map(|q| q.0).collect())),
            Op::QGraph(g, s, p, o) => Out::Triples(sort3(set.iter().filter(|q| q.1 == *g && t_ok(s, p, o, &q.0)).map(|q| q.0).collect())),
            Op::CUnion(t) => Out::Has(set.iter().any(|q| q.0 == *t)),
            Op::CPUnion(g, t) => Out::Has(set.iter().any(|q| gd_ok(g, q.1) && q.0 == *t)),
            Op::CGraph(g, t) => Out::Has(set.iter().any(|q| q.1 == *g && q.0 == *t)),
            Op::QGraphAll(g) => Out::Triples(sort3(set.iter().filter(|q| q.1 == *g).map(|q| q.0).collect())),
            Op::QUnionAll => Out::Triples(sort3(set.iter().map(|q| q.0).collect())),
            Op::QPUnionAll(g) => Out::Triples(sort3(set.iter().filter(|q| gd_ok(g, q.1)).map(|q| q.0).collect())),
            Op::QDirect(s, p, o, g) => Out::Quads(sort4(set.iter().filter(|q| gd_ok(g, q.1) && t_ok(s, p, o, &q.0)).cloned().collect())),
            Op::VRemoveMatching(g, s, p, o) => { let n = set.iter().filter(|q| q.1 == *g && t_ok(s, p, o, &q.0)).count(); set.retain(|q| !(q.1 == *g && t_ok(s, p, o, &q.0))); Out::Count(n as u64) }
            Op::VRetainMatching(g, s, p, o) => { set.retain(|q| q.1 != *g || t_ok(s, p, o, &q.0)); Out::Flag(true) }
            Op::QUnionAtoms(k) => Out::Terms(atoms_oracle(set.iter().map(|q| q.0).collect(), *k)),
            Op::QGraphAtoms(g, k) => Out::Terms(atoms_oracle(set.iter().filter(|q| q.1 == *g).map(|q| q.0).collect(), *k)),
        });
    }
    outs
}
/// the plain-set oracle; second component: for each BULK operation, the sequence of single removals / insertions
/// (with their flags) it must be equivalent to -- that is what the Coq model is given for it
fn oracle_gad(init: &[T3], ops: &[GOp]) -> (Vec<GOut>, Vec<Vec<(GOp, GOut)>>) {
    let mut set: Vec<T3> = vec![];
    for t in init { if !set.contains(t) { set.push(*t) } }
    let mut outs = vec![]; let mut prim: Vec<Vec<(GOp, GOut)>> = vec![];
    for op in ops {
        let mut ex: Vec<(GOp, GOut)> = vec![];
        outs.push(match op {
            GOp::RemoveAll(l) => { let mut n = 0; for (t, g) in l { let b = g.is_none() && set.contains(t); if b { set.retain(|x| x != t); n += 1; } ex.push((GOp::Remove((*t, *g)), GOut::Ok(b))); } GOut::Count(n) }
            GOp::InsertAll(l) => { let mut n = 0; for t in l { let b = !set.contains(t); if b { set.push(*t); n += 1; } ex.push((GOp::Insert((*t, None)), GOut::Ok(b))); } GOut::Count(n) }
            GOp::Insert((t, None)) | GOp::DirectInsert(t) => { let b = !set.contains(t); if b { set.push(*t) } GOut::Ok(b) }
            GOp::Insert((_, Some(_))) => GOut::OnlyDefault,
            GOp::Remove((t, None)) | GOp::DirectRemove(t) => { let b = set.contains(t); set.retain(|x| x != t); GOut::Ok(b) }
            GOp::Remove((_, Some(_))) => GOut::Ok(false),
            GOp::Contains((t, g)) => GOut::Bool(g.is_none() && set.contains(t)),
            GOp::Query(s, p, o, g) => GOut::Quads(sort4(set.iter().filter(|t| gd_ok(g, None) && t_ok(s, p, o, t)).map(|t| (*t, None)).collect())),
            GOp::All => GOut::Quads(sort4(set.iter().map(|t| (*t, None)).collect())),
        });
        prim.push(ex);
    }
    (outs, prim)
}

// ---------- generation ----------
const NT: u64 = 16; // pool size
fn gen_tid(r: &mut Rng) -> Tid { // skewed towards few terms so that collisions are common
    if r.chance(3, 4) { 1 + r.below(6) as u64 } else { 1 + r.below(NT as usize) as u64 }
}
fn gen_t3(r: &mut Rng) -> T3 { [gen_tid(r), *r.pick(&[3, 3, 1, 2, 12]), gen_tid(r)] }
fn gen_g(r: &mut Rng) -> Option<Tid> { *r.pick(&[None, None, Some(12), Some(12), Some(4), Some(13), Some(1)]) }
fn gen_md(r: &mut Rng) -> MD {
    match r.below(10) { 0..=4 => MD::Any, 5..=6 => MD::OneOf(vec![gen_tid(r)]), 7 => MD::OneOf(vec![gen_tid(r), gen_tid(r)]), 8 => MD::NotOneOf(vec![gen_tid(r)]), _ => MD::OneOf(vec![]) }
}
fn gen_gd(r: &mut Rng) -> GD {
    match r.below(10) { 0..=2 => GD::Any, 3..=5 => GD::OneOf(vec![gen_g(r)]), 6..=7 => GD::OneOf(vec![gen_g(r), gen_g(r)]), 8 => GD::NotOneOf(vec![gen_g(r)]), _ => GD::OneOf(vec![]) }
}
fn gen_op(r: &mut Rng) -> Op {
    match r.below(21) {
        16 => Op::VRemoveMatching(gen_g(r), gen_md(r), gen_md(r), gen_md(r)), 17 => Op::VRetainMatching(gen_g(r), gen_md(r), gen_md(r), gen_md(r)),
        18 | 19 => Op::QUnionAtoms(r.below(5) as u64), 20 => Op::QGraphAtoms(gen_g(r), r.below(5) as u64),
        0..=2 => Op::DInsert((gen_t3(r), gen_g(r))), 3 => Op::DRemove((gen_t3(r), gen_g(r))),
        4..=5 => Op::VInsert(gen_g(r), gen_t3(r)), 6..=7 => Op::VRemove(gen_g(r), gen_t3(r)),
        8 => Op::QUnion(gen_md(r), gen_md(r), gen_md(r)), 9 => Op::QPUnion(gen_gd(r), gen_md(r), gen_md(r), gen_md(r)),
        10..=11 => Op::QGraph(gen_g(r), gen_md(r), gen_md(r), gen_md(r)), 12 => Op::QGraphAll(gen_g(r)),
        13 => Op::QUnionAll, 14 => Op::QPUnionAll(gen_gd(r)), _ => Op::QDirect(gen_md(r), gen_md(r), gen_md(r), gen_gd(r)),
    }
}
fn gen_gop(r: &mut Rng) -> GOp {
    match r.below(14) {
        12 => GOp::RemoveAll((0..r.range(1, 5)).map(|_| (gen_t3(r), *r.pick(&[None, None, Some(12), Some(4), Some(13)]))).collect()),
        13 => GOp::InsertAll((0..r.range(1, 5)).map(|_| gen_t3(r)).collect()),
        0..=2 => GOp::Insert((gen_t3(r), *r.pick(&[None, None, None, Some(12), Some(4)]))),
        3..=5 => GOp::Remove((gen_t3(r), *r.pick(&[None, None, None, Some(12), Some(4)]))),
        6 => GOp::Contains((gen_t3(r), *r.pick(&[None, None, Some(12)]))),
        7..=8 => GOp::Query(gen_md(r), gen_md(r), gen_md(r), gen_gd(r)), 9 => GOp::All,
        10 => GOp::DirectInsert(gen_t3(r)), _ => GOp::DirectRemove(gen_t3(r)),
    }
}

// ---------- Coq printing ----------
fn c_t3(t: &T3) -> String { format!("(mkT {} {} {})", t[0], t[1], t[2]) }
fn c_g(g: &Option<Tid>) -> String { coq_opt(g.map(|g| g.to_string())) }
fn c_q4(q: &Q4) -> String { format!("(mkQ {} {})", c_t3(&q.0), c_g(&q.1)) }
fn c_md(m: &MD) -> String { match m { MD::Any => "MAny".into(), MD::OneOf(l) => format!("(MOneOf {})", coq_list(l.iter().map(|x| x.to_string()))), MD::NotOneOf(l) => format!("(MNotOneOf {})", coq_list(l.iter().map(|x| x.to_string()))) } }
fn c_gd(m: &GD) -> String { match m { GD::Any => "GAny".into(), GD::OneOf(l) => format!("(GOneOf {})", coq_list(l.iter().map(c_g))), GD::NotOneOf(l) => format!("(GNotOneOf {})", coq_list(l.iter().map(c_g))) } }
fn c_op(o: &Op) -> String {
    match o {
        Op::DInsert(q) => format!("DInsert {}", c_q4(q)), Op::DRemove(q) => format!("DRemove {}", c_q4(q)),
        Op::VInsert(g, t) => format!("VInsert {} {}", c_g(g), c_t3(t)), Op::VRemove(g, t) => format!("VRemove {} {}", c_g(g), c_t3(t)),
        Op::QUnion(s, p, o) => format!("QUnion {} {} {}", c_md(s), c_md(p), c_md(o)),
        Op::QPUnion(g, s, p, o) => format!("QPUnion {} {} {} {}", c_gd(g), c_md(s), c_md(p), c_md(o)),
        Op::QGraph(g, s, p, o) => format!("QGraph {} {} {} {}", c_g(g), c_md(s), c_md(p), c_md(o)),
        Op::QGraphAll(g) => format!("QGraphAll {}", c_g(g)), Op::QUnionAll => "QUnionAll".into(),
        Op::QPUnionAll(g) => format!("QPUnionAll {}", c_gd(g)),
        Op::QDirect(s, p, o, g) => format!("QDirect {} {} {} {}", c_md(s), c_md(p), c_md(o), c_gd(g)),
        Op::VRemoveMatching(g, s, p, o) => format!("VRemoveMatching {} {} {} {}", c_g(g), c_md(s), c_md(p), c_md(o)),
        Op::VRetainMatching(g, s, p, o) => format!("VRetainMatching {} {} {} {}", c_g(g), c_md(s), c_md(p), c_md(o)),
        Op::QUnionAtoms(k) => format!("QUnionAtoms {k}"), Op::QGraphAtoms(g, k) => format!("QGraphAtoms {} {k}", c_g(g)),
        Op::CUnion(..) | Op::CPUnion(..) | Op::CGraph(..) => unreachable!("contains through a view is a pure observation checked by the oracle; it is not given to Coq"),
    }
}
fn c_out(o: &Out) -> String {
    match o {
        Out::Flag(b) => format!("OFlag {}", coq_bool(*b)),
        Out::Triples(l) => format!("OTriples {}", coq_list(l.iter().map(c_t3))),
        Out::Quads(l) => format!("OQuads {}", coq_list(l.iter().map(c_q4))),
        Out::Count(n) => format!("OCount {n}"), Out::Terms(l) => format!("OTerms {}", coq_list(l.iter().map(|x| x.to_string()))),
        Out::Has(_) => unreachable!(),
        Out::Err(_) => "OFlag true; OFlag false".into(), // an error never matches the model: length differs
    }
}
fn c_gop(o: &GOp) -> String {
    match o {
        GOp::Insert(q) => format!("GInsert {}", c_q4(q)), GOp::Remove(q) => format!("GRemove {}", c_q4(q)),
        GOp::Contains(q) => format!("GContains {}", c_q4(q)),
        GOp::Query(s, p, o, g) => format!("GQuery {} {} {} {}", c_md(s), c_md(p), c_md(o), c_gd(g)),
        GOp::RemoveAll(..) | GOp::InsertAll(..) => unreachable!("bulk operations are given to Coq through their expansion"),
        GOp::All => "GAll".into(), GOp::DirectInsert(t) => format!("GDirectInsert {}", c_t3(t)), GOp::DirectRemove(t) => format!("GDirectRemove {}", c_t3(t)),
    }
}
fn c_gout(o: &GOut) -> String {
    match o {
        GOut::Ok(b) => format!("GORes (GadOk {})", coq_bool(*b)), GOut::OnlyDefault => "GORes GadOnlyDefaultGraph".into(),
        GOut::Bool(b) => format!("GOBool {}", coq_bool(*b)), GOut::Quads(l) => format!("GOQuads {}", coq_list(l.iter().map(c_q4))),
        GOut::Count(_) => unreachable!(),
        GOut::Err(_) => "GOBool true; GOBool false".into(),
    }
}

const DS_STORES: [&str; 6] = ["FastDataset", "LightDataset", "small::FastDataset", "small::LightDataset", "HashSet<Spog>", "BTreeSet<Spog>"];
const GR_STORES: [&str; 6] = ["FastGraph", "LightGraph", "small::FastGraph", "small::LightGraph", "HashSet<[T;3]>", "BTreeSet<[T;3]>"];

fn main() {
    let a = parse_args();
    let ctx = Ctx { pool: small_pool() };
    assert_eq!(ctx.pool.len() as u64, NT);
    let mut sum = Summary::default();
    sum.rule = "case = (store type, initial content, history of 1..40 mixed ops applied alternately through the store and through views; every second case is a graph-as-dataset history); \
non-trivial = at least one mutation through a view that changes the store AND at least one non-empty query result; distinct = distinct (store, init, ops) after printing".into();
    let mut cases: Vec<(usize, String)> = vec![];
    let mut seen = HashSet::new();
    let base = Rng::new(a.seed);
    let range: Vec<usize> = match a.only { Some(i) => vec![i], None => (0..a.n).collect() };
    for idx in range {
        let mut r = base.fork(idx as u64);
        let store = r.below(6);
        let nops = r.range(1, 40);
        let ninit = r.below(9);
        if idx % 2 == 0 {
            let mut init: Vec<Q4> = (0..ninit).map(|_| (gen_t3(&mut r), gen_g(&mut r))).collect();
            // triples shared by several graphs (a union view then shows them several times)
            for k in 0..init.len() { if r.chance(1, 3) { let t = init[k].0; init.push((t, gen_g(&mut r))); } }
            // state-aware generation: `known` approximates the quads inserted so far (removals ignored)
            let mut known: Vec<Q4> = init.clone();
            let ops: Vec<Op> = (0..nops).map(|_| {
                let one = |x: Tid| MD::OneOf(vec![x]);
                if !known.is_empty() && r.chance(1, 6) {
                    let (t, g) = *r.pick(&known);
                    match r.below(11) {
                        // the same triple in another graph, directly or through a view
                        0 => { let q = (t, gen_g(&mut r)); known.push(q); Op::DInsert(q) }
                        1 => { let g2 = gen_g(&mut r); known.push((t, g2)); Op::VInsert(g2, t) }
                        // fully bound patterns on a triple that exists (possibly in several graphs)
                        2 => Op::QUnion(one(t[0]), one(t[1]), one(t[2])),
                        3 => Op::QPUnion(if r.chance(1, 2) { GD::Any } else { GD::OneOf(vec![g, gen_g(&mut r)]) }, one(t[0]), one(t[1]), one(t[2])),
                        4 => Op::QGraph(g, one(t[0]), one(t[1]), one(t[2])),
                        5 => Op::QDirect(one(t[0]), one(t[1]), one(t[2]), gen_gd(&mut r)),
                        6 => Op::VRemove(gen_g(&mut r), t),
                        7 => Op::CUnion(t),
                        8 | 9 => Op::CPUnion(match r.below(4) { 0 => GD::Any, 1 => GD::OneOf(vec![None, g]), 2 => GD::OneOf(vec![g, gen_g(&mut r)]), _ => gen_gd(&mut r) }, t),
                        _ => Op::CGraph(if r.chance(2, 3) { g } else { gen_g(&mut r) }, t),
                    }
                } else { let o = gen_op(&mut r); match &o { Op::DInsert(q) => known.push(*q), Op::VInsert(g, t) => known.push((*t, *g)), _ => {} } o }
            }).collect();
            let outs = match store {
                0 => run_ds::<sophia_inmem::dataset::FastDataset>(&ctx, &init, &ops, &mut r),
                1 => run_ds::<sophia_inmem::dataset::LightDataset>(&ctx, &init, &ops, &mut r),
                2 => run_ds::<sophia_inmem::dataset::small::FastDataset>(&ctx, &init, &ops, &mut r),
                3 => run_ds::<sophia_inmem::dataset::small::LightDataset>(&ctx, &init, &ops, &mut r),
                4 => run_ds::<HashSet<Spog<ST>>>(&ctx, &init, &ops, &mut r),
                _ => run_ds::<BTreeSet<Spog<ST>>>(&ctx, &init, &ops, &mut r),
            };
            let exp = oracle_ds(&init, &ops);
            let text = format!("{} init={:?} ops={:?}", DS_STORES[store], init, ops);
            if a.only.is_some() { println!("CASE {idx}: {text}\nIMPL   {outs:?}\nORACLE {exp:?}"); }
            if outs != exp {
                let k = outs.iter().zip(exp.iter()).position(|(x, y)| x != y).unwrap_or(0);
                sum.oracle_failures.push((idx.to_string(), format!("store={} op#{k} {:?}: implementation returned {:?}, a plain set gives {:?}; full case: {text}", DS_STORES[store], ops.get(k), outs.get(k), exp.get(k))));
            }
            let changed = ops.iter().zip(outs.iter()).any(|(o, x)| (matches!(o, Op::VInsert(..) | Op::VRemove(..)) && *x == Out::Flag(true)) || matches!(x, Out::Count(n) if *n > 0));
            let nonempty = outs.iter().any(|x| matches!(x, Out::Triples(l) if !l.is_empty()) || matches!(x, Out::Quads(l) if !l.is_empty()));
            if seen.insert(text.clone()) && changed && nonempty { sum.distinct_nontrivial += 1; }
            sum.bump(&format!("store:{}", DS_STORES[store]));
            for o in &ops { sum.bump(&format!("op:{}", format!("{o:?}").split('(').next().unwrap())); }
            if sum.samples.len() < 3 { sum.samples.push(format!("case {idx}: {text} => {outs:?}")); }
            let keep: Vec<usize> = (0..ops.len()).filter(|k| !matches!(ops[*k], Op::CUnion(..) | Op::CPUnion(..) | Op::CGraph(..))).collect();
            cases.push((idx, format!("case_ok the_pool {} {} {}", coq_list(init.iter().map(c_q4)), coq_list(keep.iter().map(|k| c_op(&ops[*k]))), coq_list(keep.iter().map(|k| c_out(&outs[*k]))))));
        } else {
            let init: Vec<T3> = (0..ninit).map(|_| gen_t3(&mut r)).collect();
            let ops: Vec<GOp> = (0..nops).map(|_| gen_gop(&mut r)).collect();
            let outs = match store {
                0 => run_gad::<sophia_inmem::graph::FastGraph>(&ctx, &init, &ops, &mut r),
                1 => run_gad::<sophia_inmem::graph::LightGraph>(&ctx, &init, &ops, &mut r),
                2 => run_gad::<sophia_inmem::graph::small::FastGraph>(&ctx, &init, &ops, &mut r),
                3 => run_gad::<sophia_inmem::graph::small::LightGraph>(&ctx, &init, &ops, &mut r),
                4 => run_gad::<HashSet<[ST; 3]>>(&ctx, &init, &ops, &mut r),
                _ => run_gad::<BTreeSet<[ST; 3]>>(&ctx, &init, &ops, &mut r),
            };
            let (exp, prim) = oracle_gad(&init, &ops);
            let text = format!("GraphAsDataset<{}> init={:?} ops={:?}", GR_STORES[store], init, ops);
            if a.only.is_some() { println!("CASE {idx}: {text}\nIMPL   {outs:?}\nORACLE {exp:?}"); }
            if outs != exp {
                let k = outs.iter().zip(exp.iter()).position(|(x, y)| x != y).unwrap_or(0);
                sum.oracle_failures.push((idx.to_string(), format!("store=GraphAsDataset<{}> op#{k} {:?}: implementation returned {:?}, a plain set gives {:?}; full case: {text}", GR_STORES[store], ops.get(k), outs.get(k), exp.get(k))));
            }
            let changed = ops.iter().zip(outs.iter()).any(|(o, x)| (matches!(o, GOp::Insert(..) | GOp::Remove(..)) && *x == GOut::Ok(true)) || matches!(x, GOut::Count(n) if *n > 0));
            let nonempty = outs.iter().any(|x| matches!(x, GOut::Quads(l) if !l.is_empty()));
            if seen.insert(text.clone()) && changed && nonempty { sum.distinct_nontrivial += 1; }
            sum.bump(&format!("store:GraphAsDataset<{}>", GR_STORES[store]));
            for o in &ops { sum.bump(&format!("gop:{}", format!("{o:?}").split('(').next().unwrap())); }
            if sum.samples.len() < 3 { sum.samples.push(format!("case {idx}: {text} => {outs:?}")); }
            // for Coq: single operations with the implementation's outputs; bulk operations through their expansion into
            // single operations (flags from the plain-set oracle): the model then has to agree on every LATER observation
            let (mut cops, mut couts) = (vec![], vec![]);
            for (k, op) in ops.iter().enumerate() {
                if matches!(op, GOp::RemoveAll(..) | GOp::InsertAll(..)) { for (o, x) in &prim[k] { cops.push(c_gop(o)); couts.push(c_gout(x)); } }
                else { cops.push(c_gop(op)); couts.push(c_gout(&outs[k])); }
            }
            cases.push((idx, format!("gcase_ok {} {} {}", coq_list(init.iter().map(c_t3)), coq_list(cops), coq_list(couts))));
        }
        sum.evaluations += 1;
    }
    if a.only.is_none() {
        let pool_def = format!("From Sophia.C11 Require Import Model.\nDefinition the_pool : pool := {}.", coq_list((1..=NT).map(|i| { let (k, at, tc) = pool_info(i); format!("({i}, ({k}, {}, {}))", coq_list(at.iter().map(|x| x.to_string())), coq_list(tc.iter().map(|x| x.to_string()))) })));
        sum.shards = write_shards(&a.out, &pool_def, &cases, a.shards);
        std::fs::write(format!("{}/summary.json", a.out), sum.to_json()).unwrap();
    }
    println!("c11: {} cases, {} distinct non-trivial, {} oracle failures", sum.evaluations, sum.distinct_nontrivial, sum.oracle_failures.len());
}
