#!/usr/bin/env python3
"""usage: record_seed.py <seed-dir> <name> <round> <detection text>
Copies patch.diff, demo_test.rs and meta.json of a confirmed seed into /verif/seeded/<name>/, adding the verdict."""
import json, os, shutil, subprocess, sys
sd, name, rnd, det = sys.argv[1], sys.argv[2], int(sys.argv[3]), sys.argv[4]
ROOT = os.path.dirname(os.path.dirname(os.path.abspath(__file__)))
dst = os.path.join(ROOT, "seeded", name)
os.makedirs(dst, exist_ok=True)
for f in ("patch.diff", "demo_test.rs"):
    shutil.copy(os.path.join(sd, f), os.path.join(dst, f))
m = json.load(open(os.path.join(sd, "meta.json")))
m["round"] = rnd
tag = os.path.basename(sd.rstrip("/")).replace("seed-", "")
ver = ""
vf = "/root/seedlogs/%s.verdict" % tag[:-1]
if os.path.exists(vf):
    for l in open(vf):
        if l.startswith(tag + ":"):
            ver = l.strip()
m["made_against_repo_commit"] = m.get("made_against_repo_commit", subprocess.run(["git", "-C", "/repo", "log", "--format=%h", "-1"], capture_output=True, text=True).stdout.strip())
m["confirmed_by_me"] = ["lib/seed_round.sh (confirm_seed.sh in a scratch worktree: demonstration passes without the change, fails with it, cargo test --workspace --offline passes with it): " + ver,
                        "check run against the patch in a private mount namespace (lib/shadow_seedtest.sh / lib/try_seed.sh) with /repo at " + subprocess.run(["git", "-C", "/repo", "log", "--format=%h", "-1"], capture_output=True, text=True).stdout.strip()]
m["detection"] = det
json.dump(m, open(os.path.join(dst, "meta.json"), "w"), indent=1, ensure_ascii=False)
print("recorded", dst)
