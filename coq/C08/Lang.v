(* C08/Lang.v -- denotation of regular expressions in RelationAlgebra's model of languages over
   code points; correctness of the derivative matcher w.r.t. that denotation; soundness of the
   abstraction of classes to atoms.  (RelationAlgebra cannot be imported together with Coq's Bool,
   hence andb/orb lemmas are used with qualified names.) *)
From RelationAlgebra Require Import lattice monoid kleene kat_tac lang.
From Coq Require Import NArith List Lia.
From Sophia.C08 Require Import Regex Eval AtomsProofs.
Import ListNotations.
Close Scope N_scope.

(* one-letter words whose letter satisfies P *)
Definition sym (P : N -> bool) : lang' N := fun w => exists c, w = [c] /\ P c = true.

Section Sem.
  Context {A : Type} (test : N -> A -> bool).

  (* the language of a regex: Emp -> 0, Eps -> 1, Alt -> +, Cat -> concatenation, Star -> Kleene star *)
  Definition langg (r : rex A) : lang' N := eval lang_tt (fun a => sym (fun c => test c a)) r.

  Lemma nullable_spec (r : rex A) : nullable r = true <-> langg r [].
  Proof.
    induction r as [| |a|r IHr s IHs|r IHr s IHs|r IHr]; simpl.
    - split; [discriminate | intros []].
    - split; [reflexivity | reflexivity].
    - split; [discriminate|]. intros [c [H _]]. discriminate.
    - change (langg (Alt r s) []) with (langg r [] \/ langg s []).
      destruct (nullable r); [tauto|]. rewrite IHs. split; [tauto|]. intros [H|H]; [|exact H].
      apply IHr in H. discriminate.
    - pose proof (lang_dot_nil N (langg r) (langg s)) as D.
      change (langg (Cat r s) []) with ((langg r ⋅ langg s) []).
      destruct (nullable r).
      + rewrite IHs. tauto.
      + split; [discriminate|]. intros H. apply D in H. destruct H as [H _]. apply IHr in H. discriminate.
    - split; [|reflexivity]. intros _. exists O. reflexivity.
  Qed.

  Lemma mk_alt_sem (r s : rex A) : langg (mk_alt r s) ≡ langg r + langg s.
  Proof. apply eval_mk_alt. Qed.

  Lemma mk_cat_sem (r s : rex A) : langg (mk_cat r s) ≡ langg r ⋅ langg s.
  Proof. apply eval_mk_cat. Qed.

  Global Instance lang_deriv_weq c : Proper (weq ==> weq) (@lang_deriv N c).
  Proof. intros x y H w. apply H. Qed.

  Lemma deriv_sym c P : lang_deriv c (sym P) ≡ (if P c then 1 else 0).
  Proof.
    intro w. unfold lang_deriv, sym. destruct (P c) eqn:E; simpl.
    - split.
      + intros [d [H _]]. inversion H. reflexivity.
      + intros H. change ([] = w) in H. subst w. exists c. auto.
    - split; [|intros []]. intros [d [H H']]. inversion H. subst. congruence.
  Qed.

  Lemma deriv_sem c (r : rex A) : langg (deriv (test c) r) ≡ lang_deriv c (langg r).
  Proof.
    induction r as [| |a|r IHr s IHs|r IHr s IHs|r IHr].
    - simpl. symmetry. apply lang_deriv_0.
    - simpl. symmetry. apply lang_deriv_1.
    - change (langg (Lf a)) with (sym (fun c => test c a)). rewrite deriv_sym. simpl.
      destruct (test c a); reflexivity.
    - simpl deriv. rewrite mk_alt_sem, IHr, IHs.
      change (langg (Alt r s)) with (langg r + langg s). symmetry. apply lang_deriv_pls.
    - change (langg (Cat r s)) with (langg r ⋅ langg s). simpl deriv.
      destruct (nullable r) eqn:E.
      + rewrite mk_alt_sem, mk_cat_sem, IHr, IHs. symmetry. apply lang_deriv_dot_1.
        apply nullable_spec. exact E.
      + rewrite mk_cat_sem, IHr. symmetry. apply lang_deriv_dot_2.
        intro H. apply nullable_spec in H. congruence.
    - change (langg (Star r)) with ((langg r)^*). simpl deriv. rewrite mk_cat_sem, IHr.
      change (langg (Star r)) with ((langg r)^*). symmetry. apply lang_deriv_str.
  Qed.

  (* the executable matcher decides membership in the language *)
  Theorem matchg_spec (w : Prelude.str) : forall r, matchg test r w = true <-> langg r w.
  Proof.
    induction w as [|c w IH]; intro r; simpl.
    - apply nullable_spec.
    - rewrite IH. apply (deriv_sem c r w).
  Qed.
End Sem.

(* concrete regexes (leaves = classes) and atom regexes (leaves = atom numbers) *)
Definition langc : rex cclass -> lang' N := langg inr.
Definition langa : rex N -> lang' N := langg (fun c a => N.eqb (atom_of c) a).

Theorem matchb_spec r w : matchb r w = true <-> langc r w.
Proof. apply matchg_spec. Qed.
Theorem matcha_spec r w : matcha r w = true <-> langa r w.
Proof. apply matchg_spec. Qed.

(* ---------- abstraction to atoms is exact on aligned classes ---------- *)
Lemma sym_ext P Q : (forall c, P c = Q c) -> sym P ≡ sym Q.
Proof.
  intros H w. unfold sym.
  split; intros [c [H1 H2]]; exists c; (split; [exact H1|]); [rewrite <- H | rewrite H]; exact H2.
Qed.

Lemma sym_orb P Q : sym (fun c => orb (P c) (Q c)) ≡ sym P + sym Q.
Proof.
  intro w. unfold sym. split.
  - intros [c [H1 H2]]. apply Bool.orb_true_iff in H2. destruct H2; [left|right]; exists c; auto.
  - intros [[c [H1 H2]]|[c [H1 H2]]]; exists c; rewrite H2; auto using Bool.orb_true_r.
Qed.

Lemma sym_false : sym (fun _ => false) ≡ 0.
Proof. intro w. split; [intros [c [_ H]]; discriminate | intros []]. Qed.

Lemma sum_atoms_sem l : langa (sum_atoms l) ≡ sym (fun c => memN (atom_of c) l).
Proof.
  induction l as [|a l IH].
  - simpl. symmetry. apply sym_false.
  - destruct l as [|b l'].
    + simpl. apply sym_ext. intro c. rewrite Bool.orb_false_r. reflexivity.
    + change (sum_atoms (a :: b :: l')) with (Alt (Lf a) (sum_atoms (b :: l'))).
      change (langa (Alt (Lf a) (sum_atoms (b :: l')))) with
        (sym (fun c => N.eqb (atom_of c) a) + langa (sum_atoms (b :: l'))).
      rewrite IH. rewrite <- sym_orb. apply sym_ext. intro c. reflexivity.
Qed.

Theorem abstract_sound (r : rex cclass) : all_aligned r = true -> langc r ≡ langa (abstract r).
Proof.
  induction r as [| |rs|r IHr s IHs|r IHr s IHs|r IHr]; intro H.
  - reflexivity.
  - reflexivity.
  - change (sym (fun c => inr c rs) ≡ langa (sum_atoms (atoms_in rs))).
    rewrite sum_atoms_sem. apply sym_ext. intro c. apply aligned_spec. exact H.
  - cbn [all_aligned] in H. apply Bool.andb_true_iff in H. destruct H as [H1 H2].
    change (langc r + langc s ≡ langa (abstract r) + langa (abstract s)).
    rewrite (IHr H1), (IHs H2). reflexivity.
  - cbn [all_aligned] in H. apply Bool.andb_true_iff in H. destruct H as [H1 H2].
    change (langc r ⋅ langc s ≡ langa (abstract r) ⋅ langa (abstract s)).
    rewrite (IHr H1), (IHs H2). reflexivity.
  - cbn [all_aligned] in H.
    change ((langc r)^* ≡ (langa (abstract r))^*). rewrite (IHr H). reflexivity.
Qed.

(* From an identity valid in every Kleene algebra (what `ka` proves) to the two matchers. *)
Theorem ka_to_matchb (r s : rex cclass) :
  all_aligned r = true -> all_aligned s = true ->
  (forall (f : N -> lang' N), eval lang_tt f (abstract r) ≡ eval lang_tt f (abstract s)) ->
  forall w, matchb r w = matchb s w.
Proof.
  intros Hr Hs H w.
  assert (E : langc r w <-> langc s w).
  { rewrite (abstract_sound r Hr w), (abstract_sound s Hs w). apply (H _ w). }
  destruct (matchb r w) eqn:E1; destruct (matchb s w) eqn:E2; try reflexivity.
  - apply matchb_spec in E1. apply E in E1. apply matchb_spec in E1. congruence.
  - apply matchb_spec in E2. apply E in E2. apply matchb_spec in E2. congruence.
Qed.

(* alternation at the top of a regex is the disjunction of the matchers (RegexSet::is_match) *)
Theorem matchb_alt (r s : rex cclass) w : matchb (Alt r s) w = orb (matchb r w) (matchb s w).
Proof.
  assert (E : langc (Alt r s) w <-> langc r w \/ langc s w) by reflexivity.
  destruct (matchb (Alt r s) w) eqn:E0; destruct (matchb r w) eqn:E1; destruct (matchb s w) eqn:E2;
    try reflexivity; exfalso.
  - apply matchb_spec in E0. apply E in E0. destruct E0 as [H|H]; apply matchb_spec in H; congruence.
  - assert (H : langc (Alt r s) w) by (apply E; left; apply matchb_spec; exact E1).
    apply matchb_spec in H. congruence.
  - assert (H : langc (Alt r s) w) by (apply E; left; apply matchb_spec; exact E1).
    apply matchb_spec in H. congruence.
  - assert (H : langc (Alt r s) w) by (apply E; right; apply matchb_spec; exact E2).
    apply matchb_spec in H. congruence.
Qed.
