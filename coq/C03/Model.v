(* C03/Model.v -- N-Triples / N-Quads serialisation (sophia_turtle::serializer::{nt,nq}) and a
   reference reader of the W3C N-Quads grammar (with the RDF-star `<< >>` extension).
   Definitions only; proofs are in Proofs.v.

   Part 1 transcribes the Rust writer at BYTE level (strings of the term are UTF-8 encoded with
   `utf8` of Common/Term.v, `quoted_string` works on bytes exactly like the Rust function).
   Part 2 is the reference reader, written from the grammar of
   https://www.w3.org/TR/n-quads/#sec-grammar (+ quotedTriple of N-Triples-star): a strict UTF-8
   decoder followed by a recursive-descent reader over code points.
   Part 3: well-formedness (boolean), code-point view of the writer, harness-facing checkers. *)
From Sophia.Common Require Import Prelude Term.

(* ------------------------------------------------------------------------------------------ *)
(** * Part 1: the writer (turtle/src/serializer/nt.rs, nq.rs)                                  *)
(* ------------------------------------------------------------------------------------------ *)

(* "http://www.w3.org/2001/XMLSchema#string" (sophia_api::ns::xsd::string) *)
Definition xsd_string : str :=
  [104;116;116;112;58;47;47;119;119;119;46;119;51;46;111;114;103;47;50;48;48;49;47;88;77;76;83;
   99;104;101;109;97;35;115;116;114;105;110;103].

(* nt.rs l.176: `chr <= b'\\' && (chr == b'\n' || chr == b'\r' || chr == b'\\' || chr == b'\x22')` *)
Definition is_special (c : N) : bool :=
  (c <=? 92) && ((c =? 10) || (c =? 13) || (c =? 92) || (c =? 34)).

(* the `for (pos, chr) in txt.iter().enumerate()` loop of quoted_string: the bytes before the
   first special byte (`txt[..cut]`), and, if there is one, that byte (`cutchar`) with the
   bytes after it (`txt[cut + 1..]`) *)
Fixpoint qs_scan (txt : list N) : list N * option (N * list N) :=
  match txt with
  | [] => ([], None)
  | c :: r =>
      if is_special c then ([], Some (c, r))
      else let (pre, x) := qs_scan r in (c :: pre, x)
  end.

(* the `match cutchar` of quoted_string (the last arm is `unreachable!()`) *)
Definition esc (c : N) : list N :=
  if c =? 10 then [92; 110]
  else if c =? 13 then [92; 114]
  else if c =? 34 then [92; 34]
  else if c =? 92 then [92; 92]
  else [].

(* quoted_string: write the prefix, the escape, then recurse on the remainder unless
   `cut + 1 >= txt.len()`.  The recursion is on a strictly shorter slice: fuel = length + 1. *)
Fixpoint quoted_string_f (fuel : nat) (txt : list N) : list N :=
  match fuel with
  | O => []
  | S f =>
      let (pre, x) := qs_scan txt in
      pre ++ match x with
             | None => []
             | Some (c, rest) =>
                 esc c ++ match rest with [] => [] | _ :: _ => quoted_string_f f rest end
             end
  end.
Definition quoted_string (txt : list N) : list N := quoted_string_f (S (length txt)) txt.

(* write_term, with write_triple inlined in the Triple arm (they are mutually recursive) *)
Fixpoint write_term (t : term) : list N :=
  match t with
  | Iri s => [60] ++ utf8 s ++ [62]
  | Bnode s => [95; 58] ++ utf8 s
  | LitDt lex dt =>
      [34] ++ quoted_string (utf8 lex) ++
      (if negb (str_eqb xsd_string dt) then [34; 94; 94; 60] ++ utf8 dt ++ [62] else [34])
  | LitLang lex tag => [34] ++ quoted_string (utf8 lex) ++ [34; 64] ++ utf8 tag
  | Triple s p o =>
      [60; 60] ++ (write_term s ++ [32] ++ write_term p ++ [32] ++ write_term o) ++ [62; 62]
  | Var s => [63] ++ utf8 s
  end.
Definition write_triple (s p o : term) : list N :=
  write_term s ++ [32] ++ write_term p ++ [32] ++ write_term o.

Definition triple := (term * term * term)%type.
Definition quad := (term * term * term * option term)%type.

(* NtSerializer::serialize_triples: write_triple then ".\n" *)
Definition nt_write_triple (t : triple) : list N :=
  let '(s, p, o) := t in write_triple s p o ++ [46; 10].
Definition nt_write (ts : list triple) : list N := flat_map nt_write_triple ts.

(* NqSerializer::serialize_quads: write_triple, then ".\n" or " " graph-name ".\n" *)
Definition nq_write_quad (q : quad) : list N :=
  let '(s, p, o, g) := q in
  write_triple s p o ++
  match g with
  | None => [46; 10]
  | Some t => [32] ++ write_term t ++ [46; 10]
  end.
Definition nq_write (qs : list quad) : list N := flat_map nq_write_quad qs.

(* ------------------------------------------------------------------------------------------ *)
(** * Part 2: the reference reader                                                             *)
(* ------------------------------------------------------------------------------------------ *)

(* Unicode scalar values *)
Definition scalar (c : N) : bool := (c <? 55296) || ((57343 <? c) && (c <? 1114112)).
Definition scalar_str (s : str) : bool := forallb scalar s.

(* strict UTF-8 decoder (rejects overlong forms, surrogates, values above U+10FFFF) *)
Definition cont (b : N) : bool := (128 <=? b) && (b <? 192).
Fixpoint utf8_dec (l : list N) : option str :=
  match l with
  | [] => Some []
  | b0 :: r =>
      if b0 <? 128 then option_map (cons b0) (utf8_dec r)
      else if b0 <? 192 then None
      else if b0 <? 224 then
        match r with
        | b1 :: r1 =>
            let c := (b0 - 192) * 64 + (b1 - 128) in
            if cont b1 && (128 <=? c) then option_map (cons c) (utf8_dec r1) else None
        | _ => None
        end
      else if b0 <? 240 then
        match r with
        | b1 :: b2 :: r1 =>
            let c := (b0 - 224) * 4096 + (b1 - 128) * 64 + (b2 - 128) in
            if cont b1 && cont b2 && (2048 <=? c) && scalar c
            then option_map (cons c) (utf8_dec r1) else None
        | _ => None
        end
      else if b0 <? 248 then
        match r with
        | b1 :: b2 :: b3 :: r1 =>
            let c := (b0 - 240) * 262144 + (b1 - 128) * 4096 + (b2 - 128) * 64 + (b3 - 128) in
            if cont b1 && cont b2 && cont b3 && (65536 <=? c) && scalar c
            then option_map (cons c) (utf8_dec r1) else None
        | _ => None
        end
      else None
  end.

(* ---- character classes of the grammar ---- *)
Definition in_rng (lo hi c : N) : bool := (lo <=? c) && (c <=? hi).
Definition alpha (c : N) : bool := in_rng 65 90 c || in_rng 97 122 c.
Definition digit (c : N) : bool := in_rng 48 57 c.
Definition alnum (c : N) : bool := alpha c || digit c.
(* HEX ::= [0-9] | [A-F] | [a-f] *)
Definition hexval (c : N) : option N :=
  if digit c then Some (c - 48)
  else if in_rng 65 70 c then Some (c - 55)
  else if in_rng 97 102 c then Some (c - 87)
  else None.
Definition hex4 (a b c d : N) : option N :=
  match hexval a, hexval b, hexval c, hexval d with
  | Some x, Some y, Some z, Some w => Some (((x * 16 + y) * 16 + z) * 16 + w)
  | _, _, _, _ => None
  end.
(* PN_CHARS_BASE ::= [A-Z] | [a-z] | [#x00C0-#x00D6] | [#x00D8-#x00F6] | [#x00F8-#x02FF]
     | [#x0370-#x037D] | [#x037F-#x1FFF] | [#x200C-#x200D] | [#x2070-#x218F] | [#x2C00-#x2FEF]
     | [#x3001-#xD7FF] | [#xF900-#xFDCF] | [#xFDF0-#xFFFD] | [#x10000-#xEFFFF] *)
Definition pn_chars_base (c : N) : bool :=
  alpha c || in_rng 192 214 c || in_rng 216 246 c || in_rng 248 767 c || in_rng 880 893 c
  || in_rng 895 8191 c || in_rng 8204 8205 c || in_rng 8304 8591 c || in_rng 11264 12271 c
  || in_rng 12289 55295 c || in_rng 63744 64975 c || in_rng 65008 65533 c
  || in_rng 65536 983039 c.
(* PN_CHARS_U ::= PN_CHARS_BASE | '_' | ':'        (N-Triples / N-Quads version) *)
Definition pn_chars_u (c : N) : bool := pn_chars_base c || (c =? 95) || (c =? 58).
(* PN_CHARS ::= PN_CHARS_U | '-' | [0-9] | #x00B7 | [#x0300-#x036F] | [#x203F-#x2040] *)
Definition pn_chars (c : N) : bool :=
  pn_chars_u c || (c =? 45) || digit c || (c =? 183) || in_rng 768 879 c || in_rng 8255 8256 c.
(* the characters allowed raw in IRIREF: [^#x00-#x20<> DQUOTE {}|^`\] *)
Definition iri_char (c : N) : bool :=
  negb (c <=? 32) && negb (c =? 60) && negb (c =? 62) && negb (c =? 34) && negb (c =? 123)
  && negb (c =? 125) && negb (c =? 124) && negb (c =? 94) && negb (c =? 96) && negb (c =? 92).
(* ECHAR ::= '\' [tbnrf DQUOTE ' \] *)
Definition echar (e : N) : option N :=
  if e =? 116 then Some 9 else if e =? 98 then Some 8 else if e =? 110 then Some 10
  else if e =? 114 then Some 13 else if e =? 102 then Some 12 else if e =? 34 then Some 34
  else if e =? 39 then Some 39 else if e =? 92 then Some 92 else None.

Definition is_ws (c : N) : bool := (c =? 32) || (c =? 9).
Definition is_eol (c : N) : bool := (c =? 10) || (c =? 13).
Fixpoint skip_ws (l : str) : str :=
  match l with
  | c :: r => if is_ws c then skip_ws r else l
  | [] => []
  end.

(* IRIREF ::= '<' ([^#x00-#x20<> DQUOTE {}|^`\] | UCHAR)* '>'      (after the '<')
   UCHAR  ::= '\u' HEX HEX HEX HEX | '\U' HEX HEX HEX HEX HEX HEX HEX HEX
   returns the IRI and the input after the '>' *)
Fixpoint rd_iri_body (l : str) : option (str * str) :=
  match l with
  | [] => None
  | c :: r =>
      if c =? 62 then Some ([], r)
      else if c =? 92 then
        match r with
        | e :: a :: b :: c1 :: d :: r1 =>
            if e =? 117 then
              match hex4 a b c1 d with
              | Some v =>
                  if iri_char v && scalar v then
                    match rd_iri_body r1 with
                    | Some (s, r') => Some (v :: s, r')
                    | None => None
                    end
                  else None
              | None => None
              end
            else if e =? 85 then
              match r1 with
              | a2 :: b2 :: c2 :: d2 :: r2 =>
                  match hex4 a b c1 d, hex4 a2 b2 c2 d2 with
                  | Some hi, Some lo =>
                      let v := hi * 65536 + lo in
                      if iri_char v && scalar v then
                        match rd_iri_body r2 with
                        | Some (s, r') => Some (v :: s, r')
                        | None => None
                        end
                      else None
                  | _, _ => None
                  end
              | _ => None
              end
            else None
        | _ => None
        end
      else if iri_char c then
        match rd_iri_body r with
        | Some (s, r') => Some (c :: s, r')
        | None => None
        end
      else None
  end.

(* STRING_LITERAL_QUOTE ::= DQUOTE ([^#x22#x5C#xA#xD] | ECHAR | UCHAR)* DQUOTE     (after the opening DQUOTE)
   returns the unescaped string and the input after the closing quote *)
Fixpoint rd_str_body (l : str) : option (str * str) :=
  match l with
  | [] => None
  | c :: r =>
      if c =? 34 then Some ([], r)
      else if c =? 92 then
        match r with
        | [] => None
        | e :: r1 =>
            match echar e with
            | Some v =>
                match rd_str_body r1 with
                | Some (s, r') => Some (v :: s, r')
                | None => None
                end
            | None =>
                if e =? 117 then
                  match r1 with
                  | a :: b :: c1 :: d :: r2 =>
                      match hex4 a b c1 d with
                      | Some v =>
                          if scalar v then
                            match rd_str_body r2 with
                            | Some (s, r') => Some (v :: s, r')
                            | None => None
                            end
                          else None
                      | None => None
                      end
                  | _ => None
                  end
                else if e =? 85 then
                  match r1 with
                  | a :: b :: c1 :: d :: a2 :: b2 :: c2 :: d2 :: r2 =>
                      match hex4 a b c1 d, hex4 a2 b2 c2 d2 with
                      | Some hi, Some lo =>
                          let v := hi * 65536 + lo in
                          if scalar v then
                            match rd_str_body r2 with
                            | Some (s, r') => Some (v :: s, r')
                            | None => None
                            end
                          else None
                      | _, _ => None
                      end
                  | _ => None
                  end
                else None
            end
        end
      else if is_eol c then None
      else
        match rd_str_body r with
        | Some (s, r') => Some (c :: s, r')
        | None => None
        end
  end.

(* the inverse of quoted_string as a function on whole strings *)
Definition unescape (l : str) : option str :=
  match rd_str_body (l ++ [34]) with
  | Some (s, []) => Some s
  | _ => None
  end.

(* LANGTAG ::= '@' [a-zA-Z]+ ('-' [a-zA-Z0-9]+)*      (after the '@'), longest match.
   rd_sub reads ([a-zA-Z0-9]+ ('-' [a-zA-Z0-9]+)* )? ; st = true: a '-' was just read, an
   alphanumeric character is required (None: the caller gives the '-' back) *)
Fixpoint rd_sub (st : bool) (l : str) : option (str * str) :=
  match l with
  | [] => if st then None else Some ([], [])
  | c :: r =>
      if alnum c then
        match rd_sub false r with
        | Some (t, r') => Some (c :: t, r')
        | None => None
        end
      else if (c =? 45) && negb st then
        match rd_sub true r with
        | Some (t, r') => Some (c :: t, r')
        | None => Some ([], l)
        end
      else if st then None else Some ([], l)
  end.
Fixpoint rd_first (l : str) : option (str * str) :=
  match l with
  | [] => Some ([], [])
  | c :: r =>
      if alpha c then
        match rd_first r with
        | Some (t, r') => Some (c :: t, r')
        | None => None
        end
      else if digit c then None
      else if c =? 45 then
        match rd_sub true r with
        | Some (t, r') => Some (c :: t, r')
        | None => Some ([], l)
        end
      else Some ([], l)
  end.
Definition rd_langtag (l : str) : option (str * str) :=
  match l with
  | c :: _ => if alpha c then rd_first l else None
  | [] => None
  end.

(* BLANK_NODE_LABEL ::= '_:' (PN_CHARS_U | [0-9]) ((PN_CHARS | '.')* PN_CHARS)?
   lab_tail reads the longest ((PN_CHARS | '.')* PN_CHARS)? : a '.' is taken only if what
   follows it is again a non-empty tail *)
Fixpoint lab_tail (l : str) : str * str :=
  match l with
  | [] => ([], [])
  | c :: r =>
      if pn_chars c then let (t, r') := lab_tail r in (c :: t, r')
      else if c =? 46 then
        let (t, r') := lab_tail r in
        match t with
        | [] => ([], l)
        | _ :: _ => (c :: t, r')
        end
      else ([], l)
  end.
(* after the '_' *)
Definition rd_label (l : str) : option (str * str) :=
  match l with
  | c :: c1 :: r =>
      if (c =? 58) && (pn_chars_u c1 || digit c1)
      then let (t, r') := lab_tail r in Some (c1 :: t, r')
      else None
  | _ => None
  end.

(* literal ::= STRING_LITERAL_QUOTE ('^^' IRIREF | LANGTAG)?       (after the opening DQUOTE) *)
Definition rd_literal (l : str) : option (term * str) :=
  match rd_str_body l with
  | None => None
  | Some (lex, r) =>
      match r with
      | c :: r1 =>
          if c =? 64 then
            match rd_langtag r1 with
            | Some (tag, r2) => Some (LitLang lex tag, r2)
            | None => None
            end
          else if c =? 94 then
            match r1 with
            | c2 :: c3 :: r2 =>
                if (c2 =? 94) && (c3 =? 60) then
                  match rd_iri_body r2 with
                  | Some (dt, r3) => Some (LitDt lex dt, r3)
                  | None => None
                  end
                else None
            | _ => None
            end
          else Some (LitDt lex xsd_string, r)
      | [] => Some (LitDt lex xsd_string, [])
      end
  end.

(* subject ::= IRIREF | BLANK_NODE_LABEL | quotedTriple      predicate ::= IRIREF
   object ::= IRIREF | BLANK_NODE_LABEL | literal | quotedTriple
   graphLabel ::= IRIREF | BLANK_NODE_LABEL
   quotedTriple ::= '<<' subject predicate object '>>' *)
Inductive pos := PSubj | PPred | PObj | PGraph.
Definition allows_quoted (p : pos) : bool := match p with PSubj | PObj => true | _ => false end.
Definition allows_bnode (p : pos) : bool := match p with PPred => false | _ => true end.
Definition allows_literal (p : pos) : bool := match p with PObj => true | _ => false end.

Fixpoint rd_term (fuel : nat) (p : pos) (l : str) : option (term * str) :=
  match fuel with
  | O => None
  | S f =>
      match l with
      | [] => None
      | c :: r =>
          if c =? 60 then
            match r with
            | [] => None
            | c2 :: r2 =>
                if c2 =? 60 then
                  if allows_quoted p then
                    match rd_term f PSubj (skip_ws r2) with
                    | None => None
                    | Some (s, l1) =>
                        match rd_term f PPred (skip_ws l1) with
                        | None => None
                        | Some (pr, l2) =>
                            match rd_term f PObj (skip_ws l2) with
                            | None => None
                            | Some (o, l3) =>
                                match skip_ws l3 with
                                | e1 :: e2 :: l4 =>
                                    if (e1 =? 62) && (e2 =? 62)
                                    then Some (Triple s pr o, l4) else None
                                | _ => None
                                end
                            end
                        end
                    end
                  else None
                else
                  match rd_iri_body r with
                  | Some (s, l') => Some (Iri s, l')
                  | None => None
                  end
            end
          else if c =? 95 then
            if allows_bnode p then
              match rd_label r with
              | Some (s, l') => Some (Bnode s, l')
              | None => None
              end
            else None
          else if c =? 34 then
            if allows_literal p then rd_literal r else None
          else None
      end
  end.

(* statement ::= subject predicate object graphLabel? '.'
   returns the quad and the input after the '.' *)
Definition rd_statement (fuel : nat) (l : str) : option (quad * str) :=
  match rd_term fuel PSubj (skip_ws l) with
  | None => None
  | Some (s, l1) =>
      match rd_term fuel PPred (skip_ws l1) with
      | None => None
      | Some (p, l2) =>
          match rd_term fuel PObj (skip_ws l2) with
          | None => None
          | Some (o, l3) =>
              match skip_ws l3 with
              | [] => None
              | c :: r =>
                  if c =? 46 then Some ((s, p, o, None), r)
                  else
                    match rd_term fuel PGraph (c :: r) with
                    | None => None
                    | Some (g, l4) =>
                        match skip_ws l4 with
                        | c' :: r' => if c' =? 46 then Some ((s, p, o, Some g), r') else None
                        | [] => None
                        end
                    end
              end
          end
      end
  end.

(* white space, end-of-line characters and '#' comments between statements;
   cm = true: inside a comment, which runs to the end of the line *)
Fixpoint skip_blank (cm : bool) (l : str) : str :=
  match l with
  | [] => []
  | c :: r =>
      if cm then (if is_eol c then skip_blank false r else skip_blank true r)
      else if is_ws c || is_eol c then skip_blank false r
      else if c =? 35 then skip_blank true r
      else l
  end.

(* nquadsDoc ::= statement? (EOL statement)* EOL?         EOL ::= [#xD#xA]+
   after a statement only white space, a comment, an EOL or the end of input may follow *)
Definition ends_stmt (l : str) : bool :=
  match l with
  | [] => true
  | c :: _ => is_eol c || (c =? 35)
  end.
Fixpoint rd_doc (fuel : nat) (l : str) : option (list quad) :=
  match fuel with
  | O => None
  | S f =>
      match skip_blank false l with
      | [] => Some []
      | l1 =>
          match rd_statement f l1 with
          | None => None
          | Some (q, r) =>
              let r1 := skip_ws r in
              if ends_stmt r1 then
                match rd_doc f r1 with
                | Some qs => Some (q :: qs)
                | None => None
                end
              else None
          end
      end
  end.

(* the reference reader on bytes: total (None = not a valid N-Quads document) *)
Definition nq_read (bytes : list N) : option (list quad) :=
  match utf8_dec bytes with
  | Some cps => rd_doc (S (S (length cps))) cps
  | None => None
  end.
(* N-Triples: an N-Quads document without graph labels *)
Fixpoint drop_graphs (qs : list quad) : option (list triple) :=
  match qs with
  | [] => Some []
  | (s, p, o, None) :: r => option_map (cons (s, p, o)) (drop_graphs r)
  | (_, _, _, Some _) :: _ => None
  end.
Definition nt_read (bytes : list N) : option (list triple) :=
  match nq_read bytes with
  | Some qs => drop_graphs qs
  | None => None
  end.

(* ------------------------------------------------------------------------------------------ *)
(** * Part 3: well-formedness, code-point view of the writer, checkers                         *)
(* ------------------------------------------------------------------------------------------ *)

(* an IRI that can stand raw between '<' and '>' *)
Definition iri_ok (s : str) : bool := forallb iri_char s && scalar_str s.
(* BLANK_NODE_LABEL without the '_:' *)
Definition is_nil {A} (l : list A) : bool := match l with [] => true | _ => false end.
Fixpoint tail_ok (l : str) : bool :=
  match l with
  | [] => true
  | c :: r => if pn_chars c then tail_ok r else (c =? 46) && negb (is_nil r) && tail_ok r
  end.
Definition label_ok (lab : str) : bool :=
  match lab with
  | c :: r => (pn_chars_u c || digit c) && tail_ok r && scalar_str lab
  | [] => false
  end.
(* LANGTAG without the '@' *)
Fixpoint subtags_ok (st : bool) (l : str) : bool :=
  match l with
  | [] => negb st
  | c :: r => if alnum c then subtags_ok false r else (c =? 45) && negb st && subtags_ok true r
  end.
Fixpoint first_ok (l : str) : bool :=
  match l with
  | [] => true
  | c :: r => if alpha c then first_ok r else (c =? 45) && subtags_ok true r
  end.
Definition langtag_ok (tag : str) : bool :=
  match tag with
  | c :: r => alpha c && first_ok r
  | [] => false
  end.

(* a term that may stand at position p of a strict RDF / RDF-star statement *)
Fixpoint wf_at (p : pos) (t : term) : bool :=
  match t with
  | Iri s => iri_ok s
  | Bnode l => allows_bnode p && label_ok l
  | LitDt lex dt => allows_literal p && scalar_str lex && iri_ok dt
  | LitLang lex tag => allows_literal p && scalar_str lex && langtag_ok tag
  | Triple s pr o => allows_quoted p && wf_at PSubj s && wf_at PPred pr && wf_at PObj o
  | Var _ => false
  end.
Definition wf_triple (t : triple) : bool :=
  let '(s, p, o) := t in wf_at PSubj s && wf_at PPred p && wf_at PObj o.
Definition wf_quad (q : quad) : bool :=
  let '(s, p, o, g) := q in
  wf_at PSubj s && wf_at PPred p && wf_at PObj o &&
  match g with None => true | Some t => wf_at PGraph t end.
Definition wf_quads (qs : list quad) : bool := forallb wf_quad qs.
Definition wf_triples (ts : list triple) : bool := forallb wf_triple ts.

(* code-point view of the writer: Proofs.v shows  write_term t = utf8 (wt t)  for every term *)
Definition qs_cp (s : str) : str := flat_map (fun c => if is_special c then esc c else [c]) s.
Fixpoint wt (t : term) : str :=
  match t with
  | Iri s => 60 :: s ++ [62]
  | Bnode s => 95 :: 58 :: s
  | LitDt lex dt =>
      34 :: qs_cp lex ++
      (if negb (str_eqb xsd_string dt) then 34 :: 94 :: 94 :: 60 :: dt ++ [62] else [34])
  | LitLang lex tag => 34 :: qs_cp lex ++ 34 :: 64 :: tag
  | Triple s p o => 60 :: 60 :: wt s ++ 32 :: wt p ++ 32 :: wt o ++ [62; 62]
  | Var s => 63 :: s
  end.
Definition wq (q : quad) : str :=
  let '(s, p, o, g) := q in
  wt s ++ 32 :: wt p ++ 32 :: wt o ++
  match g with None => [46; 10] | Some t => 32 :: wt t ++ [46; 10] end.
Definition wdoc (qs : list quad) : str := flat_map wq qs.

Fixpoint depth (t : term) : nat :=
  match t with
  | Triple s p o => S (Nat.max (depth s) (Nat.max (depth p) (depth o)))
  | _ => O
  end.

(* what may follow a term in the output: a space, '>' (of ">>"), or ".\n" *)
Definition stop_ok (rest : str) : bool :=
  match rest with
  | c :: r =>
      (c =? 32) || (c =? 62) || ((c =? 46) && match r with d :: _ => d =? 10 | [] => true end)
  | [] => true
  end.

Fixpoint count (b : N) (l : list N) : nat :=
  match l with
  | [] => O
  | c :: r => if c =? b then S (count b r) else count b r
  end.

(* ---- harness-facing checkers ---- *)
(* exact equality (language tags compared code point for code point) *)
Fixpoint term_eqx (a b : term) : bool :=
  match a, b with
  | Iri x, Iri y => str_eqb x y
  | Bnode x, Bnode y => str_eqb x y
  | Var x, Var y => str_eqb x y
  | LitDt l1 d1, LitDt l2 d2 => str_eqb l1 l2 && str_eqb d1 d2
  | LitLang l1 t1, LitLang l2 t2 => str_eqb l1 l2 && str_eqb t1 t2
  | Triple s1 p1 o1, Triple s2 p2 o2 => term_eqx s1 s2 && term_eqx p1 p2 && term_eqx o1 o2
  | _, _ => false
  end.
Definition quad_eqx (a b : quad) : bool :=
  let '(s1, p1, o1, g1) := a in
  let '(s2, p2, o2, g2) := b in
  term_eqx s1 s2 && term_eqx p1 p2 && term_eqx o1 o2 && opt_eqb term_eqx g1 g2.
Definition bytes_eqb (a b : list N) : bool := list_eqb N.eqb a b.

(* the model writer produces exactly the bytes the implementation produced *)
Definition write_ok (qs : list quad) (bytes : list N) : bool := bytes_eqb (nq_write qs) bytes.
Definition nt_of (qs : list quad) : list triple := map (fun q : quad => let '(s, p, o, _) := q in (s, p, o)) qs.
Definition nt_write_ok (qs : list quad) (bytes : list N) : bool := bytes_eqb (nt_write (nt_of qs)) bytes.
(* the reference reader reads the implementation's bytes back to exactly the quads *)
Definition read_ok (bytes : list N) (qs : list quad) : bool :=
  match nq_read bytes with
  | Some qs' => list_eqb quad_eqx qs' qs
  | None => false
  end.
(* the reference reader rejects the bytes (used for the malformed stream) *)
Definition read_rejects (bytes : list N) : bool :=
  match nq_read bytes with Some _ => false | None => true end.
(* one case of the correspondence: well-formed per the Coq predicate, same bytes, reads back,
   one LF per quad and no CR *)
Definition case_ok (nq : bool) (qs : list quad) (bytes : list N) : bool :=
  wf_quads qs && (if nq then write_ok qs bytes else nt_write_ok qs bytes) && read_ok bytes qs
  && Nat.eqb (count 10 bytes) (length qs) && Nat.eqb (count 13 bytes) 0.

(* ------------------------------------------------------------------------------------------ *)
(** * Part 4: the other public entry points of the writer (widened harness)                    *)
(* ------------------------------------------------------------------------------------------ *)

(* a serialiser keeps its target between calls (`serialize_quads` returns `&mut Self`): the state
   is the bytes written so far, every call appends the serialisation of its source *)
Definition nq_write_calls (calls : list (list quad)) : list N :=
  fold_left (fun acc qs => acc ++ nq_write qs) calls [].
Definition nt_write_calls (calls : list (list triple)) : list N :=
  fold_left (fun acc ts => acc ++ nt_write ts) calls [].
Definition write_calls_ok (nq : bool) (calls : list (list quad)) (bytes : list N) : bool :=
  bytes_eqb (if nq then nq_write_calls calls else nt_write_calls (map nt_of calls)) bytes.
(* a dataset written in several calls: the whole case, plus the call-by-call writer *)
Definition case_calls_ok (nq : bool) (calls : list (list quad)) (bytes : list N) : bool :=
  case_ok nq (concat calls) bytes && write_calls_ok nq calls bytes.

(* the public functions `write_term` / `write_triple` called on their own *)
Definition write_term_ok (t : term) (bytes : list N) : bool := bytes_eqb (write_term t) bytes.
Definition terms_ok (l : list (term * list N)) : bool :=
  forallb (fun p => write_term_ok (fst p) (snd p)) l.
Definition write_triple_ok (s p o : term) (bytes : list N) : bool :=
  bytes_eqb (write_triple s p o) bytes.
(* a statement composed by hand from write_triple, " ", write_term, ".\n" *)
Definition compose_quad (q : quad) : list N :=
  let '(s, p, o, g) := q in
  write_triple s p o ++ match g with None => [] | Some t => [32] ++ write_term t end ++ [46; 10].

(* generalised RDF (any kind of term at any position, variables): what NqSerializer writes when
   it is handed such quads (the `Variable` arm of write_term) and what the generalised parser
   (gnq) reads.  VARNAME of SPARQL is a subset of PN_CHARS+ *)
Definition var_ok (s : str) : bool := negb (is_nil s) && forallb pn_chars s && scalar_str s.
Fixpoint gwf (t : term) : bool :=
  match t with
  | Iri s => iri_ok s
  | Bnode l => label_ok l
  | LitDt lex dt => scalar_str lex && iri_ok dt
  | LitLang lex tag => scalar_str lex && langtag_ok tag
  | Triple s p o => gwf s && gwf p && gwf o
  | Var s => var_ok s
  end.
Definition gwf_quad (q : quad) : bool :=
  let '(s, p, o, g) := q in
  gwf s && gwf p && gwf o && match g with None => true | Some t => gwf t end.
Definition gwf_quads (qs : list quad) : bool := forallb gwf_quad qs.
(* one generalised case: well-formed in the generalised sense, same bytes, one LF per quad, no CR
   (the reading back is checked by the oracle with sophia's generalised parser) *)
Definition gen_case_ok (nq : bool) (qs : list quad) (bytes : list N) : bool :=
  gwf_quads qs && (if nq then write_ok qs bytes else nt_write_ok qs bytes)
  && Nat.eqb (count 10 bytes) (length qs) && Nat.eqb (count 13 bytes) 0.
