(* C20/Proofs.v -- native values <-> typed literals: lexical validity, round trips, soundness of
   TryFromTerm.  No axioms; the digit generator of finite doubles is a universally quantified
   function argument. *)
From Sophia.C20 Require Import Model.

Local Open Scope N_scope.

(* ================= characters ================= *)
Lemma is_digit_range c : is_digit c = true <-> 48 <= c <= 57.
Proof. unfold is_digit. rewrite andb_true_iff, !N.leb_le. tauto. Qed.

Lemma digit_not_sign c : is_digit c = true -> is_sign c = false.
Proof.
  intros H. apply is_digit_range in H. unfold is_sign.
  destruct (N.eqb_spec c 43), (N.eqb_spec c 45); simpl; try reflexivity; lia.
Qed.
Lemma digit_not_e c : is_digit c = true -> is_e c = false.
Proof.
  intros H. apply is_digit_range in H. unfold is_e.
  destruct (N.eqb_spec c 101), (N.eqb_spec c 69); simpl; try reflexivity; lia.
Qed.
Lemma digit_not_dot c : is_digit c = true -> (c =? 46) = false.
Proof. intros H. apply is_digit_range in H. apply N.eqb_neq. lia. Qed.

Lemma all_digits_app a b : all_digits (a ++ b) = all_digits a && all_digits b.
Proof. apply forallb_app. Qed.
Lemma all_digits_zeros n : all_digits (zeros n) = true.
Proof. induction n; simpl; auto. Qed.
Lemma all_digits_firstn_skipn n s :
  all_digits s = true -> all_digits (firstn n s) = true /\ all_digits (skipn n s) = true.
Proof.
  intros H. rewrite <- (firstn_skipn n s), all_digits_app in H. now apply andb_true_iff in H.
Qed.
Lemma digits1_iff s : digits1 s = true <-> s <> [] /\ all_digits s = true.
Proof. destruct s; simpl; split; try discriminate; try tauto; intros H; split; try apply H; discriminate. Qed.

Lemma strip_sign_digit c r : is_digit c = true -> strip_sign (c :: r) = c :: r.
Proof. intros H. simpl. now rewrite (digit_not_sign _ H). Qed.

(* ================= integers: Display ================= *)
Fixpoint rval (l : str) : Z :=
  match l with [] => 0%Z | c :: r => ((Z.of_N c - 48) + 10 * rval r)%Z end.

Lemma fold_dstep_app s c a : fold_left dstep (s ++ [c]) a = dstep (fold_left dstep s a) c.
Proof. now rewrite fold_left_app. Qed.

Lemma dval_rev l : dval (rev l) = rval l.
Proof.
  unfold dval. induction l as [|c r IH]; cbn [rev rval]; [reflexivity|].
  rewrite fold_dstep_app, IH. unfold dstep. lia.
Qed.

Lemma rdigits_val fuel : forall n, n < 2 ^ N.of_nat fuel -> rval (rdigits fuel n) = Z.of_N n.
Proof.
  induction fuel as [|f IH]; intros n Hn.
  - change (2 ^ N.of_nat 0) with 1 in Hn. assert (n = 0) by lia. subst. reflexivity.
  - cbn [rdigits rval].
    assert (Hm : n mod 10 < 10) by (apply N.mod_lt; lia).
    assert (Hd : n = 10 * (n / 10) + n mod 10) by (apply N.div_mod; lia).
    replace (Z.of_N (48 + n mod 10) - 48)%Z with (Z.of_N (n mod 10)) by lia.
    destruct (N.ltb_spec n 10) as [Hlt|Hge].
    + cbn [rval]. rewrite N.mod_small by lia. lia.
    + rewrite IH.
      * lia.
      * rewrite Nnat.Nat2N.inj_succ, N.pow_succ_r' in Hn.
        assert (n / 10 <= n / 2) by (apply N.div_le_compat_l; lia).
        assert (n / 2 < 2 ^ N.of_nat f) by (apply N.div_lt_upper_bound; lia).
        lia.
Qed.

Lemma rdigits_digits fuel : forall n, all_digits (rdigits fuel n) = true.
Proof.
  induction fuel as [|f IH]; intros n; [reflexivity|].
  cbn [rdigits]. unfold all_digits. cbn [forallb].
  assert (Hm : n mod 10 < 10) by (apply N.mod_lt; lia).
  apply andb_true_iff; split.
  - apply is_digit_range. set (k := n mod 10) in *. clearbody k. lia.
  - destruct (n <? 10); [reflexivity | apply IH].
Qed.

Lemma size_bound n : n < 2 ^ N.of_nat (S (N.to_nat (N.size n))).
Proof.
  rewrite Nnat.Nat2N.inj_succ, Nnat.N2Nat.id, N.pow_succ_r'.
  pose proof (N.size_gt n). lia.
Qed.

Lemma print_nat_digits n : all_digits (print_nat n) = true.
Proof.
  unfold print_nat, all_digits. rewrite forallb_forall. intros x Hx. apply in_rev in Hx.
  pose proof (rdigits_digits (S (N.to_nat (N.size n))) n) as H.
  unfold all_digits in H. rewrite forallb_forall in H. auto.
Qed.
Lemma print_nat_nonempty n : print_nat n <> [].
Proof.
  unfold print_nat. cbn [rdigits]. intros H.
  apply (f_equal (@length N)) in H. rewrite rev_length in H. simpl in H. discriminate.
Qed.
Lemma dval_print_nat n : dval (print_nat n) = Z.of_N n.
Proof. unfold print_nat. rewrite dval_rev. apply rdigits_val, size_bound. Qed.

Lemma print_nat_head n : exists c r, print_nat n = c :: r /\ is_digit c = true.
Proof.
  pose proof (print_nat_nonempty n) as Hne. pose proof (print_nat_digits n) as Hd.
  destruct (print_nat n) as [|c r]; [congruence|].
  exists c, r. split; [reflexivity|]. simpl in Hd. now apply andb_true_iff in Hd.
Qed.

(* the lexical form of a native integer is in the lexical space of xsd:integer *)
Theorem print_int_lex z : xsd_integer_lex (print_int z) = true.
Proof.
  unfold xsd_integer_lex, print_int. destruct (z <? 0)%Z.
  - cbn [strip_sign is_sign N.eqb]. simpl. apply digits1_iff.
    split; [apply print_nat_nonempty | apply print_nat_digits].
  - destruct (print_nat_head (Z.to_N z)) as (c & r & E & Hc).
    rewrite E, (strip_sign_digit _ _ Hc), <- E. apply digits1_iff.
    split; [apply print_nat_nonempty | apply print_nat_digits].
Qed.

(* ... and denotes the integer itself *)
Theorem print_int_value z : int_value (print_int z) = z.
Proof.
  unfold print_int. destruct (Z.ltb_spec z 0).
  - cbn [int_value]. change (45 =? 45) with true. cbn iota. rewrite dval_print_nat. lia.
  - destruct (print_nat_head (Z.to_N z)) as (c & r & E & Hc).
    rewrite E. cbn [int_value].
    pose proof (digit_not_sign _ Hc) as Hs. unfold is_sign in Hs. apply orb_false_iff in Hs as [H43 H45].
    rewrite H43, H45, <- E, dval_print_nat. lia.
Qed.

(* ================= integers: FromStr ================= *)
Definition nstep (a : Z) (c : N) : Z := (a * 10 - (Z.of_N c - 48))%Z.

Lemma fold_nstep s : forall a, fold_left nstep s (- a)%Z = (- fold_left dstep s a)%Z.
Proof.
  induction s as [|c r IH]; intros a; simpl; [reflexivity|].
  replace (nstep (- a) c) with (- dstep a c)%Z by (unfold nstep, dstep; lia). apply IH.
Qed.

Lemma digit_val_some c d : digit_val c = Some d -> is_digit c = true /\ d = (Z.of_N c - 48)%Z /\ (0 <= d <= 9)%Z.
Proof.
  unfold digit_val. destruct (is_digit c) eqn:E; [|discriminate].
  intros H. injection H as <-. apply is_digit_range in E. repeat split; lia.
Qed.
Lemma digit_val_digit c : is_digit c = true -> digit_val c = Some (Z.of_N c - 48)%Z.
Proof. unfold digit_val. now intros ->. Qed.

Lemma fold_dstep_ge s : forall a, all_digits s = true -> (0 <= a)%Z -> (a <= fold_left dstep s a)%Z.
Proof.
  induction s as [|c r IH]; intros a Hd Ha; simpl; [lia|].
  simpl in Hd. apply andb_true_iff in Hd as [Hc Hr]. apply is_digit_range in Hc.
  assert (a <= dstep a c)%Z by (unfold dstep; lia).
  specialize (IH (dstep a c) Hr). lia.
Qed.

Lemma parse_pos_sound hi s : forall acc v,
  parse_pos hi s acc = inr v ->
  all_digits s = true /\ v = fold_left dstep s acc /\ (s <> [] -> (v <= hi)%Z).
Proof.
  induction s as [|c r IH]; intros acc v H; simpl in H.
  - injection H as <-. repeat split. congruence.
  - destruct (digit_val c) as [d|] eqn:Ed; [|discriminate].
    apply digit_val_some in Ed as (Hc & -> & Hd).
    destruct (Z.ltb_spec hi (acc * 10)); [discriminate|].
    destruct (Z.ltb_spec hi (acc * 10 + (Z.of_N c - 48))); [discriminate|].
    apply IH in H as (Hr & Hv & Hb). repeat split.
    + simpl. now rewrite Hc, Hr.
    + exact Hv.
    + intros _. destruct r as [|c2 r2]; [simpl in Hv; lia | apply Hb; discriminate].
Qed.

Lemma parse_pos_complete hi s : forall acc,
  all_digits s = true -> (0 <= acc <= hi)%Z -> (fold_left dstep s acc <= hi)%Z ->
  parse_pos hi s acc = inr (fold_left dstep s acc).
Proof.
  induction s as [|c r IH]; intros acc Hd Ha Hb; simpl; [reflexivity|].
  simpl in Hd. apply andb_true_iff in Hd as [Hc Hr].
  rewrite (digit_val_digit _ Hc). apply is_digit_range in Hc.
  simpl in Hb.
  assert (Hge : (dstep acc c <= fold_left dstep r (dstep acc c))%Z)
    by (apply fold_dstep_ge; [exact Hr | unfold dstep; lia]).
  unfold dstep in *.
  destruct (Z.ltb_spec hi (acc * 10)); [lia|].
  destruct (Z.ltb_spec hi (acc * 10 + (Z.of_N c - 48))); [lia|].
  apply IH; [exact Hr | lia | exact Hb].
Qed.

Lemma parse_neg_sound lo s : forall acc v,
  parse_neg lo s acc = inr v ->
  all_digits s = true /\ v = fold_left nstep s acc /\ (s <> [] -> (lo <= v)%Z).
Proof.
  induction s as [|c r IH]; intros acc v H; simpl in H.
  - injection H as <-. repeat split. congruence.
  - destruct (digit_val c) as [d|] eqn:Ed; [|discriminate].
    apply digit_val_some in Ed as (Hc & -> & Hd).
    destruct (Z.ltb_spec (acc * 10) lo); [discriminate|].
    destruct (Z.ltb_spec (acc * 10 - (Z.of_N c - 48)) lo); [discriminate|].
    apply IH in H as (Hr & Hv & Hb). repeat split.
    + simpl. now rewrite Hc, Hr.
    + exact Hv.
    + intros _. destruct r as [|c2 r2]; [simpl in Hv; unfold nstep in Hv; lia | apply Hb; discriminate].
Qed.

Lemma parse_neg_complete lo s : forall acc,
  all_digits s = true -> (lo <= acc <= 0)%Z -> (lo <= fold_left nstep s acc)%Z ->
  parse_neg lo s acc = inr (fold_left nstep s acc).
Proof.
  induction s as [|c r IH]; intros acc Hd Ha Hb; simpl; [reflexivity|].
  simpl in Hd. apply andb_true_iff in Hd as [Hc Hr].
  rewrite (digit_val_digit _ Hc). apply is_digit_range in Hc.
  simpl in Hb.
  assert (Hge : (fold_left nstep r (nstep acc c) <= nstep acc c)%Z).
  { replace (nstep acc c) with (- dstep (- acc) c)%Z by (unfold nstep, dstep; lia).
    rewrite fold_nstep.
    assert (dstep (- acc) c <= fold_left dstep r (dstep (- acc) c))%Z
      by (apply fold_dstep_ge; [exact Hr | unfold dstep; lia]).
    lia. }
  unfold nstep in *.
  destruct (Z.ltb_spec (acc * 10) lo); [lia|].
  destruct (Z.ltb_spec (acc * 10 - (Z.of_N c - 48)) lo); [lia|].
  apply IH; [exact Hr | lia | exact Hb].
Qed.

Lemma not_sign_split c : is_sign c = false -> (c =? 43) = false /\ (c =? 45) = false.
Proof. unfold is_sign. intros H. now apply orb_false_iff in H. Qed.

(* FromStr succeeds only on members of the xsd:integer lexical space, with the value they denote,
   and only inside the range of the type *)
Theorem parse_int_sound signed lo hi s v :
  (lo <= 0 <= hi)%Z ->
  parse_int signed lo hi s = inr v ->
  xsd_integer_lex s = true /\ v = int_value s /\ (lo <= v <= hi)%Z.
Proof.
  intros Hb H. unfold xsd_integer_lex.
  destruct s as [|c r]; [discriminate|].
  assert (Hpos : forall t, t <> [] -> parse_pos hi t 0%Z = inr v ->
                 digits1 t = true /\ v = dval t /\ (lo <= v <= hi)%Z).
  { intros t Hne Hp. apply parse_pos_sound in Hp as (Hd & Hv & Hh).
    repeat split.
    - apply digits1_iff. auto.
    - exact Hv.
    - pose proof (fold_dstep_ge t 0%Z Hd ltac:(lia)). unfold dval in *. lia.
    - auto. }
  assert (Hdig : parse_pos hi (c :: r) 0%Z = inr v ->
                 digits1 (strip_sign (c :: r)) = true /\ v = int_value (c :: r) /\ (lo <= v <= hi)%Z).
  { intros Hp. pose proof Hp as Hp'. apply parse_pos_sound in Hp' as (Hd & _ & _).
    simpl in Hd. apply andb_true_iff in Hd as [Hc _].
    rewrite (strip_sign_digit _ _ Hc). cbn [int_value].
    destruct (not_sign_split _ (digit_not_sign _ Hc)) as [-> ->].
    apply Hpos; [discriminate | exact Hp]. }
  destruct r as [|c2 r2].
  - cbn [parse_int] in H. destruct (is_sign c) eqn:Es; [discriminate|]. auto.
  - cbn [parse_int] in H.
    destruct (N.eqb_spec c 43) as [->|H43].
    + cbn [strip_sign is_sign N.eqb orb int_value]. simpl (43 =? 45).
      apply Hpos; [discriminate | exact H].
    + destruct (N.eqb_spec c 45) as [->|H45]; cbn [andb] in H.
      * destruct signed.
        -- cbn [strip_sign is_sign N.eqb orb int_value]. simpl (45 =? 43). cbn [orb].
           apply parse_neg_sound in H as (Hd & Hv & Hl).
           replace 0%Z with (- 0)%Z in Hv by reflexivity. rewrite fold_nstep in Hv.
           repeat split.
           ++ apply digits1_iff. split; [discriminate | exact Hd].
           ++ exact Hv.
           ++ apply Hl. discriminate.
           ++ pose proof (fold_dstep_ge (c2 :: r2) 0%Z Hd ltac:(lia)). lia.
        -- simpl in H. discriminate.
      * auto.
Qed.

(* ... and on every such member when the type is signed or the form has no minus sign *)
Theorem parse_int_complete signed lo hi s :
  (lo <= 0 <= hi)%Z ->
  xsd_integer_lex s = true -> (lo <= int_value s <= hi)%Z ->
  signed = true \/ hd 0 s <> 45 ->
  parse_int signed lo hi s = inr (int_value s).
Proof.
  intros Hb Hl Hv Hs. unfold xsd_integer_lex in Hl.
  destruct s as [|c r]; [discriminate|].
  assert (Hpos : forall t, digits1 t = true -> (dval t <= hi)%Z -> parse_pos hi t 0%Z = inr (dval t)).
  { intros t Ht Hh. apply digits1_iff in Ht as [_ Ht]. apply parse_pos_complete; auto; lia. }
  cbn [strip_sign] in Hl. cbn [int_value] in Hv |- *. cbn [hd] in Hs.
  destruct (N.eqb_spec c 45) as [->|H45].
  - (* minus *)
    change (is_sign 45) with true in Hl. cbn iota in Hl.
    destruct Hs as [-> | Hs]; [|congruence].
    apply digits1_iff in Hl as [Hne Hd].
    destruct r as [|c2 r2]; [congruence|]. cbn [parse_int]. change (45 =? 43) with false.
    change (45 =? 45) with true. cbn [andb]. cbn iota.
    rewrite parse_neg_complete; auto.
    + replace 0%Z with (- 0)%Z by reflexivity. now rewrite fold_nstep.
    + lia.
    + replace 0%Z with (- 0)%Z by reflexivity. rewrite fold_nstep. unfold dval in Hv. lia.
  - destruct (N.eqb_spec c 43) as [->|H43].
    + change (is_sign 43) with true in Hl. cbn iota in Hl.
      pose proof Hl as Hl'. apply digits1_iff in Hl' as [Hne _].
      destruct r as [|c2 r2]; [congruence|]. cbn [parse_int]. change (43 =? 43) with true. cbn iota.
      apply Hpos; [exact Hl | lia].
    + assert (Es : is_sign c = false).
      { unfold is_sign. apply orb_false_iff. split; now apply N.eqb_neq. }
      rewrite Es in Hl.
      destruct r as [|c2 r2]; cbn [parse_int].
      * rewrite Es. apply Hpos; [exact Hl | lia].
      * apply N.eqb_neq in H43, H45. rewrite H43, H45. cbn [andb]. apply Hpos; [exact Hl | lia].
Qed.

(* Display then FromStr is the identity on every value of the type *)
Theorem parse_print_int signed lo hi z :
  (lo <= 0 <= hi)%Z -> (lo <= z <= hi)%Z -> ((z < 0)%Z -> signed = true) ->
  parse_int signed lo hi (print_int z) = inr z.
Proof.
  intros Hb Hz Hs.
  rewrite <- (print_int_value z) at 2.
  apply parse_int_complete; auto.
  - apply print_int_lex.
  - rewrite print_int_value. exact Hz.
  - destruct (Z.ltb_spec z 0) as [Hn|Hp]; [left; auto|].
    right. unfold print_int. destruct (Z.ltb_spec z 0); [lia|].
    destruct (print_nat_head (Z.to_N z)) as (c & r & E & Hc). rewrite E. cbn [hd].
    apply is_digit_range in Hc. lia.
Qed.

(* ================= TryFromTerm for the integer types ================= *)
Lemma ity_bounds ty : (ity_lo ty <= 0 <= ity_hi ty)%Z.
Proof. destruct ty; simpl; lia. Qed.

Lemma in_list_In x l : in_list x l = true <-> In x l.
Proof.
  unfold in_list. rewrite existsb_exists. split.
  - intros (y & Hy & E). apply str_eqb_eq in E. now subst.
  - intros H. exists x. split; [exact H | apply str_eqb_refl].
Qed.

(* the error strings are not numbers *)
Lemma parse_wrong_datatype ty :
  parse_int (ity_signed ty) (ity_lo ty) (ity_hi ty) s_wrong_datatype = inl PInvalidDigit
  /\ parse_int (ity_signed ty) (ity_lo ty) (ity_hi ty) s_not_a_literal = inl PInvalidDigit
  /\ parse_int (ity_signed ty) (ity_lo ty) (ity_hi ty) s_out_of_range = inl PInvalidDigit.
Proof. destruct ty; repeat split; vm_compute; reflexivity. Qed.

(* a term that is not a literal, or whose datatype is not in the white-list, is refused *)
Theorem try_int_not_literal fixed ty t :
  lexical_form t = None -> try_int fixed ty t = inl PInvalidDigit.
Proof. intros H. unfold try_int. rewrite H. apply parse_wrong_datatype. Qed.
Theorem try_int_not_listed fixed ty t :
  in_list (datatype t) (whitelist ty) = false -> try_int fixed ty t = inl PInvalidDigit.
Proof.
  intros H. unfold try_int. destruct (lexical_form t); [rewrite H|]; apply parse_wrong_datatype.
Qed.

(* the range table in the code is the XSD facet table on every white-listed datatype *)
Definition bounds_eqb (a b : option Z * option Z) : bool :=
  opt_eqb Z.eqb (fst a) (fst b) && opt_eqb Z.eqb (snd a) (snd b).
Definition tables_agree_on (dt : str) : bool :=
  match assoc dt xsd_int_facets with
  | Some b => bounds_eqb b (match assoc dt range_table with Some b' => b' | None => (None, None) end)
  | None => false
  end.
Lemma bounds_eqb_eq a b : bounds_eqb a b = true -> a = b.
Proof.
  destruct a as [[a1|] [a2|]], b as [[b1|] [b2|]]; unfold bounds_eqb; simpl; try discriminate;
  rewrite ?andb_true_iff, ?Z.eqb_eq; intros; repeat match goal with H : _ /\ _ |- _ => destruct H end; subst; auto;
  try discriminate.
Qed.
Lemma tables_agree_wl : forallb tables_agree_on wl_signed = true.
Proof. vm_compute. reflexivity. Qed.
Lemma whitelist_signed ty dt : In dt (whitelist ty) -> In dt wl_signed.
Proof.
  destruct ty; simpl; auto. unfold wl_usize, wl_signed. simpl. intuition.
Qed.
Lemma range_is_value_space ty dt v :
  in_list dt (whitelist ty) = true -> in_xsd_integer_range dt v = in_value_space dt v.
Proof.
  intros H. apply in_list_In, whitelist_signed in H.
  pose proof tables_agree_wl as T. rewrite forallb_forall in T. specialize (T dt H).
  unfold tables_agree_on in T. unfold in_xsd_integer_range, in_value_space.
  destruct (assoc dt xsd_int_facets) as [b|]; [|discriminate].
  apply bounds_eqb_eq in T. subst b. destruct (assoc dt range_table); reflexivity.
Qed.

(* success of the repaired conversion: the term is a literal of a white-listed datatype, its lexical
   form is a valid integer numeral, the result is the integer it denotes, and that integer belongs
   to the value space of the stated datatype (and to the native type) *)
Theorem try_int_sound ty t v :
  try_int true ty t = inr v ->
  exists lex, lexical_form t = Some lex
    /\ in_list (datatype t) (whitelist ty) = true
    /\ xsd_integer_lex lex = true
    /\ v = int_value lex
    /\ in_value_space (datatype t) v = true
    /\ in_ity ty v = true.
Proof.
  unfold try_int. intros H.
  destruct (parse_wrong_datatype ty) as (W1 & W2 & W3).
  destruct (lexical_form t) as [lex|]; [|rewrite W2 in H; discriminate].
  destruct (in_list (datatype t) (whitelist ty)) eqn:Ewl; [|rewrite W1 in H; discriminate].
  destruct (parse_int (ity_signed ty) (ity_lo ty) (ity_hi ty) lex) as [e|z] eqn:Ep; [discriminate|].
  cbn [negb orb] in H.
  destruct (in_xsd_integer_range (datatype t) z) eqn:Er; [|rewrite W3 in H; discriminate].
  injection H as <-.
  apply parse_int_sound in Ep as (Hl & Hv & Hb); [|apply ity_bounds].
  exists lex. repeat split; auto.
  - rewrite <- (range_is_value_space ty); auto.
  - unfold in_ity. apply andb_true_iff. split; apply Z.leb_le; lia.
Qed.

(* and conversely every well-typed literal whose value fits the native type converts *)
Theorem try_int_complete ty lex dt :
  in_list dt (whitelist ty) = true ->
  xsd_integer_lex lex = true ->
  in_value_space dt (int_value lex) = true ->
  in_ity ty (int_value lex) = true ->
  ity_signed ty = true \/ hd 0 lex <> 45 ->
  try_int true ty (LitDt lex dt) = inr (int_value lex).
Proof.
  intros Hwl Hl Hv Hi Hs. unfold try_int. cbn [lexical_form datatype]. rewrite Hwl.
  unfold in_ity in Hi. apply andb_true_iff in Hi as [H1 H2]. apply Z.leb_le in H1, H2.
  rewrite parse_int_complete; auto using ity_bounds.
  cbn [negb orb]. now rewrite (range_is_value_space ty), Hv.
Qed.

(* the code before the repair accepted ill-typed literals *)
Example try_int_prefix_refuted :
  try_int false I32 (LitDt [53] xsd_negativeInteger) = inr 5%Z
  /\ in_value_space xsd_negativeInteger 5 = false
  /\ try_int false I32 (LitDt [51;48;48] xsd_unsignedByte) = inr 300%Z
  /\ in_value_space xsd_unsignedByte 300 = false
  /\ try_int true I32 (LitDt [53] xsd_negativeInteger) = inl PInvalidDigit
  /\ try_int true I32 (LitDt [51;48;48] xsd_unsignedByte) = inl PInvalidDigit.
Proof. vm_compute. repeat split. Qed.

(* native integer -> term -> native integer *)
Theorem int_roundtrip digits_of fixed ty z :
  in_ity ty z = true ->
  try_int fixed ty (native_term digits_of fixed (NInt ty z)) = inr z.
Proof.
  intros Hi.
  assert (Hs : (z < 0)%Z -> ity_signed ty = true).
  { destruct ty; try reflexivity. unfold in_ity in Hi. simpl in Hi.
    apply andb_true_iff in Hi as [H1 _]. apply Z.leb_le in H1. lia. }
  unfold native_term, try_int. cbn [lexical_form datatype lexical_native datatype_native].
  assert (Hwl : in_list xsd_integer (whitelist ty) = true) by (destruct ty; vm_compute; reflexivity).
  rewrite Hwl.
  unfold in_ity in Hi. apply andb_true_iff in Hi as [H1 H2]. apply Z.leb_le in H1, H2.
  rewrite parse_print_int; auto using ity_bounds.
  assert (Hr : forall v, in_xsd_integer_range xsd_integer v = true).
  { intros v. unfold in_xsd_integer_range.
    assert (E : assoc xsd_integer range_table = None) by (vm_compute; reflexivity). now rewrite E. }
  rewrite Hr, orb_true_r. reflexivity.
Qed.

Theorem int_term_valid digits_of fixed ty z :
  datatype_native (NInt ty z) = xsd_integer
  /\ xsd_integer_lex (lexical_native digits_of fixed (NInt ty z)) = true
  /\ int_value (lexical_native digits_of fixed (NInt ty z)) = z.
Proof. repeat split; [apply print_int_lex | apply print_int_value]. Qed.

(* ================= bool ================= *)
Theorem bool_term_valid digits_of fixed b :
  datatype_native (NBool b) = xsd_boolean
  /\ xsd_boolean_lex (lexical_native digits_of fixed (NBool b)) = true.
Proof. destruct b; split; reflexivity. Qed.

Theorem bool_roundtrip digits_of fixed b :
  try_bool (native_term digits_of fixed (NBool b)) = Some b.
Proof. destruct b; vm_compute; reflexivity. Qed.

Lemma parse_bool_sound s b : parse_bool s = Some b -> s = print_bool b.
Proof.
  unfold parse_bool.
  destruct (str_eqb_spec s s_true) as [->|_]; [intros H; injection H as <-; reflexivity|].
  destruct (str_eqb_spec s s_false) as [->|_]; [intros H; injection H as <-; reflexivity|].
  discriminate.
Qed.

Theorem try_bool_sound t b :
  try_bool t = Some b ->
  exists lex, lexical_form t = Some lex /\ datatype t = xsd_boolean
    /\ xsd_boolean_lex lex = true /\ lex = print_bool b.
Proof.
  unfold try_bool. destruct (lexical_form t) as [lex|]; [|vm_compute; discriminate].
  destruct (str_eqb_spec (datatype t) xsd_boolean) as [E|_]; [|vm_compute; discriminate].
  intros H. apply parse_bool_sound in H. exists lex. repeat split; auto.
  subst lex. destruct b; reflexivity.
Qed.

Theorem try_bool_refuses t :
  lexical_form t = None \/ datatype t <> xsd_boolean -> try_bool t = None.
Proof.
  unfold try_bool. intros [H|H].
  - rewrite H. vm_compute. reflexivity.
  - destruct (lexical_form t); [|vm_compute; reflexivity].
    destruct (str_eqb_spec (datatype t) xsd_boolean); [contradiction | vm_compute; reflexivity].
Qed.

(* ================= str ================= *)
Theorem str_roundtrip digits_of fixed s :
  lexical_form (native_term digits_of fixed (NStr s)) = Some s
  /\ datatype (native_term digits_of fixed (NStr s)) = xsd_string.
Proof. split; reflexivity. Qed.

(* the lexical form is valid exactly when the Rust string only holds XML characters ... *)
Theorem str_term_valid digits_of fixed s :
  xsd_string_lex (lexical_native digits_of fixed (NStr s)) = forallb xml_char s.
Proof. reflexivity. Qed.
(* ... which a Rust str need not *)
Example str_term_refuted :
  exists s, xsd_string_lex (lexical_native no_digits true (NStr s)) = false.
Proof. exists [0]. reflexivity. Qed.

(* ================= f64: the grammar of f64::from_str against xsd:double ================= *)
Lemma span_digits_spec s : forall i r, span_digits s = (i, r) ->
  s = i ++ r /\ all_digits i = true /\ match r with [] => True | c :: _ => is_digit c = false end.
Proof.
  induction s as [|c t IH]; intros i r H; simpl in H.
  - injection H as <- <-. auto.
  - destruct (is_digit c) eqn:Ec.
    + destruct (span_digits t) as [i' t'] eqn:Et. injection H as <- <-.
      destruct (IH _ _ eq_refl) as (-> & Hd & Hr). repeat split; auto. simpl. now rewrite Ec, Hd.
    + injection H as <- <-. repeat split. exact Ec.
Qed.

Lemma span_digits_app i r :
  all_digits i = true -> match r with [] => True | c :: _ => is_digit c = false end ->
  span_digits (i ++ r) = (i, r).
Proof.
  intros Hi Hr. induction i as [|c i IH]; simpl.
  - destruct r as [|c r]; [reflexivity|]. simpl. now rewrite Hr.
  - simpl in Hi. apply andb_true_iff in Hi as [Hc Hi]. rewrite Hc, (IH Hi). reflexivity.
Qed.

Definition no_e (s : str) : bool := forallb (fun c => negb (is_e c)) s.
Lemma split_exp_app i r : no_e i = true ->
  split_exp (i ++ r) = let (m, e) := split_exp r in (i ++ m, e).
Proof.
  intros Hi. induction i as [|c i IH]; simpl.
  - destruct (split_exp r); reflexivity.
  - simpl in Hi. apply andb_true_iff in Hi as [Hc Hi]. apply negb_true_iff in Hc.
    rewrite Hc, (IH Hi). destruct (split_exp r); reflexivity.
Qed.
Lemma split_exp_noe s : no_e s = true -> split_exp s = (s, None).
Proof. intros H. rewrite <- (app_nil_r s) at 1. rewrite split_exp_app by exact H. simpl. now rewrite app_nil_r. Qed.
Lemma digits_no_e s : all_digits s = true -> no_e s = true.
Proof.
  unfold all_digits, no_e. rewrite !forallb_forall. intros H x Hx.
  now rewrite (digit_not_e _ (H x Hx)).
Qed.
Lemma no_e_app a b : no_e (a ++ b) = no_e a && no_e b.
Proof. apply forallb_app. Qed.

Lemma mantissa_digits i : all_digits i = true -> mantissa_ok i = negb (is_nil i).
Proof.
  intros H. unfold mantissa_ok. rewrite <- (app_nil_r i) at 1.
  rewrite span_digits_app; auto.
Qed.
Lemma mantissa_dot i f : all_digits i = true ->
  mantissa_ok (i ++ 46 :: f) = all_digits f && negb (is_nil i && is_nil f).
Proof. intros H. unfold mantissa_ok. rewrite span_digits_app; auto. Qed.
Lemma mantissa_other i c t : all_digits i = true -> is_digit c = false -> (c =? 46) = false ->
  mantissa_ok (i ++ c :: t) = false.
Proof. intros H Hc Hd. unfold mantissa_ok. rewrite span_digits_app; auto. now rewrite Hd. Qed.

(* what f64::from_str takes for a number is exactly the numeric part of the xsd:double grammar *)
Theorem rust_number_ok_eq s : rust_number_ok s = numeric_ok s.
Proof.
  unfold rust_number_ok, numeric_ok.
  destruct (span_digits s) as [i r] eqn:Es.
  apply span_digits_spec in Es as (-> & Hi & Hr).
  pose proof (digits_no_e _ Hi) as Hie.
  rewrite (split_exp_app _ _ Hie).
  destruct r as [|c r'].
  - simpl. rewrite app_nil_r, (mantissa_digits _ Hi). simpl. now rewrite !andb_true_r.
  - destruct (N.eqb_spec c 46) as [->|Hdot].
    + (* a dot *)
      destruct (span_digits r') as [f r2] eqn:Ef.
      apply span_digits_spec in Ef as (-> & Hf & Hr2).
      pose proof (digits_no_e _ Hf) as Hfe.
      cbn [split_exp]. change (is_e 46) with false. cbn iota.
      rewrite (split_exp_app _ _ Hfe).
      destruct r2 as [|h x].
      * simpl. rewrite app_nil_r, (mantissa_dot _ _ Hi), Hf. simpl. now rewrite !andb_true_r.
      * cbn [split_exp]. destruct (is_e h) eqn:Eh.
        -- rewrite app_nil_r, (mantissa_dot _ _ Hi), Hf. reflexivity.
        -- destruct (split_exp x) as [m3 e3]. rewrite (mantissa_dot _ _ Hi).
           rewrite all_digits_app. simpl. rewrite Hr2. simpl. rewrite !andb_false_r. reflexivity.
    + (* no dot *)
      cbn [split_exp]. destruct (is_e c) eqn:Ec.
      * rewrite app_nil_r, (mantissa_digits _ Hi). simpl. now rewrite andb_true_r.
      * destruct (split_exp r') as [m e]. apply N.eqb_neq in Hdot.
        rewrite (mantissa_other _ _ _ Hi Hr Hdot). simpl. now rewrite andb_false_r.
Qed.

(* ================= f64: Display / lexical_form ================= *)
Lemma numeric_digits d : d <> [] -> all_digits d = true -> numeric_ok d = true.
Proof.
  intros Hne Hd. unfold numeric_ok. rewrite (split_exp_noe _ (digits_no_e _ Hd)).
  rewrite (mantissa_digits _ Hd). destruct d; [congruence | reflexivity].
Qed.
Lemma numeric_dot i f : all_digits i = true -> all_digits f = true -> i <> [] ->
  numeric_ok (i ++ 46 :: f) = true.
Proof.
  intros Hi Hf Hne. unfold numeric_ok.
  assert (He : no_e (i ++ 46 :: f) = true).
  { rewrite no_e_app, (digits_no_e _ Hi). simpl. apply (digits_no_e _ Hf). }
  rewrite (split_exp_noe _ He), (mantissa_dot _ _ Hi), Hf. destruct i; [congruence | reflexivity].
Qed.

Definition digit_head (s : str) : Prop := exists c r, s = c :: r /\ is_digit c = true.

Lemma render_body ds exp : all_digits ds = true ->
  numeric_ok (render false ds exp) = true /\ digit_head (render false ds exp)
  /\ forallb (float_char false) (render false ds exp) = true.
Proof.
  intros Hd. unfold render. cbn [sign_str app].
  assert (Hfc : forall s, all_digits s = true -> forallb (float_char false) s = true).
  { intros s. unfold all_digits. rewrite !forallb_forall. intros H x Hx. unfold float_char. now rewrite (H x Hx). }
  destruct (Z.leb_spec exp 0) as [Hle|Hgt].
  - assert (Hz : all_digits (zeros (Z.to_nat (- exp)) ++ ds) = true)
      by (rewrite all_digits_app, all_digits_zeros; exact Hd).
    repeat split.
    + apply (numeric_dot [48] (zeros (Z.to_nat (- exp)) ++ ds)); auto. discriminate.
    + exists 48, (46 :: zeros (Z.to_nat (- exp)) ++ ds). split; reflexivity.
    + simpl. apply Hfc. exact Hz.
  - destruct (Z.ltb_spec exp (Z.of_nat (length ds))) as [Hin|Hout].
    + destruct (all_digits_firstn_skipn (Z.to_nat exp) ds Hd) as [Hf Hs].
      assert (Hne : firstn (Z.to_nat exp) ds <> []).
      { intros E. apply (f_equal (@length N)) in E. rewrite firstn_length in E. simpl in E. lia. }
      repeat split.
      * apply numeric_dot; auto.
      * destruct (firstn (Z.to_nat exp) ds) as [|c r] eqn:E; [congruence|].
        exists c, (r ++ [46] ++ skipn (Z.to_nat exp) ds). split; [reflexivity|].
        simpl in Hf. now apply andb_true_iff in Hf.
      * rewrite forallb_app. rewrite (Hfc _ Hf). simpl. apply (Hfc _ Hs).
    + assert (Hz : all_digits (ds ++ zeros (Z.to_nat exp - length ds)) = true)
        by (rewrite all_digits_app, all_digits_zeros, Hd; reflexivity).
      assert (Hne : ds ++ zeros (Z.to_nat exp - length ds) <> []).
      { intros E. apply (f_equal (@length N)) in E. rewrite app_length in E. unfold zeros in E.
        rewrite repeat_length in E. simpl in E. lia. }
      repeat split.
      * apply numeric_digits; auto.
      * destruct (ds ++ zeros (Z.to_nat exp - length ds)) as [|c r]; [congruence|].
        exists c, r. split; [reflexivity|]. simpl in Hz. now apply andb_true_iff in Hz.
      * apply Hfc. exact Hz.
Qed.

Lemma render_sign neg ds exp : render neg ds exp = sign_str neg ++ render false ds exp.
Proof. reflexivity. Qed.

Lemma signed_numeric_double neg body :
  numeric_ok body = true -> digit_head body -> xsd_double_lex (sign_str neg ++ body) = true.
Proof.
  intros Hn (c & r & -> & Hc). unfold xsd_double_lex.
  destruct neg; cbn [sign_str app].
  - change (strip_sign (45 :: c :: r)) with (c :: r). now rewrite Hn.
  - rewrite (strip_sign_digit _ _ Hc), Hn. reflexivity.
Qed.

(* every output of the fixed-notation renderer, for all digit strings and all exponents, is in the
   lexical space of xsd:double *)
Theorem render_xsd_double neg ds exp :
  all_digits ds = true -> xsd_double_lex (render neg ds exp) = true.
Proof.
  intros Hd. rewrite render_sign.
  destruct (render_body ds exp Hd) as (Hn & Hh & _). now apply signed_numeric_double.
Qed.

Section FloatProofs.
Variable digits_of : N -> Z -> str * Z.
Hypothesis digits_ok : forall m e, all_digits (fst (digits_of m e)) = true.

(* the lexical form of every f64 (after the repair) is in the lexical space of xsd:double *)
Theorem f64_term_valid x :
  datatype_native (NF64 x) = xsd_double
  /\ xsd_double_lex (lexical_native digits_of true (NF64 x)) = true.
Proof.
  split; [reflexivity|]. cbn [lexical_native]. unfold lexical_f64.
  destruct x as [|[|]|[|]|neg m e]; try reflexivity.
  cbn [display_f64]. specialize (digits_ok m e). destruct (digits_of m e) as [ds k].
  apply render_xsd_double. exact digits_ok.
Qed.

Definition class_of (x : f64) : fres :=
  match x with FNaN => RNaN | FInf n => RInf n | FZero n | FFin n _ _ => RNum n end.

Lemma float_chars_not_special s : forallb (float_char false) s = true ->
  valid_xsd_float_chars s false = true.
Proof.
  intros H. unfold valid_xsd_float_chars.
  destruct (str_eqb s s_INF || str_eqb s s_pINF || str_eqb s s_mINF || str_eqb s s_NaN); [reflexivity | exact H].
Qed.

Lemma parse_float_signed_numeric neg body :
  numeric_ok body = true -> digit_head body -> rust_parse_float (sign_str neg ++ body) = RNum neg.
Proof.
  intros Hn (c & r & -> & Hc). rewrite <- rust_number_ok_eq in Hn.
  destruct neg; cbn [sign_str app rust_parse_float].
  - change (is_sign 45) with true. change (45 =? 45) with true. cbn iota. cbn [is_nil]. now rewrite Hn.
  - rewrite (digit_not_sign _ Hc). cbn [is_nil]. rewrite Hn.
    apply is_digit_range in Hc. destruct (N.eqb_spec c 45); [lia | reflexivity].
Qed.

(* native double -> term -> native double: the repaired reader accepts what the writer produces
   and lands in the same class with the same sign (NaN -> NaN, -0 -> a negative number, ...) *)
Theorem f64_roundtrip_class x :
  try_f64 true (native_term digits_of true (NF64 x)) = class_of x.
Proof.
  unfold native_term, try_f64. cbn [lexical_form datatype lexical_native datatype_native].
  assert (E1 : str_eqb xsd_double xsd_decimal = false) by (vm_compute; reflexivity).
  assert (E2 : str_eqb xsd_double xsd_double = true) by apply str_eqb_refl.
  rewrite E1, E2, orb_true_r. cbn [negb orb andb].
  unfold lexical_f64.
  destruct x as [|[|]|[|]|neg m e]; try (vm_compute; reflexivity).
  cbn [display_f64 class_of]. specialize (digits_ok m e). destruct (digits_of m e) as [ds k].
  cbn [fst] in digits_ok.
  destruct (render_body ds k digits_ok) as (Hn & Hh & Hc).
  rewrite render_sign.
  assert (Hv : valid_xsd_float_chars (sign_str neg ++ render false ds k) false = true).
  { apply float_chars_not_special. rewrite forallb_app, Hc. destruct neg; reflexivity. }
  rewrite Hv. cbn [negb]. now apply parse_float_signed_numeric.
Qed.
End FloatProofs.

(* before the repair the infinities were spelled the Rust way *)
Example f64_term_prefix_refuted :
  lexical_f64 no_digits false (FInf false) = s_inf
  /\ xsd_double_lex (lexical_f64 no_digits false (FInf false)) = false
  /\ xsd_double_lex (lexical_f64 no_digits false (FInf true)) = false
  /\ lexical_f64 no_digits true (FInf false) = s_INF
  /\ lexical_f64 no_digits true (FInf true) = s_mINF.
Proof. vm_compute. repeat split. Qed.

(* ================= TryFromTerm for f64 ================= *)
Lemma float_char_lower d c : float_char d c = true -> lower1 c <> 110 /\ lower1 c <> 105.
Proof.
  unfold float_char, lower1, is_digit, is_e. intros H.
  repeat match type of H with
  | _ || _ = true => apply orb_true_iff in H; destruct H as [H|H]
  | _ && _ = true => apply andb_true_iff in H; destruct H as [? H]
  end;
  repeat match goal with
  | H : (_ <=? _) = true |- _ => apply N.leb_le in H
  | H : (_ =? _) = true |- _ => apply N.eqb_eq in H
  end;
  destruct ((65 <=? c) && (c <=? 90)) eqn:E;
  try (apply andb_true_iff in E as [E1 E2]; apply N.leb_le in E1, E2);
  try lia.
  all: try (destruct d; simpl in *; try discriminate).
  all: try (apply orb_true_iff in H; destruct H as [H|H]; apply N.eqb_eq in H; lia).
Qed.

Lemma special_spellings_need_letters d body :
  body <> [] -> forallb (float_char d) body = true ->
  str_eqb (lower body) s_nan = false /\ str_eqb (lower body) s_inf = false
  /\ str_eqb (lower body) s_infinity = false.
Proof.
  intros Hne Hc. destruct body as [|c r]; [congruence|].
  simpl in Hc. apply andb_true_iff in Hc as [Hc _].
  destruct (float_char_lower _ _ Hc) as [Hn Hi].
  cbn [lower map]. unfold s_nan, s_inf, s_infinity. cbn [str_eqb].
  apply N.eqb_neq in Hn, Hi. rewrite Hn, Hi. auto.
Qed.

Lemma float_chars_tail d c r : forallb (float_char d) (c :: r) = true ->
  forallb (float_char d) (strip_sign (c :: r)) = true.
Proof.
  intros H. cbn [strip_sign]. destruct (is_sign c); [|exact H].
  simpl in H. now apply andb_true_iff in H.
Qed.

Lemma decimal_chars_no_e s : forallb (float_char true) s = true -> no_e s = true.
Proof.
  unfold no_e. rewrite !forallb_forall. intros H x Hx. specialize (H x Hx).
  unfold float_char in H. cbn [negb andb] in H. rewrite orb_false_r in H.
  destruct (is_e x) eqn:E; [|reflexivity]. exfalso.
  unfold is_e in E. unfold is_digit in H.
  repeat match type of H with
  | _ || _ = true => apply orb_true_iff in H; destruct H as [H|H]
  | _ && _ = true => apply andb_true_iff in H; destruct H as [? H]
  end;
  repeat match goal with
  | H : (_ <=? _) = true |- _ => apply N.leb_le in H
  | H : (_ =? _) = true |- _ => apply N.eqb_eq in H
  end;
  apply orb_true_iff in E; destruct E as [E|E]; apply N.eqb_eq in E; lia.
Qed.

(* success of the repaired conversion: the term is a literal typed xsd:double, xsd:float or
   xsd:decimal, its lexical form belongs to the lexical space of THAT datatype, a NaN / infinite
   result comes from the XSD spelling of that special value, and the sign of a numeric result is
   the sign written in the lexical form *)
Theorem try_f64_sound t r :
  try_f64 true t = r -> r <> RErr ->
  exists lex, lexical_form t = Some lex
    /\ in_list (datatype t) wl_f64 = true
    /\ float_lex_of (datatype t) lex = true
    /\ (r = RNaN -> lex = s_NaN)
    /\ (r = RInf false -> lex = s_INF \/ lex = s_pINF)
    /\ (r = RInf true -> lex = s_mINF)
    /\ (forall neg, r = RNum neg -> numeric_ok (strip_sign lex) = true /\ neg = (hd 0 lex =? 45)).
Proof.
  unfold try_f64. intros H Hr.
  destruct (lexical_form t) as [lex|]; [|vm_compute in H; congruence].
  set (dt := datatype t) in *.
  destruct (negb (str_eqb dt xsd_decimal || str_eqb dt xsd_float || str_eqb dt xsd_double)) eqn:Ewl;
    [vm_compute in H; congruence|].
  apply negb_false_iff in Ewl.
  cbn [andb] in H.
  destruct (valid_xsd_float_chars lex (str_eqb dt xsd_decimal)) eqn:Ev;
    [|vm_compute in H; congruence].
  cbn [negb] in H.
  exists lex. split; [reflexivity|]. split.
  { unfold in_list, wl_f64. cbn [existsb].
    rewrite orb_false_r. rewrite <- Ewl.
    destruct (str_eqb dt xsd_decimal), (str_eqb dt xsd_float), (str_eqb dt xsd_double); reflexivity. }
  unfold float_lex_of. unfold valid_xsd_float_chars in Ev.
  destruct (str_eqb lex s_INF || str_eqb lex s_pINF || str_eqb lex s_mINF || str_eqb lex s_NaN) eqn:Esp.
  - (* one of the four special spellings; not for xsd:decimal *)
    apply negb_true_iff in Ev. rewrite Ev.
    repeat (apply orb_true_iff in Esp; destruct Esp as [Esp|Esp]);
      try (apply str_eqb_eq in Esp; subst lex; vm_compute in H; subst r;
           repeat split; try reflexivity; try discriminate; auto; intros; discriminate).
  - (* only characters of numbers *)
    destruct lex as [|c l]; [simpl in H; congruence|].
    pose proof (float_chars_tail _ _ _ Ev) as Hbody.
    cbn [rust_parse_float] in H.
    change (if is_sign c then l else c :: l) with (strip_sign (c :: l)) in H.
    destruct (is_nil (strip_sign (c :: l))) eqn:Enil; [congruence|].
    assert (Hne : strip_sign (c :: l) <> []) by (destruct (strip_sign (c :: l)); [discriminate | congruence]).
    destruct (special_spellings_need_letters _ _ Hne Hbody) as (N1 & N2 & N3).
    rewrite N1, N2, N3 in H. cbn [orb] in H.
    destruct (rust_number_ok (strip_sign (c :: l))) eqn:Ok; [|congruence].
    rewrite rust_number_ok_eq in Ok. subst r.
    assert (Hlex : (if str_eqb dt xsd_decimal then xsd_decimal_lex (c :: l) else xsd_double_lex (c :: l)) = true).
    { destruct (str_eqb dt xsd_decimal) eqn:Edec.
      - unfold xsd_decimal_lex. unfold numeric_ok in Ok.
        rewrite (split_exp_noe _ (decimal_chars_no_e _ Hbody)) in Ok. now rewrite andb_true_r in Ok.
      - unfold xsd_double_lex. now rewrite Ok. }
    rewrite Hlex. repeat split; try discriminate.
    + exact Ok.
    + injection H as <-. reflexivity.
Qed.

(* a term that is not a literal, or whose datatype is not one of the three, is refused *)
Theorem try_f64_refuses fixed t :
  lexical_form t = None \/ in_list (datatype t) wl_f64 = false -> try_f64 fixed t = RErr.
Proof.
  unfold try_f64. intros [H|H].
  - rewrite H. vm_compute. reflexivity.
  - destruct (lexical_form t); [|vm_compute; reflexivity].
    unfold in_list, wl_f64 in H. cbn [existsb] in H. rewrite orb_false_r in H.
    apply orb_false_iff in H as [H1 H]. apply orb_false_iff in H as [H2 H3].
    rewrite H1, H2, H3. vm_compute. reflexivity.
Qed.

(* before the repair: Rust spellings typed xsd:double, exponent notation typed xsd:decimal *)
Example try_f64_prefix_refuted :
  try_f64 false (LitDt s_inf xsd_double) = RInf false /\ xsd_double_lex s_inf = false
  /\ try_f64 false (LitDt s_nan xsd_double) = RNaN /\ xsd_double_lex s_nan = false
  /\ try_f64 false (LitDt [49;101;53] xsd_decimal) = RNum false /\ xsd_decimal_lex [49;101;53] = false
  /\ try_f64 true (LitDt s_inf xsd_double) = RErr
  /\ try_f64 true (LitDt s_nan xsd_double) = RErr
  /\ try_f64 true (LitDt [49;101;53] xsd_decimal) = RErr
  /\ try_f64 true (LitDt [49;101;53] xsd_double) = RNum false.
Proof. vm_compute. repeat split. Qed.

(* ================= the recognisers against an explicit description of the grammars ================= *)
Theorem xsd_integer_lex_spec s :
  xsd_integer_lex s = true <->
  exists sg ds, s = sg ++ ds /\ (sg = [] \/ sg = [43] \/ sg = [45]) /\ ds <> [] /\ Forall (fun c => 48 <= c <= 57) ds.
Proof.
  unfold xsd_integer_lex. split.
  - intros H. apply digits1_iff in H as [Hne Hd].
    assert (HF : forall l, all_digits l = true -> Forall (fun c => 48 <= c <= 57) l).
    { intros l Hl. apply Forall_forall. intros x Hx. unfold all_digits in Hl.
      rewrite forallb_forall in Hl. now apply is_digit_range, Hl. }
    destruct s as [|c r]; [simpl in Hne; congruence|]. cbn [strip_sign] in *.
    destruct (is_sign c) eqn:Es.
    + exists [c], r. repeat split; auto. unfold is_sign in Es. apply orb_true_iff in Es as [E|E];
        apply N.eqb_eq in E; subst; auto.
    + exists [], (c :: r). repeat split; auto.
  - intros (sg & ds & -> & Hsg & Hne & HF).
    assert (Hd : all_digits ds = true).
    { unfold all_digits. apply forallb_forall. intros x Hx. rewrite Forall_forall in HF.
      now apply is_digit_range, HF. }
    apply digits1_iff.
    destruct Hsg as [-> | [-> | ->] ]; cbn [app strip_sign is_sign N.eqb orb]; auto.
    destruct ds as [|c r]; [congruence|]. simpl in Hd. apply andb_true_iff in Hd as [Hc Hr].
    rewrite (strip_sign_digit _ _ Hc). split; [discriminate|]. simpl. now rewrite Hc, Hr.
Qed.

(* ================= copies of a native term ================= *)
Lemma term_eqb_litdt l d t : term_eqb (LitDt l d) t = true -> t = LitDt l d.
Proof.
  destruct t; simpl; try discriminate. intros H. apply andb_true_iff in H as [H1 H2].
  apply str_eqb_eq in H1, H2. now subst.
Qed.
(* a term that is Term::eq to a native term IS that literal: same lexical form, same datatype *)
Theorem native_rep_eq digits_of fixed v t :
  term_eqb (native_term digits_of fixed v) t = true -> t = native_term digits_of fixed v.
Proof. apply term_eqb_litdt. Qed.
Theorem native_is_literal digits_of fixed v :
  kind_of (native_term digits_of fixed v) = KLiteral
  /\ lexical_form (native_term digits_of fixed v) = Some (lexical_native digits_of fixed v)
  /\ datatype (native_term digits_of fixed v) = datatype_native v.
Proof. repeat split. Qed.
Theorem reps_ok_sound digits_of fixed v kinds images :
  reps_ok (native_term digits_of fixed v) kinds images = true ->
  (forall k, In k kinds -> k = 2) /\ (forall t, In t images -> t = native_term digits_of fixed v).
Proof.
  unfold reps_ok. intros H. apply andb_true_iff in H as [H1 H2].
  rewrite forallb_forall in H1, H2. split.
  - intros k Hk. specialize (H1 k Hk). unfold native_term in H1. cbn [kind_of kind_rank] in H1.
    apply N.eqb_eq in H1. now subst.
  - intros t Ht. apply native_rep_eq. auto.
Qed.
(* the round trips hold in every representation: whatever is Term::eq to the native term converts
   back to the value *)
Theorem int_rep_roundtrip digits_of fixed ty z t :
  in_ity ty z = true -> term_eqb (native_term digits_of fixed (NInt ty z)) t = true ->
  try_int fixed ty t = inr z.
Proof. intros Hi H. rewrite (native_rep_eq _ _ _ _ H). now apply int_roundtrip. Qed.
Theorem bool_rep_roundtrip digits_of fixed b t :
  term_eqb (native_term digits_of fixed (NBool b)) t = true -> try_bool t = Some b.
Proof. intros H. rewrite (native_rep_eq _ _ _ _ H). apply bool_roundtrip. Qed.
Theorem str_rep_roundtrip digits_of fixed s t :
  term_eqb (native_term digits_of fixed (NStr s)) t = true ->
  lexical_form t = Some s /\ datatype t = xsd_string.
Proof. intros H. rewrite (native_rep_eq _ _ _ _ H). apply str_roundtrip. Qed.
Theorem f64_rep_roundtrip_class (digits_of : N -> Z -> str * Z) :
  (forall m e, all_digits (fst (digits_of m e)) = true) ->
  forall x t, term_eqb (native_term digits_of true (NF64 x)) t = true ->
  try_f64 true t = class_of x.
Proof. intros Hd x t H. rewrite (native_rep_eq _ _ _ _ H). now apply f64_roundtrip_class. Qed.

(* ================= pretty Turtle: bare tokens ================= *)
Lemma all_digits_span s : all_digits s = true -> span_digits s = (s, []).
Proof. intros H. rewrite <- (app_nil_r s) at 1. now apply span_digits_app. Qed.
Lemma re_decimal_not_integer s : re_decimal s = true -> re_integer s = false.
Proof.
  unfold re_decimal, re_integer. intros H.
  destruct (digits1 (strip_sign s)) eqn:E; [|reflexivity].
  apply digits1_iff in E as [_ E]. rewrite (all_digits_span _ E) in H. discriminate.
Qed.
Lemma split_exp_some s m x : split_exp s = (m, Some x) -> no_e s = false.
Proof.
  revert m. induction s as [|c r IH]; intros m H; simpl in H; [discriminate|].
  simpl. destruct (is_e c) eqn:Ec; [reflexivity|].
  destruct (split_exp r) as [m' e'] eqn:Er. injection H as <- ->. simpl. now apply (IH m').
Qed.
Lemma re_double_has_e s : re_double s = true -> no_e (strip_sign s) = false.
Proof.
  unfold re_double. destruct (split_exp (strip_sign s)) as [m [x|]] eqn:E.
  - intros _. eapply split_exp_some; eauto.
  - rewrite andb_false_r. discriminate.
Qed.
Lemma no_e_not_double s : no_e (strip_sign s) = true -> re_double s = false.
Proof. intros H. destruct (re_double s) eqn:E; [|reflexivity]. apply re_double_has_e in E. congruence. Qed.
Lemma re_double_not_integer s : re_double s = true -> re_integer s = false.
Proof.
  intros H. apply re_double_has_e in H. unfold re_integer.
  destruct (digits1 (strip_sign s)) eqn:E; [|reflexivity].
  apply digits1_iff in E as [_ E]. apply digits_no_e in E. congruence.
Qed.
Lemma re_double_not_decimal s : re_double s = true -> re_decimal s = false.
Proof.
  intros H. apply re_double_has_e in H. unfold re_decimal.
  destruct (span_digits (strip_sign s)) as [i r] eqn:E.
  apply span_digits_spec in E as (E & Hi & _). destruct r as [|c f]; [reflexivity|].
  destruct (c =? 46) eqn:Ec; [|reflexivity]. simpl.
  destruct (digits1 f) eqn:Ef; [|reflexivity]. exfalso.
  apply digits1_iff in Ef as [_ Ef]. apply N.eqb_eq in Ec. subst c.
  rewrite E, no_e_app, (digits_no_e _ Hi) in H. simpl in H. rewrite (digits_no_e _ Ef) in H. discriminate.
Qed.
Lemma re_boolean_only s : re_boolean s = true ->
  re_integer s = false /\ re_decimal s = false /\ re_double s = false.
Proof.
  unfold re_boolean. intros H. apply orb_true_iff in H as [H|H]; apply str_eqb_eq in H; subst s;
    repeat split; vm_compute; reflexivity.
Qed.

(* a literal the pretty serializer writes without quotes is read back by the Turtle grammar as the
   same literal: same lexical form, and the datatype the token shape implies is the one it had *)
Theorem bare_reads_back t : written_bare t = true -> read_bare (lexical t) = Some t.
Proof.
  unfold written_bare. destruct t as [s|s|lex dt|lex tag|s p o|s]; cbn [lexical_form datatype lexical]; try discriminate.
  unfold read_bare. intros H.
  apply orb_true_iff in H as [H|H]; [apply orb_true_iff in H as [H|H]; [apply orb_true_iff in H as [H|H]|]|];
    apply andb_true_iff in H as [Hd Hr]; apply str_eqb_eq in Hd; subst dt.
  - now rewrite Hr.
  - now rewrite (re_decimal_not_integer _ Hr), Hr.
  - now rewrite (re_double_not_integer _ Hr), (re_double_not_decimal _ Hr), Hr.
  - destruct (re_boolean_only _ Hr) as (E1 & E2 & E3). now rewrite E1, E2, E3, Hr.
Qed.

(* native integers and booleans are always written bare (and so, by bare_reads_back, come back as
   xsd:integer / xsd:boolean literals with the same lexical form) *)
Theorem int_written_bare digits_of fixed ty z :
  written_bare (native_term digits_of fixed (NInt ty z)) = true
  /\ read_bare (print_int z) = Some (native_term digits_of fixed (NInt ty z)).
Proof.
  assert (H : written_bare (native_term digits_of fixed (NInt ty z)) = true).
  { unfold written_bare, native_term. cbn [lexical_form datatype lexical_native datatype_native].
    rewrite str_eqb_refl. unfold re_integer. pose proof (print_int_lex z) as L. unfold xsd_integer_lex in L.
    now rewrite L. }
  split; [exact H|]. apply bare_reads_back in H. exact H.
Qed.
Theorem bool_written_bare digits_of fixed b :
  written_bare (native_term digits_of fixed (NBool b)) = true
  /\ read_bare (print_bool b) = Some (native_term digits_of fixed (NBool b)).
Proof. destruct b; split; vm_compute; reflexivity. Qed.
(* native strings never are *)
Theorem str_never_bare digits_of fixed s :
  written_bare (native_term digits_of fixed (NStr s)) = false.
Proof.
  unfold written_bare, native_term. cbn [lexical_form datatype lexical_native datatype_native].
  assert (E1 : str_eqb xsd_string xsd_integer = false) by (vm_compute; reflexivity).
  assert (E2 : str_eqb xsd_string xsd_decimal = false) by (vm_compute; reflexivity).
  assert (E3 : str_eqb xsd_string xsd_double = false) by (vm_compute; reflexivity).
  assert (E4 : str_eqb xsd_string xsd_boolean = false) by (vm_compute; reflexivity).
  now rewrite E1, E2, E3, E4.
Qed.

(* nor native doubles: Display never uses an exponent, and the Turtle DOUBLE token requires one.
   (So no f64 is ever re-read as xsd:integer or xsd:decimal: it keeps its quotes and datatype.) *)
Lemma no_e_zeros n : no_e (zeros n) = true.
Proof. apply digits_no_e, all_digits_zeros. Qed.
Lemma render_no_e neg ds exp : all_digits ds = true -> no_e (render neg ds exp) = true.
Proof.
  intros Hd. pose proof (digits_no_e _ Hd) as He. unfold render. rewrite no_e_app.
  assert (Hs : no_e (sign_str neg) = true) by (destruct neg; reflexivity). rewrite Hs. cbn [andb].
  destruct (exp <=? 0)%Z.
  - rewrite !no_e_app, no_e_zeros, He. reflexivity.
  - destruct (exp <? Z.of_nat (length ds))%Z.
    + destruct (all_digits_firstn_skipn (Z.to_nat exp) ds Hd) as [Hf Hk].
      rewrite !no_e_app, (digits_no_e _ Hf), (digits_no_e _ Hk). reflexivity.
    + rewrite no_e_app, no_e_zeros, He. reflexivity.
Qed.
Lemma no_e_strip_sign s : no_e s = true -> no_e (strip_sign s) = true.
Proof.
  destruct s as [|c r]; [auto|]. unfold strip_sign. destruct (is_sign c); [|auto].
  simpl. intros H. now apply andb_true_iff in H.
Qed.
Theorem f64_never_bare (digits_of : N -> Z -> str * Z) :
  (forall m e, all_digits (fst (digits_of m e)) = true) ->
  forall x, written_bare (native_term digits_of true (NF64 x)) = false.
Proof.
  intros Hd x. unfold written_bare, native_term. cbn [lexical_form datatype lexical_native datatype_native].
  assert (E1 : str_eqb xsd_double xsd_integer = false) by (vm_compute; reflexivity).
  assert (E2 : str_eqb xsd_double xsd_decimal = false) by (vm_compute; reflexivity).
  assert (E4 : str_eqb xsd_double xsd_boolean = false) by (vm_compute; reflexivity).
  rewrite E1, E2, E4, str_eqb_refl. cbn [andb orb]. rewrite orb_false_r.
  apply no_e_not_double, no_e_strip_sign. unfold lexical_f64.
  destruct x as [|[|]|[|]|neg m e]; try reflexivity.
  cbn [display_f64]. specialize (Hd m e). destruct (digits_of m e) as [ds k]. now apply render_no_e.
Qed.
(* ... while a double written by other means with an exponent is bare and keeps its datatype *)
Example bare_examples :
  map written_bare [LitDt [49;101;53] xsd_double; LitDt [43;49;46;101;45;51] xsd_double; LitDt [49;46;53] xsd_double;
                    LitDt [49;46;53] xsd_decimal; LitDt [46;53] xsd_decimal; LitDt [53;46] xsd_decimal; LitDt [43;48;48;55] xsd_integer;
                    LitDt [49] xsd_boolean; LitDt s_true xsd_boolean; LitDt [49;101;53] xsd_decimal; LitDt [53] xsd_int;
                    LitLang [53] [101;110]; Iri xsd_integer]
  = [true; true; false; true; true; false; true; false; true; false; false; false; false].
Proof. vm_compute. reflexivity. Qed.
