(* C18/Model.v -- RDF/XML serialisation (xml/src/serializer.rs, rio/src/serializer.rs convert_triple)
   on top of the third-party formatter rio_xml 0.8.6 (formatter.rs, utils.rs) and quick-xml 0.36.2
   (escape.rs, writer.rs), and two readers for the documents the formatter writes:
     strict = false : rio_xml's RdfXmlParser over quick-xml 0.36.2 (what sophia's xml/src/parser.rs wraps)
     strict = true  : XML 1.0 (2.2 Char, 2.11 end-of-line handling, 3.3.3 attribute-value normalisation,
                      4.1/4.6 references) + Namespaces in XML (QName) + the RDF/XML node/property rules.
   Strings are lists of code points.  Definitions only. *)
From Sophia.Common Require Export Prelude Term.

(* ------------------------------------------------------------------------------------------- *)
(* 1. character classes                                                                         *)
(* ------------------------------------------------------------------------------------------- *)
Definition in_rng (c lo hi : N) : bool := (lo <=? c) && (c <=? hi).

(* XML 1.0 [2] Char *)
Definition is_xml_char (c : N) : bool :=
  (c =? 9) || (c =? 10) || (c =? 13) || in_rng c 32 55295 || in_rng c 57344 65533 || in_rng c 65536 1114111.
Definition xml_str (s : str) : bool := forallb is_xml_char s.

(* rio_xml utils.rs is_name_start_char / is_name_char (XML 1.0 5th ed. [4] [4a]) *)
Definition is_name_start_char (c : N) : bool :=
  (c =? 58) || in_rng c 65 90 || (c =? 95) || in_rng c 97 122
  || in_rng c 192 214 || in_rng c 216 246 || in_rng c 248 767 || in_rng c 880 893
  || in_rng c 895 8191 || in_rng c 8204 8205 || in_rng c 8304 8591 || in_rng c 11264 12271
  || in_rng c 12289 55295 || in_rng c 63744 64975 || in_rng c 65008 65533 || in_rng c 65536 983039.
Definition is_name_char (c : N) : bool :=
  is_name_start_char c || (c =? 45) || (c =? 46) || in_rng c 48 57 || (c =? 183)
  || in_rng c 768 879 || in_rng c 8255 8256.

(* rio_xml parser.rs is_name / is_nc_name *)
Definition is_name (s : str) : bool :=
  match s with [] => false | c :: r => is_name_start_char c && forallb is_name_char r end.
Definition not_colon (c : N) : bool := negb (c =? 58).
Definition is_ncname (s : str) : bool := is_name s && forallb not_colon s.

(* parser.rs is_whitespace (XML S) *)
Definition is_ws (c : N) : bool := (c =? 32) || (c =? 9) || (c =? 10) || (c =? 13).
Definition ws_only (s : str) : bool := forallb is_ws s.

(* ------------------------------------------------------------------------------------------- *)
(* 2. escaping as written (quick-xml escape.rs `escape`, used by BytesText::new for element      *)
(*    text and by From<(&str,&str)> for Attribute for every attribute value)                     *)
(* ------------------------------------------------------------------------------------------- *)
Definition e_lt : str := [38;108;116;59].
Definition e_gt : str := [38;103;116;59].
Definition e_amp : str := [38;97;109;112;59].
Definition e_apos : str := [38;97;112;111;115;59].
Definition e_quot : str := [38;113;117;111;116;59].
Definition is_special (c : N) : bool := (c =? 60) || (c =? 62) || (c =? 38) || (c =? 39) || (c =? 34).
Definition esc1 (c : N) : str :=
  if c =? 60 then e_lt else if c =? 62 then e_gt else if c =? 38 then e_amp
  else if c =? 39 then e_apos else if c =? 34 then e_quot else [c].
Definition escape (s : str) : str := flat_map esc1 s.
Definition escape_text : str -> str := escape.     (* BytesText::new(content) *)
Definition escape_attr : str -> str := escape.     (* push_attribute((key, value)) *)

(* ------------------------------------------------------------------------------------------- *)
(* 3. reader side: references, end-of-line handling, attribute-value normalisation               *)
(* ------------------------------------------------------------------------------------------- *)
Definition dec_val (c : N) : option N := if in_rng c 48 57 then Some (c - 48) else None.
Definition hex_val (c : N) : option N :=
  if in_rng c 48 57 then Some (c - 48) else if in_rng c 97 102 then Some (c - 87)
  else if in_rng c 65 70 then Some (c - 55) else None.
Fixpoint parse_radix (radix : N) (dv : N -> option N) (s : str) (acc : N) : option N :=
  match s with
  | [] => Some acc
  | c :: r => match dv c with Some d => parse_radix radix dv r (acc * radix + d) | None => None end
  end.
(* quick-xml from_str_radix: no sign, at least one digit, fits u32 *)
Definition from_str_radix (radix : N) (dv : N -> option N) (s : str) : option N :=
  match s with
  | [] => None
  | c :: _ => if (c =? 43) || (c =? 45) then None
              else match parse_radix radix dv s 0 with
                   | Some v => if v <? 4294967296 then Some v else None
                   | None => None
                   end
  end.
Definition is_scalar (c : N) : bool := (c <=? 1114111) && negb (in_rng c 55296 57343).
(* quick-xml parse_number; the strict reader also demands Char (XML 1.0 WFC: Legal Character) *)
Definition char_ref (strict : bool) (num : str) : option N :=
  let code := match num with
              | c :: h => if c =? 120 then from_str_radix 16 hex_val h else from_str_radix 10 dec_val num
              | [] => None
              end in
  match code with
  | Some c => if c =? 0 then None
              else if is_scalar c then (if strict && negb (is_xml_char c) then None else Some c)
              else None
  | None => None
  end.
Definition n_lt : str := [108;116].
Definition n_gt : str := [103;116].
Definition n_amp : str := [97;109;112].
Definition n_apos : str := [97;112;111;115].
Definition n_quot : str := [113;117;111;116].
(* the text between '&' and ';' : character reference or one of the five predefined entities
   (no DOCTYPE is ever written, so there are no custom entities) *)
Definition resolve_ref (strict : bool) (name : str) : option str :=
  match name with
  | c :: num => if c =? 35 then option_map (fun x => [x]) (char_ref strict num)
                else if str_eqb name n_lt then Some [60] else if str_eqb name n_gt then Some [62]
                else if str_eqb name n_amp then Some [38] else if str_eqb name n_apos then Some [39]
                else if str_eqb name n_quot then Some [34] else None
  | [] => None
  end.

(* quick-xml unescape_with as a one-pass automaton: [st = Some acc] while inside a reference
   (acc = the name read so far, reversed); a second '&' before ';' or the end of input inside a
   reference is an error; a ';' outside a reference is ordinary text.  [lit] is applied to
   literal (non-reference) characters: identity for text, 3.3.3 for strict attribute values. *)
Fixpoint unesc (strict : bool) (lit : N -> N) (st : option str) (s : str) : option str :=
  match s with
  | [] => match st with None => Some [] | Some _ => None end
  | c :: r =>
      match st with
      | None => if c =? 38 then unesc strict lit (Some []) r
                else option_map (cons (lit c)) (unesc strict lit None r)
      | Some acc =>
          if c =? 59 then
            match resolve_ref strict (rev acc) with
            | Some v => option_map (app v) (unesc strict lit None r)
            | None => None
            end
          else if c =? 38 then None
          else unesc strict lit (Some (c :: acc)) r
      end
  end.

(* XML 1.0 2.11: CR LF and lone CR become LF before parsing *)
Fixpoint norm_eol (s : str) : str :=
  match s with
  | [] => []
  | c :: r =>
      if c =? 13 then
        10 :: match r with
              | d :: r' => if d =? 10 then norm_eol r' else norm_eol r
              | [] => []
              end
      else c :: norm_eol r
  end.
(* XML 1.0 3.3.3: literal TAB / LF / CR in an attribute value become a space (CDATA type) *)
Definition ws2sp (c : N) : N := if (c =? 9) || (c =? 10) || (c =? 13) then 32 else c.
Definition idN (c : N) : N := c.

Definition xml_read_text (raw : str) : option str :=
  if xml_str raw then unesc true idN None (norm_eol raw) else None.
Definition xml_read_attr (raw : str) : option str :=
  if xml_str raw then unesc true ws2sp None (norm_eol raw) else None.
(* quick-xml 0.36.2: BytesText::unescape_with / Attribute::decode_and_unescape_value_with do
   neither end-of-line nor attribute-value normalisation and do not check Char *)
Definition rio_unescape (raw : str) : option str := unesc false idN None raw.
(* rio_xml parse_text_event inside a property element: whitespace-only raw text is dropped *)
Definition rio_text_lit (raw : str) : option str :=
  match rio_unescape raw with
  | Some t => Some (if ws_only raw then [] else t)
  | None => None
  end.
Definition rd_attr (strict : bool) (raw : str) : option str :=
  if strict then xml_read_attr raw else rio_unescape raw.
Definition rd_text (strict : bool) (raw : str) : option str :=
  if strict then xml_read_text raw else rio_unescape raw.

(* ------------------------------------------------------------------------------------------- *)
(* 4. rio_xml formatter.rs split_iri                                                            *)
(* ------------------------------------------------------------------------------------------- *)
Fixpoint span {A} (f : A -> bool) (l : list A) : list A * list A :=
  match l with
  | [] => ([], [])
  | x :: r => if f x then let '(a, b) := span f r in (x :: a, b) else ([], l)
  end.
(* rfind(|c| !is_name_char(c) || c == ':') *)
Definition brk (c : N) : bool := negb (is_name_char c) || (c =? 58).
(* find(|c| is_name_start_char(c) && c != ':') *)
Definition nc_start (c : N) : bool := is_name_start_char c && negb (c =? 58).
Definition split_iri (iri : str) : str * str :=
  let '(suf_rev, pre_rev) := span (fun c => negb (brk c)) (rev iri) in
  match pre_rev with
  | [] => (iri, [])                                      (* rfind: None *)
  | b :: pre' =>                                         (* b = the character at position_base *)
      let '(skip, loc) := span (fun c => negb (nc_start c)) (b :: rev suf_rev) in
      match loc with
      | [] => (iri, [])                                  (* find: None *)
      | _ => (rev pre' ++ skip, loc)
      end
  end.

(* ------------------------------------------------------------------------------------------- *)
(* 5. Rio's data model (the part the formatter accepts) and sophia's convert_triple              *)
(* ------------------------------------------------------------------------------------------- *)
Inductive rnode := RIri (i : str) | RBnode (b : str).
Inductive robj := ONode (n : rnode) | OSimple (v : str) | OLang (v tag : str) | OTyped (v dt : str).
Definition rtriple := (rnode * str * robj)%type.

Definition xsd_string : str := [104;116;116;112;58;47;47;119;119;119;46;119;51;46;111;114;103;47;50;48;48;49;47;88;77;76;83;99;104;101;109;97;35;115;116;114;105;110;103].

(* does convert_triple succeed on a QUOTED triple (Stack head present)? *)
Fixpoint conv_s (t : term) : bool :=
  match t with
  | Iri _ | Bnode _ => true
  | Triple s p o => conv_s s && (match p with Iri _ => true | _ => false end) && conv_o o
  | _ => false
  end
with conv_o (t : term) : bool :=
  match t with
  | Iri _ | Bnode _ | LitDt _ _ | LitLang _ _ => true
  | Triple s p o => conv_s s && (match p with Iri _ => true | _ => false end) && conv_o o
  | Var _ => false
  end.

(* outcome of convert_triple(t).head():
   CSkip = Empty stack (the triple is silently ignored by rio_format_triples);
   CRio s p o = a Rio triple; its subject / object may be Subject::Triple / Term::Triple
   (SQuoted / OQuoted), on which Rio's formatter returns an InvalidInput error *)
Inductive sconv := SQuoted | SNode (n : rnode).
Inductive oconv := OQuoted | OObj (o : robj).
Inductive conv := CSkip | CRio (s : sconv) (p : str) (o : oconv).
Definition convert (t : term * term * term) : conv :=
  let '(s, p, o) := t in
  let cs := match s with
            | Iri i => Some (SNode (RIri i)) | Bnode b => Some (SNode (RBnode b))
            | Triple _ _ _ => if conv_s s then Some SQuoted else None
            | _ => None
            end in
  match cs with
  | None => CSkip
  | Some rs =>
    match p with
    | Iri pi =>
        let co := match o with
                  | Iri i => Some (OObj (ONode (RIri i))) | Bnode b => Some (OObj (ONode (RBnode b)))
                  | LitDt v dt => Some (OObj (if str_eqb xsd_string dt then OSimple v else OTyped v dt))
                  | LitLang v tag => Some (OObj (OLang v tag))
                  | Triple _ _ _ => if conv_o o then Some OQuoted else None
                  | Var _ => None
                  end in
        match co with
        | None => CSkip
        | Some ro => CRio rs pi ro
        end
    | _ => CSkip
    end
  end.

(* sophia_rio::model::Trusted + StrictRioTripleSource: a Rio triple read back as sophia terms *)
Definition term_of_node (n : rnode) : term := match n with RIri i => Iri i | RBnode b => Bnode b end.
Definition term_of_obj (o : robj) : term :=
  match o with
  | ONode n => term_of_node n
  | OSimple v => LitDt v xsd_string
  | OLang v tag => LitLang v tag
  | OTyped v dt => LitDt v dt
  end.
Definition unconvert (t : rtriple) : term * term * term :=
  let '(s, p, o) := t in (term_of_node s, Iri p, term_of_obj o).

(* ------------------------------------------------------------------------------------------- *)
(* 6. the emitted document as a sequence of quick-xml events                                     *)
(* ------------------------------------------------------------------------------------------- *)
Inductive qname := QRdf | QDesc | QPropEmpty | QLocal (l : str).     (* rdf:RDF, rdf:Description, "prop:", local *)
Inductive akey := KXmlnsRdf | KXmlns | KXmlnsProp | KAbout | KNodeID | KResource | KLang | KDatatype.
Definition attrs := list (akey * str).          (* values in their ESCAPED (raw) form *)
Inductive event :=
| EDecl
| EStart (q : qname) (a : attrs)
| EEnd (q : qname)
| EEmpty (q : qname) (a : attrs)
| EText (raw : str)
| EPad (n : N).        (* line break + n spaces, written by the indenting Writer before a tag *)

Definition rdf_ns : str := [104;116;116;112;58;47;47;119;119;119;46;119;51;46;111;114;103;47;49;57;57;57;47;48;50;47;50;50;45;114;100;102;45;115;121;110;116;97;120;45;110;115;35].

Definition rnode_eqb (a b : rnode) : bool :=
  match a, b with
  | RIri x, RIri y => str_eqb x y
  | RBnode x, RBnode y => str_eqb x y
  | _, _ => false
  end.

Definition subj_attr (n : rnode) : akey * str :=
  match n with RIri i => (KAbout, escape_attr i) | RBnode b => (KNodeID, escape_attr b) end.
Definition prop_name (p : str) : qname * (akey * str) :=
  let '(ns, loc) := split_iri p in
  match loc with
  | [] => (QPropEmpty, (KXmlnsProp, escape_attr ns))
  | _ => (QLocal loc, (KXmlns, escape_attr ns))
  end.
Definition fmt_prop (p : str) (o : robj) : list event :=
  let '(q, x) := prop_name p in
  match o with
  | ONode (RIri i) => [EEmpty q [x; (KResource, escape_attr i)]]
  | ONode (RBnode b) => [EEmpty q [x; (KNodeID, escape_attr b)]]
  | OSimple v => [EStart q [x]; EText (escape_text v); EEnd q]
  | OLang v tag => [EStart q [x; (KLang, escape_attr tag)]; EText (escape_text v); EEnd q]
  | OTyped v dt => [EStart q [x; (KDatatype, escape_attr dt)]; EText (escape_text v); EEnd q]
  end.
(* RdfXmlFormatter::format with current_subject = cur *)
Definition fmt_open (cur : option rnode) (s : rnode) : list event :=
  match cur with
  | Some c => if rnode_eqb c s then [] else [EEnd QDesc; EStart QDesc [subj_attr s]]
  | None => [EStart QDesc [subj_attr s]]
  end.
Definition fmt_triple (cur : option rnode) (t : rtriple) : list event :=
  let '(s, p, o) := t in fmt_open cur s ++ fmt_prop p o.
(* format* then finish() *)
Fixpoint fmt_body (cur : option rnode) (ts : list rtriple) : list event :=
  match ts with
  | [] => match cur with Some _ => [EEnd QDesc] | None => [] end
  | t :: r => fmt_triple cur t ++ fmt_body (Some (fst (fst t))) r
  end.
(* write_start ... finish *)
Definition fmt_doc (ts : list rtriple) : list event :=
  EDecl :: EStart QRdf [(KXmlnsRdf, escape_attr rdf_ns)] :: fmt_body None ts ++ [EEnd QRdf].

(* quick-xml Writer::write_event with Option<Indentation>: [slb] = should_line_break,
   [lvl] = current_indent_len, [size] = indent_size *)
Fixpoint wr (ind : option N) (slb : bool) (lvl : N) (evs : list event) : list event :=
  match evs with
  | [] => []
  | e :: r =>
      let pad := fun l => match ind with Some _ => if slb then [EPad l] else [] | None => [] end in
      let size := match ind with Some n => n | None => 0 end in
      match e with
      | EStart _ _ => pad lvl ++ e :: wr ind true (lvl + size) r
      | EEnd _ => pad (lvl - size) ++ e :: wr ind true (lvl - size) r
      | EEmpty _ _ | EDecl => pad lvl ++ e :: wr ind true lvl r
      | EText _ => e :: wr ind false lvl r
      | EPad _ => e :: wr ind slb lvl r
      end
  end.

(* the bytes *)
Definition s_decl : str := [60;63;120;109;108;32;118;101;114;115;105;111;110;61;34;49;46;48;34;32;101;110;99;111;100;105;110;103;61;34;85;84;70;45;56;34;63;62].
Definition s_rdfRDF : str := [114;100;102;58;82;68;70].
Definition s_rdfDesc : str := [114;100;102;58;68;101;115;99;114;105;112;116;105;111;110].
Definition s_prop : str := [112;114;111;112;58].
Definition qname_str (q : qname) : str :=
  match q with QRdf => s_rdfRDF | QDesc => s_rdfDesc | QPropEmpty => s_prop | QLocal l => l end.
Definition akey_str (k : akey) : str :=
  match k with
  | KXmlnsRdf => [120;109;108;110;115;58;114;100;102]
  | KXmlns => [120;109;108;110;115]
  | KXmlnsProp => [120;109;108;110;115;58;112;114;111;112]
  | KAbout => [114;100;102;58;97;98;111;117;116]
  | KNodeID => [114;100;102;58;110;111;100;101;73;68]
  | KResource => [114;100;102;58;114;101;115;111;117;114;99;101]
  | KLang => [120;109;108;58;108;97;110;103]
  | KDatatype => [114;100;102;58;100;97;116;97;116;121;112;101]
  end.
Definition attr_str (a : akey * str) : str := 32 :: akey_str (fst a) ++ [61; 34] ++ snd a ++ [34].
Definition pad_str (n : N) : str := 10 :: repeat 32 (N.to_nat n).
Definition flat1 (e : event) : str :=
  match e with
  | EDecl => s_decl
  | EStart q a => 60 :: qname_str q ++ flat_map attr_str a ++ [62]
  | EEnd q => 60 :: 47 :: qname_str q ++ [62]
  | EEmpty q a => 60 :: qname_str q ++ flat_map attr_str a ++ [47; 62]
  | EText raw => raw
  | EPad n => pad_str n
  end.
Definition flatten (evs : list event) : str := flat_map flat1 evs.

(* ------------------------------------------------------------------------------------------- *)
(* 7. sophia: RdfXmlSerializer::serialize_triples                                               *)
(* ------------------------------------------------------------------------------------------- *)
Inductive ser_result := SerOk (doc : str) | SerErrSubj | SerErrObj | SerErrInput.

(* The proposed repair of xml/src/serializer.rs (build/proposed/C18.diff) wraps Rio's formatter in
   `Checked`, modelled by [guard = true]; [guard = false] is the serializer as it is without it. *)
(* node_id: a label starting with a digit or '_' gets one more '_' in front *)
Definition node_out (guard : bool) (b : str) : str :=
  if guard then match b with
                | c :: _ => if in_rng c 48 57 || (c =? 95) then 95 :: b else b
                | [] => b
                end
  else b.
Definition ren_node (guard : bool) (n : rnode) : rnode :=
  match n with RBnode b => RBnode (node_out guard b) | x => x end.
(* l_* and is_reserved are defined in section 8 (the reader has the same list) *)
Definition l_about : str := [97;98;111;117;116].
Definition l_aboutEach : str := [97;98;111;117;116;69;97;99;104].
Definition l_aboutEachPrefix : str := [97;98;111;117;116;69;97;99;104;80;114;101;102;105;120].
Definition l_bagID : str := [98;97;103;73;68].
Definition l_datatype : str := [100;97;116;97;116;121;112;101].
Definition l_ID : str := [73;68].
Definition l_li : str := [108;105].
Definition l_nodeID : str := [110;111;100;101;73;68].
Definition l_parseType : str := [112;97;114;115;101;84;121;112;101].
Definition l_RDF : str := [82;68;70].
Definition l_resource : str := [114;101;115;111;117;114;99;101].
Definition l_Description : str := [68;101;115;99;114;105;112;116;105;111;110].
Definition rdf_li : str := rdf_ns ++ l_li.
(* parser.rs RESERVED_RDF_ELEMENTS plus rdf:Description: not allowed as property element names;
   the same twelve names are RDF_RESERVED in the repair *)
Definition reserved_props : list str :=
  map (app rdf_ns) [l_about; l_aboutEach; l_aboutEachPrefix; l_bagID; l_datatype; l_ID; l_li;
                    l_nodeID; l_parseType; l_RDF; l_resource; l_Description].
Definition is_reserved (p : str) : bool := existsb (str_eqb p) reserved_props.
(* check_predicate: has_local_name (Rio's own split rule finds a local name) && !reserved *)
Definition has_local (p : str) : bool := match snd (split_iri p) with [] => false | _ => true end.
Definition check_pred (p : str) : bool := has_local p && negb (is_reserved p).
Definition lit_text (o : robj) : option str :=
  match o with ONode _ => None | OSimple v | OLang v _ | OTyped v _ => Some v end.
(* the whole check on a Rio triple whose subject and object are not quoted triples *)
Definition expressible (t : rtriple) : bool :=
  let '(_, p, o) := t in
  check_pred p && match lit_text o with Some v => xml_str v | None => true end.
Definition ren_obj (guard : bool) (o : robj) : robj :=
  match o with ONode n => ONode (ren_node guard n) | x => x end.
Definition ren_t (guard : bool) (t : rtriple) : rtriple :=
  let '(s, p, o) := t in (ren_node guard s, p, ren_obj guard o).

Inductive fmt_result := FOk (t : rtriple) | FErr (e : ser_result).
(* Checked::format followed by RdfXmlFormatter::format, as far as errors are concerned *)
Definition guard_format (guard : bool) (s : sconv) (p : str) (o : oconv) : fmt_result :=
  if guard && negb (check_pred p) then FErr SerErrInput
  else if guard && match o with OObj ob => match lit_text ob with Some v => negb (xml_str v) | None => false end | OQuoted => false end
  then FErr SerErrInput
  else match s with
       | SQuoted => FErr SerErrSubj                    (* "RDF/XML only supports named or blank subject" *)
       | SNode n => match o with
                    | OQuoted => FErr SerErrObj        (* "... named, blank or literal object" *)
                    | OObj ob => FOk (ren_t guard (n, p, ob))
                    end
       end.

(* rio_format_triples: skip what convert_triple rejects, stop at the first formatter error *)
Fixpoint collect (guard : bool) (g : list (term * term * term)) : list rtriple * option ser_result :=
  match g with
  | [] => ([], None)
  | t :: r =>
      match convert t with
      | CSkip => collect guard r
      | CRio s p o =>
          match guard_format guard s p o with
          | FErr e => ([], Some e)
          | FOk x => let '(ts, e) := collect guard r in (x :: ts, e)
          end
      end
  end.
(* `if self.config.indentation > 0 { with_indentation(..) } else { new(..) }` *)
Definition indent_opt (indentation : N) : option N := if indentation =? 0 then None else Some indentation.
Definition doc_events (indentation : N) (ts : list rtriple) : list event :=
  wr (indent_opt indentation) false 0 (fmt_doc ts).
Definition serialize (guard : bool) (indentation : N) (g : list (term * term * term)) : ser_result :=
  match collect guard g with
  | (ts, None) => SerOk (flatten (doc_events indentation ts))
  | (_, Some e) => e
  end.

(* ------------------------------------------------------------------------------------------- *)
(* 8. reading the events back (the vocabulary the formatter uses: rdf:RDF, rdf:Description with   *)
(*    rdf:about / rdf:nodeID, property elements with a namespace declaration and rdf:resource /   *)
(*    rdf:nodeID / xml:lang / rdf:datatype / text).  [None] = error, or a construct outside this  *)
(*    vocabulary.                                                                                 *)
(* ------------------------------------------------------------------------------------------- *)
(* decimal spelling of the rdf:li counter *)
Fixpoint dec_digits (fuel : nat) (n : N) (acc : str) : str :=
  match fuel with
  | O => acc
  | S f => let acc' := (48 + n mod 10) :: acc in
           if n / 10 =? 0 then acc' else dec_digits f (n / 10) acc'
  end.
Definition dec (n : N) : str := dec_digits 20 n [].

Definition akey_eqb (a b : akey) : bool :=
  match a, b with
  | KXmlnsRdf, KXmlnsRdf | KXmlns, KXmlns | KXmlnsProp, KXmlnsProp | KAbout, KAbout
  | KNodeID, KNodeID | KResource, KResource | KLang, KLang | KDatatype, KDatatype => true
  | _, _ => false
  end.
Fixpoint get (k : akey) (a : attrs) : option str :=
  match a with
  | [] => None
  | (k', v) :: r => if akey_eqb k k' then Some v else get k r
  end.

Inductive pobj := PNode (n : rnode) | PText (t : str).
Inductive mode :=
| MDoc | MRdf | MEnd
| MNode (s : rnode) (li : N)
| MProp (s : rnode) (li : N) (p : str) (lang : option str) (dt : option str) (obj : option pobj).
Definition rstate := (mode * list rtriple)%type.

(* the IRI of an element name.  Rio: namespace bytes ++ local name, then unescape_with.
   strict: the local part must be a non-empty NCName (Namespaces in XML [7]-[11]); the namespace
   name is the normalised attribute value *)
Definition nonempty (s : option str) : option str :=
  match s with Some [] => None | x => x end.
Definition resolve_prop (strict : bool) (q : qname) (a : attrs) : option str :=
  match q with
  | QLocal l =>
      match get KXmlns a with
      | Some ns => match ns with [] => None | _ =>
                   if strict then (if is_ncname l then option_map (fun n => n ++ l) (nonempty (xml_read_attr ns)) else None)
                   else rio_unescape (ns ++ l) end
      | None => None
      end
  | QPropEmpty =>
      match get KXmlnsProp a with
      | Some ns => match ns with [] => None | _ => if strict then None else rio_unescape ns end
      | None => None
      end
  | QDesc => Some (rdf_ns ++ l_Description)
  | QRdf => Some (rdf_ns ++ l_RDF)
  end.
Definition opt_attr (strict : bool) (k : akey) (a : attrs) : option (option str) :=
  match get k a with
  | None => Some None
  | Some raw => option_map Some (rd_attr strict raw)
  end.
Definition node_id (strict : bool) (raw : str) : option rnode :=
  match rd_attr strict raw with
  | Some b => if is_ncname b then Some (RBnode b) else None     (* "is not a valid rdf:nodeID value" *)
  | None => None
  end.
(* rdf:about / rdf:nodeID of a node element *)
Definition read_subject (strict : bool) (a : attrs) : option rnode :=
  match get KAbout a, get KNodeID a with
  | Some raw, None => option_map RIri (rd_attr strict raw)
  | None, Some raw => node_id strict raw
  | _, _ => None
  end.
(* rdf:resource / rdf:nodeID of a property element *)
Definition read_obj (strict : bool) (a : attrs) : option (option pobj) :=
  match get KResource a, get KNodeID a with
  | Some raw, None => option_map (fun i => Some (PNode (RIri i))) (rd_attr strict raw)
  | None, Some raw => option_map (fun n => Some (PNode n)) (node_id strict raw)
  | None, None => Some None
  | Some _, Some _ => None
  end.
Definition start_prop (strict : bool) (s : rnode) (li : N) (q : qname) (a : attrs) : option mode :=
  match resolve_prop strict q a with
  | None => None
  | Some iri0 =>
      if str_eqb iri0 rdf_li then
        match opt_attr strict KLang a, opt_attr strict KDatatype a, read_obj strict a with
        | Some lang, Some dt, Some obj =>
            Some (MProp s (li + 1) (rdf_ns ++ 95 :: dec (li + 1)) (option_map lower lang) dt obj)
        | _, _, _ => None
        end
      else if is_reserved iri0 then None
      else
        match opt_attr strict KLang a, opt_attr strict KDatatype a, read_obj strict a with
        | Some lang, Some dt, Some obj => Some (MProp s li iri0 (option_map lower lang) dt obj)
        | _, _, _ => None
        end
  end.
Definition mk_lit (lang dt : option str) (t : str) : robj :=
  match dt with
  | Some d => OTyped t d
  | None => match lang with Some l => OLang t l | None => OSimple t end
  end.
Definition step_start (strict : bool) (st : rstate) (q : qname) (a : attrs) : option rstate :=
  let '(m, acc) := st in
  match m with
  | MDoc => match q with QRdf => Some (MRdf, acc) | _ => None end
  | MRdf => match q with
            | QDesc => option_map (fun s => (MNode s 0, acc)) (read_subject strict a)
            | _ => None
            end
  | MNode s li => option_map (fun m' => (m', acc)) (start_prop strict s li q a)
  | MProp _ _ _ _ _ _ => None
  | MEnd => None
  end.
Definition step_end (st : rstate) : option rstate :=
  let '(m, acc) := st in
  match m with
  | MProp s li p lang dt obj =>
      let o := match obj with
               | Some (PNode n) => ONode n
               | Some (PText t) => mk_lit lang dt t
               | None => mk_lit lang dt []
               end in
      Some (MNode s li, acc ++ [(s, p, o)])
  | MNode _ _ => Some (MRdf, acc)
  | MRdf => Some (MEnd, acc)
  | MDoc | MEnd => None
  end.
Definition step_text (strict : bool) (st : rstate) (raw : str) : option rstate :=
  let '(m, acc) := st in
  match m with
  | MProp s li p lang dt obj =>
      match rd_text strict raw with
      | None => None
      | Some t =>
          if strict then
            match obj with
            | None => Some (MProp s li p lang dt (Some (PText t)), acc)
            | Some (PText t0) => Some (MProp s li p lang dt (Some (PText (t0 ++ t))), acc)
            | Some (PNode _) => None
            end
          else if ws_only raw then Some st
          else Some (MProp s li p lang dt (Some (PText t)), acc)
      end
  | _ => match rd_text strict raw with
         | None => None
         | Some _ => if ws_only raw then Some st else None       (* "Unexpected text event" *)
         end
  end.
Definition step (strict : bool) (st : rstate) (e : event) : option rstate :=
  match e with
  | EDecl => Some st
  | EStart q a => step_start strict st q a
  | EEnd _ => step_end st
  | EEmpty q a => match step_start strict st q a with Some st' => step_end st' | None => None end
  | EText raw => step_text strict st raw
  | EPad n => step_text strict st (pad_str n)
  end.
Fixpoint run (strict : bool) (st : option rstate) (evs : list event) : option rstate :=
  match evs with
  | [] => st
  | e :: r => match st with Some s => run strict (step strict s e) r | None => None end
  end.
Definition read (strict : bool) (evs : list event) : option (list rtriple) :=
  match run strict (Some (MDoc, [])) evs with
  | Some (MEnd, acc) => Some acc
  | _ => None
  end.

(* language tags come back lower-cased (parser.rs: tag.to_ascii_lowercase()) *)
Definition norm_obj (o : robj) : robj := match o with OLang v tag => OLang v (lower tag) | x => x end.
Definition norm_t (t : rtriple) : rtriple := let '(s, p, o) := t in (s, p, norm_obj o).

(* ------------------------------------------------------------------------------------------- *)
(* 9. the classes of Rio triples for which the round trip is claimed                             *)
(* ------------------------------------------------------------------------------------------- *)
Definition has (c : N) (s : str) : bool := existsb (N.eqb c) s.
(* a value written as an attribute: XML Char, no TAB / LF / CR (3.3.3 would turn them into spaces) *)
Definition attr_safe (s : str) : bool := xml_str s && negb (has 9 s) && negb (has 10 s) && negb (has 13 s).
(* element text: XML Char, no CR (2.11 would turn it into LF) *)
Definition text_safe (s : str) : bool := xml_str s && negb (has 13 s).
(* Rio's reader: text must not be non-empty and whitespace-only *)
Definition rio_text_ok (s : str) : bool := match s with [] => true | _ => negb (ws_only s) end.

Definition node_ok (strict : bool) (n : rnode) : bool :=
  match n with
  | RIri i => if strict then attr_safe i else true
  | RBnode b => is_ncname b && (if strict then attr_safe b else true)
  end.
Definition lit_ok (strict : bool) (v : str) : bool := if strict then text_safe v else rio_text_ok v.
Definition obj_ok (strict : bool) (o : robj) : bool :=
  match o with
  | ONode n => node_ok strict n
  | OSimple v => lit_ok strict v
  | OLang v tag => lit_ok strict v && (if strict then attr_safe tag else true)
  | OTyped v dt => lit_ok strict v && (if strict then attr_safe dt else true)
  end.
Definition pred_ok (strict : bool) (p : str) : bool :=
  has 58 p && negb (is_reserved p)
  && (if strict then attr_safe p && negb (match snd (split_iri p) with [] => true | _ => false end) else true).
Definition triple_ok (strict : bool) (t : rtriple) : bool :=
  let '(s, p, o) := t in node_ok strict s && pred_ok strict p && obj_ok strict o.

(* With the repair the class is stated on what sophia hands over (before node_out), and the
   conditions the wrapper checks itself ([expressible]) are no longer hypotheses.
   label_ok = sophia's BnodeId (api/src/term/bnode_id.rs BNODE_ID) minus its rule about '.':
   first character PN_CHARS_U (= NameStartChar without ':') or a digit, then PN_CHARS or '.'
   (= NameChar without ':') *)
Definition label_ok (b : str) : bool :=
  match b with
  | c :: r => (nc_start c || in_rng c 48 57) && forallb (fun x => negb (brk x)) r
  | [] => false
  end.
Definition asafe (strict : bool) (v : str) : bool := if strict then attr_safe v else true.
Definition lit_valid (strict : bool) (v : str) : bool := if strict then negb (has 13 v) else rio_text_ok v.
Definition node_valid (strict : bool) (n : rnode) : bool :=
  match n with RIri i => asafe strict i | RBnode b => label_ok b end.
Definition obj_valid (strict : bool) (o : robj) : bool :=
  match o with
  | ONode n => node_valid strict n
  | OSimple v => lit_valid strict v
  | OLang v tag => lit_valid strict v && asafe strict tag
  | OTyped v dt => lit_valid strict v && asafe strict dt
  end.
Definition triple_valid (strict : bool) (t : rtriple) : bool :=
  let '(s, p, o) := t in node_valid strict s && has 58 p && asafe strict p && obj_valid strict o.

(* ------------------------------------------------------------------------------------------- *)
(* 10. harness-facing checkers                                                                   *)
(* ------------------------------------------------------------------------------------------- *)
Inductive obs_ser := ObsDoc (doc : str) | ObsSomeDoc | ObsErrSubj | ObsErrObj | ObsErrInput | ObsOther.
Definition ser_ok (guard : bool) (indentation : N) (g : list (term * term * term)) (o : obs_ser) : bool :=
  match serialize guard indentation g, o with
  | SerOk d, ObsDoc d' => str_eqb d d'
  | SerOk _, ObsSomeDoc => true          (* success observed; the bytes are compared at the other indentation *)
  | SerErrSubj, ObsErrSubj => true
  | SerErrObj, ObsErrObj => true
  | SerErrInput, ObsErrInput => true
  | _, _ => false
  end.

Definition triple3_eqb (a b : term * term * term) : bool :=
  let '(s1, p1, o1) := a in let '(s2, p2, o2) := b in
  term_eqb s1 s2 && term_eqb p1 p2 && term_eqb o1 o2.
(* exact comparison (no case folding): spelled with str_eqb on every component *)
Fixpoint term_same (a b : term) : bool :=
  match a, b with
  | Iri x, Iri y | Bnode x, Bnode y | Var x, Var y => str_eqb x y
  | LitDt l1 d1, LitDt l2 d2 => str_eqb l1 l2 && str_eqb d1 d2
  | LitLang l1 t1, LitLang l2 t2 => str_eqb l1 l2 && str_eqb t1 t2
  | Triple s1 p1 o1, Triple s2 p2 o2 => term_same s1 s2 && term_same p1 p2 && term_same o1 o2
  | _, _ => false
  end.
Definition triple3_same (a b : term * term * term) : bool :=
  let '(s1, p1, o1) := a in let '(s2, p2, o2) := b in
  term_same s1 s2 && term_same p1 p2 && term_same o1 o2.

Definition is_node_term (t : term) : bool := match t with Iri _ | Bnode _ => true | _ => false end.
Definition is_iri_term (t : term) : bool := match t with Iri _ => true | _ => false end.
Definition is_obj_term (t : term) : bool :=
  match t with Iri _ | Bnode _ | LitDt _ _ | LitLang _ _ => true | _ => false end.
(* the triples RDF/XML can express, as far as sophia is concerned *)
Definition representable (t : term * term * term) : bool :=
  let '(s, p, o) := t in is_node_term s && is_iri_term p && is_obj_term o.
Definition flat_term (t : term) : bool := match t with Triple _ _ _ => false | _ => true end.
Definition flat3 (t : term * term * term) : bool :=
  let '(s, p, o) := t in flat_term s && flat_term p && flat_term o.

(* what comes back: language tags lower-cased; with the repair, blank node labels through node_out *)
Definition norm_term (guard : bool) (t : term) : term :=
  match t with
  | LitLang v tag => LitLang v (lower tag)
  | Bnode b => Bnode (node_out guard b)
  | x => x
  end.
Definition norm_term3 (guard : bool) (t : term * term * term) : term * term * term :=
  let '(s, p, o) := t in (norm_term guard s, p, norm_term guard o).
(* the usual outcome: exactly the representable triples, in order *)
Definition expected_parse (guard : bool) (g : list (term * term * term)) : list (term * term * term) :=
  map (norm_term3 guard) (filter representable g).

(* what the model reader returns on the model's own events for graph g, as sophia terms *)
Definition model_parse (guard strict : bool) (indentation : N) (g : list (term * term * term))
  : option (list (term * term * term)) :=
  match collect guard g with
  | (ts, None) => option_map (map unconvert) (read strict (doc_events indentation ts))
  | _ => None
  end.
(* observed: the triples the real parser (strict = false) or the harness's reference reader
   (strict = true) produced from the real document, in document order; None = it failed *)
Definition parse_ok (guard strict : bool) (indentation : N) (g : list (term * term * term))
  (o : option (list (term * term * term))) : bool :=
  opt_eqb (list_eqb triple3_same) (model_parse guard strict indentation g) o.

Definition parse_std (guard strict : bool) (indentation : N) (g : list (term * term * term)) : bool :=
  parse_ok guard strict indentation g (Some (expected_parse guard g)).

(* reader stream: raw element text / raw attribute value fed to the real parser *)
Definition text_ok (raw : str) (o : option str) : bool := opt_eqb str_eqb (rio_text_lit raw) o.
Definition attr_ok (raw : str) (o : option str) : bool := opt_eqb str_eqb (rio_unescape raw) o.
(* the same through the harness's reference reader *)
Definition xtext_ok (raw : str) (o : option str) : bool := opt_eqb str_eqb (xml_read_text raw) o.
Definition xattr_ok (raw : str) (o : option str) : bool := opt_eqb str_eqb (xml_read_attr raw) o.
Definition split_ok (iri ns loc : str) : bool :=
  let '(a, b) := split_iri iri in str_eqb a ns && str_eqb b loc.
