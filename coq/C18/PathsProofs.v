(* C18/PathsProofs.v -- theorems about the entry points of C18/Paths.v *)
From Sophia.C18 Require Import Model Proofs Paths.

(* ---- (1) the provided method is the required one on the graph's listing ---- *)
Theorem serialize_graph_spec guard k listing :
  serialize_via EGraph guard k listing = serialize_via ETriples guard k listing.
Proof. reflexivity. Qed.

(* ---- (2) what containers list ---- *)
Lemma term_same_eq a : forall b, term_same a b = true -> a = b.
Proof.
  induction a; intros b H; destruct b; cbn [term_same] in H; try discriminate;
    rewrite ?andb_true_iff in H.
  - apply str_eqb_eq in H. congruence.
  - apply str_eqb_eq in H. congruence.
  - destruct H as [H1 H2]. apply str_eqb_eq in H1, H2. congruence.
  - destruct H as [H1 H2]. apply str_eqb_eq in H1, H2. congruence.
  - destruct H as [[H1 H2] H3]. f_equal; auto.
  - apply str_eqb_eq in H. congruence.
Qed.
Lemma term_same_refl a : term_same a a = true.
Proof. induction a; cbn [term_same]; rewrite ?str_eqb_refl, ?IHa1, ?IHa2, ?IHa3; reflexivity. Qed.
Lemma triple3_same_iff x y : triple3_same x y = true <-> x = y.
Proof.
  destruct x as [[s1 p1] o1], y as [[s2 p2] o2]. unfold triple3_same. split.
  - rewrite !andb_true_iff. intros [[H1 H2] H3]. apply term_same_eq in H1, H2, H3. congruence.
  - intros E. injection E as -> -> ->. rewrite !term_same_refl. reflexivity.
Qed.
Theorem listing_seq g fed : listing_ok CSeq g fed = true -> fed = g.
Proof. unfold listing_ok. intros H. apply (list_eqb_spec _ triple3_same_iff) in H. auto. Qed.

Lemma ci_sym a b : str_eqb_ci a b = str_eqb_ci b a.
Proof.
  unfold str_eqb_ci. destruct (str_eqb (lower a) (lower b)) eqn:E.
  - apply str_eqb_eq in E. rewrite E, str_eqb_refl. reflexivity.
  - destruct (str_eqb (lower b) (lower a)) eqn:E'; [|reflexivity].
    apply str_eqb_eq in E'. rewrite E', str_eqb_refl in E. discriminate.
Qed.
Lemma ci_trans a b c : str_eqb_ci a b = true -> str_eqb_ci b c = true -> str_eqb_ci a c = true.
Proof. unfold str_eqb_ci. rewrite !str_eqb_eq. congruence. Qed.
Lemma term_eqb_sym a : forall b, term_eqb a b = true -> term_eqb b a = true.
Proof.
  induction a; intros b H; destruct b; cbn [term_eqb] in *; try discriminate;
    rewrite ?andb_true_iff in *.
  - apply str_eqb_eq in H. subst. apply str_eqb_refl.
  - apply str_eqb_eq in H. subst. apply str_eqb_refl.
  - destruct H as [H1 H2]. apply str_eqb_eq in H1, H2. subst. rewrite !str_eqb_refl. auto.
  - destruct H as [H1 H2]. apply str_eqb_eq in H1. subst. rewrite str_eqb_refl, ci_sym. auto.
  - destruct H as [[H1 H2] H3]. auto.
  - apply str_eqb_eq in H. subst. apply str_eqb_refl.
Qed.
Lemma term_eqb_trans a : forall b c, term_eqb a b = true -> term_eqb b c = true -> term_eqb a c = true.
Proof.
  induction a; intros b c H1 H2; destruct b; cbn [term_eqb] in H1; try discriminate;
    destruct c; cbn [term_eqb] in *; try discriminate; rewrite ?andb_true_iff in *.
  - apply str_eqb_eq in H1, H2. subst. apply str_eqb_refl.
  - apply str_eqb_eq in H1, H2. subst. apply str_eqb_refl.
  - destruct H1 as [A1 A2], H2 as [B1 B2]. apply str_eqb_eq in A1, A2, B1, B2. subst. rewrite !str_eqb_refl. auto.
  - destruct H1 as [A1 A2], H2 as [B1 B2]. apply str_eqb_eq in A1, B1. subst. rewrite str_eqb_refl.
    split; [reflexivity|]. eapply ci_trans; eauto.
  - destruct H1 as [[A1 A2] A3], H2 as [[B1 B2] B3]. repeat split; eauto.
  - apply str_eqb_eq in H1, H2. subst. apply str_eqb_refl.
Qed.
Lemma t3_refl x : triple3_eqb x x = true.
Proof. destruct x as [[s p] o]. unfold triple3_eqb. rewrite !term_eqb_refl. reflexivity. Qed.
Lemma t3_sym x y : triple3_eqb x y = true -> triple3_eqb y x = true.
Proof.
  destruct x as [[s1 p1] o1], y as [[s2 p2] o2]. unfold triple3_eqb. rewrite !andb_true_iff.
  intros [[H1 H2] H3]. auto using term_eqb_sym.
Qed.
Lemma t3_trans x y z : triple3_eqb x y = true -> triple3_eqb y z = true -> triple3_eqb x z = true.
Proof.
  destruct x as [[s1 p1] o1], y as [[s2 p2] o2], z as [[s3 p3] o3]. unfold triple3_eqb. rewrite !andb_true_iff.
  intros [[A1 A2] A3] [[B1 B2] B3]. repeat split; eapply term_eqb_trans; eauto.
Qed.
Lemma mem3_true t l : mem3 t l = true <-> exists u, In u l /\ triple3_eqb t u = true.
Proof. unfold mem3. apply existsb_exists. Qed.
Lemma mem3_compat a b l : triple3_eqb a b = true -> mem3 a l = true -> mem3 b l = true.
Proof.
  intros E H. apply mem3_true in H as (u & Hu & Hau). apply mem3_true. exists u. split; [assumption|].
  eapply t3_trans; [apply t3_sym; eassumption | assumption].
Qed.
Lemma incl3_mem a b t : incl3 a b = true -> mem3 t a = true -> mem3 t b = true.
Proof.
  unfold incl3. rewrite forallb_forall. intros H Ht. apply mem3_true in Ht as (u & Hu & Htu).
  apply (mem3_compat u t); [apply t3_sym; assumption | auto].
Qed.
Lemma bool_iff_eq (a b : bool) : (a = true <-> b = true) -> a = b.
Proof. destruct a, b; intros [H1 H2]; auto; symmetry; auto. Qed.
Lemma list_eqb_same_refl g : list_eqb triple3_same g g = true.
Proof. apply (list_eqb_spec _ triple3_same_iff). reflexivity. Qed.

(* the listing has exactly the members of what was inserted (members up to Term::eq) *)
Theorem listing_members c g fed : listing_ok c g fed = true -> forall t, mem3 t fed = mem3 t g.
Proof.
  destruct c; cbn [listing_ok]; intros H t.
  - apply listing_seq in H. subst. reflexivity.
  - rewrite !andb_true_iff in H. destruct H as [[_ H1] H2].
    apply bool_iff_eq. split; eauto using incl3_mem.
Qed.

Lemma kind_compat a b : term_eqb a b = true ->
  is_node_term a = is_node_term b /\ is_iri_term a = is_iri_term b /\ is_obj_term a = is_obj_term b.
Proof. destruct a, b; cbn [term_eqb]; intros H; try discriminate; repeat split; reflexivity. Qed.
Lemma representable_compat x y : triple3_eqb x y = true -> representable x = representable y.
Proof.
  destruct x as [[s1 p1] o1], y as [[s2 p2] o2]. unfold triple3_eqb, representable. rewrite !andb_true_iff.
  intros [[H1 H2] H3]. apply kind_compat in H1 as (-> & _ & _), H2 as (_ & -> & _), H3 as (_ & _ & ->). reflexivity.
Qed.
Lemma mem3_filter t l : mem3 t (filter representable l) = representable t && mem3 t l.
Proof.
  apply bool_iff_eq. rewrite andb_true_iff, !mem3_true. split.
  - intros (u & Hu & E). apply filter_In in Hu as [Hu Hr]. rewrite (representable_compat _ _ E). eauto.
  - intros [Hr (u & Hu & E)]. exists u. split; [|assumption]. apply filter_In. split; [assumption|].
    rewrite <- (representable_compat _ _ E). assumption.
Qed.
(* ... and so do the triples RDF/XML can express: nothing is lost or invented by the container *)
Theorem listing_representable c g fed : listing_ok c g fed = true ->
  forall t, mem3 t (filter representable fed) = mem3 t (filter representable g).
Proof. intros H t. rewrite !mem3_filter, (listing_members c g fed H). reflexivity. Qed.

(* THEOREM (every container, both methods): serialising a container whose listing is in the class
   succeeds and reads back as that listing, which has the members of what was put in *)
Theorem container_roundtrip c e strict k g fed :
  listing_ok c g fed = true ->
  forallb flat3 fed = true -> forallb expressible (rts fed) = true ->
  forallb (triple_valid strict) (rts fed) = true ->
  serialize_via e true k fed = SerOk (flatten (doc_events k (map (ren_t true) (rts fed))))
  /\ model_parse true strict k fed = Some (expected_parse true fed)
  /\ forall t, mem3 t (filter representable fed) = mem3 t (filter representable g).
Proof.
  intros Hl Hf He Hv. destruct (guarded_roundtrip strict k fed Hf He Hv) as [H1 H2].
  repeat split; [destruct e; exact H1 | exact H2 | apply (listing_representable c); assumption].
Qed.
(* the two methods give the same outcome on every container, in or out of the class *)
Theorem entries_agree c guard k g fed o :
  path_ok c guard k g fed o = true ->
  ser_ok guard k fed o = true /\ serialize_via EGraph guard k fed = serialize_via ETriples guard k fed
  /\ forall t, mem3 t fed = mem3 t g.
Proof.
  unfold path_ok. rewrite andb_true_iff. intros [Hl Hs]. repeat split; [assumption|].
  apply (listing_members c); assumption.
Qed.

(* ---- (3) several calls on one serializer ---- *)
Theorem ser_calls_app guard k : forall gs buf,
  ser_calls guard k buf gs = (buf ++ fst (ser_calls guard k [] gs), snd (ser_calls guard k [] gs)).
Proof.
  induction gs as [|g r IH]; intros buf; cbn [ser_calls].
  - cbn [fst snd]. rewrite app_nil_r. reflexivity.
  - destruct (serialize guard k g) as [d| | |]; cbn [fst snd]; rewrite ?app_nil_r; try reflexivity.
    rewrite (IH (buf ++ d)), (IH ([] ++ d)). cbn [fst snd app]. rewrite app_assoc. reflexivity.
Qed.
(* the writer ends up with the documents of the single calls, one after the other *)
Theorem ser_calls_concat guard k : forall gs buf t,
  concat_docs (docs_of guard k gs) = Some t -> ser_calls guard k buf gs = (buf ++ t, None).
Proof.
  induction gs as [|g r IH]; intros buf t; cbn [docs_of map concat_docs ser_calls].
  - intros E. injection E as <-. rewrite app_nil_r. reflexivity.
  - fold (docs_of guard k r). destruct (serialize guard k g) as [d| | |]; try discriminate.
    destruct (concat_docs (docs_of guard k r)) as [t'|] eqn:E; cbn [option_map]; [|discriminate].
    intros E'. injection E' as <-. rewrite (IH (buf ++ d) t' eq_refl), app_assoc. reflexivity.
Qed.
Theorem ser_calls_error guard k : forall gs buf,
  concat_docs (docs_of guard k gs) = None -> exists b e, ser_calls guard k buf gs = (b, Some e).
Proof.
  induction gs as [|g r IH]; intros buf; cbn [docs_of map concat_docs ser_calls]; [discriminate|].
  fold (docs_of guard k r). destruct (serialize guard k g) as [d| | |]; eauto.
  destruct (concat_docs (docs_of guard k r)) eqn:E; cbn [option_map]; [discriminate|]. intros _. apply IH. reflexivity.
Qed.
Definition in_class (strict : bool) (g : graph3) : bool :=
  forallb flat3 g && forallb expressible (rts g) && forallb (triple_valid strict) (rts g).
(* THEOREM: any number of calls with graphs of the class all succeed, the writer holds the single
   documents one after the other, and each of them reads back as its graph *)
Theorem calls_roundtrip strict k gs :
  forallb (in_class strict) gs = true ->
  exists t, ser_calls true k [] gs = (t, None) /\ concat_docs (docs_of true k gs) = Some t
  /\ forall g, In g gs ->
       serialize true k g = SerOk (flatten (doc_events k (map (ren_t true) (rts g))))
       /\ model_parse true strict k g = Some (expected_parse true g).
Proof.
  intros H.
  assert (Hall : forall g, In g gs ->
       serialize true k g = SerOk (flatten (doc_events k (map (ren_t true) (rts g))))
       /\ model_parse true strict k g = Some (expected_parse true g)).
  { intros g Hg. rewrite forallb_forall in H. specialize (H g Hg). unfold in_class in H.
    rewrite !andb_true_iff in H. destruct H as [[Hf He] Hv]. apply guarded_roundtrip; assumption. }
  assert (Hc : exists t, concat_docs (docs_of true k gs) = Some t).
  { clear H. induction gs as [|g r IH]; cbn [docs_of map concat_docs]; [eauto|]. fold (docs_of true k r).
    destruct (Hall g (or_introl eq_refl)) as [-> _].
    destruct IH as [t Ht]; [intros g' Hg'; apply Hall; right; assumption|]. rewrite Ht. cbn [option_map]. eauto. }
  destruct Hc as [t Ht]. exists t. repeat split; try assumption; try (apply Hall; assumption).
  apply (ser_calls_concat true k gs [] t Ht).
Qed.

(* ---- (4) the limited writer ---- *)
Lemma utf8_len_app a b : utf8_len (a ++ b) = utf8_len a + utf8_len b.
Proof. induction a as [|c a IH]; cbn [utf8_len app]; [reflexivity|]. rewrite IH. lia. Qed.
Lemma utf8_len1_pos c : 1 <= utf8_len1 c.
Proof. unfold utf8_len1. destruct (c <? 128), (c <? 2048), (c <? 65536); lia. Qed.
Lemma utf8_len_length s : N.of_nat (length s) <= utf8_len s.
Proof. induction s as [|c s IH]; cbn [utf8_len length]; [lia|]. pose proof (utf8_len1_pos c). lia. Qed.
Theorem ser_limited_mono guard k g n m : n <= m -> ser_limited guard k g n = true -> ser_limited guard k g m = true.
Proof.
  unfold ser_limited. destruct (serialize guard k g); try discriminate. rewrite !N.leb_le. lia.
Qed.
Theorem ser_limited_exact guard k g d : serialize guard k g = SerOk d ->
  ser_limited guard k g (utf8_len d) = true /\ forall n, n < utf8_len d -> ser_limited guard k g n = false.
Proof.
  unfold ser_limited. intros ->. split; [apply N.leb_le; lia|]. intros n Hn. apply N.leb_gt. assumption.
Qed.
Theorem ser_limited_error guard k g n : (forall d, serialize guard k g <> SerOk d) -> ser_limited guard k g n = false.
Proof. unfold ser_limited. destruct (serialize guard k g); try reflexivity. intros H. destruct (H doc eq_refl). Qed.

(* ---- non-vacuity ---- *)
(* ex_graph2 held by a set container that lists it backwards with the duplicate removed *)
Definition ex_set_in : graph3 := ex_graph2 ++ [(Bnode [98;46;99], Iri [117;114;110;58;120;58;121], LitLang [10;97;10] [101;110;45;85;83])].  (* same triple, tag en-US *)
Example ex_container :
  listing_ok CSet ex_set_in (rev ex_graph2) = true
  /\ forallb flat3 (rev ex_graph2) = true /\ forallb expressible (rts (rev ex_graph2)) = true
  /\ forallb (triple_valid true) (rts (rev ex_graph2)) = true
  /\ listing_ok CSeq ex_graph2 ex_graph2 = true /\ listing_ok CSet ex_set_in ex_set_in = false.
Proof. vm_compute. repeat split; reflexivity. Qed.
Example ex_calls :
  forallb (in_class true) [ex_graph2; rev ex_graph2; []] = true
  /\ calls_ok true 2 [ex_graph2; rev ex_graph2; []]
       (option_map (fun d => d ++ d) None) = false
  /\ (exists t, calls_ok true 2 [ex_graph2; rev ex_graph2; []] (Some t) = true).
Proof.
  split; [vm_compute; reflexivity|]. split; [vm_compute; reflexivity|].
  exists (fst (ser_calls true 2 [] [ex_graph2; rev ex_graph2; []])). vm_compute. reflexivity.
Qed.
(* a call that fails stops the chain; digit labels through serialize_graph come out as XML names *)
Example ex_calls_error :
  calls_ok true 0 [ex_graph; [(ex_s, Iri [104;116;116;112;58;47;47;101;47], ex_s)]; ex_graph] None = true.
Proof. vm_compute. reflexivity. Qed.
Example ex_graph_digit_label :
  serialize_via EGraph true 0 [(Bnode [49], ex_p, Bnode [50;98])]
  = SerOk (flatten (doc_events 0 [(RBnode [95;49], [104;116;116;112;58;47;47;101;47;112], ONode (RBnode [95;50;98]))])).
Proof. vm_compute. reflexivity. Qed.
Example ex_limited :
  ser_limited true 0 [] 112 = false /\ ser_limited true 0 [] 113 = true
  /\ utf8_len [97; 233; 8364; 128512] = 10.
Proof. vm_compute. repeat split; reflexivity. Qed.
