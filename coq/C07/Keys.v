(* C07/Keys.v -- blanked statements as plain strings: comparing/equating IsoTerms is comparing
   these keys, which live in a total order with Leibniz equality (lexicographic strings). *)
From Sophia.C02 Require Import Model Proofs.
From Sophia.C07 Require Import Model.
From Coq Require Import Permutation.

(* replace every blank node label by the empty label *)
Fixpoint blank (t : term) : term :=
  match t with
  | Bnode _ => Bnode []
  | Triple s p o => Triple (blank s) (blank p) (blank o)
  | _ => t
  end.

Lemma blank_wf t : wf t -> wf (blank t).
Proof. induction t; simpl; auto. intros [H1 [H2 H3]]. auto. Qed.

Lemma iso_eqb_blank a : forall b, iso_eqb a b = term_eqb (blank a) (blank b).
Proof.
  induction a as [s|s|l d|l t|s IHs p IHp o IHo|s]; intros [s'|s'|l' d'|l' t'|s' p' o'|s']; simpl; auto.
  rewrite IHs, IHp, IHo. reflexivity.
Qed.

Lemma iso_cmp_blank a : forall b, iso_cmp a b = term_cmp (blank a) (blank b).
Proof.
  induction a as [s|s|l d|l t|s IHs p IHp o IHo|s]; intros [s'|s'|l' d'|l' t'|s' p' o'|s']; try reflexivity.
  cbn [iso_cmp blank]. rewrite IHs, IHp, IHo.
  cbn [term_cmp kind_of kind_rank]. rewrite N.compare_refl. reflexivity.
Qed.

Lemma blank_rename pi t : blank (rename_t pi t) = blank t.
Proof. induction t; simpl; auto. congruence. Qed.

Lemma rename_wf pi t : wf t -> wf (rename_t pi t).
Proof. induction t; simpl; auto. intros [H1 [H2 H3]]. auto. Qed.

(* ---------- keys ---------- *)
Definition ekey (t : term) : str := enc (blank t).
Definition key (q : quad) : str :=
  ekey (qs q) ++ ekey (qp q) ++ ekey (qo q)
  ++ match qg q with None => [0] | Some g => 1 :: ekey g end.

Definition wfq (q : quad) : Prop :=
  wf (qs q) /\ wf (qp q) /\ wf (qo q) /\ match qg q with Some g => wf g | None => True end.

Lemma iso_cmp_enc a b r1 r2 : wf a -> wf b ->
  str_cmp (ekey a ++ r1) (ekey b ++ r2) = then_cmp (iso_cmp a b) (str_cmp r1 r2).
Proof.
  intros Wa Wb. unfold ekey. rewrite iso_cmp_blank. apply enc_cmp; apply blank_wf; assumption.
Qed.

Lemma quad_cmp_key a b : wfq a -> wfq b -> quad_cmp iso_cmp a b = str_cmp (key a) (key b).
Proof.
  intros (A1 & A2 & A3 & A4) (B1 & B2 & B3 & B4). unfold quad_cmp, key.
  rewrite !iso_cmp_enc by assumption. f_equal. f_equal. f_equal.
  destruct (qg a) as [ga|], (qg b) as [gb|]; simpl; auto.
  pose proof (iso_cmp_enc ga gb [] [] A4 B4) as H. rewrite !app_nil_r in H. rewrite H.
  simpl. rewrite then_cmp_eq_r. reflexivity.
Qed.

Lemma iso_eqb_cmp a b : wf a -> wf b -> (iso_eqb a b = true <-> iso_cmp a b = Eq).
Proof.
  intros Wa Wb. rewrite iso_eqb_blank, iso_cmp_blank. symmetry.
  apply term_cmp_eq; apply blank_wf; assumption.
Qed.

Lemma quad_eqb_key a b : wfq a -> wfq b -> (quad_eqb iso_eqb a b = true <-> key a = key b).
Proof.
  intros Wa Wb. rewrite <- str_cmp_eq, <- quad_cmp_key by assumption.
  destruct Wa as (A1 & A2 & A3 & A4), Wb as (B1 & B2 & B3 & B4).
  unfold quad_eqb, quad_cmp. rewrite !andb_true_iff, !then_cmp_Eq, !iso_eqb_cmp by assumption.
  assert (Hg : gn_eqb iso_eqb (qg a) (qg b) = true <-> gn_cmp iso_cmp (qg a) (qg b) = Eq).
  { destruct (qg a), (qg b); simpl; try (split; congruence). apply iso_eqb_cmp; assumption. }
  rewrite Hg. tauto.
Qed.

Lemma key_rename pi q : key (rename_q pi q) = key q.
Proof.
  unfold key, ekey, rename_q. simpl. rewrite !blank_rename.
  destruct (qg q); simpl; rewrite ?blank_rename; reflexivity.
Qed.

Lemma rename_wfq pi q : wfq q -> wfq (rename_q pi q).
Proof.
  intros (A1 & A2 & A3 & A4). unfold wfq, rename_q. simpl.
  repeat split; try apply rename_wf; auto. destruct (qg q); auto. apply rename_wf; auto.
Qed.

