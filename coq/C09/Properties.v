(* C09/Properties.v -- pinned statements of property C09. *)
From Sophia.Common Require Import Prelude.
From Sophia.C09 Require Import Regex Rfc3987 Resolve Model AtomsProofs Proofs.
From Sophia.C09 Require Lang EquivIri EquivIrel Classify SchemeAscii.

(* ===== part (1): a string is accepted iff it matches the RFC 3987 grammar ===== *)
(* the regenerated IRI_REGEX_SRC / IRELATIVE_REF_REGEX_SRC accept exactly the words of the rules IRI /
   irelative-ref of Rfc3987.v (decided by `ka` on the atom level, transported to code points) *)
Check (EquivIri.iri_regex_is_rfc3987 : forall w, matchb iri_regex w = matchb IRI w).
Check (EquivIrel.irel_regex_is_rfc3987 : forall w, matchb irelative_ref_regex w = matchb irelative_ref w).
(* the validators and constructors of sophia_iri, and Namespace::get of sophia_api *)
Check (is_absolute_iri_ref_spec : forall s, is_absolute_iri_ref s = matchb IRI s).
Check (is_relative_iri_ref_spec : forall s, is_relative_iri_ref s = matchb irelative_ref s).
Check (is_valid_iri_ref_spec : forall s, is_valid_iri_ref s = matchb IRI_reference s).
Check (iri_new_spec : forall s, iri_new_ok s = matchb IRI s).
Check (iriref_new_spec : forall s, iriref_new_ok s = matchb IRI_reference s).
Check (namespace_get_spec : forall ns suffix,
  namespace_get_ok ns suffix = matchb IRI_reference ns && matchb IRI_reference (ns ++ suffix)).
(* classification: the two rules are disjoint, so an accepted reference is absolute xor relative *)
Check (Classify.iri_irelative_ref_disjoint : forall w, matchb IRI w = true -> matchb irelative_ref w = false).
Check (absolute_relative_exclusive : forall s, is_absolute_iri_ref s = true -> is_relative_iri_ref s = false).
Check (valid_iff_absolute_xor_relative : forall s,
  is_valid_iri_ref s = xorb (is_absolute_iri_ref s) (is_relative_iri_ref s)).
(* the executable matcher decides membership in the language denoted by a regex (RelationAlgebra's
   model of languages: 0, 1, union, concatenation, Kleene star; leaves = one-letter words of a class) *)
Check (Lang.matchb_spec : forall r w, matchb r w = true <-> Lang.langc r w).
Check (is_absolute_iri_ref_lang : forall s, is_absolute_iri_ref s = true <-> Lang.langc IRI s).
Check (is_relative_iri_ref_lang : forall s, is_relative_iri_ref s = true <-> Lang.langc irelative_ref s).
(* atoms: the table partitions 0..0x10FFFF, and an aligned class is the union of its atoms *)
Check (atoms_partition : forall c, c <= max_cp ->
  exists e, In e atom_table /\ e_lo e <= c <= e_hi e /\ atom_of c = e_atom e /\ atom_of c < n_atoms).
Check (atoms_disjoint : forall c e1 e2, In e1 atom_table -> In e2 atom_table ->
  e_lo e1 <= c <= e_hi e1 -> e_lo e2 <= c <= e_hi e2 -> e1 = e2).
Check (aligned_spec : forall rs, aligned rs = true ->
  forall c, inr c rs = memN (atom_of c) (atoms_in rs)).

(* what the translator emitted is consistent with what Coq computes from the classes *)
Example translator_atoms_agree :
  rexN_eqb (abstract iri_regex) iri_regex_atoms && rexN_eqb (abstract irelative_ref_regex) irelative_ref_regex_atoms = true.
Proof. vm_compute. reflexivity. Qed.
Example everything_aligned :
  all_aligned iri_regex && all_aligned irelative_ref_regex && all_aligned IRI && all_aligned irelative_ref = true.
Proof. vm_compute. reflexivity. Qed.
(* non-vacuity: the grammar accepts and rejects *)
Example grammar_examples :
  matchb IRI s_valid_rejected = true /\ matchb IRI s_upper_v = true /\
  matchb IRI s_invalid_accepted = false /\ matchb IRI s_port_junk = false /\
  matchb irelative_ref [46;46;47;97] = true /\ matchb irelative_ref [97;58;98] = false /\   (* "../a", "a:b" *)
  matchb IRI [97;58;98] = true /\ matchb IRI_reference [] = true /\ matchb IRI [] = false.
Proof. vm_compute. repeat split; reflexivity. Qed.

(* ===== parts (2)/(3): resolution ===== *)
(* the specification (RFC 3986 5.2) splits and recomposes without loss *)
Check (recompose_parse5 : forall s, recompose (parse5 s) = s).
(* (3) oxiri's unchecked entry point never fails; with the checked one (today's wiring, read from the
   source into gen/IriWiring.v) resolve_panics_refuted exhibits an accepted pair that panics *)
Check (resolve_unchecked_total : forall base ref, resolve_gen false base ref <> None).
Check (resolve_impl_total : typed_resolve_is_checked = false -> forall base ref, resolve_impl base ref <> None).
(* on references without a path (empty, "?query", "#fragment") the resolver IS RFC 3986 5.2 *)
Check (resolve_impl_no_path_spec : forall base ref,
  match ref with [] => true | c :: _ => N.eqb c k_qmark || N.eqb c k_hash end = true ->
  resolve_impl base ref = Some (resolve base ref)).
(* ===== the other public entry points (widened harness) ===== *)
Check (is_valid_suffixed_iri_ref_spec : forall ns suf,
  is_valid_suffixed_iri_ref ns suf = matchb IRI_reference (ns ++ match suf with Some x => x | None => [] end)).
Check (suffixed_split_irrelevant : forall s n,
  is_valid_suffixed_iri_ref (firstn n s) (Some (skipn n s)) = is_valid_iri_ref s).
Check (base_new_spec : forall s,
  base_iri_new_ok s = matchb IRI s /\ base_iriref_new_ok s = matchb IRI_reference s).
Check (parts_ok_recompose : forall s abs sch auth pth q f,
  parts_ok s abs sch auth pth q f = true ->
  recompose (mk_parts sch auth pth q f) = s /\ abs = is_some sch).
Check (wrap_eqb_eq : forall a b, wrap_eqb a b = true <-> a = b).
Check (wrap_cmp_antisym : forall a b, wrap_cmp b a = CompOpp (wrap_cmp a b)).
Check (wrap_cmp_trans : forall c a b d, wrap_cmp a b = c -> wrap_cmp b d = c -> wrap_cmp a d = c).
Check (cmp_ok_sound : forall a b c, cmp_ok a b c = true <-> wrap_cmp a b = c).
Check (protect_result_absolute : forall base ref o,
  is_some (p_scheme (base_parts base)) = true -> protect_result base ref o = o).
Check (resolve_str_invalid : forall base ref, is_valid_iri_ref ref = false -> resolve_str_impl base ref = None).
Check (resolve_str_typed_agree : forall base ref,
  typed_resolve_is_checked = true -> is_valid_iri_ref ref = true ->
  is_some (p_scheme (base_parts base)) = true ->
  resolve_str_impl base ref = resolve_impl base ref).
Check (resolve_str_rel_agree : forall base ref o,
  typed_resolve_is_checked = true -> is_valid_iri_ref ref = true ->
  resolve_rel_impl base ref = Some o -> resolve_str_impl base ref = Some o).
Check (resolve_rel_impl_valid : forall base ref o,
  resolve_rel_impl base ref = Some o -> matchb IRI_reference o = true).
Check (no_colon_no_scheme : forall s, has_colon (first_segment s) = false -> p_scheme (parse5 s) = None).
(* BaseIriRef::resolve after the repair: two references without a scheme give a reference without a scheme *)
Check (resolve_rel_no_scheme : forall base ref o,
  p_scheme (parse5 base) = None -> has_colon (first_segment ref) = false ->
  resolve_rel_impl base ref = Some o ->
  p_scheme (parse5 o) = None /\ matchb IRI_reference o = true).
(* non-vacuity: the hypotheses hold for ("", "./:"), where oxiri alone returns ":" *)
Example resolve_rel_no_scheme_applies :
  p_scheme (parse5 []) = None /\ has_colon (first_segment [46;47;58]) = false /\
  resolve_rel_impl [] [46;47;58] = Some [46;47;58].
Proof. vm_compute. repeat split; reflexivity. Qed.
Example parts_ok_example :                      (* "s://h/p?q#f" *)
  parts_ok [115;58;47;47;104;47;112;63;113;35;102] true (Some [115]) (Some [104]) [47;112] (Some [113]) (Some [102]) = true /\
  cmp_ok [97] [97;98] Lt = true /\ cmp_ok [98] [97;98] Gt = true /\ cmp_ok [233] [233] Eq = true.
Proof. vm_compute. repeat split; reflexivity. Qed.

(* ===== the serde entry points (impl Deserialize / Serialize for Iri, IriRef) and the scheme of an accepted text ===== *)
Check (iri_deserialize_spec : forall s, iri_deserialize s = if matchb IRI s then Some s else None).
Check (iriref_deserialize_spec : forall s, iriref_deserialize s = if matchb IRI_reference s then Some s else None).
Check (deserialize_keeps_text : forall s t, iri_deserialize s = Some t \/ iriref_deserialize s = Some t -> t = s).
(* a relative reference is never read as an Iri, wherever its colons are *)
Check (relative_ref_never_deserialized_as_iri : forall s,
  matchb irelative_ref s = true -> iri_deserialize s = None /\ iriref_deserialize s = Some s).
Check (iri_deserialize_is_iriref : forall s t, iri_deserialize s = Some t -> iriref_deserialize s = Some t).
Check (iri_roundtrip_spec : forall s, iri_roundtrip s = iri_deserialize s).
Check (iriref_roundtrip_spec : forall s, iriref_roundtrip s = iriref_deserialize s).
Check (untagged_classifies : forall s, untagged_abs_or_ref s =
  if matchb IRI s then Some (true, s) else if matchb irelative_ref s then Some (false, s) else None).
Check (deserialized_iri_is_a_base : forall s t, iri_deserialize s = Some t -> base_iri_new_ok t = true).
(* the scheme of an accepted text is an RFC 3986 scheme, hence ASCII (no case-folding partner such as U+017F, U+212A) *)
Check (SchemeAscii.iri_scheme_is_ascii : forall s, matchb IRI s = true ->
  exists sch rest, s = sch ++ 58 :: rest /\ matchb scheme sch = true /\ Forall SchemeAscii.is_ascii sch).
Check (accepted_scheme_is_ascii : forall s, iri_new_ok s = true ->
  exists sch rest, s = sch ++ 58 :: rest /\ matchb scheme sch = true /\ Forall (fun c => c < 128) sch).
Check (non_ascii_before_colon_rejected : forall pre c rest,
  Forall (fun x => x <> 58) pre -> 128 <= c ->
  iri_new_ok (pre ++ c :: rest) = false /\ iri_deserialize (pre ++ c :: rest) = None).

(* defects on record (see Proofs.v): the pre-fix regexes, the resolver's panic and its deviations
   from RFC 3986 5.2, and the fact that 5.2 itself is not closed under validity *)

(* all the statements of part (1) checked above are conjuncts of this one theorem: a single
   Print Assumptions walks the large `ka` proof terms once (each walk costs about 8 s) *)
Check (validation_is_rfc3987 :
  (forall w, matchb iri_regex w = matchb IRI w) /\
  (forall w, matchb irelative_ref_regex w = matchb irelative_ref w) /\
  (forall s, is_absolute_iri_ref s = matchb IRI s) /\
  (forall s, is_relative_iri_ref s = matchb irelative_ref s) /\
  (forall s, is_valid_iri_ref s = matchb IRI_reference s) /\
  (forall s, iri_new_ok s = matchb IRI s) /\
  (forall s, iriref_new_ok s = matchb IRI_reference s) /\
  (forall ns suffix, namespace_get_ok ns suffix = matchb IRI_reference ns && matchb IRI_reference (ns ++ suffix)) /\
  (forall s, is_absolute_iri_ref s = true <-> Lang.langc IRI s) /\
  (forall s, is_relative_iri_ref s = true <-> Lang.langc irelative_ref s) /\
  (forall w, matchb IRI w = true -> matchb irelative_ref w = false) /\
  (forall s, is_absolute_iri_ref s = true -> is_relative_iri_ref s = false) /\
  (forall s, is_valid_iri_ref s = xorb (is_absolute_iri_ref s) (is_relative_iri_ref s))).
Print Assumptions validation_is_rfc3987.
Print Assumptions Lang.matchb_spec.
Print Assumptions Lang.abstract_sound.
Print Assumptions Lang.ka_to_matchb.
Print Assumptions atoms_partition.
Print Assumptions atoms_disjoint.
Print Assumptions aligned_spec.
Print Assumptions translator_atoms_agree.
Print Assumptions everything_aligned.
Print Assumptions grammar_examples.
Print Assumptions recompose_parse5.
Print Assumptions resolve_impl_no_path_spec.
Print Assumptions resolve_unchecked_total.
Print Assumptions resolve_impl_total.
Print Assumptions prefix_iri_refuted.
Print Assumptions prefix_irel_refuted.
Print Assumptions resolve_panics_refuted.
Print Assumptions resolve_keeps_dots_refuted.
Print Assumptions resolve_above_root_refuted.
Print Assumptions rfc_resolution_not_closed.
(* is_valid_suffixed_iri_ref_spec, base_new_spec, resolve_rel_impl_valid, resolve_rel_no_scheme are the conjuncts of: *)
Print Assumptions wide_entry_points_rfc3987.
Print Assumptions suffixed_split_irrelevant.
Print Assumptions parts_ok_recompose.
Print Assumptions wrap_eqb_eq.
Print Assumptions wrap_cmp_antisym.
Print Assumptions wrap_cmp_trans.
Print Assumptions cmp_ok_sound.
Print Assumptions protect_result_absolute.
Print Assumptions resolve_str_invalid.
Print Assumptions resolve_str_typed_agree.
Print Assumptions resolve_str_rel_agree.
Print Assumptions no_colon_no_scheme.
Print Assumptions resolve_rel_colon_protected.
Print Assumptions resolve_rel_no_scheme_applies.
Print Assumptions parts_ok_example.
(* iri_deserialize_spec, iriref_deserialize_spec, relative_ref_never_deserialized_as_iri, iri_deserialize_is_iriref,
   untagged_classifies, accepted_scheme_is_ascii, non_ascii_before_colon_rejected are the conjuncts of: *)
Print Assumptions serde_entry_points_rfc3987.
Print Assumptions SchemeAscii.iri_scheme_is_ascii.
Print Assumptions deserialize_keeps_text.
Print Assumptions iri_roundtrip_spec.
Print Assumptions iriref_roundtrip_spec.
Print Assumptions deserialized_iri_is_a_base.
Print Assumptions serde_examples.
Print Assumptions case_folding_partners_examples.
