(* C13/FuncSpec.v -- the built-in functions of SPARQL 1.1 section 17.4.2 - 17.4.5 and the functions
   of RDF-star's SPARQL (TRIPLE, isTRIPLE, SUBJECT, PREDICATE, OBJECT), SPECIFICATION side,
   definitions only.  Written from the Recommendation and from XPath and XQuery Functions and
   Operators (fn:substring, fn:string-length, fn:upper-case, fn:lower-case, fn:contains,
   fn:starts-with, fn:ends-with, fn:substring-before, fn:substring-after, fn:encode-for-uri,
   fn:concat, fn:abs, fn:ceiling, fn:floor, fn:round, fn:year-from-dateTime ..), RFC 4647 section
   3.3.1 (basic filtering) and RFC 3986 section 2.3 (unreserved characters), independently of the
   Rust text: arguments are classified by the value classes of section 17.1 ([s_class] of
   ExprModel.v), strings are sequences of characters, an occurrence of a substring is a
   decomposition of the string.

   Readings that the Recommendation leaves open, stated once:
   * SUBSTR's numeric arguments are promoted to xs:double, the parameter type of fn:substring
     (the signature in 17.4.3.3 says xsd:integer; every integer is accepted either way).
   * fn:upper-case / fn:lower-case are the per-character full case mappings of Unicode
     ([to_upper] / [to_lower], shared with the implementation: the tables are data of the Unicode
     Character Database, not of either side).
   * IRI(): the queries considered have no BASE, so the argument must itself be an absolute IRI
     ("must result in an absolute IRI", 17.4.2.8).
   * BNODE(s) inside ONE call is a fresh blank node, like BNODE(); that two calls with the same
     string in the same solution give the same node (17.4.2.9) is a statement about two calls:
     see bnode_same_argument_refuted in FuncProofs.v.
   * langMatches on strings that are not well-formed tags / ranges: RFC 4647's comparison is
     defined on arbitrary strings (case-insensitive prefix followed by "-"); "*" matches every
     non-empty tag (17.4.1.8: lang("...") of a literal without tag is "", which "*" rejects).
   * TRIPLE follows RDF 1.2: subject an IRI or blank node, predicate an IRI, object any term. *)
From Coq Require Import String Ascii.
From Sophia.C13 Require Export FuncModel.
Arguments XI {X}. Arguments XD {X}. Arguments XF {X}. Arguments XDb {X}.
Arguments KNum {X}. Arguments KBadNum {X}. Arguments KStr {X}. Arguments KLang {X}. Arguments KBool {X}.
Arguments KBadBool {X}. Arguments KDT {X}. Arguments KBadDT {X}. Arguments KOtherLit {X}.
Arguments KIri {X}. Arguments KBlank {X}. Arguments KOther {X}.
Arguments ST {X}. Arguments SN {X}. Arguments SB {X}.

(* ------------------------------------------------------------------------------------ *)
(* 1. strings                                                                            *)
(* ------------------------------------------------------------------------------------ *)
(* the first occurrence of [x] in [s]: what precedes it and what follows it *)
Fixpoint split_at_first (x s : str) : option (str * str) :=
  match strip_pre x s with
  | Some rest => Some ([], rest)
  | None => match s with
            | [] => None
            | ch :: r => match split_at_first x r with
                         | Some (a, b) => Some (ch :: a, b)
                         | None => None
                         end
            end
  end.
Definition sp_contains (s x : str) : bool := is_some (split_at_first x s).
Definition sp_starts (s x : str) : bool := is_some (strip_pre x s).
(* s ends with x: some suffix of s is x *)
Fixpoint sp_ends (s x : str) : bool :=
  str_eqb s x || match s with [] => false | _ :: r => sp_ends r x end.
(* fn:encode-for-uri: unreserved characters (RFC 3986 2.3) stay, every other character is
   replaced by the percent-encoding of the octets of its UTF-8 encoding, upper-case digits *)
Definition sp_unreserved (ch : N) : bool :=
  ((65 <=? ch) && (ch <=? 90)) || ((97 <=? ch) && (ch <=? 122)) || ((48 <=? ch) && (ch <=? 57))
  || (ch =? 45) || (ch =? 46) || (ch =? 95) || (ch =? 126).
(* the hexadecimal digit of v < 16: '0'..'9', 'A'..'F' *)
Definition sp_hex (v : N) : N := if v <? 10 then 48 + v else 55 + v.
Definition sp_pct (octet : N) : str := [37; sp_hex (octet / 16); sp_hex (octet mod 16)].
Definition sp_encode (s : str) : str :=
  flat_map (fun ch => if sp_unreserved ch then [ch] else flat_map sp_pct (utf8_1 ch)) s.
(* RFC 4647 3.3.1: the range matches the tag if it equals it or is a prefix of it followed by "-",
   without case; "*" matches any tag (here: any non-empty string) *)
Fixpoint ci_strip (r t : str) : option str :=
  match r, t with
  | [], _ => Some t
  | x :: r', y :: t' => if lower1 x =? lower1 y then ci_strip r' t' else None
  | _ :: _, [] => None
  end.
Definition sp_lang_matches (tag range : str) : bool :=
  if str_eqb range [42] then negb (is_nil tag)
  else match ci_strip range tag with
       | Some [] => true
       | Some (ch :: _) => ch =? 45
       | None => false
       end.
(* 17.4.3.1.2 argument compatibility *)
Definition sp_compatible (t1 t2 : option str) : bool :=
  match t1, t2 with
  | None, None => true
  | Some a, Some b => str_eqb_ci a b
  | Some _, None => true
  | None, Some _ => false
  end.
(* 17.4.3.12 CONCAT: the language tag all arguments share, if they all have one *)
Definition sp_concat_tag (tags : list (option str)) : option str :=
  match tags with
  | Some t :: rest => if forallb (fun o => match o with Some u => str_eqb_ci u t | None => false end) rest
                      then Some t else None
  | _ => None
  end.

(* ------------------------------------------------------------------------------------ *)
(* 2. numbers                                                                            *)
(* ------------------------------------------------------------------------------------ *)
(* the integers around a decimal m * 10^-s *)
Definition sp_floor (d : dec) : Z := (fst d / pow10 (snd d))%Z.
Definition sp_ceiling (d : dec) : Z :=
  let q := (fst d / pow10 (snd d))%Z in if (q * pow10 (snd d) =? fst d)%Z then q else (q + 1)%Z.
(* fn:round: the integer closest to the argument; if there are two, the one closest to +infinity *)
Definition sp_round (d : dec) : Z :=
  let p := pow10 (snd d) in
  let q := (fst d / p)%Z in
  if (2 * (fst d - q * p) <? p)%Z then q else (q + 1)%Z.

(* where sophia deliberately differs (the crate's own tests pin both): NOT extensions in the sense
   of 17.3.1, a value is replaced by an error / an error by a value *)
Record fdialect := mkFD {
  fd_relative_iri : bool;     (* IRI("rel") yields the relative reference <rel> (IriRef::new), where
                                 17.4.2.8 requires an absolute IRI *)
  fd_langmatches_error : bool (* langMatches raises an error unless its first argument is a
                                 well-formed language tag and its second one "*" or a well-formed
                                 tag; in particular langMatches("", "*") is an error, not false *)
}.
Definition fd_strict : fdialect := mkFD false false.
Definition fd_sophia : fdialect := mkFD true true.

Section Spec.
Variable X : xlib.
Variable Y : flib X.
Variable P : xnum X -> str.
Variable D : dialect.
Variable FD : fdialect.
Notation sresX := (sres X).

Definition x_abs (n : xnum X) : xnum X :=
  match n with
  | XI z => XI (Z.abs z) | XD d => XD (Z.abs (fst d), snd d)
  | XF f => XF (f_abs X f) | XDb d => XDb (d_abs X d)
  end.
Definition x_round (md : rmode) (n : xnum X) : xnum X :=
  match n with
  | XI z => XI z
  | XD d => XD (dec_of_int (match md with RCeil => sp_ceiling d | RFloor => sp_floor d | _ => sp_round d end))
  | XF f => XF (f_rnd Y md f)
  | XDb d => XDb (d_rnd Y md d)
  end.

(* ------------------------------------------------------------------------------------ *)
(* 3. arguments                                                                          *)
(* ------------------------------------------------------------------------------------ *)
(* 17.4.3.1.1 "string literal": simple literal / xsd:string, or plain literal with language tag *)
Definition s_strlit (r : sresX) : option (str * option str) :=
  match s_class X r with KStr s => Some (s, None) | KLang s t => Some (s, Some t) | _ => None end.
(* simple literal / xsd:string *)
Definition s_simple (r : sresX) : option str :=
  match s_class X r with KStr s => Some s | _ => None end.
Definition s_date (r : sresX) : option (dtv X) :=
  match s_class X r with KDT d => Some d | _ => None end.
(* results *)
Definition r_str (s : str) (tag : option str) : sresX :=
  ST (match tag with Some t => LitLang s t | None => LitDt s xsd_string_iri end).

(* fn:substring($s, $start [, $length]): the characters at the positions $p with
   fn:round($start) <= $p [and $p < fn:round($start) + fn:round($length)], in xs:double *)
Definition fo_le (a b : dbl X) : bool := match d_cmp X a b with Some Lt | Some Eq => true | _ => false end.
Definition fo_lt (a b : dbl X) : bool := match d_cmp X a b with Some Lt => true | _ => false end.
Fixpoint sp_positions (sel : Z -> bool) (p : Z) (s : str) : str :=
  match s with
  | [] => []
  | ch :: r => (if sel p then [ch] else []) ++ sp_positions sel (p + 1)%Z r
  end.
Definition sp_substring (s : str) (start : dbl X) (len : option (dbl X)) : str :=
  let a := d_rnd Y RHalfUp start in
  sp_positions (fun p => fo_le a (d_of_Z X p) &&
                         match len with
                         | Some l => fo_lt (d_of_Z X p) (d_add X a (d_rnd Y RHalfUp l))
                         | None => true
                         end) 1%Z s.

(* ------------------------------------------------------------------------------------ *)
(* 4. the functions                                                                      *)
(* ------------------------------------------------------------------------------------ *)
(* which functions this file specifies (the others -- REPLACE, REGEX, TIMEZONE, TZ, NOW, UUID,
   STRUUID, the hash functions, casts -- are outside: sophia has no implementation of them) *)
Definition specified (f : func) : bool :=
  match f with
  | FnReplace | FnRegex | FnTimezone | FnTz | FnNow | FnUuid | FnStrUuid | FnMd5 | FnSha1
  | FnSha256 | FnSha384 | FnSha512 | FnCustom _ => false
  | _ => true
  end.
Definition s1 (args : list sresX) (f : sresX -> option sresX) : option sresX :=
  match args with [a] => f a | _ => None end.
Definition s2 (args : list sresX) (f : sresX -> sresX -> option sresX) : option sresX :=
  match args with [a; b] => f a b | _ => None end.
Definition s_str2 (args : list sresX) (f : str -> option str -> str -> option sresX) : option sresX :=
  s2 args (fun a b =>
    match s_strlit a, s_strlit b with
    | Some (h, ht), Some (n, nt) => if sp_compatible ht nt then f h ht n else None
    | _, _ => None
    end).
Definition s_num1 (args : list sresX) (f : xnum X -> xnum X) : option sresX :=
  s1 args (fun a => option_map (fun n => SN (f n)) (s_num X a)).
Definition s_date1 (args : list sresX) (f : dtv X -> xnum X) : option sresX :=
  s1 args (fun a => option_map (fun d => SN (f d)) (s_date a)).
Definition s_dbl (r : sresX) : option (dbl X) := option_map (x2dbl X) (s_num X r).

(* [lbl]: the fresh blank node; [rnd]: the random number *)
Definition s_call (lbl : str) (rnd : option (dbl X)) (f : func) (args : list sresX) : option sresX :=
  match f with
  | FnStr => s1 args (s_fn1 X P FStr)
  | FnLang => s1 args (s_fn1 X P FLang)
  | FnDatatype => s1 args (s_fn1 X P FDatatype)
  | FnIsIri => s1 args (s_fn1 X P FIsIri)
  | FnIsBlank => s1 args (s_fn1 X P FIsBlank)
  | FnIsLiteral => s1 args (s_fn1 X P FIsLiteral)
  | FnIsNumeric => s1 args (s_fn1 X P FIsNumeric)
  | FnIsTriple => s1 args (fun a => Some (SB (match s_term X P a with Triple _ _ _ => true | _ => false end)))
  | FnIri =>
      s1 args (fun a =>
        match s_class X a with
        | KIri i => Some (ST (Iri i))
        | KStr s => if (if fd_relative_iri FD then iri_ref_ok Y s else iri_abs_ok Y s)
                    then Some (ST (Iri s)) else None
        | _ => None
        end)
  | FnBNode =>
      match args with
      | [] => Some (ST (Bnode lbl))
      | [a] => match s_simple a with Some _ => Some (ST (Bnode lbl)) | None => None end
      | _ => None
      end
  | FnRand => match args with [] => option_map (fun d => SN (XDb d)) rnd | _ => None end
  | FnAbs => s_num1 args x_abs
  | FnCeil => s_num1 args (x_round RCeil)
  | FnFloor => s_num1 args (x_round RFloor)
  | FnRound => s_num1 args (x_round RHalfUp)
  | FnConcat =>
      match all_some (map s_strlit args) with
      | Some l => Some (r_str (flat_map fst l) (sp_concat_tag (map snd l)))
      | None => None
      end
  | FnLangMatches =>
      s2 args (fun t r => match s_simple t, s_simple r with
                          | Some tag, Some range =>
                              if fd_langmatches_error FD
                                 && (negb (lang_tag_ok tag) || (negb (str_eqb range [42]) && negb (lang_tag_ok range)))
                              then None
                              else Some (SB (sp_lang_matches tag range))
                          | _, _ => None
                          end)
  | FnSubStr =>
      match args with
      | [src; st] =>
          match s_strlit src, s_dbl st with
          | Some (s, tag), Some a => Some (r_str (sp_substring s a None) tag)
          | _, _ => None
          end
      | [src; st; ln] =>
          match s_strlit src, s_dbl st, s_dbl ln with
          | Some (s, tag), Some a, Some l => Some (r_str (sp_substring s a (Some l)) tag)
          | _, _, _ => None
          end
      | _ => None
      end
  | FnStrLen => s1 args (fun a => option_map (fun p => SN (XI (Z.of_nat (length (fst p))))) (s_strlit a))
  | FnUCase => s1 args (fun a => option_map (fun p => r_str (flat_map (to_upper Y) (fst p)) (snd p)) (s_strlit a))
  | FnLCase => s1 args (fun a => option_map (fun p => r_str (flat_map (to_lower Y) (fst p)) (snd p)) (s_strlit a))
  | FnEncodeForUri => s1 args (fun a => option_map (fun p => r_str (sp_encode (fst p)) None) (s_strlit a))
  | FnContains => s_str2 args (fun h _ n => Some (SB (sp_contains h n)))
  | FnStrStarts => s_str2 args (fun h _ n => Some (SB (sp_starts h n)))
  | FnStrEnds => s_str2 args (fun h _ n => Some (SB (sp_ends h n)))
  | FnStrBefore =>
      s_str2 args (fun h ht n => Some (match split_at_first n h with
                                       | Some (before, _) => r_str before ht
                                       | None => r_str [] None
                                       end))
  | FnStrAfter =>
      s_str2 args (fun h ht n => Some (match split_at_first n h with
                                       | Some (_, after) => r_str after ht
                                       | None => r_str [] None
                                       end))
  | FnYear => s_date1 args (fun d => let '(y, _, _, _, _) := dt_fields Y d in XI y)
  | FnMonth => s_date1 args (fun d => let '(_, m, _, _, _) := dt_fields Y d in XI m)
  | FnDay => s_date1 args (fun d => let '(_, _, dd, _, _) := dt_fields Y d in XI dd)
  | FnHours => s_date1 args (fun d => let '(_, _, _, h, _) := dt_fields Y d in XI h)
  | FnMinutes => s_date1 args (fun d => let '(_, _, _, _, mi) := dt_fields Y d in XI mi)
  | FnSeconds => s_date1 args (fun d => XD (dnorm (dt_nanos Y d, 9)))
  | FnTriple =>
      match args with
      | [s; p; o] =>
          match s_term X P s, s_term X P p with
          | (Iri _ | Bnode _) as s', Iri _ as p' => Some (ST (Triple s' p' (s_term X P o)))
          | _, _ => None
          end
      | _ => None
      end
  | FnSubject => s1 args (fun a => match s_term X P a with Triple s _ _ => Some (ST s) | _ => None end)
  | FnPredicate => s1 args (fun a => match s_term X P a with Triple _ p _ => Some (ST p) | _ => None end)
  | FnObject => s1 args (fun a => match s_term X P a with Triple _ _ o => Some (ST o) | _ => None end)
  | FnStrLang =>
      s2 args (fun l t => match s_simple l, s_simple t with
                          | Some lex, Some tag => if is_nil tag then None else Some (ST (LitLang lex tag))
                          | _, _ => None
                          end)
  | FnStrDt =>
      s2 args (fun l t => match s_simple l, s_class X t with
                          | Some lex, KIri dt => Some (ST (LitDt lex dt))
                          | _, _ => None
                          end)
  | _ => None
  end.

(* ------------------------------------------------------------------------------------ *)
(* 5. expressions                                                                        *)
(* ------------------------------------------------------------------------------------ *)
Definition ar_spec (o : arop) : xnum X -> xnum X -> option (xnum X) :=
  match o with AAdd => x_add X | ASub => x_sub X | AMul => x_mul X | ADiv => x_div X end.
Variable ent : str * option (dbl X).
Fixpoint fs_eval (e : fexpr) (mu : amap) (path : list N) {struct e} : option sresX :=
  match e with
  | XE e0 => s_eval X P D e0 mu
  | XCall f args =>
      let fix go (l : list fexpr) (i : N) : list (option sresX) :=
        match l with
        | [] => []
        | a :: r => fs_eval a mu (i :: path) :: go r (i + 1)
        end in
      (* an argument that raises an error is an error (17: only ||, &&, COALESCE, IF, BOUND and
         EXISTS are exempt) *)
      match all_some (go args 0) with
      | Some vs => s_call (fst ent ++ path_code path) (snd ent) f vs
      | None => None
      end
  | XNot a => option_map (fun b => SB (negb b)) (bind (fs_eval a mu (0 :: path)) (ebv X))
  | XOr a b => option_map SB (or3 (bind (fs_eval a mu (0 :: path)) (ebv X)) (bind (fs_eval b mu (1 :: path)) (ebv X)))
  | XAnd a b => option_map SB (and3 (bind (fs_eval a mu (0 :: path)) (ebv X)) (bind (fs_eval b mu (1 :: path)) (ebv X)))
  | XEq a b => match fs_eval a mu (0 :: path), fs_eval b mu (1 :: path) with
               | Some x, Some y => option_map SB (s_eq X P D x y)
               | _, _ => None
               end
  | XSame a b => match fs_eval a mu (0 :: path), fs_eval b mu (1 :: path) with
                 | Some x, Some y => Some (SB (term_eqb (s_term X P x) (s_term X P y)))
                 | _, _ => None
                 end
  | XCmp o a b => s_rel2 X P D (cmp_pred o) (fs_eval a mu (0 :: path)) (fs_eval b mu (1 :: path))
  | XAr o a b => s_arith X (ar_spec o) (fs_eval a mu (0 :: path)) (fs_eval b mu (1 :: path))
  | XIf cnd t e' => match bind (fs_eval cnd mu (0 :: path)) (ebv X) with
                    | Some true => fs_eval t mu (1 :: path)
                    | Some false => fs_eval e' mu (2 :: path)
                    | None => None
                    end
  | XCoalesce l =>
      let fix go (l : list fexpr) (i : N) : list (option sresX) :=
        match l with
        | [] => []
        | a :: r => fs_eval a mu (i :: path) :: go r (i + 1)
        end in
      first_some (go l 0)
  end.
Definition fs_filter (e : fexpr) (mu : amap) : bool :=
  match bind (fs_eval e mu []) (ebv X) with Some true => true | _ => false end.
Definition fs_bind (e : fexpr) (mu : amap) : option term := option_map (s_term X P) (fs_eval e mu []).
End Spec.
