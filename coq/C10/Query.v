(* C10/Query.v -- the statement indexes of the in-memory graphs and datasets (inmem/src/graph.rs,
   inmem/src/dataset.rs) and the queries answered from them, for histories interleaving insert / remove /
   clone / drop / move / QUERY over several live stores.  Terms are identifiers (the term index itself is
   C10/Model.v); a statement is a quad (g, s, p, o), g = 0 standing for the default graph (and for "no graph
   name" in a graph).
     GenericLightGraph    one BTreeSet, keys [s,p,o]
     GenericFastGraph     spo, pos, osp
     GenericLightDataset  one BTreeSet, keys [g,s,p,o]
     GenericFastDataset   gspo, gpos, gosp, spog, posg, ospg
   insert / remove update the first (primary) index and, when it changed, every other one; a query picks ONE
   index from the positions that are constants (the `match (si, pi, oi)` / `match (gi, si, pi, oi)` tables of
   triples_matching / quads_matching) and filters its keys; a constant that the term index does not know
   answers nothing at once.  Clone is derived: every index is copied; a query changes nothing.
   The order of a BTreeSet is not observed (the harness compares answers as sets): an index is the list of
   its keys in insertion order.  Definitions only. *)
From Sophia.Common Require Export Prelude.

Record quad := mkQ { qg : N; qs : N; qp : N; qo : N }.
Definition quad_eqb (a b : quad) : bool :=
  N.eqb (qg a) (qg b) && N.eqb (qs a) (qs b) && N.eqb (qp a) (qp b) && N.eqb (qo a) (qo b).

Inductive ord := SPO | POS | OSP | GSPO | GPOS | GOSP | SPOG | POSG | OSPG.
Definition ord_eqb (a b : ord) : bool :=
  match a, b with
  | SPO, SPO | POS, POS | OSP, OSP | GSPO, GSPO | GPOS, GPOS | GOSP, GOSP | SPOG, SPOG | POSG, POSG | OSPG, OSPG => true
  | _, _ => false
  end.
Definition qkey := list N.
Definition key_of (o : ord) (q : quad) : qkey :=
  match o with
  | SPO => [qs q; qp q; qo q] | POS => [qp q; qo q; qs q] | OSP => [qo q; qs q; qp q]
  | GSPO => [qg q; qs q; qp q; qo q] | GPOS => [qg q; qp q; qo q; qs q] | GOSP => [qg q; qo q; qs q; qp q]
  | SPOG => [qs q; qp q; qo q; qg q] | POSG => [qp q; qo q; qs q; qg q] | OSPG => [qo q; qs q; qp q; qg q]
  end.
(* the closures `|[p, o, s]| [s, p, o]`, ... that turn a qkey back into a statement *)
Definition unkey (o : ord) (k : qkey) : quad :=
  match o, k with
  | SPO, [s; p; o'] => mkQ 0 s p o' | POS, [p; o'; s] => mkQ 0 s p o' | OSP, [o'; s; p] => mkQ 0 s p o'
  | GSPO, [g; s; p; o'] => mkQ g s p o' | GPOS, [g; p; o'; s] => mkQ g s p o' | GOSP, [g; o'; s; p] => mkQ g s p o'
  | SPOG, [s; p; o'; g] => mkQ g s p o' | POSG, [p; o'; s; g] => mkQ g s p o' | OSPG, [o'; s; p; g] => mkQ g s p o'
  | _, _ => mkQ 0 0 0 0
  end.

Inductive design := LightG | FastG | LightD | FastD.
Definition is_graph (d : design) : bool := match d with LightG | FastG => true | _ => false end.
Definition orders (d : design) : list ord :=
  match d with
  | LightG => [SPO] | FastG => [SPO; POS; OSP]
  | LightD => [GSPO] | FastD => [GSPO; GPOS; GOSP; SPOG; POSG; OSPG]
  end.
Definition primary (d : design) : ord := if is_graph d then SPO else GSPO.
(* a graph has no graph names *)
Definition norm (d : design) (q : quad) : quad := if is_graph d then mkQ 0 (qs q) (qp q) (qo q) else q.

(* q_idx is parallel to `orders`; its head is the primary index *)
Record qstore := mkQS { q_design : design; q_terms : list N; q_idx : list (list qkey) }.
Definition q_empty (d : design) : qstore := mkQS d [] (map (fun _ => []) (orders d)).

Definition mem_key (k : qkey) (l : list qkey) : bool := existsb (str_eqb k) l.
Definition set_add (k : qkey) (l : list qkey) : list qkey := if mem_key k l then l else l ++ [k].
Definition set_del (k : qkey) (l : list qkey) : list qkey := filter (fun x => negb (str_eqb k x)) l.
Definition knows (ts : list N) (t : N) : bool := existsb (N.eqb t) ts.
Definition add_term (ts : list N) (t : N) : list N := if knows ts t then ts else ts ++ [t].
(* the terms a statement makes the store intern: s, p, o, then the graph name unless it is the default graph *)
Definition quad_terms (d : design) (q : quad) : list N :=
  if is_graph d then [qs q; qp q; qo q]
  else if N.eqb (qg q) 0 then [qs q; qp q; qo q] else [qs q; qp q; qo q; qg q].
Definition prim_idx (st : qstore) : list qkey := hd [] (q_idx st).
(* the statements of a store: its primary index decoded *)
Definition stmts (st : qstore) : list quad := map (unkey (primary (q_design st))) (prim_idx st).

(* MutableGraph::insert / MutableDataset::insert *)
Definition q_insert (st : qstore) (q0 : quad) : qstore * bool :=
  let d := q_design st in
  let q := norm d q0 in
  let ts := fold_left add_term (quad_terms d q) (q_terms st) in
  if mem_key (key_of (primary d) q) (prim_idx st) then (mkQS d ts (q_idx st), false)
  else (mkQS d ts (map (fun oi => set_add (key_of (fst oi) q) (snd oi)) (combine (orders d) (q_idx st))), true).
(* remove: a term the index does not know ends it at once *)
Definition q_remove (st : qstore) (q0 : quad) : qstore * bool :=
  let d := q_design st in
  let q := norm d q0 in
  if negb (forallb (knows (q_terms st)) (quad_terms d q)) then (st, false)
  else if mem_key (key_of (primary d) q) (prim_idx st)
       then (mkQS d (q_terms st) (map (fun oi => set_del (key_of (fst oi) q) (snd oi)) (combine (orders d) (q_idx st))), true)
       else (st, false).

(* a pattern: which positions are constants, and the constants (those of the bound positions of `probe`) *)
Record pat := mkPat { bg : bool; bs : bool; bp : bool; bo : bool; probe : quad }.
Definition eff_bg (d : design) (p : pat) : bool := bg p && negb (is_graph d).
Definition pat_matches (d : design) (p : pat) (q : quad) : bool :=
  (negb (eff_bg d p) || N.eqb (qg (probe p)) (qg q)) && (negb (bs p) || N.eqb (qs (probe p)) (qs q))
  && (negb (bp p) || N.eqb (qp (probe p)) (qp q)) && (negb (bo p) || N.eqb (qo (probe p)) (qo q)).
(* the index each combination of constants is answered from *)
Definition pick (d : design) (g s p o : bool) : ord :=
  match d with
  | LightG => SPO
  | LightD => GSPO
  | FastG =>
      match s, p, o with
      | true, true, _ => SPO
      | true, false, false => SPO
      | false, true, _ => POS
      | true, false, true => OSP
      | false, false, true => OSP
      | false, false, false => SPO
      end
  | FastD =>
      match g, s, p, o with
      | true, true, true, _ => GSPO
      | true, true, false, true => GOSP
      | true, false, true, true => GPOS
      | false, true, true, true => SPOG
      | true, true, false, false => GSPO
      | true, false, true, false => GPOS
      | true, false, false, true => GOSP
      | false, true, true, false => SPOG
      | false, true, false, true => OSPG
      | false, false, true, true => POSG
      | true, false, false, false => GSPO
      | false, true, false, false => SPOG
      | false, false, true, false => POSG
      | false, false, false, true => OSPG
      | false, false, false, false => GSPO
      end
  end.
Fixpoint lookup (o : ord) (l : list (ord * list qkey)) : list qkey :=
  match l with [] => [] | (o', i) :: r => if ord_eqb o o' then i else lookup o r end.
Definition idx_of (st : qstore) (o : ord) : list qkey := lookup o (combine (orders (q_design st)) (q_idx st)).
(* the constants of a pattern that the term index must know (the default graph is always known) *)
Definition pat_consts (d : design) (p : pat) : list N :=
  (if bs p then [qs (probe p)] else []) ++ (if bp p then [qp (probe p)] else []) ++ (if bo p then [qo (probe p)] else [])
  ++ (if eff_bg d p && negb (N.eqb (qg (probe p)) 0) then [qg (probe p)] else []).
(* triples_matching / quads_matching *)
Definition q_query (st : qstore) (p : pat) : list quad :=
  let d := q_design st in
  if negb (forallb (knows (q_terms st)) (pat_consts d p)) then []
  else let o := pick d (eff_bg d p) (bs p) (bp p) (bo p) in
       filter (pat_matches d p) (map (unkey o) (idx_of st o)).

(* ---- several live stores ---- *)
Definition qworld := list (N * qstore).
Fixpoint qfind (l : qworld) (sid : N) : option qstore :=
  match l with [] => None | (k, s) :: r => if N.eqb k sid then Some s else qfind r sid end.
Fixpoint qset (l : qworld) (sid : N) (s : qstore) : qworld :=
  match l with
  | [] => [(sid, s)]
  | (k, x) :: r => if N.eqb k sid then (k, s) :: r else (k, x) :: qset r sid s
  end.
Fixpoint qdel (l : qworld) (sid : N) : qworld :=
  match l with [] => [] | (k, x) :: r => if N.eqb k sid then r else (k, x) :: qdel r sid end.

Inductive qop :=
| QNew (sid : N) (d : design)
| QIns (sid : N) (q : quad)
| QRem (sid : N) (q : quad)
| QClone (src dst : N)         (* derived Clone: every index is copied *)
| QDrop (sid : N)
| QSwap (a b : N)
| QQuery (sid : N) (p : pat).
(* what the caller observes of one operation *)
Inductive qobs := ONone | OBool (b : bool) | OList (l : list quad).

Definition qstep (w : qworld) (o : qop) : qworld * qobs :=
  match o with
  | QNew sid d => (match qfind w sid with None => qset w sid (q_empty d) | Some _ => w end, ONone)
  | QIns sid q => match qfind w sid with
                  | None => (w, ONone)
                  | Some s => let '(s', b) := q_insert s q in (qset w sid s', OBool b)
                  end
  | QRem sid q => match qfind w sid with
                  | None => (w, ONone)
                  | Some s => let '(s', b) := q_remove s q in (qset w sid s', OBool b)
                  end
  | QClone src dst => (match qfind w src, qfind w dst with
                       | Some s, None => qset w dst s
                       | _, _ => w
                       end, ONone)
  | QDrop sid => (qdel w sid, ONone)
  | QSwap a b => (match qfind w a, qfind w b with
                  | Some _, Some _ => map (fun p => (if N.eqb (fst p) a then b else if N.eqb (fst p) b then a else fst p, snd p)) w
                  | _, _ => w
                  end, ONone)
  | QQuery sid p => (w, match qfind w sid with None => ONone | Some s => OList (q_query s p) end)
  end.
Fixpoint qrun_from (w : qworld) (ops : list qop) : qworld * list qobs :=
  match ops with
  | [] => (w, [])
  | o :: r => let '(w', x) := qstep w o in let '(w'', xs) := qrun_from w' r in (w'', x :: xs)
  end.
Definition qrun (ops : list qop) : qworld * list qobs := qrun_from [] ops.
Definition qtouches (o : qop) (sid : N) : bool :=
  match o with
  | QNew a _ | QIns a _ | QRem a _ | QDrop a => N.eqb a sid
  | QClone _ dst => N.eqb dst sid
  | QSwap a b => N.eqb a sid || N.eqb b sid
  | QQuery _ _ => false
  end.

(* harness-facing: the answers of a history, lists compared as sets *)
Definition mem_quad (q : quad) (l : list quad) : bool := existsb (quad_eqb q) l.
Definition same_quads (a b : list quad) : bool :=
  N.eqb (N.of_nat (length a)) (N.of_nat (length b)) && forallb (fun q => mem_quad q b) a && forallb (fun q => mem_quad q a) b.
Definition qobs_eqb (a b : qobs) : bool :=
  match a, b with
  | ONone, ONone => true
  | OBool x, OBool y => Bool.eqb x y
  | OList x, OList y => same_quads x y
  | _, _ => false
  end.
Definition qhist_ok (ops : list qop) (observed : list qobs) : bool :=
  list_eqb qobs_eqb (snd (qrun ops)) observed.
(* compact spelling for the generated cases: quads of a small table by position, patterns by mask (g s p o) *)
Definition Q (g s p o : N) : quad := mkQ g s p o.
Definition P (mask : N) (q : quad) : pat := mkPat (N.testbit mask 3) (N.testbit mask 0) (N.testbit mask 1) (N.testbit mask 2) q.
