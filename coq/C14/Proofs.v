(* C14/Proofs.v -- the repaired ORDER BY comparator is a total preorder that extends the
   operator '<', ranks unbound < blank < IRI < literal, DESC reverses, several keys combine
   lexicographically, and a sorted permutation has no inversion; the comparator of the original
   tree is not transitive. *)
From Coq Require Import QArith Sorting.Sorted Sorting.Permutation.
From Sophia.C02 Require Import Proofs.
From Sophia.C14 Require Import Model.
Close Scope Q_scope.
Open Scope N_scope.

(* ================= comparators that are total preorders ================= *)
Section Laws.
Context {A : Type}.
Variable P : A -> Prop.

Record preorder_on (c : A -> A -> comparison) : Prop := {
  po_antisym : forall a b, P a -> P b -> c b a = CompOpp (c a b);
  po_eq : forall a b d x, P a -> P b -> P d -> c a b = Eq -> c b d = x -> c a d = x;
  po_lt : forall a b d, P a -> P b -> P d -> c a b = Lt -> c b d = Lt -> c a d = Lt
}.

Lemma CompOpp_eq x y : CompOpp x = y <-> x = CompOpp y.
Proof. destruct x, y; simpl; split; congruence. Qed.

Variable c : A -> A -> comparison.
Hypothesis H : preorder_on c.

Lemma po_refl a : P a -> c a a = Eq.
Proof. intros Pa. pose proof (po_antisym c H a a Pa Pa) as E. destruct (c a a); simpl in E; congruence. Qed.

Lemma po_eq_r a b d x : P a -> P b -> P d -> c a b = x -> c b d = Eq -> c a d = x.
Proof.
  intros Pa Pb Pd H1 H2.
  assert (E1 : c d b = Eq) by (rewrite (po_antisym c H b d), H2; auto).
  assert (E2 : c b a = CompOpp x) by (rewrite (po_antisym c H a b), H1; auto).
  pose proof (po_eq c H d b a _ Pd Pb Pa E1 E2) as E3.
  rewrite (po_antisym c H d a), E3 by auto. destruct x; reflexivity.
Qed.

Lemma po_gt a b d : P a -> P b -> P d -> c a b = Gt -> c b d = Gt -> c a d = Gt.
Proof.
  intros Pa Pb Pd H1 H2.
  assert (E1 : c b a = Lt) by (rewrite (po_antisym c H a b), H1; auto).
  assert (E2 : c d b = Lt) by (rewrite (po_antisym c H b d), H2; auto).
  rewrite (po_antisym c H d a), (po_lt c H d b a) by auto. reflexivity.
Qed.

(* transitivity of "not greater" *)
Lemma po_le_trans a b d : P a -> P b -> P d -> c a b <> Gt -> c b d <> Gt -> c a d <> Gt.
Proof.
  intros Pa Pb Pd H1 H2.
  destruct (c a b) eqn:E1; try congruence; destruct (c b d) eqn:E2; try congruence.
  - rewrite (po_eq c H a b d Eq); auto; discriminate.
  - rewrite (po_eq c H a b d Lt); auto; discriminate.
  - rewrite (po_eq_r a b d Lt); auto; discriminate.
  - rewrite (po_lt c H a b d); auto; discriminate.
Qed.

Lemma po_total a b : P a -> P b -> c a b <> Gt \/ c b a <> Gt.
Proof.
  intros Pa Pb. rewrite (po_antisym c H a b) by auto.
  destruct (c a b); simpl; (left; discriminate) || (right; discriminate).
Qed.
End Laws.
Arguments preorder_on {A} P c.

Lemma preorder_ext {A} (P : A -> Prop) c c' :
  (forall a b, P a -> P b -> c a b = c' a b) -> preorder_on P c' -> preorder_on P c.
Proof.
  intros E [Ha He Hl]. split.
  - intros a b Pa Pb. rewrite !E by auto. auto.
  - intros a b d x Pa Pb Pd. rewrite !E by auto. eauto.
  - intros a b d Pa Pb Pd. rewrite !E by auto. eauto.
Qed.

Lemma preorder_weaken {A} (P Q : A -> Prop) c :
  (forall a, P a -> Q a) -> preorder_on Q c -> preorder_on P c.
Proof. intros I [Ha He Hl]. split; intros; eauto 10. Qed.

(* pull-back along a function *)
Lemma preorder_pullback {A B} (f : A -> B) (P : A -> Prop) (Q : B -> Prop) c :
  (forall a, P a -> Q (f a)) -> preorder_on Q c -> preorder_on P (fun a b => c (f a) (f b)).
Proof. intros I [Ha He Hl]. split; intros; eauto 10. Qed.

(* reversal (DESC) *)
Lemma preorder_opp {A} (P : A -> Prop) c :
  preorder_on P c -> preorder_on P (fun a b => CompOpp (c a b)).
Proof.
  intros Hc. split.
  - intros a b Pa Pb. rewrite (po_antisym P c Hc a b) by auto. reflexivity.
  - intros a b d x Pa Pb Pd H1 H2. apply CompOpp_eq in H1, H2. simpl in H1.
    rewrite (po_eq P c Hc a b d (CompOpp x)) by auto. destruct x; reflexivity.
  - intros a b d Pa Pb Pd H1 H2. apply CompOpp_eq in H1, H2. simpl in *.
    rewrite (po_gt P c Hc a b d) by auto. reflexivity.
Qed.

Lemma then_cmp_Eq_iff a b : then_cmp a b = Eq <-> a = Eq /\ b = Eq.
Proof. destruct a; simpl; split; try tauto; try discriminate; intros [? ?]; discriminate. Qed.
Lemma then_cmp_Lt_iff a b : then_cmp a b = Lt <-> a = Lt \/ (a = Eq /\ b = Lt).
Proof.
  destruct a; simpl; split; auto; try tauto; try (intros [?|[? ?]]; congruence).
Qed.

(* lexicographic combination; the second comparator only needs to behave among elements that
   the first one declares equal *)
Lemma preorder_lex {A} (P : A -> Prop) c1 c2 :
  preorder_on P c1 ->
  (forall a b, P a -> P b -> c1 a b = Eq -> c2 b a = CompOpp (c2 a b)) ->
  (forall a b d x, P a -> P b -> P d -> c1 a b = Eq -> c1 b d = Eq ->
      c2 a b = Eq -> c2 b d = x -> c2 a d = x) ->
  (forall a b d, P a -> P b -> P d -> c1 a b = Eq -> c1 b d = Eq ->
      c2 a b = Lt -> c2 b d = Lt -> c2 a d = Lt) ->
  preorder_on P (fun a b => then_cmp (c1 a b) (c2 a b)).
Proof.
  intros H1 A2 E2 T2. split.
  - intros a b Pa Pb. rewrite (po_antisym P c1 H1 a b) by auto.
    destruct (c1 a b) eqn:E; simpl; auto.
  - intros a b d x Pa Pb Pd Hab Hbd. apply then_cmp_Eq_iff in Hab as [Hab1 Hab2].
    destruct (c1 b d) eqn:E.
    + rewrite (po_eq P c1 H1 a b d Eq) by auto. simpl in *. eauto.
    + rewrite (po_eq P c1 H1 a b d Lt) by auto. exact Hbd.
    + rewrite (po_eq P c1 H1 a b d Gt) by auto. exact Hbd.
  - intros a b d Pa Pb Pd Hab Hbd.
    apply then_cmp_Lt_iff in Hab as [Hab|[Hab1 Hab2]]; apply then_cmp_Lt_iff in Hbd as [Hbd|[Hbd1 Hbd2]].
    + rewrite (po_lt P c1 H1 a b d) by auto. reflexivity.
    + rewrite (po_eq_r P c1 H1 a b d Lt) by auto. reflexivity.
    + rewrite (po_eq P c1 H1 a b d Lt) by auto. reflexivity.
    + rewrite (po_eq P c1 H1 a b d Eq) by auto. simpl. eauto.
Qed.

Lemma preorder_lex2 {A} (P : A -> Prop) c1 c2 :
  preorder_on P c1 -> preorder_on P c2 -> preorder_on P (fun a b => then_cmp (c1 a b) (c2 a b)).
Proof.
  intros H1 H2. apply preorder_lex; auto.
  - intros; apply (po_antisym P c2 H2); auto.
  - intros a b d x Pa Pb Pd _ _ E1 E2. exact (po_eq P c2 H2 a b d x Pa Pb Pd E1 E2).
  - intros a b d Pa Pb Pd _ _ E1 E2. exact (po_lt P c2 H2 a b d Pa Pb Pd E1 E2).
Qed.

(* ---------- basic instances ---------- *)
Definition anyP {A} (_ : A) : Prop := True.

Lemma N_compare_preorder : preorder_on anyP N.compare.
Proof.
  split.
  - intros a b _ _. apply N.compare_antisym.
  - intros a b d x _ _ _ E. apply N.compare_eq in E. subst. auto.
  - intros a b d _ _ _. rewrite !N.compare_lt_iff. lia.
Qed.
Lemma Z_compare_preorder : preorder_on anyP Z.compare.
Proof.
  split.
  - intros a b _ _. apply Z.compare_antisym.
  - intros a b d x _ _ _ E. apply Z.compare_eq in E. subst. auto.
  - intros a b d _ _ _. rewrite !Z.compare_lt_iff. lia.
Qed.
Lemma str_cmp_preorder : preorder_on anyP str_cmp.
Proof.
  split.
  - intros a b _ _. apply str_cmp_antisym.
  - intros a b d x _ _ _ E. apply str_cmp_eq in E. subst. auto.
  - intros a b d _ _ _. apply str_cmp_lt_trans.
Qed.
Lemma bool_cmp_preorder : preorder_on anyP bool_cmp.
Proof. split; intros; repeat match goal with b : bool |- _ => destruct b end; simpl in *; congruence. Qed.
Lemma Qcompare_preorder : preorder_on anyP Qcompare.
Proof.
  split.
  - intros a b _ _. symmetry. apply Qcompare_antisym.
  - intros a b d x _ _ _ E H. apply Qeq_alt in E. rewrite <- H. apply Qcompare_comp; [exact E | reflexivity].
  - intros a b d _ _ _ H1 H2. apply Qlt_alt in H1, H2. apply Qlt_alt. eapply Qlt_trans; eauto.
Qed.
Lemma ext_cmp_preorder : preorder_on anyP ext_cmp.
Proof.
  pose proof Qcompare_preorder as [Qa Qe Ql]. split.
  - intros [|x|] [|y|] _ _; simpl; auto. apply Qa; exact I.
  - intros [|x|] [|y|] [|z|] c _ _ _; simpl; try congruence. apply Qe; exact I.
  - intros [|x|] [|y|] [|z|] _ _ _; simpl; try congruence. apply Ql; exact I.
Qed.
Lemma inst_preorder :
  preorder_on anyP (fun a b : Z * N => inst_cmp (fst a) (snd a) (fst b) (snd b)).
Proof.
  unfold inst_cmp. apply preorder_lex2.
  - apply (preorder_pullback fst anyP anyP Z.compare); [auto | apply Z_compare_preorder].
  - apply (preorder_pullback snd anyP anyP N.compare); [auto | apply N_compare_preorder].
Qed.
Lemma term_cmp_preorder : preorder_on wf term_cmp.
Proof.
  apply (preorder_ext wf _ (fun a b => str_cmp (enc a) (enc b))).
  - intros a b Wa Wb. apply term_cmp_enc; assumption.
  - apply (preorder_pullback enc wf anyP str_cmp); [intros; exact I | apply str_cmp_preorder].
Qed.

(* ================= the key of an item ================= *)
Inductive okey :=
| KNum (e : ext) | KStr (s : str) | KLang (t s : str) | KBool (b : bool) | KDate (p : Z * N)
| KTerm (t : term).
Definition okey_cmp (a b : okey) : comparison :=
  match a, b with
  | KNum x, KNum y => ext_cmp x y
  | KStr x, KStr y => str_cmp x y
  | KLang t1 s1, KLang t2 s2 => then_cmp (str_cmp t1 t2) (str_cmp s1 s2)
  | KBool x, KBool y => bool_cmp x y
  | KDate p, KDate q => inst_cmp (fst p) (snd p) (fst q) (snd q)
  | KTerm x, KTerm y => term_cmp x y
  | _, _ => Eq
  end.
Definition same_con (a b : okey) : Prop :=
  match a, b with
  | KNum _, KNum _ | KStr _, KStr _ | KLang _ _, KLang _ _ | KBool _, KBool _
  | KDate _, KDate _ | KTerm _, KTerm _ => True
  | _, _ => False
  end.
Definition okey_wf (k : okey) : Prop := match k with KTerm t => wf t | _ => True end.

Lemma lang_preorder :
  preorder_on anyP (fun a b : str * str => then_cmp (str_cmp (fst a) (fst b)) (str_cmp (snd a) (snd b))).
Proof.
  apply preorder_lex2.
  - apply (preorder_pullback fst anyP anyP str_cmp); [auto | apply str_cmp_preorder].
  - apply (preorder_pullback snd anyP anyP str_cmp); [auto | apply str_cmp_preorder].
Qed.

Lemma okey_antisym a b : okey_wf a -> okey_wf b -> okey_cmp b a = CompOpp (okey_cmp a b).
Proof.
  destruct a, b; simpl; intros Wa Wb; auto.
  - apply (po_antisym _ _ ext_cmp_preorder); exact I.
  - apply str_cmp_antisym.
  - apply (po_antisym _ _ lang_preorder (t, s) (t0, s0)); exact I.
  - apply (po_antisym _ _ bool_cmp_preorder); exact I.
  - apply (po_antisym _ _ inst_preorder); exact I.
  - apply (po_antisym _ _ term_cmp_preorder); assumption.
Qed.
Lemma okey_eq a b d x : okey_wf a -> okey_wf b -> okey_wf d -> same_con a b -> same_con b d ->
  okey_cmp a b = Eq -> okey_cmp b d = x -> okey_cmp a d = x.
Proof.
  destruct a, b; simpl; try tauto; destruct d; simpl; try tauto; intros Wa Wb Wd _ _.
  - apply (po_eq _ _ ext_cmp_preorder); exact I.
  - apply (po_eq _ _ str_cmp_preorder); exact I.
  - apply (po_eq _ _ lang_preorder (t, s) (t0, s0) (t1, s1)); exact I.
  - apply (po_eq _ _ bool_cmp_preorder); exact I.
  - apply (po_eq _ _ inst_preorder); exact I.
  - apply (po_eq _ _ term_cmp_preorder); assumption.
Qed.
Lemma okey_lt a b d : okey_wf a -> okey_wf b -> okey_wf d -> same_con a b -> same_con b d ->
  okey_cmp a b = Lt -> okey_cmp b d = Lt -> okey_cmp a d = Lt.
Proof.
  destruct a, b; simpl; try tauto; destruct d; simpl; try tauto; intros Wa Wb Wd _ _.
  - apply (po_lt _ _ ext_cmp_preorder); exact I.
  - apply (po_lt _ _ str_cmp_preorder); exact I.
  - apply (po_lt _ _ lang_preorder (t, s) (t0, s0) (t1, s1)); exact I.
  - apply (po_lt _ _ bool_cmp_preorder); exact I.
  - apply (po_lt _ _ inst_preorder); exact I.
  - apply (po_lt _ _ term_cmp_preorder); assumption.
Qed.

(* the exact value of a number: None for NaN *)
Definition num_key (n : num) : option ext :=
  match n with
  | NativeInt z | BigInt z => Some (EFin (Qmake z 1))
  | Decimal m s => Some (EFin (q_of_dec m s))
  | Float f | Double f => fl_ext f
  end.

Lemma num_exact_cmp_key a b :
  num_exact_cmp a b =
  match num_key a, num_key b with Some x, Some y => Some (ext_cmp x y) | _, _ => None end.
Proof.
  assert (F : forall f q, binary_float_exact_cmp f q =
            match fl_ext f with Some x => Some (ext_cmp x (EFin q)) | None => None end).
  { intros [|[|]|s m e] q; reflexivity. }
  assert (G : forall f q, option_map CompOpp (binary_float_exact_cmp f q) =
            match fl_ext f with Some x => Some (ext_cmp (EFin q) x) | None => None end).
  { intros [|[|]|s m e] q; try reflexivity. simpl. rewrite Qcompare_antisym. reflexivity. }
  destruct a, b; unfold num_exact_cmp; simpl as_binary_float; simpl num_q; simpl num_key;
    try reflexivity; try apply F; try apply G.
Qed.

Definition item_key (a : item) : okey :=
  match val a with
  | Some (VNum n) => match num_key n with Some e => KNum e | None => KTerm (tm a) end
  | Some (VStr s None) => KStr s
  | Some (VStr s (Some t)) => KLang (lower t) s
  | Some (VBool (Some b)) => KBool b
  | Some (VDate (Some d)) => KDate (dt_position d)
  | _ => KTerm (tm a)
  end.

(* items as the implementation builds them: a value is only ever attached to a literal *)
Definition item_ok (a : item) : Prop :=
  wf (tm a) /\ (val a <> None -> is_literal (tm a) = true).

Lemma num_class n : value_order_by_class (VNum n) = match num_key n with Some _ => 0 | None => 1 end.
Proof. simpl. rewrite num_exact_cmp_key. destruct (num_key n); reflexivity. Qed.

Lemma class_cmp_Eq a b : class_cmp a b = Eq ->
  kind_rank (kind_of (tm a)) = kind_rank (kind_of (tm b)) /\ item_class a = item_class b.
Proof.
  unfold class_cmp. intros H. apply then_cmp_Eq_iff in H as [H1 H2].
  apply N.compare_eq in H1, H2. auto.
Qed.

Lemma is_literal_rank a b : kind_rank (kind_of a) = kind_rank (kind_of b) -> is_literal a = is_literal b.
Proof. unfold is_literal. destruct (kind_of a), (kind_of b); simpl; intros; try reflexivity; lia. Qed.

Lemma in_class_key a b : item_ok a -> item_ok b -> class_cmp a b = Eq ->
  in_class_cmp a b = okey_cmp (item_key a) (item_key b) /\ same_con (item_key a) (item_key b).
Proof.
  intros [Wa La] [Wb Lb] H. apply class_cmp_Eq in H as [Hk Hc].
  apply is_literal_rank in Hk.
  unfold item_class, in_class_cmp, item_key in *.
  destruct (val a) as [va|] eqn:Ea; destruct (val b) as [vb|] eqn:Eb.
  - destruct va as [n1|s1 [t1|]|[b1|]|[d1|]]; destruct vb as [n2|s2 [t2|]|[b2|]|[d2|]];
      try rewrite !num_class in Hc;
      try (destruct (num_key n1) eqn:K1); try (destruct (num_key n2) eqn:K2);
      try (simpl in Hc; discriminate Hc);
      unfold value_order_by_cmp, value_cmp_with; try rewrite num_exact_cmp_key, ?K1, ?K2;
      simpl; auto.
  - assert (L : is_literal (tm a) = true) by (apply La; congruence). rewrite <- Hk, L in Hc.
    destruct va as [n1|s1 [t1|]|[b1|]|[d1|]]; try rewrite num_class in Hc;
      try (destruct (num_key n1) eqn:K1); try (simpl in Hc; discriminate Hc); simpl; auto.
  - assert (L : is_literal (tm b) = true) by (apply Lb; congruence). rewrite Hk, L in Hc.
    destruct vb as [n2|s2 [t2|]|[b2|]|[d2|]]; try rewrite num_class in Hc;
      try (destruct (num_key n2) eqn:K2); try (simpl in Hc; discriminate Hc); simpl; auto.
  - simpl. auto.
Qed.

Lemma item_key_wf a : item_ok a -> okey_wf (item_key a).
Proof.
  intros [Wa _]. unfold item_key.
  destruct (val a) as [[n|s [t|]|[b|]|[d|]]|]; simpl; auto. destruct (num_key n); simpl; auto.
Qed.

Lemma class_cmp_preorder : preorder_on item_ok class_cmp.
Proof.
  unfold class_cmp. apply preorder_lex2.
  - apply (preorder_pullback (fun a => kind_rank (kind_of (tm a))) item_ok anyP N.compare);
      [intros; exact I | apply N_compare_preorder].
  - apply (preorder_pullback item_class item_ok anyP N.compare);
      [intros; exact I | apply N_compare_preorder].
Qed.

(* ---------- the repaired comparator is a total preorder ---------- *)
Theorem order_by_preorder : preorder_on item_ok order_by.
Proof.
  unfold order_by. apply preorder_lex.
  - apply class_cmp_preorder.
  - intros a b Pa Pb E.
    assert (E' : class_cmp b a = Eq)
      by (rewrite (po_antisym _ _ class_cmp_preorder a b), E; auto).
    destruct (in_class_key a b Pa Pb E) as [-> _]. destruct (in_class_key b a Pb Pa E') as [-> _].
    apply okey_antisym; apply item_key_wf; assumption.
  - intros a b d x Pa Pb Pd E1 E2.
    assert (E3 : class_cmp a d = Eq) by (apply (po_eq _ _ class_cmp_preorder a b d); auto).
    destruct (in_class_key a b Pa Pb E1) as [-> S1]. destruct (in_class_key b d Pb Pd E2) as [-> S2].
    destruct (in_class_key a d Pa Pd E3) as [-> _].
    apply okey_eq; auto using item_key_wf.
  - intros a b d Pa Pb Pd E1 E2.
    assert (E3 : class_cmp a d = Eq) by (apply (po_eq _ _ class_cmp_preorder a b d); auto).
    destruct (in_class_key a b Pa Pb E1) as [-> S1]. destruct (in_class_key b d Pb Pd E2) as [-> S2].
    destruct (in_class_key a d Pa Pd E3) as [-> _].
    apply okey_lt; auto using item_key_wf.
Qed.

(* ================= keys, DESC, several criteria ================= *)
Definition key_ok (k : option item) : Prop := match k with Some a => item_ok a | None => True end.

Lemma key_cmp_preorder ob : preorder_on item_ok ob -> preorder_on key_ok (key_cmp ob).
Proof.
  intros [Ha He Hl]. split.
  - intros [a|] [b|]; simpl; auto.
  - intros [a|] [b|] [d|] x; simpl; try congruence; eauto.
  - intros [a|] [b|] [d|]; simpl; try congruence; eauto.
Qed.

Lemma dir_preorder {A} (P : A -> Prop) c d :
  preorder_on P c -> preorder_on P (fun a b => dir d (c a b)).
Proof. intros H. destruct d; simpl; [apply preorder_opp; exact H | exact H]. Qed.

Definition row_ok (descs : list bool) (r : row) : Prop :=
  length r = length descs /\ Forall key_ok r.

Theorem cmp_bindings_preorder ob descs :
  preorder_on item_ok ob -> preorder_on (row_ok descs) (cmp_bindings_with ob descs).
Proof.
  intros Hob. induction descs as [|d ds IH].
  - split; intros; simpl in *; congruence.
  - apply (preorder_ext _ _ (fun r1 r2 =>
             then_cmp (dir d (key_cmp ob (hd None r1) (hd None r2)))
                      (cmp_bindings_with ob ds (tl r1) (tl r2)))).
    + intros [|k1 t1] [|k2 t2] [L1 _] [L2 _]; simpl in *; try discriminate; reflexivity.
    + apply preorder_lex2.
      * apply (preorder_pullback (hd None) (row_ok (d :: ds)) key_ok
                 (fun a b => dir d (key_cmp ob a b))).
        -- intros [|k t] [L F]; simpl in *; [exact I | inversion F; assumption].
        -- apply dir_preorder. apply key_cmp_preorder. exact Hob.
      * apply (preorder_pullback (@tl _) (row_ok (d :: ds)) (row_ok ds) (cmp_bindings_with ob ds)).
        -- intros [|k t] [L F]; simpl in *; [discriminate|]. split; [lia | inversion F; assumption].
        -- exact IH.
Qed.

(* DESC is the reversal; later criteria only break ties *)
Theorem desc_is_reversal ob k1 k2 : dir true (key_cmp ob k1 k2) = CompOpp (dir false (key_cmp ob k1 k2)).
Proof. reflexivity. Qed.
Theorem later_keys_break_ties ob d ds k1 t1 k2 t2 :
  cmp_bindings_with ob (d :: ds) (k1 :: t1) (k2 :: t2) =
  match dir d (key_cmp ob k1 k2) with
  | Eq => cmp_bindings_with ob ds t1 t2
  | c => c
  end.
Proof. simpl. destruct (dir d (key_cmp ob k1 k2)); reflexivity. Qed.

(* ================= ranks: unbound < blank node < IRI < literal (< triple term) ================= *)
Definition key_rank (k : option item) : N :=
  match k with None => 0 | Some a => 1 + kind_rank (kind_of (tm a)) end.
Theorem rank_order k1 k2 : key_rank k1 < key_rank k2 -> key_cmp order_by k1 k2 = Lt.
Proof.
  destruct k1 as [a|], k2 as [b|]; cbn [key_rank key_cmp]; intros H; try reflexivity; try lia.
  unfold order_by, class_cmp.
  assert (E : (kind_rank (kind_of (tm a)) ?= kind_rank (kind_of (tm b))) = Lt)
    by (apply N.compare_lt_iff; lia).
  rewrite E. reflexivity.
Qed.
Theorem rank_values :
  key_rank None = 0
  /\ (forall s v, key_rank (Some (mkItem (Bnode s) v)) = 1)
  /\ (forall s v, key_rank (Some (mkItem (Iri s) v)) = 2)
  /\ (forall l d v, key_rank (Some (mkItem (LitDt l d) v)) = 3)
  /\ (forall l t v, key_rank (Some (mkItem (LitLang l t) v)) = 3)
  /\ (forall s p o v, key_rank (Some (mkItem (Triple s p o) v)) = 4).
Proof. repeat split. Qed.

(* ================= the comparator extends the operator '<' ================= *)
Definition fl_le (a b : fl) : Prop :=
  match fl_ext a, fl_ext b with Some x, Some y => ext_cmp x y <> Gt | _, _ => True end.
(* what is required from a conversion of integers/decimals into a float format [fmt]:
   it never crosses a number of that format (true of any monotone rounding that is the
   identity on the format, e.g. IEEE-754 round-to-nearest, truncation, double rounding) *)
Definition conv_ok (c : num -> fl) (fmt : fl -> Prop) : Prop :=
  forall n q f v, num_q n = Some q -> fmt f -> fl_ext f = Some (EFin v) ->
    (Qle q v -> fl_le (c n) f) /\ (Qle v q -> fl_le f (c n)).

Lemma ext_cmp_antisym x y : ext_cmp y x = CompOpp (ext_cmp x y).
Proof. apply (po_antisym _ _ ext_cmp_preorder); exact I. Qed.

Lemma float_vs_exact c fmt x n q r :
  conv_ok c fmt -> fmt x -> num_q n = Some q -> r <> Eq ->
  fl_partial_cmp x (c n) = Some r -> binary_float_exact_cmp x q = Some r.
Proof.
  intros Hc Fx Hq Hr. unfold fl_partial_cmp.
  destruct x as [|[|]|s m e]; simpl fl_ext; try discriminate.
  - destruct (fl_ext (c n)) as [[|y|]|]; simpl; intros E; inversion E; subst; congruence.
  - destruct (fl_ext (c n)) as [[|y|]|]; simpl; intros E; inversion E; subst; congruence.
  - destruct (Hc n q (FFin s m e) (q_of_fin s m e) Hq Fx eq_refl) as [H1 H2].
    unfold fl_le in H1, H2. simpl fl_ext in H1, H2.
    destruct (fl_ext (c n)) as [ec|]; [|discriminate]. intros E.
    assert (E' : ext_cmp (EFin (q_of_fin s m e)) ec = r) by congruence. clear E.
    cbn [binary_float_exact_cmp].
    destruct r; try congruence.
    + (* Lt *) assert (G : ext_cmp ec (EFin (q_of_fin s m e)) = Gt)
        by (rewrite ext_cmp_antisym, E'; reflexivity).
      destruct (Qcompare (q_of_fin s m e) q) eqn:C; auto.
      * exfalso. apply H1; auto. apply Qle_alt. rewrite <- Qcompare_antisym, C. discriminate.
      * exfalso. apply H1; auto. apply Qle_alt. rewrite <- Qcompare_antisym, C. discriminate.
    + (* Gt *)
      destruct (Qcompare (q_of_fin s m e) q) eqn:C; auto.
      * exfalso. apply H2; auto. apply Qle_alt. rewrite C. discriminate.
      * exfalso. apply H2; auto. apply Qle_alt. rewrite C. discriminate.
Qed.

Lemma fl_partial_cmp_swap x y r :
  fl_partial_cmp x y = Some r -> fl_partial_cmp y x = Some (CompOpp r).
Proof.
  unfold fl_partial_cmp. destruct (fl_ext x), (fl_ext y); try discriminate.
  intros E. inversion E. rewrite ext_cmp_antisym. reflexivity.
Qed.

Lemma exact_vs_float c fmt x n q r :
  conv_ok c fmt -> fmt x -> num_q n = Some q -> r <> Eq ->
  fl_partial_cmp (c n) x = Some r -> option_map CompOpp (binary_float_exact_cmp x q) = Some r.
Proof.
  intros Hc Fx Hq Hr E. apply fl_partial_cmp_swap in E.
  rewrite (float_vs_exact c fmt x n q (CompOpp r) Hc Fx Hq) by (destruct r; simpl; congruence || assumption).
  simpl. destruct r; reflexivity.
Qed.

(* floats of an item respect the formats *)
Definition num_fmt (f64 f32 : fl -> Prop) (n : num) : Prop :=
  match n with Double f => f64 f | Float f => f32 f | _ => True end.
Definition item_fmt f64 f32 (a : item) : Prop :=
  match val a with Some (VNum n) => num_fmt f64 f32 n | _ => True end.

Lemma num_refine c64 c32 f64 f32 n1 n2 r :
  conv_ok c64 f64 -> conv_ok c32 f32 -> num_fmt f64 f32 n1 -> num_fmt f64 f32 n2 -> r <> Eq ->
  num_partial_cmp c64 c32 n1 n2 = Some r -> num_exact_cmp n1 n2 = Some r.
Proof.
  intros H64 H32 F1 F2 Hr.
  destruct n1 as [z1|z1|m1 s1|x|x]; destruct n2 as [z2|z2|m2 s2|y|y];
    unfold num_partial_cmp, num_exact_cmp; simpl as_binary_float; simpl coerce_to_double;
    simpl coerce_to_float; simpl in F1, F2; auto;
    try (apply (float_vs_exact c64 f64); auto; reflexivity);
    try (apply (float_vs_exact c32 f32); auto; reflexivity);
    try (apply (exact_vs_float c64 f64); auto; reflexivity);
    try (apply (exact_vs_float c32 f32); auto; reflexivity).
Qed.

Lemma then_cmp_Gt_iff a b : then_cmp a b = Gt <-> a = Gt \/ (a = Eq /\ b = Gt).
Proof. destruct a; simpl; split; auto; try tauto; try (intros [?|[? ?]]; congruence). Qed.

Lemma inst_lt_shift s1 n1 s2 n2 k : (0 < k)%Z ->
  inst_cmp s1 n1 (s2 - k) n2 = Lt -> inst_cmp s1 n1 s2 n2 = Lt.
Proof.
  unfold inst_cmp. intros Hk H. apply then_cmp_Lt_iff in H. apply then_cmp_Lt_iff. left.
  rewrite Z.compare_lt_iff. destruct H as [H|[H _]].
  - rewrite Z.compare_lt_iff in H. lia.
  - apply Z.compare_eq in H. lia.
Qed.
Lemma inst_gt_shift s1 n1 s2 n2 k : (0 < k)%Z ->
  inst_cmp s1 n1 (s2 + k) n2 = Gt -> inst_cmp s1 n1 s2 n2 = Gt.
Proof.
  unfold inst_cmp. intros Hk H. apply then_cmp_Gt_iff in H. apply then_cmp_Gt_iff. left.
  rewrite Z.compare_gt_iff. destruct H as [H|[H _]].
  - rewrite Z.compare_gt_iff in H. lia.
  - apply Z.compare_eq in H. lia.
Qed.

Lemma hetero_refine s1 n1 s2 n2 r :
  heterogeneous_cmp s1 n1 s2 n2 = Some r -> inst_cmp s1 n1 s2 n2 = r /\ r <> Eq.
Proof.
  assert (K : (0 < h14)%Z) by reflexivity.
  unfold heterogeneous_cmp.
  destruct (inst_cmp s1 n1 (s2 - h14) n2) eqn:E1.
  - destruct (inst_cmp s1 n1 (s2 + h14) n2) eqn:E2; try discriminate.
    intros E; inversion E; subst. split; [|discriminate]. eapply inst_gt_shift; eauto.
  - intros E; inversion E; subst. split; [|discriminate]. eapply inst_lt_shift; eauto.
  - destruct (inst_cmp s1 n1 (s2 + h14) n2) eqn:E2; try discriminate.
    intros E; inversion E; subst. split; [|discriminate]. eapply inst_gt_shift; eauto.
Qed.

Lemma dt_refine d1 d2 r : dt_partial_cmp d1 d2 = Some r -> r <> Eq -> timeline_cmp d1 d2 = r.
Proof.
  destruct d1 as [s1 n1|s1 n1], d2 as [s2 n2|s2 n2]; unfold timeline_cmp; simpl; intros E Hr.
  - congruence.
  - destruct (heterogeneous_cmp s2 n2 s1 n1) as [r'|] eqn:H; [|discriminate].
    apply hetero_refine in H as [H _]. simpl in E. inversion E; subst.
    apply (po_antisym _ _ inst_preorder (s2, n2) (s1, n1)); exact I.
  - apply hetero_refine in E as [E _]. exact E.
  - congruence.
Qed.

Lemma literal_rank t : is_literal t = true -> kind_rank (kind_of t) = 2.
Proof. unfold is_literal. destruct (kind_of t); simpl; congruence. Qed.

Lemma order_by_of_values a b x y r :
  item_ok a -> item_ok b -> val a = Some x -> val b = Some y ->
  value_order_by_class x = value_order_by_class y -> value_order_by_cmp x y = Some r ->
  order_by a b = r.
Proof.
  intros [_ La] [_ Lb] Ea Eb Hc Hv.
  unfold order_by, class_cmp, item_class, in_class_cmp. rewrite Ea, Eb, Hc, Hv.
  rewrite !literal_rank by (apply La || apply Lb; congruence).
  rewrite !N.compare_refl. reflexivity.
Qed.

Theorem order_by_refines_cmp c64 c32 f64 f32 a b r :
  conv_ok c64 f64 -> conv_ok c32 f32 ->
  item_ok a -> item_ok b -> item_fmt f64 f32 a -> item_fmt f64 f32 b ->
  sparql_cmp c64 c32 a b = Some r -> r <> Eq -> order_by a b = r.
Proof.
  intros H64 H32 Pa Pb Fa Fb. unfold sparql_cmp, item_fmt in *.
  destruct (val a) as [x|] eqn:Ea; destruct (val b) as [y|] eqn:Eb;
    try (destruct (is_literal (tm a) && is_literal (tm b) && term_eqb (tm a) (tm b)); congruence).
  intros E Hr. unfold value_partial_cmp in E.
  destruct x as [n1|s1 [t1|]|[b1|]|[d1|]]; destruct y as [n2|s2 [t2|]|[b2|]|[d2|]];
    simpl in E; try discriminate E.
  - (* numbers *)
    apply (num_refine c64 c32 f64 f32) in E; auto.
    apply (order_by_of_values a b (VNum n1) (VNum n2)); auto.
    rewrite !num_class. rewrite num_exact_cmp_key in E.
    destruct (num_key n1), (num_key n2); try discriminate; reflexivity.
  - apply (order_by_of_values a b (VStr s1 (Some t1)) (VStr s2 (Some t2))); auto.
  - apply (order_by_of_values a b (VStr s1 None) (VStr s2 None)); auto.
  - apply (order_by_of_values a b (VBool (Some b1)) (VBool (Some b2))); auto.
  - apply (order_by_of_values a b (VDate (Some d1)) (VDate (Some d2))); auto.
    simpl. rewrite (dt_refine d1 d2 r); auto.
Qed.

(* the statement in terms of the FILTER operator '<' *)
Theorem order_by_respects_lt c64 c32 f64 f32 a b :
  conv_ok c64 f64 -> conv_ok c32 f32 ->
  item_ok a -> item_ok b -> item_fmt f64 f32 a -> item_fmt f64 f32 b ->
  lt_sparql c64 c32 a b = Some true -> order_by a b = Lt.
Proof.
  intros H64 H32 Pa Pb Fa Fb. unfold lt_sparql.
  destruct (sparql_cmp c64 c32 a b) as [r|] eqn:E; [|discriminate].
  destruct r; simpl; try discriminate. intros _.
  apply (order_by_refines_cmp c64 c32 f64 f32 a b Lt); auto. discriminate.
Qed.

(* ================= sorting ================= *)
Section Sorting.
Context {A : Type}.
Variable P : A -> Prop.
Variable c : A -> A -> comparison.
Hypothesis Hc : preorder_on P c.

Definition le (a b : A) : Prop := c a b <> Gt.

Lemma leb_of_le a b : leb_of c a b = true <-> le a b.
Proof. unfold leb_of, le. destruct (c a b); split; congruence. Qed.

Lemma insert_perm x l : Permutation (x :: l) (insert c x l).
Proof.
  induction l as [|y l IH]; simpl; auto.
  destruct (leb_of c x y); auto.
  eapply perm_trans; [apply perm_swap|]. apply perm_skip. exact IH.
Qed.
Lemma isort_perm l : Permutation l (isort c l).
Proof.
  induction l as [|x l IH]; simpl; auto.
  eapply perm_trans; [apply perm_skip; exact IH | apply insert_perm].
Qed.

Lemma insert_sorted x l :
  P x -> Forall P l -> StronglySorted le l -> StronglySorted le (insert c x l).
Proof.
  intros Px. induction l as [|y l IH]; intros Pl Sl; simpl.
  - repeat constructor.
  - inversion Pl as [|? ? Py Pl']; subst. inversion Sl as [|? ? Sl' Fy]; subst.
    destruct (leb_of c x y) eqn:E.
    + apply leb_of_le in E. constructor; [assumption|]. constructor; [assumption|].
      rewrite Forall_forall in *. intros z Hz.
      apply (po_le_trans P c Hc x y z); auto. apply Fy; assumption.
    + constructor; [apply IH; assumption|].
      assert (Hyx : le y x).
      { unfold le. rewrite (po_antisym P c Hc x y) by assumption.
        unfold leb_of in E. destruct (c x y); simpl; congruence. }
      assert (F : Forall (le y) (x :: l)) by (constructor; assumption).
      eapply Permutation_Forall; [apply insert_perm | exact F].
Qed.
Lemma isort_sorted l : Forall P l -> StronglySorted le (isort c l).
Proof.
  induction l as [|x l IH]; intros Pl; simpl; [constructor|].
  inversion Pl; subst. apply insert_sorted; auto.
  eapply Permutation_Forall; [apply isort_perm | assumption].
Qed.

Lemma sorted_strongly l : Forall P l -> Sorted le l -> StronglySorted le l.
Proof.
  induction l as [|x l IH]; intros Pl Sl; [constructor|].
  inversion Pl as [|? ? Px Pl']; subst. inversion Sl as [|? ? Sl' Hd]; subst.
  specialize (IH Pl' Sl'). constructor; [assumption|].
  destruct l as [|y l]; [constructor|].
  inversion Hd as [|? ? Hxy]; subst. inversion IH as [|? ? _ Fy]; subst.
  inversion Pl' as [|? ? Py Pl'']; subst.
  constructor; [assumption|].
  rewrite Forall_forall in *. intros z Hz. apply (po_le_trans P c Hc x y z); auto.
  apply Fy; assumption.
Qed.

Lemma strongly_nth l : StronglySorted le l ->
  forall i j d, (i < j < length l)%nat -> le (nth i l d) (nth j l d).
Proof.
  induction 1 as [|x l Sl IH Fx]; intros i j d [Hij Hj]; simpl in *; [lia|].
  destruct j as [|j]; [lia|]. destruct i as [|i].
  - rewrite Forall_forall in Fx. apply Fx. apply nth_In. lia.
  - apply IH. lia.
Qed.
End Sorting.

Definition rows_le descs := le (cmp_bindings_with order_by descs).

(* a sorted permutation always exists (so a sort that expects a total order cannot be misled) *)
Theorem sorted_permutation_exists descs rows : Forall (row_ok descs) rows ->
  exists out, Permutation rows out /\ StronglySorted (rows_le descs) out.
Proof.
  intros F. exists (isort (cmp_bindings_with order_by descs) rows). split.
  - apply isort_perm.
  - apply (isort_sorted (row_ok descs)); [|exact F].
    apply cmp_bindings_preorder. apply order_by_preorder.
Qed.

(* any sorted permutation of the solutions has no inversion at any distance *)
Theorem sorted_output_has_no_inversion descs rows out :
  Forall (row_ok descs) rows -> Permutation rows out -> Sorted (rows_le descs) out ->
  forall i j, (i < j < length out)%nat ->
    cmp_bindings_with order_by descs (nth i out []) (nth j out []) <> Gt.
Proof.
  intros F Pm S i j Hij.
  assert (F' : Forall (row_ok descs) out) by (eapply Permutation_Forall; eauto).
  apply (strongly_nth (cmp_bindings_with order_by descs)); [|exact Hij].
  apply (sorted_strongly (row_ok descs)); auto.
  apply cmp_bindings_preorder. apply order_by_preorder.
Qed.

Lemma then_cmp_not_Gt a b : then_cmp a b <> Gt -> a <> Gt.
Proof. destruct a; simpl; congruence. Qed.

(* ... hence two solutions whose first keys are comparable by '<' appear in that order
   (reversed for DESC) *)
Theorem sorted_output_respects_lt c64 c32 f64 f32 d ds rows out :
  conv_ok c64 f64 -> conv_ok c32 f32 ->
  Forall (row_ok (d :: ds)) rows ->
  Forall (Forall (fun k => match k with Some a => item_fmt f64 f32 a | None => True end)) rows ->
  Permutation rows out -> Sorted (rows_le (d :: ds)) out ->
  forall i j a b, (i < j < length out)%nat ->
    hd None (nth i out []) = Some a -> hd None (nth j out []) = Some b ->
    (if d then lt_sparql c64 c32 a b else lt_sparql c64 c32 b a) <> Some true.
Proof.
  intros H64 H32 F Ff Pm S i j a b Hij Ea Eb.
  pose proof (sorted_output_has_no_inversion (d :: ds) rows out F Pm S i j Hij) as H.
  assert (F' : Forall (row_ok (d :: ds)) out) by (eapply Permutation_Forall; eauto).
  assert (Ff' : Forall (Forall (fun k => match k with Some a => item_fmt f64 f32 a | None => True end)) out)
    by (eapply Permutation_Forall; eauto).
  rewrite Forall_forall in F', Ff'.
  assert (Ii : In (nth i out []) out) by (apply nth_In; lia).
  assert (Ij : In (nth j out []) out) by (apply nth_In; lia).
  destruct (nth i out []) as [|k1 t1] eqn:N1; [discriminate|].
  destruct (nth j out []) as [|k2 t2] eqn:N2; [discriminate|].
  simpl in Ea, Eb. subst k1 k2.
  destruct (F' _ Ii) as [_ Fi]. destruct (F' _ Ij) as [_ Fj].
  inversion Fi as [|? ? Oa _]; subst. inversion Fj as [|? ? Ob _]; subst. simpl in Oa, Ob.
  pose proof (Ff' _ Ii) as Gi. pose proof (Ff' _ Ij) as Gj.
  inversion Gi as [|? ? Ga _]; subst. inversion Gj as [|? ? Gb _]; subst.
  simpl in H. apply then_cmp_not_Gt in H. simpl in H.
  destruct d; simpl in H; intros L.
  - apply (order_by_respects_lt c64 c32 f64 f32 a b) in L; auto. rewrite L in H. simpl in H. congruence.
  - apply (order_by_respects_lt c64 c32 f64 f32 b a) in L; auto.
    rewrite (po_antisym _ _ order_by_preorder b a), L in H by assumption. simpl in H. congruence.
Qed.

(* the same for any key, when the earlier keys tie: later criteria break ties *)
Lemma cmp_bindings_key ob descs : forall r1 r2 k,
  cmp_bindings_with ob descs r1 r2 <> Gt ->
  length r1 = length descs -> length r2 = length descs -> (k < length descs)%nat ->
  (forall m, (m < k)%nat -> key_cmp ob (nth m r1 None) (nth m r2 None) = Eq) ->
  dir (nth k descs false) (key_cmp ob (nth k r1 None) (nth k r2 None)) <> Gt.
Proof.
  induction descs as [|d ds IH]; intros r1 r2 k H L1 L2 Hk Hm; simpl in Hk; [lia|].
  destruct r1 as [|k1 t1]; [discriminate|]. destruct r2 as [|k2 t2]; [discriminate|].
  simpl in L1, L2. cbn [cmp_bindings_with] in H. destruct k as [|k]; cbn [nth].
  - apply then_cmp_not_Gt in H. exact H.
  - assert (E : key_cmp ob k1 k2 = Eq) by (apply (Hm 0%nat); lia).
    rewrite E in H. replace (dir d Eq) with Eq in H by (destruct d; reflexivity). cbn [then_cmp] in H.
    apply IH; auto; try lia. intros m Hlt. apply (Hm (S m)). lia.
Qed.

Theorem sorted_output_key_order descs rows out :
  Forall (row_ok descs) rows -> Permutation rows out -> Sorted (rows_le descs) out ->
  forall i j k, (i < j < length out)%nat -> (k < length descs)%nat ->
    (forall m, (m < k)%nat ->
       key_cmp order_by (nth m (nth i out []) None) (nth m (nth j out []) None) = Eq) ->
    dir (nth k descs false)
        (key_cmp order_by (nth k (nth i out []) None) (nth k (nth j out []) None)) <> Gt.
Proof.
  intros F Pm S i j k Hij Hk Hm.
  pose proof (sorted_output_has_no_inversion descs rows out F Pm S i j Hij) as H.
  assert (F' : Forall (row_ok descs) out) by (eapply Permutation_Forall; eauto).
  rewrite Forall_forall in F'.
  destruct (F' (nth i out [])) as [Li _]; [apply nth_In; lia|].
  destruct (F' (nth j out [])) as [Lj _]; [apply nth_In; lia|].
  apply (cmp_bindings_key order_by descs); auto.
Qed.

Theorem sorted_output_respects_lt_at_key c64 c32 f64 f32 descs rows out :
  conv_ok c64 f64 -> conv_ok c32 f32 ->
  Forall (row_ok descs) rows ->
  Forall (Forall (fun k => match k with Some a => item_fmt f64 f32 a | None => True end)) rows ->
  Permutation rows out -> Sorted (rows_le descs) out ->
  forall i j k a b, (i < j < length out)%nat -> (k < length descs)%nat ->
    (forall m, (m < k)%nat ->
       key_cmp order_by (nth m (nth i out []) None) (nth m (nth j out []) None) = Eq) ->
    nth k (nth i out []) None = Some a -> nth k (nth j out []) None = Some b ->
    (if nth k descs false then lt_sparql c64 c32 a b else lt_sparql c64 c32 b a) <> Some true.
Proof.
  intros H64 H32 F Ff Pm S i j k a b Hij Hk Hm Ea Eb.
  pose proof (sorted_output_key_order descs rows out F Pm S i j k Hij Hk Hm) as H.
  rewrite Ea, Eb in H. cbn [key_cmp] in H.
  assert (F' : Forall (row_ok descs) out) by (eapply Permutation_Forall; eauto).
  assert (Ff' : Forall (Forall (fun k => match k with Some a => item_fmt f64 f32 a | None => True end)) out)
    by (eapply Permutation_Forall; eauto).
  rewrite Forall_forall in F', Ff'.
  assert (Ii : In (nth i out []) out) by (apply nth_In; lia).
  assert (Ij : In (nth j out []) out) by (apply nth_In; lia).
  destruct (F' _ Ii) as [Li Fi]. destruct (F' _ Ij) as [Lj Fj].
  pose proof (Ff' _ Ii) as Gi. pose proof (Ff' _ Ij) as Gj.
  rewrite Forall_forall in Fi, Fj, Gi, Gj.
  assert (Ia : In (Some a) (nth i out [])) by (rewrite <- Ea; apply nth_In; lia).
  assert (Ib : In (Some b) (nth j out [])) by (rewrite <- Eb; apply nth_In; lia).
  pose proof (Fi _ Ia) as Oa. pose proof (Fj _ Ib) as Ob. simpl in Oa, Ob.
  pose proof (Gi _ Ia) as Ga. pose proof (Gj _ Ib) as Gb. simpl in Ga, Gb.
  destruct (nth k descs false); simpl in H; intros L.
  - apply (order_by_respects_lt c64 c32 f64 f32 a b) in L; auto. rewrite L in H. simpl in H. congruence.
  - apply (order_by_respects_lt c64 c32 f64 f32 b a) in L; auto.
    rewrite (po_antisym _ _ order_by_preorder b a), L in H by assumption. simpl in H. congruence.
Qed.

(* ================= the comparator of the original tree is not a preorder ================= *)
From Coq Require Ascii.
From Coq Require Import String.
Definition s2l (s : String.string) : str :=
  map (fun a => N.of_nat (Ascii.nat_of_ascii a)) (String.list_ascii_of_string s).
Definition xsd (local : String.string) : str :=
  s2l "http://www.w3.org/2001/XMLSchema#"%string ++ s2l local.
Definition lit (lex dt : String.string) (v : option value) : item := mkItem (LitDt (s2l lex) (xsd dt)) v.

Lemma lit_ok lex dt v : negb (str_eqb (xsd dt) rdf_langString) = true -> item_ok (lit lex dt v).
Proof.
  intros H. split; simpl.
  - intros E. rewrite E, str_eqb_refl in H. discriminate.
  - reflexivity.
Qed.

Lemma fl_partial_cmp_nan_r x : fl_partial_cmp x FNaN = None.
Proof. unfold fl_partial_cmp. destruct (fl_ext x); reflexivity. Qed.

(* witness 1 (DESIGN.md section 4 row 13): value order between numbers, syntactic order through NaN *)
Definition w_dec2 := lit "2.0" "decimal" (Some (VNum (Decimal 20 1))).
Definition w_nan := lit "NaN" "double" (Some (VNum (Double FNaN))).
Definition w_int1 := lit "1" "integer" (Some (VNum (NativeInt 1))).
Theorem order_not_transitive_prefix : forall c64 c32, exists a b d,
  item_ok a /\ item_ok b /\ item_ok d /\
  order_by_prefix c64 c32 a b = Lt /\ order_by_prefix c64 c32 b d = Lt /\
  order_by_prefix c64 c32 a d = Gt.
Proof.
  intros c64 c32. exists w_dec2, w_nan, w_int1.
  split; [apply lit_ok; vm_compute; reflexivity|].
  split; [apply lit_ok; vm_compute; reflexivity|].
  split; [apply lit_ok; vm_compute; reflexivity|].
  split; [|split].
  - unfold order_by_prefix, sparql_cmp, value_partial_cmp. simpl.
    rewrite fl_partial_cmp_nan_r. vm_compute. reflexivity.
  - vm_compute. reflexivity.
  - vm_compute. reflexivity.
Qed.

(* witness 2: an ill-typed literal in the middle *)
Definition w_int10 := lit "10" "integer" (Some (VNum (NativeInt 10))).
Definition w_bad := lit "1a" "integer" None.
Definition w_int9 := lit "9" "integer" (Some (VNum (NativeInt 9))).
Theorem order_not_transitive_prefix_illtyped : forall c64 c32,
  order_by_prefix c64 c32 w_int10 w_bad = Lt /\ order_by_prefix c64 c32 w_bad w_int9 = Lt /\
  order_by_prefix c64 c32 w_int10 w_int9 = Gt.
Proof. intros. repeat split; vm_compute; reflexivity. Qed.

(* witness 3: dateTimes; 13:00Z < 15:00Z by value, both undetermined against 15:00 without zone *)
Definition w_t1 := lit "2024-09-17T23:00:00+10:00" "dateTime" (Some (VDate (Some (Timezoned 1726578000 0)))).
Definition w_t2 := lit "2024-09-17T10:00:00-05:00" "dateTime" (Some (VDate (Some (Timezoned 1726585200 0)))).
Definition w_n := lit "2024-09-17T15:00:00" "dateTime" (Some (VDate (Some (Naive 1726585200 0)))).
Theorem order_not_transitive_prefix_datetime : forall c64 c32,
  order_by_prefix c64 c32 w_t1 w_t2 = Lt /\ order_by_prefix c64 c32 w_t2 w_n = Lt /\
  order_by_prefix c64 c32 w_t1 w_n = Gt.
Proof. intros. repeat split; vm_compute; reflexivity. Qed.

(* witness 4: with IEEE round-to-nearest conversions, 'Equal' is not transitive either *)
Definition w_2p53 := lit "9007199254740992" "integer" (Some (VNum (NativeInt 9007199254740992))).
Definition w_2p53d := lit "9007199254740992" "double" (Some (VNum (Double (FFin false 4503599627370496 1)))).
Definition w_2p53p1 := lit "9007199254740993" "integer" (Some (VNum (NativeInt 9007199254740993))).
Theorem order_equal_not_transitive_prefix_rounding :
  order_by_prefix c64_rne c32_rne w_2p53p1 w_2p53d = Eq /\
  order_by_prefix c64_rne c32_rne w_2p53d w_2p53 = Eq /\
  order_by_prefix c64_rne c32_rne w_2p53p1 w_2p53 = Gt.
Proof. repeat split; vm_compute; reflexivity. Qed.

(* the repaired comparator on the same witnesses *)
Example order_by_on_witnesses :
  isort order_by [w_dec2; w_nan; w_int1; w_int9; w_int10; w_bad] = [w_int1; w_dec2; w_int9; w_int10; w_nan; w_bad]
  /\ order_by w_2p53d w_2p53 = Eq /\ order_by w_2p53 w_2p53p1 = Lt /\ order_by w_2p53d w_2p53p1 = Lt
  /\ order_by w_t1 w_t2 = Lt /\ order_by w_t1 w_n = Lt /\ order_by w_t2 w_n = Eq.
Proof. repeat split; vm_compute; reflexivity. Qed.

(* non-vacuity of the hypotheses: the witnesses are well-formed items, and the concrete
   conversion behaves as [conv_ok] demands on sample points around 2^53 and 0.1 *)
Example hypotheses_inhabited :
  Forall item_ok [w_dec2; w_nan; w_int1; w_int9; w_int10; w_bad; w_t1; w_t2; w_n; w_2p53; w_2p53d; w_2p53p1]
  /\ row_ok [false; true] [Some w_int1; None]
  /\ c64_rne (NativeInt 9007199254740993) = FFin false 4503599627370496 1
  /\ c64_rne (NativeInt 9007199254740995) = FFin false 4503599627370498 1
  /\ c64_rne (Decimal 1 1) = FFin false 7205759403792794 (-56)
  /\ c32_rne (NativeInt 16777217) = FFin false 8388608 1
  /\ c64_rne (Decimal 1 (-400)) = FInf false.
Proof.
  split; [|split; [|repeat split; vm_compute; reflexivity]].
  - repeat constructor; try (apply lit_ok; vm_compute; reflexivity).
  - split; [reflexivity|]. repeat constructor. apply lit_ok. vm_compute. reflexivity.
Qed.

(* ================= end-to-end queries: '<' of expressions, ties, windows, integer arithmetic ================= *)

(* ---------- the operator '<' of expressions (sparql_compare) and the relation lt_sparql ---------- *)
Theorem sparql_compare_lt_iff c64 c32 a b :
  sparql_compare c64 c32 is_lt a b = Some true <-> lt_sparql c64 c32 a b = Some true.
Proof.
  unfold sparql_compare, lt_sparql.
  assert (G : forall o : option comparison,
            option_map is_lt o = Some true <->
            option_map (fun c => match c with Lt => true | _ => false end) o = Some true)
    by (intros [[]|]; simpl; tauto).
  destruct (val a) as [[n1|s1 t1|b1|d1]|] eqn:Ea; try apply G.
  destruct (val b) as [[n2|s2 t2|b2|d2]|] eqn:Eb; try apply G.
  unfold sparql_cmp. rewrite Ea, Eb. unfold value_partial_cmp. simpl.
  destruct (num_partial_cmp c64 c32 n1 n2) as [[]|]; simpl; split; congruence.
Qed.
Theorem order_by_respects_compare c64 c32 f64 f32 a b :
  conv_ok c64 f64 -> conv_ok c32 f32 ->
  item_ok a -> item_ok b -> item_fmt f64 f32 a -> item_fmt f64 f32 b ->
  sparql_compare c64 c32 is_lt a b = Some true -> order_by a b = Lt.
Proof.
  intros H64 H32 Pa Pb Fa Fb H. apply sparql_compare_lt_iff in H.
  apply (order_by_respects_lt c64 c32 f64 f32); auto.
Qed.
(* two numbers are never a type error for '<' (NaN: false) *)
Theorem sparql_compare_numbers_total c64 c32 pred a b x y :
  val a = Some (VNum x) -> val b = Some (VNum y) -> sparql_compare c64 c32 pred a b <> None.
Proof. intros Ea Eb. unfold sparql_compare. rewrite Ea, Eb. discriminate. Qed.
(* the checker of the harness accepts a 'true' only if ORDER BY puts the pair in that order *)
Theorem lt_entry_ok_true k1 k2 : lt_entry_ok k1 k2 1 = true -> key_cmp order_by k1 k2 = Lt.
Proof.
  unfold lt_entry_ok. rewrite N.eqb_refl. intros H. apply andb_prop in H as [H _].
  destruct (key_cmp order_by k1 k2); congruence.
Qed.

(* ---------- ties: equal values written differently, the next key decides ---------- *)
Lemma num_exact_cmp_some_self a b c : num_exact_cmp a b = Some c ->
  (exists x, num_key a = Some x) /\ (exists y, num_key b = Some y).
Proof.
  rewrite num_exact_cmp_key. destruct (num_key a), (num_key b); try discriminate. eauto.
Qed.
Theorem order_by_value_tie a b x y :
  val a = Some x -> val b = Some y -> is_literal (tm a) = true -> is_literal (tm b) = true ->
  value_order_by_cmp x y = Some Eq -> order_by a b = Eq.
Proof.
  intros Ea Eb La Lb H.
  assert (Hc : value_order_by_class x = value_order_by_class y).
  { destruct x as [n1|s1 [t1|]|[b1|]|[d1|]]; destruct y as [n2|s2 [t2|]|[b2|]|[d2|]];
      try (simpl in H; discriminate H); try reflexivity.
    unfold value_order_by_cmp, value_cmp_with in H.
    destruct (num_exact_cmp_some_self _ _ _ H) as [[u Hu] [v Hv]].
    rewrite !num_class, Hu, Hv. reflexivity. }
  unfold order_by, class_cmp, item_class, in_class_cmp. rewrite Ea, Eb, Hc, H.
  rewrite !literal_rank by assumption. rewrite !N.compare_refl. reflexivity.
Qed.
Theorem equal_values_defer_to_next_key d ds a b t1 t2 x y :
  val a = Some x -> val b = Some y -> is_literal (tm a) = true -> is_literal (tm b) = true ->
  value_order_by_cmp x y = Some Eq ->
  cmp_bindings_with order_by (d :: ds) (Some a :: t1) (Some b :: t2) = cmp_bindings_with order_by ds t1 t2.
Proof.
  intros Ea Eb La Lb H. rewrite later_keys_break_ties. simpl key_cmp.
  rewrite (order_by_value_tie a b x y) by assumption. destruct d; reflexivity.
Qed.
(* 1 / 1.0 / 1e0 (double) / 1 (float), one instant in two time zones, both lexical forms of true *)
Example equal_values_witnesses :
  value_order_by_cmp (VNum (NativeInt 1)) (VNum (Decimal 10 1)) = Some Eq
  /\ value_order_by_cmp (VNum (Decimal 10 1)) (VNum (Double (FFin false 4503599627370496 (-52)))) = Some Eq
  /\ value_order_by_cmp (VNum (Double (FFin false 4503599627370496 (-52)))) (VNum (Float (FFin false 8388608 (-23)))) = Some Eq
  /\ value_order_by_cmp (VNum (BigInt 3)) (VNum (NativeInt 3)) = Some Eq
  /\ value_order_by_cmp (VDate (Some (Timezoned 1726574400 0))) (VDate (Some (Timezoned 1726574400 0))) = Some Eq
  /\ value_order_by_cmp (VBool (Some true)) (VBool (Some true)) = Some Eq
  /\ (* but not 0.1 as a decimal and as a double *)
     value_order_by_cmp (VNum (Decimal 1 1)) (VNum (Double (FFin false 7205759403792794 (-56)))) = Some Lt.
Proof. repeat split; vm_compute; reflexivity. Qed.

(* ---------- integer arithmetic and the order of computed keys ---------- *)
Theorem int_arith_value o a b r : int_arith o a b = Some r ->
  exists x y, int_val a = Some x /\ (o = ONeg \/ int_val b = Some y) /\ int_val r = Some (z_op o x y).
Proof.
  destruct o; simpl; destruct a as [x|x|? ?|?|?]; try discriminate;
    try (destruct b as [y|y|? ?|?|?]; try discriminate; intros H; injection H as <-; exists x, y;
         simpl; repeat split; auto; match goal with |- context [if ?c then _ else _] => destruct c end; reflexivity).
  - intros H; injection H as <-. exists x, 0%Z. simpl. repeat split; auto. destruct (fits_isize (- x)); reflexivity.
  - intros H; injection H as <-. exists x, 0%Z. simpl. auto.
Qed.
(* a native result always fits in an isize; a BigInt result need not be out of that range *)
Theorem int_arith_native_fits o x y z :
  int_arith o (NativeInt x) (NativeInt y) = Some (NativeInt z) -> fits_isize z = true.
Proof.
  destruct o; simpl; intros H;
    match type of H with context [if ?c then _ else _] => destruct c eqn:E end; congruence.
Qed.
Example int_arith_not_normalised :
  int_arith OAdd (BigInt 9223372036854775808) (NativeInt (-9223372036854775805)) = Some (BigInt 3)
  /\ int_arith OMul (BigInt 9223372036854775808) (NativeInt 0) = Some (BigInt 0)
  /\ int_arith OSub (NativeInt (-9223372036854775808)) (NativeInt 1) = Some (BigInt (-9223372036854775809))
  /\ int_arith ONeg (NativeInt (-9223372036854775808)) (NativeInt 0) = Some (BigInt 9223372036854775808)
  /\ int_arith ONeg (BigInt 9223372036854775808) (NativeInt 0) = Some (BigInt (-9223372036854775808))
  /\ fits_isize 3 = true /\ fits_isize (-9223372036854775808) = true.
Proof. repeat split; vm_compute; reflexivity. Qed.

Lemma Qcompare_int x y : Qcompare (Qmake x 1) (Qmake y 1) = Z.compare x y.
Proof. unfold Qcompare. simpl. rewrite !Z.mul_1_r. reflexivity. Qed.
(* ORDER BY sorts integers by their value, whatever their representation (NativeInt / BigInt, in
   or out of the isize range) and whatever the spelling of the terms *)
Theorem computed_int_keys_order a b n1 n2 x y :
  val a = Some (VNum n1) -> val b = Some (VNum n2) ->
  is_literal (tm a) = true -> is_literal (tm b) = true ->
  int_val n1 = Some x -> int_val n2 = Some y -> order_by a b = Z.compare x y.
Proof.
  intros Ea Eb La Lb Hx Hy.
  assert (K1 : num_key n1 = Some (EFin (Qmake x 1))) by (destruct n1; simpl in *; congruence).
  assert (K2 : num_key n2 = Some (EFin (Qmake y 1))) by (destruct n2; simpl in *; congruence).
  unfold order_by, class_cmp, item_class, in_class_cmp. rewrite Ea, Eb.
  rewrite !num_class, K1, K2. rewrite !literal_rank by assumption. rewrite !N.compare_refl.
  unfold value_order_by_cmp, value_cmp_with. rewrite num_exact_cmp_key, K1, K2. simpl.
  apply Qcompare_int.
Qed.
Corollary order_by_int_repr_indep t z b :
  order_by (mkItem t (Some (VNum (BigInt z)))) b = order_by (mkItem t (Some (VNum (NativeInt z)))) b
  /\ order_by b (mkItem t (Some (VNum (BigInt z)))) = order_by b (mkItem t (Some (VNum (NativeInt z)))).
Proof.
  unfold order_by, class_cmp, item_class, in_class_cmp, value_order_by_cmp, value_cmp_with. simpl.
  split; destruct (val b) as [[n|s [u|]|[c|]|[d|]]|]; try reflexivity;
    rewrite ?num_class, ?num_exact_cmp_key; reflexivity.
Qed.
(* the keys  h + (d - h)  computed by the engine are sorted as the integers d *)
Corollary cancelling_sums_sorted_by_value a b ra rb h1 h2 d1 d2 :
  int_arith OAdd (BigInt h1) (NativeInt (d1 - h1)) = Some ra ->
  int_arith OAdd (NativeInt d2) (NativeInt h2) = Some rb ->
  val a = Some (VNum ra) -> val b = Some (VNum rb) ->
  is_literal (tm a) = true -> is_literal (tm b) = true ->
  order_by a b = Z.compare d1 (d2 + h2).
Proof.
  intros H1 H2 Ea Eb La Lb.
  apply int_arith_value in H1 as (x1 & y1 & X1 & [Y1|Y1] & R1); [discriminate|].
  apply int_arith_value in H2 as (x2 & y2 & X2 & [Y2|Y2] & R2); [discriminate|].
  simpl in X1, Y1, X2, Y2. injection X1 as <-. injection Y1 as <-. injection X2 as <-. injection Y2 as <-.
  rewrite (computed_int_keys_order a b ra rb _ _ Ea Eb La Lb R1 R2). simpl. f_equal. lia.
Qed.

(* ---------- windows (LIMIT / OFFSET above ORDER BY) and DISTINCT keep the order ---------- *)
Lemma forallb_firstn {A} (f : A -> bool) n l : forallb f l = true -> forallb f (firstn n l) = true.
Proof.
  revert l; induction n; intros [|x l]; simpl; auto. intros H. apply andb_prop in H as [-> H]. simpl. auto.
Qed.
Lemma all_pairs_le_firstn {A} (leb : A -> A -> bool) n l :
  all_pairs_le leb l = true -> all_pairs_le leb (firstn n l) = true.
Proof.
  revert l; induction n; intros [|x l]; simpl; auto. intros H. apply andb_prop in H as [H1 H2].
  rewrite forallb_firstn by assumption. simpl. auto.
Qed.
Lemma all_pairs_le_skipn {A} (leb : A -> A -> bool) n l :
  all_pairs_le leb l = true -> all_pairs_le leb (skipn n l) = true.
Proof.
  revert l; induction n; intros [|x l]; simpl; auto. intros H. apply andb_prop in H as [_ H]. auto.
Qed.
Theorem window_sorted descs start len rs :
  sorted_ok descs rs = true -> sorted_ok descs (window start len rs) = true.
Proof.
  unfold sorted_ok, window. intros H. destruct len.
  - apply all_pairs_le_firstn, all_pairs_le_skipn, H.
  - apply all_pairs_le_skipn, H.
Qed.
Lemma rows_at_window rows start len out :
  rows_at rows (window start len out) = window start len (rows_at rows out).
Proof.
  unfold rows_at, window. destruct len; rewrite ?skipn_map, ?firstn_map; reflexivity.
Qed.
(* the window of an accepted complete result is sorted for the model's comparator *)
Theorem window_of_sorted_result descs rows full start len :
  rows_ok descs rows full = true -> sorted_ok descs (rows_at rows (window start len full)) = true.
Proof.
  unfold rows_ok. intros H. apply andb_prop in H as [_ H].
  rewrite rows_at_window. apply window_sorted. exact H.
Qed.
Theorem window_length {A} start len (l : list A) :
  List.length (window start len l) =
  let rest := (List.length l - N.to_nat start)%nat in
  match len with Some n => Nat.min (N.to_nat n) rest | None => rest end.
Proof.
  unfold window. destruct len; simpl; rewrite ?firstn_length, skipn_length; reflexivity.
Qed.
(* removing solutions from a sorted sequence (DISTINCT, FILTER above the sort) keeps it sorted *)
Lemma forallb_filter {A} (f g : A -> bool) l : forallb f l = true -> forallb f (filter g l) = true.
Proof.
  induction l as [|x l IH]; simpl; auto. intros H. apply andb_prop in H as [H1 H2].
  destruct (g x); simpl; rewrite ?H1; auto.
Qed.
Theorem filter_sorted descs (keep : row -> bool) rs :
  sorted_ok descs rs = true -> sorted_ok descs (filter keep rs) = true.
Proof.
  unfold sorted_ok. induction rs as [|x l IH]; simpl; auto. intros H. apply andb_prop in H as [H1 H2].
  destruct (keep x); simpl; auto. rewrite forallb_filter by assumption. simpl. auto.
Qed.
