(* C08/Eval.v -- interpretation of a regular expression in an arbitrary Kleene algebra
   (RelationAlgebra's monoid.ops), so that `ka` can be applied to generated terms. *)
From RelationAlgebra Require Import lattice monoid kleene kat_tac.
From Sophia.C08 Require Import Regex.

Section ev.
  Context {X : monoid.ops} {A : Type} (n : ob X) (f : A -> X n n).
  Fixpoint eval (r : rex A) : X n n :=
    match r with
    | Emp => 0
    | Eps => 1
    | Lf a => f a
    | Alt r s => eval r + eval s
    | Cat r s => eval r ⋅ eval s
    | Star r => (eval r)^*
    end.
End ev.

(* the simplifying constructors of the matcher preserve the interpretation, in every Kleene algebra *)
Section laws.
  Context `{L : monoid.laws} `{Hl : BKA ≪ l} {A : Type} (n : ob X) (f : A -> X n n).
  Lemma eval_mk_alt (r s : rex A) : eval n f (mk_alt r s) ≡ eval n f r + eval n f s.
  Proof. destruct r, s; cbn [mk_alt eval]; ka. Qed.
  Lemma eval_mk_cat (r s : rex A) : eval n f (mk_cat r s) ≡ eval n f r ⋅ eval n f s.
  Proof. destruct r, s; cbn [mk_cat eval]; ka. Qed.
End laws.
