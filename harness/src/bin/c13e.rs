//! C13, expression layer: ArcExpression::eval / EvalResult / SparqlValue / SparqlNumber /
//! call_function of sophia_sparql, driven through the real engine
//!   SELECT ?r { <tag:s> <tag:pa> ?a . <tag:s> <tag:pb> ?b . <tag:s> <tag:pc> ?c  BIND(<expr> AS ?r) }
//!   ASK       { ... FILTER(<expr>) }
//! against (a) the Coq implementation model coq/C13/ExprImpl.v instantiated with ExprConcrete.v
//! (the case files evaluate `expr_ok XC the_cfg <expr> <mu> <bound term> <kept>`), and
//! (b) an independent oracle: SPARQL 1.1 section 17 written directly in Rust below (own lexical
//! mappings, own numeric tower over i128 / native IEEE floats, own dateTime reader).
//! Oracle disagreements are reported with a class prefix obtained by re-running the oracle with
//! each combination of the known deviations switched on.
//! `--probe` reads expressions from stdin and prints what the engine binds (replay of witnesses).
use sophia_api::prelude::*;
use sophia_api::sparql::{Query, SparqlDataset, SparqlResult};
use sophia_api::term::TermKind;
use sophia_inmem::dataset::LightDataset;
use sophia_sparql::*;
use std::collections::{BTreeMap, HashSet};
use verif_harness::*;

// ------------------------------------------------------------------------------------------
// terms
// ------------------------------------------------------------------------------------------
#[derive(Clone, PartialEq, Eq, PartialOrd, Ord, Debug, Hash)]
enum T { Iri(String), Bn(String), Lit(String, String), Lang(String, String), Tr(Box<[T; 3]>) }
const RDF_LANGSTRING: &str = "http://www.w3.org/1999/02/22-rdf-syntax-ns#langString";
fn x(local: &str) -> String { format!("{XSD}{local}") }
fn lit(lex: &str, local: &str) -> T { T::Lit(lex.into(), x(local)) }
impl T {
    fn to_st(&self) -> ST {
        match self {
            T::Iri(s) => iri(s), T::Bn(s) => bnode(s), T::Lit(l, d) => lit_dt(l, d), T::Lang(l, t) => lit_lang(l, t),
            T::Tr(b) => triple(b[0].to_st(), b[1].to_st(), b[2].to_st()),
        }
    }
    fn from_term<X: Term>(t: X) -> T {
        match t.kind() {
            TermKind::Iri => T::Iri(t.iri().unwrap().as_str().to_string()),
            TermKind::BlankNode => T::Bn(t.bnode_id().unwrap().as_str().to_string()),
            TermKind::Literal => match t.language_tag() {
                Some(tag) => T::Lang(t.lexical_form().unwrap().to_string(), tag.as_str().to_string()),
                None => T::Lit(t.lexical_form().unwrap().to_string(), t.datatype().unwrap().as_str().to_string()),
            },
            TermKind::Triple => { let [s, p, o] = t.triple().unwrap(); T::Tr(Box::new([T::from_term(s), T::from_term(p), T::from_term(o)])) }
            TermKind::Variable => T::Iri(format!("?var:{}", t.variable().unwrap().as_str())),
        }
    }
    fn coq(&self) -> String {
        match self {
            T::Iri(s) => format!("(Iri {})", coq_str(s)), T::Bn(s) => format!("(Bnode {})", coq_str(s)),
            T::Lit(l, d) => format!("(LitDt {} {})", coq_str(l), coq_str(d)), T::Lang(l, t) => format!("(LitLang {} {})", coq_str(l), coq_str(t)),
            T::Tr(b) => format!("(Triple {} {} {})", b[0].coq(), b[1].coq(), b[2].coq()),
        }
    }
    fn sparql(&self) -> String {
        match self {
            T::Iri(s) => format!("<{s}>"), T::Bn(s) => format!("_:{s}"), T::Lit(l, d) => format!("{l:?}^^<{d}>"), T::Lang(l, t) => format!("{l:?}@{t}"),
            T::Tr(b) => format!("<< {} {} {} >>", b[0].sparql(), b[1].sparql(), b[2].sparql()),
        }
    }
    fn show(&self) -> String { self.sparql().replace(XSD, "xsd:") }
    fn is_lit(&self) -> bool { matches!(self, T::Lit(..) | T::Lang(..)) }
    /// Term::eq: language tags compare without case
    fn same(&self, o: &T) -> bool {
        match (self, o) {
            (T::Lang(a, s), T::Lang(b, t)) => a == b && s.eq_ignore_ascii_case(t),
            (T::Tr(a), T::Tr(b)) => (0..3).all(|i| a[i].same(&b[i])),
            _ => self == o,
        }
    }
}

// ------------------------------------------------------------------------------------------
// expressions
// ------------------------------------------------------------------------------------------
#[derive(Clone, Copy, Debug, PartialEq, Eq)]
enum F1 { Str, Lang, Datatype, IsIri, IsBlank, IsLiteral, IsNumeric }
#[derive(Clone, Copy, Debug, PartialEq, Eq)]
enum B2 { Or, And, Eq, SameTerm, Gt, Ge, Lt, Le, Add, Sub, Mul, Div }
#[derive(Clone, Debug)]
enum E { Const(usize), Var(usize), Bound(usize), Not(Box<E>), Bin(B2, Box<E>, Box<E>), In(Box<E>, Vec<E>), Plus(Box<E>), Minus(Box<E>), If(Box<E>, Box<E>, Box<E>), Coalesce(Vec<E>), Fn(F1, Box<E>) }
const VARS: [&str; 4] = ["a", "b", "c", "u"]; // ?u is never bound
fn bx(e: E) -> Box<E> { Box::new(e) }
fn bin(o: B2, a: E, b: E) -> E { E::Bin(o, bx(a), bx(b)) }
impl E {
    /// SPARQL text, fully parenthesised (spargebra 0.3.5 parses `2-3-4` as `2-(3-4)`)
    fn sparql(&self, pool: &[T], r: &mut Rng) -> String {
        match self {
            E::Const(i) => pool[*i].sparql(),
            E::Var(v) => format!("?{}", VARS[*v]),
            E::Bound(v) => format!("BOUND(?{})", VARS[*v]),
            E::Not(a) => match &**a {
                E::Bin(B2::Eq, p, q) if r.chance(1, 2) => format!("({} != {})", p.sparql(pool, r), q.sparql(pool, r)),
                E::In(p, l) if r.chance(1, 2) => format!("({} NOT IN ({}))", p.sparql(pool, r), l.iter().map(|e| e.sparql(pool, r)).collect::<Vec<_>>().join(", ")),
                _ => format!("(!({}))", a.sparql(pool, r)),
            },
            E::Bin(o, a, b) => {
                let (a, b) = (a.sparql(pool, r), b.sparql(pool, r));
                match o { B2::SameTerm => format!("sameTerm({a}, {b})"),
                    _ => format!("({a} {} {b})", match o { B2::Or => "||", B2::And => "&&", B2::Eq => "=", B2::Gt => ">", B2::Ge => ">=", B2::Lt => "<", B2::Le => "<=", B2::Add => "+", B2::Sub => "-", B2::Mul => "*", B2::Div => "/", B2::SameTerm => unreachable!() }) }
            }
            E::In(a, l) => format!("({} IN ({}))", a.sparql(pool, r), l.iter().map(|e| e.sparql(pool, r)).collect::<Vec<_>>().join(", ")),
            E::Plus(a) => format!("(+({}))", a.sparql(pool, r)),
            E::Minus(a) => format!("(-({}))", a.sparql(pool, r)),
            E::If(c, t, e) => format!("IF({}, {}, {})", c.sparql(pool, r), t.sparql(pool, r), e.sparql(pool, r)),
            E::Coalesce(l) => format!("COALESCE({})", l.iter().map(|e| e.sparql(pool, r)).collect::<Vec<_>>().join(", ")),
            E::Fn(f, a) => format!("{}({})", match f { F1::Str => "STR", F1::Lang => "LANG", F1::Datatype => "DATATYPE", F1::IsIri => "isIRI", F1::IsBlank => "isBLANK", F1::IsLiteral => "isLITERAL", F1::IsNumeric => "isNUMERIC" }, a.sparql(pool, r)),
        }
    }
    fn coq(&self) -> String {
        let l = |v: &Vec<E>| coq_list(v.iter().map(|e| e.coq()));
        match self {
            E::Const(i) => format!("(EConst t{i})"),
            E::Var(v) => format!("(EVar {})", coq_str(VARS[*v])),
            E::Bound(v) => format!("(EBound {})", coq_str(VARS[*v])),
            E::Not(a) => format!("(ENot {})", a.coq()),
            E::Bin(o, a, b) => format!("({} {} {})", match o { B2::Or => "EOr", B2::And => "EAnd", B2::Eq => "EEq", B2::SameTerm => "ESameTerm", B2::Gt => "EGt", B2::Ge => "EGe", B2::Lt => "ELt", B2::Le => "ELe", B2::Add => "EAdd", B2::Sub => "ESub", B2::Mul => "EMul", B2::Div => "EDiv" }, a.coq(), b.coq()),
            E::In(a, v) => format!("(EIn {} {})", a.coq(), l(v)),
            E::Plus(a) => format!("(EPlus {})", a.coq()),
            E::Minus(a) => format!("(EMinus {})", a.coq()),
            E::If(c, t, e) => format!("(EIf {} {} {})", c.coq(), t.coq(), e.coq()),
            E::Coalesce(v) => format!("(ECoalesce {})", l(v)),
            E::Fn(f, a) => format!("(EFn {} {})", match f { F1::Str => "FStr", F1::Lang => "FLang", F1::Datatype => "FDatatype", F1::IsIri => "FIsIri", F1::IsBlank => "FIsBlank", F1::IsLiteral => "FIsLiteral", F1::IsNumeric => "FIsNumeric" }, a.coq()),
        }
    }
    fn size(&self) -> usize {
        match self { E::Const(_) | E::Var(_) | E::Bound(_) => 1, E::Not(a) | E::Plus(a) | E::Minus(a) | E::Fn(_, a) => 1 + a.size(), E::Bin(_, a, b) => 1 + a.size() + b.size(),
            E::In(a, l) => 1 + a.size() + l.iter().map(|e| e.size()).sum::<usize>(), E::If(c, t, e) => 1 + c.size() + t.size() + e.size(), E::Coalesce(l) => 1 + l.iter().map(|e| e.size()).sum::<usize>() }
    }
}

// ------------------------------------------------------------------------------------------
// the oracle: SPARQL 1.1 section 17
// ------------------------------------------------------------------------------------------
/// known deviations of the implementation; the SPECIFICATION is `Dv::default()`
#[derive(Clone, Copy, Default, Debug, PartialEq)]
struct Dv { if_noebv: bool, eq_ill: bool, nan_truthy: bool, ebv_illnum: bool, nan_cmp: bool, lex: bool, dec_sci: bool, inf_lex: bool, in_first: bool, unsigned_m0: bool }
const DV_NAMES: [&str; 10] = ["IF-NOEBV", "EQ-ILLFORMED", "FLOAT-NAN-EBV", "EBV-ILLFORMED-NUMERIC", "NAN-COMPARE", "LEXICAL-SPACE", "DECIMAL-SCI-OUTPUT", "INF-OUTPUT", "IN-FIRST-ERROR", "UNSIGNED-MINUS-ZERO"];
fn dv_of(mask: u32) -> Dv { let b = |i: u32| mask & (1 << i) != 0; Dv { if_noebv: b(0), eq_ill: b(1), nan_truthy: b(2), ebv_illnum: b(3), nan_cmp: b(4), lex: b(5), dec_sci: b(6), inf_lex: b(7), in_first: b(8), unsigned_m0: b(9) } }

#[derive(Clone, Copy, Debug, PartialEq)]
enum Num { I(i128), D(i128, u32), F(f32), Db(f64) }
#[derive(Clone, Debug, PartialEq)]
enum R { T(T), N(Num), B(bool), StrOfNum(Num) }
#[derive(Clone, Copy, Debug, PartialEq)]
enum Er { Type, Unknown } // a SPARQL error / the oracle cannot tell (i128 overflow, open lexical form, inexact decimal division)
type Res = Result<R, Er>;
type Dt = (i128, Option<i64>);
#[derive(Clone, Debug, PartialEq)]
enum K { Num(Num), BadNum, HugeNum, Str(String), Lang(String, String), Bool(bool), BadBool, DT(Dt), BadDT, OtherLit, Iri, Blank, Other }

fn dnorm(mut m: i128, mut s: u32) -> Num { if m == 0 { return Num::D(0, 0) } while s > 0 && m % 10 == 0 { m /= 10; s -= 1 } Num::D(m, s) }
fn all_digits(s: &str) -> bool { s.bytes().all(|b| b.is_ascii_digit()) }
fn unsign(s: &str) -> (bool, &str) { if let Some(r) = s.strip_prefix('-') { (true, r) } else if let Some(r) = s.strip_prefix('+') { (false, r) } else { (false, s) } }
/// what num_bigint's BigInt::from_str accepts (only used to CLASSIFY a deviation): underscores after the first digit
fn bigint_lenient(s: &str) -> Option<Option<i128>> {
    let (neg, body) = if let Some(t) = s.strip_prefix('-') { if t.starts_with('+') { return None } (true, t) } else if let Some(t) = s.strip_prefix('+') { if t.starts_with('+') { return None } (false, t) } else { (false, s) };
    if body.is_empty() || body.starts_with('_') || !body.bytes().all(|b| b.is_ascii_digit() || b == b'_') { return None }
    Some(body.replace('_', "").parse::<i128>().ok().map(|v| if neg { -v } else { v }))
}
/// XSD integer: Some(None) = in the lexical space but too big for the oracle
fn xsd_integer(lex: &str, dv: &Dv) -> Option<Option<i128>> {
    if dv.lex { return bigint_lenient(lex) }
    let (neg, d) = unsign(lex);
    if d.is_empty() || !all_digits(d) { return None }
    Some(d.parse::<i128>().ok().map(|v| if neg { -v } else { v }))
}
fn mk_dec(m: i128, sc: i64) -> Option<Num> {
    if sc >= 0 { if sc > 60 { return None } Some(dnorm(m, sc as u32)) }
    else { if -sc > 30 { return None } 10i128.checked_pow((-sc) as u32).and_then(|p| m.checked_mul(p)).map(|v| Num::D(v, 0)) }
}
fn xsd_decimal(lex: &str, dv: &Dv) -> Option<Option<Num>> {
    if dv.lex { // what bigdecimal's BigDecimal::from_str accepts (only used to CLASSIFY a deviation)
        let (base, ex) = match lex.find(['e', 'E']) { Some(p) => { let e = &lex[p + 1..]; let d = unsign(e).1; if d.is_empty() || !all_digits(d) { return None } (&lex[..p], e.parse::<i64>().ok()?) } None => (lex, 0) };
        if base.is_empty() { return None }
        let (digits, off) = match base.find('.') { None => (base.to_string(), 0), Some(p) if p == base.len() - 1 => (base[..p].to_string(), 0),
            Some(p) => (format!("{}{}", &base[..p], &base[p + 1..]), base[p + 1..].chars().filter(|c| *c != '_').count() as i64) };
        return match bigint_lenient(&digits)? { None => Some(None), Some(m) => Some(mk_dec(m, off - ex)) };
    }
    let (neg, d) = unsign(lex);
    let (i, f) = match d.split_once('.') { Some((i, f)) => (i, f), None => (d, "") };
    if (i.is_empty() && f.is_empty()) || !all_digits(i) || !all_digits(f) { return None }
    let Ok(m) = format!("{i}{f}").parse::<i128>() else { return Some(None) };
    Some(mk_dec(if neg { -m } else { m }, f.len() as i64))
}
fn xsd_float_syntax(lex: &str, dv: &Dv) -> bool {
    if matches!(lex, "INF" | "+INF" | "-INF" | "NaN") { return true }
    if dv.lex { let l = unsign(lex).1.to_ascii_lowercase(); if l == "inf" || l == "infinity" || l == "nan" { return true } }
    let (_, d) = unsign(lex);
    let (m, e) = match d.find(['e', 'E']) { Some(p) => (&d[..p], Some(&d[p + 1..])), None => (d, None) };
    let (i, f) = match m.split_once('.') { Some((i, f)) => (i, f), None => (m, "") };
    if (i.is_empty() && f.is_empty()) || !all_digits(i) || !all_digits(f) { return false }
    match e { None => true, Some(e) => { let e = unsign(e).1; !e.is_empty() && all_digits(e) } }
}
fn days_from_civil(y: i128, m: i128, d: i128) -> i128 {
    let y = if m <= 2 { y - 1 } else { y };
    let era = y.div_euclid(400); let yoe = y - era * 400;
    let mp = (m + 9) % 12; let doy = (153 * mp + 2) / 5 + d - 1;
    era * 146097 + yoe * 365 + yoe / 4 - yoe / 100 + doy
}
fn xsd_datetime(lex: &str) -> Option<Dt> {
    if !lex.is_ascii() { return None }
    let b = lex.as_bytes();
    let (neg, mut i) = if b.first() == Some(&b'-') { (true, 1) } else { (false, 0) };
    let st = i; while i < b.len() && b[i].is_ascii_digit() { i += 1 }
    if i - st < 4 || i - st > 6 { return None }
    let y: i128 = lex[st..i].parse().ok()?; let y = if neg { -y } else { y };
    let two = |i: usize| -> Option<i128> { if i + 2 <= b.len() && b[i].is_ascii_digit() && b[i + 1].is_ascii_digit() { lex[i..i + 2].parse().ok() } else { None } };
    let lit = |i: usize, c: u8| -> Option<()> { if b.get(i) == Some(&c) { Some(()) } else { None } };
    lit(i, b'-')?; let mo = two(i + 1)?; lit(i + 3, b'-')?; let d = two(i + 4)?; lit(i + 6, b'T')?; let h = two(i + 7)?; lit(i + 9, b':')?; let mi = two(i + 10)?; lit(i + 12, b':')?; let se = two(i + 13)?;
    i += 15;
    let mut nano: i128 = 0;
    if b.get(i) == Some(&b'.') { let st = i + 1; i = st; while i < b.len() && b[i].is_ascii_digit() { i += 1 } if i == st || i - st > 9 { return None } nano = lex[st..i].parse::<i128>().ok()? * 10i128.pow(9 - (i - st) as u32); }
    let tz = match &lex[i..] { "" => None, "Z" => Some(0), z => { let zb = z.as_bytes(); if zb.len() != 6 || zb[3] != b':' || !(zb[0] == b'+' || zb[0] == b'-') { return None }
        if !all_digits(&z[1..3]) || !all_digits(&z[4..6]) { return None }
        let hh: i64 = z[1..3].parse().ok()?; let mm: i64 = z[4..6].parse().ok()?; if hh > 14 || mm > 59 || (hh == 14 && mm > 0) { return None } Some((if zb[0] == b'-' { -1 } else { 1 }) * (hh * 3600 + mm * 60)) } };
    let leap = (y % 4 == 0 && y % 100 != 0) || y % 400 == 0;
    let dim = match mo { 2 => if leap { 29 } else { 28 }, 4 | 6 | 9 | 11 => 30, 1..=12 => 31, _ => return None };
    if d < 1 || d > dim { return None }
    let day = days_from_civil(y, mo, d);
    let secs = if h < 24 && mi < 60 && se < 60 { day * 86400 + h * 3600 + mi * 60 + se } else if h == 24 && mi == 0 && se == 0 && nano == 0 { (day + 1) * 86400 } else { return None };
    let local = secs * 1_000_000_000 + nano;
    Some(match tz { None => (local, None), Some(off) => (local - off as i128 * 1_000_000_000, Some(off)) })
}
/// XSD 3.2.7.4 (no implicit timezone): None = indeterminate
fn dt_cmp(a: &Dt, b: &Dt) -> Option<std::cmp::Ordering> {
    use std::cmp::Ordering::*;
    const H14: i128 = 14 * 3600 * 1_000_000_000;
    match (a.1.is_some(), b.1.is_some()) {
        (true, true) | (false, false) => Some(a.0.cmp(&b.0)),
        (true, false) => if a.0 < b.0 - H14 { Some(Less) } else if a.0 > b.0 + H14 { Some(Greater) } else { None },
        (false, true) => if b.0 < a.0 - H14 { Some(Greater) } else if b.0 > a.0 + H14 { Some(Less) } else { None },
    }
}
fn int_range(local: &str) -> Option<(Option<i128>, Option<i128>)> {
    Some(match local {
        "nonPositiveInteger" => (None, Some(0)), "negativeInteger" => (None, Some(-1)), "long" => (Some(i64::MIN as i128), Some(i64::MAX as i128)), "int" => (Some(i32::MIN as i128), Some(i32::MAX as i128)),
        "short" => (Some(-32768), Some(32767)), "byte" => (Some(-128), Some(127)), "nonNegativeInteger" => (Some(0), None), "unsignedLong" => (Some(0), Some(u64::MAX as i128)),
        "unsignedInt" => (Some(0), Some(u32::MAX as i128)), "unsignedShort" => (Some(0), Some(65535)), "unsignedByte" => (Some(0), Some(255)), "positiveInteger" => (Some(1), None), _ => return None,
    })
}
fn classify(t: &T, dv: &Dv) -> K {
    match t {
        T::Iri(_) => K::Iri, T::Bn(_) => K::Blank, T::Tr(_) => K::Other, T::Lang(l, tag) => K::Lang(l.clone(), tag.clone()),
        T::Lit(lex, dt) => {
            let Some(local) = dt.strip_prefix(XSD) else { return K::OtherLit };
            let of = |o: Option<Option<Num>>| match o { None => K::BadNum, Some(None) => K::HugeNum, Some(Some(n)) => K::Num(n) };
            match local {
                "integer" => of(xsd_integer(lex, dv).map(|o| o.map(Num::I))),
                "decimal" => of(xsd_decimal(lex, dv)),
                "float" => if xsd_float_syntax(lex, dv) { lex.parse::<f32>().map(|f| K::Num(Num::F(f))).unwrap_or(K::BadNum) } else { K::BadNum },
                "double" => if xsd_float_syntax(lex, dv) { lex.parse::<f64>().map(|f| K::Num(Num::Db(f))).unwrap_or(K::BadNum) } else { K::BadNum },
                "string" => K::Str(lex.clone()),
                "boolean" => match lex.as_str() { "true" | "1" => K::Bool(true), "false" | "0" => K::Bool(false), _ => K::BadBool },
                "dateTime" => xsd_datetime(lex).map(K::DT).unwrap_or(K::BadDT),
                _ => match int_range(local) {
                    None => K::OtherLit,
                    Some((lo, hi)) => {
                        // only the unbounded types go through BigInt's lenient parser
                        let d = Dv { lex: dv.lex && (lo.is_none() || hi.is_none()), ..*dv };
                        if dv.unsigned_m0 && local.starts_with("unsigned") && lex.starts_with('-') { return K::BadNum }
                        match xsd_integer(lex, &d) { None => K::BadNum, Some(None) => if hi.is_some() && lo.is_some() { K::BadNum } else { K::HugeNum },
                            Some(Some(v)) => if lo.is_none_or(|l| l <= v) && hi.is_none_or(|h| v <= h) { K::Num(Num::I(v)) } else { K::BadNum } }
                    }
                },
            }
        }
    }
}
fn rank(n: &Num) -> u8 { match n { Num::I(_) => 0, Num::D(..) => 1, Num::F(_) => 2, Num::Db(_) => 3 } }
fn to_dec(n: &Num) -> (i128, u32) { match n { Num::I(v) => (*v, 0), Num::D(m, s) => (*m, *s), _ => unreachable!() } }
fn dec_str(m: i128, s: u32) -> String { format!("{m}e-{s}") }
fn to_f32(n: &Num) -> f32 { match n { Num::I(v) => *v as f32, Num::D(m, s) => dec_str(*m, *s).parse().unwrap(), Num::F(f) => *f, Num::Db(d) => *d as f32 } }
fn to_f64(n: &Num) -> f64 { match n { Num::I(v) => *v as f64, Num::D(m, s) => dec_str(*m, *s).parse().unwrap(), Num::F(f) => *f as f64, Num::Db(d) => *d } }
fn align(a: (i128, u32), b: (i128, u32)) -> Option<(i128, i128, u32)> {
    let s = a.1.max(b.1);
    Some((a.0.checked_mul(10i128.checked_pow(s - a.1)?)?, b.0.checked_mul(10i128.checked_pow(s - b.1)?)?, s))
}
fn arith(op: B2, a: &Num, b: &Num) -> Result<Num, Er> {
    let u = Er::Unknown;
    match rank(a).max(rank(b)) {
        0 => { let (Num::I(x), Num::I(y)) = (a, b) else { unreachable!() };
            match op { B2::Add => x.checked_add(*y).map(Num::I).ok_or(u), B2::Sub => x.checked_sub(*y).map(Num::I).ok_or(u), B2::Mul => x.checked_mul(*y).map(Num::I).ok_or(u),
                _ => if *y == 0 { Err(Er::Type) } else { dec_div((*x, 0), (*y, 0)) } } }
        1 => { let (x, y) = (to_dec(a), to_dec(b));
            match op { B2::Add => { let (p, q, s) = align(x, y).ok_or(u)?; p.checked_add(q).map(|m| dnorm(m, s)).ok_or(u) }
                B2::Sub => { let (p, q, s) = align(x, y).ok_or(u)?; p.checked_sub(q).map(|m| dnorm(m, s)).ok_or(u) }
                B2::Mul => x.0.checked_mul(y.0).map(|m| dnorm(m, x.1 + y.1)).ok_or(u),
                _ => if y.0 == 0 { Err(Er::Type) } else { dec_div(x, y) } } }
        2 => { let (x, y) = (to_f32(a), to_f32(b)); Ok(Num::F(match op { B2::Add => x + y, B2::Sub => x - y, B2::Mul => x * y, _ => x / y })) }
        _ => { let (x, y) = (to_f64(a), to_f64(b)); Ok(Num::Db(match op { B2::Add => x + y, B2::Sub => x - y, B2::Mul => x * y, _ => x / y })) }
    }
}
/// exact quotient when it terminates within a few dozen fractional digits, else the oracle cannot tell
fn dec_div(x: (i128, u32), y: (i128, u32)) -> Result<Num, Er> {
    let (mut n, d) = (x.0, y.0); let mut s = x.1 as i64 - y.1 as i64;
    for _ in 0..40 { if s >= 0 && n % d == 0 { return Ok(dnorm(n / d, s as u32)) } n = n.checked_mul(10).ok_or(Er::Unknown)?; s += 1; }
    Err(Er::Unknown)
}
fn num_cmp(a: &Num, b: &Num) -> Result<Option<std::cmp::Ordering>, Er> {
    Ok(match rank(a).max(rank(b)) {
        0 | 1 => { let (p, q, _) = align(to_dec(a), to_dec(b)).ok_or(Er::Unknown)?; Some(p.cmp(&q)) }
        2 => to_f32(a).partial_cmp(&to_f32(b)),
        _ => to_f64(a).partial_cmp(&to_f64(b)),
    })
}
fn num_dt(n: &Num) -> String { x(match n { Num::I(_) => "integer", Num::D(..) => "decimal", Num::F(_) => "float", Num::Db(_) => "double" }) }
fn class_of(r: &R, dv: &Dv) -> K { match r { R::T(t) => classify(t, dv), R::N(n) => K::Num(*n), R::B(b) => K::Bool(*b), R::StrOfNum(_) => K::Str("?".into()) } }
fn ebv(r: &R, dv: &Dv) -> Result<bool, Er> {
    if let R::StrOfNum(_) = r { return Ok(true) } // every lexical form of a number is non-empty
    match class_of(r, dv) {
        K::Bool(b) => Ok(b), K::BadBool => Ok(false), K::BadNum => if dv.ebv_illnum { Err(Er::Type) } else { Ok(false) },
        K::Str(s) | K::Lang(s, _) => Ok(!s.is_empty()),
        K::Num(n) => Ok(match n { Num::I(v) => v != 0, Num::D(m, _) => m != 0, Num::F(f) => f != 0.0 && (dv.nan_truthy || !f.is_nan()), Num::Db(d) => d != 0.0 && !d.is_nan() }),
        K::HugeNum => Ok(true),
        _ => Err(Er::Type),
    }
}
/// the RDF term of a result, when it does not depend on an open lexical form
fn term_of(r: &R) -> Option<T> { match r { R::T(t) => Some(t.clone()), R::B(b) => Some(lit(if *b { "true" } else { "false" }, "boolean")), _ => None } }
fn rdfterm_equal(a: &R, b: &R, dv: &Dv) -> Result<bool, Er> {
    match (term_of(a), term_of(b)) {
        (Some(s), Some(o)) => if s.same(&o) { Ok(true) } else if s.is_lit() && o.is_lit() { Err(Er::Type) } else { Ok(false) },
        // a computed number (valid lexical form, numeric datatype) against something that is not a numeric value
        (s, o) => match s.or(o) { None => Err(Er::Unknown), Some(t) => match classify(&t, dv) {
            K::Iri | K::Blank | K::Other => Ok(false),
            K::HugeNum => Err(Er::Unknown),
            _ => Err(Er::Type) } }, // incl. ill-formed numbers: a computed number always has a valid lexical form
    }
}
fn eq(a: &R, b: &R, dv: &Dv) -> Result<bool, Er> {
    if matches!(a, R::StrOfNum(_)) || matches!(b, R::StrOfNum(_)) { return Err(Er::Unknown) }
    match (class_of(a, dv), class_of(b, dv)) {
        (K::Num(x), K::Num(y)) => Ok(num_cmp(&x, &y)? == Some(std::cmp::Ordering::Equal)),
        (K::HugeNum, K::Num(_) | K::HugeNum) | (K::Num(_), K::HugeNum) => Err(Er::Unknown),
        (K::Str(s1), K::Str(s2)) => Ok(s1 == s2),
        (K::Bool(x), K::Bool(y)) => Ok(x == y),
        (K::DT(x), K::DT(y)) => match dt_cmp(&x, &y) { Some(o) => Ok(o.is_eq()), None => rdfterm_equal(a, b, dv) },
        (K::Lang(s1, t1), K::Lang(s2, t2)) => Ok(s1 == s2 && t1.eq_ignore_ascii_case(&t2)), // 17.3.1 extension: values known to differ
        (K::BadBool, K::BadBool) if dv.eq_ill => Ok(true),
        (K::BadBool, K::Bool(_)) | (K::Bool(_), K::BadBool) if dv.eq_ill => Ok(false),
        (K::BadDT, K::BadDT) if dv.eq_ill => Ok(true),
        (K::BadDT, K::DT(_)) | (K::DT(_), K::BadDT) if dv.eq_ill => Ok(false),
        _ => rdfterm_equal(a, b, dv),
    }
}
fn rel(op: B2, a: &R, b: &R, dv: &Dv) -> Result<bool, Er> {
    use std::cmp::Ordering::*;
    if matches!(a, R::StrOfNum(_)) || matches!(b, R::StrOfNum(_)) { return Err(Er::Unknown) }
    let pred = |o: std::cmp::Ordering| match op { B2::Gt => o == Greater, B2::Ge => o != Less, B2::Lt => o == Less, _ => o != Greater };
    match (class_of(a, dv), class_of(b, dv)) {
        (K::Num(x), K::Num(y)) => match num_cmp(&x, &y)? { Some(o) => Ok(pred(o)), None => if dv.nan_cmp { Err(Er::Type) } else { Ok(false) } },
        (K::HugeNum, K::Num(_) | K::HugeNum) | (K::Num(_), K::HugeNum) => Err(Er::Unknown),
        (K::Str(s1), K::Str(s2)) => Ok(pred(s1.chars().cmp(s2.chars()))),
        (K::Bool(x), K::Bool(y)) => Ok(pred(Ord::cmp(&x, &y))),
        (K::DT(x), K::DT(y)) => dt_cmp(&x, &y).map(pred).ok_or(Er::Type),
        // 17.3.1 extensions of sophia (a type error replaced by a value)
        (K::Lang(s1, t1), K::Lang(s2, t2)) => Ok(pred(t1.to_ascii_lowercase().cmp(&t2.to_ascii_lowercase()).then(s1.chars().cmp(s2.chars())))),
        (K::BadNum | K::OtherLit, K::BadNum | K::OtherLit) => match (term_of(a), term_of(b)) { (Some(s), Some(o)) if s.same(&o) => Ok(pred(Equal)), _ => Err(Er::Type) },
        _ => Err(Er::Type),
    }
}
fn or3(a: Result<bool, Er>, b: Result<bool, Er>) -> Result<bool, Er> {
    match (a, b) { (Ok(x), Ok(y)) => Ok(x || y), (Ok(true), _) | (_, Ok(true)) => Ok(true), (Err(Er::Unknown), _) | (_, Err(Er::Unknown)) => Err(Er::Unknown), _ => Err(Er::Type) }
}
fn and3(a: Result<bool, Er>, b: Result<bool, Er>) -> Result<bool, Er> {
    match (a, b) { (Ok(x), Ok(y)) => Ok(x && y), (Ok(false), _) | (_, Ok(false)) => Ok(false), (Err(Er::Unknown), _) | (_, Err(Er::Unknown)) => Err(Er::Unknown), _ => Err(Er::Type) }
}
fn num_of(r: &R, dv: &Dv) -> Result<Num, Er> { match class_of(r, dv) { K::Num(n) if !matches!(r, R::StrOfNum(_)) => Ok(n), K::HugeNum => Err(Er::Unknown), _ => Err(Er::Type) } }
fn eval(e: &E, pool: &[T], mu: &[Option<usize>; 4], dv: &Dv) -> Res {
    let ev = |e: &E| eval(e, pool, mu, dv);
    match e {
        E::Const(i) => Ok(R::T(pool[*i].clone())),
        E::Var(v) => mu[*v].map(|i| R::T(pool[i].clone())).ok_or(Er::Type),
        E::Bound(v) => Ok(R::B(mu[*v].is_some())),
        E::Not(a) => Ok(R::B(!ebv(&ev(a)?, dv)?)),
        E::Bin(B2::Or, a, b) => or3(ev(a).and_then(|r| ebv(&r, dv)), ev(b).and_then(|r| ebv(&r, dv))).map(R::B),
        E::Bin(B2::And, a, b) => and3(ev(a).and_then(|r| ebv(&r, dv)), ev(b).and_then(|r| ebv(&r, dv))).map(R::B),
        E::Bin(o, a, b) => {
            // an error in either operand is an error; Unknown only matters if no operand is a definite error
            let (a, b) = match (ev(a), ev(b)) { (Err(Er::Type), _) | (_, Err(Er::Type)) => return Err(Er::Type), (a, b) => (a?, b?) };
            match o {
                B2::Eq => eq(&a, &b, dv).map(R::B),
                B2::SameTerm => match (term_of(&a), term_of(&b)) {
                    (Some(s), Some(t)) => Ok(R::B(s.same(&t))),
                    // a computed number or STR(number) against a term: decided only if the datatypes differ
                    (s, t) => match s.or(t) { Some(T::Lit(_, d)) => { let other = if term_of(&a).is_none() { &a } else { &b }; let dt = match other { R::N(n) => num_dt(n), _ => x("string") }; if d != dt { Ok(R::B(false)) } else { Err(Er::Unknown) } } Some(_) => Ok(R::B(false)), None => Err(Er::Unknown) },
                },
                B2::Gt | B2::Ge | B2::Lt | B2::Le => rel(*o, &a, &b, dv).map(R::B),
                _ => { let (x, y) = match (num_of(&a, dv), num_of(&b, dv)) { (Err(Er::Type), _) | (_, Err(Er::Type)) => return Err(Er::Type), (x, y) => (x?, y?) }; arith(*o, &x, &y).map(R::N) }
            }
        }
        E::In(a, l) => {
            let x = ev(a)?;
            if dv.in_first {
                for e in l { match ev(e).and_then(|o| eq(&x, &o, dv)) { Ok(false) => continue, Ok(true) => return Ok(R::B(true)), Err(e) => return Err(e) } }
                Ok(R::B(false))
            } else { l.iter().rev().fold(Ok(false), |acc, e| or3(ev(e).and_then(|o| eq(&x, &o, dv)), acc)).map(R::B) }
        }
        E::Plus(a) => num_of(&ev(a)?, dv).map(R::N),
        E::Minus(a) => num_of(&ev(a)?, dv).and_then(|n| Ok(R::N(match n { Num::I(v) => Num::I(v.checked_neg().ok_or(Er::Unknown)?), Num::D(m, s) => Num::D(-m, s), Num::F(f) => Num::F(-f), Num::Db(d) => Num::Db(-d) }))),
        E::If(c, t, f) => match ev(c).and_then(|r| ebv(&r, dv)) { Ok(true) => ev(t), Ok(false) => ev(f), Err(Er::Unknown) => Err(Er::Unknown),
            Err(Er::Type) => if dv.if_noebv && ev(c).is_ok() { ev(f) } else { Err(Er::Type) } },
        E::Coalesce(l) => { for e in l { match ev(e) { Ok(r) => return Ok(r), Err(Er::Unknown) => return Err(Er::Unknown), Err(Er::Type) => {} } } Err(Er::Type) }
        E::Fn(f, a) => {
            let r = ev(a)?;
            let kind = match &r { R::T(T::Iri(_)) => 0, R::T(T::Bn(_)) => 1, R::T(T::Tr(_)) => 3, _ => 2 };
            match f {
                F1::Str => match &r { R::T(T::Iri(i)) => Ok(R::T(lit(i, "string"))), R::T(T::Lit(l, _)) | R::T(T::Lang(l, _)) => Ok(R::T(lit(l, "string"))), R::B(b) => Ok(R::T(lit(if *b { "true" } else { "false" }, "string"))),
                    R::N(n) => Ok(R::StrOfNum(*n)), R::StrOfNum(_) => Ok(r.clone()), _ => Err(Er::Type) },
                F1::Lang => match &r { R::T(T::Lang(_, t)) => Ok(R::T(lit(t, "string"))), _ if kind == 2 => Ok(R::T(lit("", "string"))), _ => Err(Er::Type) },
                F1::Datatype => match &r { R::T(T::Lit(_, d)) => Ok(R::T(T::Iri(d.clone()))), R::T(T::Lang(..)) => Ok(R::T(T::Iri(RDF_LANGSTRING.into()))), R::N(n) => Ok(R::T(T::Iri(num_dt(n)))), R::B(_) => Ok(R::T(T::Iri(x("boolean")))), R::StrOfNum(_) => Ok(R::T(T::Iri(x("string")))), _ => Err(Er::Type) },
                F1::IsIri => Ok(R::B(kind == 0)), F1::IsBlank => Ok(R::B(kind == 1)), F1::IsLiteral => Ok(R::B(kind == 2)),
                F1::IsNumeric => Ok(R::B(!matches!(r, R::StrOfNum(_)) && matches!(class_of(&r, dv), K::Num(_) | K::HugeNum))),
            }
        }
    }
}
/// does the engine's answer (bound term or unbound, FILTER kept or not) agree with the oracle's?
/// None = the oracle cannot tell
fn agrees(o: &Res, bound: &Option<T>, kept: bool, dv: &Dv) -> Option<bool> {
    // Some(false) = definitely not the expected literal; None = the oracle cannot read the engine's literal (beyond i128)
    let num_matches = |n: &Num, t: &T, want_dt: &str| -> Option<bool> {
        let T::Lit(lex, dt) = t else { return Some(false) };
        if dt != want_dt { return Some(false) }
        let strict = Dv::default();
        let inf_ok = dv.inf_lex && matches!(lex.as_str(), "inf" | "-inf");
        Some(match n {
            Num::I(v) => match xsd_integer(lex, &strict) { Some(None) => return None, r => r == Some(Some(*v)) },
            Num::D(m, s) => { let lenient = Dv { lex: dv.dec_sci, ..strict }; match xsd_decimal(lex, &lenient) { Some(None) => return None, r => r == Some(Some(Num::D(*m, *s))) } }
            Num::F(f) => (xsd_float_syntax(lex, &strict) || inf_ok) && lex.parse::<f32>().is_ok_and(|g| g.to_bits() == f.to_bits() || (g.is_nan() && f.is_nan())),
            Num::Db(f) => (xsd_float_syntax(lex, &strict) || inf_ok) && lex.parse::<f64>().is_ok_and(|g| g.to_bits() == f.to_bits() || (g.is_nan() && f.is_nan())),
        })
    };
    let (bind_ok, keep) = match o {
        Err(Er::Unknown) => return None,
        Err(Er::Type) => (bound.is_none(), Ok(false)),
        Ok(r) => (match (r, bound) {
            (_, None) => false,
            (R::T(t), Some(b)) => t.same(b),
            (R::B(v), Some(b)) => *b == lit(if *v { "true" } else { "false" }, "boolean"),
            (R::N(n), Some(b)) => num_matches(n, b, &num_dt(n))?,
            (R::StrOfNum(n), Some(b)) => num_matches(n, &match b { T::Lit(l, d) if *d == x("string") => T::Lit(l.clone(), num_dt(n)), _ => T::Iri(String::new()) }, &num_dt(n))?,
        }, ebv(r, dv)),
    };
    match keep { Err(Er::Unknown) => None, k => Some(bind_ok && kept == (k == Ok(true))) }
}

// ------------------------------------------------------------------------------------------
// the engine
// ------------------------------------------------------------------------------------------
#[derive(Debug, Clone, PartialEq)]
enum Obs { Bound(Option<T>), Kept(bool), Err(String), Panic(String), Parse(String) }
fn run_engine(d: &LightDataset, q: &str) -> Obs {
    let parsed = match SparqlQuery::<LightDataset>::parse(q) { Ok(p) => p, Err(e) => return Obs::Parse(e.to_string()) };
    let r = std::panic::catch_unwind(std::panic::AssertUnwindSafe(|| match SparqlWrapper(d).query(&parsed) {
        Err(e) => Obs::Err(e.to_string()),
        Ok(SparqlResult::Boolean(b)) => Obs::Kept(b),
        Ok(SparqlResult::Bindings(b)) => {
            let rows: Vec<_> = b.into_iter().collect();
            if rows.len() != 1 { return Obs::Err(format!("{} rows", rows.len())) }
            match &rows[0] { Ok(r) => Obs::Bound(r[0].as_ref().map(|t| T::from_term(t.borrow_term()))), Err(e) => Obs::Err(format!("row error: {e}")) }
        }
        Ok(_) => Obs::Err("unexpected result kind".into()),
    }));
    match r { Ok(o) => o, Err(p) => Obs::Panic(p.downcast_ref::<String>().cloned().or(p.downcast_ref::<&str>().map(|s| s.to_string())).unwrap_or_default()) }
}
fn dataset_for(pool: &[T], mu: &[Option<usize>; 4]) -> (LightDataset, String) {
    let mut d = LightDataset::new(); let mut bgp = String::new();
    for v in 0..3 { if let Some(i) = mu[v] { d.insert(&iri("tag:s"), &iri(&format!("tag:p{}", VARS[v])), &pool[i].to_st(), None::<&ST>).unwrap(); bgp.push_str(&format!("<tag:s> <tag:p{0}> ?{0} . ", VARS[v])); } }
    (d, bgp)
}
fn eval_engine(pool: &[T], mu: &[Option<usize>; 4], text: &str) -> (Obs, Obs, String) {
    let (d, bgp) = dataset_for(pool, mu);
    let q1 = format!("SELECT ?r {{ {bgp} BIND({text} AS ?r) }}");
    let q2 = format!("ASK {{ {bgp} FILTER({text}) }}");
    (run_engine(&d, &q1), run_engine(&d, &q2), q1)
}

// ------------------------------------------------------------------------------------------
// the term pool: (class label, term); the label groups terms for the operator x class streams
// ------------------------------------------------------------------------------------------
fn pool() -> Vec<(&'static str, T)> {
    let mut p: Vec<(&'static str, T)> = vec![];
    for l in ["0", "1", "2", "-1", "+5", "007", "-0", "3", "10"] { p.push(("int", lit(l, "integer"))) }
    for l in ["9223372036854775807", "-9223372036854775808", "9223372036854775808", "-9223372036854775809", "4611686018427387904", "3037000500", "-3037000500", "99999999999999999999", "-99999999999999999999", "9223372036854775806"] { p.push(("int-boundary", lit(l, "integer"))) }
    for l in ["abc", "1_0", "", "1.0", " 1", "1e2", "+-1", "--1", "1_", "_1", "-+1", "++1", "+", "-", "1__0", "-1_0", "99999999999999999999_9"] { p.push(("int-ill", lit(l, "integer"))) }
    for (l, d) in [("1", "byte"), ("127", "byte"), ("-128", "byte"), ("255", "unsignedByte"), ("+5", "unsignedInt"), ("-5", "negativeInteger"), ("0", "nonPositiveInteger"), ("18446744073709551615", "unsignedLong"), ("9223372036854775807", "long"), ("1", "positiveInteger"), ("0", "nonNegativeInteger"), ("-0", "nonNegativeInteger"), ("32767", "short"), ("2147483647", "int")] { p.push(("int-derived", lit(l, d))) }
    for (l, d) in [("128", "byte"), ("-129", "byte"), ("-1", "nonNegativeInteger"), ("0", "positiveInteger"), ("1", "negativeInteger"), ("256", "unsignedByte"), ("18446744073709551616", "unsignedLong"), ("abc", "long"), ("1_0", "int"), ("1_0", "nonNegativeInteger"), ("-1", "unsignedInt"), ("1.0", "short")] { p.push(("int-derived-ill", lit(l, d))) }
    for l in ["-0", "-00"] { p.push(("unsigned-minus-zero", lit(l, "unsignedByte"))) }
    for l in ["0.0", "1.0", "1.5", "-1.5", "2.0", "0.1", "1.10", ".5", "5.", "+5.0", "0.0000001", "-0.00000012", "0.000001", "123456789012345678901234567890.5", "3.0", "0.25"] { p.push(("decimal", lit(l, "decimal"))) }
    for l in ["1e3", "1_0.5", ".", "abc", "", "1.2.3", "1E-2", "+", "1.5e0", ".-5", ".+5", "1.-5", "-.", "1__0", "5._"] { p.push(("decimal-ill", lit(l, "decimal"))) }
    for l in ["0", "-0.0", "1", "1.5", "0.1", "3.4e38", "1e-45", "16777217", "2", "-2.5", "1e10"] { p.push(("float", lit(l, "float"))) }
    for l in ["NaN", "INF", "-INF", "+INF"] { p.push(("float-special", lit(l, "float"))) }
    for l in ["inf", "nan", "infinity", "-Infinity", "1e", "abc", "", "0x1", "+nan"] { p.push(("float-ill", lit(l, "float"))) }
    for l in ["0e0", "-0e0", "1e0", "1.5", "2.5e0", "0.1", "1e308", "5e-324", "9007199254740993", "1E2", "-3e0", "1.7976931348623157e308", "1e23", ".5e1", "2e0"] { p.push(("double", lit(l, "double"))) }
    for l in ["NaN", "INF", "-INF", "+INF"] { p.push(("double-special", lit(l, "double"))) }
    for l in ["inf", "-nan", "Infinity", "e5", "1e400x", "NAN", "-inf", "", "1e5.5", "1_0e0", ".e1", "+.e1", "1e+", "--1e0"] { p.push(("double-ill", lit(l, "double"))) }
    for l in ["", "a", "b", "abc", "B", "\u{e9}", "1", "true"] { p.push(("string", lit(l, "string"))) }
    for (l, t) in [("a", "en"), ("a", "EN"), ("a", "fr"), ("b", "en"), ("", "en"), ("a", "en-US"), ("b", "FR")] { p.push(("lang", T::Lang(l.into(), t.into()))) }
    for l in ["true", "false", "1", "0"] { p.push(("boolean", lit(l, "boolean"))) }
    for l in ["TRUE", "foo", "bar", ""] { p.push(("boolean-ill", lit(l, "boolean"))) }
    for l in ["2020-01-01T00:00:00Z", "2020-01-01T00:00:00", "2020-01-01T01:00:00+01:00", "2020-01-01T12:00:00-05:00", "2020-01-02T00:00:00", "2019-12-31T24:00:00", "2020-01-01T00:00:00.5Z", "2020-01-01T15:00:00", "-0044-03-15T12:00:00Z", "2020-02-29T23:59:59.999+14:00"] { p.push(("dateTime", lit(l, "dateTime"))) }
    for l in ["foo", "bar", "2020-02-30T00:00:00", "2020-01-01", "2020-01-01T25:00:00Z", "20-01-01T00:00:00"] { p.push(("dateTime-ill", lit(l, "dateTime"))) }
    for (l, d) in [("1", "http://x/dt"), ("2", "http://x/dt"), ("2020-01-01", "http://www.w3.org/2001/XMLSchema#date"), ("1", "http://www.w3.org/2001/XMLSchema#Integer")] { p.push(("other-literal", T::Lit(l.into(), d.into()))) }
    for i in ["http://x/a", "http://x/b", "tag:x"] { p.push(("iri", T::Iri(i.into()))) }
    for b in ["b1", "b2"] { p.push(("bnode", T::Bn(b.into()))) }
    p.push(("triple", T::Tr(Box::new([T::Iri("http://x/a".into()), T::Iri("http://x/p".into()), lit("1", "integer")]))));
    p.push(("triple", T::Tr(Box::new([T::Bn("b1".into()), T::Iri("http://x/p".into()), T::Lang("a".into(), "en".into())]))));
    p
}
/// inline constants must be writable in a query and survive spargebra unchanged (it lower-cases language tags)
fn inlinable(t: &T) -> bool { match t { T::Iri(_) | T::Lit(..) => true, T::Lang(_, tag) => *tag == tag.to_ascii_lowercase(), _ => false } }

struct Gen<'a> { r: Rng, pool: &'a [(&'static str, T)], classes: &'a [(&'static str, Vec<usize>)] }
impl<'a> Gen<'a> {
    fn of_class(&mut self, c: &str) -> usize { let v = &self.classes.iter().find(|(n, _)| *n == c).unwrap().1; *self.r.pick(v) }
    fn any_term(&mut self) -> usize { let c = self.r.below(self.classes.len()); *self.r.pick(&self.classes[c].1) }
    /// a leaf standing for pool term i: bind it to a variable, or write it inline
    fn leaf_for(&mut self, i: usize, mu: &mut [Option<usize>; 4]) -> E {
        if inlinable(&self.pool[i].1) && self.r.chance(1, 3) { return E::Const(i) }
        for v in 0..3 { if mu[v] == Some(i) { return E::Var(v) } }
        for v in 0..3 { if mu[v].is_none() { mu[v] = Some(i); return E::Var(v) } }
        if inlinable(&self.pool[i].1) { E::Const(i) } else { E::Var(self.r.below(3)) }
    }
    fn leaf(&mut self, mu: &mut [Option<usize>; 4]) -> E {
        match self.r.below(20) { 0 => E::Var(3), 1 => E::Bound(self.r.below(4)), 2..=5 if mu.iter().any(|m| m.is_some()) => { let vs: Vec<usize> = (0..3).filter(|v| mu[*v].is_some()).collect(); E::Var(*self.r.pick(&vs)) } _ => { let i = self.any_term(); self.leaf_for(i, mu) } }
    }
    fn tree(&mut self, depth: usize, mu: &mut [Option<usize>; 4]) -> E {
        if depth == 0 || self.r.chance(1, 6) { return self.leaf(mu) }
        let d = depth - 1;
        match self.r.below(30) {
            0..=11 => { let o = *self.r.pick(&[B2::Or, B2::And, B2::Eq, B2::Eq, B2::SameTerm, B2::Gt, B2::Ge, B2::Lt, B2::Le, B2::Add, B2::Sub, B2::Mul, B2::Div]); bin(o, self.tree(d, mu), self.tree(d, mu)) }
            12..=14 => E::Not(bx(self.tree(d, mu))),
            15..=16 => { let n = self.r.below(4); E::In(bx(self.tree(d, mu)), (0..n).map(|_| self.tree(d.min(1), mu)).collect()) }
            17 => E::Plus(bx(self.tree(d, mu))), 18..=19 => E::Minus(bx(self.tree(d, mu))),
            20..=22 => E::If(bx(self.tree(d, mu)), bx(self.tree(d, mu)), bx(self.tree(d, mu))),
            23..=24 => { let n = self.r.below(4); E::Coalesce((0..n).map(|_| self.tree(d, mu)).collect()) }
            _ => { let f = *self.r.pick(&[F1::Str, F1::Lang, F1::Datatype, F1::IsIri, F1::IsBlank, F1::IsLiteral, F1::IsNumeric]); E::Fn(f, bx(self.tree(d, mu))) }
        }
    }
}
const BINOPS: [B2; 12] = [B2::Eq, B2::SameTerm, B2::Lt, B2::Le, B2::Gt, B2::Ge, B2::Add, B2::Sub, B2::Mul, B2::Div, B2::Or, B2::And];

fn main() {
    std::panic::set_hook(Box::new(|_| {})); // panics of the engine are caught and reported per case
    let a = parse_args();
    let pool_l = pool();
    let pool_t: Vec<T> = pool_l.iter().map(|p| p.1.clone()).collect();
    let mut classes: Vec<(&'static str, Vec<usize>)> = vec![];
    for (i, (c, _)) in pool_l.iter().enumerate() { match classes.iter_mut().find(|(n, _)| n == c) { Some(e) => e.1.push(i), None => classes.push((c, vec![i])) } }
    let idx_of = |t: &T| pool_t.iter().position(|u| u == t).unwrap();
    let no_mu: [Option<usize>; 4] = [None; 4];
    if a.rest.iter().any(|s| s == "--probe") {
        use std::io::BufRead;
        for l in std::io::stdin().lock().lines() {
            let l = l.unwrap(); if l.trim().is_empty() { continue }
            let q = format!("PREFIX xsd: <http://www.w3.org/2001/XMLSchema#> SELECT ?r {{ BIND(({l}) AS ?r) }}");
            println!("{l}  ==>  {}", match run_engine(&LightDataset::new(), &q) { Obs::Bound(Some(t)) => t.show(), Obs::Bound(None) => "UNBOUND".into(), o => format!("{o:?}") });
        }
        return;
    }

    // --- which repairs does the engine under test contain?  (the model is run with the same switches)
    let probe = |text: &str| eval_engine(&pool_t, &no_mu, text).0;
    let xs = |l: &str, d: &str| lit(l, d).sparql();
    let bool_t = |b: bool| Obs::Bound(Some(lit(if b { "true" } else { "false" }, "boolean")));
    let cfg = [
        probe("IF(<tag:x>, 1, 2)") == Obs::Bound(None),
        probe(&format!("({} = {})", xs("foo", "boolean"), xs("bar", "boolean"))) == Obs::Bound(None),
        probe(&format!("(!({}))", xs("NaN", "float"))) == bool_t(true),
        probe(&format!("(!({}))", xs("abc", "integer"))) == bool_t(true),
        probe(&format!("({} < 1)", xs("NaN", "double"))) == bool_t(false),
        probe(&format!("({} + 0)", xs("1_0", "integer"))) == Obs::Bound(None) && probe(&format!("({} + 0)", xs(".-5", "decimal"))) == Obs::Bound(None) && probe(&format!("({} + 0)", xs("inf", "double"))) == Obs::Bound(None),
        probe("(0.0000001 * 1.0)") == Obs::Bound(Some(lit("0.0000001", "decimal"))),
        probe(&format!("({} + 0)", xs("-0", "unsignedByte"))) == Obs::Bound(Some(lit("0", "integer"))),
    ];
    let dt_panics = matches!(probe(&format!("({} = 1)", xs("99999999999-01-01T00:00:00", "dateTime"))), Obs::Panic(_));
    let mut header = String::from("From Sophia.C13 Require Import ExprConcrete.\n");
    header.push_str(&format!("Definition the_cfg : cfg := mkCfg {}.\n", cfg.iter().map(|b| coq_bool(*b)).collect::<Vec<_>>().join(" ")));
    for (i, t) in pool_t.iter().enumerate() { header.push_str(&format!("Definition t{i} : term := {}.\n", t.coq())); }
    header.push_str("Definition ck := expr_ok XC the_cfg.\n");

    let mut sum = Summary::default();
    sum.rule = "case = (expression tree of depth <= 4 over a pool of ~190 terms covering every value class, well- and ill-formed; <= 3 variables bound through a BGP, one unbound, inline constants); streams: random trees / every binary operator x every pair of value classes / unary operators, functions and boolean contexts x every class / near-boundary integer arithmetic / the known deviations; non-trivial = the expression has an operator (not a bare leaf); distinct = distinct (expression text, solution)".into();
    sum.extra.push(("engine_repairs".into(), format!("{{\"C13e-1\": {}, \"C13e-2\": {}, \"C13e-3\": {}, \"C13e-4\": {}, \"C13e-5\": {}, \"C13e-6\": {}, \"C13e-7\": {}, \"C13e-8\": {}, \"C13e-9\": {}}}", cfg[0], cfg[1], cfg[2], cfg[3], cfg[4], cfg[5], cfg[6], !dt_panics, cfg[7])));
    if dt_panics {
        sum.oracle_failures.push(("probe".into(), format!("PANIC-DATETIME-YEAR: the query  SELECT ?r {{ BIND(({} = 1) AS ?r) }}  panics (XsdDateTime::new unwraps the i32 parse of a year that the regex does not bound); expected: the literal is ill-formed, '=' raises a type error, ?r unbound", xs("99999999999-01-01T00:00:00", "dateTime"))));
    }

    let nc = classes.len();
    let base = Rng::new(a.seed);
    let mut cases = vec![]; let mut seen = HashSet::new();
    // the witnesses of the Coq `..._refuted` Examples (ExprProofs.v), replayed verbatim: case ids 1000000 + j
    const WBASE: usize = 1_000_000;
    let k_ = |l: &str, d: &str| E::Const(idx_of(&lit(l, d)));
    let witnesses: Vec<E> = vec![
        E::If(bx(E::Const(idx_of(&T::Iri("tag:x".into())))), bx(k_("1", "integer")), bx(k_("2", "integer"))),
        E::Not(bx(bin(B2::Eq, k_("foo", "boolean"), k_("true", "boolean")))),
        bin(B2::Eq, k_("foo", "dateTime"), k_("bar", "dateTime")),
        E::Not(bx(k_("NaN", "float"))),
        E::Not(bx(k_("abc", "integer"))),
        E::Not(bx(bin(B2::Lt, k_("NaN", "double"), k_("1", "integer")))),
        bin(B2::Add, k_("1_0", "integer"), k_("0", "integer")),
        bin(B2::Add, k_(".-5", "decimal"), k_("0", "integer")),
        bin(B2::Eq, k_("inf", "double"), k_("INF", "double")),
        bin(B2::Mul, k_("0.0000001", "decimal"), k_("1.0", "decimal")),
        bin(B2::Add, k_("-0", "unsignedByte"), k_("1", "integer")),
        E::In(bx(k_("2", "integer")), vec![bin(B2::Div, k_("1", "integer"), k_("0", "integer")), k_("2", "integer")]),
        bin(B2::Div, k_("1e0", "double"), k_("0e0", "double")),
    ];
    let range: Vec<usize> = match a.only { Some(i) => vec![i], None => (0..a.n).chain(WBASE..WBASE + witnesses.len()).collect() };
    let mut explained: BTreeMap<String, u64> = BTreeMap::new();
    for idx in range {
        let mut g = Gen { r: base.fork(idx as u64), pool: &pool_l, classes: &classes };
        let mut mu: [Option<usize>; 4] = [None; 4];
        let k = idx / 5;
        let (stream, e) = if idx >= WBASE { if idx - WBASE >= witnesses.len() { continue } ("witness", witnesses[idx - WBASE].clone()) } else { match idx % 5 {
            0 | 1 => { let d = g.r.range(1, 4); ("random", g.tree(d, &mut mu)) }
            2 => { // every binary operator x every ordered pair of classes
                let op = BINOPS[k % 12]; let pair = (k / 12) % (nc * nc);
                let (c1, c2) = (classes[pair / nc].0, classes[pair % nc].0);
                let (i, j) = (g.of_class(c1), g.of_class(c2));
                let (x, y) = (g.leaf_for(i, &mut mu), g.leaf_for(j, &mut mu));
                ("binop-x-classes", bin(op, x, y))
            }
            3 => { // unary contexts x every class
                let ctx = k % 14; let c = classes[(k / 14) % nc].0; let i = g.of_class(c); let x = g.leaf_for(i, &mut mu);
                let one = E::Const(idx_of(&lit("1", "integer"))); let two = E::Const(idx_of(&lit("2", "integer")));
                ("context-x-class", match ctx {
                    0 => x, 1 => E::Not(bx(x)), 2 => E::Plus(bx(x)), 3 => E::Minus(bx(x)), 4 => E::If(bx(x), bx(one), bx(two)),
                    5 => bin(B2::Or, x, E::Const(idx_of(&lit("false", "boolean")))), 6 => bin(B2::And, x, E::Const(idx_of(&lit("true", "boolean")))),
                    7 => E::Fn(F1::Str, bx(x)), 8 => E::Fn(F1::Lang, bx(x)), 9 => E::Fn(F1::Datatype, bx(x)), 10 => E::Fn(F1::IsNumeric, bx(x)),
                    11 => E::Fn(*g.r.pick(&[F1::IsIri, F1::IsBlank, F1::IsLiteral]), bx(x)), 12 => E::Coalesce(vec![x, one]), _ => E::Not(bx(E::Not(bx(x)))),
                })
            }
            _ => if k % 2 == 0 { // near-boundary integer arithmetic and promotions
                let cs = ["int-boundary", "int-boundary", "int", "int-derived", "decimal", "float", "double"];
                let (ci, cj) = (cs[g.r.below(4)], cs[g.r.below(7)]); let (i, j) = (g.of_class(ci), g.of_class(cj));
                let (x, y) = (g.leaf_for(i, &mut mu), g.leaf_for(j, &mut mu));
                let op = *g.r.pick(&[B2::Add, B2::Sub, B2::Mul, B2::Div, B2::Eq, B2::Lt]);
                let e = bin(op, if g.r.chance(1, 3) { E::Minus(bx(x)) } else { x }, y);
                ("int-boundary", if g.r.chance(1, 3) { let z = g.of_class("int-boundary"); let z = g.leaf_for(z, &mut mu); bin(*g.r.pick(&[B2::Add, B2::Sub, B2::Mul]), e, z) } else { e })
            } else { // the candidate deviations, with varying operands
                let t = |g: &mut Gen, c: &str, mu: &mut [Option<usize>; 4]| { let i = g.of_class(c); g.leaf_for(i, mu) };
                let one = E::Const(idx_of(&lit("1", "integer"))); let zero = E::Const(idx_of(&lit("0", "integer")));
                let err = bin(B2::Div, one.clone(), zero.clone());
                ("deviations", match (k / 2) % 12 {
                    0 => { let c = *g.r.pick(&["iri", "bnode", "dateTime", "other-literal", "int-ill", "triple"]); E::If(bx(t(&mut g, c, &mut mu)), bx(one), bx(zero)) }
                    1 => { let x = t(&mut g, "int", &mut mu); let mut l = vec![err.clone(), x.clone()]; if g.r.chance(1, 2) { l.reverse() } if g.r.chance(1, 2) { l.insert(0, t(&mut g, "int", &mut mu)) } let e = E::In(bx(x), l); if g.r.chance(1, 2) { E::Not(bx(e)) } else { e } }
                    2 => { let c = *g.r.pick(&["boolean-ill", "dateTime-ill"]); let o = *g.r.pick(&[c, c, "boolean", "dateTime"]); let e = bin(B2::Eq, t(&mut g, c, &mut mu), t(&mut g, o, &mut mu)); if g.r.chance(1, 2) { E::Not(bx(e)) } else { e } }
                    3 => { let x = t(&mut g, "float-special", &mut mu); match g.r.below(3) { 0 => E::Not(bx(x)), 1 => E::If(bx(x), bx(one), bx(zero)), _ => bin(B2::Or, x, zero) } }
                    4 => { let c = *g.r.pick(&["int-ill", "decimal-ill", "float-ill", "double-ill", "int-derived-ill"]); let x = t(&mut g, c, &mut mu); match g.r.below(3) { 0 => E::Not(bx(x)), 1 => bin(B2::Or, x, one), _ => bin(B2::And, x, one) } }
                    5 => { let c = *g.r.pick(&["float-special", "double-special"]); let o = *g.r.pick(&["int", "decimal", "float", "double", "double-special"]); let op = *g.r.pick(&[B2::Lt, B2::Le, B2::Gt, B2::Ge]); let (x, y) = (t(&mut g, c, &mut mu), t(&mut g, o, &mut mu)); let e = if g.r.chance(1, 2) { bin(op, x, y) } else { bin(op, y, x) }; if g.r.chance(1, 2) { E::Not(bx(e)) } else { e } }
                    6 => { let c = *g.r.pick(&["int-ill", "decimal-ill", "float-ill", "double-ill", "int-derived-ill"]); let x = t(&mut g, c, &mut mu); match g.r.below(4) { 0 => bin(B2::Add, x, zero), 1 => E::Fn(F1::IsNumeric, bx(x)), 2 => bin(B2::Eq, x, one), _ => E::Plus(bx(x)) } }
                    7 => { let x = t(&mut g, "decimal", &mut mu); let y = t(&mut g, "decimal", &mut mu); bin(*g.r.pick(&[B2::Mul, B2::Mul, B2::Div, B2::Sub]), x, y) }
                    8 => { let c = *g.r.pick(&["float", "double", "float-special", "double-special", "int"]); let x = t(&mut g, c, &mut mu); let y = t(&mut g, "double", &mut mu); bin(*g.r.pick(&[B2::Div, B2::Mul]), x, bin(B2::Sub, y.clone(), y)) }
                    9 => { let x = t(&mut g, "unsigned-minus-zero", &mut mu); match g.r.below(3) { 0 => bin(B2::Add, x, one), 1 => E::Fn(F1::IsNumeric, bx(x)), _ => E::Not(bx(x)) } }
                    10 => { let (x, y) = (t(&mut g, "lang", &mut mu), t(&mut g, "lang", &mut mu)); bin(*g.r.pick(&[B2::Eq, B2::Lt, B2::Le, B2::Gt, B2::Ge, B2::SameTerm]), x, y) }
                    _ => { let c = *g.r.pick(&["other-literal", "int-ill", "boolean-ill", "dateTime-ill"]); let x = t(&mut g, c, &mut mu); bin(*g.r.pick(&[B2::Le, B2::Ge, B2::Lt, B2::Eq]), x.clone(), x) }
                })
            },
        } };
        let mut pr = g.r.fork(77);
        let text = e.sparql(&pool_t, &mut pr);
        let (o1, o2, q1) = eval_engine(&pool_t, &mu, &text);
        let mu_show: Vec<String> = (0..3).filter_map(|v| mu[v].map(|i| format!("?{}={}", VARS[v], pool_t[i].show()))).collect();
        let descr = format!("{} with {{{}}}", text.replace(XSD, "xsd:"), mu_show.join(", "));
        sum.evaluations += 1;
        sum.bump(&format!("stream:{stream}"));
        let (bound, kept) = match (&o1, &o2) {
            (Obs::Bound(b), Obs::Kept(k)) => (b.clone(), *k),
            _ => {
                let cls = if matches!(o1, Obs::Panic(_)) || matches!(o2, Obs::Panic(_)) { "PANIC" } else if matches!(o1, Obs::Parse(_)) { "HARNESS-PARSE" } else { "ENGINE-ERROR" };
                sum.oracle_failures.push((idx.to_string(), format!("{cls}: {descr}: BIND query gave {o1:?}, FILTER query gave {o2:?}")));
                sum.bump("result:no-answer");
                if a.only.is_some() { println!("CASE {idx} [{stream}]: {q1}\n  => {o1:?} / {o2:?}"); }
                continue;
            }
        };
        // oracle
        let spec = eval(&e, &pool_t, &mu, &Dv::default());
        let verdict = agrees(&spec, &bound, kept, &Dv::default());
        let show_b = |b: &Option<T>| b.as_ref().map(|t| t.show()).unwrap_or("unbound".into());
        match verdict {
            None => sum.bump("oracle:cannot-tell"),
            Some(true) => sum.bump("oracle:agrees"),
            Some(false) => {
                // which known deviations (among those the engine under test still has) explain the answer?  smallest set first
                let present: u32 = (0..7).filter(|i| !cfg[*i as usize]).map(|i| 1u32 << i).sum::<u32>() | (1 << 7) | (1 << 8) | if cfg[7] { 0 } else { 1 << 9 };
                let mut masks: Vec<u32> = (1..1024u32).filter(|m| m & !present == 0).collect(); masks.sort_by_key(|m| m.count_ones());
                let verdicts: Vec<(u32, Option<bool>)> = masks.iter().map(|m| { let dv = dv_of(*m); (*m, agrees(&eval(&e, &pool_t, &mu, &dv), &bound, kept, &dv)) }).collect();
                let name = |m: u32| (0..10).filter(|i| m & (1 << i) != 0).map(|i| DV_NAMES[i]).collect::<Vec<_>>().join("+");
                let cls = match verdicts.iter().find(|(_, v)| *v == Some(true)) {
                    Some((m, _)) => name(*m),
                    None => match verdicts.iter().find(|(_, v)| v.is_none()) { Some((m, _)) => format!("{} (value beyond the oracle's arithmetic, not compared)", name(*m)), None => "UNEXPLAINED".into() },
                };
                *explained.entry(cls.clone()).or_default() += 1;
                sum.bump(&format!("oracle:differs:{cls}"));
                let want = match &spec { Err(_) => "an error (unbound, solution dropped)".to_string(), Ok(R::T(t)) => t.show(), Ok(R::B(b)) => format!("{b}"), Ok(R::N(n)) => format!("{n:?} as a valid {}", num_dt(n).replace(XSD, "xsd:")), Ok(R::StrOfNum(n)) => format!("a lexical form of {n:?}") };
                sum.oracle_failures.push((idx.to_string(), format!("{cls}: {descr}: the engine binds {} and FILTER {} the solution; SPARQL 1.1 section 17 gives {want}", show_b(&bound), if kept { "keeps" } else { "drops" })));
            }
        }
        sum.bump(if bound.is_some() { "result:bound" } else { "result:error" });
        if kept { sum.bump("filter:kept") }
        if a.only.is_some() { println!("CASE {idx} [{stream}]: {q1}\n  engine: ?r = {}, FILTER keeps = {kept}\n  oracle: {spec:?} => {verdict:?}\n  coq: ck {} ...", show_b(&bound), e.coq()); }
        if seen.insert(descr.clone()) && e.size() > 1 { sum.distinct_nontrivial += 1; }
        if sum.samples.len() < 6 && e.size() > 3 && idx % 7 == 0 { sum.samples.push(format!("case {idx} [{stream}]: {descr} => ?r = {}, kept = {kept}", show_b(&bound))); }
        let c_mu = coq_list((0..3).filter_map(|v| mu[v].map(|i| format!("({}, t{i})", coq_str(VARS[v])))));
        cases.push((idx, format!("ck {} {} {} {}", e.coq(), c_mu, coq_opt(bound.as_ref().map(|t| t.coq())), coq_bool(kept))));
    }
    if a.only.is_none() {
        sum.shards = write_shards(&a.out, &header, &cases, a.shards);
        sum.extra.push(("coq_cases".into(), cases.len().to_string()));
        sum.extra.push(("failure_classes".into(), format!("{{{}}}", explained.iter().map(|(k, v)| format!("{}: {v}", json_str(k))).collect::<Vec<_>>().join(", "))));
        std::fs::write(format!("{}/summary.json", a.out), sum.to_json()).unwrap();
    }
    println!("c13e: {} cases, {} distinct non-trivial, {} oracle failures {:?}; engine repairs {:?}, dateTime year panic: {dt_panics}", sum.evaluations, sum.distinct_nontrivial, sum.oracle_failures.len(), explained, cfg);
}
