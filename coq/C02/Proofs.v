(* C02/Proofs.v -- Term::eq is an equivalence, equal terms hash identically, Term::cmp is a
   total order compatible with Term::eq and with the kind order.  The model is Common/Term.v. *)
From Sophia.C02 Require Import Model.

(* ---------- equality ---------- *)
Lemma str_eqb_ci_lower a b : str_eqb_ci a b = true <-> lower a = lower b.
Proof. unfold str_eqb_ci. apply str_eqb_eq. Qed.

Lemma term_eqb_canon a b : term_eqb a b = true <-> canon a = canon b.
Proof.
  revert b; induction a as [s|s|l d|l t|s IHs p IHp o IHo|s]; intros [s'|s'|l' d'|l' t'|s' p' o'|s'];
    simpl; try (split; congruence); try (rewrite str_eqb_eq; split; congruence).
  - rewrite andb_true_iff, !str_eqb_eq. split; [intros [-> ->]; reflexivity | intros E; injection E; auto].
  - rewrite andb_true_iff, str_eqb_eq, str_eqb_ci_lower.
    split; [intros [-> ->]; reflexivity | intros E; injection E; auto].
  - rewrite !andb_true_iff, IHs, IHp, IHo.
    split; [intros [[-> ->] ->]; reflexivity | intros E; injection E; auto].
Qed.

Theorem term_eqb_refl a : term_eqb a a = true.
Proof. apply term_eqb_canon; reflexivity. Qed.
Theorem term_eqb_sym a b : term_eqb a b = term_eqb b a.
Proof.
  destruct (term_eqb a b) eqn:E1, (term_eqb b a) eqn:E2; auto.
  - apply term_eqb_canon in E1. symmetry in E1. apply term_eqb_canon in E1. congruence.
  - apply term_eqb_canon in E2. symmetry in E2. apply term_eqb_canon in E2. congruence.
Qed.
Theorem term_eqb_trans a b c : term_eqb a b = true -> term_eqb b c = true -> term_eqb a c = true.
Proof. rewrite !term_eqb_canon. congruence. Qed.

(* equality never crosses kinds and determines every component *)
Theorem term_eqb_kind a b : term_eqb a b = true -> kind_of a = kind_of b.
Proof. destruct a, b; simpl; congruence. Qed.

(* ---------- hashing ---------- *)
Lemma hash_canon a : hash_stream (canon a) = hash_stream a.
Proof.
  induction a as [s|s|l d|l t|s IHs p IHp o IHo|s]; simpl; auto.
  - rewrite lower_idem. reflexivity.
  - rewrite IHs, IHp, IHo. reflexivity.
Qed.

Theorem eq_same_hash a b : term_eqb a b = true -> hash_stream a = hash_stream b.
Proof.
  intros H. apply term_eqb_canon in H. rewrite <- (hash_canon a), <- (hash_canon b). congruence.
Qed.

(* ---------- ordering ---------- *)
Lemma then_cmp_assoc a b c : then_cmp (then_cmp a b) c = then_cmp a (then_cmp b c).
Proof. destruct a; reflexivity. Qed.
Lemma then_cmp_eq_r c : then_cmp c Eq = c.
Proof. destruct c; reflexivity. Qed.

(* an order-preserving, concatenation-friendly encoding of strings: shift by one, end with 0 *)
Definition enc_str (s : str) : str := map N.succ s ++ [0].

Lemma N_compare_succ x y : (N.succ x ?= N.succ y) = (x ?= y).
Proof.
  destruct (N.compare_spec x y) as [->|H|H].
  - apply N.compare_refl.
  - apply N.compare_lt_iff; lia.
  - apply N.compare_gt_iff; lia.
Qed.

Lemma str_cmp_enc_app s1 s2 r1 r2 :
  str_cmp (enc_str s1 ++ r1) (enc_str s2 ++ r2) = then_cmp (str_cmp s1 s2) (str_cmp r1 r2).
Proof.
  revert s2; induction s1 as [|x s1 IH]; intros [|y s2]; unfold enc_str; simpl.
  - reflexivity.
  - destruct (N.succ y) eqn:E; [lia|reflexivity].
  - destruct (N.succ x) eqn:E; [lia|reflexivity].
  - rewrite N_compare_succ. destruct (x ?= y); auto. apply IH.
Qed.

Fixpoint enc (t : term) : str :=
  kind_rank (kind_of t) ::
  match t with
  | Iri s | Bnode s | Var s => enc_str s
  | LitDt l d => enc_str d ++ enc_str [] ++ enc_str l
  | LitLang l tg => enc_str rdf_langString ++ enc_str (lower tg) ++ enc_str l
  | Triple s p o => enc s ++ enc p ++ enc o
  end.

Lemma str_cmp_neq_then a b c : a <> b -> then_cmp (str_cmp a b) c = str_cmp a b.
Proof. intros H. destruct (str_cmp a b) eqn:E; auto. apply str_cmp_eq in E. contradiction. Qed.

Lemma enc_cmp a : forall b r1 r2, wf a -> wf b ->
  str_cmp (enc a ++ r1) (enc b ++ r2) = then_cmp (term_cmp a b) (str_cmp r1 r2).
Proof.
  induction a as [s|s|l d|l t|s IHs p IHp o IHo|s];
    intros [s'|s'|l' d'|l' t'|s' p' o'|s'] r1 r2 Wa Wb;
    try reflexivity;
    try (cbn [enc kind_of kind_rank term_cmp app str_cmp]; rewrite !N.compare_refl;
         rewrite str_cmp_enc_app; reflexivity).
  - (* LitDt, LitDt *)
    cbn [enc kind_of kind_rank term_cmp app str_cmp datatype lexical]. rewrite !N.compare_refl.
    rewrite <- !app_assoc, !str_cmp_enc_app. simpl str_cmp at 2. cbn [then_cmp].
    rewrite then_cmp_assoc. reflexivity.
  - (* LitDt, LitLang: decided by the datatypes, which differ *)
    cbn [enc kind_of kind_rank term_cmp app str_cmp datatype lexical]. rewrite !N.compare_refl.
    rewrite <- !app_assoc, !str_cmp_enc_app. simpl in Wa.
    rewrite !(str_cmp_neq_then d rdf_langString) by assumption. reflexivity.
  - (* LitLang, LitDt *)
    cbn [enc kind_of kind_rank term_cmp app str_cmp datatype lexical]. rewrite !N.compare_refl.
    rewrite <- !app_assoc, !str_cmp_enc_app. simpl in Wb.
    rewrite !(str_cmp_neq_then rdf_langString d') by congruence. reflexivity.
  - (* LitLang, LitLang *)
    cbn [enc kind_of kind_rank term_cmp app str_cmp]. rewrite !N.compare_refl.
    rewrite <- !app_assoc, !str_cmp_enc_app, str_cmp_refl. cbn [then_cmp].
    rewrite then_cmp_assoc. reflexivity.
  - (* Triple, Triple *)
    destruct Wa as [Ws [Wp Wo]], Wb as [Ws' [Wp' Wo']].
    cbn [enc kind_of kind_rank app str_cmp]. rewrite !N.compare_refl.
    rewrite <- !app_assoc. rewrite IHs, IHp, IHo by assumption.
    cbn [term_cmp kind_of kind_rank]. rewrite !N.compare_refl.
    rewrite !then_cmp_assoc. reflexivity.
Qed.

Theorem term_cmp_enc a b : wf a -> wf b -> term_cmp a b = str_cmp (enc a) (enc b).
Proof.
  intros Wa Wb. pose proof (enc_cmp a b [] [] Wa Wb) as H. rewrite !app_nil_r in H.
  rewrite H. simpl. rewrite then_cmp_eq_r. reflexivity.
Qed.

Theorem term_cmp_antisym a b : wf a -> wf b -> term_cmp b a = CompOpp (term_cmp a b).
Proof. intros Wa Wb. rewrite !term_cmp_enc by assumption. apply str_cmp_antisym. Qed.

Theorem term_cmp_trans c x y z : wf x -> wf y -> wf z ->
  term_cmp x y = c -> term_cmp y z = c -> term_cmp x z = c.
Proof. intros Wx Wy Wz. rewrite !term_cmp_enc by assumption. apply str_cmp_trans. Qed.

Lemma then_cmp_Eq a b : then_cmp a b = Eq <-> a = Eq /\ b = Eq.
Proof.
  destruct a; simpl.
  - split; [intros ->; auto | intros [_ H]; exact H].
  - split; [discriminate | intros [H _]; discriminate].
  - split; [discriminate | intros [H _]; discriminate].
Qed.

Theorem term_cmp_eq a : forall b, wf a -> wf b -> (term_cmp a b = Eq <-> term_eqb a b = true).
Proof.
  induction a as [s|s|l d|l t|s IHs p IHp o IHo|s];
    intros [s'|s'|l' d'|l' t'|s' p' o'|s'] Wa Wb;
    try (simpl; split; discriminate);
    try (simpl; rewrite str_cmp_eq, str_eqb_eq; tauto).
  - simpl. rewrite then_cmp_Eq, !str_cmp_eq, andb_true_iff, !str_eqb_eq. tauto.
  - cbn [term_cmp kind_of kind_rank datatype lexical term_eqb wf] in *. rewrite N.compare_refl.
    rewrite then_cmp_Eq, !str_cmp_eq. split; [intros [H1 H2]; contradiction | discriminate].
  - cbn [term_cmp kind_of kind_rank datatype lexical term_eqb wf] in *. rewrite N.compare_refl.
    rewrite then_cmp_Eq, !str_cmp_eq. split; [intros [H1 H2]; symmetry in H1; contradiction | discriminate].
  - simpl. rewrite then_cmp_Eq, !str_cmp_eq, andb_true_iff, str_eqb_eq, str_eqb_ci_lower. tauto.
  - destruct Wa as [Ws [Wp Wo]], Wb as [Ws' [Wp' Wo']]. simpl.
    rewrite !then_cmp_Eq, IHs, IHp, IHo, !andb_true_iff by assumption. tauto.
Qed.

Theorem kind_order a b : kind_rank (kind_of a) < kind_rank (kind_of b) -> term_cmp a b = Lt.
Proof.
  intros H. apply N.compare_lt_iff in H.
  destruct a, b; simpl in *; try discriminate; reflexivity.
Qed.

(* totality: any two terms are comparable and the three outcomes are exclusive by typing *)
Theorem term_cmp_total a b : wf a -> wf b ->
  term_cmp a b = Lt \/ term_eqb a b = true \/ term_cmp b a = Lt.
Proof.
  intros Wa Wb. destruct (term_cmp a b) eqn:E.
  - right; left. apply term_cmp_eq; assumption.
  - left; reflexivity.
  - right; right. rewrite term_cmp_antisym, E by assumption. reflexivity.
Qed.

(* why well-formedness is needed: an untagged literal typed rdf:langString compares Equal to a
   tagged one with the same lexical form without being equal to it *)
Example wf_needed :
  term_cmp (LitDt [97] rdf_langString) (LitLang [97] [101;110]) = Eq
  /\ term_eqb (LitDt [97] rdf_langString) (LitLang [97] [101;110]) = false.
Proof. split; vm_compute; reflexivity. Qed.

(* ---------- NsTerm (api/src/ns/_term.rs): eq override compares prefix then suffix ---------- *)
Lemma strip_prefix_spec p s r : strip_prefix p s = Some r <-> s = p ++ r.
Proof.
  revert s; induction p as [|x p IH]; intros s; simpl.
  - split; congruence.
  - destruct s as [|y s]; [split; discriminate|].
    destruct (N.eqb_spec x y) as [->|Hn].
    + rewrite IH. split; [intros ->; reflexivity | intros E; injection E; auto].
    + split; [discriminate | intros E; injection E; congruence].
Qed.

Theorem ns_term_eq_is_default ns suffix other :
  ns_iri_eqb ns suffix other = term_eqb (Iri (ns ++ suffix)) (Iri other).
Proof.
  unfold ns_iri_eqb. simpl. destruct (strip_prefix ns other) as [r|] eqn:E.
  - apply strip_prefix_spec in E. subst other.
    destruct (str_eqb_spec r suffix) as [->|Hn].
    + symmetry. apply str_eqb_refl.
    + symmetry. apply not_true_is_false. rewrite str_eqb_eq. intros H. apply app_inv_head in H. congruence.
  - symmetry. apply not_true_is_false. rewrite str_eqb_eq. intros H.
    assert (strip_prefix ns other = Some suffix) by (apply strip_prefix_spec; auto). congruence.
Qed.

(* non-vacuity: well-formed terms of every kind, including case-variant tags *)
Example wf_examples :
  wf (Triple (Iri [1]) (LitLang [2] [69;78]) (Triple (Bnode [3]) (Var [4]) (LitDt [5] [6])))
  /\ term_eqb (LitLang [2] [69;78]) (LitLang [2] [101;110]) = true
  /\ term_cmp (LitLang [2] [69;78]) (LitLang [2] [101;110]) = Eq.
Proof. split; [simpl; repeat split; discriminate | split; vm_compute; reflexivity]. Qed.

(* ===================== accessors, components, constructors (widened harness) ===================== *)

Theorem term_same_spec a : forall b, term_same a b = true <-> a = b.
Proof.
  induction a as [s|s|l d|l t|s IHs p IHp o IHo|s]; intros [s'|s'|l' d'|l' t'|s' p' o'|s'];
    simpl; try (split; congruence); try (rewrite str_eqb_eq; split; congruence).
  - rewrite andb_true_iff, !str_eqb_eq. split; [intros [-> ->]; reflexivity | intros E; injection E; auto].
  - rewrite andb_true_iff, !str_eqb_eq. split; [intros [-> ->]; reflexivity | intros E; injection E; auto].
  - rewrite !andb_true_iff, IHs, IHp, IHo.
    split; [intros [[-> ->] ->]; reflexivity | intros E; injection E; auto].
Qed.

(* a term spelled the same is an equal term (so it hashes and compares the same, by the theorems above) *)
Theorem term_same_eqb a b : term_same a b = true -> term_eqb a b = true.
Proof. intros H. apply term_same_spec in H. subst. apply term_eqb_refl. Qed.

Lemma opt_str_eqb_refl o : opt_eqb str_eqb o o = true.
Proof. destruct o; simpl; auto using str_eqb_refl. Qed.

Theorem tview_ok_self t :
  tview_ok t (kind_rank (kind_of t)) (t_is_atom t) (acc_iri t) (acc_bnode t) (acc_lex t) (acc_dt t)
           (acc_tag t) (acc_var t) = true.
Proof. unfold tview_ok. rewrite N.eqb_refl, eqb_reflx, !opt_str_eqb_refl. reflexivity. Qed.

(* Term::eq on atoms depends on the accessors only: the default implementation, transcribed over
   the accessor view, is the model's equality *)
Theorem eq_via_accessors a b : t_is_atom a = true -> term_eqb a b = eq_acc a b.
Proof.
  destruct a, b; intros H; try discriminate H; cbn; rewrite ?andb_false_r; reflexivity.
Qed.

(* an atom is determined by what its accessors return *)
Theorem atom_view_inj a b :
  t_is_atom a = true -> t_is_atom b = true -> kind_of a = kind_of b ->
  acc_iri a = acc_iri b -> acc_bnode a = acc_bnode b -> acc_var a = acc_var b ->
  acc_lex a = acc_lex b -> acc_dt a = acc_dt b -> acc_tag a = acc_tag b -> a = b.
Proof. destruct a, b; simpl; intros; try discriminate; congruence. Qed.

(* atoms = the atomic constituents, in the same order *)
Theorem atoms_filter t : t_atoms t = filter t_is_atom (t_constituents t).
Proof.
  induction t as [s|s|l d|l g|s IHs p IHp o IHo|s]; simpl; try reflexivity.
  rewrite !filter_app, <- IHs, <- IHp, <- IHo. reflexivity.
Qed.

Theorem atoms_atomic t : forallb t_is_atom (t_atoms t) = true.
Proof.
  induction t as [s|s|l d|l g|s IHs p IHp o IHo|s]; simpl; try reflexivity.
  rewrite !forallb_app, IHs, IHp, IHo. reflexivity.
Qed.

Lemma constituents_nonempty t : (1 <= length (t_constituents t))%nat.
Proof. destruct t; simpl; lia. Qed.

(* a quoted triple has at least 4 constituents and 3 atoms; an atom exactly one of each *)
Theorem constituents_count t :
  if t_is_atom t then t_constituents t = [t] /\ t_atoms t = [t]
  else (4 <= length (t_constituents t))%nat /\ (3 <= length (t_atoms t))%nat.
Proof.
  destruct t as [s|s|l d|l g|s p o|s]; simpl; auto.
  rewrite !app_length. split.
  - pose proof (constituents_nonempty s). pose proof (constituents_nonempty p).
    pose proof (constituents_nonempty o). lia.
  - assert (H : forall x, (1 <= length (t_atoms x))%nat).
    { induction x; simpl; try lia. rewrite !app_length. lia. }
    pose proof (H s). pose proof (H p). pose proof (H o). lia.
Qed.

Lemma list_eqb_app {A} (f : A -> A -> bool) a1 : forall b1 a2 b2,
  list_eqb f a1 b1 = true -> list_eqb f a2 b2 = true -> list_eqb f (a1 ++ a2) (b1 ++ b2) = true.
Proof.
  induction a1 as [|x a1 IH]; intros [|y b1] a2 b2; simpl; try discriminate; auto.
  intros H1 H2. apply andb_true_iff in H1 as [-> H1]. simpl. auto.
Qed.

(* equal terms have pairwise equal atoms and constituents *)
Theorem eq_atoms a : forall b, term_eqb a b = true -> list_eqb term_eqb (t_atoms a) (t_atoms b) = true.
Proof.
  induction a as [s|s|l d|l g|s IHs p IHp o IHo|s]; intros [s'|s'|l' d'|l' g'|s' p' o'|s'];
    simpl; try discriminate; try (intros ->; reflexivity).
  intros H. apply andb_true_iff in H as [H Ho]. apply andb_true_iff in H as [Hs Hp].
  apply list_eqb_app; [auto|]. apply list_eqb_app; auto.
Qed.

Theorem eq_constituents a : forall b,
  term_eqb a b = true -> list_eqb term_eqb (t_constituents a) (t_constituents b) = true.
Proof.
  induction a as [s|s|l d|l g|s IHs p IHp o IHo|s]; intros [s'|s'|l' d'|l' g'|s' p' o'|s'];
    simpl; try discriminate; try (intros ->; reflexivity).
  intros H. rewrite H. simpl.
  apply andb_true_iff in H as [H Ho]. apply andb_true_iff in H as [Hs Hp].
  apply list_eqb_app; [auto|]. apply list_eqb_app; auto.
Qed.

(* ... and pairwise equal components *)
Theorem eq_to_triple a b : term_eqb a b = true ->
  match t_to_triple a, t_to_triple b with
  | Some (s, p, o), Some (s', p', o') => term_eqb s s' && term_eqb p p' && term_eqb o o' = true
  | None, None => True
  | _, _ => False
  end.
Proof. destruct a, b; simpl; try discriminate; auto. Qed.

Theorem built_ok_eq t obs : built_ok t obs = true -> forallb (term_eqb t) obs = true.
Proof.
  unfold built_ok. induction obs as [|x obs IH]; simpl; auto.
  intros H. apply andb_true_iff in H as [H1 H2]. rewrite (term_same_eqb _ _ H1). simpl. auto.
Qed.

(* `lex * ns_term` is equal to a typed literal exactly when NsTerm::eq accepts its datatype *)
Theorem ns_lit_eq ns sfx lex lex' other :
  term_eqb (ns_lit ns sfx lex) (LitDt lex' other) = str_eqb lex lex' && ns_iri_eqb ns sfx other.
Proof. unfold ns_lit. simpl. rewrite ns_term_eq_is_default. reflexivity. Qed.

(* graph names: an equivalence relation; the default graph is equal to itself only *)
Theorem gname_eqb_refl a : gname_eqb a a = true.
Proof. destruct a; simpl; auto using term_eqb_refl. Qed.
Theorem gname_eqb_sym a b : gname_eqb a b = gname_eqb b a.
Proof. destruct a, b; simpl; auto using term_eqb_sym. Qed.
Theorem gname_eqb_trans a b c : gname_eqb a b = true -> gname_eqb b c = true -> gname_eqb a c = true.
Proof. destruct a, b, c; simpl; try discriminate; eauto using term_eqb_trans. Qed.
Theorem gname_default a : gname_eqb None a = true <-> a = None.
Proof. destruct a; simpl; split; congruence. Qed.

(* ====================== the calls made on the Hasher ====================== *)
Lemma calls_bytes_app a b : calls_bytes (a ++ b) = calls_bytes a ++ calls_bytes b.
Proof. apply flat_map_app. Qed.
Lemma calls_bytes_str s : calls_bytes (calls_str s) = hash_str s.
Proof. unfold calls_bytes, calls_str, hash_str. cbn [flat_map snd]. rewrite app_nil_r. reflexivity. Qed.
Lemma calls_bytes_chars l : calls_bytes (map call_char l) = flat_map (le_bytes 4) l.
Proof. induction l as [|c l IH]; [reflexivity|]. unfold calls_bytes in *. simpl map. simpl flat_map at 1. rewrite IH. reflexivity. Qed.

(* a boundary-insensitive hasher sees the byte stream of Common/Term.v *)
Lemma calls_bytes_kind k : calls_bytes (calls_kind k) = le_bytes 8 (kind_rank k).
Proof. unfold calls_bytes, calls_kind. cbn [flat_map snd]. apply app_nil_r. Qed.
Theorem hash_calls_bytes t : calls_bytes (hash_calls t) = hash_stream t.
Proof.
  induction t as [s|s|l d|l g|s IHs p IHp o IHo|s]; cbn [hash_calls hash_stream];
    rewrite calls_bytes_app, calls_bytes_kind; apply f_equal.
  - apply calls_bytes_str.
  - apply calls_bytes_str.
  - rewrite calls_bytes_app, !calls_bytes_str. reflexivity.
  - rewrite calls_bytes_app, calls_bytes_str. apply f_equal.
    change (call_char 64 :: map call_char (lower g)) with ([call_char 64] ++ map call_char (lower g)).
    rewrite calls_bytes_app, calls_bytes_chars. reflexivity.
  - rewrite !calls_bytes_app, IHs, IHp, IHo. reflexivity.
  - apply calls_bytes_str.
Qed.

Lemma hash_calls_canon a : hash_calls (canon a) = hash_calls a.
Proof.
  induction a as [s|s|l d|l t|s IHs p IHp o IHo|s]; simpl; auto.
  - rewrite lower_idem. reflexivity.
  - rewrite IHs, IHp, IHo. reflexivity.
Qed.

(* equal terms make the same calls on the hasher ... *)
Theorem eq_same_hash_calls a b : term_eqb a b = true -> hash_calls a = hash_calls b.
Proof.
  intros H. apply term_eqb_canon in H.
  rewrite <- (hash_calls_canon a), H. apply hash_calls_canon.
Qed.
(* ... hence the same digest with EVERY hasher, whatever it does with the boundaries of the calls *)
Theorem eq_same_digest (S : Type) (step : S -> hcall -> S) (s0 : S) a b :
  term_eqb a b = true -> run_hasher step s0 a = run_hasher step s0 b.
Proof. intros H. unfold run_hasher. rewrite (eq_same_hash_calls a b H). reflexivity. Qed.

Lemma hcall_eqb_spec x y : hcall_eqb x y = true <-> x = y.
Proof.
  destruct x as [m1 b1], y as [m2 b2]. unfold hcall_eqb. simpl.
  rewrite andb_true_iff, N.eqb_eq, str_eqb_eq. split; [intros [-> ->]; reflexivity | intros E; injection E; auto].
Qed.
Theorem hash_calls_ok_spec t obs : hash_calls_ok t obs = true <-> obs = hash_calls t.
Proof. unfold hash_calls_ok. rewrite (list_eqb_spec hcall_eqb hcall_eqb_spec). split; congruence. Qed.
(* what is accepted for a term is accepted for every equal term, and only the model's calls are accepted *)
Theorem hash_calls_ok_eq a b obs : term_eqb a b = true -> hash_calls_ok a obs = hash_calls_ok b obs.
Proof. intros H. unfold hash_calls_ok. rewrite (eq_same_hash_calls a b H). reflexivity. Qed.

(* NsTerm: the calls are those of the equal IRI *)
Theorem ns_hash_is_default ns sfx other :
  ns_iri_eqb ns sfx other = true -> ns_hash_calls ns sfx = hash_calls (Iri other).
Proof.
  intros H. rewrite ns_term_eq_is_default in H. unfold ns_hash_calls. apply eq_same_hash_calls. exact H.
Qed.
Lemma utf8_app a b : utf8 (a ++ b) = utf8 a ++ utf8 b.
Proof. apply flat_map_app. Qed.
(* feeding namespace and suffix in two calls gives the same bytes (SipHash cannot tell) but never the same calls *)
Theorem ns_split_same_bytes ns sfx : calls_bytes (ns_split_calls ns sfx) = hash_stream (Iri (ns ++ sfx)).
Proof.
  unfold ns_split_calls, calls_bytes, calls_kind. cbn [flat_map app snd hash_stream kind_of hash_str].
  unfold hash_str. rewrite utf8_app, <- !app_assoc. reflexivity.
Qed.
Theorem ns_split_other_calls ns sfx : hash_calls_ok (Iri (ns ++ sfx)) (ns_split_calls ns sfx) = false.
Proof.
  unfold hash_calls_ok, ns_split_calls. cbn [hash_calls kind_of calls_kind calls_str app list_eqb].
  unfold hcall_eqb at 3. cbn [fst m_u8 m_write]. rewrite !andb_false_r. reflexivity.
Qed.

(* ====================== the string stashes ====================== *)
Lemma stash_mem_in s st : stash_mem s st = true <-> In s st.
Proof.
  unfold stash_mem. rewrite existsb_exists. split.
  - intros [x [Hx E]]. apply str_eqb_eq in E. subst. exact Hx.
  - intros H. exists s. split; [exact H | apply str_eqb_refl].
Qed.
Lemma find_str s st : In s st -> find (str_eqb s) st = Some s.
Proof.
  induction st as [|a st IH]; simpl; [tauto|]. intros H.
  destruct (str_eqb s a) eqn:E; [apply str_eqb_eq in E; subst; reflexivity|].
  destruct H as [->|H]; [rewrite str_eqb_refl in E; discriminate | auto].
Qed.
Lemma stash_add_in st s x : In x (stash_add st s) <-> In x st \/ x = s.
Proof.
  unfold stash_add. destruct (stash_mem s st) eqn:E.
  - apply stash_mem_in in E. split; [auto | intros [H| ->]; auto].
  - simpl. split; [intros [<-|H]; auto | intros [H| ->]; auto].
Qed.
(* copy_str hands out the very text it was given *)
Theorem copy_str_spec st s : copy_str st s = (stash_add st s, s).
Proof.
  unfold copy_str, stash_get. rewrite (find_str s (stash_add st s)); [reflexivity|].
  apply stash_add_in. auto.
Qed.
Lemma copy_term_spec t : forall st, copy_term st t = (fold_left stash_add (term_strs t) st, t).
Proof.
  induction t as [s|s|l d|l g|s IHs p IHp o IHo|s]; intros st; cbn [copy_term term_strs];
    rewrite ?copy_str_spec; try reflexivity.
  rewrite IHs, IHp, IHo, !fold_left_app. reflexivity.
Qed.
Lemma copy_terms_spec ts : forall st, copy_terms st ts = (fold_left stash_add (flat_map term_strs ts) st, ts).
Proof.
  induction ts as [|t r IH]; intros st; cbn [copy_terms flat_map]; [reflexivity|].
  rewrite copy_term_spec, IH, fold_left_app. reflexivity.
Qed.
(* a stashed copy is the SAME term: no normalisation of any kind (scheme / host / percent-encoding case,
   dot segments, ports, NFC, tag case ...), whatever the stash already holds *)
Theorem copy_term_same st t : snd (copy_term st t) = t.
Proof. rewrite copy_term_spec. reflexivity. Qed.
Theorem copy_term_eqb st t : term_eqb t (snd (copy_term st t)) = true.
Proof. rewrite copy_term_same. apply term_eqb_refl. Qed.
Theorem copy_term_hash st t : hash_calls (snd (copy_term st t)) = hash_calls t.
Proof. rewrite copy_term_same. reflexivity. Qed.
Theorem copy_terms_same st ts : snd (copy_terms st ts) = ts.
Proof. rewrite copy_terms_spec. reflexivity. Qed.
(* distinct terms stay distinct (however "equivalent" their IRIs look), equal terms stay equal *)
Theorem copy_term_inj st1 st2 a b : snd (copy_term st1 a) = snd (copy_term st2 b) -> a = b.
Proof. rewrite !copy_term_same. auto. Qed.

Lemma fold_add_in l : forall st x, In x (fold_left stash_add l st) <-> In x st \/ In x l.
Proof.
  induction l as [|s l IH]; intros st x; simpl; [tauto|].
  rewrite IH, stash_add_in. split; [intros [[H|H]|H]; auto | intros [H|[H|H]]; auto].
Qed.
Lemma stash_add_nodup st s : NoDup st -> NoDup (stash_add st s).
Proof.
  intros H. unfold stash_add. destruct (stash_mem s st) eqn:E; [exact H|].
  constructor; [|exact H]. intros Hin. apply stash_mem_in in Hin. congruence.
Qed.
Lemma fold_add_nodup l : forall st, NoDup st -> NoDup (fold_left stash_add l st).
Proof. induction l as [|s l IH]; intros st H; simpl; [exact H|]. apply IH, stash_add_nodup, H. Qed.
(* the stash holds exactly the strings of what was copied into it (and what it held before), each once *)
Theorem stash_content st t x : In x (fst (copy_term st t)) <-> In x st \/ In x (term_strs t).
Proof. rewrite copy_term_spec. apply fold_add_in. Qed.
Theorem stash_nodup st t : NoDup st -> NoDup (fst (copy_term st t)).
Proof. rewrite copy_term_spec. apply fold_add_nodup. Qed.
Theorem stash_run_content ts x : In x (fst (copy_terms [] ts)) <-> In x (flat_map term_strs ts).
Proof. rewrite copy_terms_spec. cbn [fst]. rewrite fold_add_in. simpl. tauto. Qed.
Theorem stash_run_nodup ts : NoDup (fst (copy_terms [] ts)).
Proof. rewrite copy_terms_spec. apply fold_add_nodup. constructor. Qed.
(* copying again changes nothing *)
Lemma fold_add_id l : forall st, (forall x, In x l -> In x st) -> fold_left stash_add l st = st.
Proof.
  induction l as [|s l IH]; intros st H; simpl; [reflexivity|].
  assert (E : stash_add st s = st).
  { unfold stash_add. assert (M : stash_mem s st = true) by (apply stash_mem_in, H; simpl; auto). rewrite M. reflexivity. }
  rewrite E. apply IH. intros x Hx. apply H. simpl; auto.
Qed.
Theorem copy_term_idem st t : copy_term (fst (copy_term st t)) t = (fst (copy_term st t), t).
Proof.
  rewrite !copy_term_spec. cbn [fst]. f_equal. apply fold_add_id.
  intros x Hx. apply fold_add_in. auto.
Qed.
(* what the harness checker accepts: the copies handed out spell the originals *)
Theorem stash_run_ok_spec ts copies len :
  stash_run_ok ts copies len = true ->
  copies = ts /\ len = N.of_nat (length (fst (copy_terms [] ts))).
Proof.
  unfold stash_run_ok. rewrite copy_terms_spec. cbn [fst]. rewrite andb_true_iff, N.eqb_eq.
  unfold terms_same. rewrite (list_eqb_spec term_same term_same_spec). intros [-> ->]. auto.
Qed.
