(* C01/Model.v -- the in-memory graphs and datasets of sophia_inmem
   (inmem/src/index.rs, graph.rs, graph/_iter.rs, dataset.rs, dataset/_iter.rs), the default
   methods of sophia_api's Graph/MutableGraph/Dataset/MutableDataset traits that these stores
   inherit (api/src/graph.rs, api/src/dataset.rs), the std-collection stores of
   api/src/{graph,dataset}/_foreign_impl.rs, and the specification machine (a mathematical set).

   Terms are identifiers (N): the harness interns each Term::eq class to one identifier
   (lawfulness of Term::eq/Hash is property C02).  BTreeSet<[I;k]> is a strictly sorted
   duplicate-free list under the lexicographic order (std's B-tree is trusted).
   Definitions only. *)
From Sophia.Common Require Export Prelude.

(* ================================================================================== *)
(* 1. BTreeSet<[I;k]>: strictly sorted lists under the lexicographic order of [key]    *)
(* ================================================================================== *)
Section SortedSet.
Variable A : Type.
Variable key : A -> list N.

Definition cmp (x y : A) : comparison := str_cmp (key x) (key y).
Definition leb (x y : A) : bool := match cmp x y with Gt => false | _ => true end.

(* BTreeSet::insert: true iff the value was not present *)
Fixpoint set_insert (x : A) (l : list A) : list A * bool :=
  match l with
  | [] => ([x], true)
  | y :: l' =>
      match cmp x y with
      | Lt => (x :: l, true)
      | Eq => (l, false)
      | Gt => let '(r, b) := set_insert x l' in (y :: r, b)
      end
  end.

(* BTreeSet::remove: true iff the value was present *)
Fixpoint set_remove (x : A) (l : list A) : list A * bool :=
  match l with
  | [] => ([], false)
  | y :: l' =>
      match cmp x y with
      | Lt => (l, false)
      | Eq => (l', true)
      | Gt => let '(r, b) := set_remove x l' in (y :: r, b)
      end
  end.

Fixpoint set_contains (x : A) (l : list A) : bool :=
  match l with
  | [] => false
  | y :: l' => match cmp x y with Lt => false | Eq => true | Gt => set_contains x l' end
  end.

(* BTreeSet::range(lo..=hi): skip what is below lo, yield while not above hi *)
Fixpoint drop_below (lo : A) (l : list A) : list A :=
  match l with
  | [] => []
  | y :: l' => if leb lo y then l else drop_below lo l'
  end.
Fixpoint take_upto (hi : A) (l : list A) : list A :=
  match l with
  | [] => []
  | y :: l' => if leb y hi then y :: take_upto hi l' else []
  end.
Definition set_range (lo hi : A) (l : list A) : list A := take_upto hi (drop_below lo l).
Definition between (lo hi x : A) : bool := leb lo x && leb x hi.
End SortedSet.

Definition t3 := (N * N * N)%type.
Definition t4 := (N * N * N * N)%type.
Definition key3 (t : t3) : list N := let '(a, b, c) := t in [a; b; c].
Definition key4 (t : t4) : list N := let '(a, b, c, d) := t in [a; b; c; d].

(* ================================================================================== *)
(* 2. inmem/src/index.rs : SimpleTermIndex<I>;  [max] is I::MAX, ZERO is 0              *)
(* ================================================================================== *)
Record tindex := mkTI { t2i : list (N * N) (* HashMap term -> index *); i2t : list N (* Vec *) }.
Definition ti_empty : tindex := mkTI [] [].

Fixpoint assoc (t : N) (l : list (N * N)) : option N :=
  match l with
  | [] => None
  | (k, v) :: l' => if N.eqb k t then Some v else assoc t l'
  end.
Definition tlen (ti : tindex) : N := N.of_nat (length (i2t ti)).
Definition get_index (ti : tindex) (t : N) : option N := assoc t (t2i ti).
(* Err(TermIndexFullError) is None; the index is returned unchanged in that case *)
Definition ensure_index (max : N) (ti : tindex) (t : N) : tindex * option N :=
  match assoc t (t2i ti) with
  | Some i => (ti, Some i)                                  (* Entry::Occupied *)
  | None =>                                                  (* Entry::Vacant *)
      let i := tlen ti in
      if max <=? i then (ti, None)                           (* i >= I::MAX *)
      else (mkTI ((t, i) :: t2i ti) (i2t ti ++ [t]), Some i)
  end.
Definition get_term (ti : tindex) (i : N) : N := nth (N.to_nat i) (i2t ti) 0.
(* GraphNameIndex: the default graph is represented by MAX *)
Definition get_graph_name (max : N) (ti : tindex) (i : N) : option N :=
  if N.eqb i max then None else Some (get_term ti i).
Definition get_gn_index (max : N) (ti : tindex) (g : option N) : option N :=
  match g with None => Some max | Some t => get_index ti t end.

(* ================================================================================== *)
(* 3. quads and matchers                                                                *)
(* ================================================================================== *)
Record quad := mkQ { qs : N; qp : N; qo : N; qg : option N }.
Definition quad_eqb (a b : quad) : bool :=
  N.eqb (qs a) (qs b) && N.eqb (qp a) (qp b) && N.eqb (qo a) (qo b) && opt_eqb N.eqb (qg a) (qg b).

(* TermMatcher: matches + the optional constant(); GraphNameMatcher likewise.
   Contract (api/src/term/matcher/_trait.rs): constant() = Some(c) only if matches(x) <=> x eq c *)
Record tmatcher := mkTM { tm_pred : N -> bool; tm_const : option N }.
Record gmatcher := mkGM { gm_pred : option N -> bool; gm_const : option (option N) }.
Definition tm_wf (m : tmatcher) : Prop :=
  forall c, tm_const m = Some c -> forall x, tm_pred m x = N.eqb x c.
Definition gm_wf (m : gmatcher) : Prop :=
  forall c, gm_const m = Some c -> forall x, gm_pred m x = opt_eqb N.eqb x c.

(* TermMatcher::gn (api/src/term/matcher/_term_matcher_gn.rs) *)
Definition tm_gn (m : tmatcher) : gmatcher :=
  mkGM (fun g => match g with Some t => tm_pred m t | None => false end)
       (option_map Some (tm_const m)).
(* [T;N] / [GraphName<T>;N] as matchers: used by contains() with N = 1 *)
Definition tm_array (l : list N) : tmatcher :=
  mkTM (fun x => existsb (fun mine => N.eqb mine x) l) (match l with [c] => Some c | _ => None end).
Definition gm_array (l : list (option N)) : gmatcher :=
  mkGM (fun x => existsb (fun mine => opt_eqb N.eqb mine x) l) (match l with [c] => Some c | _ => None end).

(* Quad::matched_by / Triple::matched_by ([isgraph]: no graph-name component) *)
Definition qmatch (isgraph : bool) (sm pm om : tmatcher) (gm : gmatcher) (q : quad) : bool :=
  tm_pred sm (qs q) && tm_pred pm (qp q) && tm_pred om (qo q) && (isgraph || gm_pred gm (qg q)).

(* ================================================================================== *)
(* 4. inmem/src/graph/_iter.rs                                                          *)
(* ================================================================================== *)
Record tdata := mkTD { td_i : N; td_t : N; td_b : bool }.
Definition td_uninit (ti : tindex) (i : N) : tdata := mkTD i (get_term ti i) true.
Definition td_new (ti : tindex) (m : tmatcher) (i : N) : tdata :=
  let t := get_term ti i in mkTD i t (tm_pred m t).
Definition td_update (ti : tindex) (m : tmatcher) (i : N) : tdata :=
  let t := get_term ti i in mkTD i t (tm_pred m t).

(* SpoMatchingIterator::next, unfolded over the remaining rows *)
Fixpoint spo_loop (ti : tindex) (sm pm om : tmatcher) (s p o : tdata) (rows : list t3) : list t3 :=
  match rows with
  | [] => []
  | (si, pi, oi) :: rest =>
      let s := if negb (N.eqb si (td_i s)) then td_update ti sm si else s in
      if negb (td_b s) then spo_loop ti sm pm om s p o rest else
      let p := if negb (N.eqb pi (td_i p)) then td_update ti pm pi else p in
      if negb (td_b p) then spo_loop ti sm pm om s p o rest else
      let o := td_update ti om oi in
      if negb (td_b o) then spo_loop ti sm pm om s p o rest
      else (td_t s, td_t p, td_t o) :: spo_loop ti sm pm om s p o rest
  end.
Definition spo_boxed (ti : tindex) (rows : list t3) (sm pm om : tmatcher) : list t3 :=
  match rows with
  | [] => []
  | (si, pi, oi) :: _ =>
      spo_loop ti sm pm om (td_new ti sm si) (td_new ti pm pi) (td_uninit ti oi) rows
  end.

(* BcMatchingIterator: the first component is decoded once, from the first row *)
Fixpoint bc_loop (ti : tindex) (bm cm : tmatcher) (a : N) (b c : tdata) (rows : list t3) : list t3 :=
  match rows with
  | [] => []
  | (ai, bi, ci) :: rest =>
      let b := if negb (N.eqb bi (td_i b)) then td_update ti bm bi else b in
      if negb (td_b b) then bc_loop ti bm cm a b c rest else
      let c := td_update ti cm ci in
      if negb (td_b c) then bc_loop ti bm cm a b c rest
      else (a, td_t b, td_t c) :: bc_loop ti bm cm a b c rest
  end.
Definition bc_boxed (ti : tindex) (rows : list t3) (bm cm : tmatcher) (to_spo : t3 -> t3) : list t3 :=
  match rows with
  | [] => []
  | (ai, bi, ci) :: _ =>
      map to_spo (bc_loop ti bm cm (get_term ti ai) (td_new ti bm bi) (td_uninit ti ci) rows)
  end.

(* ================================================================================== *)
(* 5. inmem/src/graph.rs                                                                *)
(* ================================================================================== *)
Record gstore := mkG { g_ti : tindex; g_spo : list t3; g_pos : list t3; g_osp : list t3 }.
Definition g_empty : gstore := mkG ti_empty [] [] [].
Definition g_set_ti (st : gstore) (ti : tindex) : gstore := mkG ti (g_spo st) (g_pos st) (g_osp st).

(* MutableGraph::insert of GenericLightGraph (fast = false) / GenericFastGraph (fast = true) *)
Definition g_insert (fast : bool) (max : N) (st : gstore) (q : quad) : gstore * option bool :=
  match ensure_index max (g_ti st) (qs q) with
  | (ti1, None) => (g_set_ti st ti1, None)
  | (ti1, Some i_s) =>
  match ensure_index max ti1 (qp q) with
  | (ti2, None) => (g_set_ti st ti2, None)
  | (ti2, Some i_p) =>
  match ensure_index max ti2 (qo q) with
  | (ti3, None) => (g_set_ti st ti3, None)
  | (ti3, Some i_o) =>
      let '(spo', ch) := set_insert t3 key3 (i_s, i_p, i_o) (g_spo st) in
      if fast then
        if ch then
          (mkG ti3 spo' (fst (set_insert t3 key3 (i_p, i_o, i_s) (g_pos st)))
                        (fst (set_insert t3 key3 (i_o, i_s, i_p) (g_osp st))), Some true)
        else (g_set_ti st ti3, Some false)
      else (mkG ti3 spo' (g_pos st) (g_osp st), Some ch)
  end end end.

Definition g_remove (fast : bool) (st : gstore) (q : quad) : gstore * bool :=
  match get_index (g_ti st) (qs q) with None => (st, false) | Some i_s =>
  match get_index (g_ti st) (qp q) with None => (st, false) | Some i_p =>
  match get_index (g_ti st) (qo q) with None => (st, false) | Some i_o =>
      let '(spo', ch) := set_remove t3 key3 (i_s, i_p, i_o) (g_spo st) in
      if fast then
        if ch then
          (mkG (g_ti st) spo' (fst (set_remove t3 key3 (i_p, i_o, i_s) (g_pos st)))
                              (fst (set_remove t3 key3 (i_o, i_s, i_p) (g_osp st))), true)
        else (st, false)
      else (mkG (g_ti st) spo' (g_pos st) (g_osp st), ch)
  end end end.

Definition dec3 (ti : tindex) (t : t3) : t3 :=
  let '(a, b, c) := t in (get_term ti a, get_term ti b, get_term ti c).
Definition q_of_t3 (t : t3) : quad := let '(s, p, o) := t in mkQ s p o None.
(* Graph::triples *)
Definition g_all (st : gstore) : list quad := map (fun t => q_of_t3 (dec3 (g_ti st) t)) (g_spo st).

(* the `match sm.constant().map(get_index)` prologue of the Fast stores *)
Definition early {R} (b : option (option N)) (k : option N -> list R) : list R :=
  match b with
  | None => k None
  | Some None => []
  | Some (Some i) => k (Some i)
  end.
Definition bind_t (ti : tindex) (m : tmatcher) : option (option N) :=
  option_map (get_index ti) (tm_const m).
Definition third3 (t : t3) : N := let '(_, _, c) := t in c.

(* GenericFastGraph::triples_matching *)
Definition fg_query (max : N) (st : gstore) (sm pm om : tmatcher) : list t3 :=
  let ti := g_ti st in
  let gt := get_term ti in
  early (bind_t ti sm) (fun si =>
  early (bind_t ti pm) (fun pi =>
  early (bind_t ti om) (fun oi =>
  match si, pi, oi with
  | Some si, Some pi, Some oi =>
      if set_contains t3 key3 (si, pi, oi) (g_spo st) then [(gt si, gt pi, gt oi)] else []
  | Some si, Some pi, None =>
      let s := gt si in let p := gt pi in
      map (fun o => (s, p, o))
          (filter (tm_pred om) (map (fun t => gt (third3 t))
             (set_range t3 key3 (si, pi, 0) (si, pi, max) (g_spo st))))
  | Some si, None, None =>
      bc_boxed ti (set_range t3 key3 (si, 0, 0) (si, max, max) (g_spo st)) pm om (fun spo => spo)
  | None, Some pi, Some oi =>
      let p := gt pi in let o := gt oi in
      map (fun s => (s, p, o))
          (filter (tm_pred sm) (map (fun t => gt (third3 t))
             (set_range t3 key3 (pi, oi, 0) (pi, oi, max) (g_pos st))))
  | None, Some pi, None =>
      bc_boxed ti (set_range t3 key3 (pi, 0, 0) (pi, max, max) (g_pos st)) om sm
               (fun '(p, o, s) => (s, p, o))
  | Some si, None, Some oi =>
      let o := gt oi in let s := gt si in
      map (fun p => (s, p, o))
          (filter (tm_pred pm) (map (fun t => gt (third3 t))
             (set_range t3 key3 (oi, si, 0) (oi, si, max) (g_osp st))))
  | None, None, Some oi =>
      bc_boxed ti (set_range t3 key3 (oi, 0, 0) (oi, max, max) (g_osp st)) sm pm
               (fun '(o, s, p) => (s, p, o))
  | None, None, None => spo_boxed ti (g_spo st) sm pm om
  end))).

(* GenericLightGraph::triples_matching *)
Definition lg_query (max : N) (st : gstore) (sm pm om : tmatcher) : list t3 :=
  let ti := g_ti st in
  let gt := get_term ti in
  match tm_const sm with
  | Some sc =>
      match get_index ti sc with None => [] | Some si =>
      let s := gt si in
      match tm_const pm with
      | Some pc =>
          match get_index ti pc with None => [] | Some pi =>
          let p := gt pi in
          match tm_const om with
          | Some oc =>
              match get_index ti oc with None => [] | Some oi =>
              let o := gt oi in
              if set_contains t3 key3 (si, pi, oi) (g_spo st) then [(s, p, o)] else []
              end
          | None =>
              map (fun o => (s, p, o))
                  (filter (tm_pred om) (map (fun t => gt (third3 t))
                     (set_range t3 key3 (si, pi, 0) (si, pi, max) (g_spo st))))
          end end
      | None =>
          bc_boxed ti (set_range t3 key3 (si, 0, 0) (si, max, max) (g_spo st)) pm om (fun spo => spo)
      end end
  | None => spo_boxed ti (g_spo st) sm pm om
  end.

Definition g_query (fast : bool) (max : N) (st : gstore) (sm pm om : tmatcher) (gm : gmatcher) : list quad :=
  map q_of_t3 (if fast then fg_query max st sm pm om else lg_query max st sm pm om).

(* ================================================================================== *)
(* 6. inmem/src/dataset/_iter.rs                                                        *)
(* ================================================================================== *)
Definition gname := option N.
Record gdata := mkGD { gd_i : N; gd_t : gname; gd_b : bool }.
Definition gd_uninit (max : N) (ti : tindex) (i : N) : gdata := mkGD i (get_graph_name max ti i) true.
Definition gd_new (max : N) (ti : tindex) (m : gmatcher) (i : N) : gdata :=
  let t := get_graph_name max ti i in mkGD i t (gm_pred m t).
Definition gd_update (max : N) (ti : tindex) (m : gmatcher) (i : N) : gdata :=
  let t := get_graph_name max ti i in mkGD i t (gm_pred m t).

Definition gq := (gname * gname * gname * gname)%type.   (* GnQuad *)
(* unwrap_unchecked on s, p, o: None must never reach it (lemma dinv_sec_rows) *)
Definition unw (x : gname) : N := match x with Some t => t | None => 0 end.
Definition quad_of_gq (x : gq) : quad := let '(g, s, p, o) := x in mkQ (unw s) (unw p) (unw o) g.

(* GspoMatchingIterator *)
Fixpoint gspo_loop (max : N) (ti : tindex) (gm : gmatcher) (sm pm om : tmatcher)
         (g : gdata) (s p o : tdata) (rows : list t4) : list quad :=
  match rows with
  | [] => []
  | (gi, si, pi, oi) :: rest =>
      let g := if negb (N.eqb gi (gd_i g)) then gd_update max ti gm gi else g in
      if negb (gd_b g) then gspo_loop max ti gm sm pm om g s p o rest else
      let s := if negb (N.eqb si (td_i s)) then td_update ti sm si else s in
      if negb (td_b s) then gspo_loop max ti gm sm pm om g s p o rest else
      let p := if negb (N.eqb pi (td_i p)) then td_update ti pm pi else p in
      if negb (td_b p) then gspo_loop max ti gm sm pm om g s p o rest else
      let o := td_update ti om oi in
      if negb (td_b o) then gspo_loop max ti gm sm pm om g s p o rest
      else mkQ (td_t s) (td_t p) (td_t o) (gd_t g) :: gspo_loop max ti gm sm pm om g s p o rest
  end.
Definition gspo_boxed (max : N) (ti : tindex) (rows : list t4) (gm : gmatcher) (sm pm om : tmatcher) : list quad :=
  match rows with
  | [] => []
  | (gi, si, pi, oi) :: _ =>
      gspo_loop max ti gm sm pm om (gd_new max ti gm gi) (td_new ti sm si) (td_new ti pm pi)
                (td_uninit ti oi) rows
  end.

(* BcdMatchingIterator *)
Fixpoint bcd_loop (max : N) (ti : tindex) (bm cm dm : gmatcher) (a : gname) (b c d : gdata)
         (rows : list t4) : list gq :=
  match rows with
  | [] => []
  | (ai, bi, ci, di) :: rest =>
      let b := if negb (N.eqb bi (gd_i b)) then gd_update max ti bm bi else b in
      if negb (gd_b b) then bcd_loop max ti bm cm dm a b c d rest else
      let c := if negb (N.eqb ci (gd_i c)) then gd_update max ti cm ci else c in
      if negb (gd_b c) then bcd_loop max ti bm cm dm a b c d rest else
      let d := gd_update max ti dm di in
      if negb (gd_b d) then bcd_loop max ti bm cm dm a b c d rest
      else (a, gd_t b, gd_t c, gd_t d) :: bcd_loop max ti bm cm dm a b c d rest
  end.
Definition bcd_boxed (max : N) (ti : tindex) (rows : list t4) (bm cm dm : gmatcher) (to_gspo : gq -> gq) : list quad :=
  match rows with
  | [] => []
  | (ai, bi, ci, di) :: _ =>
      map (fun x => quad_of_gq (to_gspo x))
          (bcd_loop max ti bm cm dm (get_graph_name max ti ai) (gd_new max ti bm bi)
                    (gd_new max ti cm ci) (gd_uninit max ti di) rows)
  end.

(* CdMatchingIterator *)
Fixpoint cd_loop (max : N) (ti : tindex) (cm dm : gmatcher) (a b : gname) (c d : gdata)
         (rows : list t4) : list gq :=
  match rows with
  | [] => []
  | (ai, bi, ci, di) :: rest =>
      let c := if negb (N.eqb ci (gd_i c)) then gd_update max ti cm ci else c in
      if negb (gd_b c) then cd_loop max ti cm dm a b c d rest else
      let d := gd_update max ti dm di in
      if negb (gd_b d) then cd_loop max ti cm dm a b c d rest
      else (a, b, gd_t c, gd_t d) :: cd_loop max ti cm dm a b c d rest
  end.
Definition cd_boxed (max : N) (ti : tindex) (rows : list t4) (cm dm : gmatcher) (to_gspo : gq -> gq) : list quad :=
  match rows with
  | [] => []
  | (ai, bi, ci, di) :: _ =>
      map (fun x => quad_of_gq (to_gspo x))
          (cd_loop max ti cm dm (get_graph_name max ti ai) (get_graph_name max ti bi)
                   (gd_new max ti cm ci) (gd_uninit max ti di) rows)
  end.

(* ================================================================================== *)
(* 7. inmem/src/dataset.rs                                                              *)
(* ================================================================================== *)
Record dstore := mkD { d_ti : tindex; d_gspo : list t4; d_gpos : list t4; d_gosp : list t4;
                       d_spog : list t4; d_posg : list t4; d_ospg : list t4 }.
Definition d_empty : dstore := mkD ti_empty [] [] [] [] [] [].
Definition d_set_ti (st : dstore) (ti : tindex) : dstore :=
  mkD ti (d_gspo st) (d_gpos st) (d_gosp st) (d_spog st) (d_posg st) (d_ospg st).

(* MutableDataset::insert of GenericLightDataset (fast = false) / GenericFastDataset (fast = true) *)
Definition d_insert (fast : bool) (max : N) (st : dstore) (q : quad) : dstore * option bool :=
  match ensure_index max (d_ti st) (qs q) with
  | (ti1, None) => (d_set_ti st ti1, None)
  | (ti1, Some i_s) =>
  match ensure_index max ti1 (qp q) with
  | (ti2, None) => (d_set_ti st ti2, None)
  | (ti2, Some i_p) =>
  match ensure_index max ti2 (qo q) with
  | (ti3, None) => (d_set_ti st ti3, None)
  | (ti3, Some i_o) =>
  match (match qg q with
         | None => (ti3, Some max)                      (* get_default_graph_index *)
         | Some gn => ensure_index max ti3 gn end) with
  | (ti4, None) => (d_set_ti st ti4, None)
  | (ti4, Some i_g) =>
      let '(gspo', ch) := set_insert t4 key4 (i_g, i_s, i_p, i_o) (d_gspo st) in
      if fast then
        if ch then
          (mkD ti4 gspo'
               (fst (set_insert t4 key4 (i_g, i_p, i_o, i_s) (d_gpos st)))
               (fst (set_insert t4 key4 (i_g, i_o, i_s, i_p) (d_gosp st)))
               (fst (set_insert t4 key4 (i_s, i_p, i_o, i_g) (d_spog st)))
               (fst (set_insert t4 key4 (i_p, i_o, i_s, i_g) (d_posg st)))
               (fst (set_insert t4 key4 (i_o, i_s, i_p, i_g) (d_ospg st))), Some true)
        else (d_set_ti st ti4, Some false)
      else (mkD ti4 gspo' (d_gpos st) (d_gosp st) (d_spog st) (d_posg st) (d_ospg st), Some ch)
  end end end end.

Definition d_remove (fast : bool) (max : N) (st : dstore) (q : quad) : dstore * bool :=
  match get_index (d_ti st) (qs q) with None => (st, false) | Some i_s =>
  match get_index (d_ti st) (qp q) with None => (st, false) | Some i_p =>
  match get_index (d_ti st) (qo q) with None => (st, false) | Some i_o =>
  match get_gn_index max (d_ti st) (qg q) with None => (st, false) | Some i_g =>
      let '(gspo', ch) := set_remove t4 key4 (i_g, i_s, i_p, i_o) (d_gspo st) in
      if fast then
        if ch then
          (mkD (d_ti st) gspo'
               (fst (set_remove t4 key4 (i_g, i_p, i_o, i_s) (d_gpos st)))
               (fst (set_remove t4 key4 (i_g, i_o, i_s, i_p) (d_gosp st)))
               (fst (set_remove t4 key4 (i_s, i_p, i_o, i_g) (d_spog st)))
               (fst (set_remove t4 key4 (i_p, i_o, i_s, i_g) (d_posg st)))
               (fst (set_remove t4 key4 (i_o, i_s, i_p, i_g) (d_ospg st))), true)
        else (st, false)
      else (mkD (d_ti st) gspo' (d_gpos st) (d_gosp st) (d_spog st) (d_posg st) (d_ospg st), ch)
  end end end end.

Definition dec4 (max : N) (ti : tindex) (t : t4) : quad :=
  let '(g, s, p, o) := t in
  mkQ (get_term ti s) (get_term ti p) (get_term ti o) (get_graph_name max ti g).
(* Dataset::quads *)
Definition d_all (max : N) (st : dstore) : list quad := map (dec4 max (d_ti st)) (d_gspo st).

Definition bind_g (max : N) (ti : tindex) (m : gmatcher) : option (option N) :=
  option_map (get_gn_index max ti) (gm_const m).
Definition fourth4 (t : t4) : N := let '(_, _, _, d) := t in d.

(* GenericFastDataset::quads_matching: the 16 arms in the order of the source *)
Definition fd_query (max : N) (st : dstore) (sm pm om : tmatcher) (gm : gmatcher) : list quad :=
  let ti := d_ti st in
  let gt := get_term ti in
  let ggn := get_graph_name max ti in
  early (bind_t ti sm) (fun si =>
  early (bind_t ti pm) (fun pi =>
  early (bind_t ti om) (fun oi =>
  early (bind_g max ti gm) (fun gi =>
  match gi, si, pi, oi with
  | Some gi, Some si, Some pi, Some oi =>
      if set_contains t4 key4 (gi, si, pi, oi) (d_gspo st)
      then [mkQ (gt si) (gt pi) (gt oi) (ggn gi)] else []
  | Some gi, Some si, Some pi, None =>
      let g := ggn gi in let s := gt si in let p := gt pi in
      map (fun o => mkQ s p o g)
          (filter (tm_pred om) (map (fun q => gt (fourth4 q))
             (set_range t4 key4 (gi, si, pi, 0) (gi, si, pi, max) (d_gspo st))))
  | Some gi, Some si, None, Some oi =>
      let g := ggn gi in let o := gt oi in let s := gt si in
      map (fun p => mkQ s p o g)
          (filter (tm_pred pm) (map (fun q => gt (fourth4 q))
             (set_range t4 key4 (gi, oi, si, 0) (gi, oi, si, max) (d_gosp st))))
  | Some gi, None, Some pi, Some oi =>
      let g := ggn gi in let p := gt pi in let o := gt oi in
      map (fun s => mkQ s p o g)
          (filter (tm_pred sm) (map (fun q => gt (fourth4 q))
             (set_range t4 key4 (gi, pi, oi, 0) (gi, pi, oi, max) (d_gpos st))))
  | None, Some si, Some pi, Some oi =>
      let s := gt si in let p := gt pi in let o := gt oi in
      map (fun g => mkQ s p o g)
          (filter (gm_pred gm) (map (fun q => ggn (fourth4 q))
             (set_range t4 key4 (si, pi, oi, 0) (si, pi, oi, max) (d_spog st))))
  | Some gi, Some si, None, None =>
      cd_boxed max ti (set_range t4 key4 (gi, si, 0, 0) (gi, si, max, max) (d_gspo st))
               (tm_gn pm) (tm_gn om) (fun gspo => gspo)
  | Some gi, None, Some pi, None =>
      cd_boxed max ti (set_range t4 key4 (gi, pi, 0, 0) (gi, pi, max, max) (d_gpos st))
               (tm_gn om) (tm_gn sm) (fun '(g, p, o, s) => (g, s, p, o))
  | Some gi, None, None, Some oi =>
      cd_boxed max ti (set_range t4 key4 (gi, oi, 0, 0) (gi, oi, max, max) (d_gosp st))
               (tm_gn sm) (tm_gn pm) (fun '(g, o, s, p) => (g, s, p, o))
  | None, Some si, Some pi, None =>
      cd_boxed max ti (set_range t4 key4 (si, pi, 0, 0) (si, pi, max, max) (d_spog st))
               (tm_gn om) gm (fun '(s, p, o, g) => (g, s, p, o))
  | None, Some si, None, Some oi =>
      cd_boxed max ti (set_range t4 key4 (oi, si, 0, 0) (oi, si, max, max) (d_ospg st))
               (tm_gn pm) gm (fun '(o, s, p, g) => (g, s, p, o))
  | None, None, Some pi, Some oi =>
      cd_boxed max ti (set_range t4 key4 (pi, oi, 0, 0) (pi, oi, max, max) (d_posg st))
               (tm_gn sm) gm (fun '(p, o, s, g) => (g, s, p, o))
  | Some gi, None, None, None =>
      bcd_boxed max ti (set_range t4 key4 (gi, 0, 0, 0) (gi, max, max, max) (d_gspo st))
                (tm_gn sm) (tm_gn pm) (tm_gn om) (fun gspo => gspo)
  | None, Some si, None, None =>
      bcd_boxed max ti (set_range t4 key4 (si, 0, 0, 0) (si, max, max, max) (d_spog st))
                (tm_gn pm) (tm_gn om) gm (fun '(s, p, o, g) => (g, s, p, o))
  | None, None, Some pi, None =>
      bcd_boxed max ti (set_range t4 key4 (pi, 0, 0, 0) (pi, max, max, max) (d_posg st))
                (tm_gn om) (tm_gn sm) gm (fun '(p, o, s, g) => (g, s, p, o))
  | None, None, None, Some oi =>
      bcd_boxed max ti (set_range t4 key4 (oi, 0, 0, 0) (oi, max, max, max) (d_ospg st))
                (tm_gn sm) (tm_gn pm) gm (fun '(o, s, p, g) => (g, s, p, o))
  | None, None, None, None =>
      gspo_boxed max ti (d_gspo st) gm sm pm om
  end)))).

(* GenericLightDataset::quads_matching (note the upper bound [gi, MAX, MAX, ZERO] of the G arm) *)
Definition ld_query (max : N) (st : dstore) (sm pm om : tmatcher) (gm : gmatcher) : list quad :=
  let ti := d_ti st in
  let gt := get_term ti in
  let ggn := get_graph_name max ti in
  match gm_const gm with
  | Some gc =>
      match get_gn_index max ti gc with None => [] | Some gi =>
      let g := ggn gi in
      match tm_const sm with
      | Some sc =>
          match get_index ti sc with None => [] | Some si =>
          let s := gt si in
          match tm_const pm with
          | Some pc =>
              match get_index ti pc with None => [] | Some pi =>
              let p := gt pi in
              match tm_const om with
              | Some oc =>
                  match get_index ti oc with None => [] | Some oi =>
                  let o := gt oi in
                  if set_contains t4 key4 (gi, si, pi, oi) (d_gspo st) then [mkQ s p o g] else []
                  end
              | None =>
                  map (fun o => mkQ s p o g)
                      (filter (tm_pred om) (map (fun q => gt (fourth4 q))
                         (set_range t4 key4 (gi, si, pi, 0) (gi, si, pi, max) (d_gspo st))))
              end end
          | None =>
              cd_boxed max ti (set_range t4 key4 (gi, si, 0, 0) (gi, si, max, max) (d_gspo st))
                       (tm_gn pm) (tm_gn om) (fun gspo => gspo)
          end end
      | None =>
          bcd_boxed max ti (set_range t4 key4 (gi, 0, 0, 0) (gi, max, max, 0) (d_gspo st))
                    (tm_gn sm) (tm_gn pm) (tm_gn om) (fun gspo => gspo)
      end end
  | None => gspo_boxed max ti (d_gspo st) gm sm pm om
  end.

Definition d_query (fast : bool) (max : N) (st : dstore) (sm pm om : tmatcher) (gm : gmatcher) : list quad :=
  if fast then fd_query max st sm pm om gm else ld_query max st sm pm om gm.

(* ================================================================================== *)
(* 8. an implementation = the four required methods; everything else is inherited       *)
(* ================================================================================== *)
Record impl := mkImpl {
  St : Type;
  i_init : St;
  i_insert : St -> quad -> St * option bool;     (* None: Err(TermIndexFullError) *)
  i_remove : St -> quad -> St * bool;
  i_all : St -> list quad;                        (* quads() / triples() *)
  i_query : St -> tmatcher -> tmatcher -> tmatcher -> gmatcher -> list quad;
  i_isgraph : bool                                (* no graph-name component *)
}.

Definition graph_impl (fast : bool) (max : N) : impl :=
  mkImpl gstore g_empty (g_insert fast max) (g_remove fast) g_all (g_query fast max) true.
Definition dataset_impl (fast : bool) (max : N) : impl :=
  mkImpl dstore d_empty (d_insert fast max) (d_remove fast max) (d_all max) (d_query fast max) false.

(* ---------- api/src/{graph,dataset}/_foreign_impl.rs ---------- *)
Definition norm (isgraph : bool) (q : quad) : quad :=
  if isgraph then mkQ (qs q) (qp q) (qo q) None else q.
Definition memq (q : quad) (l : list quad) : bool := existsb (quad_eqb q) l.
Fixpoint remove_first (q : quad) (l : list quad) : list quad :=
  match l with
  | [] => []
  | x :: l' => if quad_eqb q x then l' else x :: remove_first q l'
  end.
(* the default quads_matching: quads().filter_ok(matched_by) *)
Definition default_query (isgraph : bool) (l : list quad) sm pm om gm : list quad :=
  filter (qmatch isgraph sm pm om gm) l.

(* HashSet<Spog|Gspo|[T;3]>, BTreeSet<..>: insert/remove of the std set (modulo Term::eq, C02) *)
Definition hset_impl (isgraph : bool) : impl :=
  mkImpl (list quad) []
    (fun l q => let q := norm isgraph q in if memq q l then (l, Some false) else (l ++ [q], Some true))
    (fun l q => let q := norm isgraph q in
                if memq q l then (filter (fun x => negb (quad_eqb q x)) l, true) else (l, false))
    (fun l => l) (default_query isgraph) isgraph.
(* Vec<Spog<T>>, Vec<[T;3]>: push; remove swap_removes every match and answers true *)
Definition vec_all_impl (isgraph : bool) : impl :=
  mkImpl (list quad) []
    (fun l q => (l ++ [norm isgraph q], Some true))
    (fun l q => (filter (fun x => negb (quad_eqb (norm isgraph q) x)) l, true))
    (fun l => l) (default_query isgraph) isgraph.
(* Vec<Gspo<T>>: push; remove swap_removes the first match (order is not observable here) *)
Definition vec_first_impl : impl :=
  mkImpl (list quad) []
    (fun l q => (l ++ [q], Some true))
    (fun l q => if memq q l then (remove_first q l, true) else (l, false))
    (fun l => l) (default_query false) false.

(* ================================================================================== *)
(* 9. the inherited default methods of api/src/dataset.rs and api/src/graph.rs          *)
(* ================================================================================== *)
(* the harness's term pool: kind, atoms and constituents of each identifier
   (kinds: 0 blank node, 1 IRI, 2 literal, 3 triple, 4 variable) *)
Definition pool := list (N * (N * list N * list N)).
Fixpoint pool_get3 (p : pool) (t : N) : N * list N * list N :=
  match p with
  | [] => (99, [], [])
  | (k, v) :: r => if N.eqb k t then v else pool_get3 r t
  end.
Definition pool_kind (p : pool) (t : N) : N := fst (fst (pool_get3 p t)).
Definition pool_atoms (p : pool) (t : N) : list N := snd (fst (pool_get3 p t)).
Definition pool_constituents (p : pool) (t : N) : list N := snd (pool_get3 p t).
(* iter_spog / Triple::to_spo *)
Definition quad_terms (q : quad) : list N :=
  [qs q; qp q; qo q] ++ match qg q with Some g => [g] | None => [] end.

Inductive enum_kind :=
| ESubjects | EPredicates | EObjects | EGraphNames
| EAtoms (kind : N)          (* blank_nodes 0, iris 1, literals 2, variables 4 *)
| EQuoted.                   (* quoted_triples *)
Definition enum_terms (pl : pool) (k : enum_kind) (l : list quad) : list N :=
  match k with
  | ESubjects => map qs l
  | EPredicates => map qp l
  | EObjects => map qo l
  | EGraphNames => flat_map (fun q => match qg q with Some g => [g] | None => [] end) l
  | EAtoms kind =>
      filter (fun a => N.eqb (pool_kind pl a) kind) (flat_map (pool_atoms pl) (flat_map quad_terms l))
  | EQuoted =>
      filter (fun a => N.eqb (pool_kind pl a) 3) (flat_map (pool_constituents pl) (flat_map quad_terms l))
  end.

Section Defaults.
Variable I : impl.

(* contains: quads_matching([s],[p],[o],[g]).next().is_some() *)
Definition api_contains (s : St I) (q : quad) : bool :=
  match i_query I s (tm_array [qs q]) (tm_array [qp q]) (tm_array [qo q]) (gm_array [qg q]) with
  | [] => false
  | _ :: _ => true
  end.
(* insert_all: try_for_each; stops at the first error, what was inserted stays *)
Fixpoint api_insert_all (s : St I) (l : list quad) (c : N) : St I * option N :=
  match l with
  | [] => (s, Some c)
  | q :: l' =>
      match i_insert I s q with
      | (s', None) => (s', None)
      | (s', Some b) => api_insert_all s' l' (if b then c + 1 else c)
      end
  end.
Fixpoint api_remove_all (s : St I) (l : list quad) (c : N) : St I * N :=
  match l with
  | [] => (s, c)
  | q :: l' => let '(s', b) := i_remove I s q in api_remove_all s' l' (if b then c + 1 else c)
  end.
(* remove_matching: collect quads_matching(..), then remove_all *)
Definition api_remove_matching (s : St I) sm pm om gm : St I * N :=
  api_remove_all s (i_query I s sm pm om gm) 0.
(* retain_matching: collect quads().filter(!matched_by), then remove_all *)
Definition api_retain_matching (s : St I) sm pm om gm : St I :=
  fst (api_remove_all s (filter (fun q => negb (qmatch (i_isgraph I) sm pm om gm q)) (i_all I s)) 0).
End Defaults.

(* ================================================================================== *)
(* 10. histories                                                                        *)
(* ================================================================================== *)
Inductive op :=
| Insert (q : quad) | Remove (q : quad) | Contains (q : quad)
| Query (sm pm om : tmatcher) (gm : gmatcher) | All
| RemoveMatching (sm pm om : tmatcher) (gm : gmatcher)
| RetainMatching (sm pm om : tmatcher) (gm : gmatcher)
| InsertAll (l : list quad) | RemoveAll (l : list quad)
| Enum (k : enum_kind).

Inductive out :=
| OFlag (b : bool) | OCount (n : N) | OErr | OUnit
| OQuads (l : list quad)      (* compared up to order *)
| OTerms (l : list N).        (* compared as a set (the API allows repetitions) *)

Definition step (pl : pool) (I : impl) (s : St I) (o : op) : St I * out :=
  match o with
  | Insert q => let '(s', r) := i_insert I s q in
                (s', match r with Some b => OFlag b | None => OErr end)
  | Remove q => let '(s', b) := i_remove I s q in (s', OFlag b)
  | Contains q => (s, OFlag (api_contains I s q))
  | Query sm pm om gm => (s, OQuads (i_query I s sm pm om gm))
  | All => (s, OQuads (i_all I s))
  | RemoveMatching sm pm om gm => let '(s', n) := api_remove_matching I s sm pm om gm in (s', OCount n)
  | RetainMatching sm pm om gm => (api_retain_matching I s sm pm om gm, OUnit)
  | InsertAll l => let '(s', r) := api_insert_all I s l 0 in
                   (s', match r with Some n => OCount n | None => OErr end)
  | RemoveAll l => let '(s', n) := api_remove_all I s l 0 in (s', OCount n)
  | Enum k => (s, OTerms (enum_terms pl k (i_all I s)))
  end.

Fixpoint run_from (pl : pool) (I : impl) (s : St I) (ops : list op) : list out :=
  match ops with
  | [] => []
  | o :: ops' => let '(s', r) := step pl I s o in r :: run_from pl I s' ops'
  end.
Definition run (pl : pool) (I : impl) (ops : list op) : list out := run_from pl I (i_init I) ops.
Definition final (pl : pool) (I : impl) (ops : list op) : St I :=
  fold_left (fun s o => fst (step pl I s o)) ops (i_init I).

(* ================================================================================== *)
(* 11. the specification machine: a mathematical set of quads                           *)
(* ================================================================================== *)
(* state: the set (duplicate-free list) and the terms interned so far, in order of first use
   (needed only to predict TermIndexFull); [cap = None]: unbounded *)
Record sstate := mkS { s_quads : list quad; s_terms : list N }.
Definition memN (t : N) (l : list N) : bool := existsb (N.eqb t) l.
Definition intern (cap : option N) (ts : list N) (t : N) : option (list N) :=
  if memN t ts then Some ts
  else match cap with
       | Some max => if max <=? N.of_nat (length ts) then None else Some (ts ++ [t])
       | None => Some (ts ++ [t])
       end.
(* terms before the failing one stay interned *)
Fixpoint intern_list (cap : option N) (ts : list N) (l : list N) : list N * bool :=
  match l with
  | [] => (ts, true)
  | t :: l' => match intern cap ts t with None => (ts, false) | Some ts' => intern_list cap ts' l' end
  end.
Definition spec_insert (cap : option N) (isgraph : bool) (sp : sstate) (q : quad) : sstate * option bool :=
  let q := norm isgraph q in
  let '(ts, ok) := intern_list cap (s_terms sp) (quad_terms q) in
  if ok then
    if memq q (s_quads sp) then (mkS (s_quads sp) ts, Some false)
    else (mkS (s_quads sp ++ [q]) ts, Some true)
  else (mkS (s_quads sp) ts, None).
Definition spec_remove (isgraph : bool) (sp : sstate) (q : quad) : sstate * bool :=
  let q := norm isgraph q in
  (mkS (filter (fun x => negb (quad_eqb q x)) (s_quads sp)) (s_terms sp), memq q (s_quads sp)).
Fixpoint spec_insert_all cap isgraph (sp : sstate) (l : list quad) (c : N) : sstate * option N :=
  match l with
  | [] => (sp, Some c)
  | q :: l' =>
      match spec_insert cap isgraph sp q with
      | (sp', None) => (sp', None)
      | (sp', Some b) => spec_insert_all cap isgraph sp' l' (if b then c + 1 else c)
      end
  end.
Fixpoint spec_remove_all isgraph (sp : sstate) (l : list quad) (c : N) : sstate * N :=
  match l with
  | [] => (sp, c)
  | q :: l' => let '(sp', b) := spec_remove isgraph sp q in
               spec_remove_all isgraph sp' l' (if b then c + 1 else c)
  end.

Definition spec_step (pl : pool) (cap : option N) (isgraph : bool) (sp : sstate) (o : op) : sstate * out :=
  match o with
  | Insert q => let '(sp', r) := spec_insert cap isgraph sp q in
                (sp', match r with Some b => OFlag b | None => OErr end)
  | Remove q => let '(sp', b) := spec_remove isgraph sp q in (sp', OFlag b)
  | Contains q => (sp, OFlag (memq (norm isgraph q) (s_quads sp)))
  | Query sm pm om gm => (sp, OQuads (filter (qmatch isgraph sm pm om gm) (s_quads sp)))
  | All => (sp, OQuads (s_quads sp))
  | RemoveMatching sm pm om gm =>
      (mkS (filter (fun q => negb (qmatch isgraph sm pm om gm q)) (s_quads sp)) (s_terms sp),
       OCount (N.of_nat (length (filter (qmatch isgraph sm pm om gm) (s_quads sp)))))
  | RetainMatching sm pm om gm =>
      (mkS (filter (qmatch isgraph sm pm om gm) (s_quads sp)) (s_terms sp), OUnit)
  | InsertAll l => let '(sp', r) := spec_insert_all cap isgraph sp l 0 in
                   (sp', match r with Some n => OCount n | None => OErr end)
  | RemoveAll l => let '(sp', n) := spec_remove_all isgraph sp l 0 in (sp', OCount n)
  | Enum k => (sp, OTerms (enum_terms pl k (s_quads sp)))
  end.
Fixpoint spec_run_from pl cap isgraph (sp : sstate) (ops : list op) : list out :=
  match ops with
  | [] => []
  | o :: ops' => let '(sp', r) := spec_step pl cap isgraph sp o in r :: spec_run_from pl cap isgraph sp' ops'
  end.
Definition spec_run pl cap isgraph (ops : list op) : list out := spec_run_from pl cap isgraph (mkS [] []) ops.
Definition spec_final pl cap isgraph (ops : list op) : sstate :=
  fold_left (fun s o => fst (spec_step pl cap isgraph s o)) ops (mkS [] []).

(* ================================================================================== *)
(* 12. harness-facing part                                                              *)
(* ================================================================================== *)
(* matcher descriptions that both sides can build *)
Inductive mdesc := MAny | MConst (c : N) | MOneOf (l : list N) | MNotOneOf (l : list N).
Definition md (m : mdesc) : tmatcher :=
  match m with
  | MAny => mkTM (fun _ => true) None
  | MConst c => mkTM (fun x => N.eqb x c) (Some c)
  | MOneOf l => mkTM (fun x => existsb (N.eqb x) l) None
  | MNotOneOf l => mkTM (fun x => negb (existsb (N.eqb x) l)) None
  end.
Inductive gdesc := GAny | GConst (c : option N) | GOneOf (l : list (option N)) | GNotOneOf (l : list (option N)).
Definition gd (m : gdesc) : gmatcher :=
  match m with
  | GAny => mkGM (fun _ => true) None
  | GConst c => mkGM (fun x => opt_eqb N.eqb x c) (Some c)
  | GOneOf l => mkGM (fun x => existsb (opt_eqb N.eqb x) l) None
  | GNotOneOf l => mkGM (fun x => negb (existsb (opt_eqb N.eqb x) l)) None
  end.

Inductive config :=
| LightGraph | FastGraph | LightDataset | FastDataset         (* sophia_inmem, any index width *)
| SetGraph | SetDataset                                        (* HashSet / BTreeSet of triples / quads *)
| VecGraph | VecSpogDataset | VecGspoDataset.                  (* Vec<[T;3]>, Vec<Spog<T>>, Vec<Gspo<T>> *)
Definition impl_of (c : config) (max : N) : impl :=
  match c with
  | LightGraph => graph_impl false max
  | FastGraph => graph_impl true max
  | LightDataset => dataset_impl false max
  | FastDataset => dataset_impl true max
  | SetGraph => hset_impl true
  | SetDataset => hset_impl false
  | VecGraph => vec_all_impl true
  | VecSpogDataset => vec_all_impl false
  | VecGspoDataset => vec_first_impl
  end.

(* comparison of outputs up to order: sort by an injective key *)
Definition qkey (q : quad) : list N :=
  [qs q; qp q; qo q] ++ match qg q with None => [0] | Some g => [1; g] end.
Fixpoint ins_sorted (k : list N) (l : list (list N)) : list (list N) :=
  match l with
  | [] => [k]
  | x :: l' => match str_cmp k x with Gt => x :: ins_sorted k l' | _ => k :: l end
  end.
Definition sort_keys (l : list (list N)) : list (list N) := fold_right ins_sorted [] l.
Definition keys_eqb (a b : list (list N)) : bool := list_eqb str_eqb (sort_keys a) (sort_keys b).
Fixpoint insN (k : N) (l : list N) : list N :=
  match l with [] => [k] | x :: l' => if k <=? x then k :: l else x :: insN k l' end.
Definition sortN (l : list N) := fold_right insN [] l.
Fixpoint dedup_sorted (l : list N) : list N :=
  match l with
  | x :: ((y :: _) as r) => if N.eqb x y then dedup_sorted r else x :: dedup_sorted r
  | _ => l
  end.
Definition out_eqb (a b : out) : bool :=
  match a, b with
  | OFlag x, OFlag y => Bool.eqb x y
  | OCount x, OCount y => N.eqb x y
  | OErr, OErr => true
  | OUnit, OUnit => true
  | OQuads x, OQuads y => keys_eqb (map qkey x) (map qkey y)
  | OTerms x, OTerms y => str_eqb (dedup_sorted (sortN x)) (dedup_sorted (sortN y))
  | _, _ => false
  end.

(* a correspondence case: configuration, I::MAX, history, observed outputs *)
Definition case_ok (pl : pool) (c : config) (max : N) (ops : list op) (observed : list out) : bool :=
  list_eqb out_eqb (run pl (impl_of c max) ops) observed.

(* ================================================================================== *)
(* 13. the extended alphabet: bulk constructors, clones, failing sources, term count    *)
(* ================================================================================== *)
(* CollectibleDataset::from_quad_source / CollectibleGraph::from_triple_source (also reached through
   QuadSource::collect_quads / TripleSource::collect_triples).  inmem/src/{dataset,graph}.rs:
   [let mut d = Self::new(); quads.try_for_each_quad(|q| d.insert_quad(q).map(|_| ()))?; Ok(d)], i.e.
   insert_all on the empty store without the count; the std-collection stores of _foreign_impl.rs
   push / insert every item, which is the same fold.  None: Err(SinkError(TermIndexFullError)). *)
Definition api_collect (I : impl) (l : list quad) : option (St I) :=
  match api_insert_all I (i_init I) l 0 with
  | (s, Some _) => Some s
  | (_, None) => None
  end.

Inductive xop :=
| XBase (o : op)
| XClone                                  (* d = d.clone(); the other copy is mutated, then dropped *)
| XCollect (l : list quad) (fail : bool)  (* D::from_quad_source(l [, then a source error]); the result,
                                             if Ok, REPLACES the store; otherwise the store is kept *)
| XInsertAllFail (l : list quad)          (* insert_all of a source that yields l, then fails *)
| XRemoveAllFail (l : list quad)          (* remove_all of a source that yields l, then fails *)
| XTermCount.                             (* SimpleTermIndex::len of the store's term index *)

(* outputs of the new operations: OFlag true = Ok, OFlag false = Err(SourceError), OErr = Err(SinkError) *)
Definition xstep (pl : pool) (I : impl) (tc : St I -> option N) (s : St I) (o : xop) : St I * out :=
  match o with
  | XBase o => step pl I s o
  | XClone => (s, OUnit)
  | XCollect l fail =>
      match api_collect I l with
      | None => (s, OErr)
      | Some s' => if fail then (s, OFlag false) else (s', OFlag true)
      end
  | XInsertAllFail l =>
      let '(s', r) := api_insert_all I s l 0 in
      (s', match r with None => OErr | Some _ => OFlag false end)
  | XRemoveAllFail l => (fst (api_remove_all I s l 0), OFlag false)
  | XTermCount => (s, match tc s with Some n => OCount n | None => OUnit end)
  end.
Fixpoint xrun_from (pl : pool) (I : impl) (tc : St I -> option N) (s : St I) (xs : list xop) : list out :=
  match xs with
  | [] => []
  | o :: xs' => let '(s', r) := xstep pl I tc s o in r :: xrun_from pl I tc s' xs'
  end.

(* the same on the specification machine; [counted]: the store has a term index whose length is observable *)
Definition xspec_step (pl : pool) (cap : option N) (isgraph counted : bool) (sp : sstate) (o : xop) : sstate * out :=
  match o with
  | XBase o => spec_step pl cap isgraph sp o
  | XClone => (sp, OUnit)
  | XCollect l fail =>
      match spec_insert_all cap isgraph (mkS [] []) l 0 with
      | (_, None) => (sp, OErr)
      | (sp', Some _) => if fail then (sp, OFlag false) else (sp', OFlag true)
      end
  | XInsertAllFail l =>
      let '(sp', r) := spec_insert_all cap isgraph sp l 0 in
      (sp', match r with None => OErr | Some _ => OFlag false end)
  | XRemoveAllFail l => (fst (spec_remove_all isgraph sp l 0), OFlag false)
  | XTermCount => (sp, if counted then OCount (N.of_nat (length (s_terms sp))) else OUnit)
  end.
Fixpoint xspec_run_from pl cap isgraph counted (sp : sstate) (xs : list xop) : list out :=
  match xs with
  | [] => []
  | o :: xs' => let '(sp', r) := xspec_step pl cap isgraph counted sp o in
                r :: xspec_run_from pl cap isgraph counted sp' xs'
  end.
Definition xspec_run pl cap isgraph counted (xs : list xop) : list out :=
  xspec_run_from pl cap isgraph counted (mkS [] []) xs.

(* the length of the term index of the four sophia_inmem stores (SimpleTermIndex::len = i2t.len()) *)
Definition term_count (c : config) (max : N) : St (impl_of c max) -> option N :=
  match c return St (impl_of c max) -> option N with
  | LightGraph => fun s => Some (tlen (g_ti s))
  | FastGraph => fun s => Some (tlen (g_ti s))
  | LightDataset => fun s => Some (tlen (d_ti s))
  | FastDataset => fun s => Some (tlen (d_ti s))
  | _ => fun _ => None
  end.
Definition xrun (pl : pool) (c : config) (max : N) (xs : list xop) : list out :=
  xrun_from pl (impl_of c max) (term_count c max) (i_init (impl_of c max)) xs.
Definition xcase_ok (pl : pool) (c : config) (max : N) (xs : list xop) (observed : list out) : bool :=
  list_eqb out_eqb (xrun pl c max xs) observed.

(* ================================================================================== *)
(* 14. SimpleTermIndex<I> used directly through TermIndex / GraphNameIndex              *)
(* ================================================================================== *)
Inductive ti_op :=
| TiEnsure (t : N)              (* ensure_index: Some i / None = Err(TermIndexFullError) *)
| TiGet (t : N)                 (* get_index *)
| TiTerm (i : N)                (* get_term (i valid) -> Some t *)
| TiGraphName (i : N)           (* get_graph_name (i valid or MAX); None = the default graph *)
| TiGnIndex (g : option N)      (* get_graph_name_index *)
| TiDefault                     (* get_default_graph_index -> Some MAX *)
| TiLen                         (* len (and is_empty) -> Some n *)
| TiClone.                      (* ti = ti.clone(), the original is dropped -> None *)
Definition ti_step (max : N) (ti : tindex) (o : ti_op) : tindex * option N :=
  match o with
  | TiEnsure t => ensure_index max ti t
  | TiGet t => (ti, get_index ti t)
  | TiTerm i => (ti, Some (get_term ti i))
  | TiGraphName i => (ti, get_graph_name max ti i)
  | TiGnIndex g => (ti, get_gn_index max ti g)
  | TiDefault => (ti, Some max)
  | TiLen => (ti, Some (tlen ti))
  | TiClone => (ti, None)
  end.
Fixpoint ti_run_from (max : N) (ti : tindex) (ops : list ti_op) : list (option N) :=
  match ops with
  | [] => []
  | o :: ops' => let '(ti', r) := ti_step max ti o in r :: ti_run_from max ti' ops'
  end.
Definition ti_final (max : N) (ops : list ti_op) : tindex :=
  fold_left (fun ti o => fst (ti_step max ti o)) ops ti_empty.
(* what the index must hold according to the specification's [intern] *)
Fixpoint ti_spec (max : N) (ts : list N) (ops : list ti_op) : list N :=
  match ops with
  | [] => ts
  | TiEnsure t :: r => ti_spec max (match intern (Some max) ts t with Some ts' => ts' | None => ts end) r
  | _ :: r => ti_spec max ts r
  end.
Definition ti_case_ok (max : N) (ops : list ti_op) (observed : list (option N)) : bool :=
  list_eqb (opt_eqb N.eqb) (ti_run_from max ti_empty ops) observed.
