(* C11/Proofs.v -- views are coherent with the underlying store. *)
From Sophia.C11 Require Import Model.

Section P.
Variable T : Type.
Variable eqb : T -> T -> bool.
Hypothesis eqb_spec : forall x y, eqb x y = true <-> x = y.

Notation triple := (triple T).
Notation quad := (quad T).
Notation gname := (gname T).
Notation triple_eqb := (triple_eqb T eqb).
Notation quad_eqb := (quad_eqb T eqb).
Notation gname_eqb := (gname_eqb T eqb).

Lemma triple_eqb_spec (a b : triple) : triple_eqb a b = true <-> a = b.
Proof.
  unfold Model.triple_eqb. rewrite !andb_true_iff, !eqb_spec.
  destruct a, b; simpl; split; [intros [[-> ->] ->]; reflexivity | intros E; injection E; auto].
Qed.

Lemma gname_eqb_spec (a b : gname) : gname_eqb a b = true <-> a = b.
Proof.
  destruct a, b; simpl; try rewrite eqb_spec; split; congruence.
Qed.

Lemma quad_eqb_spec (a b : quad) : quad_eqb a b = true <-> a = b.
Proof.
  unfold Model.quad_eqb. rewrite andb_true_iff, triple_eqb_spec, gname_eqb_spec.
  destruct a, b; simpl; split; [intros [-> ->]; reflexivity | intros E; injection E; auto].
Qed.

Lemma quad_eqb_false (a b : quad) : quad_eqb a b = false <-> a <> b.
Proof. rewrite <- quad_eqb_spec. destruct (quad_eqb a b); split; congruence. Qed.
Lemma triple_eqb_false (a b : triple) : triple_eqb a b = false <-> a <> b.
Proof. rewrite <- triple_eqb_spec. destruct (triple_eqb a b); split; congruence. Qed.

Lemma ds_contains_In d q : ds_contains T eqb d q = true <-> In q d.
Proof.
  unfold ds_contains. rewrite existsb_exists. split.
  - intros [x [Hx E]]. apply quad_eqb_spec in E. subst; assumption.
  - intros H. exists q. split; [assumption | apply quad_eqb_spec; reflexivity].
Qed.
Lemma gr_contains_In g t : gr_contains T eqb g t = true <-> In t g.
Proof.
  unfold gr_contains. rewrite existsb_exists. split.
  - intros [x [Hx E]]. apply triple_eqb_spec in E. subst; assumption.
  - intros H. exists t. split; [assumption | apply triple_eqb_spec; reflexivity].
Qed.

(* ---------- the set operations of the store ---------- *)
Lemma NoDup_app_single {A} (l : list A) x : NoDup l -> ~ In x l -> NoDup (l ++ [x]).
Proof.
  induction l as [|y l IH]; simpl; intros Hn Hx.
  - constructor; [intros []|constructor].
  - inversion Hn; subst. constructor.
    + rewrite in_app_iff. simpl. intuition.
    + apply IH; auto.
Qed.

Lemma NoDup_filter {A} (f : A -> bool) l : NoDup l -> NoDup (filter f l).
Proof.
  induction l as [|x l IH]; simpl; intros H; [constructor|].
  inversion H; subst. destruct (f x); auto. constructor; auto.
  rewrite filter_In. tauto.
Qed.

Lemma ds_insert_spec d q d' b :
  ds_insert T eqb d q = (d', b) ->
  b = negb (ds_contains T eqb d q) /\ (forall x, In x d' <-> In x d \/ x = q)
  /\ (NoDup d -> NoDup d').
Proof.
  unfold ds_insert. destruct (ds_contains T eqb d q) eqn:E; intros H; inversion H; subst; clear H.
  - apply ds_contains_In in E. repeat split; auto.
    + intros [H| ->]; auto.
  - repeat split; auto.
    + rewrite in_app_iff. simpl. intuition.
    + rewrite in_app_iff. simpl. intuition.
    + intros Hn. apply NoDup_app_single; auto. rewrite <- ds_contains_In. congruence.
Qed.

Lemma ds_remove_spec d q d' b :
  ds_remove T eqb d q = (d', b) ->
  b = ds_contains T eqb d q /\ (forall x, In x d' <-> In x d /\ x <> q)
  /\ (NoDup d -> NoDup d').
Proof.
  unfold ds_remove. destruct (ds_contains T eqb d q) eqn:E; intros H; inversion H; subst; clear H.
  - repeat split; auto.
    + apply filter_In in H. tauto.
    + apply filter_In in H. destruct H as [_ H]. apply negb_true_iff, quad_eqb_false in H. congruence.
    + intros [H1 H2]. apply filter_In. split; auto. apply negb_true_iff, quad_eqb_false. congruence.
    + apply NoDup_filter.
  - repeat split; auto; try tauto.
    intros ->. apply ds_contains_In in H. congruence.
Qed.

Lemma gr_insert_spec g t g' b :
  gr_insert T eqb g t = (g', b) ->
  b = negb (gr_contains T eqb g t) /\ (forall x, In x g' <-> In x g \/ x = t)
  /\ (NoDup g -> NoDup g').
Proof.
  unfold gr_insert. destruct (gr_contains T eqb g t) eqn:E; intros H; inversion H; subst; clear H.
  - apply gr_contains_In in E. repeat split; auto.
    + intros [H| ->]; auto.
  - repeat split; auto.
    + rewrite in_app_iff. simpl. intuition.
    + rewrite in_app_iff. simpl. intuition.
    + intros Hn. apply NoDup_app_single; auto. rewrite <- gr_contains_In. congruence.
Qed.

Lemma gr_remove_spec g t g' b :
  gr_remove T eqb g t = (g', b) ->
  b = gr_contains T eqb g t /\ (forall x, In x g' <-> In x g /\ x <> t)
  /\ (NoDup g -> NoDup g').
Proof.
  unfold gr_remove. destruct (gr_contains T eqb g t) eqn:E; intros H; inversion H; subst; clear H.
  - repeat split; auto.
    + apply filter_In in H. tauto.
    + apply filter_In in H. destruct H as [_ H]. apply negb_true_iff, triple_eqb_false in H. congruence.
    + intros [H1 H2]. apply filter_In. split; auto. apply negb_true_iff, triple_eqb_false. congruence.
    + apply NoDup_filter.
  - repeat split; auto; try tauto.
    intros ->. apply gr_contains_In in H. congruence.
Qed.

(* ---------- views: content ---------- *)

Lemma map_filter_comm {A B} (f : A -> B) (p : B -> bool) l :
  filter p (map f l) = map f (filter (fun x => p (f x)) l).
Proof. induction l as [|x l IH]; simpl; auto. destruct (p (f x)); simpl; congruence. Qed.

Lemma filter_filter {A} (p q : A -> bool) l :
  filter p (filter q l) = filter (fun x => q x && p x) l.
Proof. induction l as [|x l IH]; simpl; auto. destruct (q x); simpl; [destruct (p x)|]; congruence. Qed.

(* the union graph shows exactly the triples of all quads (as a multiset: one per quad) *)
Theorem union_content d : union_triples T d = map qt d.
Proof. reflexivity. Qed.

Theorem union_query_is_filter d sm pm om :
  union_matching T d sm pm om = filter (triple_matches T sm pm om) (union_triples T d).
Proof.
  unfold union_matching, union_triples, ds_quads_matching. rewrite map_filter_comm.
  f_equal. apply filter_ext. intros q. unfold any_g. apply andb_true_r.
Qed.

Theorem punion_content d m : punion_triples T d m = map qt (filter (fun q => m (qg q)) d).
Proof.
  unfold punion_triples, ds_quads_matching. reflexivity.
Qed.

Theorem punion_query_is_filter d m sm pm om :
  punion_matching T d m sm pm om = filter (triple_matches T sm pm om) (punion_triples T d m).
Proof.
  rewrite punion_content. unfold punion_matching, ds_quads_matching.
  rewrite map_filter_comm, filter_filter. f_equal. apply filter_ext. intros q.
  apply andb_comm.
Qed.

Theorem dg_content d g : dg_triples T eqb d g = map qt (filter (fun q => gname_eqb (qg q) g) d).
Proof.
  unfold dg_triples, ds_quads_matching. f_equal.
Qed.

Theorem dg_member d g t : In t (dg_triples T eqb d g) <-> In (mkQ t g) d.
Proof.
  rewrite dg_content, in_map_iff. split.
  - intros [q [<- H]]. apply filter_In in H as [H1 H2]. apply gname_eqb_spec in H2. subst.
    destruct q; assumption.
  - intros H. exists (mkQ t g). split; auto. apply filter_In. split; auto.
    apply gname_eqb_spec. reflexivity.
Qed.

Theorem dg_query_is_filter d g sm pm om :
  dg_matching T eqb d g sm pm om = filter (triple_matches T sm pm om) (dg_triples T eqb d g).
Proof.
  rewrite dg_content. unfold dg_matching, ds_quads_matching.
  rewrite map_filter_comm, filter_filter. f_equal. apply filter_ext. intros q.
  apply andb_comm.
Qed.


Lemma NoDup_map_inj_on {A B} (f : A -> B) l :
  (forall x y, In x l -> In y l -> f x = f y -> x = y) -> NoDup l -> NoDup (map f l).
Proof.
  induction l as [|x l IH]; simpl; intros Hinj Hn; [constructor|].
  inversion Hn; subst. constructor.
  - rewrite in_map_iff. intros [y [E Hy]]. assert (y = x) by (apply Hinj; auto). subst. auto.
  - apply IH; auto.
Qed.

(* a single graph of a set-like dataset is set-like (impl SetGraph for DatasetGraph) *)
Theorem dg_nodup d g : NoDup d -> NoDup (dg_triples T eqb d g).
Proof.
  rewrite dg_content. intros Hn. apply NoDup_map_inj_on.
  - intros x y Hx Hy E. apply filter_In in Hx as [_ Hx], Hy as [_ Hy].
    apply gname_eqb_spec in Hx, Hy. destruct x, y; simpl in *; congruence.
  - apply NoDup_filter; assumption.
Qed.

(* ---------- views: mutation ---------- *)

(* same flag and same effect as the direct operation with that graph name *)
Theorem dg_insert_is_direct d g t : dg_insert T eqb d g t = ds_insert T eqb d (mkQ t g).
Proof. reflexivity. Qed.
Theorem dg_remove_is_direct d g t : dg_remove T eqb d g t = ds_remove T eqb d (mkQ t g).
Proof. reflexivity. Qed.

Theorem dg_insert_effect d g t d' b :
  dg_insert T eqb d g t = (d', b) ->
  b = negb (existsb (triple_eqb t) (dg_triples T eqb d g))        (* flag: was it new in THIS graph *)
  /\ (forall t', In t' (dg_triples T eqb d' g) <-> In t' (dg_triples T eqb d g) \/ t' = t)
  /\ (forall g', g' <> g -> dg_triples T eqb d' g' = dg_triples T eqb d g')  (* other graphs untouched *)
  /\ (NoDup d -> NoDup d').
Proof.
  intros H. unfold dg_insert in H. pose proof (ds_insert_spec _ _ _ _ H) as [Hb [Hin Hnd]].
  repeat split; auto.
  - subst b. f_equal.
    destruct (ds_contains T eqb d (mkQ t g)) eqn:E.
    + apply ds_contains_In, dg_member in E. symmetry. apply existsb_exists. exists t. split; auto.
      apply triple_eqb_spec; reflexivity.
    + symmetry. apply not_true_is_false. intros Hx. apply existsb_exists in Hx as [x [Hx E2]].
      apply triple_eqb_spec in E2. subst x. apply dg_member, ds_contains_In in Hx. congruence.
  - rewrite !dg_member, Hin. intros [H1|H1]; auto. right. congruence.
  - rewrite !dg_member, Hin. intros [H1| ->]; auto.
  - intros g' Hg. rewrite !dg_content. f_equal.
    unfold ds_insert in H. destruct (ds_contains T eqb d (mkQ t g)); inversion H; subst; auto.
    rewrite filter_app. simpl.
    destruct (gname_eqb g g') eqn:E; [apply gname_eqb_spec in E; congruence|].
    apply app_nil_r.
Qed.

Theorem dg_remove_effect d g t d' b :
  dg_remove T eqb d g t = (d', b) ->
  b = existsb (triple_eqb t) (dg_triples T eqb d g)
  /\ (forall t', In t' (dg_triples T eqb d' g) <-> In t' (dg_triples T eqb d g) /\ t' <> t)
  /\ (forall g', g' <> g -> dg_triples T eqb d' g' = dg_triples T eqb d g')
  /\ (NoDup d -> NoDup d').
Proof.
  intros H. unfold dg_remove in H. pose proof (ds_remove_spec _ _ _ _ H) as [Hb [Hin Hnd]].
  repeat split; auto.
  - subst b.
    destruct (ds_contains T eqb d (mkQ t g)) eqn:E.
    + apply ds_contains_In, dg_member in E. symmetry. apply existsb_exists. exists t. split; auto.
      apply triple_eqb_spec; reflexivity.
    + symmetry. apply not_true_is_false. intros Hx. apply existsb_exists in Hx as [x [Hx E2]].
      apply triple_eqb_spec in E2. subst x. apply dg_member, ds_contains_In in Hx. congruence.
  - apply dg_member, Hin in H0. apply dg_member. tauto.
  - apply dg_member, Hin in H0. intros ->. tauto.
  - intros [H1 H2]. apply dg_member, Hin. split; [apply dg_member; auto | congruence].
  - intros g' Hg. rewrite !dg_content. f_equal.
    unfold ds_remove in H. destruct (ds_contains T eqb d (mkQ t g)); inversion H; subst; auto.
    rewrite filter_filter. apply filter_ext_in. intros q Hq.
    destruct (gname_eqb (qg q) g') eqn:E; [|apply andb_false_r].
    rewrite andb_true_r. apply gname_eqb_spec in E. apply negb_true_iff, quad_eqb_false.
    intros E2. subst q. simpl in E. congruence.
Qed.

(* bulk mutation through the view (MutableGraph defaults): only the viewed graph changes *)
Lemma dg_remove_list_effect g ts : forall d n,
  let '(d', n') := fold_left (fun acc t => let '(d', b) := dg_remove T eqb (fst acc) g t in
                                           (d', if b then S (snd acc) else snd acc)) ts (d, n) in
  (forall t, In t (dg_triples T eqb d' g) <-> In t (dg_triples T eqb d g) /\ ~ In t ts)
  /\ (forall g', g' <> g -> dg_triples T eqb d' g' = dg_triples T eqb d g')
  /\ (NoDup d -> NoDup d').
Proof.
  induction ts as [|t ts IH]; intros d n; simpl.
  - repeat split; auto; tauto.
  - destruct (dg_remove T eqb d g t) as [d1 b] eqn:E.
    apply dg_remove_effect in E as (_ & H2 & H3 & H4).
    specialize (IH d1 (if b then S n else n)).
    destruct (fold_left _ ts (d1, if b then S n else n)) as [d' n'].
    destruct IH as (I1 & I2 & I3). repeat split.
    + apply I1 in H. destruct H as [Ha Hb]. apply H2 in Ha. tauto.
    + apply I1 in H. destruct H as [Ha Hb]. apply H2 in Ha. intros [<-|Hc]; tauto.
    + intros [Ha Hb]. apply I1. split; [apply H2; split; auto|]; intros Hc; apply Hb; auto.
    + intros g' Hg. rewrite I2, H3; auto.
    + auto.
Qed.

Theorem dg_remove_matching_effect d g sm pm om :
  let d' := fst (dg_remove_matching T eqb d g sm pm om) in
  (forall t, In t (dg_triples T eqb d' g) <->
             In t (dg_triples T eqb d g) /\ triple_matches T sm pm om t = false)
  /\ (forall g', g' <> g -> dg_triples T eqb d' g' = dg_triples T eqb d g')
  /\ (NoDup d -> NoDup d').
Proof.
  unfold dg_remove_matching, dg_remove_list.
  pose proof (dg_remove_list_effect g (dg_matching T eqb d g sm pm om) d O) as H.
  destruct (fold_left _ (dg_matching T eqb d g sm pm om) (d, O)) as [d' n']. simpl.
  destruct H as (H1 & H2 & H3). repeat split; auto.
  - apply H1 in H. tauto.
  - apply H1 in H. destruct H as [Ha Hb]. rewrite dg_query_is_filter in Hb.
    destruct (triple_matches T sm pm om t) eqn:E; auto. exfalso. apply Hb. apply filter_In. auto.
  - intros [Ha Hb]. apply H1. split; auto. rewrite dg_query_is_filter. intros Hc.
    apply filter_In in Hc. destruct Hc as [_ Hc]. congruence.
Qed.

Theorem dg_retain_matching_effect d g sm pm om :
  let d' := dg_retain_matching T eqb d g sm pm om in
  (forall t, In t (dg_triples T eqb d' g) <->
             In t (dg_triples T eqb d g) /\ triple_matches T sm pm om t = true)
  /\ (forall g', g' <> g -> dg_triples T eqb d' g' = dg_triples T eqb d g')
  /\ (NoDup d -> NoDup d').
Proof.
  unfold dg_retain_matching, dg_remove_list.
  set (victims := filter (fun t => negb (triple_matches T sm pm om t)) (dg_triples T eqb d g)).
  pose proof (dg_remove_list_effect g victims d O) as H.
  destruct (fold_left _ victims (d, O)) as [d' n']. simpl.
  destruct H as (H1 & H2 & H3). repeat split; auto.
  - apply H1 in H. tauto.
  - apply H1 in H. destruct H as [Ha Hb].
    destruct (triple_matches T sm pm om t) eqn:E; auto. exfalso. apply Hb. apply filter_In.
    split; auto. rewrite E. reflexivity.
  - intros [Ha Hb]. apply H1. split; auto. intros Hc. apply filter_In in Hc.
    destruct Hc as [_ Hc]. rewrite Hb in Hc. discriminate.
Qed.

(* ---------- graph as dataset ---------- *)

Theorem gad_content g : gad_quads T g = map (fun t => mkQ t None) g.
Proof. reflexivity. Qed.

Theorem gad_query_is_filter g sm pm om gm :
  gad_quads_matching T g sm pm om gm =
  filter (fun q => triple_matches T sm pm om (qt q) && gm (qg q)) (gad_quads T g).
Proof.
  unfold gad_quads_matching, gad_quads, gr_triples_matching. rewrite map_filter_comm. simpl.
  destruct (gm None).
  - f_equal. apply filter_ext. intros t. symmetry. apply andb_true_r.
  - symmetry. replace (filter _ g) with (@nil triple); auto.
    symmetry. induction g as [|x g IH]; simpl; auto. rewrite andb_false_r. assumption.
Qed.

Theorem gad_contains_spec g q : gad_contains T eqb g q = true <-> In q (gad_quads T g).
Proof.
  unfold gad_contains, gad_quads. rewrite in_map_iff. destruct q as [t [gn|]]; simpl.
  - split; [discriminate|]. intros [x [E _]]. discriminate.
  - rewrite gr_contains_In. split.
    + intros H. exists t. auto.
    + intros [x [E H]]. inversion E; subst; auto.
Qed.

Theorem gad_insert_effect g q g' r :
  gad_insert T eqb g q = (g', r) ->
  match qg q with
  | None => r = GadOk (negb (gad_contains T eqb g q))
            /\ (forall x, In x (gad_quads T g') <-> In x (gad_quads T g) \/ x = q)
            /\ (NoDup g -> NoDup g')
  | Some _ => r = GadOnlyDefaultGraph /\ g' = g
  end.
Proof.
  unfold gad_insert, gad_contains. destruct q as [t [gn|]]; simpl.
  - intros H; inversion H; auto.
  - destruct (gr_insert T eqb g t) as [g2 b] eqn:E. intros H; inversion H; subst; clear H.
    apply gr_insert_spec in E as [Hb [Hin Hn]]. subst b. repeat split; auto.
    + unfold gad_quads. rewrite !in_map_iff. intros [y [<- Hy]]. apply Hin in Hy as [Hy| ->]; eauto.
    + unfold gad_quads. rewrite !in_map_iff. intros [[y [<- Hy]]| ->].
      * exists y. split; auto. apply Hin; auto.
      * exists t. split; auto. apply Hin; auto.
Qed.

Theorem gad_remove_effect g q g' r :
  gad_remove T eqb g q = (g', r) ->
  r = GadOk (gad_contains T eqb g q)
  /\ (forall x, In x (gad_quads T g') <-> In x (gad_quads T g) /\ x <> q)
  /\ (NoDup g -> NoDup g').
Proof.
  unfold gad_remove, gad_contains. destruct q as [t [gn|]]; simpl.
  - intros H; inversion H; subst. repeat split; auto; try tauto.
    intros ->. unfold gad_quads in H0. apply in_map_iff in H0 as [y [E _]]. discriminate.
  - destruct (gr_remove T eqb g t) as [g2 b] eqn:E. intros H; inversion H; subst; clear H.
    apply gr_remove_spec in E as [Hb [Hin Hn]]. subst b. repeat split; auto.
    + unfold gad_quads in *. rewrite in_map_iff in *. destruct H as [y [<- Hy]].
      apply Hin in Hy. exists y; tauto.
    + unfold gad_quads in H. rewrite in_map_iff in H. destruct H as [y [<- Hy]].
      apply Hin in Hy. intros E. inversion E. tauto.
    + intros [H1 H2]. unfold gad_quads in *. rewrite in_map_iff in *. destruct H1 as [y [<- Hy]].
      exists y; split; auto. apply Hin. split; auto. congruence.
Qed.

(* the pre-fix behaviour violates the property: removing a present triple... inserts *)
End P.

(* ---------- every reachable state: the set invariant survives any mixed history ---------- *)
Lemma N_eqb_spec' : forall x y : N, N.eqb x y = true <-> x = y.
Proof. intros; apply N.eqb_eq. Qed.

Lemma step_nodup pl d o : NoDup d -> NoDup (fst (step pl d o)).
Proof.
  intros Hn. destruct o; simpl; auto.
  - destruct (ds_insert N N.eqb d q) as [d' b] eqn:E. simpl.
    apply (ds_insert_spec N N.eqb N_eqb_spec') in E. tauto.
  - destruct (ds_remove N N.eqb d q) as [d' b] eqn:E. simpl.
    apply (ds_remove_spec N N.eqb N_eqb_spec') in E. tauto.
  - destruct (dg_insert N N.eqb d g t) as [d' b] eqn:E. simpl.
    apply (dg_insert_effect N N.eqb N_eqb_spec') in E. tauto.
  - destruct (dg_remove N N.eqb d g t) as [d' b] eqn:E. simpl.
    apply (dg_remove_effect N N.eqb N_eqb_spec') in E. tauto.
  - pose proof (dg_remove_matching_effect N N.eqb N_eqb_spec' d g (mdesc_t sm) (mdesc_t pm) (mdesc_t om)) as H.
    destruct (dg_remove_matching N N.eqb d g (mdesc_t sm) (mdesc_t pm) (mdesc_t om)) as [d' n]. simpl in *. tauto.
  - pose proof (dg_retain_matching_effect N N.eqb N_eqb_spec' d g (mdesc_t sm) (mdesc_t pm) (mdesc_t om)) as H.
    simpl in *. tauto.
Qed.

Fixpoint final (pl : pool) (d : dataset N) (ops : list op) : dataset N :=
  match ops with [] => d | o :: ops' => final pl (fst (step pl d o)) ops' end.

Theorem reachable_nodup pl ops : NoDup (final pl [] ops).
Proof.
  assert (H : forall d, NoDup d -> NoDup (final pl d ops)).
  { induction ops as [|o ops IH]; simpl; intros d Hd; auto. apply IH, step_nodup, Hd. }
  apply H. constructor.
Qed.

(* view mutations are indistinguishable from direct ones, over whole histories *)
Definition devirt (o : op) : op :=
  match o with
  | VInsert g t => DInsert (mkQ t g)
  | VRemove g t => DRemove (mkQ t g)
  | _ => o
  end.
Theorem history_devirt pl d ops : run pl d ops = run pl d (map devirt ops).
Proof.
  revert d; induction ops as [|o ops IH]; intros d; simpl; auto.
  destruct o; simpl; try (rewrite IH; reflexivity);
  unfold dg_insert, dg_remove;
  match goal with |- context [let '(_, _) := ?x in _] => destruct x end; rewrite IH; reflexivity.
Qed.

(* the finding fixed by commit "fix: GraphAsDataset::remove ...": on the pre-fix model,
   removing a present triple through the view left it there *)
Example gad_remove_prefix_refuted :
  exists g q, In q (gad_quads N g) /\ In q (gad_quads N (fst (gad_remove_prefix N N.eqb g q))).
Proof.
  exists [mkT 1 2 3], (mkQ (mkT 1 2 3) None). split; vm_compute; auto.
Qed.

(* non-vacuity: a concrete reachable state with two graphs sharing a triple *)
Example nonvacuous :
  let d := final [] [] [DInsert (mkQ (mkT 1 2 3) None); VInsert (Some 9) (mkT 1 2 3); VInsert (Some 9) (mkT 4 5 6)] in
  NoDup d /\ length (union_triples N d) = 3%nat /\ length (dg_triples N N.eqb d (Some 9)) = 2%nat.
Proof. vm_compute. repeat split; repeat constructor; simpl; intuition discriminate. Qed.

(* ================= the widened alphabet ================= *)

(* every view's own triples_matching is the filter of its triples *)
Theorem hop_matching_is_filter d h sm pm om :
  hop_matching d h sm pm om = filter (triple_matches N sm pm om) (hop_triples d h).
Proof.
  destruct h; simpl.
  - apply union_query_is_filter.
  - apply punion_query_is_filter.
  - apply dg_query_is_filter.
Qed.

(* views of views: a graph seen as a dataset and viewed again as a graph *)
Lemma filter_map_none_true (l : list tt) (f : tq -> bool) :
  (forall t, f (mkQ t None) = true) -> filter f (map (fun t => mkQ t None) l) = map (fun t => mkQ t None) l.
Proof. intros H. induction l as [|x l IH]; simpl; auto. rewrite H, IH. reflexivity. Qed.
Lemma filter_map_none_false (l : list tt) (f : tq -> bool) :
  (forall t, f (mkQ t None) = false) -> filter f (map (fun t => mkQ t None) l) = [].
Proof. intros H. induction l as [|x l IH]; simpl; auto. rewrite H, IH. reflexivity. Qed.
Lemma map_qt_gad (l : list tt) : map qt (map (fun t => mkQ t None) l) = l.
Proof. rewrite map_map. simpl. apply map_id. Qed.

Theorem gad_hop_collapse (l : list tt) :
  hop_triples (gad_quads N l) HUnion = l
  /\ hop_triples (gad_quads N l) (HGraph None) = l
  /\ (forall g, hop_triples (gad_quads N l) (HGraph (Some g)) = [])
  /\ (forall m, hop_triples (gad_quads N l) (HPUnion m) = if gdesc_g m None then l else []).
Proof.
  unfold hop_triples, gad_quads, union_triples, dg_triples, punion_triples, ds_quads_matching.
  repeat split.
  - apply map_qt_gad.
  - rewrite filter_map_none_true; [apply map_qt_gad | reflexivity].
  - intros g. rewrite filter_map_none_false; reflexivity.
  - intros m. destruct (gdesc_g m None) eqn:E.
    + rewrite filter_map_none_true; [apply map_qt_gad | intros t; simpl; assumption].
    + rewrite filter_map_none_false; [reflexivity | intros t; simpl; assumption].
Qed.

(* contains through a view (the provided method, on the view's triples_matching) is membership *)
Lemma existsb_filter_nil {A} (f : A -> bool) l : negb (is_nil (filter f l)) = existsb f l.
Proof. induction l as [|x l IH]; simpl; auto. destruct (f x); simpl; auto. Qed.

Lemma one_of_single x y : mdesc_t (MOneOf [x]) y = N.eqb y x.
Proof. simpl. apply orb_false_r. Qed.

Lemma existsb_ext' {A} (f g : A -> bool) l : (forall x, f x = g x) -> existsb f l = existsb g l.
Proof. intros H. induction l as [|x l IH]; simpl; auto. rewrite H, IH. reflexivity. Qed.

Theorem gobs_contains_member pl d h t :
  gobs_eval pl d h (GOContains t) = OFlag (gr_contains N N.eqb (hop_triples d h) t).
Proof.
  simpl. f_equal. rewrite hop_matching_is_filter, existsb_filter_nil. unfold gr_contains.
  apply existsb_ext'. intros x. unfold triple_matches, triple_eqb.
  rewrite !orb_false_r, (N.eqb_sym (ts x)), (N.eqb_sym (tp x)), (N.eqb_sym (to_ x)). reflexivity.
Qed.

Theorem dobs_contains_member pl d q :
  dobs_eval pl d (DOContains q) = OFlag (ds_contains N N.eqb d q).
Proof.
  simpl. f_equal. unfold ds_quads_matching. rewrite existsb_filter_nil. unfold ds_contains.
  apply existsb_ext'. intros x. unfold triple_matches, quad_eqb, triple_eqb, one_g, gname_eqb.
  rewrite !orb_false_r, (N.eqb_sym (ts (qt x))), (N.eqb_sym (tp (qt x))), (N.eqb_sym (to_ (qt x))).
  f_equal. destruct (qg x), (qg q); simpl; auto. apply N.eqb_sym.
Qed.

(* the first alphabet is a fragment of the widened one (set-like stores) *)
Theorem translate_ok pl d o :
  xstep SSet pl d (translate o) = (fst (step pl d o), XO (snd (step pl d o))).
Proof.
  destruct o; simpl; try reflexivity.
  - destruct q as [t g]; unfold x_insert; simpl. destruct (ds_insert N N.eqb d (mkQ t g)); reflexivity.
  - destruct q as [t g]; unfold x_remove; simpl. destruct (ds_remove N N.eqb d (mkQ t g)); reflexivity.
  - unfold x_insert, dg_insert; simpl. destruct (ds_insert N N.eqb d (mkQ t g)); reflexivity.
  - unfold x_remove, dg_remove; simpl. destruct (ds_remove N N.eqb d (mkQ t g)); reflexivity.
  - unfold x_remove_matching, x_remove_list, dg_remove_matching, dg_remove_list, dg_remove, s_remove.
    match goal with |- context [let '(_, _) := ?x in _] => destruct x end. reflexivity.
Qed.

Theorem hrun_old_is_run pl d ops :
  hrun SSet pl d (map HOld ops) = map XO (run pl d ops).
Proof.
  revert d. induction ops as [|o ops IH]; intros d; simpl; auto.
  destruct (step pl d o) as [d' r]. rewrite IH. reflexivity.
Qed.

(* where a mutation through nested views lands *)
Theorem x_insert_lands sk d gs t :
  match lands gs with
  | Some g => x_insert sk d gs t = (fst (s_insert sk d (mkQ t g)), XO (OFlag (snd (s_insert sk d (mkQ t g)))))
              /\ x_remove sk d gs t = (fst (s_remove sk d (mkQ t g)), XO (OFlag (snd (s_remove sk d (mkQ t g)))))
  | None => x_insert sk d gs t = (d, XOnlyDefault) /\ x_remove sk d gs t = (d, XO (OFlag false))
  end.
Proof.
  unfold x_insert, x_remove. destruct (lands gs) as [g|]; [|split; reflexivity].
  destruct (s_insert sk d (mkQ t g)), (s_remove sk d (mkQ t g)). split; reflexivity.
Qed.

Theorem lands_spec g rest :
  lands (g :: rest) = if forallb is_default rest then Some g else None.
Proof. reflexivity. Qed.

Example lands_examples :
  lands [Some 12] = Some (Some 12) /\ lands [Some 12; None; None] = Some (Some 12)
  /\ lands [Some 12; Some 4] = None /\ lands [None; None; Some 1] = None.
Proof. repeat split. Qed.

(* set-like stores: through graph_mut(g) it is the model of the first alphabet *)
Theorem x_insert_set_direct d g t :
  x_insert SSet d [g] t = (fst (dg_insert N N.eqb d g t), XO (OFlag (snd (dg_insert N N.eqb d g t))))
  /\ x_remove SSet d [g] t = (fst (dg_remove N N.eqb d g t), XO (OFlag (snd (dg_remove N N.eqb d g t)))).
Proof. apply (x_insert_lands SSet d [g] t). Qed.

(* bulk insertion through a view = the fold of single insertions, counting the true flags *)
Theorem x_insert_all_is_fold sk g l : forall d n,
  x_insert_all sk d (map (fun t => ([g], t)) l) n =
  let r := fold_left (fun acc t => let '(d', b) := s_insert sk (fst acc) (mkQ t g) in
                                   (d', if b then snd acc + 1 else snd acc)) l (d, n) in
  (fst r, XO (OCount (snd r))).
Proof.
  induction l as [|t l IH]; intros d n; simpl; auto.
  unfold x_insert; simpl. destruct (s_insert sk d (mkQ t g)) as [d' b]. apply IH.
Qed.
Theorem x_remove_all_is_fold sk g l : forall d n,
  x_remove_all sk d (map (fun t => ([g], t)) l) n =
  let r := fold_left (fun acc t => let '(d', b) := s_remove sk (fst acc) (mkQ t g) in
                                   (d', if b then snd acc + 1 else snd acc)) l (d, n) in
  (fst r, XO (OCount (snd r))).
Proof.
  induction l as [|t l IH]; intros d n; simpl; auto.
  unfold x_remove; simpl. destruct (s_remove sk d (mkQ t g)) as [d' b]. apply IH.
Qed.
(* an item addressed to a named graph of a graph-as-dataset view stops the bulk insertion there *)
Theorem x_insert_all_stops sk d gs t rest n :
  lands gs = None -> x_insert_all sk d ((gs, t) :: rest) n = (d, XOnlyDefault).
Proof. intros H. simpl. unfold x_insert. rewrite H. reflexivity. Qed.

(* bag stores (Vec): views stay coherent as multisets *)
Theorem bag_insert_view d g t g' :
  hop_triples (fst (s_insert SBagAll d (mkQ t g))) (HGraph g') =
  hop_triples d (HGraph g') ++ (if gname_eqb N N.eqb g g' then [t] else [])
  /\ hop_triples (fst (s_insert SBagAll d (mkQ t g))) HUnion = hop_triples d HUnion ++ [t]
  /\ snd (s_insert SBagAll d (mkQ t g)) = true.
Proof.
  simpl. unfold dg_triples, union_triples, ds_quads_matching, one_g. simpl.
  rewrite filter_app, !map_app. simpl. repeat split.
  destruct (gname_eqb N N.eqb g g'); reflexivity.
Qed.
Lemma bag_remove_pred (t : tt) (g g' : option N) (q : tq) :
  negb (quad_eqb N N.eqb (mkQ t g) q) && gname_eqb N N.eqb (qg q) g' =
  gname_eqb N N.eqb (qg q) g' && (if gname_eqb N N.eqb g g' then negb (triple_eqb N N.eqb t (qt q)) else true).
Proof.
  unfold quad_eqb. cbn [qt qg].
  destruct (gname_eqb N N.eqb (qg q) g') eqn:E; [|apply andb_false_r].
  apply (gname_eqb_spec N N.eqb N_eqb_spec') in E. rewrite E.
  destruct (gname_eqb N N.eqb g g'), (triple_eqb N N.eqb t (qt q)); reflexivity.
Qed.

Theorem bag_remove_view d g t g' :
  hop_triples (fst (s_remove SBagAll d (mkQ t g))) (HGraph g') =
  (if gname_eqb N N.eqb g g' then filter (fun x => negb (triple_eqb N N.eqb t x)) (hop_triples d (HGraph g'))
   else hop_triples d (HGraph g'))
  /\ snd (s_remove SBagAll d (mkQ t g)) = true.
Proof.
  split; [|reflexivity].
  simpl. rewrite !(dg_content N N.eqb). rewrite filter_filter.
  rewrite (filter_ext _ _ (bag_remove_pred t g g')).
  destruct (gname_eqb N N.eqb g g').
  - rewrite map_filter_comm, filter_filter. reflexivity.
  - f_equal. apply filter_ext. intros q. apply andb_true_r.
Qed.

(* a bag whose remove deletes one copy (Vec<Gspo>): the viewed graph loses one copy, the flag tells whether *)
Lemma gname_eqb_refl' (g : option N) : gname_eqb N N.eqb g g = true.
Proof. apply (gname_eqb_spec N N.eqb N_eqb_spec'). reflexivity. Qed.
Lemma gname_eqb_sym' (a b : option N) : gname_eqb N N.eqb a b = gname_eqb N N.eqb b a.
Proof.
  destruct (gname_eqb N N.eqb a b) eqn:E.
  - apply (gname_eqb_spec N N.eqb N_eqb_spec') in E. subst. symmetry. apply gname_eqb_refl'.
  - destruct (gname_eqb N N.eqb b a) eqn:E2; auto.
    apply (gname_eqb_spec N N.eqb N_eqb_spec') in E2. subst. rewrite gname_eqb_refl' in E. discriminate.
Qed.

Lemma remove_first_view t g g' : forall d,
  map qt (filter (fun q => gname_eqb N N.eqb (qg q) g') (fst (remove_first (mkQ t g) d))) =
  (if gname_eqb N N.eqb g g'
   then fst (remove_first_t t (map qt (filter (fun q => gname_eqb N N.eqb (qg q) g') d)))
   else map qt (filter (fun q => gname_eqb N N.eqb (qg q) g') d))
  /\ snd (remove_first (mkQ t g) d) =
     existsb (triple_eqb N N.eqb t) (map qt (filter (fun q => gname_eqb N N.eqb (qg q) g) d)).
Proof.
  induction d as [|x d [IH1 IH2]]; cbn [remove_first filter map fst snd existsb].
  - destruct (gname_eqb N N.eqb g g'); split; reflexivity.
  - unfold quad_eqb. cbn [qt qg].
    destruct (remove_first (mkQ t g) d) as [r' b]. cbn [fst snd] in *.
    destruct (triple_eqb N N.eqb t (qt x)) eqn:Et; destruct (gname_eqb N N.eqb g (qg x)) eqn:Eg;
      cbn [andb fst snd filter map].
    + (* the head is the quad removed *)
      apply (gname_eqb_spec N N.eqb N_eqb_spec') in Eg. subst g. rewrite gname_eqb_refl'.
      cbn [map existsb]. rewrite Et. cbn [orb]. split; [|reflexivity].
      destruct (gname_eqb N N.eqb (qg x) g') eqn:E; cbn [map remove_first_t]; [rewrite Et|]; reflexivity.
    + rewrite (gname_eqb_sym' (qg x) g), Eg. split; [|assumption].
      destruct (gname_eqb N N.eqb (qg x) g') eqn:E; cbn [map]; [|assumption].
      rewrite IH1. destruct (gname_eqb N N.eqb g g') eqn:E2; [|reflexivity].
      apply (gname_eqb_spec N N.eqb N_eqb_spec') in E, E2. subst. rewrite gname_eqb_refl' in Eg. discriminate.
    + apply (gname_eqb_spec N N.eqb N_eqb_spec') in Eg. subst g. rewrite gname_eqb_refl'.
      cbn [map existsb]. rewrite Et. cbn [orb]. split; [|assumption].
      destruct (gname_eqb N N.eqb (qg x) g') eqn:E; cbn [map remove_first_t]; [|assumption].
      rewrite Et, IH1. destruct (remove_first_t t (map qt (filter (fun q => gname_eqb N N.eqb (qg q) g') d))). reflexivity.
    + rewrite (gname_eqb_sym' (qg x) g), Eg. split; [|assumption].
      destruct (gname_eqb N N.eqb (qg x) g') eqn:E; cbn [map]; [|assumption].
      rewrite IH1. destruct (gname_eqb N N.eqb g g') eqn:E2; [|reflexivity].
      apply (gname_eqb_spec N N.eqb N_eqb_spec') in E, E2. subst. rewrite gname_eqb_refl' in Eg. discriminate.
Qed.

Theorem bagone_remove_view d g t g' :
  hop_triples (fst (s_remove SBagOne d (mkQ t g))) (HGraph g') =
  (if gname_eqb N N.eqb g g' then fst (remove_first_t t (hop_triples d (HGraph g'))) else hop_triples d (HGraph g'))
  /\ snd (s_remove SBagOne d (mkQ t g)) = gr_contains N N.eqb (hop_triples d (HGraph g)) t.
Proof.
  cbn [hop_triples s_remove]. rewrite !(dg_content N N.eqb). unfold gr_contains. apply remove_first_view.
Qed.

(* ---------- set-like stores: the bulk mutations of the widened alphabet ---------- *)
Lemma s_insert_set_spec d q :
  (forall x, In x (fst (s_insert SSet d q)) <-> In x d \/ x = q)
  /\ (NoDup d -> NoDup (fst (s_insert SSet d q))).
Proof.
  unfold s_insert. destruct (ds_insert N N.eqb d q) as [d' b] eqn:E.
  apply (ds_insert_spec N N.eqb N_eqb_spec') in E. simpl. tauto.
Qed.
Lemma s_remove_set_spec d q :
  (forall x, In x (fst (s_remove SSet d q)) <-> In x d /\ x <> q)
  /\ (NoDup d -> NoDup (fst (s_remove SSet d q))).
Proof.
  unfold s_remove. destruct (ds_remove N N.eqb d q) as [d' b] eqn:E.
  apply (ds_remove_spec N N.eqb N_eqb_spec') in E. simpl. tauto.
Qed.

Lemma x_remove_quads_spec qs : forall d n,
  let r := fold_left (fun acc q => let '(d', b) := s_remove SSet (fst acc) q in
                                   (d', if b then S (snd acc) else snd acc)) qs (d, n) in
  (forall x, In x (fst r) <-> In x d /\ ~ In x qs) /\ (NoDup d -> NoDup (fst r)).
Proof.
  induction qs as [|q qs IH]; intros d n.
  - cbn [fold_left fst]. split; [intros x; simpl; tauto | auto].
  - cbn [fold_left fst snd]. pose proof (s_remove_set_spec d q) as [H1 H2].
    destruct (s_remove SSet d q) as [d1 b]. cbn [fst] in H1, H2.
    specialize (IH d1 (if b then S n else n)). cbv zeta in *. destruct IH as [I1 I2]. split.
    + intros x. rewrite I1, H1. simpl. intuition (subst; auto).
    + auto.
Qed.

Lemma x_remove_list_as_quads sk g l : forall d,
  x_remove_list sk d g l = x_remove_quads sk d (map (fun t => mkQ t g) l).
Proof.
  unfold x_remove_list, x_remove_quads. generalize O.
  induction l as [|t l IH]; intros n d; simpl; auto.
  destruct (s_remove sk d (mkQ t g)) as [d1 b]. apply IH.
Qed.

(* MutableDataset::remove_matching / retain_matching on the store *)
Theorem xd_remove_matching_effect d sm pm om gm :
  let d' := fst (xd_remove_matching SSet d sm pm om gm) in
  (forall q, In q d' <-> In q d /\ (triple_matches N sm pm om (qt q) && gm (qg q)) = false)
  /\ (NoDup d -> NoDup d').
Proof.
  unfold xd_remove_matching, x_remove_quads.
  pose proof (x_remove_quads_spec (ds_quads_matching N d sm pm om gm) d O) as [H1 H2]. simpl in *.
  split; auto. intros q. rewrite H1. unfold ds_quads_matching. rewrite filter_In.
  destruct (triple_matches N sm pm om (qt q) && gm (qg q)); intuition congruence.
Qed.
Theorem xd_retain_matching_effect d sm pm om gm :
  let d' := xd_retain_matching SSet d sm pm om gm in
  (forall q, In q d' <-> In q d /\ (triple_matches N sm pm om (qt q) && gm (qg q)) = true)
  /\ (NoDup d -> NoDup d').
Proof.
  unfold xd_retain_matching, x_remove_quads.
  set (victims := filter (fun q => negb (triple_matches N sm pm om (qt q) && gm (qg q))) d).
  pose proof (x_remove_quads_spec victims d O) as [H1 H2]. simpl in *.
  split; auto. intros q. rewrite H1. unfold victims. rewrite filter_In.
  destruct (triple_matches N sm pm om (qt q) && gm (qg q)); simpl; intuition congruence.
Qed.

(* every reachable state of a mixed history over both alphabets is duplicate-free *)
Lemma x_insert_nodup d gs t : NoDup d -> NoDup (fst (x_insert SSet d gs t)).
Proof.
  intros Hn. unfold x_insert. destruct (lands gs) as [g|]; auto.
  pose proof (s_insert_set_spec d (mkQ t g)) as [_ H]. destruct (s_insert SSet d (mkQ t g)). simpl in *. auto.
Qed.
Lemma x_remove_nodup d gs t : NoDup d -> NoDup (fst (x_remove SSet d gs t)).
Proof.
  intros Hn. unfold x_remove. destruct (lands gs) as [g|]; auto.
  pose proof (s_remove_set_spec d (mkQ t g)) as [_ H]. destruct (s_remove SSet d (mkQ t g)). simpl in *. auto.
Qed.
Lemma x_insert_all_nodup items : forall d n, NoDup d -> NoDup (fst (x_insert_all SSet d items n)).
Proof.
  induction items as [|[gs t] items IH]; intros d n Hn; simpl; auto.
  pose proof (x_insert_nodup d gs t Hn) as H. destruct (x_insert SSet d gs t) as [d' [[b| | | |]|]]; simpl in *; auto.
Qed.
Lemma x_remove_all_nodup items : forall d n, NoDup d -> NoDup (fst (x_remove_all SSet d items n)).
Proof.
  induction items as [|[gs t] items IH]; intros d n Hn; simpl; auto.
  pose proof (x_remove_nodup d gs t Hn) as H. destruct (x_remove SSet d gs t) as [d' [[b| | | |]|]]; simpl in *; auto.
Qed.

Lemma x_remove_quads_nodup d qs : NoDup d -> NoDup (fst (x_remove_quads SSet d qs)).
Proof. intros Hn. apply (x_remove_quads_spec qs d O). assumption. Qed.
Lemma x_remove_list_nodup d g l : NoDup d -> NoDup (fst (x_remove_list SSet d g l)).
Proof. intros Hn. rewrite x_remove_list_as_quads. apply x_remove_quads_nodup. assumption. Qed.

Lemma xstep_nodup pl d x : NoDup d -> NoDup (fst (xstep SSet pl d x)).
Proof.
  intros Hn. destruct x; cbn [xstep fst]; auto.
  - apply x_insert_nodup; auto.
  - apply x_remove_nodup; auto.
  - apply x_insert_all_nodup; auto.
  - apply x_remove_all_nodup; auto.
  - unfold x_remove_matching.
    pose proof (x_remove_list_nodup d g (dg_matching N N.eqb d g (mdesc_t sm) (mdesc_t pm) (mdesc_t om)) Hn) as H.
    destruct (x_remove_list SSet d g (dg_matching N N.eqb d g (mdesc_t sm) (mdesc_t pm) (mdesc_t om))). exact H.
  - unfold x_retain_matching. apply x_remove_list_nodup; auto.
  - unfold xd_remove_matching.
    pose proof (x_remove_quads_nodup d (ds_quads_matching N d (mdesc_t sm) (mdesc_t pm) (mdesc_t om) (gdesc_g gm)) Hn) as H.
    destruct (x_remove_quads SSet d (ds_quads_matching N d (mdesc_t sm) (mdesc_t pm) (mdesc_t om) (gdesc_g gm))). exact H.
  - unfold xd_retain_matching. apply x_remove_quads_nodup; auto.
Qed.

Lemma hstep_nodup pl d h : NoDup d -> NoDup (fst (hstep SSet pl d h)).
Proof.
  intros Hn. destruct h as [o|x]; simpl.
  - pose proof (step_nodup pl d o Hn). destruct (step pl d o). assumption.
  - apply xstep_nodup; assumption.
Qed.

Fixpoint hfinal (pl : pool) (d : dataset N) (ops : list hist_op) : dataset N :=
  match ops with [] => d | o :: ops' => hfinal pl (fst (hstep SSet pl d o)) ops' end.

Theorem hreachable_nodup pl init ops :
  NoDup (hfinal pl (fold_left (fun d q => fst (s_insert SSet d q)) init []) ops).
Proof.
  assert (H0 : forall d, NoDup d -> NoDup (fold_left (fun d q => fst (s_insert SSet d q)) init d)).
  { induction init as [|q init IH]; simpl; intros d Hd; auto. apply IH, s_insert_set_spec, Hd. }
  assert (H : forall d, NoDup d -> NoDup (hfinal pl d ops)).
  { induction ops as [|o ops IH]; simpl; intros d Hd; auto. apply IH, hstep_nodup, Hd. }
  apply H, H0. constructor.
Qed.

(* non-vacuity of the widened alphabet: a view of a view of a view, a landing and a non-landing
   mutation, a bulk insertion stopped by a named graph, on a set and on a bag *)
Example widened_nonvacuous :
  hrun SSet [] [] [HNew (XIns [Some 9; None] (mkT 1 2 3)); HNew (XIns [Some 9; Some 4] (mkT 1 2 3));
                   HNew (XIns [None] (mkT 1 2 3)); HNew (XIns [Some 9; None; None] (mkT 1 2 3));
                   HNew (XGObs [HGraph (Some 9); HUnion] (HGraph None) GOAll);
                   HNew (XGObs [HGraph (Some 9)] (HGraph (Some 9)) GOAll);
                   HNew (XDObs [HUnion] (DOContains (mkQ (mkT 1 2 3) None)));
                   HNew (XInsAll [([None; None], mkT 4 5 6); ([None; Some 4], mkT 7 8 9); ([None], mkT 7 8 9)]);
                   HOld QUnionAll]
  = [XO (OFlag true); XOnlyDefault; XO (OFlag true); XO (OFlag false);
     XO (OTriples [mkT 1 2 3]); XO (OTriples []); XO (OFlag true); XOnlyDefault;
     XO (OTriples [mkT 1 2 3; mkT 1 2 3; mkT 4 5 6])]
  /\ hrun SBagAll [] [] [HOld (DInsert (mkQ (mkT 1 2 3) None)); HOld (VInsert None (mkT 1 2 3));
                       HOld QUnionAll; HOld (VRemove None (mkT 1 2 3)); HOld QUnionAll]
  = [XO (OFlag true); XO (OFlag true); XO (OTriples [mkT 1 2 3; mkT 1 2 3]); XO (OFlag true); XO (OTriples [])].
Proof. split; vm_compute; reflexivity. Qed.
