(* C15/BulkProofs.v -- the store sees, call by call, exactly what the recording consumer sees;
   remove_matching / retain_matching ask for one removal per listed item, in store order;
   a graph seen as a dataset stops the stream at the first named quad; a flush never masks a
   source error. *)
From Sophia.C15 Require Import Model Proofs Bulk.

(* ---------- the journal is the trace of the recording consumer ---------- *)
Lemma n_ins_inserts tr : n_ins (map CInsert tr) = length tr.
Proof. unfold n_ins. induction tr; simpl; auto. Qed.
Lemma n_rem_removes tr : n_rem (map CRemove tr) = length tr.
Proof. unfold n_rem. induction tr; simpl; auto. Qed.

Lemma j_insert_step pol x st tr : journal st = map CInsert tr ->
  journal (fst (j_insert pol x st)) = map CInsert (fst (rec_sink (p_fail_ins pol) x tr))
  /\ snd (j_insert pol x st) = snd (rec_sink (p_fail_ins pol) x tr).
Proof.
  intros H. unfold j_insert, rec_sink. rewrite H, n_ins_inserts.
  assert (E : map CInsert tr ++ [CInsert x] = map CInsert (tr ++ [x])) by (rewrite map_app; reflexivity).
  destruct (p_fail_ins pol) as [[k e]|].
  - destruct (Nat.eqb (length tr) k); simpl; [auto|].
    destruct (p_set pol && existsb (N.eqb x) (content st)); simpl; auto.
  - destruct (p_set pol && existsb (N.eqb x) (content st)); simpl; auto.
Qed.
Lemma j_remove_step pol x st tr : journal st = map CRemove tr ->
  journal (fst (j_remove pol x st)) = map CRemove (fst (rec_sink (p_fail_rem pol) x tr))
  /\ snd (j_remove pol x st) = snd (rec_sink (p_fail_rem pol) x tr).
Proof.
  intros H. unfold j_remove, rec_sink. rewrite H, n_rem_removes.
  assert (E : map CRemove tr ++ [CRemove x] = map CRemove (tr ++ [x])) by (rewrite map_app; reflexivity).
  destruct (p_fail_rem pol) as [[k e]|].
  - destruct (Nat.eqb (length tr) k); simpl; [auto|].
    destruct (existsb (N.eqb x) (content st)); simpl; auto.
  - destruct (existsb (N.eqb x) (content st)); simpl; auto.
Qed.

(* a simulation between two consumers, carried through any source and any adapter chain *)
Section Sim.
Variables (A B : Type) (R : A -> B -> Prop) (f : sink A) (g : sink B).
Hypothesis step : forall x a b, R a b -> R (fst (f x a)) (fst (g x b)) /\ snd (f x a) = snd (g x b).
Lemma feed_spec_sim chain items : forall a b, R a b ->
  R (fst (feed_spec A chain f items a)) (fst (feed_spec B chain g items b))
  /\ snd (feed_spec A chain f items a) = snd (feed_spec B chain g items b).
Proof.
  induction items as [|x r IH]; intros a b H; simpl; auto.
  destruct (through chain x) as [y|]; [|apply IH; exact H].
  destruct (step y a b H) as [H1 H2].
  destruct (f y a) as [a' oa]; destruct (g y b) as [b' ob]; simpl in *. subst ob.
  destruct oa; simpl; auto.
Qed.
Lemma spec_sim chain src : forall a b, R a b ->
  let '(ra, a', oa) := spec A src chain f a in
  let '(rb, b', ob) := spec B src chain g b in
  ra = rb /\ R a' b' /\ oa = ob.
Proof.
  induction src as [|[items oe] rest IH]; intros a b H; simpl; auto.
  destruct (feed_spec_sim chain items a b H) as [H1 H2].
  destruct (feed_spec A chain f items a) as [a' oa]; destruct (feed_spec B chain g items b) as [b' ob]; simpl in *. subst ob.
  destruct oa; auto. destruct oe; auto. apply IH; exact H1.
Qed.
End Sim.

Theorem insert_all_journal pol src chain c0 :
  let '(rest, st, o) := try_for_each jst src chain (j_insert pol) (mkjst c0 [] O) in
  let '(rest', tr, o') := try_for_each (list item) src chain (rec_sink (p_fail_ins pol)) [] in
  journal st = map CInsert tr /\ rest = rest' /\ o = o'.
Proof.
  rewrite !try_for_each_spec.
  pose proof (spec_sim jst (list item) (fun st tr => journal st = map CInsert tr) (j_insert pol) (rec_sink (p_fail_ins pol))
                (fun x a b H => j_insert_step pol x a b H) chain src (mkjst c0 [] O) [] eq_refl) as H.
  destruct (spec jst src chain (j_insert pol) (mkjst c0 [] O)) as [[ra a'] oa].
  destruct (spec (list item) src chain (rec_sink (p_fail_ins pol)) []) as [[rb b'] ob].
  tauto.
Qed.
Theorem remove_all_journal pol src chain c0 :
  let '(rest, st, o) := try_for_each jst src chain (j_remove pol) (mkjst c0 [] O) in
  let '(rest', tr, o') := try_for_each (list item) src chain (rec_sink (p_fail_rem pol)) [] in
  journal st = map CRemove tr /\ rest = rest' /\ o = o'.
Proof.
  rewrite !try_for_each_spec.
  pose proof (spec_sim jst (list item) (fun st tr => journal st = map CRemove tr) (j_remove pol) (rec_sink (p_fail_rem pol))
                (fun x a b H => j_remove_step pol x a b H) chain src (mkjst c0 [] O) [] eq_refl) as H.
  destruct (spec jst src chain (j_remove pol) (mkjst c0 [] O)) as [[ra a'] oa].
  destruct (spec (list item) src chain (rec_sink (p_fail_rem pol)) []) as [[rb b'] ob].
  tauto.
Qed.

(* insert_all with a source fault / a store fault / no fault: the calls the store receives *)
Corollary insert_all_source_fault pol chain steps last e post c0 :
  not_reached (p_fail_ins pol) (length (fm chain (items_of steps ++ last))) ->
  let '(rest, st, o) := bulk_stream true pol [] (clean steps ++ (last, Some e) :: post) chain (mkjst c0 [] O) in
  journal st = map CInsert (fm chain (items_of steps ++ last)) /\ rest = post /\ o = SourceError e.
Proof.
  intros H. unfold bulk_stream. simpl w_insert.
  pose proof (insert_all_journal pol (clean steps ++ (last, Some e) :: post) chain c0) as J.
  rewrite (source_fault_prefix chain (p_fail_ins pol) steps last e post []) in J by exact H.
  destruct (try_for_each jst (clean steps ++ (last, Some e) :: post) chain (j_insert pol) (mkjst c0 [] O)) as [[r s] o].
  simpl in J. exact J.
Qed.
Corollary insert_all_store_fault pol chain steps pre x y rest_of_batch oe post j e c0 :
  p_fail_ins pol = Some (j, e) -> through chain x = Some y ->
  length (fm chain (items_of steps ++ pre)) = j ->
  let '(rest, st, o) := bulk_stream true pol [] (clean steps ++ (pre ++ x :: rest_of_batch, oe) :: post) chain (mkjst c0 [] O) in
  journal st = map CInsert (fm chain (items_of steps ++ pre) ++ [y]) /\ rest = post /\ o = SinkError e.
Proof.
  intros Hf Hx Hj. unfold bulk_stream. simpl w_insert.
  pose proof (insert_all_journal pol (clean steps ++ (pre ++ x :: rest_of_batch, oe) :: post) chain c0) as J.
  rewrite Hf in J.
  rewrite (sink_fault_prefix chain steps pre x y rest_of_batch oe post j e [] Hx Hj) in J.
  destruct (try_for_each jst (clean steps ++ (pre ++ x :: rest_of_batch, oe) :: post) chain (j_insert pol) (mkjst c0 [] O)) as [[r s] o].
  simpl in J. exact J.
Qed.

(* ---------- remove_matching / retain_matching ---------- *)
Lemma collect_ok_inl v : collect_ok (map inl v) = inl v.
Proof. induction v; simpl; auto. rewrite IHv. reflexivity. Qed.
Lemma filter_on_ok_inl p v : filter (on_ok p) (map inl v) = map inl (filter p v).
Proof. induction v as [|x v IH]; simpl; auto. destruct (p x); simpl; rewrite IH; reflexivity. Qed.

Theorem retain_is_remove_of_the_complement pol ws m st :
  matching true pol ws m st = matching false pol ws (fun x => negb (m x)) st.
Proof. reflexivity. Qed.

(* the calls of remove_matching on a store that lists without error: the trace of the recording
   consumer over the matching items in store order (one per occurrence) *)
Theorem remove_matching_journal pol m c0 : p_bad pol = None ->
  let '(st, k) := matching false pol [] m (mkjst c0 [] O) in
  let '(_, tr, o) := try_for_each (list item) (of_results (map inl (filter m c0))) [] (rec_sink (p_fail_rem pol)) [] in
  journal st = map CRemove tr /\ k = kind_of_outcome o.
Proof.
  intros Hb. unfold matching, enumerate. rewrite Hb. simpl w_view. simpl content.
  rewrite filter_on_ok_inl, collect_ok_inl. simpl w_remove.
  pose proof (remove_all_journal pol (of_results (map inl (filter m c0))) [] c0) as J.
  destruct (try_for_each jst (of_results (map inl (filter m c0))) [] (j_remove pol) (mkjst c0 [] O)) as [[r s] o].
  destruct (try_for_each (list item) (of_results (map inl (filter m c0))) [] (rec_sink (p_fail_rem pol)) []) as [[r' tr] o'].
  destruct J as [J1 [J2 J3]]. subst o'. auto.
Qed.
Theorem remove_matching_all_calls pol m c0 : p_bad pol = None -> p_fail_rem pol = None ->
  let '(st, k) := matching false pol [] m (mkjst c0 [] O) in
  journal st = map CRemove (filter m c0) /\ k = KDone.
Proof.
  intros Hb Hf. pose proof (remove_matching_journal pol m c0 Hb) as J.
  destruct (matching false pol [] m (mkjst c0 [] O)) as [st k].
  rewrite of_results_clean in J. rewrite Hf in J.
  rewrite (no_fault_all [] None (map (fun x => [x]) (filter m c0)) [] I) in J.
  rewrite items_of_singletons, fm_nil in J. simpl in J. exact J.
Qed.
Lemma split_nth (l : list item) : forall j, (j < length l)%nat -> l = firstn j l ++ nth j l 0 :: skipn (S j) l.
Proof.
  induction l as [|a l IH]; intros j H; simpl in H; [lia|].
  destruct j; simpl; [reflexivity|]. f_equal. apply IH. lia.
Qed.
Lemma firstn_succ_app (pre : list item) x post : firstn (S (length pre)) (pre ++ x :: post) = pre ++ [x].
Proof. induction pre; simpl; [reflexivity|]. f_equal. exact IHpre. Qed.
Theorem remove_matching_stops_at_the_failing_call pol m c0 j e : p_bad pol = None -> p_fail_rem pol = Some (j, e) ->
  (j < length (filter m c0))%nat ->
  let '(st, k) := matching false pol [] m (mkjst c0 [] O) in
  journal st = map CRemove (firstn (S j) (filter m c0)) /\ k = KSink e.
Proof.
  intros Hb Hf Hj. pose proof (remove_matching_journal pol m c0 Hb) as J.
  destruct (matching false pol [] m (mkjst c0 [] O)) as [st k].
  rewrite Hf in J.
  set (l := filter m c0) in *.
  assert (S : exists pre x post, l = pre ++ x :: post /\ length pre = j).
  { exists (firstn j l), (nth j l 0), (skipn (S j) l). split.
    - apply split_nth. exact Hj.
    - apply firstn_length_le. lia. }
  destruct S as [pre [x [post [El Lp]]]].
  assert (F : firstn (S j) l = pre ++ [x]).
  { rewrite El. rewrite <- Lp. apply firstn_succ_app. }
  rewrite F. rewrite El in J.
  rewrite map_app in J. simpl map in J.
  replace (of_results (map inl pre ++ inl x :: map inl post))
    with (clean (map (fun x => [x]) pre) ++ ([] ++ x :: [], None) :: of_results (map inl post)) in J.
  2:{ unfold of_results. rewrite map_app. simpl. f_equal. unfold clean. rewrite !map_map. reflexivity. }
  rewrite (sink_fault_prefix [] (map (fun x => [x]) pre) [] x x [] None (of_results (map inl post)) j e []) in J.
  - rewrite app_nil_r, items_of_singletons, fm_nil in J. simpl in J. exact J.
  - reflexivity.
  - rewrite app_nil_r, items_of_singletons, fm_nil. simpl. exact Lp.
Qed.
(* the store fails while it is listed: nothing is removed, and its error comes back *)
Lemma collect_ok_err a e b : collect_ok (map inl a ++ inr e :: b) = inr e.
Proof. induction a; simpl; auto. rewrite IHa. reflexivity. Qed.
Theorem remove_matching_listing_error pol retain m c0 k e : p_bad pol = Some (k, e) -> (k <= length c0)%nat ->
  matching retain pol [] m (mkjst c0 [] O) = (mkjst c0 [] O, KSource e).
Proof.
  intros Hb Hk. unfold matching, enumerate. rewrite Hb. simpl content.
  apply Nat.leb_le in Hk. rewrite Hk. simpl w_view.
  rewrite filter_app. simpl filter. rewrite filter_on_ok_inl, collect_ok_err. reflexivity.
Qed.

(* a multiset whose remove takes ONE occurrence out: after remove_matching no matching item is left *)
Lemma remove_first_other x a l : x <> a -> remove_first x (a :: l) = a :: remove_first x l.
Proof. intros H. simpl. destruct (N.eqb_spec x a); [contradiction|reflexivity]. Qed.
Lemma fold_remove_first_skip l : forall a c, ~ In a l ->
  fold_left (fun c x => remove_first x c) l (a :: c) = a :: fold_left (fun c x => remove_first x c) l c.
Proof.
  induction l as [|x l IH]; intros a c H; simpl; auto.
  destruct (N.eqb_spec x a) as [E|E]; [exfalso; apply H; left; exact E|].
  apply IH. intros HI. apply H. right. exact HI.
Qed.
Lemma fold_remove_first_filter m c :
  fold_left (fun c x => remove_first x c) (filter m c) c = filter (fun x => negb (m x)) c.
Proof.
  induction c as [|a c IH]; simpl; auto.
  destruct (m a) eqn:E; simpl.
  - rewrite N.eqb_refl. exact IH.
  - rewrite fold_remove_first_skip; [rewrite IH; reflexivity|].
    intros HI. apply filter_In in HI. destruct HI as [_ HI]. congruence.
Qed.
Lemma existsb_eqb_In x l : existsb (N.eqb x) l = true <-> In x l.
Proof.
  rewrite existsb_exists. split.
  - intros [y [H1 H2]]. apply N.eqb_eq in H2. subst. exact H1.
  - intros H. exists x. split; auto. apply N.eqb_refl.
Qed.
Lemma remove_first_absent x l : ~ In x l -> remove_first x l = l.
Proof.
  induction l as [|a l IH]; intros H; simpl; auto.
  destruct (N.eqb_spec x a) as [E|E]; [exfalso; apply H; left; auto|].
  rewrite IH; auto. intros HI. apply H. right. exact HI.
Qed.
Lemma bag_feed pol v : p_rm_all pol = false -> p_fail_rem pol = None -> forall st,
  let '(_, st', o) := try_for_each jst (of_results (map inl v)) [] (j_remove pol) st in
  content st' = fold_left (fun c x => remove_first x c) v (content st) /\ o = Done.
Proof.
  intros Ha Hf. induction v as [|x v IH]; intros st; simpl; auto.
  unfold j_remove at 1. rewrite Hf, Ha.
  destruct (existsb (N.eqb x) (content st)) eqn:E; simpl.
  - specialize (IH (mkjst (remove_first x (content st)) (journal st ++ [CRemove x]) (S (changed st)))).
    simpl in IH. exact IH.
  - specialize (IH (mkjst (content st) (journal st ++ [CRemove x]) (changed st))). simpl in IH.
    rewrite remove_first_absent; [exact IH|].
    intros HI. apply existsb_eqb_In in HI. congruence.
Qed.
Theorem bag_remove_matching_leaves_no_match pol m c0 :
  p_rm_all pol = false -> p_fail_rem pol = None -> p_bad pol = None ->
  let '(st, k) := matching false pol [] m (mkjst c0 [] O) in
  content st = filter (fun x => negb (m x)) c0 /\ k = KDone.
Proof.
  intros Ha Hf Hb. unfold matching, enumerate. rewrite Hb. simpl w_view. simpl content.
  rewrite filter_on_ok_inl, collect_ok_inl. simpl w_remove.
  pose proof (bag_feed pol (filter m c0) Ha Hf (mkjst c0 [] O)) as J.
  destruct (try_for_each jst (of_results (map inl (filter m c0))) [] (j_remove pol) (mkjst c0 [] O)) as [[r s] o].
  simpl in J. destruct J as [J1 J2]. subst o. rewrite J1, fold_remove_first_filter. auto.
Qed.

(* ---------- consumers behind adapters ---------- *)
Theorem mut_ref_forwards St ws (base : sink St) :
  w_insert St (WRef :: ws) base = w_insert St ws base /\ w_remove St (WRef :: ws) base = w_remove St ws base.
Proof. split; reflexivity. Qed.
Lemma gname_set g x : gname (1000 * g + tpart x) = g.
Proof.
  unfold gname, tpart. rewrite N.mul_comm, N.div_add_l by lia.
  rewrite N.div_small; [lia|]. apply N.mod_lt. lia.
Qed.
Lemma tpart_set g x : tpart (1000 * g + tpart x) = tpart x.
Proof.
  unfold tpart. rewrite N.add_comm, N.mul_comm, N.mod_add by lia. apply N.mod_mod. lia.
Qed.
Theorem dataset_graph_writes_into_its_graph St g (base : sink St) x st :
  w_insert St [WGraphMut g] base x st = base (1000 * g + tpart x) st
  /\ gname (1000 * g + tpart x) = g /\ tpart (1000 * g + tpart x) = tpart x.
Proof. split; [reflexivity|]. split; [apply gname_set|apply tpart_set]. Qed.
Theorem graph_as_dataset_default St ws (base : sink St) x st : is_named x = false ->
  w_insert St (WAsDataset :: ws) base x st = w_insert St ws base (tpart x) st.
Proof. intros H. simpl. rewrite H. reflexivity. Qed.
Theorem graph_as_dataset_refuses_named St ws (base : sink St) x st : is_named x = true ->
  w_insert St (WAsDataset :: ws) base x st = (st, Some E_ONLY_DEFAULT).
Proof. intros H. simpl. rewrite H. reflexivity. Qed.
(* a named graph of a graph seen as a dataset refuses every triple *)
Theorem named_graph_of_graph_as_dataset St g ws (base : sink St) x st : g <> 0 ->
  w_insert St (WGraphMut g :: WAsDataset :: ws) base x st = (st, Some E_ONLY_DEFAULT).
Proof.
  intros H. cbn [w_insert]. unfold is_named. rewrite gname_set.
  destruct (N.eqb_spec g 0); [contradiction|reflexivity].
Qed.
(* removal of a named quad from a graph seen as a dataset: nothing to do, no error *)
Theorem graph_as_dataset_remove_named St ws (base : sink St) x st : is_named x = true ->
  w_remove St (WAsDataset :: ws) base x st = (st, None).
Proof. intros H. simpl. rewrite H. reflexivity. Qed.

(* the stream into a graph seen as a dataset stops AT the first named quad: the quads before it
   have been handed to the graph (each once, in order), the rest of the source is untouched *)
Theorem graph_as_dataset_stops_at_named St ws (base : sink St) pre x post st :
  (forall y s, snd (w_insert St ws base y s) = None) ->
  forallb (fun y => negb (is_named y)) pre = true -> is_named x = true ->
  try_for_each St (of_results (map inl pre ++ inl x :: post)) [] (w_insert St (WAsDataset :: ws) base) st
  = (of_results post, fold_left (fun s y => fst (w_insert St ws base (tpart y) s)) pre st, SinkError E_ONLY_DEFAULT).
Proof.
  intros Hn Hp Hx. revert st. induction pre as [|a pre IH]; intros st.
  - simpl. rewrite Hx. reflexivity.
  - simpl in Hp. apply andb_true_iff in Hp. destruct Hp as [Ha Hp]. apply negb_true_iff in Ha.
    simpl. rewrite Ha.
    pose proof (Hn (tpart a) st) as Hs.
    destruct (w_insert St ws base (tpart a) st) as [st' oe] eqn:E. simpl in Hs. subst oe.
    specialize (IH Hp st'). simpl in IH. rewrite IH. reflexivity.
Qed.
Corollary journal_fold pol pre : forall st, p_fail_ins pol = None ->
  journal (fold_left (fun s y => fst (j_insert pol (tpart y) s)) pre st) = journal st ++ map CInsert (map tpart pre).
Proof.
  induction pre as [|a pre IH]; intros st Hf; simpl; [rewrite app_nil_r; reflexivity|].
  rewrite IH by exact Hf. unfold j_insert. rewrite Hf.
  destruct (p_set pol && existsb (N.eqb (tpart a)) (content st)); simpl; rewrite <- app_assoc; reflexivity.
Qed.
Theorem graph_as_dataset_journal pol pre x post c0 : p_fail_ins pol = None ->
  forallb (fun y => negb (is_named y)) pre = true -> is_named x = true ->
  let '(rest, st, o) := bulk_stream true pol [WAsDataset] (of_results (map inl pre ++ inl x :: post)) [] (mkjst c0 [] O) in
  journal st = map CInsert (map tpart pre) /\ rest = of_results post /\ o = SinkError E_ONLY_DEFAULT.
Proof.
  intros Hf Hp Hx. unfold bulk_stream.
  rewrite (graph_as_dataset_stops_at_named jst [] (j_insert pol) pre x post (mkjst c0 [] O)); auto.
  - simpl w_insert. rewrite journal_fold by exact Hf. simpl. auto.
  - intros y s. simpl. unfold j_insert. rewrite Hf. destruct (p_set pol && existsb (N.eqb y) (content s)); reflexivity.
Qed.

(* ---------- flush ---------- *)
Theorem flush_never_masks_a_source_error mode e ffail : mode <> FlushAlways ->
  after_stream mode (SourceError e) ffail = (KSource e, O).
Proof. destruct mode; intros H; [reflexivity|reflexivity|contradiction]. Qed.
Theorem write_error_comes_first mode e ffail : after_stream mode (SinkError e) ffail = (KSink e, O).
Proof. reflexivity. Qed.
Theorem flush_error_is_a_sink_error e : after_stream FlushAtEnd Done (Some e) = (KSink e, 1%nat).
Proof. reflexivity. Qed.
Theorem no_flush_no_flush_error ffail : after_stream NoFlush Done ffail = (KDone, O).
Proof. reflexivity. Qed.
(* end to end: the source fails in some step, no write fails before: SourceError with the original
   value, exactly the statements before it written, whatever flush would have answered *)
Theorem serialize_source_fault mode chain wfault ffail steps last e post : mode <> FlushAlways ->
  not_reached wfault (length (fm chain (items_of steps ++ last))) ->
  serialize mode (clean steps ++ (last, Some e) :: post) chain wfault ffail
  = (fm chain (items_of steps ++ last), KSource e, O).
Proof.
  intros Hm H. unfold serialize.
  rewrite (source_fault_prefix chain wfault steps last e post []) by exact H.
  rewrite flush_never_masks_a_source_error by exact Hm. reflexivity.
Qed.
Theorem serialize_done mode chain wfault ffail steps :
  not_reached wfault (length (fm chain (items_of steps))) ->
  serialize mode (clean steps) chain wfault ffail
  = (fm chain (items_of steps), fst (after_stream mode Done ffail), snd (after_stream mode Done ffail)).
Proof.
  intros H. unfold serialize. rewrite (no_fault_all chain wfault steps []) by exact H.
  destruct (after_stream mode Done ffail). reflexivity.
Qed.
(* document level: with a serializer of the code (NoFlush / FlushAtEnd) the error is that of the first failure *)
Theorem ser_outcome_first_failure mode src_err wfail ffail : mode <> FlushAlways ->
  fst (ser_outcome mode src_err wfail ffail) =
  match wfail, src_err with
  | Some e, _ => KSink e
  | None, Some e => KSource e
  | None, None => match mode, ffail with NoFlush, _ => KDone | _, Some e => KSink e | _, None => KDone end
  end.
Proof.
  intros Hm. unfold ser_outcome. destruct wfail; [reflexivity|]. destruct src_err.
  - rewrite flush_never_masks_a_source_error by exact Hm. reflexivity.
  - destruct mode; try contradiction; destruct ffail; reflexivity.
Qed.
(* what goes wrong with a serializer that flushes also after a source failure and lets `?` decide *)
Theorem flush_after_a_source_error_blames_the_sink :
  exists src e e', serialize FlushAlways src [] None (Some e') = ([1; 2], KSink e', 1%nat)
                   /\ serialize FlushAtEnd src [] None (Some e') = ([1; 2], KSource e, O)
                   /\ e <> e'.
Proof. exists (of_results [inl 1; inl 2; inr 42; inl 3]), 42, 77. repeat split; try reflexivity. lia. Qed.
