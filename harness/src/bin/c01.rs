//! C01: every shipped in-memory graph/dataset behaves like a mathematical set (vectors: list) of
//! quads, checked against the Coq model (coq/C01/Model.v) and against a naive oracle, over mixed
//! histories using every shipped matcher implementation.
use sophia_api::dataset::DTerm;
use sophia_api::graph::GTerm;
use sophia_api::prelude::*;
use sophia_api::quad::{Gspo, Spog};
use sophia_api::source::IntoSource;
use sophia_api::term::matcher::{
    DatatypeMatcher, GraphNameMatcher, LanguageTagMatcher, Not, TermMatcher, TermMatcherGn,
};
use sophia_api::term::{GraphName, LanguageTag, SimpleTerm};
use sophia_inmem::index::SimpleTermIndex;
use std::collections::{BTreeSet, HashSet};
use verif_harness::*;

type Tid = u64;
type Q4 = (Tid, Tid, Tid, Option<Tid>);
const NT: u64 = 16; // pool size

// ---------- matcher descriptions (what Coq sees) ----------
#[derive(Clone, Debug, PartialEq)]
enum MD { Any, Const(Tid), OneOf(Vec<Tid>), NotOneOf(Vec<Tid>) }
#[derive(Clone, Debug, PartialEq)]
enum GD { Any, Const(Option<Tid>), OneOf(Vec<Option<Tid>>), NotOneOf(Vec<Option<Tid>>) }

struct Ctx { pool: Vec<Vec<ST>> }
impl Ctx {
    fn term(&self, id: Tid, r: &mut Rng) -> ST { r.pick(&self.pool[(id - 1) as usize]).clone() }
    fn id<T: Term>(&self, t: T) -> Tid { class_id(&self.pool, t) }
    fn quad(&self, q: &Q4, r: &mut Rng) -> (ST, ST, ST, Option<ST>) {
        (self.term(q.0, r), self.term(q.1, r), self.term(q.2, r), q.3.map(|g| self.term(g, r)))
    }
}

// ---------- custom matchers (as in c11) ----------
/// mode 0: anything, 1: one of `terms`, 2: none of `terms`
struct TM { mode: u8, terms: Vec<ST> }
impl TermMatcher for TM {
    type Term = ST;
    fn matches<T2: Term + ?Sized>(&self, term: &T2) -> bool {
        let hit = self.terms.iter().any(|m| Term::eq(m, term.borrow_term()));
        match self.mode { 0 => true, 1 => hit, _ => !hit }
    }
    fn constant(&self) -> Option<&ST> {
        if self.mode == 1 && self.terms.len() == 1 { Some(&self.terms[0]) } else { None }
    }
}
struct GM { mode: u8, names: Vec<Option<ST>> }
impl GraphNameMatcher for GM {
    type Term = ST;
    fn matches<T2: Term + ?Sized>(&self, g: GraphName<&T2>) -> bool {
        let hit = self.names.iter().any(|m| match (m, g) {
            (None, None) => true,
            (Some(a), Some(b)) => Term::eq(a, b.borrow_term()),
            _ => false,
        });
        match self.mode { 0 => true, 1 => hit, _ => !hit }
    }
    fn constant(&self) -> Option<GraphName<&ST>> {
        if self.mode == 1 && self.names.len() == 1 { Some(self.names[0].as_ref()) } else { None }
    }
}

// ---------- one harness enum per position type, delegating to the REAL sophia matchers ----------
type TClo = Box<dyn Fn(SimpleTerm<'_>) -> bool>;
type GClo = Box<dyn Fn(GraphName<SimpleTerm<'_>>) -> bool>;
enum TMK {
    Any(Any),
    Opt(Option<ST>),
    Arr1([ST; 1]),
    Arr2([ST; 2]),
    Arr3([ST; 3]),
    Slice(&'static [ST]), // the `&[T]` matcher (leaked so that constant() can borrow from it)
    Kind(TermKind),
    NotArr1(Not<[ST; 1]>),
    NotArr2(Not<[ST; 2]>),
    NotKind(Not<TermKind>),
    NotM(Box<Not<TMK>>),
    Closure(TClo),
    Datatype(DatatypeMatcher<String>),
    Lang(LanguageTagMatcher<String>),
    Triple3(Box<(TMK, TMK, TMK)>),
    Custom(TM),
}
impl TermMatcher for TMK {
    type Term = ST;
    fn matches<T2: Term + ?Sized>(&self, t: &T2) -> bool {
        match self {
            TMK::Any(m) => TermMatcher::matches(m, t),
            TMK::Opt(m) => TermMatcher::matches(m, t),
            TMK::Arr1(m) => TermMatcher::matches(m, t),
            TMK::Arr2(m) => TermMatcher::matches(m, t),
            TMK::Arr3(m) => TermMatcher::matches(m, t),
            TMK::Slice(m) => TermMatcher::matches(m, t),
            TMK::Kind(m) => TermMatcher::matches(m, t),
            TMK::NotArr1(m) => TermMatcher::matches(m, t),
            TMK::NotArr2(m) => TermMatcher::matches(m, t),
            TMK::NotKind(m) => TermMatcher::matches(m, t),
            TMK::NotM(m) => TermMatcher::matches(&**m, t),
            TMK::Closure(m) => TermMatcher::matches(&**m, t),
            TMK::Datatype(m) => TermMatcher::matches(m, t),
            TMK::Lang(m) => TermMatcher::matches(m, t),
            TMK::Triple3(m) => TermMatcher::matches(&**m, t),
            TMK::Custom(m) => TermMatcher::matches(m, t),
        }
    }
    fn constant(&self) -> Option<&ST> {
        match self {
            TMK::Any(m) => TermMatcher::constant(m),
            TMK::Opt(m) => TermMatcher::constant(m),
            TMK::Arr1(m) => TermMatcher::constant(m),
            TMK::Arr2(m) => TermMatcher::constant(m),
            TMK::Arr3(m) => TermMatcher::constant(m),
            TMK::Slice(m) => TermMatcher::constant(m),
            TMK::Kind(m) => TermMatcher::constant(m),
            TMK::NotArr1(m) => TermMatcher::constant(m),
            TMK::NotArr2(m) => TermMatcher::constant(m),
            TMK::NotKind(m) => TermMatcher::constant(m),
            TMK::NotM(m) => TermMatcher::constant(&**m),
            TMK::Closure(m) => TermMatcher::constant(&**m),
            TMK::Datatype(m) => TermMatcher::constant(m),
            TMK::Lang(m) => TermMatcher::constant(m),
            TMK::Triple3(m) => TermMatcher::constant(&**m),
            TMK::Custom(m) => TermMatcher::constant(m),
        }
    }
}
enum GMK {
    Any(Any),
    Opt(Option<Option<ST>>),
    Arr1([GraphName<ST>; 1]),
    Arr2([GraphName<ST>; 2]),
    Slice(&'static [GraphName<ST>]),
    Kind(Option<TermKind>),
    Gn(TermMatcherGn<TMK>),
    Not(Box<Not<GMK>>),
    Closure(GClo),
    OptTriple(Option<(TMK, TMK, TMK)>),
    Custom(GM),
}
impl GraphNameMatcher for GMK {
    type Term = ST;
    fn matches<T2: Term + ?Sized>(&self, g: GraphName<&T2>) -> bool {
        match self {
            GMK::Any(m) => GraphNameMatcher::matches(m, g),
            GMK::Opt(m) => GraphNameMatcher::matches(m, g),
            GMK::Arr1(m) => GraphNameMatcher::matches(m, g),
            GMK::Arr2(m) => GraphNameMatcher::matches(m, g),
            GMK::Slice(m) => GraphNameMatcher::matches(m, g),
            GMK::Kind(m) => GraphNameMatcher::matches(m, g),
            GMK::Gn(m) => GraphNameMatcher::matches(m, g),
            GMK::Not(m) => GraphNameMatcher::matches(&**m, g),
            GMK::Closure(m) => GraphNameMatcher::matches(&**m, g),
            GMK::OptTriple(m) => GraphNameMatcher::matches(m, g),
            GMK::Custom(m) => GraphNameMatcher::matches(m, g),
        }
    }
    fn constant(&self) -> Option<GraphName<&ST>> {
        match self {
            GMK::Any(m) => GraphNameMatcher::constant(m),
            GMK::Opt(m) => GraphNameMatcher::constant(m),
            GMK::Arr1(m) => GraphNameMatcher::constant(m),
            GMK::Arr2(m) => GraphNameMatcher::constant(m),
            GMK::Slice(m) => GraphNameMatcher::constant(m),
            GMK::Kind(m) => GraphNameMatcher::constant(m),
            GMK::Gn(m) => GraphNameMatcher::constant(m),
            GMK::Not(m) => GraphNameMatcher::constant(&**m),
            GMK::Closure(m) => GraphNameMatcher::constant(&**m),
            GMK::OptTriple(m) => GraphNameMatcher::constant(m),
            GMK::Custom(m) => GraphNameMatcher::constant(m),
        }
    }
}

/// a real matcher, its derived description and a printable label
struct TMatch { m: TMK, d: MD, label: String }
struct GMatch { m: GMK, d: GD, label: String }

/// RULE: Const(c) iff constant() is Some(c); otherwise the exact extension over the pool classes
fn describe_t(c: &Ctx, m: &TMK, label: &str) -> MD {
    let mut ext: Vec<Tid> = vec![];
    for (i, class) in c.pool.iter().enumerate() {
        let hits: Vec<bool> = class.iter().map(|t| TermMatcher::matches(m, t)).collect();
        assert!(hits.iter().all(|h| *h == hits[0]), "matcher {label} is not invariant under Term::eq on class {}", i + 1);
        if hits[0] { ext.push((i + 1) as Tid) }
    }
    match TermMatcher::constant(m) {
        Some(k) => {
            let k = c.id(k);
            assert!(ext == vec![k], "matcher {label}: constant {k} but extension {ext:?}");
            MD::Const(k)
        }
        None => {
            if ext.len() as u64 == NT { MD::Any }
            else if ext.len() <= 8 { MD::OneOf(ext) }
            else { MD::NotOneOf((1..=NT).filter(|i| !ext.contains(i)).collect()) }
        }
    }
}
fn describe_g(c: &Ctx, m: &GMK, label: &str) -> GD {
    let mut ext: Vec<Option<Tid>> = vec![];
    if GraphNameMatcher::matches(m, None::<&ST>) { ext.push(None) }
    for (i, class) in c.pool.iter().enumerate() {
        let hits: Vec<bool> = class.iter().map(|t| GraphNameMatcher::matches(m, Some(t))).collect();
        assert!(hits.iter().all(|h| *h == hits[0]), "graph matcher {label} is not invariant under Term::eq on class {}", i + 1);
        if hits[0] { ext.push(Some((i + 1) as Tid)) }
    }
    match GraphNameMatcher::constant(m) {
        Some(k) => {
            let k = k.map(|t| c.id(t));
            assert!(ext == vec![k], "graph matcher {label}: constant {k:?} but extension {ext:?}");
            GD::Const(k)
        }
        None => {
            let all: Vec<Option<Tid>> = std::iter::once(None).chain((1..=NT).map(Some)).collect();
            if ext.len() == all.len() { GD::Any }
            else if ext.len() <= 8 { GD::OneOf(ext) }
            else { GD::NotOneOf(all.into_iter().filter(|i| !ext.contains(i)).collect()) }
        }
    }
}
fn tmatch(c: &Ctx, (m, label): (TMK, String)) -> TMatch { let d = describe_t(c, &m, &label); TMatch { m, d, label } }
fn gmatch(c: &Ctx, (m, label): (GMK, String)) -> GMatch { let d = describe_g(c, &m, &label); GMatch { m, d, label } }

// ---------- generation of real matchers ----------
fn leak<T>(v: Vec<T>) -> &'static [T] { Box::leak(v.into_boxed_slice()) }
const KINDS: [TermKind; 5] = [TermKind::Iri, TermKind::Literal, TermKind::BlankNode, TermKind::Triple, TermKind::Variable];
fn pick_id(r: &mut Rng, cands: &[Tid]) -> Tid {
    if !cands.is_empty() && r.chance(3, 4) { *r.pick(cands) } else { 1 + r.below(NT as usize) as u64 }
}
fn pick_gid(r: &mut Rng, cands: &[Option<Tid>]) -> Option<Tid> {
    if !cands.is_empty() && r.chance(3, 4) { *r.pick(cands) } else { *r.pick(&[None, Some(12), Some(4), Some(13), Some(1), Some(7)]) }
}
fn g_txt(g: &Option<Tid>) -> String { match g { None => "D".into(), Some(x) => x.to_string() } }

/// a matcher with a constant
fn gen_const_t(c: &Ctx, r: &mut Rng, id: Tid) -> (TMK, String) {
    let t = c.term(id, r);
    match r.below(4) {
        0 => (TMK::Opt(Some(t)), format!("Some({id})")),
        1 => (TMK::Arr1([t]), format!("[{id}]")),
        2 => (TMK::Slice(leak(vec![t])), format!("&[{id}][..]")),
        _ => (TMK::Custom(TM { mode: 1, terms: vec![t] }), format!("TM-oneof[{id}]")),
    }
}
fn gen_tclo(c: &Ctx, r: &mut Rng, cands: &[Tid]) -> (TClo, String) {
    match r.below(5) {
        0 => { let k = *r.pick(&KINDS); (Box::new(move |t: SimpleTerm<'_>| Term::kind(&t) == k), format!("|t| kind=={k:?}")) }
        1 => (Box::new(|t: SimpleTerm<'_>| t.lexical_form().is_some_and(|l| &*l == "lit")), "|t| lex==lit".into()),
        2 => { let id = pick_id(r, cands); let target = c.term(id, r); (Box::new(move |t: SimpleTerm<'_>| Term::eq(&t, target.borrow_term())), format!("|t| t eq {id}")) }
        3 => (Box::new(|t: SimpleTerm<'_>| t.iri().is_some_and(|i| i.as_str().ends_with('a') || i.as_str().ends_with("g1"))), "|t| iri ends a|g1".into()),
        _ => (Box::new(|t: SimpleTerm<'_>| !t.is_literal() && !t.is_triple()), "|t| !literal && !triple".into()),
    }
}
/// component matcher of a quoted-triple matcher
fn gen_inner_t(c: &Ctx, r: &mut Rng, cands: &[Tid], depth: usize) -> (TMK, String) {
    match r.below(4) {
        0 | 1 => (TMK::Any(Any), "Any".into()),
        2 => { let id = *r.pick(&[1, 3, 4, 7, 15, 16]); gen_const_t(c, r, id) }
        _ => gen_free_t(c, r, cands, depth + 1),
    }
}
/// a matcher without constant
fn gen_free_t(c: &Ctx, r: &mut Rng, cands: &[Tid], depth: usize) -> (TMK, String) {
    match r.below(22) {
        0..=5 => (TMK::Any(Any), "Any".into()),
        6 => (TMK::Opt(None), "None".into()),
        7 | 8 => { let (a, b) = (pick_id(r, cands), pick_id(r, cands)); (TMK::Arr2([c.term(a, r), c.term(b, r)]), format!("[{a},{b}]")) }
        9 => { let (a, b, d) = (pick_id(r, cands), pick_id(r, cands), pick_id(r, cands)); (TMK::Arr3([c.term(a, r), c.term(b, r), c.term(d, r)]), format!("[{a},{b},{d}]")) }
        10 | 11 => {
            let n = *r.pick(&[0usize, 2, 3]);
            let ids: Vec<Tid> = (0..n).map(|_| pick_id(r, cands)).collect();
            (TMK::Slice(leak(ids.iter().map(|i| c.term(*i, r)).collect())), format!("&{ids:?}[..]"))
        }
        12 => { let k = *r.pick(&KINDS); (TMK::Kind(k), format!("{k:?}")) }
        13 => { let a = pick_id(r, cands); (TMK::NotArr1(Not([c.term(a, r)])), format!("Not([{a}])")) }
        14 => { let (a, b) = (pick_id(r, cands), pick_id(r, cands)); (TMK::NotArr2(Not([c.term(a, r), c.term(b, r)])), format!("Not([{a},{b}])")) }
        15 => { let k = *r.pick(&KINDS); (TMK::NotKind(Not(k)), format!("Not({k:?})")) }
        16 => {
            let (m, l) = if depth >= 2 || r.chance(1, 2) { let id = pick_id(r, cands); gen_const_t(c, r, id) } else { gen_free_t(c, r, cands, depth + 1) };
            (TMK::NotM(Box::new(Not(m))), format!("Not({l})"))
        }
        17 => { let (f, l) = gen_tclo(c, r, cands); (TMK::Closure(f), l) }
        18 => {
            let dt = r.ps(&["http://www.w3.org/2001/XMLSchema#string", "http://www.w3.org/2001/XMLSchema#integer", "http://www.w3.org/1999/02/22-rdf-syntax-ns#langString"]);
            (TMK::Datatype(DatatypeMatcher::new(IriRef::new_unchecked(dt.to_string()))), format!("Any*<{dt}>"))
        }
        19 => {
            let tag = r.ps(&["EN", "en", "fr-BE", "en-us", "En-Us", "de"]);
            (TMK::Lang(LanguageTagMatcher::new(LanguageTag::new_unchecked(tag.to_string()))), format!("Any*@{tag}"))
        }
        20 if depth < 2 => {
            let (s, ls) = gen_inner_t(c, r, cands, depth);
            let (p, lp) = gen_inner_t(c, r, cands, depth);
            let (o, lo) = gen_inner_t(c, r, cands, depth);
            (TMK::Triple3(Box::new((s, p, o))), format!("({ls}, {lp}, {lo})"))
        }
        20 => (TMK::Any(Any), "Any".into()),
        _ => {
            let (mode, n) = *r.pick(&[(0u8, 0usize), (1, 0), (1, 2), (1, 3), (2, 1), (2, 2)]);
            let ids: Vec<Tid> = (0..n).map(|_| pick_id(r, cands)).collect();
            (TMK::Custom(TM { mode, terms: ids.iter().map(|i| c.term(*i, r)).collect() }), format!("TM{mode}{ids:?}"))
        }
    }
}
fn gname(c: &Ctx, r: &mut Rng, g: Option<Tid>) -> Option<ST> { g.map(|g| c.term(g, r)) }
fn gen_const_g(c: &Ctx, r: &mut Rng, g: Option<Tid>) -> (GMK, String) {
    let t = g_txt(&g);
    match r.below(5) {
        0 => (GMK::Opt(Some(gname(c, r, g))), format!("Some({t})")),
        1 => (GMK::Arr1([gname(c, r, g)]), format!("[{t}]")),
        2 => (GMK::Slice(leak(vec![gname(c, r, g)])), format!("&[{t}][..]")),
        3 if g.is_some() => { let (m, l) = gen_const_t(c, r, g.unwrap()); (GMK::Gn(m.gn()), format!("{l}.gn()")) }
        3 => (GMK::Opt(Some(None)), "Some(D)".into()),
        _ => (GMK::Custom(GM { mode: 1, names: vec![gname(c, r, g)] }), format!("GM-oneof[{t}]")),
    }
}
fn gen_gclo(c: &Ctx, r: &mut Rng, cands: &[Option<Tid>]) -> (GClo, String) {
    match r.below(5) {
        0 => (Box::new(|g: GraphName<SimpleTerm<'_>>| g.is_some()), "|g| g.is_some()".into()),
        1 => (Box::new(|g: GraphName<SimpleTerm<'_>>| g.is_none()), "|g| g.is_none()".into()),
        2 => (Box::new(|g: GraphName<SimpleTerm<'_>>| g.is_some_and(|t| t.iri().is_some_and(|i| i.as_str().ends_with("g1")))), "|g| iri ends g1".into()),
        3 => (Box::new(|g: GraphName<SimpleTerm<'_>>| match g { None => true, Some(t) => t.is_blank_node() }), "|g| default or bnode".into()),
        _ => {
            let id = pick_gid(r, cands); let target = gname(c, r, id);
            (Box::new(move |g: GraphName<SimpleTerm<'_>>| match (&g, &target) { (None, None) => true, (Some(a), Some(b)) => Term::eq(a, b.borrow_term()), _ => false }), format!("|g| g eq {}", g_txt(&id)))
        }
    }
}
fn gen_free_g(c: &Ctx, r: &mut Rng, cands: &[Option<Tid>], depth: usize) -> (GMK, String) {
    let named: Vec<Tid> = cands.iter().filter_map(|g| *g).collect();
    match r.below(22) {
        0..=5 => (GMK::Any(Any), "Any".into()),
        6 => (GMK::Opt(None), "None".into()),
        7 | 8 => { let (a, b) = (pick_gid(r, cands), pick_gid(r, cands)); (GMK::Arr2([gname(c, r, a), gname(c, r, b)]), format!("[{},{}]", g_txt(&a), g_txt(&b))) }
        9 | 10 => {
            let n = *r.pick(&[0usize, 2, 3]);
            let ids: Vec<Option<Tid>> = (0..n).map(|_| pick_gid(r, cands)).collect();
            (GMK::Slice(leak(ids.iter().map(|i| gname(c, r, *i)).collect())), format!("&[{}][..]", ids.iter().map(g_txt).collect::<Vec<_>>().join(",")))
        }
        11 | 12 => { let k = *r.pick(&[None, None, Some(TermKind::Iri), Some(TermKind::BlankNode), Some(TermKind::Literal)]); (GMK::Kind(k), format!("{k:?}")) }
        13 | 14 => { let (m, l) = gen_free_t(c, r, &named, 1); (GMK::Gn(m.gn()), format!("{l}.gn()")) }
        15 | 16 => {
            let (m, l) = if depth >= 2 || r.chance(1, 2) { let g = pick_gid(r, cands); gen_const_g(c, r, g) } else { gen_free_g(c, r, cands, depth + 1) };
            (GMK::Not(Box::new(Not(m))), format!("Not({l})"))
        }
        17 | 18 => { let (f, l) = gen_gclo(c, r, cands); (GMK::Closure(f), l) }
        19 => {
            if r.chance(1, 2) { (GMK::OptTriple(None), "None::<(S,P,O)>".into()) } else {
                let (s, ls) = gen_inner_t(c, r, &named, 1);
                let (p, lp) = gen_inner_t(c, r, &named, 1);
                let (o, lo) = gen_inner_t(c, r, &named, 1);
                (GMK::OptTriple(Some((s, p, o))), format!("Some(({ls}, {lp}, {lo}))"))
            }
        }
        _ => {
            let (mode, n) = *r.pick(&[(0u8, 0usize), (1, 0), (1, 2), (1, 3), (2, 1), (2, 2)]);
            let ids: Vec<Option<Tid>> = (0..n).map(|_| pick_gid(r, cands)).collect();
            (GMK::Custom(GM { mode, names: ids.iter().map(|i| gname(c, r, *i)).collect() }), format!("GM{mode}[{}]", ids.iter().map(g_txt).collect::<Vec<_>>().join(",")))
        }
    }
}
fn tmk_kind(m: &TMK) -> &'static str {
    match m {
        TMK::Any(_) => "Any", TMK::Opt(Some(_)) => "Option:Some", TMK::Opt(None) => "Option:None", TMK::Arr1(_) => "[T;1]", TMK::Arr2(_) => "[T;2]", TMK::Arr3(_) => "[T;3]",
        TMK::Slice(s) => if s.len() == 1 { "&[T]:len1" } else { "&[T]" }, TMK::Kind(_) => "TermKind", TMK::NotArr1(_) => "Not<[T;1]>", TMK::NotArr2(_) => "Not<[T;2]>",
        TMK::NotKind(_) => "Not<TermKind>", TMK::NotM(_) => "Not<M>", TMK::Closure(_) => "closure", TMK::Datatype(_) => "DatatypeMatcher", TMK::Lang(_) => "LanguageTagMatcher",
        TMK::Triple3(_) => "(S,P,O)", TMK::Custom(t) => if t.mode == 1 && t.terms.len() == 1 { "custom:const" } else { "custom" },
    }
}
fn gmk_kind(m: &GMK) -> &'static str {
    match m {
        GMK::Any(_) => "Any", GMK::Opt(Some(_)) => "Option<Option>:Some", GMK::Opt(None) => "Option<Option>:None", GMK::Arr1(_) => "[G;1]", GMK::Arr2(_) => "[G;2]",
        GMK::Slice(s) => if s.len() == 1 { "&[G]:len1" } else { "&[G]" }, GMK::Kind(_) => "Option<TermKind>", GMK::Gn(_) => "TermMatcherGn", GMK::Not(_) => "Not<G>",
        GMK::Closure(_) => "closure", GMK::OptTriple(_) => "Option<(S,P,O)>", GMK::Custom(t) => if t.mode == 1 && t.names.len() == 1 { "custom:const" } else { "custom" },
    }
}
fn main() {}
