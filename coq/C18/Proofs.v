(* C18/Proofs.v -- lemmas and theorems about C18/Model.v *)
From Sophia.C18 Require Import Model.

(* ------------------------------------------------------------------------------------------- *)
(* A. escaping and the readers                                                                  *)
(* ------------------------------------------------------------------------------------------- *)
Definition lit_map (lit : N -> N) (s : str) : str := map (fun c => if is_special c then c else lit c) s.

Lemma esc1_cases c :
  (is_special c = false /\ esc1 c = [c]) \/
  (c = 60 /\ esc1 c = e_lt) \/ (c = 62 /\ esc1 c = e_gt) \/ (c = 38 /\ esc1 c = e_amp) \/
  (c = 39 /\ esc1 c = e_apos) \/ (c = 34 /\ esc1 c = e_quot).
Proof.
  unfold esc1, is_special.
  destruct (N.eqb_spec c 60); [right; left; auto|].
  destruct (N.eqb_spec c 62); [right; right; left; auto|].
  destruct (N.eqb_spec c 38); [right; right; right; left; auto|].
  destruct (N.eqb_spec c 39); [right; right; right; right; left; auto|].
  destruct (N.eqb_spec c 34); [right; right; right; right; right; auto|].
  left; auto.
Qed.

Lemma escape_cons c s : escape (c :: s) = esc1 c ++ escape s.
Proof. reflexivity. Qed.
Lemma escape_app a b : escape (a ++ b) = escape a ++ escape b.
Proof. unfold escape. apply flat_map_app. Qed.

Lemma not_special_not_amp c : is_special c = false -> (c =? 38) = false.
Proof. unfold is_special. intros H. repeat (apply orb_false_iff in H as [H ?]). repeat match goal with H : _ || _ = false |- _ => apply orb_false_iff in H as [? ?] end. assumption. Qed.

(* the reader's reference expansion inverts the writer's escaping, for EVERY string, in front of
   any continuation; literal characters go through [lit] *)
Lemma unesc_escape_app strict lit s rest :
  unesc strict lit None (escape s ++ rest)
  = option_map (app (lit_map lit s)) (unesc strict lit None rest).
Proof.
  induction s as [|c s IH].
  - simpl. destruct (unesc strict lit None rest); reflexivity.
  - rewrite escape_cons, <- app_assoc.
    destruct (esc1_cases c) as [[Hs E]|[[-> E]|[[-> E]|[[-> E]|[[-> E]|[-> E]]]]]]; rewrite E.
    + simpl. rewrite (not_special_not_amp c Hs), IH, Hs.
      destruct (unesc strict lit None rest); reflexivity.
    + cbn. rewrite IH. destruct (unesc strict lit None rest); reflexivity.
    + cbn. rewrite IH. destruct (unesc strict lit None rest); reflexivity.
    + cbn. rewrite IH. destruct (unesc strict lit None rest); reflexivity.
    + cbn. rewrite IH. destruct (unesc strict lit None rest); reflexivity.
    + cbn. rewrite IH. destruct (unesc strict lit None rest); reflexivity.
Qed.

Lemma unesc_escape strict lit s : unesc strict lit None (escape s) = Some (lit_map lit s).
Proof.
  rewrite <- (app_nil_r (escape s)), unesc_escape_app. simpl. rewrite app_nil_r. reflexivity.
Qed.

Lemma lit_map_id s : lit_map idN s = s.
Proof. unfold lit_map, idN. induction s as [|c s IH]; simpl; [reflexivity|]. rewrite IH. destruct (is_special c); reflexivity. Qed.

Lemma has_cons c x s : has c (x :: s) = (c =? x) || has c s.
Proof. reflexivity. Qed.

Lemma lit_map_ws2sp s : has 9 s = false -> has 10 s = false -> has 13 s = false -> lit_map ws2sp s = s.
Proof.
  unfold lit_map. induction s as [|c s IH]; [reflexivity|].
  rewrite !has_cons. intros H1 H2 H3. cbn [map].
  apply orb_false_iff in H1 as [A1 B1]. apply orb_false_iff in H2 as [A2 B2]. apply orb_false_iff in H3 as [A3 B3].
  rewrite IH by assumption. unfold ws2sp.
  rewrite (N.eqb_sym c 9), (N.eqb_sym c 10), (N.eqb_sym c 13), A1, A2, A3. simpl.
  destruct (is_special c); reflexivity.
Qed.

(* THEOREM (quick-xml, both uses): unescape . escape = id on all strings *)
Theorem rio_unescape_escape s : rio_unescape (escape s) = Some s.
Proof. unfold rio_unescape. rewrite unesc_escape, lit_map_id. reflexivity. Qed.

(* forallb through escaping *)
Definition entity_chars : str := e_lt ++ e_gt ++ e_amp ++ e_apos ++ e_quot.
Lemma forallb_escape (P : N -> bool) s :
  forallb P entity_chars = true -> forallb P s = true -> forallb P (escape s) = true.
Proof.
  intros HE. induction s as [|c s IH]; simpl; [reflexivity|].
  intros H. apply andb_true_iff in H as [Hc Hs]. rewrite forallb_app, (IH Hs), andb_true_r.
  unfold entity_chars in HE. rewrite !forallb_app in HE.
  apply andb_true_iff in HE as [E1 HE]. apply andb_true_iff in HE as [E2 HE].
  apply andb_true_iff in HE as [E3 HE]. apply andb_true_iff in HE as [E4 E5].
  destruct (esc1_cases c) as [[_ E]|[[_ E]|[[_ E]|[[_ E]|[[_ E]|[_ E]]]]]]; rewrite E; try assumption.
  simpl. rewrite Hc. reflexivity.
Qed.

Lemma has_false_forallb c s : has c s = false <-> forallb (fun x => negb (c =? x)) s = true.
Proof.
  unfold has. induction s as [|x s IH]; simpl; [tauto|].
  rewrite orb_false_iff, andb_true_iff, IH, negb_true_iff. tauto.
Qed.

Lemma has_escape_false c s :
  has c entity_chars = false -> has c s = false -> has c (escape s) = false.
Proof. rewrite !has_false_forallb. apply forallb_escape. Qed.

Lemma xml_str_escape s : xml_str s = true -> xml_str (escape s) = true.
Proof. apply forallb_escape. vm_compute. reflexivity. Qed.

Lemma norm_eol_no_cr s : has 13 s = false -> norm_eol s = s.
Proof.
  induction s as [|c s IH]; [reflexivity|].
  rewrite has_cons. intros H. apply orb_false_iff in H as [A B].
  simpl. rewrite (N.eqb_sym c 13), A, (IH B). reflexivity.
Qed.

(* whitespace-only is preserved and reflected by escaping *)
Lemma ws_only_escape s : ws_only (escape s) = ws_only s.
Proof.
  unfold ws_only. induction s as [|c s IH]; [reflexivity|].
  rewrite escape_cons, forallb_app, IH. simpl.
  destruct (esc1_cases c) as [[_ E]|[[-> E]|[[-> E]|[[-> E]|[[-> E]|[-> E]]]]]]; rewrite E; simpl; try reflexivity.
  rewrite andb_true_r. reflexivity.
Qed.

(* THEOREM (XML 1.0 reader, element text): for XML-legal, CR-free text *)
Theorem xml_text_roundtrip s : text_safe s = true -> xml_read_text (escape_text s) = Some s.
Proof.
  unfold text_safe, xml_read_text, escape_text. intros H.
  apply andb_true_iff in H as [Hx Hc]. apply negb_true_iff in Hc.
  rewrite (xml_str_escape s Hx).
  rewrite norm_eol_no_cr by (apply has_escape_false; [vm_compute; reflexivity | assumption]).
  rewrite unesc_escape, lit_map_id. reflexivity.
Qed.

(* the same statement in the shape requested: unescape_text (norm_eol (escape_text s)) = s *)
Corollary unescape_norm_escape_text s :
  has 13 s = false -> unesc true idN None (norm_eol (escape_text s)) = Some s.
Proof.
  intros Hc. unfold escape_text.
  rewrite norm_eol_no_cr by (apply has_escape_false; [vm_compute; reflexivity | assumption]).
  rewrite unesc_escape, lit_map_id. reflexivity.
Qed.

(* THEOREM (XML 1.0 reader, attribute value): for XML-legal values without TAB / LF / CR *)
Theorem xml_attr_roundtrip s : attr_safe s = true -> xml_read_attr (escape_attr s) = Some s.
Proof.
  unfold attr_safe, xml_read_attr, escape_attr. intros H.
  apply andb_true_iff in H as [H H13]. apply andb_true_iff in H as [H H10]. apply andb_true_iff in H as [Hx H9].
  apply negb_true_iff in H9, H10, H13.
  rewrite (xml_str_escape s Hx).
  rewrite norm_eol_no_cr by (apply has_escape_false; [vm_compute; reflexivity | assumption]).
  rewrite unesc_escape, lit_map_ws2sp by assumption. reflexivity.
Qed.

(* THEOREM (Rio's reader, element text): exact description of what comes back *)
Theorem rio_text_escape s : rio_text_lit (escape_text s) = Some (if ws_only s then [] else s).
Proof. unfold rio_text_lit, escape_text. rewrite rio_unescape_escape, ws_only_escape. reflexivity. Qed.

Corollary rio_text_roundtrip s : rio_text_ok s = true -> rio_text_lit (escape_text s) = Some s.
Proof.
  rewrite rio_text_escape. destruct s as [|c s]; [reflexivity|].
  unfold rio_text_ok. intros H. apply negb_true_iff in H. rewrite H. reflexivity.
Qed.

(* the escaped form never contains markup delimiters or quotes: it cannot end the text node or
   the attribute value it is written into *)
Definition no_markup (c : N) : bool := negb ((c =? 60) || (c =? 62) || (c =? 34) || (c =? 39)).
Theorem escape_no_markup s : forallb no_markup (escape s) = true.
Proof.
  induction s as [|c s IH]; [reflexivity|].
  rewrite escape_cons, forallb_app, IH, andb_true_r.
  destruct (esc1_cases c) as [[Hs E]|[[_ E]|[[_ E]|[[_ E]|[[_ E]|[_ E]]]]]]; rewrite E; try (vm_compute; reflexivity).
  simpl. rewrite andb_true_r. unfold no_markup. unfold is_special in Hs.
  destruct (c =? 60), (c =? 62), (c =? 38), (c =? 39), (c =? 34); simpl in *; congruence.
Qed.

(* refutations outside the classes *)
Example cr_text_refuted : xml_read_text (escape_text [97; 13; 98]) = Some [97; 10; 98].
Proof. vm_compute. reflexivity. Qed.
Example crlf_text_refuted : xml_read_text (escape_text [13; 10]) = Some [10].
Proof. vm_compute. reflexivity. Qed.
Example tab_attr_refuted : xml_read_attr (escape_attr [97; 9; 98]) = Some [97; 32; 98].
Proof. vm_compute. reflexivity. Qed.
Example ws_only_text_refuted : rio_text_lit (escape_text [32]) = Some [] /\ rio_text_lit (escape_text [10; 9]) = Some [].
Proof. vm_compute. split; reflexivity. Qed.
Example illegal_char_refuted : xml_read_text (escape_text [1]) = None /\ rio_text_lit (escape_text [1]) = Some [1].
Proof. vm_compute. split; reflexivity. Qed.

(* ------------------------------------------------------------------------------------------- *)
(* B. the namespace split                                                                       *)
(* ------------------------------------------------------------------------------------------- *)
Lemma span_app {A} (f : A -> bool) l : fst (span f l) ++ snd (span f l) = l.
Proof.
  induction l as [|x l IH]; [reflexivity|]. simpl.
  destruct (f x); [|reflexivity]. destruct (span f l) as [a b]. simpl in *. rewrite IH. reflexivity.
Qed.
Lemma span_fst_all {A} (f : A -> bool) l : forallb f (fst (span f l)) = true.
Proof.
  induction l as [|x l IH]; [reflexivity|]. simpl.
  destruct (f x) eqn:E; [|reflexivity]. destruct (span f l) as [a b]. simpl in *. rewrite E, IH. reflexivity.
Qed.
Lemma span_snd_head {A} (f : A -> bool) l x r : snd (span f l) = x :: r -> f x = false.
Proof.
  induction l as [|y l IH]; simpl; [discriminate|].
  destruct (f y) eqn:E.
  - destruct (span f l) as [a b]. simpl in *. exact IH.
  - simpl. intros H. injection H as -> _. exact E.
Qed.
Lemma span_all_app {A} (f : A -> bool) a b :
  forallb f a = true -> span f (a ++ b) = (a ++ fst (span f b), snd (span f b)).
Proof.
  induction a as [|x a IH]; simpl.
  - intros _. destruct (span f b); reflexivity.
  - intros H. apply andb_true_iff in H as [Hx Ha]. rewrite Hx, (IH Ha). reflexivity.
Qed.
Lemma span_snd_nonempty {A} (f : A -> bool) l : existsb (fun x => negb (f x)) l = true -> snd (span f l) <> [].
Proof.
  induction l as [|x l IH]; simpl; [discriminate|].
  destruct (f x) eqn:E; simpl.
  - intros H. destruct (span f l) as [a b]. simpl in *. auto.
  - intros _. discriminate.
Qed.
Lemma forallb_rev {A} (f : A -> bool) l : forallb f (rev l) = forallb f l.
Proof.
  induction l as [|x l IH]; [reflexivity|]. simpl. rewrite forallb_app, IH. simpl. rewrite andb_true_r. apply andb_comm.
Qed.
Lemma forallb_span_snd {A} (P f : A -> bool) l : forallb P l = true -> forallb P (snd (span f l)) = true.
Proof.
  intros H. rewrite <- (span_app f l), forallb_app in H. apply andb_true_iff in H as [_ H]. exact H.
Qed.

Lemma name_start_is_name c : is_name_start_char c = true -> is_name_char c = true.
Proof. unfold is_name_char. intros ->. reflexivity. Qed.
Lemma brk_not_start c : brk c = true -> nc_start c = false.
Proof.
  unfold brk, nc_start. intros H. apply orb_true_iff in H as [H|H].
  - apply negb_true_iff in H. destruct (is_name_start_char c) eqn:E; [|reflexivity].
    rewrite (name_start_is_name c E) in H. discriminate.
  - rewrite H. simpl. apply andb_false_r.
Qed.
Lemma not_brk c : negb (brk c) = true -> is_name_char c = true /\ not_colon c = true.
Proof.
  unfold brk, not_colon. intros H. apply negb_true_iff, orb_false_iff in H as [H1 H2].
  apply negb_false_iff in H1. rewrite H1, H2. auto.
Qed.

(* THEOREM (rio_xml split_iri): the two parts concatenate to the IRI *)
Theorem split_concat iri : fst (split_iri iri) ++ snd (split_iri iri) = iri.
Proof.
  unfold split_iri.
  pose proof (span_app (fun c => negb (brk c)) (rev iri)) as H1.
  destruct (span (fun c => negb (brk c)) (rev iri)) as [suf_rev pre_rev]. cbn [fst snd] in H1.
  destruct pre_rev as [|b pre']; [cbn [fst snd]; apply app_nil_r|].
  pose proof (span_app (fun c => negb (nc_start c)) (b :: rev suf_rev)) as H2.
  destruct (span (fun c => negb (nc_start c)) (b :: rev suf_rev)) as [skip loc]. cbn [fst snd] in H2.
  destruct loc as [|c loc']; [cbn [fst snd]; apply app_nil_r|].
  cbn [fst snd]. rewrite <- app_assoc, H2.
  rewrite <- (rev_involutive iri), <- H1, rev_app_distr. simpl. rewrite <- app_assoc. reflexivity.
Qed.

(* THEOREM: the local part is empty (no split: the formatter then writes "prop:") or an NCName *)
Theorem split_local iri : snd (split_iri iri) = [] \/ is_ncname (snd (split_iri iri)) = true.
Proof.
  unfold split_iri.
  pose proof (span_fst_all (fun c => negb (brk c)) (rev iri)) as Hall.
  pose proof (span_snd_head (fun c => negb (brk c)) (rev iri)) as Hhd.
  destruct (span (fun c => negb (brk c)) (rev iri)) as [suf_rev pre_rev]. cbn [fst snd] in Hall, Hhd.
  destruct pre_rev as [|b pre']; [left; reflexivity|].
  specialize (Hhd b pre' eq_refl). apply negb_false_iff in Hhd.
  assert (Hb : negb (nc_start b) = true) by (rewrite (brk_not_start b Hhd); reflexivity).
  cbn [span]. rewrite Hb.
  pose proof (span_snd_head (fun c => negb (nc_start c)) (rev suf_rev)) as Hhd2.
  pose proof (forallb_span_snd (fun c => negb (brk c)) (fun c => negb (nc_start c)) (rev suf_rev)) as Hsuf.
  rewrite forallb_rev in Hsuf. specialize (Hsuf Hall).
  destruct (span (fun c => negb (nc_start c)) (rev suf_rev)) as [skip loc]. cbn [fst snd] in Hhd2, Hsuf.
  destruct loc as [|c loc']; [left; reflexivity|]. right. cbn [snd].
  specialize (Hhd2 c loc' eq_refl). apply negb_false_iff in Hhd2.
  unfold nc_start in Hhd2. apply andb_true_iff in Hhd2 as [Hs Hc].
  cbn [forallb] in Hsuf. apply andb_true_iff in Hsuf as [_ Hrest].
  unfold is_ncname, is_name. cbn [forallb]. rewrite Hs. unfold not_colon at 1. rewrite Hc. simpl.
  assert (forallb is_name_char loc' = true /\ forallb not_colon loc' = true) as [-> ->]; [|reflexivity].
  clear -Hrest. induction loc' as [|x l IH]; [auto|]. cbn [forallb] in *.
  apply andb_true_iff in Hrest as [Hx Hl]. destruct (not_brk x Hx) as [-> ->]. simpl. auto.
Qed.

Lemma ncname_chars s : is_ncname s = true ->
  exists c r, s = c :: r /\ nc_start c = true /\ forallb (fun x => negb (brk x)) s = true.
Proof.
  unfold is_ncname, is_name. destruct s as [|c r]; [discriminate|]. intros H.
  apply andb_true_iff in H as [H1 H2]. apply andb_true_iff in H1 as [Hs Hn].
  cbn [forallb] in H2. apply andb_true_iff in H2 as [Hc Hr].
  exists c, r. split; [reflexivity|]. split.
  - unfold nc_start. rewrite Hs. exact Hc.
  - cbn [forallb]. apply andb_true_iff. split.
    + unfold brk. rewrite (name_start_is_name c Hs). unfold not_colon in Hc. apply negb_true_iff in Hc. rewrite Hc. reflexivity.
    + clear -Hn Hr. induction r as [|x r IH]; [reflexivity|]. cbn [forallb] in *.
      apply andb_true_iff in Hn as [A B]. apply andb_true_iff in Hr as [C D].
      rewrite (IH B D), andb_true_r. unfold brk. rewrite A. unfold not_colon in C. apply negb_true_iff in C. rewrite C. reflexivity.
Qed.

(* THEOREM: when the IRI contains a break character (':' in particular, so every absolute IRI)
   and the split fails, NO suffix of the IRI is an NCName: "cannot be written as a QName" is exact *)
Theorem split_complete iri :
  existsb brk iri = true -> snd (split_iri iri) = [] ->
  forall a b, iri = a ++ b -> is_ncname b = false.
Proof.
  intros Hbrk Hnil a b -> . destruct (is_ncname b) eqn:Enc; [exfalso|reflexivity].
  destruct (ncname_chars b Enc) as (c & r & -> & Hc & Hall).
  revert Hnil. unfold split_iri. rewrite rev_app_distr.
  rewrite (span_all_app (fun x => negb (brk x)) (rev (c :: r)) (rev a)) by (rewrite forallb_rev; exact Hall).
  assert (Ha : existsb brk a = true).
  { rewrite existsb_app in Hbrk. apply orb_true_iff in Hbrk as [H|H]; [exact H|].
    exfalso. clear -H Hall. induction (c :: r) as [|x l IH]; [discriminate|]. cbn [forallb existsb] in *.
    apply andb_true_iff in Hall as [A B]. apply orb_true_iff in H as [H|H]; [rewrite H in A; discriminate|auto]. }
  assert (Hne : snd (span (fun x => negb (brk x)) (rev a)) <> []).
  { apply span_snd_nonempty. clear -Ha. rewrite existsb_exists in *.
    destruct Ha as (x & Hin & Hx). exists x. split; [apply in_rev in Hin; exact Hin|].
    rewrite Hx. reflexivity. }
  destruct (span (fun x => negb (brk x)) (rev a)) as [u pre_rev]. cbn [fst snd] in Hne. cbn [fst snd].
  destruct pre_rev as [|b0 pre']; [congruence|].
  pose proof (span_snd_nonempty (fun x => negb (nc_start x)) (b0 :: rev (rev (c :: r) ++ u))) as Hne2.
  destruct (span (fun x => negb (nc_start x)) (b0 :: rev (rev (c :: r) ++ u))) as [skip loc].
  cbn [fst snd] in Hne2. destruct loc as [|x loc']; [|discriminate].
  intros _. apply Hne2; [|reflexivity].
  rewrite rev_app_distr, rev_involutive. cbn [existsb]. rewrite existsb_app. cbn [existsb].
  rewrite Hc. cbn [negb]. rewrite !orb_true_r. reflexivity.
Qed.

Lemma has_colon_brk s : has 58 s = true -> existsb brk s = true.
Proof.
  unfold has. rewrite !existsb_exists. intros (x & Hin & Hx). exists x. split; [exact Hin|].
  apply N.eqb_eq in Hx. subst x. reflexivity.
Qed.

Example split_examples :
  split_iri [104;116;116;112;58;47;47;101;47;49;97] = ([104;116;116;112;58;47;47;101;47;49], [97])   (* http://e/1a *)
  /\ split_iri [117;114;110;58;49] = ([117;114;110;58;49], [])                                          (* urn:1 *)
  /\ split_iri [104;58;97;58;98] = ([104;58;97;58], [98])                                               (* h:a:b *)
  /\ split_iri [97;98;99] = ([97;98;99], []).                                                           (* abc: no break character *)
Proof. vm_compute. repeat split; reflexivity. Qed.

(* ------------------------------------------------------------------------------------------- *)
(* C. indentation                                                                               *)
(* ------------------------------------------------------------------------------------------- *)
Lemma wr_none slb lvl evs : wr None slb lvl evs = evs.
Proof.
  revert slb lvl. induction evs as [|e r IH]; intros; [reflexivity|].
  destruct e; simpl; rewrite IH; reflexivity.
Qed.

Lemma unesc_no_amp strict lit s : has 38 s = false -> unesc strict lit None s = Some (map lit s).
Proof.
  induction s as [|c s IH]; [reflexivity|]. rewrite has_cons. intros H.
  apply orb_false_iff in H as [A B]. simpl. rewrite (N.eqb_sym c 38), A, (IH B). reflexivity.
Qed.

Lemma pad_chars n : forallb (fun c => (c =? 10) || (c =? 32)) (pad_str n) = true.
Proof. unfold pad_str. simpl. induction (N.to_nat n) as [|k IH]; [reflexivity|]. simpl. exact IH. Qed.
Lemma forallb_impl {A} (P Q : A -> bool) l : (forall x, P x = true -> Q x = true) -> forallb P l = true -> forallb Q l = true.
Proof. intros H. induction l as [|x l IH]; [reflexivity|]. simpl. intros E. apply andb_true_iff in E as [A1 B]. rewrite (H x A1), (IH B). reflexivity. Qed.
Lemma pad_is P n : P 10 = true -> P 32 = true -> forallb P (pad_str n) = true.
Proof.
  intros H10 H32. apply (forallb_impl (fun c => (c =? 10) || (c =? 32)) P); [|apply pad_chars].
  intros c Hc. apply orb_true_iff in Hc as [E|E]; apply N.eqb_eq in E; subst; assumption.
Qed.
Lemma pad_ws n : ws_only (pad_str n) = true.
Proof. apply pad_is; reflexivity. Qed.
Lemma map_idN s : map idN s = s.
Proof. induction s as [|c s IH]; [reflexivity|]. simpl. rewrite IH. reflexivity. Qed.
Lemma pad_rd strict n : rd_text strict (pad_str n) = Some (pad_str n).
Proof.
  assert (H38 : has 38 (pad_str n) = false) by (apply has_false_forallb, pad_is; reflexivity).
  assert (H13 : has 13 (pad_str n) = false) by (apply has_false_forallb, pad_is; reflexivity).
  destruct strict; simpl.
  - unfold xml_read_text. unfold xml_str. rewrite (pad_is is_xml_char n eq_refl eq_refl).
    rewrite (norm_eol_no_cr _ H13), (unesc_no_amp _ _ _ H38), map_idN. reflexivity.
  - unfold rio_unescape. rewrite (unesc_no_amp _ _ _ H38), map_idN. reflexivity.
Qed.

(* reader states in which a text event is element-only whitespace *)
Definition safe (st : option rstate) : bool :=
  match st with Some (MProp _ _ _ _ _ _, _) => false | _ => true end.
Lemma step_pad strict s n : safe (Some s) = true -> step strict s (EPad n) = Some s.
Proof.
  destruct s as [m acc]. cbn [step]. unfold step_text.
  destruct m; cbn [safe]; try discriminate; intros _; rewrite pad_rd, pad_ws; reflexivity.
Qed.
Lemma run_none strict evs : run strict None evs = None.
Proof. destruct evs; reflexivity. Qed.
Lemma run_cons strict s e r : run strict (Some s) (e :: r) = run strict (step strict s e) r.
Proof. reflexivity. Qed.

(* the shape of what the formatter emits: a property start tag is directly followed by its text *)
Definition is_prop_q (q : qname) : bool := match q with QLocal _ | QPropEmpty => true | _ => false end.
Fixpoint shaped (evs : list event) : bool :=
  match evs with
  | [] => true
  | EStart q _ :: r =>
      (if is_prop_q q then match r with EText _ :: _ => true | _ => false end else true) && shaped r
  | EDecl :: _ | EPad _ :: _ => false
  | _ :: r => shaped r
  end.

Lemma reserved_desc : str_eqb (rdf_ns ++ l_Description) rdf_li = false /\ is_reserved (rdf_ns ++ l_Description) = true.
Proof. vm_compute. auto. Qed.
Lemma reserved_rdf : str_eqb (rdf_ns ++ l_RDF) rdf_li = false /\ is_reserved (rdf_ns ++ l_RDF) = true.
Proof. vm_compute. auto. Qed.

Lemma step_start_safe strict s q a : is_prop_q q = false -> safe (step_start strict s q a) = true.
Proof.
  destruct s as [m acc]. intros Hq. destruct m; simpl.
  - destruct q; try reflexivity.
  - destruct q; try reflexivity. destruct (read_subject strict a); reflexivity.
  - reflexivity.
  - unfold start_prop. destruct q; try discriminate; cbn [resolve_prop].
    + destruct reserved_rdf as [-> ->]. reflexivity.
    + destruct reserved_desc as [-> ->]. reflexivity.
  - reflexivity.
Qed.
Lemma step_end_safe s : safe (step_end s) = true.
Proof. destruct s as [m acc]. destruct m; reflexivity. Qed.

(* MAIN LEMMA: on shaped event lists the indenting writer's pads are invisible to the reader,
   from every reader state (including failing runs), both readers *)
Lemma run_wr strict n : forall evs st slb lvl,
  shaped evs = true ->
  (slb = true -> safe st = true \/ exists t r, evs = EText t :: r) ->
  run strict st (wr (Some n) slb lvl evs) = run strict st evs.
Proof.
  induction evs as [|e r IH]; intros st slb lvl Hsh Hsafe; [reflexivity|].
  destruct st as [s|]; [|rewrite !run_none; reflexivity].
  assert (Hskip : forall l rest, (forall t r', e :: r <> EText t :: r') ->
            run strict (Some s) ((if slb then [EPad l] else []) ++ rest) = run strict (Some s) rest).
  { intros l rest Hne. destruct slb; [|reflexivity]. cbn [app run].
    destruct (Hsafe eq_refl) as [Hs|(t & r' & E)]; [|exfalso; exact (Hne t r' E)].
    rewrite (step_pad strict s l Hs). reflexivity. }
  destruct e as [|q a|q|q a|raw|k]; try discriminate.
  - (* EStart *)
    cbn [wr]. rewrite Hskip by (intros; discriminate). cbn [run].
    cbn [shaped] in Hsh. apply andb_true_iff in Hsh as [Hq Hr].
    apply IH; [exact Hr|]. intros _.
    destruct (is_prop_q q) eqn:Eq.
    + right. destruct r as [|[] r']; try discriminate. eauto.
    + left. cbn [step]. apply step_start_safe. exact Eq.
  - (* EEnd *)
    cbn [wr]. rewrite Hskip by (intros; discriminate). cbn [run].
    apply IH; [exact Hsh|]. intros _. left. cbn [step]. apply step_end_safe.
  - (* EEmpty *)
    cbn [wr]. rewrite Hskip by (intros; discriminate). cbn [run].
    apply IH; [exact Hsh|]. intros _. left. cbn [step].
    destruct (step_start strict s q a); [apply step_end_safe|reflexivity].
  - (* EText *)
    cbn [wr run]. apply IH; [exact Hsh|]. intros; discriminate.
Qed.

Lemma prop_name_is_prop p : is_prop_q (fst (prop_name p)) = true.
Proof. unfold prop_name. destruct (split_iri p) as [ns loc]. destruct loc; reflexivity. Qed.

Lemma shaped_fmt_prop p o rest : shaped (fmt_prop p o ++ rest) = shaped rest.
Proof.
  unfold fmt_prop. pose proof (prop_name_is_prop p) as Hq. destruct (prop_name p) as [q x]. simpl in Hq.
  destruct o as [[i|b]|v|v tag|v dt]; simpl; try rewrite Hq; reflexivity.
Qed.
Lemma shaped_fmt_triple cur t rest : shaped (fmt_triple cur t ++ rest) = shaped rest.
Proof.
  destruct t as [[s p] o]. unfold fmt_triple. rewrite <- app_assoc.
  unfold fmt_open. destruct cur as [c|]; [destruct (rnode_eqb c s)|]; simpl; apply shaped_fmt_prop.
Qed.
Lemma shaped_fmt_body ts : forall cur rest, shaped (fmt_body cur ts ++ rest) = shaped rest.
Proof.
  induction ts as [|t ts IH]; intros cur rest.
  - destruct cur; reflexivity.
  - cbn [fmt_body]. rewrite <- app_assoc, shaped_fmt_triple. apply IH.
Qed.

(* THEOREM (indentation): the document written with any indentation reads exactly as the
   unindented one -- for EVERY list of Rio triples, with both readers, including the cases where
   reading fails or loses something.  In particular no pad ever lands inside a literal. *)
Theorem indent_invisible strict n ts :
  read strict (wr (Some n) false 0 (fmt_doc ts)) = read strict (fmt_doc ts).
Proof.
  unfold read, fmt_doc. cbn [wr app].
  rewrite !run_cons. change (step strict (MDoc, []) EDecl) with (Some (MDoc, @nil rtriple)).
  rewrite !run_cons. rewrite (step_pad strict (MDoc, []) 0 eq_refl). rewrite !run_cons.
  change (step strict (MDoc, []) (EStart QRdf [(KXmlnsRdf, escape_attr rdf_ns)])) with (Some (MRdf, @nil rtriple)).
  rewrite run_wr; [reflexivity| |intros _; left; reflexivity].
  rewrite shaped_fmt_body. reflexivity.
Qed.

Corollary indentation_irrelevant strict k ts :
  read strict (doc_events k ts) = read strict (fmt_doc ts).
Proof.
  unfold doc_events, indent_opt. destruct (k =? 0); [rewrite wr_none; reflexivity|apply indent_invisible].
Qed.

(* the same in the shape "literals (indent n doc) = literals doc": the literal values a reader
   finds in the document, in order *)
Definition literals (strict : bool) (evs : list event) : option (list str) :=
  option_map (flat_map (fun t : rtriple => match lit_text (snd t) with Some v => [v] | None => [] end)) (read strict evs).
Corollary literals_indent strict n ts :
  literals strict (wr (Some n) false 0 (fmt_doc ts)) = literals strict (fmt_doc ts).
Proof. unfold literals. rewrite indent_invisible. reflexivity. Qed.

(* the indenting writer only ever adds EPad events: dropping them gives back the input *)
Fixpoint unpad (evs : list event) : list event :=
  match evs with [] => [] | EPad _ :: r => unpad r | e :: r => e :: unpad r end.
Lemma unpad_wr ind : forall evs slb lvl, unpad (wr ind slb lvl evs) = unpad evs.
Proof.
  induction evs as [|e r IH]; intros; [reflexivity|].
  destruct e; cbn [wr]; destruct ind as [m|]; try destruct slb; cbn [app unpad]; rewrite ?IH; reflexivity.
Qed.
(* ... and a pad is never adjacent to a text event (so lexing the flattened bytes gives back
   exactly these events: pads are separate whitespace-only text nodes between two tags) *)
Fixpoint pads_between_tags (prev_text : bool) (evs : list event) : bool :=
  match evs with
  | [] => true
  | EPad _ :: r => negb prev_text && (match r with EText _ :: _ | EPad _ :: _ | [] => false | _ => true end) && pads_between_tags false r
  | EText _ :: r => pads_between_tags true r
  | _ :: r => pads_between_tags false r
  end.
Fixpoint no_pad (evs : list event) : bool :=
  match evs with [] => true | EPad _ :: _ => false | _ :: r => no_pad r end.
Lemma pads_wr n : forall evs slb lvl prev,
  no_pad evs = true -> (prev = true -> slb = false) ->
  pads_between_tags prev (wr (Some n) slb lvl evs) = true.
Proof.
  induction evs as [|e r IH]; intros slb lvl prev Hnp Hprev; [reflexivity|].
  destruct e; try discriminate; cbn [wr]; cbn [no_pad] in Hnp.
  - destruct slb; cbn [app pads_between_tags].
    + destruct prev; [discriminate (Hprev eq_refl)|]. simpl. apply IH; [exact Hnp|discriminate].
    + apply IH; [exact Hnp|discriminate].
  - destruct slb; cbn [app pads_between_tags].
    + destruct prev; [discriminate (Hprev eq_refl)|]. simpl. apply IH; [exact Hnp|discriminate].
    + apply IH; [exact Hnp|discriminate].
  - destruct slb; cbn [app pads_between_tags].
    + destruct prev; [discriminate (Hprev eq_refl)|]. simpl. apply IH; [exact Hnp|discriminate].
    + apply IH; [exact Hnp|discriminate].
  - destruct slb; cbn [app pads_between_tags].
    + destruct prev; [discriminate (Hprev eq_refl)|]. simpl. apply IH; [exact Hnp|discriminate].
    + apply IH; [exact Hnp|discriminate].
  - cbn [pads_between_tags]. apply IH; [exact Hnp|reflexivity].
Qed.

(* ------------------------------------------------------------------------------------------- *)
(* D. reading back what the formatter wrote                                                     *)
(* ------------------------------------------------------------------------------------------- *)

Lemma rd_attr_escape strict v : asafe strict v = true -> rd_attr strict (escape_attr v) = Some v.
Proof.
  destruct strict; cbn [asafe rd_attr]; intros H.
  - apply xml_attr_roundtrip. exact H.
  - apply rio_unescape_escape.
Qed.

Lemma escape_nil s : escape s = [] -> s = [].
Proof.
  destruct s as [|c s]; [reflexivity|]. rewrite escape_cons.
  destruct (esc1_cases c) as [[_ E]|[[_ E]|[[_ E]|[[_ E]|[[_ E]|[_ E]]]]]]; rewrite E; discriminate.
Qed.

Lemma forallb_has_false (P : N -> bool) c l : forallb P l = true -> P c = false -> has c l = false.
Proof.
  intros H Hc. unfold has. induction l as [|x l IH]; [reflexivity|]. cbn [forallb existsb] in *.
  apply andb_true_iff in H as [Hx Hl]. rewrite (IH Hl), orb_false_r.
  destruct (N.eqb_spec c x); [subst; congruence|reflexivity].
Qed.
Lemma ncname_name_chars s : is_ncname s = true -> forallb is_name_char s = true /\ forallb not_colon s = true.
Proof.
  unfold is_ncname, is_name. destruct s as [|c r]; [discriminate|]. intros H.
  apply andb_true_iff in H as [H1 H2]. apply andb_true_iff in H1 as [Hs Hn].
  split; [|exact H2]. cbn [forallb]. rewrite (name_start_is_name c Hs), Hn. reflexivity.
Qed.
Lemma ncname_no_amp s : is_ncname s = true -> has 38 s = false.
Proof. intros H. apply (forallb_has_false is_name_char); [apply ncname_name_chars; exact H|vm_compute; reflexivity]. Qed.
Lemma ncname_no_colon s : is_ncname s = true -> has 58 s = false.
Proof. intros H. apply (forallb_has_false not_colon); [apply ncname_name_chars; exact H|vm_compute; reflexivity]. Qed.

Lemma has_app c a b : has c (a ++ b) = has c a || has c b.
Proof. unfold has. apply existsb_app. Qed.
Lemma attr_safe_app_l a b : attr_safe (a ++ b) = true -> attr_safe a = true.
Proof.
  unfold attr_safe, xml_str. rewrite forallb_app, !has_app. intros H.
  apply andb_true_iff in H as [H H13]. apply andb_true_iff in H as [H H10]. apply andb_true_iff in H as [Hx H9].
  apply andb_true_iff in Hx as [Hx _].
  apply negb_true_iff, orb_false_iff in H9 as [-> _].
  apply negb_true_iff, orb_false_iff in H10 as [-> _].
  apply negb_true_iff, orb_false_iff in H13 as [-> _]. rewrite Hx. reflexivity.
Qed.

(* the two shapes of a property element name *)
Lemma prop_name_cases p :
  (exists ns loc, loc <> [] /\ ns ++ loc = p /\ is_ncname loc = true
                  /\ snd (split_iri p) = loc /\ prop_name p = (QLocal loc, (KXmlns, escape_attr ns)))
  \/ (snd (split_iri p) = [] /\ prop_name p = (QPropEmpty, (KXmlnsProp, escape_attr p))).
Proof.
  pose proof (split_concat p) as Hc. pose proof (split_local p) as Hl.
  unfold prop_name. destruct (split_iri p) as [ns loc]. cbn [fst snd] in *.
  destruct loc as [|c r].
  - right. rewrite app_nil_r in Hc. subst. auto.
  - left. exists ns, (c :: r). destruct Hl as [Hl|Hl]; [discriminate|].
    repeat split; try assumption. discriminate.
Qed.

Lemma pred_ok_facts strict p : pred_ok strict p = true ->
  has 58 p = true /\ is_reserved p = false /\ str_eqb p rdf_li = false
  /\ (strict = true -> attr_safe p = true /\ snd (split_iri p) <> []).
Proof.
  unfold pred_ok. intros H. apply andb_true_iff in H as [H Hs]. apply andb_true_iff in H as [Hc Hr].
  apply negb_true_iff in Hr. split; [exact Hc|]. split; [exact Hr|]. split.
  - destruct (str_eqb p rdf_li) eqn:E; [|reflexivity]. apply str_eqb_eq in E. subst p.
    assert (is_reserved rdf_li = true) by (vm_compute; reflexivity). congruence.
  - intros ->. apply andb_true_iff in Hs as [Ha Hn]. split; [exact Ha|].
    destruct (snd (split_iri p)); [discriminate|discriminate].
Qed.

Lemma resolve_prop_ok strict p q x more :
  pred_ok strict p = true -> prop_name p = (q, x) -> resolve_prop strict q (x :: more) = Some p.
Proof.
  intros Hok E. destruct (pred_ok_facts strict p Hok) as (Hcolon & _ & _ & Hstrict).
  destruct (prop_name_cases p) as [(ns & loc & Hne & Hcat & Hnc & Hsnd & E')|[Hnil E']];
    rewrite E' in E; injection E as <- <-.
  - (* QLocal *)
    cbn [resolve_prop get akey_eqb].
    assert (Hns : ns <> []).
    { intros ->. cbn [app] in Hcat. subst loc. rewrite (ncname_no_colon p Hnc) in Hcolon. discriminate. }
    unfold escape_attr. destruct (escape ns) as [|e0 er] eqn:Ee; [apply escape_nil in Ee; contradiction|]. rewrite <- Ee.
    destruct strict.
    + rewrite Hnc. destruct (Hstrict eq_refl) as [Hsafe _].
      rewrite <- Hcat in Hsafe. apply attr_safe_app_l in Hsafe.
      pose proof (xml_attr_roundtrip ns Hsafe) as R. unfold escape_attr in R. rewrite R.
      destruct ns; [contradiction|]. cbn [nonempty option_map]. rewrite Hcat. reflexivity.
    + unfold rio_unescape. rewrite unesc_escape_app, lit_map_id, (unesc_no_amp _ _ _ (ncname_no_amp loc Hnc)), map_idN.
      cbn [option_map]. rewrite Hcat. reflexivity.
  - (* QPropEmpty *)
    cbn [resolve_prop get akey_eqb].
    assert (Hp : p <> []) by (intros ->; discriminate).
    unfold escape_attr. destruct (escape p) as [|e0 er] eqn:Ee; [apply escape_nil in Ee; contradiction|]. rewrite <- Ee.
    destruct strict.
    + destruct (Hstrict eq_refl) as [_ Hn]. contradiction.
    + apply rio_unescape_escape.
Qed.

Lemma prop_name_key p q x : prop_name p = (q, x) -> fst x = KXmlns \/ fst x = KXmlnsProp.
Proof.
  unfold prop_name. destruct (split_iri p) as [ns loc]. destruct loc; intros E; injection E as <- <-; auto.
Qed.

Lemma start_prop_ok strict s li p q x more :
  pred_ok strict p = true -> prop_name p = (q, x) ->
  start_prop strict s li q (x :: more) =
    match opt_attr strict KLang more, opt_attr strict KDatatype more, read_obj strict more with
    | Some lang, Some dt, Some obj => Some (MProp s li p (option_map lower lang) dt obj)
    | _, _, _ => None
    end.
Proof.
  intros Hok E. unfold start_prop. rewrite (resolve_prop_ok strict p q x more Hok E).
  destruct (pred_ok_facts strict p Hok) as (_ & Hr & Hli & _). rewrite Hli, Hr.
  destruct x as [k v]. destruct (prop_name_key p q (k, v) E) as [Hk|Hk]; cbn [fst] in Hk; subst k;
    unfold opt_attr, read_obj; cbn [get akey_eqb]; reflexivity.
Qed.

Lemma lit_ok_rd strict v : lit_ok strict v = true -> rd_text strict (escape_text v) = Some v.
Proof.
  destruct strict; cbn [lit_ok rd_text]; intros H.
  - apply xml_text_roundtrip. exact H.
  - apply rio_unescape_escape.
Qed.

Lemma run_text_end strict s li p lang dt acc v q rest :
  lit_ok strict v = true ->
  run strict (Some (MProp s li p lang dt None, acc)) (EText (escape_text v) :: EEnd q :: rest)
  = run strict (Some (MNode s li, acc ++ [(s, p, mk_lit lang dt v)])) rest.
Proof.
  intros Hv. rewrite run_cons. cbn [step]. unfold step_text. rewrite (lit_ok_rd strict v Hv).
  destruct strict.
  - rewrite run_cons. reflexivity.
  - unfold escape_text. rewrite ws_only_escape. cbn [lit_ok] in Hv. unfold rio_text_ok in Hv.
    destruct v as [|c v'].
    + cbn [ws_only forallb]. rewrite run_cons. reflexivity.
    + apply negb_true_iff in Hv. rewrite Hv. rewrite run_cons. reflexivity.
Qed.

Lemma node_ok_asafe strict n : node_ok strict n = true ->
  match n with RIri i => asafe strict i = true | RBnode b => is_ncname b = true /\ asafe strict b = true end.
Proof.
  destruct n as [i|b]; cbn [node_ok asafe]; [auto|]. intros H. apply andb_true_iff in H. exact H.
Qed.

Lemma read_subject_ok strict s : node_ok strict s = true -> read_subject strict [subj_attr s] = Some s.
Proof.
  intros H. apply node_ok_asafe in H. destruct s as [i|b]; unfold read_subject, subj_attr; cbn [get akey_eqb].
  - rewrite (rd_attr_escape strict i H). reflexivity.
  - destruct H as [Hn Ha]. unfold node_id. rewrite (rd_attr_escape strict b Ha), Hn. reflexivity.
Qed.

Definition mode_of (cur : option rnode) (li : N) : mode :=
  match cur with None => MRdf | Some c => MNode c li end.

Lemma rnode_eqb_eq a b : rnode_eqb a b = true -> a = b.
Proof. destruct a, b; cbn [rnode_eqb]; try discriminate; intros H; apply str_eqb_eq in H; subst; reflexivity. Qed.

Lemma run_open strict cur li acc s rest :
  node_ok strict s = true ->
  exists li', run strict (Some (mode_of cur li, acc)) (fmt_open cur s ++ rest)
              = run strict (Some (MNode s li', acc)) rest.
Proof.
  intros Hs. unfold fmt_open. destruct cur as [c|]; cbn [mode_of].
  - destruct (rnode_eqb c s) eqn:E.
    + apply rnode_eqb_eq in E. subst c. exists li. reflexivity.
    + exists 0. cbn [app]. rewrite run_cons. cbn [step step_end]. rewrite run_cons. cbn [step step_start].
      rewrite (read_subject_ok strict s Hs). reflexivity.
  - exists 0. cbn [app]. rewrite run_cons. cbn [step step_start].
    rewrite (read_subject_ok strict s Hs). reflexivity.
Qed.

Lemma run_prop strict s li acc p o rest :
  pred_ok strict p = true -> obj_ok strict o = true ->
  run strict (Some (MNode s li, acc)) (fmt_prop p o ++ rest)
  = run strict (Some (MNode s li, acc ++ [(s, p, norm_obj o)])) rest.
Proof.
  intros Hp Ho. unfold fmt_prop. destruct (prop_name p) as [q x] eqn:E.
  destruct o as [[i|b]|v|v tag|v dt]; cbn [app norm_obj].
  - (* IRI object *)
    rewrite run_cons. cbn [step step_start]. rewrite (start_prop_ok strict s li p q x _ Hp E).
    unfold opt_attr, read_obj. cbn [get akey_eqb].
    cbn [obj_ok] in Ho. apply node_ok_asafe in Ho. rewrite (rd_attr_escape strict i Ho). reflexivity.
  - (* blank object *)
    rewrite run_cons. cbn [step step_start]. rewrite (start_prop_ok strict s li p q x _ Hp E).
    unfold opt_attr, read_obj. cbn [get akey_eqb].
    cbn [obj_ok] in Ho. apply node_ok_asafe in Ho. destruct Ho as [Hn Ha].
    unfold node_id. rewrite (rd_attr_escape strict b Ha), Hn. reflexivity.
  - (* simple literal *)
    rewrite run_cons. cbn [step step_start]. rewrite (start_prop_ok strict s li p q x _ Hp E).
    unfold opt_attr, read_obj. cbn [get akey_eqb option_map].
    cbn [obj_ok] in Ho. apply (run_text_end strict s li p None None acc v q rest Ho).
  - (* language-tagged *)
    rewrite run_cons. cbn [step step_start]. rewrite (start_prop_ok strict s li p q x _ Hp E).
    unfold opt_attr, read_obj. cbn [get akey_eqb].
    cbn [obj_ok] in Ho. apply andb_true_iff in Ho as [Hv Ht].
    rewrite (rd_attr_escape strict tag Ht). cbn [option_map].
    apply (run_text_end strict s li p (Some (lower tag)) None acc v q rest Hv).
  - (* typed *)
    rewrite run_cons. cbn [step step_start]. rewrite (start_prop_ok strict s li p q x _ Hp E).
    unfold opt_attr, read_obj. cbn [get akey_eqb].
    cbn [obj_ok] in Ho. apply andb_true_iff in Ho as [Hv Ht].
    rewrite (rd_attr_escape strict dt Ht). cbn [option_map].
    apply (run_text_end strict s li p None (Some dt) acc v q rest Hv).
Qed.

Lemma run_body strict : forall ts cur li acc,
  forallb (triple_ok strict) ts = true ->
  run strict (Some (mode_of cur li, acc)) (fmt_body cur ts ++ [EEnd QRdf])
  = Some (MEnd, acc ++ map norm_t ts).
Proof.
  induction ts as [|t ts IH]; intros cur li acc Hok.
  - cbn [fmt_body map]. rewrite app_nil_r. destruct cur; reflexivity.
  - cbn [forallb] in Hok. apply andb_true_iff in Hok as [Ht Hts].
    destruct t as [[s p] o]. cbn [triple_ok] in Ht.
    apply andb_true_iff in Ht as [Ht Ho]. apply andb_true_iff in Ht as [Hs Hp].
    cbn [fmt_body fst]. unfold fmt_triple. rewrite <- !app_assoc.
    destruct (run_open strict cur li acc s (fmt_prop p o ++ fmt_body (Some s) ts ++ [EEnd QRdf]) Hs) as [li' ->].
    rewrite (run_prop strict s li' acc p o _ Hp Ho).
    pose proof (IH (Some s) li' (acc ++ [(s, p, norm_obj o)]) Hts) as R. cbn [mode_of] in R. rewrite R.
    cbn [map norm_t]. rewrite <- app_assoc. reflexivity.
Qed.

(* THEOREM (round trip on the event level, both readers): every list of Rio triples in the class
   is read back exactly, in order, with the same blank node labels; language tags lower-cased *)
Theorem events_roundtrip strict ts :
  forallb (triple_ok strict) ts = true -> read strict (fmt_doc ts) = Some (map norm_t ts).
Proof.
  intros H. unfold read, fmt_doc. rewrite run_cons. cbn [step]. rewrite run_cons. cbn [step step_start].
  pose proof (run_body strict ts None 0 [] H) as R. cbn [mode_of app] in R. rewrite R. reflexivity.
Qed.

Theorem document_roundtrip strict k ts :
  forallb (triple_ok strict) ts = true -> read strict (doc_events k ts) = Some (map norm_t ts).
Proof. intros H. rewrite indentation_irrelevant. apply events_roundtrip. exact H. Qed.

(* ------------------------------------------------------------------------------------------- *)
(* E. sophia: convert_triple, serialize_triples, the parser adapter                             *)
(* ------------------------------------------------------------------------------------------- *)

(* THEOREM (sophia convert_triple): exactly the triples with IRI/blank subject, IRI predicate and
   IRI/blank/literal object are handed to the formatter, unchanged (unconvert is the parser-side
   adapter, so this is also "adapter after convert_triple = identity") *)
Theorem convert_representable t :
  representable t = true ->
  exists n p o, convert t = CRio (SNode n) p (OObj o) /\ unconvert (n, p, o) = t.
Proof.
  destruct t as [[s p] o]. destruct s; try discriminate; destruct p; try discriminate;
    destruct o; try discriminate; intros _; cbn [convert].
  all: try (do 3 eexists; split; [reflexivity|reflexivity]).
  all: destruct (str_eqb xsd_string dt) eqn:E; do 3 eexists; (split; [reflexivity|]);
       cbn [unconvert term_of_node term_of_obj]; try reflexivity; apply str_eqb_eq in E; subst; reflexivity.
Qed.

(* ... every other triple without quoted triples (generalised RDF: literal or variable subject,
   non-IRI predicate, variable object) is silently skipped *)
Theorem convert_skips t : flat3 t = true -> representable t = false -> convert t = CSkip.
Proof.
  destruct t as [[s p] o]. destruct s; destruct p; destruct o;
    cbn [flat3 flat_term representable is_node_term is_iri_term is_obj_term andb];
    try discriminate; intros _ _; reflexivity.
Qed.

(* ... and a triple whose subject or object is a (convertible) quoted triple reaches the formatter,
   which answers with an error: serialisation of RDF-star data fails, it does not skip *)
Example quoted_subject_fails : forall k a b c,
  serialize false k [(Triple (Iri a) (Iri b) (Iri c), Iri b, Iri c)] = SerErrSubj.
Proof. reflexivity. Qed.
Example quoted_object_fails : forall k a b c,
  serialize false k [(Iri a, Iri b, Triple (Iri a) (Iri b) (LitDt c c))] = SerErrObj.
Proof. reflexivity. Qed.
Example quoted_unconvertible_skipped : forall guard k a b c,
  serialize guard k [(Iri a, Iri b, Triple (LitDt c c) (Iri b) (Iri a))] = serialize guard k [].
Proof. reflexivity. Qed.

Lemma ren_t_false t : ren_t false t = t.
Proof. destruct t as [[s p] o]. destruct s; destruct o as [[]| | |]; reflexivity. Qed.

(* the Rio triples sophia hands over for a graph without quoted triples *)
Definition rts (g : list (term * term * term)) : list rtriple := fst (collect false g).

Lemma collect_flat g : forallb flat3 g = true ->
  snd (collect false g) = None /\ map unconvert (rts g) = filter representable g.
Proof.
  unfold rts. induction g as [|t g IH]; [auto|]. cbn [forallb]. intros H. apply andb_true_iff in H as [Ht Hg].
  destruct (IH Hg) as [IH1 IH2]. cbn [collect filter].
  destruct (representable t) eqn:R.
  - destruct (convert_representable t R) as (n & p & o & -> & Hx).
    cbn [guard_format andb]. rewrite ren_t_false.
    destruct (collect false g) as [ts e]. cbn [fst snd map] in *. rewrite IH1, IH2, Hx. auto.
  - rewrite (convert_skips t Ht R). auto.
Qed.

Lemma unconvert_norm guard x : unconvert (norm_t (ren_t guard x)) = norm_term3 guard (unconvert x).
Proof. destruct x as [[s p] o]. destruct s; destruct o as [[]|v|v tag|v dt]; reflexivity. Qed.

Lemma term_eqb_refl t : term_eqb t t = true.
Proof.
  induction t; cbn [term_eqb]; rewrite ?str_eqb_refl; try reflexivity.
  - unfold str_eqb_ci. rewrite str_eqb_refl. reflexivity.
  - rewrite IHt1, IHt2, IHt3. reflexivity.
Qed.
(* lower-casing the tag is invisible to Term::eq: without the repair what is read back is
   Term::eq-equal to what was written, triple by triple *)
Lemma norm_term3_eq t : triple3_eqb (norm_term3 false t) t = true.
Proof.
  assert (H : forall x, term_eqb (norm_term false x) x = true).
  { intros x. destruct x; try apply term_eqb_refl. cbn [norm_term term_eqb]. rewrite str_eqb_refl.
    unfold str_eqb_ci. rewrite lower_idem, str_eqb_refl. reflexivity. }
  destruct t as [[s p] o]. unfold triple3_eqb, norm_term3. rewrite !H, term_eqb_refl. reflexivity.
Qed.

(* the class, on sophia's side: the Rio triples handed to the formatter are all in the class *)
Definition graph_ok (strict : bool) (g : list (term * term * term)) : bool :=
  forallb (triple_ok strict) (rts g).

(* THEOREM (the property on the model, serializer as it is): for a graph without quoted triples
   whose representable triples are in the class, serialisation succeeds with every indentation and
   reading the written events gives exactly the representable triples, in order, same labels, tags
   lower-cased *)
Theorem sophia_roundtrip strict k g :
  forallb flat3 g = true -> graph_ok strict g = true ->
  serialize false k g = SerOk (flatten (doc_events k (rts g)))
  /\ model_parse false strict k g = Some (expected_parse false g).
Proof.
  intros Hf Hok. destruct (collect_flat g Hf) as [He Hm]. unfold serialize, model_parse, graph_ok, rts, expected_parse in *.
  destruct (collect false g) as [ts e]. cbn [fst snd] in *. subst e. split; [reflexivity|].
  rewrite (document_roundtrip strict k ts Hok). cbn [option_map]. rewrite map_map.
  rewrite <- Hm, map_map. f_equal. apply map_ext. intros x.
  rewrite <- (ren_t_false x) at 1. apply unconvert_norm.
Qed.

(* THEOREM (indentation, on sophia's configuration): for EVERY graph -- in the class or not, with
   or without the repair, with either reader -- the indentation setting does not change what is
   read back *)
Theorem indentation_never_matters guard strict k g :
  model_parse guard strict k g = model_parse guard strict 0 g.
Proof.
  unfold model_parse. destruct (collect guard g) as [ts [e|]]; [reflexivity|].
  rewrite !indentation_irrelevant. reflexivity.
Qed.
(* ... and whether serialisation succeeds does not depend on it either *)
Theorem indentation_same_outcome guard k g :
  match serialize guard k g, serialize guard 0 g with
  | SerOk _, SerOk _ | SerErrSubj, SerErrSubj | SerErrObj, SerErrObj | SerErrInput, SerErrInput => True
  | _, _ => False
  end.
Proof. unfold serialize. destruct (collect guard g) as [ts [[]|]]; exact I. Qed.

(* ---- the repair ([guard = true]) ---- *)
Lemma name_char_safe c : is_name_char c = true ->
  is_xml_char c = true /\ (9 =? c) = false /\ (10 =? c) = false /\ (13 =? c) = false.
Proof.
  unfold is_name_char, is_name_start_char, is_xml_char, in_rng. intros H.
  repeat rewrite orb_true_iff in H. repeat rewrite andb_true_iff in H.
  rewrite ?N.eqb_eq, ?N.leb_le in H.
  repeat split.
  - repeat rewrite orb_true_iff. repeat rewrite andb_true_iff. rewrite ?N.eqb_eq, ?N.leb_le. lia.
  - apply N.eqb_neq. lia.
  - apply N.eqb_neq. lia.
  - apply N.eqb_neq. lia.
Qed.
Lemma name_chars_attr_safe s : forallb is_name_char s = true -> attr_safe s = true.
Proof.
  unfold attr_safe, xml_str. induction s as [|c s IH]; [reflexivity|]. cbn [forallb]. intros H.
  apply andb_true_iff in H as [Hc Hs]. specialize (IH Hs).
  apply andb_true_iff in IH as [IH H13]. apply andb_true_iff in IH as [IH H10]. apply andb_true_iff in IH as [Hx H9].
  destruct (name_char_safe c Hc) as (A & B & C & D).
  rewrite !has_cons, A, B, C, D, Hx. cbn [andb orb]. rewrite H9, H10, H13. reflexivity.
Qed.
Lemma digit_name_char c : in_rng c 48 57 = true -> is_name_char c = true.
Proof. unfold is_name_char. intros ->. rewrite !orb_true_r. reflexivity. Qed.
Lemma nc_start_name_char c : nc_start c = true -> is_name_char c = true.
Proof. unfold nc_start. intros H. apply andb_true_iff in H as [H _]. apply name_start_is_name. exact H. Qed.
Lemma not_brk_all r : forallb (fun x => negb (brk x)) r = true ->
  forallb is_name_char r = true /\ forallb not_colon r = true.
Proof.
  induction r as [|x r IH]; [auto|]. cbn [forallb]. intros H. apply andb_true_iff in H as [Hx Hr].
  destruct (not_brk x Hx) as [-> ->]. destruct (IH Hr) as [-> ->]. auto.
Qed.

Lemma label_name_chars b : label_ok b = true -> forallb is_name_char (node_out true b) = true.
Proof.
  unfold label_ok, node_out. destruct b as [|c r]; [discriminate|]. intros H.
  apply andb_true_iff in H as [Hc Hr]. destruct (not_brk_all r Hr) as [Hn _].
  assert (Hcn : is_name_char c = true).
  { apply orb_true_iff in Hc as [Hc|Hc]; [apply nc_start_name_char|apply digit_name_char]; exact Hc. }
  destruct (in_rng c 48 57 || (c =? 95)); cbn [forallb]; rewrite Hcn, Hn; reflexivity.
Qed.
(* THEOREM (repair): every blank node label sophia accepts is written as an NCName ... *)
Theorem node_out_ncname b : label_ok b = true -> is_ncname (node_out true b) = true.
Proof.
  unfold label_ok, node_out. destruct b as [|c r]; [discriminate|]. intros H.
  apply andb_true_iff in H as [Hc Hr]. destruct (not_brk_all r Hr) as [Hn Hcol].
  destruct (in_rng c 48 57 || (c =? 95)) eqn:E.
  - assert (Hcn : is_name_char c = true /\ not_colon c = true).
    { apply orb_true_iff in E as [E|E].
      - split; [apply digit_name_char; exact E|]. unfold in_rng in E. apply andb_true_iff in E as [E1 E2].
        apply N.leb_le in E1, E2. unfold not_colon. apply negb_true_iff, N.eqb_neq. lia.
      - apply N.eqb_eq in E. subst c. split; reflexivity. }
    destruct Hcn as [A B]. unfold is_ncname, is_name. cbn [forallb]. rewrite A, Hn, B, Hcol. reflexivity.
  - apply orb_false_iff in E as [E _]. rewrite E, orb_false_r in Hc.
    unfold nc_start in Hc. apply andb_true_iff in Hc as [A B].
    unfold is_ncname, is_name. cbn [forallb]. unfold not_colon at 1. rewrite A, Hn, B, Hcol. reflexivity.
Qed.
(* ... and distinct labels stay distinct, so the renaming is an isomorphism of graphs *)
Theorem node_out_injective a b : node_out true a = node_out true b -> a = b.
Proof.
  unfold node_out. destruct a as [|x a'], b as [|y b']; try reflexivity.
  - destruct (in_rng y 48 57 || (y =? 95)); discriminate.
  - destruct (in_rng x 48 57 || (x =? 95)); discriminate.
  - destruct (in_rng x 48 57 || (x =? 95)) eqn:Ex, (in_rng y 48 57 || (y =? 95)) eqn:Ey; intros H.
    + injection H as -> ->. reflexivity.
    + injection H as <- _. rewrite N.eqb_refl, orb_true_r in Ey. discriminate.
    + injection H as -> _. rewrite N.eqb_refl, orb_true_r in Ex. discriminate.
    + exact H.
Qed.

Lemma guard_format_node n p o :
  guard_format true (SNode n) p (OObj o)
  = if expressible (n, p, o) then FOk (ren_t true (n, p, o)) else FErr SerErrInput.
Proof.
  unfold guard_format, expressible. cbn [andb]. destruct (check_pred p); cbn [negb andb]; [|reflexivity].
  destruct (lit_text o) as [v|]; [destruct (xml_str v)|]; reflexivity.
Qed.

Lemma node_valid_ok strict n : node_valid strict n = true -> node_ok strict (ren_node true n) = true.
Proof.
  destruct n as [i|b]; cbn [node_valid ren_node node_ok].
  - unfold asafe. destruct strict; auto.
  - intros H. rewrite (node_out_ncname b H). destruct strict; [|reflexivity].
    apply name_chars_attr_safe, label_name_chars. exact H.
Qed.

Lemma guard_triple_ok strict t :
  expressible t = true -> triple_valid strict t = true -> triple_ok strict (ren_t true t) = true.
Proof.
  destruct t as [[s p] o]. cbn [expressible triple_valid ren_t triple_ok]. intros He Hv.
  apply andb_true_iff in He as [Hp Ht]. unfold check_pred in Hp. apply andb_true_iff in Hp as [Hl Hr].
  apply andb_true_iff in Hv as [Hv Ho]. apply andb_true_iff in Hv as [Hv Hpa]. apply andb_true_iff in Hv as [Hs Hc].
  rewrite (node_valid_ok strict s Hs). cbn [andb].
  assert (Hpred : pred_ok strict p = true).
  { unfold pred_ok. rewrite Hc, Hr. cbn [andb]. destruct strict; [|reflexivity].
    cbn [asafe] in Hpa. rewrite Hpa. unfold has_local in Hl. destruct (snd (split_iri p)); [discriminate|reflexivity]. }
  rewrite Hpred. cbn [andb].
  destruct o as [n|v|v tag|v dt]; cbn [ren_obj obj_ok obj_valid lit_text] in *.
  - apply node_valid_ok. exact Ho.
  - unfold lit_ok, lit_valid, text_safe in *. destruct strict; [rewrite Ht, Ho; reflexivity|exact Ho].
  - apply andb_true_iff in Ho as [Hv Ha]. unfold lit_ok, lit_valid, text_safe, asafe in *.
    destruct strict; [rewrite Ht, Hv, Ha; reflexivity|rewrite Hv; reflexivity].
  - apply andb_true_iff in Ho as [Hv Ha]. unfold lit_ok, lit_valid, text_safe, asafe in *.
    destruct strict; [rewrite Ht, Hv, Ha; reflexivity|rewrite Hv; reflexivity].
Qed.

Lemma collect_guarded g : forallb flat3 g = true ->
  if forallb expressible (rts g) then collect true g = (map (ren_t true) (rts g), None)
  else snd (collect true g) = Some SerErrInput.
Proof.
  unfold rts. induction g as [|t g IH]; [reflexivity|]. cbn [forallb]. intros H. apply andb_true_iff in H as [Ht Hg].
  specialize (IH Hg). cbn [collect].
  destruct (representable t) eqn:R.
  - destruct (convert_representable t R) as (n & p & o & -> & _).
    rewrite guard_format_node. cbn [guard_format andb]. rewrite ren_t_false.
    destruct (collect false g) as [ts e]. cbn [fst snd forallb map] in *.
    destruct (expressible (n, p, o)); cbn [andb]; [|reflexivity].
    destruct (forallb expressible ts).
    + rewrite IH. reflexivity.
    + destruct (collect true g) as [ts' e']. cbn [snd] in *. exact IH.
  - rewrite (convert_skips t Ht R). exact IH.
Qed.

(* THEOREM (repair, rejection): a graph without quoted triples one of whose representable triples
   is not expressible (predicate without local name or reserved, text outside Char) is refused
   with an error -- nothing ill-formed is written *)
Theorem guarded_rejects k g :
  forallb flat3 g = true -> forallb expressible (rts g) = false -> serialize true k g = SerErrInput.
Proof.
  intros Hf He. pose proof (collect_guarded g Hf) as H. rewrite He in H.
  unfold serialize. destruct (collect true g) as [ts e]. cbn [snd] in H. subst e. reflexivity.
Qed.

(* THEOREM (repair, the property on the model): otherwise serialisation succeeds, and for terms
   valid in sophia (blank node labels per BnodeId; IRIs, tags without characters XML would
   normalise; CR-free text for the XML reader, not whitespace-only text for Rio's reader) reading
   the written events gives the representable triples, in order, labels through the injective
   node_out, tags lower-cased.  No hypothesis on predicates or on XML-legality of the text. *)
Theorem guarded_roundtrip strict k g :
  forallb flat3 g = true -> forallb expressible (rts g) = true ->
  forallb (triple_valid strict) (rts g) = true ->
  serialize true k g = SerOk (flatten (doc_events k (map (ren_t true) (rts g))))
  /\ model_parse true strict k g = Some (expected_parse true g).
Proof.
  intros Hf He Hv. pose proof (collect_guarded g Hf) as H. rewrite He in H.
  destruct (collect_flat g Hf) as [_ Hm].
  unfold serialize, model_parse, expected_parse. rewrite H. split; [reflexivity|].
  rewrite document_roundtrip.
  - cbn [option_map]. rewrite !map_map, <- Hm, map_map. f_equal. apply map_ext. intros x. apply unconvert_norm.
  - rewrite forallb_forall in *. intros x Hin. apply in_map_iff in Hin as (y & <- & Hy).
    apply guard_triple_ok; auto.
Qed.

(* ---- refutations: what happens outside the classes (each is an observed behaviour) ---- *)
Definition ex_s : term := Iri [104;116;116;112;58;47;47;101;47;115].            (* http://e/s *)
Definition ex_p : term := Iri [104;116;116;112;58;47;47;101;47;112].            (* http://e/p *)
(* KNOWN FINDING: a whitespace-only literal is re-read as "" by Rio's reader; the document
   itself is right (the XML/RDF reader gives the literal back); the repair cannot change that *)
Example ws_only_literal_refuted :
  model_parse false false 0 [(ex_s, ex_p, LitDt [32] xsd_string)] = Some [(ex_s, ex_p, LitDt [] xsd_string)]
  /\ model_parse true false 0 [(ex_s, ex_p, LitDt [32] xsd_string)] = Some [(ex_s, ex_p, LitDt [] xsd_string)]
  /\ model_parse true true 0 [(ex_s, ex_p, LitDt [32] xsd_string)] = Some [(ex_s, ex_p, LitDt [32] xsd_string)]
  /\ model_parse true false 4 [(ex_s, ex_p, LitLang [10;9] [101;110])] = Some [(ex_s, ex_p, LitLang [] [101;110])].
Proof. vm_compute. repeat split; reflexivity. Qed.
(* without the repair a blank node label starting with a digit is written as rdf:nodeID="0a":
   not an NCName, rejected by both readers; with it, it comes back as _0a *)
Example bnode_digit_refuted :
  model_parse false false 0 [(Bnode [48;97], ex_p, ex_s)] = None /\ model_parse false true 0 [(ex_s, ex_p, Bnode [48])] = None
  /\ model_parse true false 0 [(Bnode [48;97], ex_p, ex_s)] = Some [(Bnode [95;48;97], ex_p, ex_s)].
Proof. vm_compute. repeat split; reflexivity. Qed.
(* without the repair rdf:li as a predicate is read back as rdf:_1, rdf:Description / rdf:about ...
   are rejected by the reader; with it the serializer refuses them *)
Example rdf_li_refuted :
  model_parse false false 0 [(ex_s, Iri rdf_li, ex_s)] = Some [(ex_s, Iri (rdf_ns ++ [95;49]), ex_s)]
  /\ model_parse false false 0 [(ex_s, Iri (rdf_ns ++ l_Description), ex_s)] = None
  /\ model_parse false false 0 [(ex_s, Iri (rdf_ns ++ l_about), ex_s)] = None
  /\ serialize true 0 [(ex_s, Iri rdf_li, ex_s)] = SerErrInput.
Proof. vm_compute. repeat split; reflexivity. Qed.
(* without the repair a predicate with no NCName suffix is written as <prop: xmlns:prop="...">:
   Rio's reader accepts the empty local part, a namespace-aware XML reader does not *)
Example unsplittable_predicate_refuted :
  let g := [(ex_s, Iri [117;114;110;58;49], ex_s)] in             (* urn:1 *)
  model_parse false false 0 g = Some g /\ model_parse false true 0 g = None /\ serialize true 0 g = SerErrInput.
Proof. vm_compute. repeat split; reflexivity. Qed.
(* CR survives Rio's reader (quick-xml does no end-of-line normalisation) but not an XML reader;
   Rio's formatter would have to write &#13; -- not repairable on sophia's side *)
Example cr_literal_refuted :
  let g := [(ex_s, ex_p, LitDt [97;13;98] xsd_string)] in
  model_parse true false 0 g = Some g /\ model_parse true true 0 g = Some [(ex_s, ex_p, LitDt [97;10;98] xsd_string)].
Proof. vm_compute. split; reflexivity. Qed.
(* without the repair a character outside XML's Char production is written raw, without an error *)
Example illegal_char_written :
  let g := [(ex_s, ex_p, LitDt [1] xsd_string)] in
  match serialize false 0 g with SerOk d => xml_str d | _ => true end = false
  /\ model_parse false false 0 g = Some g /\ model_parse false true 0 g = None
  /\ serialize true 0 g = SerErrInput.
Proof. vm_compute. repeat split; reflexivity. Qed.
(* generalised triples are skipped, the rest is kept *)
Example generalised_skipped :
  model_parse true true 2 [(LitDt [49] xsd_string, ex_p, ex_s); (ex_s, Bnode [98], ex_s); (ex_s, ex_p, Var [118]); (ex_s, ex_p, ex_s)]
  = Some [(ex_s, ex_p, ex_s)].
Proof. vm_compute. reflexivity. Qed.

(* non-vacuity of the classes: markup characters, leading/trailing whitespace and newlines, TAB,
   a non-BMP character, rdf:XMLLiteral-typed text, an upper-case language tag, blank nodes in
   subject and object position (one label starting with a digit), three namespace split points *)
Definition ex_graph : list (term * term * term) :=
  [ (ex_s, ex_p, LitDt [32;60;38;62;34;39;10;9;128512;32] xsd_string);
    (ex_s, Iri [104;116;116;112;58;47;47;101;47;49;97], Bnode [98;46;99]);                   (* http://e/1a , _:b.c *)
    (Bnode [98;46;99], Iri [117;114;110;58;120;58;121], LitLang [10;97;10] [69;78;45;117;115]);    (* urn:x:y , "\na\n"@EN-us *)
    (Bnode [98;46;99], ex_p, LitDt [60;98;62;38;97;109;112;59;60;47;98;62] (rdf_ns ++ [88;77;76;76;105;116;101;114;97;108])) ].
Example ex_graph_in_both_classes :
  forallb flat3 ex_graph = true /\ graph_ok true ex_graph = true /\ graph_ok false ex_graph = true.
Proof. vm_compute. repeat split; reflexivity. Qed.
Example ex_graph_roundtrip :
  model_parse false true 8 ex_graph = Some (expected_parse false ex_graph)
  /\ model_parse false false 3 ex_graph = Some (expected_parse false ex_graph).
Proof. vm_compute. split; reflexivity. Qed.
Definition ex_graph2 : list (term * term * term) := (Bnode [48;46;49], ex_p, Bnode [95;120]) :: ex_graph.   (* _:0.1 , _:_x *)
Example ex_graph2_guarded :
  forallb flat3 ex_graph2 = true /\ forallb expressible (rts ex_graph2) = true
  /\ forallb (triple_valid true) (rts ex_graph2) = true /\ forallb (triple_valid false) (rts ex_graph2) = true
  /\ model_parse true true 5 ex_graph2 = Some (expected_parse true ex_graph2).
Proof. vm_compute. repeat split; reflexivity. Qed.
