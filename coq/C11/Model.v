(* C11/Model.v -- graph/dataset views of sophia_api (api/src/graph/adapter.rs,
   api/src/dataset/adapter.rs) over an abstract set-like store.
   Terms are an abstract type T with a boolean equality deciding Leibniz equality
   (terms taken modulo Term::eq; C02 shows Term::eq is an equivalence, the harness interns
   each term_eqb-class to one identifier).  Definitions only. *)
From Sophia.Common Require Export Prelude.

Section Views.
Variable T : Type.
Variable eqb : T -> T -> bool.

Definition gname := option T.
Record triple := mkT { ts : T; tp : T; to_ : T }.
Record quad := mkQ { qt : triple; qg : gname }.

Definition triple_eqb (a b : triple) : bool :=
  eqb (ts a) (ts b) && eqb (tp a) (tp b) && eqb (to_ a) (to_ b).
Definition gname_eqb (a b : gname) : bool := opt_eqb eqb a b.
Definition quad_eqb (a b : quad) : bool := triple_eqb (qt a) (qt b) && gname_eqb (qg a) (qg b).

(* ---------- the underlying stores: specification-level sets (what C01 establishes) ---------- *)
Definition dataset := list quad.      (* duplicate-free *)
Definition graph := list triple.      (* duplicate-free *)

Definition ds_contains (d : dataset) (q : quad) : bool := existsb (quad_eqb q) d.
Definition ds_insert (d : dataset) (q : quad) : dataset * bool :=
  if ds_contains d q then (d, false) else (d ++ [q], true).
Definition ds_remove (d : dataset) (q : quad) : dataset * bool :=
  if ds_contains d q then (filter (fun x => negb (quad_eqb q x)) d, true) else (d, false).

Definition gr_contains (g : graph) (t : triple) : bool := existsb (triple_eqb t) g.
Definition gr_insert (g : graph) (t : triple) : graph * bool :=
  if gr_contains g t then (g, false) else (g ++ [t], true).
Definition gr_remove (g : graph) (t : triple) : graph * bool :=
  if gr_contains g t then (filter (fun x => negb (triple_eqb t x)) g, true) else (g, false).

(* matchers are predicates (TermMatcher::matches, GraphNameMatcher::matches) *)
Definition tmatch := T -> bool.
Definition gmatch := gname -> bool.

Definition triple_matches (sm pm om : tmatch) (t : triple) : bool :=
  sm (ts t) && pm (tp t) && om (to_ t).
Definition ds_quads_matching (d : dataset) (sm pm om : tmatch) (gm : gmatch) : list quad :=
  filter (fun q => triple_matches sm pm om (qt q) && gm (qg q)) d.
Definition gr_triples_matching (g : graph) (sm pm om : tmatch) : list triple :=
  filter (triple_matches sm pm om) g.

Definition any_t : tmatch := fun _ => true.
Definition any_g : gmatch := fun _ => true.

(* ---------- UnionGraph ---------- *)
Definition union_triples (d : dataset) : list triple :=
  map qt d.                                         (* quads().map(into_triple) *)
Definition union_matching (d : dataset) sm pm om : list triple :=
  map qt (ds_quads_matching d sm pm om any_g).      (* quads_matching(sm,pm,om,Any) *)

(* ---------- PartialUnionGraph ---------- *)
Definition punion_triples (d : dataset) (m : gmatch) : list triple :=
  map qt (ds_quads_matching d any_t any_t any_t m).
Definition punion_matching (d : dataset) (m : gmatch) sm pm om : list triple :=
  map qt (ds_quads_matching d sm pm om m).

(* ---------- DatasetGraph (Dataset::graph / graph_mut) ---------- *)
Definition one_g (g : gname) : gmatch := fun x => gname_eqb x g.   (* the matcher [g] *)
Definition dg_triples (d : dataset) (g : gname) : list triple :=
  map qt (ds_quads_matching d any_t any_t any_t (one_g g)).
Definition dg_matching (d : dataset) (g : gname) sm pm om : list triple :=
  map qt (ds_quads_matching d sm pm om (one_g g)).
Definition dg_insert (d : dataset) (g : gname) (t : triple) : dataset * bool :=
  ds_insert d (mkQ t g).
Definition dg_remove (d : dataset) (g : gname) (t : triple) : dataset * bool :=
  ds_remove d (mkQ t g).

(* MutableGraph's default bulk mutations, called through the view:
   remove_matching = collect triples_matching(..) of the VIEW, then remove each through the view;
   retain_matching = collect the view's triples that do NOT match, then remove each *)
Definition dg_remove_list (d : dataset) (g : gname) (ts : list triple) : dataset * nat :=
  fold_left (fun acc t => let '(d', b) := dg_remove (fst acc) g t in (d', if b then S (snd acc) else snd acc))
            ts (d, O).
Definition dg_remove_matching (d : dataset) (g : gname) sm pm om : dataset * nat :=
  dg_remove_list d g (dg_matching d g sm pm om).
Definition dg_retain_matching (d : dataset) (g : gname) sm pm om : dataset :=
  fst (dg_remove_list d g (filter (fun t => negb (triple_matches sm pm om t)) (dg_triples d g))).

(* ---------- GraphAsDataset ---------- *)
Inductive gad_result := GadOk (changed : bool) | GadOnlyDefaultGraph.

Definition gad_quads (g : graph) : list quad := map (fun t => mkQ t None) g.
Definition gad_quads_matching (g : graph) sm pm om (gm : gmatch) : list quad :=
  if gm None then map (fun t => mkQ t None) (gr_triples_matching g sm pm om) else [].
Definition gad_contains (g : graph) (q : quad) : bool :=
  match qg q with None => gr_contains g (qt q) | Some _ => false end.
Definition gad_insert (g : graph) (q : quad) : graph * gad_result :=
  match qg q with
  | None => let '(g', b) := gr_insert g (qt q) in (g', GadOk b)
  | Some _ => (g, GadOnlyDefaultGraph)
  end.
Definition gad_remove (g : graph) (q : quad) : graph * gad_result :=
  match qg q with
  | None => let '(g', b) := gr_remove g (qt q) in (g', GadOk b)
  | Some _ => (g, GadOk false)
  end.
(* the pre-fix code (commit 9f1ceaf) called insert here; kept to document the finding *)
Definition gad_remove_prefix (g : graph) (q : quad) : graph * gad_result :=
  match qg q with
  | None => let '(g', b) := gr_insert g (qt q) in (g', GadOk b)
  | Some _ => (g, GadOk false)
  end.

End Views.

Arguments mkT {T}. Arguments mkQ {T}.
Arguments ts {T}. Arguments tp {T}. Arguments to_ {T}. Arguments qt {T}. Arguments qg {T}.

(* ================= executable harness-facing instance: terms are identifiers ================= *)
Definition tq := quad N.
Definition tt := triple N.

(* a matcher description that both sides can build *)
Inductive mdesc := MAny | MOneOf (l : list N) | MNotOneOf (l : list N).
Definition mdesc_t (m : mdesc) : tmatch N :=
  match m with
  | MAny => fun _ => true
  | MOneOf l => fun x => existsb (N.eqb x) l
  | MNotOneOf l => fun x => negb (existsb (N.eqb x) l)
  end.
(* graph-name matcher: a list of admissible names (None = default graph), or any, or negation *)
Inductive gdesc := GAny | GOneOf (l : list (option N)) | GNotOneOf (l : list (option N)).
Definition gdesc_g (m : gdesc) : gmatch N :=
  match m with
  | GAny => fun _ => true
  | GOneOf l => fun x => existsb (opt_eqb N.eqb x) l
  | GNotOneOf l => fun x => negb (existsb (opt_eqb N.eqb x) l)
  end.

(* operations of a mixed history: through the store, through each view *)
Inductive op :=
| DInsert (q : tq) | DRemove (q : tq)                        (* direct, on the dataset *)
| VInsert (g : option N) (t : tt) | VRemove (g : option N) (t : tt)   (* through graph_mut(g) *)
| QUnion (sm pm om : mdesc)                                   (* union_graph().triples_matching *)
| QPUnion (gm : gdesc) (sm pm om : mdesc)                     (* partial_union_graph(gm) *)
| QGraph (g : option N) (sm pm om : mdesc)                    (* graph(g).triples_matching *)
| QGraphAll (g : option N)                                    (* graph(g).triples *)
| QUnionAll | QPUnionAll (gm : gdesc)
| VRemoveMatching (g : option N) (sm pm om : mdesc)           (* graph_mut(g).remove_matching *)
| VRetainMatching (g : option N) (sm pm om : mdesc)           (* graph_mut(g).retain_matching *)
| QUnionAtoms (kind : N)                                      (* union_graph().iris() etc. *)
| QGraphAtoms (g : option N) (kind : N)                       (* graph(g).iris() etc. *)
| QDirect (sm pm om : mdesc) (gm : gdesc).                    (* quads_matching on the store *)

Inductive out :=
| OFlag (b : bool)
| OTriples (l : list tt)        (* multiset: compared after sorting on the harness side *)
| OQuads (l : list tq)
| OCount (n : N)
| OTerms (l : list N).           (* a set: compared after sorting and removing duplicates *)

(* the harness's term pool: kind and atoms (for a quoted triple: the atoms of its constituents)
   of each identifier; kinds: 0 blank node, 1 IRI, 2 literal, 3 triple, 4 variable *)
Definition pool := list (N * (N * list N * list N)).   (* id -> kind, atoms, quoted-triple constituents *)
Fixpoint pool_get3 (p : pool) (t : N) : N * list N * list N :=
  match p with
  | [] => (99, [], [])
  | (k, v) :: r => if N.eqb k t then v else pool_get3 r t
  end.
Definition pool_get (p : pool) (t : N) : N * list N := fst (pool_get3 p t).
Definition pool_tc (p : pool) (t : N) : list N := snd (pool_get3 p t).
Definition atoms_of_kind (p : pool) (kind : N) (l : list tt) : list N :=
  filter (fun a => N.eqb (fst (pool_get p a)) kind)
         (flat_map (fun t => snd (pool_get p (ts t)) ++ snd (pool_get p (tp t)) ++ snd (pool_get p (to_ t))) l).
(* quoted triples (kind 3) are enumerated as terms, not atoms: every triple-kind constituent *)
Definition triple_terms (p : pool) (l : list tt) : list N :=
  flat_map (fun t => pool_tc p (ts t) ++ pool_tc p (tp t) ++ pool_tc p (to_ t)) l.

Definition step (pl : pool) (d : dataset N) (o : op) : dataset N * out :=
  match o with
  | DInsert q => let '(d', b) := ds_insert N N.eqb d q in (d', OFlag b)
  | DRemove q => let '(d', b) := ds_remove N N.eqb d q in (d', OFlag b)
  | VInsert g t => let '(d', b) := dg_insert N N.eqb d g t in (d', OFlag b)
  | VRemove g t => let '(d', b) := dg_remove N N.eqb d g t in (d', OFlag b)
  | QUnion sm pm om => (d, OTriples (union_matching N d (mdesc_t sm) (mdesc_t pm) (mdesc_t om)))
  | QPUnion gm sm pm om =>
      (d, OTriples (punion_matching N d (gdesc_g gm) (mdesc_t sm) (mdesc_t pm) (mdesc_t om)))
  | QGraph g sm pm om =>
      (d, OTriples (dg_matching N N.eqb d g (mdesc_t sm) (mdesc_t pm) (mdesc_t om)))
  | QGraphAll g => (d, OTriples (dg_triples N N.eqb d g))
  | QUnionAll => (d, OTriples (union_triples N d))
  | VRemoveMatching g sm pm om =>
      let '(d', n) := dg_remove_matching N N.eqb d g (mdesc_t sm) (mdesc_t pm) (mdesc_t om) in (d', OCount (N.of_nat n))
  | VRetainMatching g sm pm om =>
      (dg_retain_matching N N.eqb d g (mdesc_t sm) (mdesc_t pm) (mdesc_t om), OFlag true)
  | QUnionAtoms k => (d, OTerms (if N.eqb k 3 then triple_terms pl (union_triples N d) else atoms_of_kind pl k (union_triples N d)))
  | QGraphAtoms g k => (d, OTerms (if N.eqb k 3 then triple_terms pl (dg_triples N N.eqb d g) else atoms_of_kind pl k (dg_triples N N.eqb d g)))
  | QPUnionAll gm => (d, OTriples (punion_triples N d (gdesc_g gm)))
  | QDirect sm pm om gm =>
      (d, OQuads (ds_quads_matching N d (mdesc_t sm) (mdesc_t pm) (mdesc_t om) (gdesc_g gm)))
  end.

Fixpoint run (pl : pool) (d : dataset N) (ops : list op) : list out :=
  match ops with
  | [] => []
  | o :: ops' => let '(d', r) := step pl d o in r :: run pl d' ops'
  end.

(* graph-as-dataset histories *)
Inductive gop :=
| GInsert (q : tq) | GRemove (q : tq) | GContains (q : tq)
| GQuery (sm pm om : mdesc) (gm : gdesc) | GAll
| GDirectInsert (t : tt) | GDirectRemove (t : tt).   (* on the wrapped graph itself *)
Inductive gout := GORes (r : gad_result) | GOBool (b : bool) | GOQuads (l : list tq).

Definition gstep (g : graph N) (o : gop) : graph N * gout :=
  match o with
  | GInsert q => let '(g', r) := gad_insert N N.eqb g q in (g', GORes r)
  | GRemove q => let '(g', r) := gad_remove N N.eqb g q in (g', GORes r)
  | GContains q => (g, GOBool (gad_contains N N.eqb g q))
  | GQuery sm pm om gm =>
      (g, GOQuads (gad_quads_matching N g (mdesc_t sm) (mdesc_t pm) (mdesc_t om) (gdesc_g gm)))
  | GAll => (g, GOQuads (gad_quads N g))
  | GDirectInsert t => let '(g', b) := gr_insert N N.eqb g t in (g', GORes (GadOk b))
  | GDirectRemove t => let '(g', b) := gr_remove N N.eqb g t in (g', GORes (GadOk b))
  end.
Fixpoint grun (g : graph N) (ops : list gop) : list gout :=
  match ops with
  | [] => []
  | o :: ops' => let '(g', r) := gstep g o in r :: grun g' ops'
  end.

(* ---- comparison of outputs up to order (the implementation's iteration order is not
   part of the property): sort by an injective key ---- *)
Definition tkey (t : tt) : list N := [ts t; tp t; to_ t].
Definition qkey (q : tq) : list N :=
  tkey (qt q) ++ match qg q with None => [0] | Some g => [1; g] end.
Fixpoint ins_sorted (k : list N) (l : list (list N)) : list (list N) :=
  match l with
  | [] => [k]
  | x :: l' => match str_cmp k x with Gt => x :: ins_sorted k l' | _ => k :: l end
  end.
Definition sort_keys (l : list (list N)) : list (list N) := fold_right ins_sorted [] l.
Definition keys_eqb (a b : list (list N)) : bool := list_eqb str_eqb (sort_keys a) (sort_keys b).

Fixpoint insN (k : N) (l : list N) : list N :=
  match l with [] => [k] | x :: l' => if k <=? x then k :: l else x :: insN k l' end.
Definition sortN (l : list N) := fold_right insN [] l.
Fixpoint dedup_sorted (l : list N) : list N :=
  match l with
  | x :: ((y :: _) as r) => if N.eqb x y then dedup_sorted r else x :: dedup_sorted r
  | _ => l
  end.

Definition gad_result_eqb (a b : gad_result) : bool :=
  match a, b with
  | GadOk x, GadOk y => Bool.eqb x y
  | GadOnlyDefaultGraph, GadOnlyDefaultGraph => true
  | _, _ => false
  end.
Definition out_eqb (a b : out) : bool :=
  match a, b with
  | OFlag x, OFlag y => Bool.eqb x y
  | OTriples x, OTriples y => keys_eqb (map tkey x) (map tkey y)
  | OQuads x, OQuads y => keys_eqb (map qkey x) (map qkey y)
  | OCount x, OCount y => N.eqb x y
  | OTerms x, OTerms y => str_eqb (dedup_sorted (sortN x)) (dedup_sorted (sortN y))
  | _, _ => false
  end.
Definition gout_eqb (a b : gout) : bool :=
  match a, b with
  | GORes x, GORes y => gad_result_eqb x y
  | GOBool x, GOBool y => Bool.eqb x y
  | GOQuads x, GOQuads y => keys_eqb (map qkey x) (map qkey y)
  | _, _ => false
  end.

(* a correspondence case: initial content (inserted one by one), ops, observed outputs *)
Definition case_ok (pl : pool) (init : list tq) (ops : list op) (observed : list out) : bool :=
  let d0 := fold_left (fun d q => fst (ds_insert N N.eqb d q)) init [] in
  list_eqb out_eqb (run pl d0 ops) observed.
Definition gcase_ok (init : list tt) (ops : list gop) (observed : list gout) : bool :=
  let g0 := fold_left (fun g t => fst (gr_insert N N.eqb g t)) init [] in
  list_eqb gout_eqb (grun g0 ops) observed.

(* ================= widened alphabet: view paths (views of views), every provided method of
   Graph / Dataset / MutableGraph / MutableDataset called through a view, bulk mutations, and
   stores that are bags (Vec) rather than sets.  The state is still a list of quads; a graph store
   wrapped by GraphAsDataset is the special case where every quad is in the default graph. ======= *)

(* one step from a dataset to a graph: Dataset::union_graph / partial_union_graph / graph *)
Inductive hop := HUnion | HPUnion (gm : gdesc) | HGraph (g : option N).

Definition hop_triples (d : dataset N) (h : hop) : list tt :=
  match h with
  | HUnion => union_triples N d
  | HPUnion m => punion_triples N d (gdesc_g m)
  | HGraph g => dg_triples N N.eqb d g
  end.
(* the view's own triples_matching *)
Definition hop_matching (d : dataset N) (h : hop) (sm pm om : tmatch N) : list tt :=
  match h with
  | HUnion => union_matching N d sm pm om
  | HPUnion m => punion_matching N d (gdesc_g m) sm pm om
  | HGraph g => dg_matching N N.eqb d g sm pm om
  end.
(* d.hop1().as_dataset().hop2().as_dataset()... : the quads seen after each (hop; as_dataset) pair *)
Fixpoint path_quads (d : dataset N) (p : list hop) : dataset N :=
  match p with
  | [] => d
  | h :: p' => path_quads (gad_quads N (hop_triples d h)) p'
  end.

Definition is_nil {A} (l : list A) : bool := match l with [] => true | _ => false end.
Definition t_at (pos : N) (t : tt) : N :=
  if N.eqb pos 0 then ts t else if N.eqb pos 1 then tp t else to_ t.
Definition q_at (pos : N) (q : tq) : list N :=
  if N.eqb pos 3 then match qg q with Some g => [g] | None => [] end else [t_at pos (qt q)].
Definition q_terms (q : tq) : list N :=
  [ts (qt q); tp (qt q); to_ (qt q)] ++ match qg q with Some g => [g] | None => [] end.   (* iter_spog *)
Definition q_atoms_of_kind (p : pool) (kind : N) (d : list tq) : list N :=
  filter (fun a => N.eqb (fst (pool_get p a)) kind)
         (flat_map (fun q => flat_map (fun x => snd (pool_get p x)) (q_terms q)) d).
Definition q_triple_terms (p : pool) (d : list tq) : list N :=
  flat_map (fun q => flat_map (pool_tc p) (q_terms q)) d.

(* observations on a graph-valued view (Graph's methods) and on a dataset-valued one (Dataset's) *)
Inductive gobs :=
| GOMatching (sm pm om : mdesc) | GOAll | GOContains (t : tt)
| GOTerms (pos : N)             (* 0 subjects, 1 predicates, 2 objects *)
| GOAtoms (kind : N).           (* blank_nodes, iris, literals, quoted_triples, variables *)
Inductive dobs :=
| DOMatching (sm pm om : mdesc) (gm : gdesc) | DOAll | DOContains (q : tq)
| DOTerms (pos : N)             (* ... 3 graph_names *)
| DOAtoms (kind : N).

Definition gobs_eval (pl : pool) (d : dataset N) (h : hop) (o : gobs) : out :=
  match o with
  | GOMatching sm pm om => OTriples (hop_matching d h (mdesc_t sm) (mdesc_t pm) (mdesc_t om))
  | GOAll => OTriples (hop_triples d h)
  | GOContains t =>     (* Graph::contains = triples_matching([s],[p],[o]).next().is_some() *)
      OFlag (negb (is_nil (hop_matching d h (mdesc_t (MOneOf [ts t])) (mdesc_t (MOneOf [tp t])) (mdesc_t (MOneOf [to_ t])))))
  | GOTerms pos => OTerms (map (t_at pos) (hop_triples d h))
  | GOAtoms k => OTerms (if N.eqb k 3 then triple_terms pl (hop_triples d h) else atoms_of_kind pl k (hop_triples d h))
  end.
Definition dobs_eval (pl : pool) (d : dataset N) (o : dobs) : out :=
  match o with
  | DOMatching sm pm om gm => OQuads (ds_quads_matching N d (mdesc_t sm) (mdesc_t pm) (mdesc_t om) (gdesc_g gm))
  | DOAll => OQuads d
  | DOContains q =>     (* Dataset::contains = quads_matching([s],[p],[o],[g]).next().is_some() *)
      OFlag (negb (is_nil (ds_quads_matching N d (mdesc_t (MOneOf [ts (qt q)])) (mdesc_t (MOneOf [tp (qt q)]))
                                               (mdesc_t (MOneOf [to_ (qt q)])) (one_g N N.eqb (qg q)))))
  | DOTerms pos => OTerms (flat_map (q_at pos) d)
  | DOAtoms k => OTerms (if N.eqb k 3 then q_triple_terms pl d else q_atoms_of_kind pl k d)
  end.

(* the store: set-like (HashSet, BTreeSet, the in-memory stores), or a bag: Vec<Spog>/Vec<[T;3]> (insert pushes and
   answers true, remove deletes every copy and answers true) or Vec<Gspo> (insert pushes and answers true, remove
   deletes ONE copy and answers whether there was one) *)
Inductive skind := SSet | SBagAll | SBagOne.
Fixpoint remove_first (q : tq) (d : dataset N) : dataset N * bool :=
  match d with
  | [] => ([], false)
  | x :: r => if quad_eqb N N.eqb q x then (r, true) else let '(r', b) := remove_first q r in (x :: r', b)
  end.
Fixpoint remove_first_t (t : tt) (l : list tt) : list tt * bool :=     (* the same on a list of triples *)
  match l with
  | [] => ([], false)
  | x :: r => if triple_eqb N N.eqb t x then (r, true) else let '(r', b) := remove_first_t t r in (x :: r', b)
  end.
Definition s_insert (sk : skind) (d : dataset N) (q : tq) : dataset N * bool :=
  match sk with SSet => ds_insert N N.eqb d q | _ => (d ++ [q], true) end.
Definition s_remove (sk : skind) (d : dataset N) (q : tq) : dataset N * bool :=
  match sk with
  | SSet => ds_remove N N.eqb d q
  | SBagAll => (filter (fun x => negb (quad_eqb N N.eqb q x)) d, true)
  | SBagOne => remove_first q d
  end.

(* a mutation issued through d.graph_mut(g1).as_dataset_mut().graph_mut(g2)... names the graphs
   g1, g2, ...: it lands in g1 of the store when every later name is the default graph, and nowhere
   otherwise (GraphAsDataset has a default graph only) *)
Definition is_default (g : option N) : bool := match g with None => true | Some _ => false end.
Definition lands (gs : list (option N)) : option (option N) :=
  match gs with
  | [] => None
  | g :: rest => if forallb is_default rest then Some g else None
  end.
Inductive xout := XO (o : out) | XOnlyDefault.
Definition x_insert (sk : skind) (d : dataset N) (gs : list (option N)) (t : tt) : dataset N * xout :=
  match lands gs with
  | Some g => let '(d', b) := s_insert sk d (mkQ t g) in (d', XO (OFlag b))
  | None => (d, XOnlyDefault)                  (* GraphAsDatasetMutationError::OnlyDefaultGraph *)
  end.
Definition x_remove (sk : skind) (d : dataset N) (gs : list (option N)) (t : tt) : dataset N * xout :=
  match lands gs with
  | Some g => let '(d', b) := s_remove sk d (mkQ t g) in (d', XO (OFlag b))
  | None => (d, XO (OFlag false))
  end.
(* insert_all / remove_all (provided methods): one by one, counting the true flags, stopping at the
   first error *)
Fixpoint x_insert_all (sk : skind) (d : dataset N) (items : list (list (option N) * tt)) (n : N)
  : dataset N * xout :=
  match items with
  | [] => (d, XO (OCount n))
  | (gs, t) :: rest =>
      match x_insert sk d gs t with
      | (d', XO (OFlag b)) => x_insert_all sk d' rest (if b then n + 1 else n)
      | (d', _) => (d', XOnlyDefault)
      end
  end.
Fixpoint x_remove_all (sk : skind) (d : dataset N) (items : list (list (option N) * tt)) (n : N)
  : dataset N * xout :=
  match items with
  | [] => (d, XO (OCount n))
  | (gs, t) :: rest =>
      match x_remove sk d gs t with
      | (d', XO (OFlag b)) => x_remove_all sk d' rest (if b then n + 1 else n)
      | (d', _) => (d', XOnlyDefault)
      end
  end.
(* remove_matching / retain_matching of MutableGraph through graph_mut(g), of MutableDataset on the store *)
Definition x_remove_quads (sk : skind) (d : dataset N) (qs : list tq) : dataset N * nat :=
  fold_left (fun acc q => let '(d', b) := s_remove sk (fst acc) q in (d', if b then S (snd acc) else snd acc))
            qs (d, O).
Definition x_remove_list (sk : skind) (d : dataset N) (g : option N) (l : list tt) : dataset N * nat :=
  fold_left (fun acc t => let '(d', b) := s_remove sk (fst acc) (mkQ t g) in (d', if b then S (snd acc) else snd acc))
            l (d, O).
Definition x_remove_matching (sk : skind) (d : dataset N) (g : option N) sm pm om : dataset N * nat :=
  x_remove_list sk d g (dg_matching N N.eqb d g sm pm om).
Definition x_retain_matching (sk : skind) (d : dataset N) (g : option N) sm pm om : dataset N :=
  fst (x_remove_list sk d g (filter (fun t => negb (triple_matches N sm pm om t)) (dg_triples N N.eqb d g))).
Definition xd_remove_matching (sk : skind) (d : dataset N) sm pm om gm : dataset N * nat :=
  x_remove_quads sk d (ds_quads_matching N d sm pm om gm).
Definition xd_retain_matching (sk : skind) (d : dataset N) sm pm om gm : dataset N :=
  fst (x_remove_quads sk d (filter (fun q => negb (triple_matches N sm pm om (qt q) && gm (qg q))) d)).

Inductive xop :=
| XGObs (p : list hop) (h : hop) (o : gobs)     (* d.p...as_dataset().h() observed with a Graph method *)
| XDObs (p : list hop) (o : dobs)               (* d.p...as_dataset() observed with a Dataset method *)
| XIns (gs : list (option N)) (t : tt)          (* insert through graph_mut(g1).as_dataset_mut().graph_mut(g2)... *)
| XRem (gs : list (option N)) (t : tt)
| XInsAll (items : list (list (option N) * tt)) (* insert_all through a view: each item with its graph names *)
| XRemAll (items : list (list (option N) * tt))
| XRemMatching (g : option N) (sm pm om : mdesc)
| XRetMatching (g : option N) (sm pm om : mdesc)
| XDRemMatching (sm pm om : mdesc) (gm : gdesc) (* MutableDataset::remove_matching on the store *)
| XDRetMatching (sm pm om : mdesc) (gm : gdesc).

Definition xstep (sk : skind) (pl : pool) (d : dataset N) (x : xop) : dataset N * xout :=
  match x with
  | XGObs p h o => (d, XO (gobs_eval pl (path_quads d p) h o))
  | XDObs p o => (d, XO (dobs_eval pl (path_quads d p) o))
  | XIns gs t => x_insert sk d gs t
  | XRem gs t => x_remove sk d gs t
  | XInsAll items => x_insert_all sk d items 0
  | XRemAll items => x_remove_all sk d items 0
  | XRemMatching g sm pm om =>
      let '(d', n) := x_remove_matching sk d g (mdesc_t sm) (mdesc_t pm) (mdesc_t om) in (d', XO (OCount (N.of_nat n)))
  | XRetMatching g sm pm om =>
      (x_retain_matching sk d g (mdesc_t sm) (mdesc_t pm) (mdesc_t om), XO (OFlag true))
  | XDRemMatching sm pm om gm =>
      let '(d', n) := xd_remove_matching sk d (mdesc_t sm) (mdesc_t pm) (mdesc_t om) (gdesc_g gm) in
      (d', XO (OCount (N.of_nat n)))
  | XDRetMatching sm pm om gm =>
      (xd_retain_matching sk d (mdesc_t sm) (mdesc_t pm) (mdesc_t om) (gdesc_g gm), XO (OFlag true))
  end.

(* the first alphabet expressed in the widened one (Proofs: translate_ok) *)
Definition translate (o : op) : xop :=
  match o with
  | DInsert q => XIns [qg q] (qt q)
  | DRemove q => XRem [qg q] (qt q)
  | VInsert g t => XIns [g] t
  | VRemove g t => XRem [g] t
  | QUnion sm pm om => XGObs [] HUnion (GOMatching sm pm om)
  | QPUnion gm sm pm om => XGObs [] (HPUnion gm) (GOMatching sm pm om)
  | QGraph g sm pm om => XGObs [] (HGraph g) (GOMatching sm pm om)
  | QGraphAll g => XGObs [] (HGraph g) GOAll
  | QUnionAll => XGObs [] HUnion GOAll
  | QPUnionAll gm => XGObs [] (HPUnion gm) GOAll
  | VRemoveMatching g sm pm om => XRemMatching g sm pm om
  | VRetainMatching g sm pm om => XRetMatching g sm pm om
  | QUnionAtoms k => XGObs [] HUnion (GOAtoms k)
  | QGraphAtoms g k => XGObs [] (HGraph g) (GOAtoms k)
  | QDirect sm pm om gm => XDObs [] (DOMatching sm pm om gm)
  end.

(* mixed histories over both alphabets; on a bag store the first alphabet is read through translate *)
Inductive hist_op := HOld (o : op) | HNew (x : xop).
Definition hstep (sk : skind) (pl : pool) (d : dataset N) (h : hist_op) : dataset N * xout :=
  match h with
  | HOld o => match sk with
              | SSet => let '(d', r) := step pl d o in (d', XO r)
              | _ => xstep sk pl d (translate o)
              end
  | HNew x => xstep sk pl d x
  end.
Fixpoint hrun (sk : skind) (pl : pool) (d : dataset N) (ops : list hist_op) : list xout :=
  match ops with
  | [] => []
  | o :: ops' => let '(d', r) := hstep sk pl d o in r :: hrun sk pl d' ops'
  end.
Definition xout_eqb (a b : xout) : bool :=
  match a, b with
  | XO x, XO y => out_eqb x y
  | XOnlyDefault, XOnlyDefault => true
  | _, _ => false
  end.
Definition xcase_ok (sk : skind) (pl : pool) (init : list tq) (ops : list hist_op) (observed : list xout) : bool :=
  let d0 := fold_left (fun d q => fst (s_insert sk d q)) init [] in
  list_eqb xout_eqb (hrun sk pl d0 ops) observed.
