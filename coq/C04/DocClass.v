(* C04/DocClass.v -- when is a blank node in `labelled`?  Two of the rules of build_labelled, proved of its model
   (Model.v, on interned terms) for ALL datasets: a blank node that is the GRAPH NAME of a quad, and a blank node that
   occurs INSIDE A QUOTED TRIPLE standing in a quad, are labelled whatever else the dataset contains.  (These are two of
   the ways the document stream of the harness puts a dataset in the class of DocText.v; the class itself is the boolean
   [in_class] on the plan, evaluated per case with the model of build_labelled.) *)
From Sophia.Common Require Import Prelude.
From Sophia.C04 Require Import Regex Model Proofs.

(* visiting a blank node in predicate or graph name position marks it *)
Lemma visit_bnode_bad3 m t q : exists p, pm_get (visit_bnode m 3 t q) t = Some p /\ bad p = true.
Proof.
  unfold visit_bnode. destruct (pm_get m t) as [p0|] eqn:G; rewrite pm_get_put, N.eqb_refl; eexists; (split; [reflexivity|]).
  - destruct (bad p0) eqn:B; [exact B | reflexivity].
  - reflexivity.
Qed.
Lemma visit_quoted_atoms_keep l : forall m a, (exists p, pm_get m a = Some p /\ bad p = true) ->
  exists p, pm_get (fold_left visit_quoted_atom l m) a = Some p /\ bad p = true.
Proof.
  induction l as [|x l IH]; intros m a H; [exact H|]. cbn [fold_left]. apply IH. destruct H as [p [G B]].
  unfold visit_quoted_atom. destruct (pm_get m x) as [px|] eqn:Gx; rewrite pm_get_put; destruct (N.eqb_spec a x) as [->|Hn];
    try (exists p; split; assumption); eexists; split; reflexivity.
Qed.
Lemma visit_quoted_atoms_bad l : forall m a, In a l ->
  exists p, pm_get (fold_left visit_quoted_atom l m) a = Some p /\ bad p = true.
Proof.
  induction l as [|x l IH]; intros m a I; [destruct I|]. cbn [fold_left]. destruct I as [->|I]; [|exact (IH _ a I)].
  apply visit_quoted_atoms_keep. unfold visit_quoted_atom.
  destruct (pm_get m a) as [pa|] eqn:Ga; rewrite pm_get_put, N.eqb_refl; eexists; split; reflexivity.
Qed.

Definition marked (m : pmap) (n : N) : Prop := exists p, pm_get m n = Some p /\ bad p = true.
Lemma marked_ext1 m m' n : ext1 m m' -> marked m n -> marked m' n.
Proof. intros E [p [G B]]. destruct (E n p G) as [p' [G' [B' _]]]. exists p'. auto. Qed.
Lemma marked_terms ks q : forall its m n, marked m n ->
  marked (fold_left (fun m it => visit_term ks m (fst it) (snd it) q) its m) n.
Proof.
  induction its as [|it its IH]; intros m n H; [exact H|]. cbn [fold_left]. apply IH.
  exact (marked_ext1 _ _ n (visit_term_ext1 ks m (fst it) (snd it) q) H).
Qed.
(* a marked node stays marked through the rest of the first loop and through the detection of cycles *)
Lemma marked_profiles ks q n : forall qs m, (In q qs /\ (forall m0, marked (visit_quad ks m0 q) n)) \/ marked m n ->
  marked (fold_left (visit_quad ks) qs m) n.
Proof.
  induction qs as [|q0 qs IH]; intros m H; cbn [fold_left].
  - destruct H as [[[] _]|H]; exact H.
  - apply IH. destruct H as [[[->|I] V]|H].
    + right. apply V.
    + left. auto.
    + right. exact (marked_ext1 _ _ n (proj2 (visit_quad_inv ks m q0)) H).
Qed.
Lemma marked_labelled ks quads n : marked (profiles ks quads) n -> In n (build_labelled ks quads).
Proof.
  intros [p [G B]]. apply build_labelled_spec.
  destruct (ext_some _ _ n p (ext_detect_cycles _ (profiles_unvisited ks quads)) G) as [p' [G' [_ [B' _]]]].
  exists p'. auto.
Qed.

(* RULE: a blank node used as a graph name is labelled *)
Theorem graph_name_labelled ks quads q g : In q quads -> q_g q = Some g -> kind_of ks g = TB -> In g (build_labelled ks quads).
Proof.
  intros I Eg K. apply marked_labelled. unfold profiles. apply (marked_profiles ks q g). left. split; [exact I|].
  intro m0. unfold visit_quad, spog. rewrite Eg, fold_left_app. cbn [fold_left fst snd].
  unfold visit_term at 1. rewrite K. apply visit_bnode_bad3.
Qed.
(* RULE: a blank node that occurs inside a quoted triple (subject, predicate, object or graph name of a quad) is labelled *)
Theorem quoted_atom_labelled ks quads q i t a : In q quads -> In (i, t) (spog q) ->
  (exists x y z, kind_of ks t = TT x y z) -> is_bnode ks a = true -> In a (atoms (S (length ks)) ks t) ->
  In a (build_labelled ks quads).
Proof.
  intros I It [x [y [z K]]] Ba Ia. apply marked_labelled. unfold profiles. apply (marked_profiles ks q a). left. split; [exact I|].
  intro m0. unfold visit_quad. apply in_split in It. destruct It as [l1 [l2 ->]].
  rewrite fold_left_app. cbn [fold_left fst snd]. apply marked_terms.
  unfold visit_term. rewrite K. apply visit_quoted_atoms_bad. apply filter_In. split; assumption.
Qed.
