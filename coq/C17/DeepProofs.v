(* C17/DeepProofs.v -- round 8: limits of parent steps vs depth of the base; histories of values. *)
From Sophia.C17 Require Import Model Proofs Deep.
Local Open Scope nat_scope.

(* ================= counting the inner slashes ================= *)
Lemma count_app a : forall t idx lo,
  count_slashes_from (a ++ t) idx lo = count_slashes_from a idx lo + count_slashes_from t (idx + length a) lo.
Proof.
  induction a as [|c a IH]; intros t idx lo; cbn [app count_slashes_from length].
  - rewrite Nat.add_0_r. reflexivity.
  - rewrite IH. replace (S idx + length a) with (idx + S (length a)) by lia. lia.
Qed.

Lemma count_no_slash t : no_slash t -> forall idx lo, count_slashes_from t idx lo = 0.
Proof.
  unfold no_slash. induction t as [|c t IH]; intros H idx lo; [reflexivity|]. cbn [count_slashes_from].
  simpl in H. apply andb_true_iff in H as [H1 H2]. apply negb_true_iff in H1. rewrite H1. cbn [andb].
  rewrite IH by exact H2. reflexivity.
Qed.

Lemma count_below a : forall idx lo, idx + length a <= lo -> count_slashes_from a idx lo = 0.
Proof.
  induction a as [|c a IH]; intros idx lo H; [reflexivity|]. cbn [count_slashes_from length] in *.
  destruct (Nat.leb_spec lo idx); [lia|]. rewrite andb_false_r. cbn [andb]. rewrite IH by lia. reflexivity.
Qed.

Lemma filter_last_out (f : nat -> bool) : forall L, L <> [] -> f (last L 0) = false ->
  length (filter f L) <= length L - 1.
Proof.
  induction L as [|x L IH]; intros Hne Hf; [contradiction|].
  destruct L as [|y L].
  - simpl in *. rewrite Hf. simpl. lia.
  - change (last (x :: y :: L) 0) with (last (y :: L) 0) in Hf.
    specialize (IH ltac:(discriminate) Hf). cbn [filter] in *. cbn [length] in *.
    destruct (f x); cbn [length]; lia.
Qed.

Lemma filter_length_le {A} (f : A -> bool) L : length (filter f L) <= length L.
Proof. induction L as [|x L IH]; simpl; [lia|]. destruct (f x); simpl; lia. Qed.

(* the loop of Relativizer::new skips no inner slash: either every inner slash at or after lo is among
   the collected ones, or the fuel ran out while the loop was still at or after lo *)
Lemma rel_loop_complete P lo : forall fuel k, k <= length P ->
  let L := rel_loop fuel P k in
  count_slashes_from (firstn k P) 0 lo <= length (filter (fun x => lo <=? x) L)
  \/ (length L = fuel /\ forall x, In x L -> lo <= x).
Proof.
  induction fuel as [|f IH]; intros k Hk; cbn zeta; cbn [rel_loop].
  - right. split; [reflexivity|]. intros x [].
  - destruct (rfind c_slash (firstn k P)) as [[|i]|] eqn:F.
    + left. destruct (rfind_decomp _ _ F) as (a & t & E & La & Ht & _). destruct a; [|discriminate].
      rewrite E. cbn [app count_slashes_from]. rewrite andb_false_r. rewrite count_no_slash by exact Ht. simpl. lia.
    + destruct (rfind_decomp _ _ F) as (a & t & E & La & Ht & Ea & _).
      pose proof (rfind_some _ _ F) as [Hlt _]. rewrite firstn_length in Hlt.
      rewrite firstn_firstn_le in Ea by lia.
      assert (Ec : count_slashes_from (firstn k P) 0 lo
                   = count_slashes_from (firstn (S i) P) 0 lo + (if lo <=? S i then 1 else 0)).
      { rewrite E, count_app. cbn [count_slashes_from]. rewrite (count_no_slash t Ht).
        rewrite <- Ea at 1. rewrite La. cbn [Nat.add]. unfold is_slash at 1. rewrite N.eqb_refl. cbn [andb].
        change (0 <? S i) with true. rewrite andb_true_r. lia. }
      destruct (Nat.leb_spec lo (S i)) as [Hlo|Hlo].
      * destruct (IH (S i) ltac:(lia)) as [H|[H1 H2]].
        -- left. cbn [filter]. destruct (Nat.leb_spec lo (S i)); [|lia]. cbn [length]. lia.
        -- right. split; [cbn [length]; lia|]. intros x [<-|Hx]; [exact Hlo|apply H2; exact Hx].
      * left. rewrite Ec. rewrite count_below by (rewrite firstn_length; lia). simpl. lia.
    + left. apply rfind_none in F. rewrite count_no_slash by exact F. lia.
Qed.

(* ================= a limit below the needed number of steps gives nothing ================= *)
Theorem relativize_beyond_reach b n i : n < steps_needed b i -> relativize b n i = Ret None.
Proof.
  unfold steps_needed, relativize. intros Hn.
  destruct (new b n) as [z|] eqn:Hnew; [|reflexivity].
  destruct (new_inv _ _ _ Hnew) as (p & Hpos & Hok & Hb & Hqe & Hpe & Hpb & Hha & Hsl).
  rewrite Hpos in Hn.
  pose proof (po_ae_pe _ _ Hok) as H1. pose proof (po_pe_qe _ _ Hok) as H2. pose proof (po_qe_len _ _ Hok) as H3.
  pose proof (new_path_end0 b p Hok) as Hlen.
  set (P := ox_path b p) in *. set (l := lcp b i) in *. set (lo := l - authority_end p) in *.
  assert (Hl : l < path_end p).
  { destruct (Nat.lt_ge_cases l (path_end p)) as [|Hge]; [assumption|].
    rewrite count_below in Hn by (unfold lo; lia). lia. }
  cbv zeta in Hsl. rewrite (slashes_rel b (authority_end p) (path_end p)) in Hsl by lia.
  change (slice (authority_end p) (path_end p) b) with P in Hsl.
  replace (path_end p - authority_end p) with (length P) in Hsl by lia.
  set (L := rel_loop (S n) P (length P)) in *.
  pose proof (rel_loop_length P (S n) (length P)) as HLlen. fold L in HLlen.
  rewrite map_length in Hsl.
  assert (Hpr : l < z_pseudoroot z).
  { pose proof (rel_loop_complete P lo (S n) (length P) (le_n _)) as HC. cbv zeta in HC. fold L in HC.
    rewrite firstn_all in HC.
    destruct HC as [HC|[HC1 HC2]].
    - destruct (Nat.ltb_spec n (length L)) as [Hnl|Hnl].
      + injection Hsl as _ Hp. rewrite Hp. rewrite last_nth, map_length, nth_map_add by lia.
        rewrite <- last_nth.
        destruct (Nat.lt_ge_cases l (last L 0 + authority_end p + 1)) as [|Hge]; [assumption|].
        assert (Hne : L <> []) by (destruct L; [simpl in Hnl; lia|discriminate]).
        assert (Hf : (fun x => lo <=? x) (last L 0) = false) by (apply Nat.leb_gt; unfold lo; lia).
        pose proof (filter_last_out _ L Hne Hf). lia.
      + pose proof (filter_length_le (fun x => lo <=? x) L). lia.
    - destruct (Nat.ltb_spec n (length L)) as [Hnl|Hnl]; [|lia].
      injection Hsl as _ Hp. rewrite Hp. rewrite last_nth, map_length, nth_map_add by lia.
      rewrite <- last_nth.
      assert (Hne : L <> []) by (destruct L; [simpl in Hnl; lia|discriminate]).
      pose proof (HC2 _ (last_in L 0 Hne)). unfold lo in *. lia. }
  unfold relativize_z. rewrite Hb, Hqe, Hpe. fold l.
  destruct (Nat.leb_spec (query_end p) l); [lia|].
  destruct (Nat.leb_spec (path_end p) l); [lia|].
  destruct (Nat.leb_spec (z_pseudoroot z) l); [lia|]. reflexivity.
Qed.

(* the harness-facing checker accepts what the model answers *)
Corollary reach_ok_model b i n : reach_ok b i n (fst (res_code (relativize b (N.to_nat n) i))) = true.
Proof.
  unfold reach_ok. destruct (Nat.ltb_spec (N.to_nat n) (steps_needed b i)) as [H|H]; [|reflexivity].
  rewrite (relativize_beyond_reach _ _ _ H). reflexivity.
Qed.
(* hence, with relativize_sound: a returned reference uses no more steps than needed ones are allowed *)
Corollary relativize_some_within_reach b n i r : relativize b n i = Ret (Some r) -> steps_needed b i <= n.
Proof.
  intros H. destruct (Nat.le_gt_cases (steps_needed b i) n) as [|Hlt]; [assumption|].
  rewrite (relativize_beyond_reach _ _ _ Hlt) in H. discriminate.
Qed.

(* ================= histories ================= *)
Lemma clone_z_id z : clone_z z = z.
Proof. destruct z; reflexivity. Qed.

(* a value is a function of the (base, limit) of the last source only, whatever was in it before *)
Theorem history_irrelevant : forall h z, state h = Some z -> new (fst (origin h)) (snd (origin h)) = Some z.
Proof.
  induction h as [b n|h IH|s IHs src IHsrc]; intros z H; cbn [state origin fst snd] in *.
  - exact H.
  - destruct (state h) as [z'|]; [|discriminate]. simpl in H. rewrite clone_z_id in H. injection H as <-.
    apply IH. reflexivity.
  - destruct (state s) as [zs|]; [|discriminate]. destruct (state src) as [z'|]; [|discriminate].
    unfold clone_from_z in H. rewrite clone_z_id in H. injection H as <-. apply IHsrc. reflexivity.
Qed.

Lemma new_defined b n : abs_iri b = true -> exists z, new b n = Some z.
Proof.
  unfold abs_iri. destruct (positions_of b) as [p|] eqn:E; [|discriminate]. intros _.
  apply (new_some b n p E).
Qed.

Lemma state_defined : forall h, hist_valid h = true -> exists z, state h = Some z.
Proof.
  induction h as [b n|h IH|s IHs src IHsrc]; cbn [hist_valid state]; intros H.
  - apply new_defined. exact H.
  - destruct (IH H) as [z ->]. eexists. reflexivity.
  - apply andb_true_iff in H as [Ha Hb]. destruct (IHs Ha) as [zs ->]. destruct (IHsrc Hb) as [z ->].
    eexists. reflexivity.
Qed.

Theorem relativize_hist_eq h iri : hist_valid h = true ->
  relativize_hist h iri = relativize (fst (origin h)) (snd (origin h)) iri.
Proof.
  intros Hv. destruct (state_defined h Hv) as [z Hz]. unfold relativize_hist, relativize.
  rewrite Hz, (history_irrelevant h z Hz). reflexivity.
Qed.

(* so the property holds for every value, whatever its history *)
Corollary relativize_hist_sound h iri r : hist_valid h = true -> relativize_hist h iri = Ret (Some r) ->
  resolve (fst (origin h)) r = Some iri /\ parents_of r <= snd (origin h).
Proof.
  intros Hv H. rewrite (relativize_hist_eq h iri Hv) in H. apply relativize_sound in H. exact H.
Qed.
