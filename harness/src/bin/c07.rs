//! C07: isomorphic_datasets on renamed/shuffled copies and on mutants, every pair of container
//! types, against the Coq model (C07/Model.v, run with an FNV stand-in for SipHash) and the
//! property oracle (no false negative, symmetry, false on blanked-statement differences).
//! Entry points: isomorphic_datasets on FALLIBLE datasets (errors injected at generated positions of either or both
//! arguments; the result, the error side/code and the number of items pulled from each argument are compared with
//! C07/EntryModel.v), isomorphic_graphs on fallible graphs and on graph views of datasets, and the model run with
//! exactly the number of rounds proved sufficient in C07/LoopProofs.v (iso_tight_ok).
//! TWIN stream (case ids >= TWIN_BASE, one for every 4 cases of the random stream): datasets containing groups of 2..4
//! statements that are identical once blank nodes are blanked out except for ONE ground atom at one position (language tag
//! in any case mix / datatype / lexical form / IRI / variable name / kind of term / presence and value of the graph name; as
//! subject, predicate, object or graph name, at depth 0..2 inside quoted triples; the rest of the statements ground or with
//! shared / per-twin blank nodes), compared in insertion-order-preserving containers (Vec on both sides) with the renamed
//! (and re-cased) copy enumerating each group in EVERY relative order, plus whole-list reversals and shuffles, the other
//! container types, the graph entry point, and mutants of one twin; C07/TwinModel.v checks the twin structure and the answers.
use sophia_api::prelude::*;
use sophia_api::source::StreamError::{SinkError, SourceError};
use std::cell::Cell;
use sophia_api::quad::Spog;
use sophia_api::term::SimpleTerm;
use sophia_inmem::dataset::{FastDataset, LightDataset};
use sophia_isomorphism::isomorphic_datasets;
use std::collections::{BTreeSet, HashSet};
use verif_harness::*;

type Q = Spog<ST>;

fn gen_ground(r: &mut Rng) -> ST {
    match r.below(6) {
        0 | 1 => iri(&format!("http://e/{}", r.ps(&["a", "b", "p", "q"]))),
        2 => lit_dt(r.ps(&["x", "y", ""]), &format!("{XSD}string")),
        3 => lit_lang(r.ps(&["x", "y"]), r.ps(&["en", "EN", "fr"])),
        4 => lit_dt(r.ps(&["1", "2"]), &format!("{XSD}integer")),
        _ => var(r.ps(&["v", "w"])),
    }
}
fn gen_term(r: &mut Rng, nb: usize, depth: usize) -> ST {
    match r.below(if depth > 0 { 8 } else { 7 }) {
        0..=3 => bnode(&format!("b{}", r.below(nb.max(1)))),
        4..=6 => gen_ground(r),
        // generalized RDF-star: the predicate of a quoted triple may be any term, in particular a blank node
        _ => { let p = if r.chance(1, 3) { gen_term(r, nb, 0) } else { iri(&format!("http://e/{}", r.ps(&["p", "q"]))) }; triple(gen_term(r, nb, depth - 1), p, gen_term(r, nb, depth - 1)) }
    }
}
/// number of ground atoms in a term (blank nodes are not ground)
fn n_ground(t: &ST) -> usize { match t { SimpleTerm::BlankNode(_) => 0, SimpleTerm::Triple(tr) => tr.iter().map(n_ground).sum(), _ => 1 } }
/// a minimally different ground atom: another language tag / datatype / lexical form / IRI / variable name
fn near_ground(t: &ST, r: &mut Rng) -> ST {
    match t {
        SimpleTerm::LiteralLanguage(l, tag) => match r.below(3) { 0 => lit_lang(l, if tag.as_str().eq_ignore_ascii_case("en") { "fr" } else { "en" }), 1 => lit_lang(l, &format!("{}-x", tag.as_str())), _ => lit_dt(l, &format!("{XSD}string")) },
        SimpleTerm::LiteralDatatype(l, d) => match r.below(3) { 0 => lit_dt(l, &format!("{}x", d.as_str())), 1 => lit_dt(&format!("{l}x"), d.as_str()), _ => lit_lang(l, "en") },
        SimpleTerm::Iri(i) => iri(&format!("{}x", i.as_str())),
        SimpleTerm::Variable(v) => var(&format!("{}x", v.as_str())),
        _ => t.clone(),
    }
}
/// replace the k-th ground atom (in left-to-right order, at any depth) by a near variant
fn mutate_ground(t: &ST, k: &mut usize, r: &mut Rng) -> ST {
    match t {
        SimpleTerm::BlankNode(_) => t.clone(),
        SimpleTerm::Triple(tr) => triple(mutate_ground(&tr[0], k, r), mutate_ground(&tr[1], k, r), mutate_ground(&tr[2], k, r)),
        _ => { if *k == 0 { *k = usize::MAX; near_ground(t, r) } else { if *k != usize::MAX { *k -= 1; } t.clone() } }
    }
}
fn gen_dataset(r: &mut Rng) -> Vec<Q> {
    let nb = r.range(1, 5);
    match r.below(11) {
        9 | 10 => { // blank nodes ONLY as graph names (no blank node in any subject / predicate / object), including the very same
            // triple in two graphs named by distinct blank nodes, one of which is also described elsewhere
            let ng = r.range(2, 3); let mut v: Vec<Q> = vec![];
            for i in 0..r.range(1, 4) { v.push(([iri("http://e/a"), iri(&format!("http://e/{}", r.ps(&["p", "q", "p1", "p2"]))), if r.chance(1, 2) { iri("http://e/b") } else { lit_lang("x", "en") }], Some(bnode(&format!("g{}", (i + r.below(2)) % ng))))); }
            if r.chance(1, 2) { let t = [iri("http://e/s"), iri("http://e/p"), iri("http://e/o")]; v.push((t.clone(), Some(bnode("g0")))); v.push((t, Some(bnode("g1")))); }
            if r.chance(1, 2) { v.push(([iri("http://e/about"), iri("http://e/q"), iri("http://e/c")], Some(bnode("g0")))); }
            if r.chance(1, 3) { v.push(([iri("http://e/a"), iri("http://e/p"), iri("http://e/b")], None)); }
            v }
        7 | 8 => { // statements sharing one quoted-triple skeleton, with DISTINCT blank nodes at one position of it (subject,
            // predicate or object, possibly one level deeper), and differing in a LATER position of the statement: a
            // blank-blind sort must order them by that later position whatever the labels are
            let n = r.range(2, 3); let j = r.below(3); let deep = r.chance(1, 3); let in_object = r.chance(1, 3);
            let sk = |b: ST, r: &mut Rng| -> ST { let mut parts = [iri("http://e/a"), iri("http://e/p"), lit_lang("x", "en")]; parts[j] = b; let t = triple(parts[0].clone(), parts[1].clone(), parts[2].clone()); if deep { let _ = r; triple(t, iri("http://e/q"), iri("http://e/b")) } else { t } };
            let mut v: Vec<Q> = vec![];
            for i in 0..n {
                let qt = sk(bnode(&format!("b{i}")), r); let later = iri(&format!("http://e/{}", ["a", "b", "c"][i]));
                if in_object { v.push(([iri("http://e/s"), iri("http://e/p"), qt], Some(later))); } else { v.push(([qt, iri("http://e/p"), later], None)); }
            }
            if r.chance(1, 2) { v.push(([bnode("b0"), iri("http://e/q"), bnode("b1")], None)); }
            v }
        0 => { // cycle
            let p = iri("http://e/p"); (0..nb).map(|i| ([bnode(&format!("b{i}")), p.clone(), bnode(&format!("b{}", (i + 1) % nb))], None)).collect() }
        1 => { // clique with blank graph name
            let p = iri("http://e/p"); let mut v = vec![]; for i in 0..nb { for j in 0..nb { if i != j { v.push(([bnode(&format!("b{i}")), p.clone(), bnode(&format!("b{j}"))], Some(bnode("g")))); } } } v }
        2 => { // two disjoint isomorphic components + star
            let p = iri("http://e/p"); let mut v = vec![];
            for c in 0..2 { for i in 0..nb { v.push(([bnode(&format!("c{c}n{i}")), p.clone(), bnode(&format!("c{c}n{}", (i + 1) % nb))], None)); } }
            for i in 0..nb { v.push(([bnode("hub"), iri("http://e/q"), bnode(&format!("c0n{i}"))], None)); } v }
        3 => { // quoted triples with blank nodes
            (0..r.range(1, 4)).map(|_| ([triple(bnode(&format!("b{}", r.below(nb))), iri("http://e/p"), gen_term(r, nb, 1)), iri("http://e/q"), gen_term(r, nb, 0)], if r.chance(1, 3) { Some(bnode(&format!("b{}", r.below(nb)))) } else { None })).collect() }
        5 => { let mut v: Vec<Q> = (0..r.range(1, 4)).map(|_| ([gen_ground(r), iri(&format!("http://e/{}", r.ps(&["p", "q"]))), gen_ground(r)], if r.chance(1, 2) { Some(iri("http://e/g")) } else { None })).collect(); v.push(([bnode("b0"), iri("http://e/p"), bnode("b1")], None)); v }
        _ => (0..r.range(1, 7)).map(|_| ([gen_term(r, nb, 1), if r.chance(1, 5) { gen_term(r, nb, 1) } else { iri(&format!("http://e/{}", r.ps(&["p", "q"]))) }, gen_term(r, nb, 2)], match r.below(4) { 0 => Some(gen_term(r, nb, 0)), _ => None })).collect(),
    }
}
fn rename_t(t: &ST, f: &dyn Fn(&str) -> String) -> ST {
    match t {
        SimpleTerm::BlankNode(b) => bnode(&f(b.as_str())),
        SimpleTerm::Triple(tr) => triple(rename_t(&tr[0], f), rename_t(&tr[1], f), rename_t(&tr[2], f)),
        _ => t.clone(),
    }
}
fn rename_q(q: &Q, f: &dyn Fn(&str) -> String) -> Q { ([rename_t(&q.0[0], f), rename_t(&q.0[1], f), rename_t(&q.0[2], f)], q.1.as_ref().map(|g| rename_t(g, f))) }
fn shuffle<T>(v: &mut Vec<T>, r: &mut Rng) { for i in (1..v.len()).rev() { let j = r.below(i + 1); v.swap(i, j); } }
fn blank_key(t: &ST) -> String { match t { SimpleTerm::BlankNode(_) => "_:".into(), SimpleTerm::Triple(tr) => format!("<<{} {} {}>>", blank_key(&tr[0]), blank_key(&tr[1]), blank_key(&tr[2])), SimpleTerm::LiteralLanguage(l, tag) => format!("{l:?}@{}", tag.as_str().to_ascii_lowercase()), _ => format!("{t:?}") } }
fn blank_qkey(q: &Q) -> String { format!("{} {} {} {}", blank_key(&q.0[0]), blank_key(&q.0[1]), blank_key(&q.0[2]), q.1.as_ref().map(blank_key).unwrap_or_default()) }
fn bnodes(t: &ST, out: &mut BTreeSet<String>) { match t { SimpleTerm::BlankNode(b) => { out.insert(b.as_str().to_string()); } SimpleTerm::Triple(tr) => { for x in tr.iter() { bnodes(x, out) } } _ => {} } }

fn iso_in(kind: usize, a: &[Q], b: &[Q]) -> bool {
    macro_rules! mk { ($ty:ty, $v:expr) => {{ let mut d = <$ty>::default(); for q in $v { d.insert_quad(q.clone()).unwrap(); } d }}; }
    match kind {
        0 => isomorphic_datasets(&a.to_vec(), &b.to_vec()).unwrap(),
        1 => isomorphic_datasets(&mk!(HashSet<Q>, a), &b.to_vec()).unwrap(),
        2 => isomorphic_datasets(&mk!(FastDataset, a), &mk!(LightDataset, b)).unwrap(),
        3 => isomorphic_datasets(&mk!(LightDataset, a), &mk!(HashSet<Q>, b)).unwrap(),
        _ => isomorphic_datasets(&mk!(BTreeSet<Q>, a), &mk!(FastDataset, b)).unwrap(),
    }
}
/// the GRAPH entry point: one graph of d1 seen through a filtered view of the whole dataset (its size hint is not exact)
/// against the stand-alone list of the triples of the same graph of d2; None when the graph name is a blank node
fn iso_graph_view(a: &[Q], b: &[Q], g: Option<&ST>) -> bool {
    use sophia_isomorphism::isomorphic_graphs;
    let av: Vec<Q> = a.to_vec();
    let bt: Vec<[ST; 3]> = b.iter().filter(|q| match (&q.1, g) { (None, None) => true, (Some(x), Some(y)) => Term::eq(x, y.borrow_term()), _ => false }).map(|q| q.0.clone()).collect();
    let view = av.graph(g.cloned());
    let r1 = isomorphic_graphs(&view, &bt).unwrap();
    let r2 = isomorphic_graphs(&bt, &view).unwrap();
    r1 && r2
}
/// a dataset / graph whose enumeration yields the recorded results (possibly errors) and counts the items it is asked for
struct FallibleDs { items: Vec<Result<Q, MyErr>>, pulled: Cell<usize> }
impl Dataset for FallibleDs {
    type Quad<'x> = Q;
    type Error = MyErr;
    fn quads(&self) -> impl Iterator<Item = Result<Self::Quad<'_>, Self::Error>> + '_ { self.items.iter().map(|x| { self.pulled.set(self.pulled.get() + 1); x.clone() }) }
}
struct FallibleGr { items: Vec<Result<[ST; 3], MyErr>>, pulled: Cell<usize> }
impl Graph for FallibleGr {
    type Triple<'x> = [ST; 3];
    type Error = MyErr;
    fn triples(&self) -> impl Iterator<Item = Result<Self::Triple<'_>, Self::Error>> + '_ { self.items.iter().map(|x| { self.pulled.set(self.pulled.get() + 1); x.clone() }) }
}
/// the items of `v` with 0 (`none_of_4` times out of 4), 1 or 2 errors inserted at generated positions (anywhere from before the
/// first item to after the last one); also returns (number of items before the first error, its code)
fn inject<T: Clone>(v: &[T], r: &mut Rng, none_of_4: usize) -> (Vec<Result<T, MyErr>>, Option<(usize, u64)>) {
    let mut items: Vec<Result<T, MyErr>> = v.iter().cloned().map(Ok).collect();
    let n_err = match r.below(4) { k if k < none_of_4 => 0, 3 => 2, _ => 1 };
    for _ in 0..n_err { let pos = r.below(items.len() + 1); let code = 1 + r.below(9) as u64; items.insert(pos, Err(MyErr(code))); }
    let first = items.iter().position(|x| x.is_err()).map(|p| (p, match &items[p] { Err(MyErr(c)) => *c, _ => 0 }));
    (items, first)
}
#[derive(Debug, Clone, Copy, PartialEq, Eq)]
enum Obs { Answer(bool), Source(u64), Sink(u64) }
impl Obs {
    fn of<T>(r: Result<bool, sophia_api::source::StreamError<MyErr, MyErr>>, _: T) -> Obs { match r { Ok(b) => Obs::Answer(b), Err(SourceError(MyErr(k))) => Obs::Source(k), Err(SinkError(MyErr(k))) => Obs::Sink(k) } }
    fn coq(&self) -> String { match self { Obs::Answer(b) => format!("(ROk {})", coq_bool(*b)), Obs::Source(k) => format!("(RErr (SourceError {k}))"), Obs::Sink(k) => format!("(RErr (SinkError {k}))") } }
}
/// what the documentation of the entry points promises: an error of the first argument wins and is a SourceError (the
/// second argument is then not read at all), otherwise the first error of the second one is a SinkError, otherwise the answer
fn expected_obs(f1: Option<(usize, u64)>, f2: Option<(usize, u64)>, len1: usize, len2: usize, answer: bool) -> (Obs, usize, usize) {
    match (f1, f2) { (Some((p, c)), _) => (Obs::Source(c), p + 1, 0), (None, Some((p, c))) => (Obs::Sink(c), len1, p + 1), (None, None) => (Obs::Answer(answer), len1, len2) }
}
fn c_items<T>(items: &[Result<T, MyErr>], f: &dyn Fn(&T) -> String) -> String { coq_list(items.iter().map(|x| match x { Ok(q) => format!("ROk {}", f(q)), Err(MyErr(c)) => format!("RErr {c}") })) }
fn c_trip(t: &[ST; 3]) -> String { format!("({}, {}, {})", coq_term(&t[0]), coq_term(&t[1]), coq_term(&t[2])) }
fn c_quad(q: &Q) -> String { format!("(mkQ {} {} {} {})", coq_term(&q.0[0]), coq_term(&q.0[1]), coq_term(&q.0[2]), coq_opt(q.1.as_ref().map(|g| coq_term(g)))) }
fn dedup(v: &[Q]) -> Vec<Q> { let mut out: Vec<Q> = vec![]; for q in v { if !out.iter().any(|x| Quad::eq(x, (q.0.each_ref(), q.1.as_ref()))) { out.push(q.clone()) } } out }

// ====================================================================================================================
// the TWIN stream
// ====================================================================================================================
const TWIN_BASE: usize = 1_000_000;
const RDF_LANGSTRING: &str = "http://www.w3.org/1999/02/22-rdf-syntax-ns#langString";

fn random_case(s: &str, r: &mut Rng) -> String { s.chars().map(|c| if r.chance(1, 2) { c.to_ascii_uppercase() } else { c.to_ascii_lowercase() }).collect() }
fn recase_t(t: &ST, r: &mut Rng) -> ST {
    match t {
        SimpleTerm::LiteralLanguage(l, tag) => lit_lang(l, &random_case(tag.as_str(), r)),
        SimpleTerm::Triple(tr) => triple(recase_t(&tr[0], r), recase_t(&tr[1], r), recase_t(&tr[2], r)),
        _ => t.clone(),
    }
}
fn recase_q(q: &Q, r: &mut Rng) -> Q { ([recase_t(&q.0[0], r), recase_t(&q.0[1], r), recase_t(&q.0[2], r)], q.1.as_ref().map(|g| recase_t(g, r))) }
fn q_eq(a: &Q, b: &Q) -> bool { Quad::eq(a, (b.0.each_ref(), b.1.as_ref())) }

/// a family of pairwise different (Term::eq) things that can stand at one position and differ minimally from each other;
/// None = "no graph name" (only for the family of graph names)
fn twin_family(r: &mut Rng) -> (&'static str, Vec<Option<ST>>) {
    let lex = r.ps(&["chat", "x", "", "a b"]).to_string();
    let some = |v: Vec<ST>| v.into_iter().map(Some).collect::<Vec<_>>();
    match r.below(12) {
        0..=2 => ("language-tag", some(["en", "fr", "en-GB", "en-US", "de", "fr-BE", "e", "enx", "f"].iter().map(|t| lit_lang(&lex, &random_case(t, r))).collect())),
        3 => ("language-tag-or-datatype", some(vec![lit_lang(&lex, &random_case("en", r)), lit_dt(&lex, &format!("{XSD}string")), lit_lang(&lex, &random_case("fr", r)),
                  lit_dt(&lex, &format!("{RDF_LANGSTRING}x")), lit_dt(&lex, &RDF_LANGSTRING[..RDF_LANGSTRING.len() - 1]), lit_dt(&lex, &RDF_LANGSTRING.to_ascii_lowercase()), lit_lang(&lex, &random_case("en-gb", r))])),
        4 => ("datatype", some(["string", "integer", "int", "Integer", "strin", "strinG", "string/", ""].iter().map(|d| lit_dt(&lex, &format!("{XSD}{d}"))).collect())),
        5 => { let tagged = r.chance(1, 2); let tag = random_case(r.ps(&["en", "fr-be"]), r);
               ("lexical-form", some(["chat", "chats", "cha", "", "Chat", "chat ", "chau", "ch\u{e2}t", "\u{1F408}"].iter().map(|l| if tagged { lit_lang(l, &tag) } else { lit_dt(l, &format!("{XSD}string")) }).collect())) }
        6 | 7 => ("iri", some(["http://e/a", "http://e/ab", "http://e/A", "http://e/a/", "http://e/", "http://e/a#", "http://e/b", "http://f/a", "a"].iter().map(|i| iri(i)).collect())),
        8 => ("variable", some(["v", "vv", "V", "w", "v1", "a"].iter().map(|v| var(v)).collect())),
        9 => ("kind-of-term", some(vec![iri("a"), lit_dt("a", &format!("{XSD}string")), lit_lang("a", "a"), var("a"), lit_dt("a", "a"), iri("en"), lit_lang("en", "en"), lit_dt("en", &format!("{XSD}string"))])),
        _ => ("graph-name", vec![None, Some(iri("http://e/g")), Some(iri("http://e/g2")), Some(iri("http://e/G")), Some(lit_lang("g", "en")), Some(lit_lang("g", "fr")), Some(lit_dt("g", &format!("{XSD}string"))), Some(var("g"))]),
    }
}
/// what stands at the other positions of the statements of a twin group
#[derive(Clone, Debug)]
enum Fill { Ground(ST), Shared(String), PerTwin(String), QShared(String, ST), QPerTwin(String, ST), QGround(ST, ST) }
impl Fill {
    fn term(&self, i: usize) -> ST {
        match self {
            Fill::Ground(t) => t.clone(), Fill::Shared(l) => bnode(l), Fill::PerTwin(p) => bnode(&format!("{p}{i}")),
            Fill::QShared(l, o) => triple(bnode(l), iri("http://e/p"), o.clone()),
            Fill::QPerTwin(p, o) => triple(o.clone(), iri("http://e/q"), bnode(&format!("{p}{i}"))),
            Fill::QGround(a, b) => triple(a.clone(), iri("http://e/p"), b.clone()),
        }
    }
    fn per_twin(&self) -> Option<&str> { match self { Fill::PerTwin(p) | Fill::QPerTwin(p, _) => Some(p), _ => None } }
}
/// `blanks`: 0 = ground only, 1 = ground or blank nodes shared by all the twins, 2 = also blank nodes of their own for each twin
fn gen_fill(r: &mut Rng, uniq: &str, blanks: usize, predicate: bool) -> Fill {
    if predicate && r.chance(3, 4) { return Fill::Ground(iri(&format!("http://e/{}", r.ps(&["p", "q"])))); }
    let k = match blanks { 0 => [0, 0, 0, 5][r.below(4)], 1 => r.pick(&[0, 1, 1, 3, 5]).clone(), _ => r.below(6) };
    match k {
        0 => Fill::Ground(gen_ground(r)), 1 => Fill::Shared(format!("b{}", r.below(2))), 2 => Fill::PerTwin(format!("t{uniq}x")),
        3 => Fill::QShared(format!("b{}", r.below(2)), gen_ground(r)), 4 => Fill::QPerTwin(format!("t{uniq}x"), gen_ground(r)),
        _ => Fill::QGround(gen_ground(r), gen_ground(r)),
    }
}
struct TwinGroup { family: &'static str, top: [Fill; 3], g: Option<Fill>, pos: usize, levels: Vec<([Fill; 3], usize)>, atoms: Vec<Option<ST>>, spare: Vec<Option<ST>> }
impl TwinGroup {
    fn build(&self, i: usize, atom: &Option<ST>) -> Q {
        let mut spo = [self.top[0].term(i), self.top[1].term(i), self.top[2].term(i)];
        let mut g = self.g.as_ref().map(|f| f.term(i));
        let nested = atom.as_ref().map(|a| { let mut t = a.clone(); for (sib, d) in self.levels.iter().rev() { let mut parts = [sib[0].term(i), sib[1].term(i), sib[2].term(i)]; parts[*d] = t; t = triple(parts[0].clone(), parts[1].clone(), parts[2].clone()); } t });
        if self.pos < 3 { spo[self.pos] = nested.unwrap(); } else { g = nested; }
        (spo, g)
    }
    fn twins(&self) -> Vec<Q> { (0..self.atoms.len()).map(|i| self.build(i, &self.atoms[i])).collect() }
    fn path(&self) -> String { format!("{}{}", ["subject", "predicate", "object", "graph name"][self.pos], self.levels.iter().map(|(_, d)| format!(" > {} of the quoted triple", ["subject", "predicate", "object"][*d])).collect::<String>()) }
    fn per_twin_prefixes(&self) -> Vec<String> { let mut v: Vec<String> = vec![]; for f in self.top.iter().chain(self.g.iter()).chain(self.levels.iter().flat_map(|(s, _)| s.iter())) { if let Some(p) = f.per_twin() { if !v.iter().any(|x| x == p) { v.push(p.to_string()); } } } v }
    /// Coq: the twins as (template, thing put at the position); the template holds a placeholder at the position
    fn coq(&self, d1: &str) -> String {
        let hole = Some(iri("hole"));
        let tw = coq_list((0..self.atoms.len()).map(|i| { let t = if self.pos == 3 && self.levels.is_empty() { self.build(i, &None) } else { self.build(i, &hole) }; format!("({}, {})", c_quad(&t), coq_opt(self.atoms[i].as_ref().map(|a| coq_term(a)))) }));
        format!("twin_ok {} {} {tw} {d1}", self.pos, coq_list(self.levels.iter().map(|(_, d)| d.to_string())))
    }
}
fn gen_twin_group(r: &mut Rng, gi: usize, max_k: usize) -> TwinGroup {
    let (family, mut pool) = twin_family(r);
    let graph_family = family == "graph-name";
    let blanks = r.below(3);
    let pos = if graph_family { 3 } else { *r.pick(&[0, 1, 2, 2, 2, 3]) };
    let depth = if graph_family { 0 } else { *r.pick(&[0, 0, 0, 1, 1, 2]) };
    let levels: Vec<([Fill; 3], usize)> = (0..depth).map(|l| { let d = r.below(3); ([gen_fill(r, &format!("{gi}l{l}s"), blanks, false), gen_fill(r, &format!("{gi}l{l}p"), blanks, true), gen_fill(r, &format!("{gi}l{l}o"), blanks, false)], d) }).collect();
    let top = [gen_fill(r, &format!("{gi}s"), blanks, false), gen_fill(r, &format!("{gi}p"), blanks, true), gen_fill(r, &format!("{gi}o"), blanks, false)];
    let g = if pos == 3 || r.chance(1, 3) { Some(if r.chance(1, 2) { Fill::Ground(iri("http://e/g")) } else { gen_fill(r, &format!("{gi}g"), blanks, false) }) } else { None };
    shuffle(&mut pool, r);
    let k = r.range(2, max_k).min(pool.len());
    let atoms: Vec<Option<ST>> = pool.drain(..k).collect();
    TwinGroup { family, top, g, pos, levels, atoms, spare: pool }
}
struct LazyText<'a>(&'a dyn Fn() -> String);
impl std::fmt::Display for LazyText<'_> { fn fmt(&self, f: &mut std::fmt::Formatter<'_>) -> std::fmt::Result { f.write_str(&(self.0)()) } }
/// all the permutations of 0..k, the identity first
fn all_perms(k: usize) -> Vec<Vec<usize>> {
    if k == 0 { return vec![vec![]]; }
    let mut out = vec![]; for p in all_perms(k - 1) { for at in (0..=p.len()).rev() { let mut q = p.clone(); q.insert(at, k - 1); out.push(q); } } out
}
fn all_bnodes(d: &[Q]) -> BTreeSet<String> { let mut s = BTreeSet::new(); for q in d { for t in q.0.iter() { bnodes(t, &mut s) } if let Some(g) = &q.1 { bnodes(g, &mut s) } } s }
fn sorted_keys(d: &[Q]) -> Vec<String> { let mut k: Vec<String> = d.iter().map(blank_qkey).collect(); k.sort(); k }

/// one case of the twin stream; returns the Coq body
fn twin_case(idx: usize, base: &Rng, verbose: bool, sum: &mut Summary, seen: &mut HashSet<String>) -> String {
    use sophia_isomorphism::isomorphic_graphs;
    let mut r = base.fork(idx as u64);
    // padding beyond the size up to which sort_unstable is an insertion sort (every 6th case; then a single group)
    let padded = r.chance(1, 6);
    let ground_context = r.chance(1, 4);
    let two = !padded && r.chance(1, 3);
    // ---- the first dataset: the twin groups first (tagged), then context statements, then everything shuffled
    let mut groups = vec![gen_twin_group(&mut r, 0, if two || padded { 3 } else { 4 })];
    let mut d1: Vec<Q> = groups[0].twins(); let mut tag: Vec<Option<(usize, usize)>> = (0..d1.len()).map(|i| Some((0, i))).collect();
    if two { let g2 = gen_twin_group(&mut r, 1, 3); let tw = g2.twins(); if !tw.iter().any(|q| d1.iter().any(|x| q_eq(x, q))) { for (i, q) in tw.into_iter().enumerate() { d1.push(q); tag.push(Some((1, i))); } groups.push(g2); } }
    let add = |d1: &mut Vec<Q>, tag: &mut Vec<Option<(usize, usize)>>, q: Q| { if !d1.iter().any(|x| q_eq(x, &q)) { d1.push(q); tag.push(None); } };
    // statements telling the per-twin blank nodes apart (half of the time): the refinement then has to pair the right twins
    for gi in 0..groups.len() { for p in groups[gi].per_twin_prefixes() { if r.chance(1, 2) { for i in 0..groups[gi].atoms.len() { if r.chance(3, 4) { add(&mut d1, &mut tag, ([bnode(&format!("{p}{i}")), iri("http://e/n"), lit_dt(&format!("{}", if r.chance(1, 4) { 0 } else { i }), &format!("{XSD}integer"))], None)); } } } } }
    for _ in 0..r.below(4) { let q: Q = if ground_context { ([gen_ground(&mut r), iri(&format!("http://e/{}", r.ps(&["p", "q"]))), gen_ground(&mut r)], match r.below(4) { 0 => Some(gen_ground(&mut r)), _ => None }) } else { ([gen_term(&mut r, 2, 1), iri(&format!("http://e/{}", r.ps(&["p", "q"]))), gen_term(&mut r, 2, 1)], match r.below(4) { 0 => Some(gen_term(&mut r, 2, 0)), _ => None }) }; add(&mut d1, &mut tag, q); }
    if padded { for j in 0..r.range(18, 40) { let q: Q = ([iri(&format!("http://e/pad{}", j % 7)), iri(&format!("http://e/{}", r.ps(&["p", "q"]))), if j % 3 == 0 && !ground_context { bnode(&format!("b{}", j % 2)) } else { lit_dt(&format!("{j}"), &format!("{XSD}integer")) }], if j % 5 == 0 { Some(iri("http://e/g")) } else { None }); add(&mut d1, &mut tag, q); } }
    { let mut both: Vec<(Q, Option<(usize, usize)>)> = d1.into_iter().zip(tag.into_iter()).collect(); shuffle(&mut both, &mut r); let (a, b): (Vec<_>, Vec<_>) = both.into_iter().unzip(); d1 = a; tag = b; }
    // ---- the copy: blank nodes renamed by a bijection, language tags in another case mix (half of the time), same order
    let labels: Vec<String> = all_bnodes(&d1).into_iter().collect();
    let mut perm = labels.clone(); if r.chance(1, 2) { shuffle(&mut perm, &mut r); } else { let sfx = format!("x{}", r.below(3)); perm = labels.iter().map(|l| format!("{l}{sfx}")).collect(); }
    let recased = r.chance(1, 2);
    let mut d2: Vec<Q> = d1.iter().map(|q| rename_q(q, &|b| perm[labels.iter().position(|l| l == b).unwrap()].clone())).collect();
    if recased { d2 = d2.iter().map(|q| recase_q(q, &mut r)).collect(); }
    let mut tag2 = tag.clone();
    // ---- mutants (every 4th case): the copy differs from the original in the twin group
    let mutant = match r.below(16) { 0 => 1, 1 => 2, 2 => 3, 3 => 4, _ => 0 };
    let mut_name = ["copy", "one-twin-gets-an-atom-outside-the-group", "one-twin-removed", "one-twin-gets-the-atom-of-another", "two-twins-exchange-their-atoms"][mutant];
    if mutant > 0 {
        let gi = r.below(groups.len()); let grp = &groups[gi]; let k = grp.atoms.len(); let i = r.below(k); let j = (i + 1 + r.below(k - 1)) % k;
        let at = |i: usize| tag2.iter().position(|t| *t == Some((gi, i))).unwrap();
        let redo = |i: usize, atom: &Option<ST>, r: &mut Rng| -> Q { let q = rename_q(&grp.build(i, atom), &|b| perm[labels.iter().position(|l| l == b).unwrap()].clone()); if recased { recase_q(&q, r) } else { q } };
        match mutant {
            1 => { if let Some(x) = grp.spare.first() { let p = at(i); d2[p] = redo(i, x, &mut r); } }
            2 => { let p = at(i); d2.remove(p); tag2.remove(p); }
            3 => { let p = at(i); d2[p] = redo(i, &grp.atoms[j], &mut r); }
            _ => { let (p, q) = (at(i), at(j)); d2[p] = redo(i, &grp.atoms[j], &mut r); d2[q] = redo(j, &grp.atoms[i], &mut r); }
        }
        // drop duplicates (keeping the tags of the survivors)
        let mut keep: Vec<Q> = vec![]; let mut keep_t = vec![]; for (q, t) in d2.iter().zip(tag2.iter()) { if !keep.iter().any(|x| q_eq(x, q)) { keep.push(q.clone()); keep_t.push(*t); } } d2 = keep; tag2 = keep_t;
    }
    // ---- what the property says about (d1, any enumeration order of d2)
    let (k1, k2) = (sorted_keys(&d1), sorted_keys(&d2)); let (nb1, nb2) = (all_bnodes(&d1).len(), all_bnodes(&d2).len());
    let must_be_false = k1 != k2 || nb1 != nb2 || d1.len() != d2.len();
    let expect_true = mutant == 0;
    assert!(!(expect_true && must_be_false), "twin stream generator: the copy is not a copy (case {idx})");
    // ---- every relative order of each twin group in the copy (the other statements stay where they are), then the whole
    // list reversed and two shuffles of it
    let gpos: Vec<Vec<usize>> = (0..groups.len()).map(|gi| (0..d2.len()).filter(|p| matches!(tag2[*p], Some((g, _)) if g == gi)).collect()).collect();
    let mut orders: Vec<(String, Vec<Q>)> = vec![];
    let p0 = all_perms(gpos[0].len()); let p1 = if groups.len() > 1 { all_perms(gpos[1].len()) } else { vec![vec![]] };
    // (two groups: every order of each group against the original order of the other one, and 6 random combinations)
    let mut combos: Vec<(Vec<usize>, Vec<usize>)> = vec![];
    if groups.len() == 1 { for a in &p0 { combos.push((a.clone(), vec![])); } } else { for a in &p0 { combos.push((a.clone(), p1[0].clone())); } for b in p1.iter().skip(1) { combos.push((p0[0].clone(), b.clone())); } for _ in 0..6 { combos.push((r.pick(&p0).clone(), r.pick(&p1).clone())); } }
    for (a, b) in &combos { { let mut v = d2.clone(); for (j, src) in a.iter().enumerate() { v[gpos[0][j]] = d2[gpos[0][*src]].clone(); } for (j, src) in b.iter().enumerate() { v[gpos[1][j]] = d2[gpos[1][*src]].clone(); } orders.push((format!("twins-in-order {a:?}{}", if groups.len() > 1 { format!(" x {b:?}") } else { String::new() }), v)); } }
    { let mut v = d2.clone(); v.reverse(); orders.push(("reversed".into(), v)); }
    for _ in 0..2 { let mut v = d2.clone(); shuffle(&mut v, &mut r); orders.push(("shuffled".into(), v)); }
    let what = format!("twin group(s) {}", groups.iter().map(|g| format!("[{} statements differing only in the {} at {}]", g.atoms.len(), g.family, g.path())).collect::<Vec<_>>().join(" and "));
    if verbose { println!("CASE {idx} (twin stream): {what}; second dataset = {mut_name}{}{}\nd1={d1:?}\nd2={d2:?}", if recased { ", language tags re-cased" } else { "" }, if padded { ", padded" } else { "" }); }
    let as_ds = |t: &[[ST; 3]]| -> Vec<Q> { t.iter().map(|x| (x.clone(), None)).collect() };
    let mut results: Vec<(bool, bool)> = vec![]; let mut suspicious: Vec<usize> = vec![];
    for (oi, (oname, v)) in orders.iter().enumerate() {
        let ans = isomorphic_datasets(&d1, v).unwrap(); let rev = isomorphic_datasets(v, &d1).unwrap();
        let text = LazyText(&|| format!("{what}; second dataset = {mut_name}, {oname}; both in Vec; d1={d1:?} d2={v:?}"));
        if verbose { println!("ORDER {oi} {oname}: IMPL {ans} (reverse {rev})"); }
        let before = sum.oracle_failures.len();
        if ans != rev { sum.oracle_failures.push((idx.to_string(), format!("not symmetric: iso(d1,d2)={ans} iso(d2,d1)={rev}; {text}"))); }
        if expect_true && !(ans && rev) { sum.oracle_failures.push((idx.to_string(), format!("false negative on a renamed copy that enumerates its statements in another order (iso(d1,d2)={ans} iso(d2,d1)={rev}); {text}"))); }
        if must_be_false && (ans || rev) { sum.oracle_failures.push((idx.to_string(), format!("answered true although the datasets differ in size, blank node count or a blanked statement; {text}"))); }
        if ans != results.first().map_or(ans, |x| x.0) { sum.oracle_failures.push((idx.to_string(), format!("the answer depends on the order in which the second dataset enumerates its statements: {} for the first order, {ans} for this one; {text}", results[0].0))); }
        // the graph entry point: default graphs and unions of all graphs (lists, duplicates kept) of the same two enumerations
        for union in [false, true] {
            if union && oi >= 4 { continue; }
            let tr = |d: &[Q]| -> Vec<[ST; 3]> { d.iter().filter(|q| union || q.1.is_none()).map(|q| q.0.clone()).collect() };
            let (t1, t2) = (tr(&d1), tr(v));
            let ga = isomorphic_graphs(&t1, &t2).unwrap(); let gr = isomorphic_graphs(&t2, &t1).unwrap();
            let gname = if union { "union of all graphs" } else { "default graph" };
            if ga != gr { sum.oracle_failures.push((idx.to_string(), format!("isomorphic_graphs not symmetric on the {gname}: {ga} vs {gr}; t1={t1:?} t2={t2:?}"))); }
            if expect_true && !ga { sum.oracle_failures.push((idx.to_string(), format!("false negative of isomorphic_graphs on the {gname} of a renamed copy that enumerates its statements in another order; {what}; t1={t1:?} t2={t2:?}"))); }
            if !union && oi < 4 { let da = isomorphic_datasets(&as_ds(&t1), &as_ds(&t2)).unwrap(); if ga != da { sum.oracle_failures.push((idx.to_string(), format!("isomorphic_graphs answers {ga} but isomorphic_datasets answers {da} on the same triples placed in the default graph; t1={t1:?} t2={t2:?}"))); } }
        }
        if sum.oracle_failures.len() > before { suspicious.push(oi); }
        results.push((ans, rev));
        sum.bump("twin-orders-evaluated");
    }
    // ---- the other pairs of container types on the first order (sets re-order and the stores re-index the statements)
    for kind in 1..5 { let ans = iso_in(kind, &d1, &orders[0].1); let rev = iso_in(kind, &orders[0].1, &d1);
        if verbose { println!("CONTAINERS#{kind}: IMPL {ans} (reverse {rev})"); }
        if ans != results[0].0 || rev != results[0].1 { sum.oracle_failures.push((idx.to_string(), format!("containers#{kind} answer {ans} (reverse {rev}) but two Vec answer {} (reverse {}) on the same statements; {what}; d1={d1:?} d2={:?}", results[0].0, results[0].1, orders[0].1))); } }
    let nontrivial = !must_be_false;
    if seen.insert(format!("{d1:?}{d2:?}")) && nontrivial { sum.distinct_nontrivial += 1; }
    sum.bump("twin-case"); for g in &groups { sum.bump(&format!("twin-family:{}", g.family)); sum.bump(&format!("twin-position:{}-depth{}", ["s", "p", "o", "g"][g.pos], g.levels.len())); sum.bump(&format!("twin-group-size:{}", g.atoms.len())); }
    sum.bump(&format!("twin-variant:{mut_name}")); if recased { sum.bump("twin-recased-copy"); } if padded { sum.bump("twin-padded-beyond-insertion-sort"); } if nb1 > 0 { sum.bump("twin-with-blank-nodes"); } else { sum.bump("twin-all-ground"); }
    sum.bump(&format!("twin-answer:{}", results[0].0));
    if sum.samples.len() < 6 && nontrivial && nb1 > 0 { sum.samples.push(format!("case {idx}: {what}; d1={d1:?} d2={d2:?} => {} in {} orders", results[0].0, orders.len())); }
    sum.evaluations += 1;
    // ---- Coq: the twin structure in the model; the answers for a sample of the orders: the first one (both argument orders), one
    // other relative order of the twins and the last shuffle (first argument order), and always, in both argument orders, those
    // on which an oracle fired or whose answer differs from the first one
    let n_twin_orders = orders.len() - 3;
    let mut pick: Vec<(usize, bool)> = vec![(0, true)]; if n_twin_orders > 1 { pick.push((1 + r.below(n_twin_orders - 1), false)); } pick.push((orders.len() - 1, false));
    for oi in 0..orders.len() { if suspicious.contains(&oi) || results[oi] != results[0] { pick.retain(|x| x.0 != oi); pick.push((oi, true)); } }
    pick.sort(); pick.dedup(); if pick.len() > 10 { pick.truncate(10); }
    let mut body = format!("let d1 := {} in ", coq_list(d1.iter().map(c_quad)));
    body.push_str(&groups.iter().map(|g| g.coq("d1")).collect::<Vec<_>>().join(" && "));
    body.push_str(&format!(" && orders_ok d1 {}", coq_list(pick.iter().map(|(oi, both)| format!("({}, {}, {})", coq_list(orders[*oi].1.iter().map(c_quad)), coq_bool(results[*oi].0), coq_opt(if *both { Some(coq_bool(results[*oi].1).to_string()) } else { None }))))));
    // the model enumerates every relative order of the first group itself (every 6th case, unpadded, group of at most 3, at most 6 blank nodes)
    if idx % 6 == 0 && !padded && gpos[0].len() <= 3 && nb1 <= 6 && results.iter().all(|x| *x == results[0] && x.0 == x.1) {
        let grp: Vec<Q> = gpos[0].iter().map(|p| d2[*p].clone()).collect(); let rest: Vec<Q> = (0..d2.len()).filter(|p| !gpos[0].contains(p)).map(|p| d2[p].clone()).collect();
        let cut = r.below(rest.len() + 1);
        body.push_str(&format!(" && all_orders_ok d1 {} {} {} {}", coq_list(rest[..cut].iter().map(c_quad)), coq_list(grp.iter().map(c_quad)), coq_list(rest[cut..].iter().map(c_quad)), coq_bool(results[0].0)));
        sum.bump("twin-model-enumerates-all-orders");
    }
    // the graph entry point of the model on the default graphs of the first order
    { let tr = |d: &[Q]| -> Vec<[ST; 3]> { d.iter().filter(|q| q.1.is_none()).map(|q| q.0.clone()).collect() }; let (t1, t2) = (tr(&d1), tr(&orders[0].1));
      let ga = isomorphic_graphs(&t1, &t2).unwrap();
      body.push_str(&format!(" && gr_ok {} {} (ROk {}) {} {}", coq_list(t1.iter().map(|t| format!("ROk {}", c_trip(t)))), coq_list(t2.iter().map(|t| format!("ROk {}", c_trip(t)))), coq_bool(ga), t1.len(), t2.len())); }
    body
}

fn main() {
    let a = parse_args();
    let mut sum = Summary::default();
    sum.rule = "case = (dataset shape: cycle / clique with blank graph name / disjoint isomorphic components + star / quoted triples containing blank nodes / random generalized quads; second dataset = renamed+shuffled copy, or a mutant: one ground term changed, one statement added or removed, two blank nodes merged, one split; pair of container types); \
non-trivial = at least 2 blank nodes and the pair passes the size and blanked-statement pre-checks (so the colour refinement decides); distinct = distinct printed pair; \
every case additionally runs the two entry points on fallible versions of the pair (0, 1 or 2 errors inserted at generated positions of each argument: result, error side and code, items pulled from each argument), isomorphic_graphs on the default graphs or the unions of all graphs, and on a graph view of the first dataset; \
TWIN stream (case ids from 1000000, one per 4 random cases): groups of 2..4 statements identical up to blank node labels except for ONE ground atom (language tag in any case mix, datatype, lexical form, IRI, variable, kind of term, graph name or its absence) at one position (s/p/o/g, depth 0..2 in quoted triples), the rest ground or with shared / per-twin blank nodes, Vec on both sides, the renamed (re-cased) copy enumerating each group in EVERY relative order + reversal + shuffles + the other containers + the graph entry point; mutants of one twin; non-trivial = passes the size / blank count / blanked-statement pre-checks".into();
    let base = Rng::new(a.seed);
    let mut cases = vec![]; let mut seen = HashSet::new();
    let range: Vec<usize> = match a.only { Some(i) if i >= TWIN_BASE => vec![], Some(i) => vec![i], None => (0..a.n).collect() };
    // the twin stream: one case for every 4 cases of the random stream, numbered from TWIN_BASE
    let twin_range: Vec<usize> = match a.only { Some(i) if i >= TWIN_BASE => vec![i], Some(_) => vec![], None => (0..(a.n / 4).max(1)).map(|j| TWIN_BASE + j).collect() };
    for idx in range {
        let mut r = base.fork(idx as u64);
        let d1 = dedup(&gen_dataset(&mut r));
        let mut d1 = d1;
        let variant = r.below(8);
        let suffix = format!("x{}", r.below(3));
        let mut d2: Vec<Q> = d1.iter().map(|q| rename_q(q, &|b| format!("{b}{suffix}"))).collect();
        // a genuine permutation of labels within the same label set, half of the time
        if r.chance(1, 2) { let mut s = BTreeSet::new(); for q in &d1 { for t in q.0.iter() { bnodes(t, &mut s) } if let Some(g) = &q.1 { bnodes(g, &mut s) } } let labels: Vec<String> = s.into_iter().collect(); let mut perm = labels.clone(); shuffle(&mut perm, &mut r); d2 = d1.iter().map(|q| rename_q(q, &|b| perm[labels.iter().position(|l| l == b).unwrap()].clone())).collect(); }
        let mut expect_true = true;
        match variant {
            0 | 1 => {}
            2 => { // one ground difference: a term in a random position, or the graph name (default <-> named)
                if !d2.is_empty() { let k = r.below(d2.len()); let q = &mut d2[k];
                    let total: usize = q.0.iter().map(n_ground).sum::<usize>() + q.1.as_ref().map_or(0, n_ground);
                    match r.below(8) {
                        // a minimal change of one ground atom anywhere in the statement (any position, any depth)
                        5..=7 if total > 0 => { let mut k = r.below(total); for i in 0..3 { q.0[i] = mutate_ground(&q.0[i].clone(), &mut k, &mut r); } if let Some(g) = q.1.clone() { q.1 = Some(mutate_ground(&g, &mut k, &mut r)); } }
                        0 => q.0[1] = iri("http://e/CHANGED"),
                        1 => q.0[0] = iri("http://e/CHANGED"),
                        2 => q.0[2] = lit_dt("CHANGED", &format!("{XSD}string")),
                        _ => q.1 = match &q.1 { None => Some(iri("http://e/g")), Some(_) => None },
                    }
                    expect_true = false; } }
            3 => { d2.push(([iri("http://e/extra"), iri("http://e/p"), bnode("fresh")], None)); expect_true = false; }
            6 | 7 => { // a minimal change of one ground atom in a statement that mentions NO blank node (nothing but the
                // pairwise comparison of the sorted statements can see it); such a statement is added if there is none
                let blank_free = |q: &Q| { let mut s = BTreeSet::new(); for t in q.0.iter() { bnodes(t, &mut s) } if let Some(g) = &q.1 { bnodes(g, &mut s) } s.is_empty() };
                if !d2.iter().any(|q| blank_free(q)) { let q: Q = ([gen_ground(&mut r), iri("http://e/p"), if r.chance(1, 2) { lit_lang("x", "en") } else { triple(gen_ground(&mut r), iri("http://e/p"), lit_lang("y", "fr")) }], if r.chance(1, 3) { Some(iri("http://e/g")) } else { None }); d1.push(q.clone()); d2.push(q); }
                let ks: Vec<usize> = (0..d2.len()).filter(|k| blank_free(&d2[*k])).collect(); let k = *r.pick(&ks); let q = &mut d2[k];
                let total: usize = q.0.iter().map(n_ground).sum::<usize>() + q.1.as_ref().map_or(0, n_ground);
                let mut at = r.below(total); for i in 0..3 { q.0[i] = mutate_ground(&q.0[i].clone(), &mut at, &mut r); } if let Some(g) = q.1.clone() { q.1 = Some(mutate_ground(&g, &mut at, &mut r)); }
                expect_true = false; }
            4 => { // merge two blank nodes
                let mut s = BTreeSet::new(); for q in &d2 { for t in q.0.iter() { bnodes(t, &mut s) } if let Some(g) = &q.1 { bnodes(g, &mut s) } }
                let l: Vec<String> = s.into_iter().collect();
                if l.len() >= 2 { let (x, y) = (l[0].clone(), l[1].clone()); d2 = dedup(&d2.iter().map(|q| rename_q(q, &|b| if b == y { x.clone() } else { b.to_string() })).collect::<Vec<_>>()); expect_true = false; } }
            5 => { // split: one occurrence of a blank node becomes a fresh node
                if let Some(q) = d2.iter_mut().find(|q| q.0[0].is_blank_node()) { q.0[0] = bnode("splitoff"); expect_true = false; } }
            _ => {}
        }
        d2 = dedup(&d2);
        shuffle(&mut d2, &mut r);
        let kind = r.below(5);
        let ans = iso_in(kind, &d1, &d2);
        let rev = iso_in(kind, &d2, &d1);
        let text = format!("containers#{kind} d1={:?} d2={:?}", d1, d2);
        if a.only.is_some() { println!("CASE {idx}: variant {variant} {text}\nIMPL {ans} (reverse {rev})"); }
        if ans != rev { sum.oracle_failures.push((idx.to_string(), format!("not symmetric: iso(d1,d2)={ans} iso(d2,d1)={rev}; {text}"))); }
        if expect_true && !ans { sum.oracle_failures.push((idx.to_string(), format!("false negative on a renamed and reordered copy; {text}"))); }
        if expect_true {
            // every ground-named graph of the copy, through the graph entry point and a dataset view
            let mut names: Vec<Option<ST>> = vec![None]; for q in &d1 { if let Some(g) = &q.1 { if !g.is_blank_node() && !g.is_triple() && !names.iter().any(|n| n.as_ref() == Some(g)) { names.push(Some(g.clone())); } } }
            for g in names { if !iso_graph_view(&d1, &d2, g.as_ref()) { sum.oracle_failures.push((idx.to_string(), format!("false negative of isomorphic_graphs on the graph {g:?} of a renamed and reordered copy (one side is a view of the dataset, the other a stand-alone list); {text}"))); } sum.bump("graph-entry-point"); }
        }
        // must be false when sizes, blank node counts or blanked statements differ
        let mut k1: Vec<String> = d1.iter().map(blank_qkey).collect(); k1.sort(); let mut k2: Vec<String> = d2.iter().map(blank_qkey).collect(); k2.sort();
        let (mut b1, mut b2) = (BTreeSet::new(), BTreeSet::new());
        for q in &d1 { for t in q.0.iter() { bnodes(t, &mut b1) } if let Some(g) = &q.1 { bnodes(g, &mut b1) } }
        for q in &d2 { for t in q.0.iter() { bnodes(t, &mut b2) } if let Some(g) = &q.1 { bnodes(g, &mut b2) } }
        let must_be_false = k1 != k2 || b1.len() != b2.len();
        if must_be_false && ans { sum.oracle_failures.push((idx.to_string(), format!("answered true although the datasets differ in size, blank node count or a blanked statement; {text}"))); }
        let nontrivial = b1.len() >= 2 && !must_be_false;
        if seen.insert(text.clone()) && nontrivial { sum.distinct_nontrivial += 1; }
        sum.bump(&format!("variant:{}", ["copy", "copy", "ground-term-changed", "statement-added", "blank-merged", "blank-split", "ground-atom-changed-in-blank-free-statement", "ground-atom-changed-in-blank-free-statement"][variant])); sum.bump(&format!("answer:{ans}")); sum.bump(&format!("containers:{kind}"));
        if sum.samples.len() < 4 && nontrivial { sum.samples.push(format!("case {idx}: {text} => {ans}")); }
        sum.evaluations += 1;
        let mut body = format!("let d1 := {} in let d2 := {} in iso_ok d1 d2 {}", coq_list(d1.iter().map(c_quad)), coq_list(d2.iter().map(c_quad)), coq_bool(ans));
        // the model with exactly the number of rounds proved sufficient (every 16th case: checking the condition costs 4 * #blank nodes rounds per side)
        if idx % 16 == 0 { body.push_str(&format!(" && iso_tight_ok d1 d2 {}", coq_bool(ans))); sum.bump("tight-fuel-run"); }

        // ---- the dataset entry point on fallible datasets: errors at generated positions of either or both arguments
        {
            let (it1, f1) = inject(&d1, &mut r, 1); let (it2, f2) = inject(&d2, &mut r, 1);
            let fd1 = FallibleDs { items: it1, pulled: Cell::new(0) }; let fd2 = FallibleDs { items: it2, pulled: Cell::new(0) };
            let obs = Obs::of(isomorphic_datasets(&fd1, &fd2), ()); let (p1, p2) = (fd1.pulled.get(), fd2.pulled.get());
            let exp = expected_obs(f1, f2, d1.len(), d2.len(), ans);
            if a.only.is_some() { println!("FALLIBLE DATASETS items1={:?} items2={:?}\nIMPL {obs:?} pulled {p1} / {p2} (expected {exp:?})", fd1.items, fd2.items); }
            if (obs, p1, p2) != exp { sum.oracle_failures.push((idx.to_string(), format!("isomorphic_datasets on fallible datasets: observed {obs:?} after pulling {p1} items of the first and {p2} of the second argument, expected {exp:?} (an error of the first argument wins as SourceError and the second one is not read; otherwise the first error of the second one as SinkError; otherwise the answer on the same statements); items1={:?} items2={:?}", fd1.items, fd2.items))); }
            sum.bump(&format!("fallible-datasets:{}", match (f1.is_some(), f2.is_some()) { (true, true) => "both-fail", (true, false) => "first-fails", (false, true) => "second-fails", _ => "no-error" }));
            body.push_str(&format!(" && ds_ok {} {} {} {p1} {p2}", c_items(&fd1.items, &|q| c_quad(q)), c_items(&fd2.items, &|q| c_quad(q)), obs.coq()));
        }
        // ---- the graph entry point: the default graphs, or the unions of all graphs (duplicates kept: these are lists), as
        // fallible graphs; and the graph entry point must agree with the dataset one on the statements (s, p, o, default)
        {
            let union = r.chance(1, 2);
            let tr = |d: &[Q]| -> Vec<[ST; 3]> { d.iter().filter(|q| union || q.1.is_none()).map(|q| q.0.clone()).collect() };
            let (t1, t2) = (tr(&d1), tr(&d2));
            let as_ds = |t: &[[ST; 3]]| -> Vec<Q> { t.iter().map(|x| (x.clone(), None)).collect() };
            let ga = sophia_isomorphism::isomorphic_graphs(&t1, &t2).unwrap();
            let da = isomorphic_datasets(&as_ds(&t1), &as_ds(&t2)).unwrap();
            if ga != da { sum.oracle_failures.push((idx.to_string(), format!("isomorphic_graphs answers {ga} but isomorphic_datasets answers {da} on the same triples placed in the default graph; t1={t1:?} t2={t2:?}"))); }
            if expect_true && !ga { sum.oracle_failures.push((idx.to_string(), format!("false negative of isomorphic_graphs on the {} of a renamed and reordered copy; t1={t1:?} t2={t2:?}", if union { "union of all graphs" } else { "default graph" }))); }
            let (it1, f1) = inject(&t1, &mut r, 2); let (it2, f2) = inject(&t2, &mut r, 2);
            let fg1 = FallibleGr { items: it1, pulled: Cell::new(0) }; let fg2 = FallibleGr { items: it2, pulled: Cell::new(0) };
            let obs = Obs::of(sophia_isomorphism::isomorphic_graphs(&fg1, &fg2), ()); let (p1, p2) = (fg1.pulled.get(), fg2.pulled.get());
            let exp = expected_obs(f1, f2, t1.len(), t2.len(), ga);
            if a.only.is_some() { println!("FALLIBLE GRAPHS ({}) items1={:?} items2={:?}\nIMPL {obs:?} pulled {p1} / {p2} (expected {exp:?})", if union { "union" } else { "default graph" }, fg1.items, fg2.items); }
            if (obs, p1, p2) != exp { sum.oracle_failures.push((idx.to_string(), format!("isomorphic_graphs on fallible graphs: observed {obs:?} after pulling {p1} / {p2} items, expected {exp:?}; items1={:?} items2={:?}", fg1.items, fg2.items))); }
            sum.bump(&format!("fallible-graphs:{}", match (f1.is_some(), f2.is_some()) { (true, true) => "both-fail", (true, false) => "first-fails", (false, true) => "second-fails", _ => "no-error" }));
            body.push_str(&format!(" && gr_ok {} {} {} {p1} {p2}", c_items(&fg1.items, &|t| c_trip(t)), c_items(&fg2.items, &|t| c_trip(t)), obs.coq()));
        }
        // ---- one graph of d1 (any name that occurs, blank ones included, or the default graph) through Dataset::graph, against
        // the stand-alone list of the triples of the graph of the same name of d2 (every 2nd case)
        if idx % 2 == 1 {
            let mut names: Vec<Option<ST>> = vec![None]; for q in &d1 { if let Some(g) = &q.1 { if !names.iter().any(|n| n.as_ref() == Some(g)) { names.push(Some(g.clone())); } } }
            let g = r.pick(&names).clone();
            let bt: Vec<[ST; 3]> = d2.iter().filter(|q| match (&q.1, &g) { (None, None) => true, (Some(x), Some(y)) => Term::eq(x, y.borrow_term()), _ => false }).map(|q| q.0.clone()).collect();
            let view = d1.graph(g.clone());
            let r1 = sophia_isomorphism::isomorphic_graphs(&view, &bt).unwrap(); let r2 = sophia_isomorphism::isomorphic_graphs(&bt, &view).unwrap();
            if a.only.is_some() { println!("GRAPH VIEW {g:?} of d1 against {bt:?}\nIMPL {r1} (reverse {r2})"); }
            if r1 != r2 { sum.oracle_failures.push((idx.to_string(), format!("isomorphic_graphs not symmetric on the view of graph {g:?}: {r1} vs {r2}; {text}"))); }
            sum.bump("graph-view-case");
            body.push_str(&format!(" && view_ok {} d1 {} {}", coq_opt(g.as_ref().map(|x| coq_term(x))), coq_list(bt.iter().map(c_trip)), coq_bool(r1)));
        }
        cases.push((idx, body));
    }
    for idx in twin_range { let body = twin_case(idx, &base, a.only.is_some(), &mut sum, &mut seen); cases.push((idx, body)); }
    if a.only.is_none() {
        sum.shards = write_shards(&a.out, "From Sophia.C07 Require Import Model LoopModel EntryModel TwinModel.", &cases, a.shards);
        std::fs::write(format!("{}/summary.json", a.out), sum.to_json()).unwrap();
    }
    println!("c07: {} cases, {} distinct non-trivial, {} oracle failures", sum.evaluations, sum.distinct_nontrivial, sum.oracle_failures.len());
}
