(* C05/Relabel1.v -- hash_n_degree_quads (hnd of Model.v) is equivariant under an injective renaming
   of the blank node labels: the run on the renamed state mirrors the run on the original one.
   Stdlib only, closed under the global context. *)
From Sophia.C05 Require Import Model Heap Reader NqProofs Ties FirstDegree Bijection Invariance.
From Coq Require Import Permutation.

Definition rn (pi : str -> str) (i : issuer) : issuer := map (pf pi) i.
Definition rmap {A B} (f : A -> B) (r : res A) : res B :=
  match r with Ok a => Ok (f a) | Err e => Err e end.
Definition rn_res (pi : str -> str) (r : str * issuer) : str * issuer := (fst r, rn pi (snd r)).
Definition rn_acc (pi : str -> str) (a : str * option issuer) : str * option issuer :=
  (fst a, option_map (rn pi) (snd a)).
Definition rn_pr (pi : str -> str) (x : issuer * str) : issuer * str := (rn pi (fst x), snd x).
Definition hmap (pi : str -> str) (hn : list (str * list str)) : list (str * list str) :=
  map (pl_map pi) hn.
Definition rnc (pi : str -> str) (c : N * term) : N * term := (fst c, rename_t pi (snd c)).

Section Equivariance.
Variable H : str -> str.
Variable pi : str -> str.
Variable B : list str.
Hypothesis Hinj : inj_on pi B.

Lemma map_fst_rn i : map fst (rn pi i) = map pi (map fst i).
Proof. unfold rn. rewrite !map_map. reflexivity. Qed.

Lemma str_eqb_pi a b : In a B -> In b B -> str_eqb (pi a) (pi b) = str_eqb a b.
Proof.
  intros Ha Hb. destruct (str_eqb_spec a b) as [->|Hn]; [apply str_eqb_refl|].
  destruct (str_eqb_spec (pi a) (pi b)) as [E|_]; [|reflexivity].
  exfalso. apply Hn. apply Hinj; assumption.
Qed.

Lemma iss_get_rn i b : incl (map fst i) B -> In b B -> iss_get (rn pi i) (pi b) = iss_get i b.
Proof. intros Hi Hb. apply (iss_get_rename pi B Hinj i b Hi Hb). Qed.

Lemma issue3_rn pfx i b : incl (map fst i) B -> In b B ->
  issue pfx (rn pi i) (pi b) = let '(i', id, new) := issue pfx i b in (rn pi i', id, new).
Proof.
  intros Hi Hb. unfold issue. rewrite (iss_get_rn i b Hi Hb).
  destruct (iss_get i b); [reflexivity|].
  unfold rn. rewrite map_length, map_app. reflexivity.
Qed.

Lemma issue_rn pfx i b : incl (map fst i) B -> In b B ->
  issue_ pfx (rn pi i) (pi b) = rn pi (issue_ pfx i b).
Proof. intros Hi Hb. apply (issue_rename pfx pi B i b Hinj Hi Hb). Qed.

Lemma issue_fst pfx i b : fst (fst (issue pfx i b)) = issue_ pfx i b.
Proof. reflexivity. Qed.

(* ---------- the correspondence between the two states ---------- *)
Record corr (st1 st2 : state) : Prop := mkCorr {
  c_b2q : forall b, In b B ->
    bt_get (st_b2q st2) (pi b) = option_map (map (rename_q pi)) (bt_get (st_b2q st1) b);
  c_len : length (st_b2q st2) = length (st_b2q st1);
  c_b2h : forall b, In b B -> bt_get (st_b2h st2) (pi b) = bt_get (st_b2h st1) b;
  c_canon : st_canon st2 = rn pi (st_canon st1);
  c_canon_in : incl (map fst (st_canon st1)) B;
  c_df : st_df1000 st2 = st_df1000 st1;
  c_pl : st_plimit st2 = st_plimit st1;
  c_prune : st_prune st2 = st_prune st1;
  c_closed : closed B st1
}.

Lemma corr_with_canon st1 st2 c : corr st1 st2 -> incl (map fst c) B ->
  corr (with_canon st1 c) (with_canon st2 (rn pi c)).
Proof.
  intros [A1 A2 A3 A4 A5 A6 A7 A8 A9] Hc.
  constructor; cbn [with_canon st_b2q st_b2h st_canon st_df1000 st_plimit st_prune]; auto.
Qed.

(* ---------- hash_related_bnode ---------- *)
Lemma q_pred_rename q : q_pred (rename_q pi q) = rename_t pi (q_pred q).
Proof. destruct q as [[[s p] o] g]. reflexivity. Qed.

Lemma hash_related_rn st1 st2 b q iss pos :
  corr st1 st2 -> In b B -> incl (map fst iss) B ->
  hash_related H st2 (pi b) (rename_q pi q) (rn pi iss) pos = hash_related H st1 b q iss pos.
Proof.
  intros C Hb Hi. unfold hash_related.
  rewrite q_pred_rename, (c_canon _ _ C).
  rewrite (iss_get_rn _ b (c_canon_in _ _ C) Hb), (iss_get_rn iss b Hi Hb), (c_b2h _ _ C b Hb).
  destruct (q_pred q); reflexivity.
Qed.

(* ---------- the map Hn ---------- *)
Lemma comps_rename q : comps (rename_q pi q) = map (rnc pi) (comps q).
Proof. destruct q as [[[s p] o] [g|]]; reflexivity. Qed.

Lemma bnode_id_rename c : bnode_id (rename_t pi c) = option_map pi (bnode_id c).
Proof. destruct c; reflexivity. Qed.

Lemma bt_push_hmap h b hn : bt_push h (pi b) (hmap pi hn) = hmap pi (bt_push h b hn).
Proof.
  unfold hmap. induction hn as [|[k vs] hn IH]; cbn [map bt_push]; [reflexivity|].
  unfold pl_map at 1. cbn [fst snd].
  destruct (str_cmp h k); cbn [map]; unfold pl_map at 2; cbn [fst snd].
  - rewrite map_app. reflexivity.
  - reflexivity.
  - f_equal. exact IH.
Qed.

Lemma hn_comps_rn st1 st2 ident iss q :
  corr st1 st2 -> In ident B -> incl (map fst iss) B ->
  forall cs hn, incl (flat_map comp_label cs) B ->
  hn_comps H st2 (pi ident) (rn pi iss) (rename_q pi q) (map (rnc pi) cs) (hmap pi hn)
  = rmap (hmap pi) (hn_comps H st1 ident iss q cs hn).
Proof.
  intros C Hid Hi. induction cs as [|[pos c] cs IH]; intros hn Hcs; cbn [map hn_comps rnc fst snd].
  - reflexivity.
  - cbn [flat_map] in Hcs. apply incl_app_inv in Hcs as [Hc Hcs].
    rewrite bnode_id_rename. unfold comp_label in Hc. cbn [snd] in Hc.
    destruct (bnode_id c) as [b|]; cbn [option_map]; [|apply IH; exact Hcs].
    assert (Hb : In b B) by (apply Hc; left; reflexivity).
    rewrite (str_eqb_pi b ident Hb Hid).
    destruct (str_eqb b ident); [apply IH; exact Hcs|].
    rewrite (hash_related_rn st1 st2 b q iss pos C Hb Hi).
    destruct (hash_related H st1 b q iss pos) as [h|e]; [|reflexivity].
    rewrite bt_push_hmap. apply IH; exact Hcs.
Qed.

Lemma hn_quads_rn st1 st2 ident iss :
  corr st1 st2 -> In ident B -> incl (map fst iss) B ->
  forall qs hn, incl (bnodes qs) B ->
  hn_quads H st2 (pi ident) (rn pi iss) (map (rename_q pi) qs) (hmap pi hn)
  = rmap (hmap pi) (hn_quads H st1 ident iss qs hn).
Proof.
  intros C Hid Hi. induction qs as [|q qs IH]; intros hn Hqs; cbn [map hn_quads].
  - reflexivity.
  - unfold bnodes in Hqs. cbn [flat_map] in Hqs. apply incl_app_inv in Hqs as [Hq Hqs].
    rewrite comps_rename.
    rewrite (hn_comps_rn st1 st2 ident iss q C Hid Hi (comps q) hn Hq).
    destruct (hn_comps H st1 ident iss q (comps q) hn) as [hn1|e]; cbn [rmap]; [|reflexivity].
    apply IH. exact Hqs.
Qed.

(* ---------- one permutation ---------- *)
Lemma perm_ids_rn canon : incl (map fst canon) B ->
  forall p ic path rl, incl p B -> incl (map fst ic) B ->
  perm_ids (rn pi canon) (rn pi ic) path (map pi rl) (map pi p) =
  let '(ic', path', rl') := perm_ids canon ic path rl p in (rn pi ic', path', map pi rl').
Proof.
  intros Hc. induction p as [|r p IH]; intros ic path rl Hp Hi; cbn [map perm_ids].
  - reflexivity.
  - assert (Hr : In r B) by (apply Hp; left; reflexivity).
    assert (Hp' : incl p B) by (intros x Hx; apply Hp; right; exact Hx).
    rewrite (iss_get_rn canon r Hc Hr).
    destruct (iss_get canon r) as [cid|]; [apply IH; assumption|].
    rewrite (issue3_rn s_b ic r Hi Hr).
    pose proof (issue_fst s_b ic r) as Ef.
    destruct (issue s_b ic r) as [[ic1 id] new]. cbn [fst] in Ef.
    assert (Hi1 : incl (map fst ic1) B) by (rewrite Ef; apply issue_incl; assumption).
    replace (if new then map pi rl ++ [pi r] else map pi rl)
      with (map pi (if new then rl ++ [r] else rl))
      by (destruct new; [rewrite map_app; reflexivity|reflexivity]).
    apply IH; assumption.
Qed.

Definition rec_corr (rec1 rec2 : str -> issuer -> N -> res (str * issuer)) : Prop :=
  forall r ic dp, In r B -> incl (map fst ic) B ->
    rec2 (pi r) (rn pi ic) dp = rmap (rn_res pi) (rec1 r ic dp).

Section Body.
Variables rec1 rec2 : str -> issuer -> N -> res (str * issuer).
Variables st1 st2 : state.
Hypothesis Hrc : rec_corr rec1 rec2.
Hypothesis Hrok : rec_ok B rec1.
Hypothesis C : corr st1 st2.

Lemma perm_rec_rn chosen depth : forall rl ic path, incl rl B -> incl (map fst ic) B ->
  perm_rec rec2 st2 chosen depth (rn pi ic) path (map pi rl)
  = rmap (option_map (rn_pr pi)) (perm_rec rec1 st1 chosen depth ic path rl).
Proof.
  induction rl as [|r rl IH]; intros ic path Hrl Hi; cbn [map perm_rec].
  - reflexivity.
  - assert (Hr : In r B) by (apply Hrl; left; reflexivity).
    assert (Hrl' : incl rl B) by (intros x Hx; apply Hrl; right; exact Hx).
    rewrite (Hrc r ic (depth + 1) Hr Hi).
    destruct (rec1 r ic (depth + 1)) as [[h ic2]|e] eqn:Er; cbn [rmap rn_res fst snd]; [|reflexivity].
    rewrite (issue3_rn s_b ic r Hi Hr).
    destruct (issue s_b ic r) as [[ic1 id] new].
    rewrite (c_prune _ _ C).
    match goal with |- context [if ?c then _ else _] => destruct c end; [reflexivity|].
    apply IH; [exact Hrl'|]. eapply Hrok; eauto.
Qed.

Lemma one_perm_rn base depth chosen ci p : incl (map fst base) B -> incl p B ->
  one_perm rec2 st2 (rn pi base) depth (chosen, option_map (rn pi) ci) (map pi p)
  = rmap (rn_acc pi) (one_perm rec1 st1 base depth (chosen, ci) p).
Proof.
  intros Hb Hp. unfold one_perm. rewrite (c_canon _ _ C), (c_prune _ _ C).
  pose proof (perm_ids_rn (st_canon st1) (c_canon_in _ _ C) p base [] [] Hp Hb) as X.
  cbn [map] in X. rewrite X. clear X.
  destruct (perm_ids (st_canon st1) base [] [] p) as [[ic path] rl] eqn:Ep.
  apply (perm_ids_labels B) in Ep as [Hic Hrl]; [|exact Hp|exact Hb].
  specialize (Hrl (fun x (F : In x []) => match F with end)).
  match goal with |- context [if ?c then _ else _] => destruct c end; [reflexivity|].
  rewrite (perm_rec_rn chosen depth rl ic path Hrl Hic).
  destruct (perm_rec rec1 st1 chosen depth ic path rl) as [[[ic' path']|]|e];
    cbn [rmap option_map rn_pr fst snd]; try reflexivity.
  destruct (is_nil chosen || str_ltb path' chosen); reflexivity.
Qed.

Lemma all_perms_rn base depth : incl (map fst base) B ->
  forall ps chosen ci, (forall p, In p ps -> incl p B) ->
  all_perms rec2 st2 (rn pi base) depth (chosen, option_map (rn pi) ci) (map (map pi) ps)
  = rmap (rn_acc pi) (all_perms rec1 st1 base depth (chosen, ci) ps).
Proof.
  intros Hb. induction ps as [|p ps IH]; intros chosen ci Hps; cbn [map all_perms].
  - reflexivity.
  - rewrite (one_perm_rn base depth chosen ci p Hb (Hps p (or_introl eq_refl))).
    destruct (one_perm rec1 st1 base depth (chosen, ci) p) as [[c' ci']|e];
      cbn [rmap rn_acc fst snd]; [|reflexivity].
    apply IH. intros p0 H0. apply Hps. right; exact H0.
Qed.

Lemma hn_groups_rn (iss : issuer) depth : incl (map fst iss) B ->
  forall hn (data : str) (ret : option issuer),
  hn_ok B hn -> (forall r, ret = Some r -> incl (map fst r) B) ->
  hn_groups rec2 st2 (rn pi iss) depth data (option_map (rn pi) ret) (hmap pi hn)
  = rmap (rn_acc pi) (hn_groups rec1 st1 iss depth data ret hn).
Proof.
  intros Hi. induction hn as [|[rh bl] hn IH]; intros data ret Hok Hret;
    cbn [hmap map hn_groups pl_map fst snd].
  - reflexivity.
  - fold (hmap pi hn).
    assert (Hbl : incl bl B) by (eapply Hok; left; reflexivity).
    assert (Hok' : hn_ok B hn) by (intros k bl0 H0; eapply Hok; right; exact H0).
    rewrite (c_pl _ _ C), map_length.
    match goal with |- context [if ?c then _ else _] => destruct c end; [reflexivity|].
    match goal with |- context [all_perms rec1 st1 ?b depth _ _] => set (base := b) in * end.
    match goal with |- context [all_perms rec2 st2 ?b2 depth _ _] =>
      replace b2 with (rn pi base) by (subst base; destruct ret; reflexivity) end.
    assert (Hbase : incl (map fst base) B).
    { subst base. destruct ret as [r|]; [apply Hret; reflexivity|exact Hi]. }
    rewrite heap_perms_map.
    assert (Hps : forall p, In p (heap_perms bl) -> incl p B).
    { intros p Hp. eapply heap_perms_incl; [exact Hbl|exact Hp]. }
    pose proof (all_perms_rn base depth Hbase (heap_perms bl) [] None Hps) as X.
    cbn [option_map] in X. unfold str in X |- *. rewrite X. clear X.
    match goal with |- context [all_perms rec1 st1 base depth ?a ?b] =>
      destruct (all_perms rec1 st1 base depth a b) as [[chosen ci]|e] eqn:Ea end;
      cbn [rmap rn_acc fst snd]; [|reflexivity].
    apply IH; [exact Hok'|].
    eapply (all_perms_ok B) in Ea; [|exact Hrok|exact Hbase|exact Hps|intros i0 E0; discriminate].
    intros r Er. apply Ea. exact Er.
Qed.

Lemma hnd_body_rn ident (iss : issuer) depth : In ident B -> incl (map fst iss) B ->
  hnd_body H rec2 st2 (pi ident) (rn pi iss) depth
  = rmap (rn_res pi) (hnd_body H rec1 st1 ident iss depth).
Proof.
  intros Hid Hi. unfold hnd_body. rewrite (c_df _ _ C), (c_len _ _ C).
  match goal with |- context [if ?c then _ else _] => destruct c end; [reflexivity|].
  rewrite (c_b2q _ _ C ident Hid).
  destruct (bt_get (st_b2q st1) ident) as [qs|] eqn:Eg; cbn [option_map]; [|reflexivity].
  apply bt_get_Some_In in Eg.
  assert (Hqs : incl (bnodes qs) B).
  { intros x Hx. unfold bnodes in Hx. apply in_flat_map in Hx as [q [Hq Hx]].
    exact (c_closed _ _ C ident qs q Eg Hq x Hx). }
  pose proof (hn_quads_rn st1 st2 ident iss C Hid Hi qs [] Hqs) as X.
  cbn [hmap map] in X. rewrite X. clear X.
  destruct (hn_quads H st1 ident iss qs []) as [hn|e] eqn:Eq; cbn [rmap]; [|reflexivity].
  apply (hn_quads_ok H B) in Eq;
    [|intros q Hq; exact (c_closed _ _ C ident qs q Eg Hq)|intros k bl []].
  pose proof (hn_groups_rn iss depth Hi hn [] (@None issuer) Eq (fun r E => ltac:(discriminate))) as X.
  cbn [option_map] in X. rewrite X. clear X.
  match goal with |- context [hn_groups rec1 st1 iss depth ?a ?b hn] =>
    destruct (hn_groups rec1 st1 iss depth a b hn) as [[data ret]|e] end;
    cbn [rmap rn_acc rn_res fst snd]; [|reflexivity].
  destruct ret; reflexivity.
Qed.
End Body.

Theorem hnd_rn : forall fuel st1 st2 ident iss depth,
  corr st1 st2 -> In ident B -> incl (map fst iss) B ->
  hnd H fuel st2 (pi ident) (rn pi iss) depth = rmap (rn_res pi) (hnd H fuel st1 ident iss depth).
Proof.
  induction fuel as [|f IH]; intros st1 st2 ident iss depth C Hid Hi; cbn [hnd]; [reflexivity|].
  apply hnd_body_rn; [| |exact C|exact Hid|exact Hi].
  - intros r ic dp Hr Hic. apply IH; assumption.
  - intros r ic dp h ic' Hic Er. eapply hnd_labels; [exact (c_closed _ _ C)|exact Hic|exact Er].
Qed.
End Equivariance.

