//! Shared by c05.rs and c06.rs: dataset generator, recording hash function, driver of the real
//! sophia_c14n crate, and an INDEPENDENT transcription of W3C RDFC-1.0 (sections 4.4-4.8 and the
//! canonical N-Quads form) used as property oracle.
#![allow(dead_code)]
use sophia_api::dataset::{DResult, MutableDataset, SetDataset};
use sophia_api::prelude::*;
use sophia_api::quad::{Gspo, Spog};
use sophia_api::term::{SimpleTerm, TermKind};
use sophia_c14n::C14nError;
use sophia_c14n::hash::{HashFunction, Sha256, Sha384};
use sophia_c14n::rdfc10::{normalize, normalize_sha384, normalize_with, relabel, relabel_sha384, relabel_with};
use sophia_inmem::dataset::{FastDataset, LightDataset};
use std::cell::RefCell;
use std::collections::{BTreeMap, BTreeSet, HashSet};
use verif_harness::*;

pub type Q = Spog<ST>;

// ---------------------------------------------------------------- recording hash function
thread_local! {
    /// every (concatenated input, digest) pair seen since the last `take_table`
    static TABLE: RefCell<BTreeMap<Vec<u8>, Vec<u8>>> = RefCell::new(BTreeMap::new());
    /// number of digests computed by the recording hash function (a deterministic measure of the work of a run)
    static DIGESTS: std::cell::Cell<u64> = std::cell::Cell::new(0);
}
pub fn digests() -> u64 {
    DIGESTS.with(|c| c.get())
}
pub struct Rec<I: HashFunction> {
    inner: I,
    buf: Vec<u8>,
}
impl<I: HashFunction> HashFunction for Rec<I> {
    type Output = I::Output;
    fn initialize() -> Self {
        Rec { inner: I::initialize(), buf: vec![] }
    }
    fn update(&mut self, data: impl AsRef<[u8]>) {
        self.buf.extend_from_slice(data.as_ref());
        self.inner.update(data);
    }
    fn finalize(self) -> Self::Output {
        let out = self.inner.finalize();
        DIGESTS.with(|c| c.set(c.get() + 1));
        TABLE.with(|t| t.borrow_mut().insert(self.buf, out.as_ref().to_vec()));
        out
    }
}
pub fn take_table() -> BTreeMap<Vec<u8>, Vec<u8>> {
    TABLE.with(|t| std::mem::take(&mut *t.borrow_mut()))
}
pub fn hex(b: &[u8]) -> String {
    b.iter().map(|x| format!("{x:02x}")).collect()
}
/// the table as a Coq association list (input code points, hexadecimal digest code points)
pub fn coq_table(t: &BTreeMap<Vec<u8>, Vec<u8>>) -> String {
    coq_list(t.iter().map(|(k, v)| format!("({}, {})", pstr(std::str::from_utf8(k).expect("hash input is a string")), pstr(&hex(v)))))
}

// ---------------------------------------------------------------- terms
pub fn to_st<T: Term>(t: T) -> ST {
    match t.kind() {
        TermKind::Iri => iri(t.iri().unwrap().as_str()),
        TermKind::BlankNode => bnode(t.bnode_id().unwrap().as_str()),
        TermKind::Literal => match t.language_tag() {
            Some(tag) => lit_lang(&t.lexical_form().unwrap(), tag.as_str()),
            None => lit_dt(&t.lexical_form().unwrap(), t.datatype().unwrap().as_str()),
        },
        TermKind::Variable => var(t.variable().unwrap().as_str()),
        TermKind::Triple => {
            let [s, p, o] = t.triple().unwrap();
            triple(to_st(s), to_st(p), to_st(o))
        }
    }
}
/// a string packed three code points per 63-bit integer literal (Model.v `U`), 0x1FFFFF = padding
pub fn pstr(s: &str) -> String {
    let cps: Vec<u64> = s.chars().map(|c| c as u64).collect();
    let mut ws = vec![];
    for ch in cps.chunks(3) {
        let g = |i: usize| ch.get(i).copied().unwrap_or(0x1F_FFFF);
        ws.push((g(0) | (g(1) << 21) | (g(2) << 42)).to_string());
    }
    format!("(U [{}]%uint63)", ws.join(";"))
}
pub fn c_term(t: &ST) -> String {
    match t {
        SimpleTerm::Iri(i) => format!("(Iri {})", pstr(i.as_str())),
        SimpleTerm::BlankNode(b) => format!("(Bnode {})", pstr(b.as_str())),
        SimpleTerm::LiteralDatatype(l, dt) => format!("(LitDt {} {})", pstr(l), pstr(dt.as_str())),
        SimpleTerm::LiteralLanguage(l, tag) => format!("(LitLang {} {})", pstr(l), pstr(tag.as_str())),
        SimpleTerm::Triple(tr) => format!("(Triple {} {} {})", c_term(&tr[0]), c_term(&tr[1]), c_term(&tr[2])),
        SimpleTerm::Variable(v) => format!("(Var {})", pstr(v.as_str())),
    }
}
pub fn c_quad(q: &Q) -> String {
    format!("({}, {}, {}, {})", c_term(&q.0[0]), c_term(&q.0[1]), c_term(&q.0[2]), coq_opt(q.1.as_ref().map(|g| c_term(g))))
}
pub fn c_quads(d: &[Q]) -> String {
    coq_list(d.iter().map(c_quad))
}
pub fn show_t(t: &ST) -> String {
    match t {
        SimpleTerm::Iri(i) => format!("<{}>", i.as_str()),
        SimpleTerm::BlankNode(b) => format!("_:{}", b.as_str()),
        SimpleTerm::LiteralDatatype(l, dt) => format!("{:?}^^<{}>", &l[..], dt.as_str()),
        SimpleTerm::LiteralLanguage(l, tag) => format!("{:?}@{}", &l[..], tag.as_str()),
        SimpleTerm::Triple(tr) => format!("<< {} {} {} >>", show_t(&tr[0]), show_t(&tr[1]), show_t(&tr[2])),
        SimpleTerm::Variable(v) => format!("?{}", v.as_str()),
    }
}
pub fn show_q(q: &Q) -> String {
    format!("{} {} {} {}.", show_t(&q.0[0]), show_t(&q.0[1]), show_t(&q.0[2]), q.1.as_ref().map(|g| show_t(g) + " ").unwrap_or_default())
}
pub fn show_d(d: &[Q]) -> String {
    d.iter().map(show_q).collect::<Vec<_>>().join(" ")
}
pub fn blabel(t: &ST) -> Option<String> {
    match t {
        SimpleTerm::BlankNode(b) => Some(b.as_str().to_string()),
        _ => None,
    }
}
/// blank node labels of the components of a quad, in s, p, o, g order, with repetitions
pub fn q_blanks(q: &Q) -> Vec<String> {
    q.0.iter().chain(q.1.iter()).filter_map(blabel).collect()
}
pub fn d_blanks(d: &[Q]) -> BTreeSet<String> {
    d.iter().flat_map(q_blanks).collect()
}
pub fn rename_t(t: &ST, f: &dyn Fn(&str) -> String) -> ST {
    match t {
        SimpleTerm::BlankNode(b) => bnode(&f(b.as_str())),
        _ => t.clone(),
    }
}
pub fn rename_q(q: &Q, f: &dyn Fn(&str) -> String) -> Q {
    ([rename_t(&q.0[0], f), rename_t(&q.0[1], f), rename_t(&q.0[2], f)], q.1.as_ref().map(|g| rename_t(g, f)))
}
pub fn shuffle<T>(v: &mut Vec<T>, r: &mut Rng) {
    for i in (1..v.len()).rev() {
        let j = r.below(i + 1);
        v.swap(i, j);
    }
}
pub fn dedup(v: &[Q]) -> Vec<Q> {
    let mut out: Vec<Q> = vec![];
    for q in v {
        if !out.iter().any(|x| Quad::eq(x, (q.0.each_ref(), q.1.as_ref()))) {
            out.push(q.clone())
        }
    }
    out
}
pub fn is_supported(d: &[Q]) -> bool {
    d.iter().all(|q| !q.0[1].is_blank_node() && q.0.iter().chain(q.1.iter()).all(|t| !t.is_triple() && !t.is_variable()))
}

// ---------------------------------------------------------------- generator
const P: &str = "http://e/p";
const PQ: &str = "http://e/q";
fn b(i: usize) -> ST {
    bnode(&format!("e{i}"))
}
fn e(s: ST, p: &str, o: ST) -> Q {
    ([s, iri(p), o], None)
}
fn eg(s: ST, p: &str, o: ST, g: ST) -> Q {
    ([s, iri(p), o], Some(g))
}
/// literals exercising every escape-relevant character of canonical N-Quads
pub fn gen_literal(r: &mut Rng) -> ST {
    let specials: Vec<char> = vec!['"', '\\', '\n', '\r', '\t', '\u{8}', '\u{c}', '\u{7f}', '\u{0}', '\u{1}', '\u{b}', '\u{e}', '\u{1f}', ' ', '\u{80}', '\u{e9}', '\u{20ac}', '\u{1f600}', '\u{fffe}', 'u', '<', '>', '.', '@', '^', '_', ':', 'a'];
    let n = r.below(5);
    let mut s = String::new();
    for _ in 0..n {
        if r.chance(1, 12) {
            s.push(char::from_u32(r.below(0x20) as u32).unwrap());
        } else {
            s.push(*r.pick(&specials));
        }
    }
    match r.below(5) {
        0 | 1 => lit_dt(&s, &format!("{XSD}string")),
        2 => lit_lang(&s, r.ps(&["en", "EN", "fr-BE"])),
        3 => lit_dt(&s, &format!("{XSD}integer")),
        _ => lit_dt(&s, "http://e/dt"),
    }
}
fn ground(r: &mut Rng) -> ST {
    match r.below(4) {
        0 => iri("http://e/a"),
        1 => iri("http://e/b"),
        2 => lit_dt("lit", &format!("{XSD}string")),
        _ => gen_literal(r),
    }
}
pub const SHAPES: [&str; 18] = ["cycle", "clique", "components", "star", "bipartite", "blank-graph", "twice-in-quad", "three-blank-quad", "row28-witness", "literals", "random", "unsupported", "path-tree", "b9-b10", "b9-b10-witness", "twins", "multi-edge", "multi-pred"];
/// the shapes added after the first seeding rounds (near-identical quads; parallel edges)
pub const NEW_SHAPES: [usize; 2] = [15, 16];
/// added after round 6: sibling nodes, each related to one and the same other node through several quads that
/// differ by their PREDICATE (and / or graph name, direction)
pub const MULTI_PRED: usize = 17;
/// one link quad between a sibling `n` and its child `x`: (kind, predicate, graph name);
/// kind 0: n p x g . kind 1: x p n g . kind 2: n p "0" x (the child is the graph name) . kind 3: x p "0" n
pub type Link = (usize, usize, usize);
const LINK_PREDS: [&str; 3] = [P, PQ, "http://e/p0"];
fn link_quad(l: Link, n: &ST, x: &ST) -> Q {
    let graphs = [None, Some(iri(G1)), Some(iri(G2))];
    let zero = lit_dt("0", &format!("{XSD}integer"));
    match l.0 {
        0 => ([n.clone(), iri(LINK_PREDS[l.1]), x.clone()], graphs[l.2].clone()),
        1 => ([x.clone(), iri(LINK_PREDS[l.1]), n.clone()], graphs[l.2].clone()),
        2 => ([n.clone(), iri(LINK_PREDS[l.1]), zero], Some(x.clone())),
        _ => ([x.clone(), iri(LINK_PREDS[l.1]), zero], Some(n.clone())),
    }
}
/// a pattern of 2..=max distinct links between a node and ONE other node.  Classes: two (or three) predicates in
/// the same position and graph; the same with different graphs; one predicate in both directions; different
/// predicates in both directions; the other node as graph name under different predicates; any mixture
pub fn link_pattern(r: &mut Rng, max: usize) -> Vec<Link> {
    let (pa, g) = (r.below(3), r.below(3));
    let pb = (pa + 1 + r.below(2)) % 3;
    let pc = 3 - pa - pb;
    let dir = r.below(2);
    let mut v: Vec<Link> = match r.below(12) {
        0..=3 => vec![(dir, pa, g), (dir, pb, g)],
        4 => vec![(dir, pa, g), (dir, pb, g), (dir, pc, g)],
        5 => vec![(dir, pa, g), (dir, pb, (g + 1) % 3)],
        6 => vec![(dir, pa, g), (dir, pb, g), (dir, pa, (g + 1) % 3)],
        7 => vec![(0, pa, g), (1, pa, g)],
        8 => vec![(0, pa, g), (1, pb, g), (dir, pb, g)],
        9 => vec![(2 + dir, pa, 0), (2 + dir, pb, 0)],
        10 => vec![(dir, pa, g), (dir, pb, g), (2 + r.below(2), r.below(3), 0)],
        _ => (0..r.range(2, 3)).map(|_| (r.below(4), r.below(3), r.below(3))).collect(),
    };
    while v.len() < max && r.chance(1, 4) { v.push((r.below(4), r.below(3), r.below(3))); }
    // kinds 2 and 3 have no graph choice
    for l in v.iter_mut() { if l.0 >= 2 { l.2 = 0; } }
    let mut out: Vec<Link> = vec![];
    for l in v { if !out.contains(&l) { out.push(l); } }
    if out.len() < 2 { out.push(((out[0].0 + 0) % 4, (out[0].1 + 1) % 3, out[0].2)); }
    out
}
const G1: &str = "http://e/g";
const G2: &str = "http://e/g2";
/// terms that are easily confused with each other at one position of a quad: equal lexical forms under different
/// datatypes / language tags, lexical forms and IRIs that are prefixes of each other, datatypes around xsd:string,
/// graph name present / absent / blank
fn twin_family(r: &mut Rng, pos: usize) -> Vec<Option<ST>> {
    let some = |v: Vec<ST>| v.into_iter().map(Some).collect::<Vec<_>>();
    let iris = |v: &[&str]| v.iter().map(|i| iri(i)).collect::<Vec<ST>>();
    match pos {
        0 => { let mut v = iris(&["http://e/a", "http://e/a9", "http://e/a/", "http://e/a#", "http://e/A", "http://e/a%20", "http://e/b"]); v.extend([b(0), b(1), b(2)]); some(v) }
        1 => some(iris(&[P, PQ, "http://e/p2", "http://e/p/", "http://e/P", "http://e/"])),
        2 => {
            let lf = r.ps(&["1", "", "a", "1.0", "x\"y", "\u{e9}", "01", "a\nb"]);
            let x = |n: &str| format!("{XSD}{n}");
            let mut v = vec![lit_dt(lf, &x("string")), lit_dt(lf, &x("integer")), lit_dt(lf, &x("decimal")), lit_dt(lf, &x("double")), lit_dt(lf, "http://e/dt"), lit_dt(lf, "tag:dt"),
                lit_dt(lf, &x("strin")), lit_dt(lf, &x("string2")), lit_dt(lf, &x("String")), lit_lang(lf, "en"), lit_lang(lf, "en-US"), lit_lang(lf, "fr"),
                lit_dt(&format!("{lf} "), &x("string")), lit_dt(&format!("{lf}0"), &x("integer")), lit_dt(&format!("{lf}\u{0}"), &x("integer"))];
            if r.chance(1, 2) { v.extend([iri("http://e/a"), iri("http://e/a9"), b(1), b(2)]); }
            some(v)
        }
        _ => { let mut v = some(iris(&[G1, G2, "http://e/a", "http://e/g/", "http://e/G"])); v.extend([None, None, Some(b(0)), Some(b(2)), Some(bnode("g"))]); v }
    }
}
/// a dataset of one of the shapes; at most 6 blank nodes
pub fn gen_dataset(r: &mut Rng, shape: usize, big: bool) -> Vec<Q> {
    let mut v: Vec<Q> = vec![];
    match SHAPES[shape] {
        "cycle" => {
            let n = r.range(2, 6);
            for i in 0..n {
                v.push(e(b(i), P, b((i + 1) % n)));
            }
            if r.chance(1, 3) && n < 6 {
                v.push(e(b(r.below(n)), PQ, b(n)));
            }
            if r.chance(1, 4) {
                v.push(e(b(r.below(n)), PQ, ground(r)));
            }
        }
        "clique" => {
            let n = r.range(2, if big { 5 } else { 4 });
            let g = if r.chance(1, 3) { Some(bnode("g")) } else { None };
            for i in 0..n {
                for j in 0..n {
                    if i != j {
                        v.push(([b(i), iri(P), b(j)], g.clone()));
                    }
                }
            }
        }
        "components" => {
            let k = r.range(2, 3);
            let cyc = r.chance(1, 2);
            for c in 0..2 {
                for i in 0..k {
                    if cyc || i + 1 < k {
                        v.push(e(b(c * k + i), P, b(c * k + (i + 1) % k)));
                    }
                }
            }
            if r.chance(1, 3) {
                v.push(e(iri("http://e/a"), PQ, b(0)));
            }
        }
        "star" => {
            let k = r.range(2, if big { 5 } else { 4 });
            for i in 1..=k {
                if r.chance(1, 2) {
                    v.push(e(b(0), P, b(i)));
                } else {
                    v.push(e(b(i), P, b(0)));
                }
            }
            if r.chance(1, 3) {
                v.push(e(b(1), PQ, ground(r)));
            }
        }
        "bipartite" => {
            let (m, n) = (r.range(1, 3), r.range(1, 3));
            for i in 0..m {
                for j in 0..n {
                    v.push(e(b(i), P, b(m + j)));
                }
            }
        }
        "blank-graph" => {
            let n = r.range(1, 4);
            for i in 0..n {
                let g = bnode(&format!("g{}", r.below(2)));
                match r.below(3) {
                    0 => v.push(eg(b(i), P, b((i + 1) % n), g)),
                    1 => v.push(eg(iri("http://e/a"), P, b(i), g)),
                    _ => v.push(eg(b(i), P, ground(r), g)),
                }
            }
        }
        "twice-in-quad" => {
            // DESIGN.md section 4 row 27: one blank node in two positions of the same quad
            let n = r.range(1, 4);
            for _ in 0..r.range(1, 3) {
                let x = b(r.below(n));
                match r.below(4) {
                    0 => v.push(e(x.clone(), P, x)),
                    1 => v.push(eg(x.clone(), P, b(r.below(n)), x)),
                    2 => v.push(eg(b(r.below(n)), P, x.clone(), x)),
                    _ => v.push(eg(x.clone(), P, x.clone(), x)),
                }
            }
            for _ in 0..r.below(3) {
                v.push(e(b(r.below(n)), r.ps(&[P, PQ]), b(r.below(n + 1))));
            }
        }
        "three-blank-quad" => {
            let n = r.range(3, 5);
            for _ in 0..r.range(1, 3) {
                v.push(eg(b(r.below(n)), P, b(r.below(n)), b(r.below(n))));
            }
            for _ in 0..r.below(3) {
                v.push(e(b(r.below(n)), r.ps(&[P, PQ]), if r.chance(1, 2) { b(r.below(n)) } else { ground(r) }));
            }
        }
        "row28-witness" => {
            // DESIGN.md section 4 row 28, possibly decorated
            v.push(e(b(4), P, lit_dt("lit", &format!("{XSD}string"))));
            v.push(eg(b(4), P, b(6), b(3)));
            v.push(eg(b(5), P, b(3), b(6)));
            if r.chance(1, 3) {
                v.push(e(b(5), PQ, ground(r)));
            }
        }
        "literals" => {
            for _ in 0..r.range(1, 4) {
                let s = if r.chance(1, 2) { b(r.below(2)) } else { iri(r.ps(&["http://e/a", "http://e/a9", "http://e/b"])) };
                let o = if r.chance(1, 4) { b(r.below(2)) } else { gen_literal(r) };
                let g = match r.below(4) {
                    0 => Some(iri("http://e/g")),
                    1 => Some(b(r.below(2))),
                    _ => None,
                };
                v.push(([s, iri(r.ps(&[P, PQ])), o], g));
            }
        }
        "random" => {
            let n = r.range(1, 5);
            for _ in 0..r.range(1, 6) {
                let s = if r.chance(4, 5) { b(r.below(n)) } else { iri("http://e/a") };
                let o = if r.chance(3, 4) { b(r.below(n)) } else { ground(r) };
                let g = match r.below(6) {
                    0 => Some(iri("http://e/g")),
                    1 => Some(b(r.below(n))),
                    _ => None,
                };
                v.push(([s, iri(r.ps(&[P, PQ])), o], g));
            }
        }
        "unsupported" => {
            let n = r.range(1, 3);
            for _ in 0..r.range(1, 3) {
                v.push(e(b(r.below(n)), P, b(r.below(n))));
            }
            let bad: Q = match r.below(7) {
                6 => {
                    // generalized RDF: a literal as predicate (outside the property; no quad mentioning a node twice,
                    // so that the outcome is the same before and after the repairs)
                    v.retain(|q| { let bl = q_blanks(q); bl.iter().collect::<BTreeSet<_>>().len() == bl.len() });
                    v.push(([b(0), lit_dt("p", &format!("{XSD}string")), b(1)], None));
                    ([b(1), lit_dt("p", &format!("{XSD}string")), b(0)], None)
                }
                0 => ([b(0), bnode("pred"), b(1)], None),
                1 => ([var("v"), iri(P), b(0)], None),
                2 => ([b(0), iri(P), triple(b(0), iri(P), b(1))], None),
                3 => ([b(0), iri(P), b(1)], Some(var("g"))),
                4 => ([triple(iri("http://e/a"), iri(P), b(1)), bnode("pred"), b(1)], None),
                _ => ([b(0), var("p"), b(1)], None),
            };
            let k = r.below(v.len() + 1);
            v.insert(k, bad);
        }
        "twins" => {
            // quads that agree on all components but one or two, where they carry near-identical terms: the final
            // sort of normalize_with has to tell them apart whatever the order in which the dataset yields them
            let fam: Vec<Vec<Option<ST>>> = (0..4).map(|pos| twin_family(r, pos)).collect();
            let base: Vec<Option<ST>> = (0..4).map(|pos| r.pick(&fam[pos]).clone()).collect();
            let varied: Vec<usize> = match r.below(10) {
                0..=2 => vec![2],
                3..=5 => vec![r.below(4)],
                6..=8 => { let a = r.below(4); let bb = r.below(4); if a == bb { vec![a] } else { vec![a, bb] } }
                _ => vec![0, 1, 2, 3],
            };
            for _ in 0..r.range(2, 5) {
                let mut c = base.clone();
                for &pos in &varied { c[pos] = r.pick(&fam[pos]).clone(); }
                v.push(([c[0].clone().unwrap(), c[1].clone().unwrap(), c[2].clone().unwrap()], c[3].clone()));
            }
            for _ in 0..r.below(3) {
                v.push(([r.pick(&fam[0]).clone().unwrap(), iri(r.ps(&[P, PQ])), if r.chance(1, 2) { b(r.below(3)) } else { ground(r) }], None));
            }
        }
        "multi-edge" => {
            // parallel edges: a root n related to each of its k children through mult quads that differ only by
            // their graph name (child as object / as subject) or only by their object (child as graph name), so that
            // the related-node list permuted by Hash N-Degree Quads is a multiset (x, y, y, x ...), in the order in
            // which the dataset yields the quads.  The children share their first-degree hash and differ one step
            // further (or not at all); the structure is repeated so that the root itself goes through Hash N-Degree
            // Quads.  The link quads of each root are shuffled among themselves.
            let six = big || r.chance(1, 12); // six related nodes = the default permutation limit: 720 arrangements
            let (k, mult) = *r.pick(&[(2usize, 2usize), (2, 2), (2, 2), (2, 2), (1, 2), (1, 3), (3, 1), (2, 1), if six { (3, 2) } else { (2, 2) }, if six { (2, 3) } else { (1, 2) }]);
            let lk = r.below(3);
            let copies = if r.chance(1, 6) { 1 } else { 2 };
            let distinct_copies = r.chance(2, 3);
            let tails = r.below(4); // 0: children indistinguishable, 1 and 2: told apart one step further, 3: two steps further
            let pl = r.ps(&[P, PQ, "http://e/p0"]);
            let extra = r.chance(1, 3);
            let graphs = [None, Some(iri(G1)), Some(iri(G2))];
            for c in 0..copies {
                let nd = |kind: &str, i: usize| bnode(&format!("c{c}{kind}{i}"));
                let n = bnode(&format!("c{c}n"));
                let mut links: Vec<Q> = vec![];
                for i in 0..k {
                    let x = nd("x", i);
                    for j in 0..mult {
                        links.push(match lk {
                            0 => ([n.clone(), iri(pl), x.clone()], graphs[j].clone()),
                            1 => ([x.clone(), iri(pl), n.clone()], graphs[j].clone()),
                            _ => ([n.clone(), iri(pl), lit_dt(&j.to_string(), &format!("{XSD}integer"))], Some(x.clone())),
                        });
                    }
                    let mark = lit_dt(&format!("{}", if distinct_copies { c * k + i } else { i }), &format!("{XSD}string"));
                    match tails {
                        0 => {}
                        1 | 2 => { v.push(e(x.clone(), "http://e/r", nd("u", i))); v.push(e(nd("u", i), PQ, mark)); }
                        _ => { v.push(e(x.clone(), "http://e/r", nd("u", i))); v.push(e(nd("u", i), "http://e/r", nd("w", i))); v.push(e(nd("w", i), PQ, mark)); }
                    }
                }
                if extra { links.push(e(n.clone(), "http://e/s", nd("z", 0))); }
                shuffle(&mut links, r);
                let at = r.below(v.len() + 1);
                for (j, q) in links.into_iter().enumerate() { v.insert(at + j, q); }
            }
        }
        "multi-pred" => {
            // m sibling nodes n0..n(m-1) with one and the same first-degree hash; each is related to its own child
            // x_i (and sometimes to a second child y_i) through the SAME pattern of 2..4 quads that differ by their
            // predicate, graph name or direction, so that Hash Related Blank Node is asked about one related node
            // several times, at one position, with different quads.  The children are told apart directly (a
            // literal each: they get their canonical identifier before the siblings are ordered), one step further,
            // in pairs, or not at all; the siblings are thus ordered by Hash N-Degree Quads against non-automorphic
            // (and automorphic) members of their group.  The link quads of every sibling are shuffled among
            // themselves, and half of the time the whole dataset is shuffled.
            let m = *r.pick(&[2usize, 3, 3, 4, 4, if big { 5 } else { 3 }]);
            let two = m <= 3 && r.chance(1, 4);
            let pat_x = link_pattern(r, if big { 5 } else { 4 });
            let pat_y = link_pattern(r, 3);
            let tails = *r.pick(&[0usize, 0, 0, 1, 1, 2]); // 0: literal on the child, 1: one step further, 2: no mark
            let mark_of: fn(usize) -> usize = match r.below(4) { 0 => |i: usize| i / 2, 1 => |i: usize| i.min(1), _ => |i: usize| i };
            let hub = r.chance(1, 4);
            let pm = r.ps(&["http://e/r", PQ, P]);
            let mut groups: Vec<Vec<Q>> = vec![];
            let mut rest: Vec<Q> = vec![];
            for i in 0..m {
                let nd = |kind: &str| bnode(&format!("{kind}{i}"));
                let n = nd("n");
                let mut links: Vec<Q> = pat_x.iter().map(|&l| link_quad(l, &n, &nd("x"))).collect();
                if two { links.extend(pat_y.iter().map(|&l| link_quad(l, &n, &nd("y")))); }
                if hub { links.push(e(bnode("h"), "http://e/s", n.clone())); }
                shuffle(&mut links, r);
                groups.push(links);
                let children: Vec<(&str, &str, &str)> = if two { vec![("x", "u", ""), ("y", "v", "y")] } else { vec![("x", "u", "")] };
                for (c, t, pre) in children {
                    let mark = lit_dt(&format!("{pre}{}", mark_of(i)), &format!("{XSD}string"));
                    match tails {
                        0 => rest.push(e(nd(c), pm, mark)),
                        1 => { rest.push(e(nd(c), "http://e/t", nd(t))); rest.push(e(nd(t), pm, mark)); }
                        _ => {}
                    }
                }
            }
            shuffle(&mut groups, r);
            if r.chance(1, 2) { v.extend(rest); v.extend(groups.into_iter().flatten()); } else { v.extend(groups.into_iter().flatten()); v.extend(rest); }
            if r.chance(1, 2) { shuffle(&mut v, r); }
        }
        "b9-b10" | "b9-b10-witness" => {
            // ten or more temporary identifiers, and a related-node list in which one node occurs twice:
            // permutations then give paths of different lengths (_:b9 vs _:b10).  A chain a0..a(L-1) ends in
            // n = a(L-1); n p x g1 . n p x g2 . n p yi g1 . m p yi g2 .  (x and the yi share a first-degree
            // hash; x is related to n twice); everything duplicated so that no first-degree hash is unique
            let witness = SHAPES[shape] == "b9-b10-witness";
            let mut l = r.range(5, 10);
            let mut ny = r.range(1, 3);
            let mut pc = r.ps(&[P, PQ, "http://e/r", "http://e/s", "http://e/t"]);
            let mut pg = r.ps(&[P, PQ, "http://e/r", "http://e/u"]);
            let mut copies = r.range(1, 2);
            if witness {
                // with SHA-256 the code before the repair of smaller_path canonicalises this dataset
                // differently from RDFC-1.0
                (l, ny, pc, pg, copies) = (9, 2, PQ, "http://e/u", 2);
            }
            for c in 0..copies {
                let nd = |i: usize| bnode(&format!("c{c}n{i}"));
                for i in 0..l - 1 {
                    v.push(e(nd(i), pc, nd(i + 1)));
                }
                let n = nd(l - 1);
                let m = nd(100);
                let x = nd(200);
                v.push(eg(n.clone(), pg, x.clone(), iri("http://e/g1")));
                v.push(eg(n.clone(), pg, x.clone(), iri("http://e/g2")));
                for k in 0..ny {
                    let y = nd(300 + k);
                    v.push(eg(n.clone(), pg, y.clone(), iri("http://e/g1")));
                    v.push(eg(m.clone(), pg, y.clone(), iri("http://e/g2")));
                }
            }
        }
        _ => {
            // paths and small trees: asymmetric structures resolved by first-degree hashes or one recursion
            let n = r.range(2, 6);
            for i in 1..n {
                let parent = r.below(i);
                v.push(e(b(parent), r.ps(&[P, P, PQ]), b(i)));
            }
        }
    }
    // one spelling per language-tagged literal inside one dataset: the in-memory stores intern terms modulo
    // Term::eq (tags compared case-insensitively) and keep the first spelling they see, so a dataset holding
    // "x"@en and "x"@EN would be a different dataset (tags are compared literally by C05) after each insertion order
    let mut spelling: Vec<(String, String, ST)> = vec![];
    let mut norm = |t: &ST| -> ST {
        if let sophia_api::term::SimpleTerm::LiteralLanguage(l, tag) = t {
            let key = (l.to_string(), tag.as_str().to_ascii_lowercase());
            if let Some(x) = spelling.iter().find(|x| x.0 == key.0 && x.1 == key.1) { return x.2.clone(); }
            spelling.push((key.0, key.1, t.clone()));
        }
        t.clone()
    };
    let v: Vec<Q> = v.iter().map(|q| ([norm(&q.0[0]), norm(&q.0[1]), norm(&q.0[2])], q.1.as_ref().map(|g| norm(g)))).collect();
    dedup(&v)
}

// ---------------------------------------------------------------- running the real crate
#[derive(Clone, Debug)]
pub struct Outcome {
    /// 0 = Ok, 1 = unsupported: blank predicate, 2 = unsupported: variable / quoted triple,
    /// 3 = toxic: too many recursions, 4 = toxic: too many permutations, 5 = panic,
    /// 6 = error of the dataset, 7 = error of the writer, 9 = other
    pub code: u64,
    pub bytes: String,
    pub idmap: Vec<(String, String)>,
    /// relabelled quads, in the order returned by relabel_with
    pub quads: Vec<Q>,
    pub msg: String,
    /// what the other entry points (normalize / normalize_sha384 / relabel / relabel_sha384) returned, when they
    /// were run (default limits only): same fields
    pub dflt: Option<Box<Outcome>>,
    /// writer with a byte budget: (budget, outcome code 0 or 7, what was written)
    pub budget: Option<(usize, u64, Vec<u8>)>,
    /// property violations noticed while driving the crate (entry points, writers, term views)
    pub extra: Vec<String>,
}
impl Outcome {
    fn new(code: u64, bytes: String, idmap: Vec<(String, String)>, quads: Vec<Q>, msg: String) -> Self {
        Outcome { code, bytes, idmap, quads, msg, dflt: None, budget: None, extra: vec![] }
    }
}
fn quiet_catch<R>(f: impl FnOnce() -> R) -> Result<R, String> {
    let prev = std::panic::take_hook();
    std::panic::set_hook(Box::new(|_| {}));
    let r = std::panic::catch_unwind(std::panic::AssertUnwindSafe(f));
    std::panic::set_hook(prev);
    r.map_err(|e| e.downcast_ref::<String>().cloned().or_else(|| e.downcast_ref::<&str>().map(|s| s.to_string())).unwrap_or_else(|| "panic".into()))
}
fn classify<E: std::error::Error + Send + Sync + 'static>(e: &C14nError<E>) -> (u64, String) {
    match e {
        C14nError::Unsupported(m) if m.contains("blank node as predicate") => (1, m.clone()),
        C14nError::Unsupported(m) => (2, m.clone()),
        C14nError::ToxicGraph(m) if m.contains("too many recursions") => (3, m.clone()),
        C14nError::ToxicGraph(m) if m.contains("Too many permutations") => (4, m.clone()),
        C14nError::Dataset(d) => (6, format!("{d}")),
        C14nError::Io(i) => (7, format!("{i}")),
        other => (9, format!("{other}")),
    }
}

// ---- datasets of the harness's own
/// a set dataset that yields its quads exactly in insertion order
pub struct OrderedVec(pub Vec<Q>);
impl Dataset for OrderedVec {
    type Quad<'x> = Spog<&'x ST>;
    type Error = std::convert::Infallible;
    fn quads(&self) -> impl Iterator<Item = DResult<Self, Self::Quad<'_>>> + '_ {
        self.0.iter().map(|q| Ok((q.0.each_ref(), q.1.as_ref())))
    }
}
impl SetDataset for OrderedVec {}
#[derive(Debug)]
pub struct SrcErr(pub usize);
impl std::fmt::Display for SrcErr {
    fn fmt(&self, f: &mut std::fmt::Formatter<'_>) -> std::fmt::Result { write!(f, "source failed at item {}", self.0) }
}
impl std::error::Error for SrcErr {}
/// a set dataset whose iterator fails instead of yielding item number `fail_at` (and goes on afterwards)
pub struct Failing { pub quads: Vec<Q>, pub fail_at: usize }
impl Dataset for Failing {
    type Quad<'x> = Spog<&'x ST>;
    type Error = SrcErr;
    fn quads(&self) -> impl Iterator<Item = DResult<Self, Self::Quad<'_>>> + '_ {
        let k = self.fail_at;
        self.quads.iter().enumerate().map(move |(i, q)| if i == k { Err(SrcErr(i)) } else { Ok((q.0.each_ref(), q.1.as_ref())) })
    }
}
impl SetDataset for Failing {}

// ---- writers
/// accepts at most `max` bytes per call, and answers Interrupted now and then (write_all must retry)
struct ChunkWriter { out: Vec<u8>, max: usize, calls: usize }
impl std::io::Write for ChunkWriter {
    fn write(&mut self, buf: &[u8]) -> std::io::Result<usize> {
        self.calls += 1;
        if self.calls % 5 == 3 { return Err(std::io::Error::new(std::io::ErrorKind::Interrupted, "try again")); }
        let n = buf.len().min(self.max);
        self.out.extend_from_slice(&buf[..n]);
        Ok(n)
    }
    fn flush(&mut self) -> std::io::Result<()> { Ok(()) }
}
/// accepts `budget` bytes in all (short writes when the budget runs out), then fails
struct BudgetWriter { out: Vec<u8>, budget: usize }
impl std::io::Write for BudgetWriter {
    fn write(&mut self, buf: &[u8]) -> std::io::Result<usize> {
        let left = self.budget - self.out.len();
        if left == 0 && !buf.is_empty() { return Err(std::io::Error::new(std::io::ErrorKind::Other, "disk full")); }
        let n = buf.len().min(left);
        self.out.extend_from_slice(&buf[..n]);
        Ok(n)
    }
    fn flush(&mut self) -> std::io::Result<()> { Ok(()) }
}

fn std_hash<T: Term>(t: T) -> u64 {
    use std::hash::Hasher;
    let mut h = std::collections::hash_map::DefaultHasher::new();
    Term::hash(&t, &mut h);
    h.finish()
}
/// every accessor of the Term view of a returned term must describe one and the same term (the returned quads are
/// `C14nTerm`s: canonical blank nodes, or the dataset's own terms)
fn view_fail<T: Term>(t: &T) -> Option<String> {
    let k = t.kind();
    let st = to_st(t.borrow_term());
    let shape = (t.iri().is_some(), t.bnode_id().is_some(), t.lexical_form().is_some(), t.datatype().is_some(), t.language_tag().is_some(), t.variable().is_some());
    let want = match k {
        TermKind::Iri => (true, false, false, false, false, false),
        TermKind::BlankNode => (false, true, false, false, false, false),
        TermKind::Literal => (false, false, true, true, matches!(st, SimpleTerm::LiteralLanguage(..)), false),
        TermKind::Variable => (false, false, false, false, false, true),
        TermKind::Triple => (false, false, false, false, false, false),
    };
    if shape != want { return Some(format!("term view of {}: kind {k:?} but (iri, bnode_id, lexical_form, datatype, language_tag, variable) are Some: {shape:?}", show_t(&st))); }
    if (t.is_iri(), t.is_blank_node(), t.is_literal(), t.is_variable(), t.is_triple()) != (k == TermKind::Iri, k == TermKind::BlankNode, k == TermKind::Literal, k == TermKind::Variable, k == TermKind::Triple) {
        return Some(format!("term view of {}: is_*() disagree with kind {k:?}", show_t(&st)));
    }
    if !Term::eq(t, &st) || !Term::eq(&st, t.borrow_term()) || Term::cmp(t, &st) != std::cmp::Ordering::Equal || std_hash(t.borrow_term()) != std_hash(&st) || !Term::eq(&t.borrow_term(), &st) {
        return Some(format!("term view of {}: eq / cmp / hash disagree with the term its accessors describe", show_t(&st)));
    }
    None
}
fn conv_relabelled<T: Term>(qs: &[Spog<T>], map: &sophia_c14n::rdfc10::C14nIdMap, extra: &mut Vec<String>) -> (Vec<Q>, Vec<(String, String)>) {
    for q in qs {
        for t in q.0.iter().chain(q.1.iter()) {
            if let Some(f) = view_fail(t) { if extra.len() < 3 { extra.push(f); } }
        }
    }
    let out: Vec<Q> = qs.iter().map(|q| ([to_st(q.0[0].borrow_term()), to_st(q.0[1].borrow_term()), to_st(q.0[2].borrow_term())], q.1.as_ref().map(|g| to_st(g.borrow_term())))).collect();
    let map: Vec<(String, String)> = map.iter().map(|(k, v)| (k.to_string(), v.as_str().to_string())).collect();
    (out, map)
}
fn merge(r1: Result<Vec<u8>, (u64, String)>, r2: Result<(Vec<Q>, Vec<(String, String)>), (u64, String)>, what: &str) -> Outcome {
    match (r1, r2) {
        (Ok(out), Ok((qs, map))) => match String::from_utf8(out) {
            Ok(b) => Outcome::new(0, b, map, qs, String::new()),
            Err(e) => Outcome::new(9, String::new(), vec![], vec![], format!("{what}: the output is not UTF-8 ({e})")),
        },
        (Err((c1, m1)), Err((c2, _))) if c1 == c2 => Outcome::new(c1, String::new(), vec![], vec![], m1),
        (r1, r2) => Outcome::new(9, String::new(), vec![], vec![], format!("{what} disagree: {:?} vs {:?}", r1.err(), r2.map(|_| ()).err())),
    }
}
pub fn dataset_order<D: Dataset>(d: &D) -> Vec<Q> {
    d.quads().filter_map(|q| q.ok()).map(|q| ([to_st(q.s()), to_st(q.p()), to_st(q.o())], q.g().map(to_st))).collect()
}
/// `probes`: also drive the other entry points, writers of other kinds and the term views of the result
fn run_on<H: HashFunction, D: SetDataset>(d: &D, df: f32, pl: usize, sha384: bool, probes: bool) -> (Vec<Q>, Outcome) {
    let order: Vec<Q> = dataset_order(d);
    let mut extra: Vec<String> = vec![];
    let res = quiet_catch(|| {
        let mut out = Vec::<u8>::new();
        let r1 = normalize_with::<H, D, _>(d, &mut out, df, pl).map_err(|e| classify(&e)).map(|()| out);
        let r2 = relabel_with::<H, D>(d, df, pl).map_err(|e| classify(&e)).map(|(qs, map)| conv_relabelled(&qs, &map, &mut extra));
        merge(r1, r2, "normalize_with and relabel_with")
    });
    let mut o = match res {
        Err(p) => Outcome::new(5, String::new(), vec![], vec![], format!("panic: {p}")),
        Ok(o) => o,
    };
    if probes && o.code != 5 {
        // the entry points with the default limits and the fixed hash functions
        if df == 1.0 && pl == 6 {
            let res = quiet_catch(|| {
                let mut out = Vec::<u8>::new();
                let r1 = if sha384 { normalize_sha384(d, &mut out) } else { normalize(d, &mut out) }.map_err(|e| classify(&e)).map(|()| out);
                let r2 = if sha384 { relabel_sha384(d) } else { relabel(d) }.map_err(|e| classify(&e)).map(|(qs, map)| conv_relabelled(&qs, &map, &mut extra));
                merge(r1, r2, if sha384 { "normalize_sha384 and relabel_sha384" } else { "normalize and relabel" })
            });
            let dflt = match res {
                Err(p) => Outcome::new(5, String::new(), vec![], vec![], format!("panic: {p}")),
                Ok(x) => x,
            };
            let names = if sha384 { "normalize_sha384 / relabel_sha384" } else { "normalize / relabel" };
            if dflt.code != o.code || dflt.bytes != o.bytes || dflt.idmap != o.idmap || dflt.quads.iter().map(show_q).ne(o.quads.iter().map(show_q)) {
                extra.push(format!("{names} and normalize_with / relabel_with (same hash function, default limits 1.0 and 6) disagree on {}: code {} {} bytes {:?} map {:?} vs code {} {} bytes {:?} map {:?}", show_d(&order), dflt.code, dflt.msg, dflt.bytes, dflt.idmap, o.code, o.msg, o.bytes, o.idmap));
            }
            o.dflt = Some(Box::new(dflt));
        }
        if o.code == 0 {
            // a writer taking a few bytes at a time gets the same document
            let max = 1 + order.len() % 3;
            let mut cw = ChunkWriter { out: vec![], max, calls: 0 };
            let r = quiet_catch(|| normalize_with::<H, D, _>(d, &mut cw, df, pl).map_err(|e| classify(&e)));
            if !matches!(r, Ok(Ok(()))) || cw.out != o.bytes.as_bytes() {
                extra.push(format!("a writer accepting {max} byte(s) per call got {:?} ({:?}) instead of {:?} for {}", String::from_utf8_lossy(&cw.out), r, o.bytes, show_d(&order)));
            }
            // a writer that fails after `budget` bytes: an explicit error, and exactly the first `budget` bytes written
            let len = o.bytes.len();
            let budget = match order.len() % 4 { 0 => 0, 1 => len / 2, 2 => len.saturating_sub(1), _ => len };
            let mut bw = BudgetWriter { out: vec![], budget };
            let r = quiet_catch(|| normalize_with::<H, D, _>(d, &mut bw, df, pl).map_err(|e| classify(&e)));
            let code = match &r { Ok(Ok(())) => 0, Ok(Err((c, _))) => *c, Err(_) => 5 };
            if code != (if budget < len { 7 } else { 0 }) || bw.out != o.bytes.as_bytes()[..budget.min(len)] {
                extra.push(format!("a writer failing after {budget} byte(s) of the {len}-byte document: outcome {r:?}, written {:?}, for {}", String::from_utf8_lossy(&bw.out), show_d(&order)));
            }
            o.budget = Some((budget, code, bw.out));
        }
    }
    o.extra.extend(extra);
    (order, o)
}
pub const STORES: [&str; 9] = ["HashSet", "BTreeSet", "FastDataset", "LightDataset", "OrderedVec", "BTreeSet<Gspo>", "HashSet<Gspo>", "FastDataset+history", "LightDataset+history"];
pub const ORDERED: usize = 4;
/// quads that are inserted before the dataset's own quads and removed afterwards: they leave their mark in the
/// term index of the in-memory stores (other term identifiers, hence another enumeration order)
fn decoys(quads: &[Q]) -> Vec<Q> {
    let mut v: Vec<Q> = vec![([iri("http://e/zz"), iri(PQ), bnode("zz0")], Some(iri("http://e/zg")))];
    for q in quads.iter().rev() {
        if !q.0[2].is_literal() && !q.0[0].is_triple() && !q.0[2].is_triple() { v.push(([q.0[2].clone(), q.0[1].clone(), q.0[0].clone()], q.1.clone())); }
        v.push(([q.0[0].clone(), iri("http://e/decoy"), q.0[2].clone()], None));
    }
    v.retain(|x| !quads.iter().any(|q| show_q(q) == show_q(x)));
    v
}
/// canonicalise `quads` held in the store `store` with hash `sha384?`; returns the order in which
/// the store enumerates its quads (what the algorithm sees) and the outcome
pub fn run_impl(quads: &[Q], store: usize, sha384: bool, df: f32, pl: usize) -> (Vec<Q>, Outcome) {
    run_impl_p(quads, store, sha384, df, pl, true)
}
pub fn run_impl_p(quads: &[Q], store: usize, sha384: bool, df: f32, pl: usize, probes: bool) -> (Vec<Q>, Outcome) {
    macro_rules! mk { ($ty:ty) => {{ let mut d = <$ty>::default(); for q in quads { MutableDataset::insert_quad(&mut d, q.clone()).unwrap(); } d }}; }
    macro_rules! mkg { ($ty:ty) => {{ let mut d = <$ty>::default(); for q in quads { MutableDataset::insert(&mut d, &q.0[0], &q.0[1], &q.0[2], q.1.as_ref()).unwrap(); } d }}; }
    macro_rules! mkh { ($ty:ty) => {{
        let mut d = <$ty>::default();
        let dec = decoys(quads);
        for q in &dec { MutableDataset::insert_quad(&mut d, q.clone()).unwrap(); }
        for q in quads { MutableDataset::insert_quad(&mut d, q.clone()).unwrap(); }
        for q in &dec { MutableDataset::remove_quad(&mut d, q.clone()).unwrap(); }
        d
    }}; }
    macro_rules! go { ($d:expr) => { if sha384 { run_on::<Rec<Sha384>, _>(&$d, df, pl, sha384, probes) } else { run_on::<Rec<Sha256>, _>(&$d, df, pl, sha384, probes) } }; }
    match store {
        0 => go!(mk!(HashSet<Q>)),
        1 => go!(mk!(BTreeSet<Q>)),
        2 => go!(mk!(FastDataset)),
        3 => go!(mk!(LightDataset)),
        4 => go!(OrderedVec(quads.to_vec())),
        5 => go!(mkg!(BTreeSet<Gspo<ST>>)),
        6 => go!(mkg!(HashSet<Gspo<ST>>)),
        7 => go!(mkh!(FastDataset)),
        _ => go!(mkh!(LightDataset)),
    }
}
/// the dataset fails while it is enumerated: an explicit error, nothing written
pub fn run_failing(quads: &[Q], fail_at: usize, sha384: bool) -> Outcome {
    let d = Failing { quads: quads.to_vec(), fail_at };
    let res = quiet_catch(|| {
        let mut out = Vec::<u8>::new();
        let r1 = if sha384 { normalize_with::<Rec<Sha384>, _, _>(&d, &mut out, 1.0, 6) } else { normalize_with::<Rec<Sha256>, _, _>(&d, &mut out, 1.0, 6) }.map_err(|e| classify(&e));
        let written = out.len();
        let mut extra = vec![];
        let r2 = if sha384 { relabel_with::<Rec<Sha384>, _>(&d, 1.0, 6) } else { relabel_with::<Rec<Sha256>, _>(&d, 1.0, 6) }.map_err(|e| classify(&e)).map(|(qs, map)| conv_relabelled(&qs, &map, &mut extra));
        let mut o = merge(r1.map(|()| out), r2, "normalize_with and relabel_with");
        if o.code != 0 && written > 0 { o.extra.push(format!("{written} byte(s) written although the dataset failed")); }
        o
    });
    match res {
        Err(p) => Outcome::new(5, String::new(), vec![], vec![], format!("panic: {p}")),
        Ok(o) => o,
    }
}
/// the document only, through the entry point with fixed hash function and default limits (nothing is recorded)
pub fn quick_bytes(order: &[Q], sha384: bool) -> Result<String, String> {
    let d = OrderedVec(order.to_vec());
    let r = quiet_catch(|| {
        let mut out = Vec::<u8>::new();
        if sha384 { normalize_sha384(&d, &mut out) } else { normalize(&d, &mut out) }.map_err(|e| format!("{e}")).map(|()| out)
    });
    match r {
        Err(p) => Err(format!("panic: {p}")),
        Ok(Err(e)) => Err(e),
        Ok(Ok(out)) => String::from_utf8(out).map_err(|e| e.to_string()),
    }
}

// ---------------------------------------------------------------- RDFC-1.0 from the W3C text
// Independent transcription of https://www.w3.org/TR/rdf-canon/ sections 4.4 (canonicalization
// algorithm), 4.5 (issue identifier), 4.6 (hash first degree quads), 4.7 (hash related blank
// node), 4.8 (hash n-degree quads) and of the canonical N-Quads form.  Plain strings, no sophia
// code except the hash function.  Orders the text leaves open: blank nodes are visited in label
// order, permutations in the order of Heap's algorithm as sophia runs it, ties of step 5.3 keep list order.
#[derive(Clone)]
pub struct SIssuer {
    prefix: String,
    map: BTreeMap<String, String>,
    order: Vec<String>,
}
impl SIssuer {
    fn new(prefix: &str) -> Self {
        SIssuer { prefix: prefix.into(), map: BTreeMap::new(), order: vec![] }
    }
    /// 4.5 Issue Identifier
    fn issue(&mut self, existing: &str) -> String {
        if let Some(x) = self.map.get(existing) {
            return x.clone();
        }
        let id = format!("{}{}", self.prefix, self.order.len());
        self.map.insert(existing.to_string(), id.clone());
        self.order.push(existing.to_string());
        id
    }
}
pub struct SpecOut {
    pub bytes: String,
    pub idmap: BTreeMap<String, String>,
    pub max_depth: usize,
    pub max_list: usize,
    /// pairs of blank nodes whose hash-n-degree results were equal in step 5.3
    pub ties: Vec<(String, String)>,
    /// number of permutations visited by all the runs of hash-n-degree (a deterministic measure of the work)
    pub perms: u64,
}
fn spec_escape(s: &str) -> String {
    let mut o = String::new();
    for c in s.chars() {
        match c as u32 {
            0x08 => o.push_str("\\b"),
            0x09 => o.push_str("\\t"),
            0x0A => o.push_str("\\n"),
            0x0C => o.push_str("\\f"),
            0x0D => o.push_str("\\r"),
            0x22 => o.push_str("\\\""),
            0x5C => o.push_str("\\\\"),
            x @ (0x00..=0x07 | 0x0B | 0x0E..=0x1F | 0x7F) => o.push_str(&format!("\\u{:04X}", x)),
            _ => o.push(c),
        }
    }
    o
}
fn spec_term(t: &ST) -> String {
    match t {
        SimpleTerm::Iri(i) => format!("<{}>", i.as_str()),
        SimpleTerm::BlankNode(b) => format!("_:{}", b.as_str()),
        SimpleTerm::LiteralLanguage(l, tag) => format!("\"{}\"@{}", spec_escape(l), tag.as_str()),
        SimpleTerm::LiteralDatatype(l, dt) if dt.as_str() == "http://www.w3.org/2001/XMLSchema#string" => format!("\"{}\"", spec_escape(l)),
        SimpleTerm::LiteralDatatype(l, dt) => format!("\"{}\"^^<{}>", spec_escape(l), dt.as_str()),
        _ => unreachable!("unsupported terms are rejected first"),
    }
}
fn spec_line(q: &Q, blank: &dyn Fn(&str) -> String) -> String {
    let mut o = String::new();
    for t in q.0.iter().chain(q.1.iter()) {
        match blabel(t) {
            Some(l) => o.push_str(&blank(&l)),
            None => o.push_str(&spec_term(t)),
        }
        o.push(' ');
    }
    o.push_str(".\n");
    o
}
struct Spec<'a> {
    quads: &'a [Q],
    b2q: BTreeMap<String, Vec<usize>>,
    canonical: SIssuer,
    hash: &'a dyn Fn(&str) -> String,
    max_depth: usize,
    max_list: usize,
    perms: u64,
}
fn lex_perms(n: usize) -> Vec<Vec<usize>> {
    fn go(n: usize, cur: &mut Vec<usize>, out: &mut Vec<Vec<usize>>) {
        if cur.len() == n {
            out.push(cur.clone());
            return;
        }
        for i in 0..n {
            if !cur.contains(&i) {
                cur.push(i);
                go(n, cur, out);
                cur.pop();
            }
        }
    }
    let mut out = vec![];
    go(n, &mut vec![], &mut out);
    out
}
/// the enumeration order of "each permutation" is left open by the specification; to compare issued
/// identifiers exactly the transcription takes the order sophia uses (Heap's algorithm with a swap after
/// every recursive call, as in c14n/src/_permutations.rs), re-implemented here on positions
fn heap_order_perms(n: usize) -> Vec<Vec<usize>> {
    fn go(a: &mut Vec<usize>, size: usize, out: &mut Vec<Vec<usize>>) {
        if size == 1 {
            out.push(a.clone());
            return;
        }
        for i in 0..size {
            go(a, size - 1, out);
            if size % 2 == 1 { a.swap(0, size - 1) } else { a.swap(i, size - 1) }
        }
    }
    let mut out = vec![];
    if n > 0 {
        go(&mut (0..n).collect(), n, &mut out);
    }
    out
}
impl Spec<'_> {
    /// 4.6
    fn hash_first_degree(&self, reference: &str) -> String {
        let mut nquads: Vec<String> = self.b2q[reference].iter().map(|&i| spec_line(&self.quads[i], &|l| if l == reference { "_:a".into() } else { "_:z".into() })).collect();
        nquads.sort();
        (self.hash)(&nquads.concat())
    }
    /// 4.7
    fn hash_related(&self, related: &str, quad: &Q, issuer: &SIssuer, position: char) -> String {
        let mut input = String::new();
        input.push(position);
        if position != 'g' {
            input.push('<');
            input.push_str(match &quad.0[1] { SimpleTerm::Iri(i) => i.as_str(), _ => unreachable!() });
            input.push('>');
        }
        if let Some(c) = self.canonical.map.get(related) {
            input.push_str("_:");
            input.push_str(c);
        } else if let Some(t) = issuer.map.get(related) {
            input.push_str("_:");
            input.push_str(t);
        } else {
            input.push_str(&self.hash_first_degree(related));
        }
        (self.hash)(&input)
    }
    /// 4.8; the issuer is passed and replaced "by reference"
    fn hash_n_degree(&mut self, identifier: &str, issuer: &mut SIssuer, depth: usize) -> String {
        self.max_depth = self.max_depth.max(depth);
        let mut hn: BTreeMap<String, Vec<String>> = BTreeMap::new();
        for &qi in &self.b2q[identifier].clone() {
            let quad = &self.quads[qi];
            let comps = [(Some(&quad.0[0]), 's'), (Some(&quad.0[2]), 'o'), (quad.1.as_ref(), 'g')];
            for (c, pos) in comps {
                if let Some(l) = c.and_then(blabel) {
                    if l != identifier {
                        let h = self.hash_related(&l, quad, issuer, pos);
                        hn.entry(h).or_default().push(l);
                    }
                }
            }
        }
        let mut data_to_hash = String::new();
        for (related_hash, blank_node_list) in hn {
            data_to_hash.push_str(&related_hash);
            let mut chosen_path = String::new();
            let mut chosen_issuer: Option<SIssuer> = None;
            self.max_list = self.max_list.max(blank_node_list.len());
            'perm: for perm in heap_order_perms(blank_node_list.len()) {
                self.perms += 1;
                let p: Vec<&String> = perm.iter().map(|&i| &blank_node_list[i]).collect();
                let mut issuer_copy = issuer.clone();
                let mut path = String::new();
                let mut recursion_list: Vec<String> = vec![];
                for related in p {
                    if let Some(c) = self.canonical.map.get(related) {
                        path.push_str("_:");
                        path.push_str(c);
                    } else {
                        if !issuer_copy.map.contains_key(related) {
                            recursion_list.push(related.clone());
                        }
                        path.push_str("_:");
                        path.push_str(&issuer_copy.issue(related));
                    }
                    if !chosen_path.is_empty() && path.len() >= chosen_path.len() && path > chosen_path {
                        continue 'perm;
                    }
                }
                for related in recursion_list {
                    let result = self.hash_n_degree(&related, &mut issuer_copy, depth + 1);
                    path.push_str("_:");
                    path.push_str(&issuer_copy.issue(&related));
                    path.push('<');
                    path.push_str(&result);
                    path.push('>');
                    if !chosen_path.is_empty() && path.len() >= chosen_path.len() && path > chosen_path {
                        continue 'perm;
                    }
                }
                if chosen_path.is_empty() || path < chosen_path {
                    chosen_path = path;
                    chosen_issuer = Some(issuer_copy);
                }
            }
            data_to_hash.push_str(&chosen_path);
            *issuer = chosen_issuer.expect("a non-empty list has a permutation");
        }
        (self.hash)(&data_to_hash)
    }
}
/// 4.4; Err = input outside RDFC-1.0 (generalized RDF)
pub fn spec_rdfc10(quads: &[Q], hash: &dyn Fn(&str) -> String) -> Result<SpecOut, String> {
    for q in quads {
        if !matches!(q.0[1], SimpleTerm::Iri(_)) {
            return Err("predicate is not an IRI".into());
        }
        if q.0.iter().chain(q.1.iter()).any(|t| t.is_triple() || t.is_variable()) {
            return Err("quoted triple or variable".into());
        }
    }
    let mut sp = Spec { quads, b2q: BTreeMap::new(), canonical: SIssuer::new("c14n"), hash, max_depth: 0, max_list: 0, perms: 0 };
    // step 2: one reference per blank node of the quad
    for (i, q) in quads.iter().enumerate() {
        let bs: BTreeSet<String> = q_blanks(q).into_iter().collect();
        for l in bs {
            sp.b2q.entry(l).or_default().push(i);
        }
    }
    // step 3
    let mut h2b: BTreeMap<String, Vec<String>> = BTreeMap::new();
    for n in sp.b2q.keys() {
        h2b.entry(sp.hash_first_degree(n)).or_default().push(n.clone());
    }
    // step 4
    let mut rest: Vec<(String, Vec<String>)> = vec![];
    for (h, ids) in h2b {
        if ids.len() > 1 {
            rest.push((h, ids));
        } else {
            sp.canonical.issue(&ids[0]);
        }
    }
    // step 5
    let mut ties = vec![];
    for (_, ids) in rest {
        let mut hash_path_list: Vec<(String, SIssuer, String)> = vec![];
        for n in ids {
            if sp.canonical.map.contains_key(&n) {
                continue; // 5.2.1
            }
            let mut temporary = SIssuer::new("b");
            temporary.issue(&n);
            let h = sp.hash_n_degree(&n, &mut temporary, 0);
            hash_path_list.push((h, temporary, n));
        }
        hash_path_list.sort_by(|a, b| a.0.cmp(&b.0));
        for w in hash_path_list.windows(2) {
            if w[0].0 == w[1].0 {
                ties.push((w[0].2.clone(), w[1].2.clone()));
            }
        }
        for (_, issuer, _) in hash_path_list {
            for existing in issuer.order {
                sp.canonical.issue(&existing);
            }
        }
    }
    // serialisation: relabel, sort the lines in code point order
    let canon = sp.canonical.map.clone();
    let mut lines: Vec<String> = quads.iter().map(|q| spec_line(q, &|l| format!("_:{}", canon[l]))).collect();
    lines.sort();
    Ok(SpecOut { bytes: lines.concat(), idmap: canon, max_depth: sp.max_depth, max_list: sp.max_list, ties, perms: sp.perms })
}
pub fn hash_with<H: HashFunction>(s: &str) -> String {
    let mut h = H::initialize();
    h.update(s.as_bytes());
    hex(h.finalize().as_ref())
}
pub fn spec_run(quads: &[Q], sha384: bool) -> Result<SpecOut, String> {
    if sha384 { spec_rdfc10(quads, &hash_with::<Rec<Sha384>>) } else { spec_rdfc10(quads, &hash_with::<Rec<Sha256>>) }
}

/// is there an automorphism of the dataset (a permutation of its blank node labels mapping the
/// set of quads onto itself) sending x to y?  brute force; datasets have at most 6 blank nodes
pub fn automorphic(d: &[Q], x: &str, y: &str) -> bool {
    let labels: Vec<String> = d_blanks(d).into_iter().collect();
    if labels.len() > 6 { return automorphic_bt(d, x, y); }
    let set: HashSet<String> = d.iter().map(show_q).collect();
    let xi = labels.iter().position(|l| l == x).unwrap();
    let yi = labels.iter().position(|l| l == y).unwrap();
    for perm in lex_perms(labels.len()) {
        if perm[xi] != yi {
            continue;
        }
        let f = |l: &str| labels[perm[labels.iter().position(|k| k == l).unwrap()]].clone();
        if d.iter().all(|q| set.contains(&show_q(&rename_q(q, &f)))) {
            return true;
        }
    }
    false
}

/// the same question for datasets with more blank nodes: backtracking over partial label maps, a quad being
/// checked as soon as all its blank nodes are mapped
pub fn automorphic_bt(d: &[Q], x: &str, y: &str) -> bool {
    let labels: Vec<String> = d_blanks(d).into_iter().collect();
    let set: HashSet<String> = d.iter().map(show_q).collect();
    let idx = |l: &str| labels.iter().position(|k| k == l).unwrap();
    let qb: Vec<Vec<usize>> = d.iter().map(|q| q_blanks(q).iter().map(|l| idx(l)).collect()).collect();
    let deg: Vec<usize> = (0..labels.len()).map(|i| qb.iter().filter(|b| b.contains(&i)).count()).collect();
    fn go(k: usize, order: &[usize], map: &mut Vec<Option<usize>>, used: &mut Vec<bool>, d: &[Q], qb: &[Vec<usize>], deg: &[usize], labels: &[String], set: &HashSet<String>) -> bool {
        // every quad whose blank nodes are all mapped must be mapped into the dataset
        for (q, bl) in d.iter().zip(qb) {
            if bl.iter().all(|&i| map[i].is_some()) && !bl.is_empty() {
                let f = |l: &str| labels[map[labels.iter().position(|k| k == l).unwrap()].unwrap()].clone();
                if !set.contains(&show_q(&rename_q(q, &f))) { return false; }
            }
        }
        if k == order.len() { return true; }
        let i = order[k];
        if map[i].is_some() { return go(k + 1, order, map, used, d, qb, deg, labels, set); }
        for t in 0..labels.len() {
            if !used[t] && deg[t] == deg[i] {
                map[i] = Some(t); used[t] = true;
                if go(k + 1, order, map, used, d, qb, deg, labels, set) { return true; }
                map[i] = None; used[t] = false;
            }
        }
        false
    }
    let (xi, yi) = (idx(x), idx(y));
    if deg[xi] != deg[yi] { return false; }
    let mut map = vec![None; labels.len()];
    let mut used = vec![false; labels.len()];
    map[xi] = Some(yi); used[yi] = true;
    // visit the labels along the quads, so that constraints bite early
    let mut order: Vec<usize> = vec![xi];
    loop {
        let next = qb.iter().filter(|b| b.iter().any(|i| order.contains(i))).flat_map(|b| b.iter()).find(|i| !order.contains(i)).copied()
            .or_else(|| (0..labels.len()).find(|i| !order.contains(i)));
        match next { Some(i) => order.push(i), None => break }
    }
    go(0, &order, &mut map, &mut used, d, &qb, &deg, &labels, &set)
}
/// a tie of step 5.3 between two nodes that no automorphism exchanges
pub fn nonauto_tie(s: &SpecOut, d: &[Q]) -> Option<(String, String)> {
    s.ties.iter().find(|(x, y)| !automorphic(d, x, y)).cloned()
}
/// the same quads in other insertion orders: the quads at the positions `focus` permuted among themselves in
/// every way when there are at most four of them, 24 shuffles otherwise
pub fn focus_orders(d: &[Q], focus: &[usize], r: &mut Rng) -> Vec<Vec<Q>> {
    let place = |perm: &[usize]| -> Vec<Q> {
        let mut v = d.to_vec();
        for (k, &src) in perm.iter().enumerate() { v[focus[k]] = d[focus[src]].clone(); }
        v
    };
    if focus.len() <= 4 {
        lex_perms(focus.len()).iter().map(|p| place(p)).collect()
    } else {
        (0..24).map(|_| { let mut p: Vec<usize> = (0..focus.len()).collect(); shuffle(&mut p, r); place(&p) }).collect()
    }
}

/// the same quads in other insertion orders: each group of positions (the quads of one sibling node) permuted
/// within itself, independently of the other groups: every combination when there are at most 64 of them, else the
/// mirror image of every group and 40 random combinations; plus four orders in which the quads of all the groups
/// are shuffled together (groups interleaved)
pub fn group_orders(d: &[Q], groups: &[Vec<usize>], r: &mut Rng) -> Vec<Vec<Q>> {
    let place = |perms: &[Vec<usize>]| -> Vec<Q> {
        let mut v = d.to_vec();
        for (g, perm) in groups.iter().zip(perms) { for (k, &src) in perm.iter().enumerate() { v[g[k]] = d[g[src]].clone(); } }
        v
    };
    let fact = |n: usize| (1..=n).product::<usize>();
    let total = groups.iter().fold(1usize, |a, g| a.saturating_mul(fact(g.len().min(8))));
    let mut out: Vec<Vec<Q>> = vec![];
    if total <= 64 {
        let all: Vec<Vec<Vec<usize>>> = groups.iter().map(|g| lex_perms(g.len())).collect();
        let mut idx = vec![0usize; groups.len()];
        'outer: loop {
            out.push(place(&idx.iter().enumerate().map(|(g, &i)| all[g][i].clone()).collect::<Vec<_>>()));
            for g in 0..groups.len() {
                idx[g] += 1;
                if idx[g] < all[g].len() { continue 'outer; }
                idx[g] = 0;
            }
            break;
        }
    } else {
        out.push(place(&groups.iter().map(|g| (0..g.len()).rev().collect()).collect::<Vec<_>>()));
        for _ in 0..40 {
            out.push(place(&groups.iter().map(|g| { let mut p: Vec<usize> = (0..g.len()).collect(); shuffle(&mut p, r); p }).collect::<Vec<_>>()));
        }
    }
    let all_pos: Vec<usize> = { let mut a: Vec<usize> = groups.iter().flatten().copied().collect(); a.sort(); a.dedup(); a };
    for _ in 0..4 {
        let mut p = all_pos.clone();
        shuffle(&mut p, r);
        let mut v = d.to_vec();
        for (k, &src) in p.iter().enumerate() { v[all_pos[k]] = d[src].clone(); }
        out.push(v);
    }
    out
}

// ---------------------------------------------------------------- labels from the algorithm's own name spaces
/// relabel_with through the entry point with the fixed hash function and default limits (nothing is recorded):
/// the returned quads (as text, in the order returned) and the identifier map
pub fn quick_relabel(order: &[Q], sha384: bool) -> Result<(Vec<String>, BTreeMap<String, String>), String> {
    let d = OrderedVec(order.to_vec());
    let r = quiet_catch(|| {
        let r = if sha384 { relabel_sha384(&d) } else { relabel(&d) };
        r.map_err(|e| format!("{e}")).map(|(qs, map)| {
            let out: Vec<String> = qs.iter().map(|q| show_q(&([to_st(q.0[0].borrow_term()), to_st(q.0[1].borrow_term()), to_st(q.0[2].borrow_term())], q.1.as_ref().map(|g| to_st(g.borrow_term()))))).collect();
            let map: BTreeMap<String, String> = map.iter().map(|(k, v)| (k.to_string(), v.as_str().to_string())).collect();
            (out, map)
        })
    });
    match r {
        Err(p) => Err(format!("panic: {p}")),
        Ok(x) => x,
    }
}
/// are the labels exactly c14n0 .. c14n(n-1)?
pub fn canonical_shaped(labels: &BTreeSet<String>) -> bool {
    *labels == (0..labels.len()).map(|i| format!("c14n{i}")).collect::<BTreeSet<String>>()
}
/// new labels (aligned with `labels`) taken from the name spaces RDFC-1.0 uses itself: the canonical identifiers
/// c14n0.. in the canonical arrangement (`canon`: the document read back), in other arrangements (two exchanged,
/// rotated, shuffled, the arrangement computed with the other hash function `other`, numbered in label order and
/// in reverse label order), near misses of that shape (numbered from one, one gap, one foreign or look-alike label),
/// the temporary identifiers b0.., and mixtures with the place holders a / z of the first-degree hash.
/// Every scheme is a bijection.
pub fn alias_schemes(labels: &[String], canon: &BTreeMap<String, String>, other: Option<&BTreeMap<String, String>>, r: &mut Rng) -> Vec<(String, Vec<String>)> {
    let n = labels.len();
    let cn = |i: usize| format!("c14n{i}");
    let c: Vec<String> = labels.iter().map(|l| canon[l].clone()).collect();
    let mut out: Vec<(String, Vec<String>)> = vec![("canonical identifiers as issued (the document read back)".into(), c.clone())];
    if n >= 2 {
        let i = r.below(n);
        let j = (i + 1 + r.below(n - 1)) % n;
        let mut v = c.clone();
        v.swap(i, j);
        out.push(("canonical identifiers, two of them exchanged".into(), v));
        out.push(("canonical identifiers numbered in reverse".into(), c.iter().map(|x| cn(n - 1 - x[4..].parse::<usize>().unwrap_or(0))).collect()));
    }
    if n >= 3 {
        out.push(("canonical identifiers rotated by one".into(), c.iter().map(|x| cn((x[4..].parse::<usize>().unwrap_or(0) + 1) % n)).collect()));
        let mut v = c.clone();
        for _ in 0..4 { shuffle(&mut v, r); if v != c { break; } }
        out.push(("canonical identifiers shuffled".into(), v));
    }
    if let Some(o) = other {
        if labels.iter().all(|l| o.contains_key(l)) { out.push(("canonical identifiers as issued under the other hash function".into(), labels.iter().map(|l| o[l].clone()).collect())); }
    }
    out.push(("c14n0.. in the order of the input labels".into(), (0..n).map(cn).collect()));
    out.push(("c14n0.. in the reverse order of the input labels".into(), (0..n).map(|i| cn(n - 1 - i)).collect()));
    out.push(("canonical identifiers numbered from one (c14n0 missing)".into(), c.iter().map(|x| cn(x[4..].parse::<usize>().unwrap_or(0) + 1)).collect()));
    {
        let mut v = c.clone();
        v[r.below(n)] = cn(n + r.below(2) * 9);
        out.push(("canonical identifiers with a gap in the numbering".into(), v));
        let mut v = c.clone();
        v[r.below(n)] = r.ps(&["x", "c14n", "c14n00", "c14n01", "C14N0", "c14n-1", "c14n0a", "b0", "c14n_0", "c15n0"]).to_string();
        out.push(("canonical identifiers, one replaced by a foreign or look-alike label".into(), v));
    }
    {
        let mut p: Vec<usize> = (0..n).collect();
        shuffle(&mut p, r);
        out.push(("temporary identifiers b0..".into(), p.iter().map(|i| format!("b{i}")).collect()));
        let mut pool: Vec<String> = (0..=n).map(cn).chain((0..=n).map(|i| format!("b{i}"))).chain(["a", "z", "c14n", "b"].iter().map(|x| x.to_string())).collect();
        shuffle(&mut pool, r);
        pool.truncate(n);
        out.push(("a mixture of canonical, temporary and place-holder identifiers".into(), pool));
    }
    let mut seen: Vec<Vec<String>> = vec![];
    out.retain(|(_, v)| {
        let distinct = v.iter().collect::<BTreeSet<_>>().len() == v.len();
        if !distinct || v.len() != n || seen.contains(v) { return false; }
        seen.push(v.clone());
        true
    });
    out
}
/// the canonical document read back and then EDITED: a quad about a new blank node added (the new node named
/// c14n(n), as a careless merge would, or keeping a fresh label), a ground quad added to one of the nodes (the labels
/// still are exactly c14n0..c14n(n-1) but the arrangement is stale), a quad removed.  Returns (description, the
/// edited dataset under the ORIGINAL labels, the relabelling: canonical identifiers of the unedited dataset)
pub fn alias_edits(o: &[Q], canon: &BTreeMap<String, String>, r: &mut Rng) -> Vec<(String, Vec<Q>, Vec<(String, String)>)> {
    let n = canon.len();
    let labels: Vec<String> = canon.keys().cloned().collect();
    let m: Vec<(String, String)> = canon.iter().map(|(k, v)| (k.clone(), v.clone())).collect();
    let mut out = vec![];
    if labels.is_empty() || labels.iter().any(|l| l == "zzn") { return out; }
    let at = |v: &mut Vec<Q>, q: Q, r: &mut Rng| { let k = r.below(v.len() + 1); v.insert(k, q); };
    let old = bnode(labels[r.below(labels.len())].as_str());
    let link = if r.chance(1, 2) { e(bnode("zzn"), "http://e/s2", old.clone()) } else { e(old.clone(), "http://e/s2", bnode("zzn")) };
    let mut v = o.to_vec();
    at(&mut v, link, r);
    let mut m2 = m.clone();
    m2.push(("zzn".into(), format!("c14n{n}")));
    out.push((format!("the document read back, merged with a quad about a new node named c14n{n}"), v.clone(), m2));
    out.push(("the document read back, a quad about a new node with a fresh label added".into(), v, m.clone()));
    let mut v = o.to_vec();
    at(&mut v, e(old, "http://e/mark", lit_dt("m", &format!("{XSD}string"))), r);
    out.push(("the document read back, a ground quad added to one node (labels still c14n0.., arrangement stale)".into(), v, m.clone()));
    if o.len() >= 2 {
        let mut v = o.to_vec();
        v.remove(r.below(o.len()));
        if !d_blanks(&v).is_empty() { out.push(("the document read back, one quad removed".into(), v, m.clone())); }
    }
    out
}
/// the canonical documents of a dataset and of its relabelled copy (same quads, same order) differ
fn alias_mismatch(scheme: &str, base: &[Q], base_bytes: &Result<String, String>, dv: &[Q], got: &Result<String, String>, sha384: bool, fails: &mut Vec<String>) {
    let (sb, sv) = (spec_run(base, sha384), spec_run(dv, sha384));
    let t = sb.as_ref().ok().and_then(|s| nonauto_tie(s, base)).or_else(|| sv.as_ref().ok().and_then(|s| nonauto_tie(s, dv)));
    let spec_agrees = matches!((&sb, &sv, base_bytes, got), (Ok(x), Ok(y), Ok(b), Ok(g)) if &x.bytes == b && &y.bytes == g);
    if let (Some((x, y)), true) = (&t, spec_agrees) {
        // (the known finding: reported once per case)
        if !fails.iter().any(|f| f.starts_with("RDFC-1.0 tie between non-automorphic nodes")) {
        fails.push(format!("RDFC-1.0 tie between non-automorphic nodes (_:{x} and _:{y} get equal hash-n-degree results; the independent transcription of the W3C text behaves identically{}): {} and the same quads in the same order relabelled ({scheme}) {} get different canonical documents {:?} and {:?}", if has_three(base) { "; the dataset has a quad with three blank nodes" } else { "" }, show_d(base), show_d(dv), base_bytes, got));
        }
    } else {
        fails.push(format!("canonical bytes depend on the blank node labels: {} gives {:?} but the same quads in the same order relabelled ({scheme}) {} give {:?}{}", show_d(base), base_bytes, show_d(dv), got, match &sv { Ok(s) => format!("; RDFC-1.0 as transcribed from the W3C text gives {:?} for the relabelled dataset", s.bytes), Err(_) => String::new() }));
    }
}

// ---------------------------------------------------------------- the two drivers
fn parse_back(bytes: &str) -> Result<Vec<Q>, String> {
    let mut out: Vec<Q> = vec![];
    sophia_turtle::parser::nq::parse_bufread(bytes.as_bytes())
        .for_each_quad(|q| out.push(([to_st(q.s()), to_st(q.p()), to_st(q.o())], q.g().map(to_st))))
        .map_err(|e| e.to_string())?;
    Ok(out)
}
fn has_repeat(d: &[Q]) -> bool {
    d.iter().any(|q| { let b = q_blanks(q); let s: BTreeSet<&String> = b.iter().collect(); s.len() < b.len() })
}
fn has_three(d: &[Q]) -> bool {
    d.iter().any(|q| q_blanks(q).into_iter().collect::<BTreeSet<_>>().len() >= 3)
}
/// two blank nodes related through two quads with DIFFERENT predicates, the nodes being at the same positions
fn has_multi_pred(d: &[Q]) -> bool {
    let key = |q: &Q| -> Vec<(usize, String)> { q.0.iter().chain(q.1.iter()).enumerate().filter_map(|(i, t)| blabel(t).map(|l| (i, l))).collect() };
    d.iter().enumerate().any(|(i, q)| { let k = key(q); k.len() >= 2 && d[i + 1..].iter().any(|q2| show_t(&q2.0[1]) != show_t(&q.0[1]) && key(q2) == k) })
}
/// all graphs over blank nodes e0..e2 and two predicates with 1..=4 edges (self loops included)
fn exhaustive_case(k: usize) -> Option<Vec<Q>> {
    let mut edges: Vec<Q> = vec![];
    for s in 0..3 { for p in [P, PQ] { for o in 0..3 { edges.push(e(b(s), p, b(o))); } } }
    let n = edges.len();
    let mut idx = 0usize;
    for size in 1..=4usize {
        let mut c: Vec<usize> = (0..size).collect();
        loop {
            if idx == k { return Some(c.iter().map(|&i| edges[i].clone()).collect()); }
            idx += 1;
            let mut i = size;
            while i > 0 && c[i - 1] == n - size + (i - 1) { i -= 1; }
            if i == 0 { break; }
            c[i - 1] += 1;
            for j in i..size { c[j] = c[j - 1] + 1; }
        }
    }
    None
}
pub const EXHAUSTIVE: usize = 18 + 153 + 816 + 3060;
const DF_GRID: [u64; 7] = [0, 250, 500, 1000, 1500, 2000, 3000];
const PL_GRID: [usize; 7] = [0, 1, 2, 3, 4, 6, 12];

fn check_one(tag: &str, d: &[Q], order: &[Q], out: &Outcome, spec: &Result<SpecOut, String>, df1000: u64, pl: usize, fails: &mut Vec<String>) {
    let nb = d_blanks(d).len();
    for x in &out.extra { fails.push(format!("{tag}: {x}")); }
    // generalized RDF (a literal as predicate) is outside RDFC-1.0 and outside the property: sophia then
    // either writes a generalized document or panics in hash_related_bnode (`quad.p().iri().unwrap()`);
    // only the model of the implementation is compared on such input
    if d.iter().any(|q| !matches!(q.0[1], SimpleTerm::Iri(_) | SimpleTerm::BlankNode(_) | SimpleTerm::Triple(_) | SimpleTerm::Variable(_))) {
        return;
    }
    match out.code {
        0 => {
            // (b) the document re-reads to a dataset isomorphic to the input, labelled c14n0..c14n(n-1)
            match parse_back(&out.bytes) {
                Err(e) => fails.push(format!("{tag}: the canonical document does not parse back ({e}): {:?}", out.bytes)),
                Ok(back) => {
                    let want: BTreeSet<String> = (0..nb).map(|i| format!("c14n{i}")).collect();
                    if d_blanks(&back) != want { fails.push(format!("{tag}: blank nodes of the output are {:?}, expected c14n0..c14n{}", d_blanks(&back), nb as i64 - 1)); }
                    if back.len() != d.len() || !sophia_isomorphism::isomorphic_datasets(&back, &d.to_vec()).unwrap() { fails.push(format!("{tag}: the canonical document is not isomorphic to the input: {:?}", out.bytes)); }
                }
            }
            // (c) the identifier map is a bijection onto c14n0.. and maps the input onto the returned quads
            let keys: BTreeSet<String> = out.idmap.iter().map(|p| p.0.clone()).collect();
            let vals: BTreeSet<String> = out.idmap.iter().map(|p| p.1.clone()).collect();
            let want: BTreeSet<String> = (0..nb).map(|i| format!("c14n{i}")).collect();
            if keys != d_blanks(d) || vals != want || out.idmap.len() != nb { fails.push(format!("{tag}: identifier map {:?} is not a bijection from the input labels onto c14n0..c14n{}", out.idmap, nb as i64 - 1)); }
            let m: BTreeMap<String, String> = out.idmap.iter().cloned().collect();
            let mapped: Vec<String> = order.iter().map(|q| show_q(&rename_q(q, &|l| m.get(l).cloned().unwrap_or_else(|| format!("MISSING-{l}"))))).collect();
            let got: Vec<String> = out.quads.iter().map(show_q).collect();
            if mapped != got { fails.push(format!("{tag}: applying the identifier map to the input gives {mapped:?} but the returned quads are {got:?}")); }
            // (d) equality with the independent transcription of the W3C text
            match spec {
                Ok(s) if s.bytes == out.bytes && s.idmap.iter().map(|(k, v)| (k.clone(), v.clone())).collect::<Vec<_>>() == out.idmap => {}
                Ok(s) if s.bytes == out.bytes => fails.push(format!("{tag}: issued identifiers differ from RDFC-1.0 as transcribed from the W3C text (same permutation and node orders){}: got {:?}, specification gives {:?}", if has_repeat(d) { " (the dataset has a quad mentioning one blank node twice)" } else { "" }, out.idmap, s.idmap)),
                Ok(s) => fails.push(format!("{tag}: output differs from RDFC-1.0 as transcribed from the W3C text{}: got {:?}, specification gives {:?}", if has_repeat(d) { " (the dataset has a quad mentioning one blank node twice)" } else if nb > 10 { " (the dataset has more than ten blank nodes: temporary identifiers _:b9 / _:b10 give paths of different lengths, and smaller_path prefers the shorter one instead of the one that is first in code point order)" } else { "" }, out.bytes, s.bytes)),
                Err(e) => fails.push(format!("{tag}: canonicalisation succeeded on input outside RDFC-1.0 ({e})")),
            }
        }
        1 | 2 => {
            if is_supported(d) { fails.push(format!("{tag}: Unsupported ({}) reported for a supported dataset", out.msg)); }
        }
        3 | 4 => {
            // (e) a limit only fires when it is actually exceeded
            match spec {
                Ok(s) => {
                    let depth_exceeded = (s.max_depth as u64) * 1000 > df1000 * nb as u64;
                    let perm_exceeded = s.max_list > pl;
                    if !depth_exceeded && !perm_exceeded { fails.push(format!("{tag}: ToxicGraph ({}) although the specification's run needs recursion depth {} <= {}*{}/1000 and permutes at most {} <= {} nodes", out.msg, s.max_depth, df1000, nb, s.max_list, pl)); }
                }
                Err(e) => fails.push(format!("{tag}: ToxicGraph on input outside RDFC-1.0 ({e})")),
            }
        }
        _ => fails.push(format!("{tag}: canonicalisation ended with {} instead of a result or an explicit error", out.msg)),
    }
}

/// one quad of `order` is yielded twice by an OrderedVec (line 75 of rdfc10.rs: the comparator meets two equal quads)
fn dup_run(order: &[Q], r: &mut Rng, sha384: bool, fails: &mut Vec<String>) -> (Vec<Q>, Outcome) {
    let mut v = order.to_vec();
    let q = v[r.below(v.len())].clone();
    let at = r.below(v.len() + 1);
    v.insert(at, q);
    let (o, out) = run_impl_p(&v, ORDERED, sha384, 1.0, 6, false);
    let tag = "a dataset yielding one quad twice";
    for x in &out.extra { fails.push(format!("{tag}: {x}")); }
    match (out.code, spec_run(&o, sha384)) {
        (0, Ok(s)) => {
            if s.bytes != out.bytes || s.idmap.iter().map(|(k, v)| (k.clone(), v.clone())).collect::<Vec<_>>() != out.idmap {
                fails.push(format!("{tag} ({}): got {:?} {:?}, the transcription of the W3C text run on the same list gives {:?} {:?}", show_d(&o), out.bytes, out.idmap, s.bytes, s.idmap));
            }
            let m: BTreeMap<String, String> = out.idmap.iter().cloned().collect();
            let mapped: Vec<String> = o.iter().map(|q| show_q(&rename_q(q, &|l| m.get(l).cloned().unwrap_or_else(|| format!("MISSING-{l}"))))).collect();
            if mapped != out.quads.iter().map(show_q).collect::<Vec<_>>() { fails.push(format!("{tag}: applying the identifier map to the input gives {mapped:?} but the returned quads are {:?}", out.quads.iter().map(show_q).collect::<Vec<_>>())); }
        }
        (c, _) => fails.push(format!("{tag} ({}): canonicalisation ended with code {c} {}", show_d(&o), out.msg)),
    }
    (o, out)
}

fn c_idmap(m: &[(String, String)]) -> String {
    coq_list(m.iter().map(|(k, v)| format!("({}, {})", pstr(k), pstr(v))))
}

pub fn run(mode: &str) {
    let a = parse_args();
    let c06 = mode == "C06";
    let prefix_model = a.rest.iter().any(|x| x == "--prefix-model");
    let once = coq_bool(!prefix_model);
    let mut sum = Summary::default();
    sum.rule = if c06 {
        "case = (dataset: every graph over 3 blank nodes and 2 predicates with 1..4 edges in the thorough tier, then the C05 shapes (including near-identical quads, parallel edges and sibling nodes related to one other node through several predicates / graphs / directions) with emphasis on literals with escape-relevant characters, quads mentioning one node twice and quads with three blank nodes, and (rarely, being expensive) datasets with more than ten blank nodes in which one node is related twice to another, so that temporary identifiers _:b9 / _:b10 give permutation paths of different lengths; store type among the nine of C05; SHA-256 or SHA-384; for one case in eight also an OrderedVec yielding one quad twice (implementation against its model and the Rust transcription only); run once with the default limits and once with (depth_factor, permutation_limit) from the grid {0,.25,.5,1,1.5,2,3} x {0,1,2,3,4,6,12}); three-way comparison implementation / model of the implementation / model of the specification; non-trivial = hash-n-degree ran (two blank nodes share a first-degree hash), or a literal needs escaping, or the input is unsupported, or a limit fired; distinct = distinct (dataset, limits, hash)".into()
    } else {
        "case = (dataset of one shape among cycle / clique / disjoint isomorphic components / star / bipartite / blank graph names / node twice in a quad / three blank nodes in a quad / section-4-row-28 witness / literals / random / unsupported / tree, at most 6 blank nodes, and, every third case, near-identical quads (same lexical form under other datatypes / language tags, IRIs and lexical forms that are prefixes of each other, graph name present / absent / blank, at one or two positions of otherwise equal quads) or parallel edges (a root related to each child through 1..3 quads differing only by graph name or object, children told apart 0..2 steps further, repeated so that the root goes through hash-n-degree: the permuted related-node list is a multiset in the order the dataset yields the quads), and, every sixth case, 2..4 sibling nodes of equal first-degree hash each related to its own child (sometimes two children) through the same pattern of 2..4 quads differing by predicate, graph name or direction (child as object / subject / graph name), the children told apart by a literal each / one step further / in pairs / not at all, so that the siblings are ordered by hash-n-degree against non-automorphic and automorphic members of their group; a copy under a random label bijection and quad order; two store types among HashSet, BTreeSet, FastDataset, LightDataset, OrderedVec (yields in insertion order), BTreeSet / HashSet of Gspo, Fast/LightDataset after inserting and removing other quads; SHA-256 or SHA-384; plus the same quads in up to 24 other insertion orders (a focus group of quads permuted in every way; for sibling nodes the quads of every sibling permuted independently, all combinations up to 64, and interleaved) through normalize / normalize_sha384, the entry points with default limits against normalize_with / relabel_with, a writer taking 1..3 bytes per call, a writer failing after a byte budget, every accessor of the returned terms, and for some cases other limits from the C06 grid, a dataset whose iterator fails, a dataset yielding one quad twice; and the same quads in the same order under up to 13 relabellings into the name spaces the algorithm uses itself: the canonical identifiers c14n0..c14n(n-1) as issued (the document read back), two exchanged, rotated, reversed, shuffled, as issued under the other hash function, numbered in input-label order, numbered from one, with a gap, with one foreign or look-alike label, the temporary identifiers b0.., mixtures with the place holders a / z, and the document read back and then edited (a quad about a new node named c14n(n) or freshly named, a ground quad added, a quad removed): same document as under the original labels, same identifier for every node when step 5 meets no tie, one relabelling per case compared with the model); non-trivial = hash-n-degree ran (two blank nodes share a first-degree hash); distinct = distinct (dataset, copy, hash)".into()
    };
    let base = Rng::new(a.seed);
    // tier-dependent generation is selected by an explicit flag so that `--only` replays reproduce it
    let thorough = a.rest.iter().any(|x| x == "--thorough");
    let mut cases = vec![];
    let mut seen = HashSet::new();
    let mut max_table = 0usize;
    let range: Vec<usize> = match a.only { Some(i) => vec![i], None => (0..a.n).collect() };
    for idx in range {
        let mut r = base.fork(idx as u64);
        let exhaustive = c06 && thorough && idx < EXHAUSTIVE;
        let forced = a.rest.iter().position(|x| x == "--shape").and_then(|i| a.rest.get(i + 1)).and_then(|n| SHAPES.iter().position(|s| s == n));
        let mut shape = if let Some(f) = forced { f } else if c06 { *r.pick(&[9usize, 9, 9, 6, 6, 7, 10, 10, 11, 0, 1, 2, 3, 4, 5, 8, 12, 15, 15, 16, 17, 17]) } else { r.below(13) };
        if forced.is_none() && c06 {
            // more than ten temporary identifiers: expensive for the Coq side, hence rare
            if r.chance(1, 100) { shape = 14; } else if thorough && r.chance(1, 150) { shape = 13; }
        }
        // C05: every third case is one of the shapes added later (near-identical quads, parallel edges)
        if forced.is_none() && !c06 && idx % 3 == 2 { shape = NEW_SHAPES[(idx / 3) % NEW_SHAPES.len()]; }
        // C05: and every sixth case has sibling nodes related to one other node through several predicates
        if forced.is_none() && !c06 && idx % 6 == 1 { shape = MULTI_PRED; }
        let new_shape = NEW_SHAPES.contains(&shape) || shape == MULTI_PRED;
        let big = thorough && r.chance(1, 40);
        let d: Vec<Q> = if exhaustive { exhaustive_case(idx).unwrap() } else { gen_dataset(&mut r, shape, big) };
        let shape_name = if exhaustive { "exhaustive" } else { SHAPES[shape] };
        let sha384 = r.chance(1, 3) && shape_name != "b9-b10-witness";
        let (mut s1, s2) = (r.below(STORES.len()), r.below(STORES.len()));
        if new_shape && r.chance(2, 3) { s1 = ORDERED; }
        let _ = take_table();
        let mut fails: Vec<String> = vec![];
        let spec1 = spec_run(&d, sha384);
        let nontrivial_nd = spec1.as_ref().map(|s| s.max_list > 0).unwrap_or(false);
        // a deterministic measure of the work of one canonicalisation: permutations visited by the transcription
        let work = spec1.as_ref().map(|s| s.perms).unwrap_or(0).max(1);
        let mut body: Vec<String> = vec![];
        let mut text = format!("{} [{}] {}", shape_name, if sha384 { "sha384" } else { "sha256" }, show_d(&d));
        if c06 {
            let (dfg, plg) = (*r.pick(&DF_GRID), *r.pick(&PL_GRID));
            let mut shuffled = d.clone();
            shuffle(&mut shuffled, &mut r);
            for (k, (df1000, pl)) in [(1000u64, 6usize), (dfg, plg)].into_iter().enumerate() {
                let store = if k == 0 { s1 } else { s2 };
                let (order, out) = run_impl_p(&shuffled, store, sha384, df1000 as f32 / 1000.0, pl, work <= 200);
                // the specification runs on the quads as the store enumerates them (a term index keeps the
                // first spelling of language tags that differ only in case)
                let spec_o = spec_run(&order, sha384);
                check_one(&format!("limits ({},{}) in {}", df1000 as f32 / 1000.0, pl, STORES[store]), &order, &order, &out, &spec_o, df1000, pl, &mut fails);
                sum.bump(&format!("outcome:{}", ["ok", "unsupported-blank-predicate", "unsupported-term", "toxic-depth", "toxic-permutations", "panic"].get(out.code as usize).unwrap_or(&"other")));
                if a.only.is_some() { println!("RUN limits=({df1000}/1000,{pl}) store={} order={} => code {} {} bytes={:?} idmap={:?}", STORES[store], show_d(&order), out.code, out.msg, out.bytes, out.idmap); }
                body.push(format!("three_ok {once} tbl {df1000} {pl} {} {} {} {}", c_quads(&order), out.code, pstr(&out.bytes), c_idmap(&out.idmap)));
            }
            text.push_str(&format!(" limits=({dfg},{plg})"));
            if r.chance(1, 8) && spec1.is_ok() && !d.is_empty() && work <= 1000 {
                let (order, out) = dup_run(&shuffled, &mut r, sha384, &mut fails);
                sum.bump("run:dataset-yielding-a-quad-twice");
                body.push(format!("impl_ok {once} tbl 1000 6 {} {} {} {}", c_quads(&order), out.code, pstr(&out.bytes), c_idmap(&out.idmap)));
            }
        } else {
            // the copy: label bijection + quad order
            let labels: Vec<String> = d_blanks(&d).into_iter().collect();
            let mut fresh: Vec<String> = match r.below(3) {
                0 => labels.clone(),
                1 => (0..labels.len()).map(|i| format!("b{}", 9 + i)).collect(),
                _ => (0..labels.len()).map(|i| ["z", "Y", "x1", "a", "e0", "m-2"][i % 6].to_string() + &"q".repeat(i / 6)).collect(),
            };
            shuffle(&mut fresh, &mut r);
            let d2: Vec<Q> = { let mut v: Vec<Q> = d.iter().map(|q| rename_q(q, &|l| fresh[labels.iter().position(|k| k == l).unwrap()].clone())).collect(); shuffle(&mut v, &mut r); v };
            sum.bump(&format!("work:{}", match work { 0..=10 => "<=10", 11..=50 => "<=50", 51..=200 => "<=200", 201..=1000 => "<=1000", _ => ">1000" }));
            let (o1, out1) = run_impl_p(&d, s1, sha384, 1.0, 6, work <= 1000);
            let (o2, out2) = run_impl_p(&d2, s2, sha384, 1.0, 6, work <= 200);
            // the specification runs on the quads as the stores enumerate them (a term index keeps the
            // first spelling of language tags that differ only in case)
            let spec1 = spec_run(&o1, sha384);
            let spec2 = spec_run(&o2, sha384);
            check_one(&format!("original in {}", STORES[s1]), &o1, &o1, &out1, &spec1, 1000, 6, &mut fails);
            check_one(&format!("copy in {}", STORES[s2]), &o2, &o2, &out2, &spec2, 1000, 6, &mut fails);
            sum.bump(&format!("outcome:{}", ["ok", "unsupported-blank-predicate", "unsupported-term", "toxic-depth", "toxic-permutations", "panic"].get(out1.code as usize).unwrap_or(&"other")));
            // (a) invariance
            let mut tie = None;
            for (s, dd) in [(&spec1, &d), (&spec2, &d2)] {
                if let Ok(s) = s { for (x, y) in &s.ties { if !automorphic(dd, x, y) { tie = Some((x.clone(), y.clone())); } } }
            }
            if tie.is_some() { sum.bump("tie:non-automorphic-nodes"); }
            if let (Ok(s), true) = (&spec1, tie.is_none()) { if !s.ties.is_empty() { sum.bump("tie:automorphic-nodes"); } }
            if out1.code != out2.code {
                fails.push(format!("outcome depends on labels/order/store: {} ({}) for {} but {} ({}) for the relabelled copy {}", out1.code, out1.msg, show_d(&d), out2.code, out2.msg, show_d(&d2)));
            } else if out1.code == 0 && out1.bytes != out2.bytes {
                let spec_agrees = matches!((&spec1, &spec2), (Ok(x), Ok(y)) if x.bytes == out1.bytes && y.bytes == out2.bytes);
                if let (Some((x, y)), true) = (&tie, spec_agrees) {
                    fails.push(format!("RDFC-1.0 tie between non-automorphic nodes (_:{x} and _:{y} get equal hash-n-degree results; the independent transcription of the W3C text behaves identically{}): isomorphic inputs {} and {} get different canonical documents {:?} and {:?}", if has_three(&d) { "; the dataset has a quad with three blank nodes" } else { "" }, show_d(&d), show_d(&d2), out1.bytes, out2.bytes));
                } else {
                    fails.push(format!("canonical bytes depend on labels/order/store: {} gives {:?} but its relabelled copy {} gives {:?}", show_d(&d), out1.bytes, show_d(&d2), out2.bytes));
                }
            }
            if a.only.is_some() {
                println!("WORK {work} permutations per canonicalisation");
                println!("ORIGINAL store={} order={} => code {} {} bytes={:?} idmap={:?}", STORES[s1], show_d(&o1), out1.code, out1.msg, out1.bytes, out1.idmap);
                println!("COPY store={} order={} => code {} {} bytes={:?} idmap={:?}", STORES[s2], show_d(&o2), out2.code, out2.msg, out2.bytes, out2.idmap);
            }
            for (o, out) in [(&o1, &out1), (&o2, &out2)] {
                // one evaluation of the model against everything observed on this dataset: normalize_with / relabel_with,
                // the entry points with the default limits, the writer with a byte budget (model: code points =
                // bytes, hence for ASCII documents only)
                let dflt = out.dflt.as_ref().map(|df| format!("({}, {}, {})", df.code, pstr(&df.bytes), c_idmap(&df.idmap)));
                let bud = out.budget.as_ref().filter(|_| out.bytes.is_ascii()).map(|(budget, wcode, written)| {
                    sum.bump(if *wcode == 7 { "writer:fails-within-the-document" } else { "writer:budget-suffices" });
                    format!("({budget}, {wcode}, {})", pstr(std::str::from_utf8(written).unwrap()))
                });
                if dflt.is_some() { sum.bump("run:default-entry-points"); }
                body.push(format!("run_ok {once} tbl 1000 6 {} {} {} {} {} {}", c_quads(o), out.code, pstr(&out.bytes), c_idmap(&out.idmap), coq_opt(dflt), coq_opt(bud)));
            }
            // (a') the same quads in other insertion orders, in a store that enumerates them in that order
            let focus: Vec<usize> = match shape_name {
                "multi-edge" => (0..d.len()).filter(|&i| q_blanks(&d[i]).iter().any(|l| l == "c0n")).collect(),
                "twins" => (0..d.len().min(4)).collect(),
                _ => { let mut all: Vec<usize> = (0..d.len()).collect(); shuffle(&mut all, &mut r); all.truncate(4); all }
            };
            // sibling nodes: the quads of every sibling permuted among themselves, independently
            let sibling_groups: Vec<Vec<usize>> = if shape_name == "multi-pred" {
                let sib: BTreeSet<String> = d_blanks(&d).into_iter().filter(|l| l.starts_with('n')).collect();
                sib.iter().map(|n| (0..d.len()).filter(|&i| q_blanks(&d[i]).iter().any(|l| l == n)).collect()).collect()
            } else { vec![] };
            let mut third: Option<Vec<Q>> = None;
            // (datasets with more than 1000 permutations per run keep to the checks above)
            let light = work <= 1000;
            if out1.code == 0 && focus.len() >= 2 && light {
                let mut orders = if sibling_groups.is_empty() { focus_orders(&d, &focus, &mut r) } else { group_orders(&d, &sibling_groups, &mut r) };
                // expensive datasets get fewer orders (about 8000 digests per case; all the orders for the new shapes)
                if !new_shape || work > 100 { shuffle(&mut orders, &mut r); orders.truncate(((2400 / work) as usize).clamp(2, 40)); }
                sum.bump_by("insertion-orders-tried", orders.len() as u64);
                let pick = r.below(orders.len());
                for (k, ord) in orders.iter().enumerate() {
                    let got = quick_bytes(ord, sha384);
                    if got.as_ref() != Ok(&out1.bytes) {
                        let sp = spec_run(ord, sha384);
                        let t2 = sp.as_ref().ok().and_then(|s| nonauto_tie(s, ord)).or(tie.clone());
                        let spec_agrees = matches!((&sp, &got, &spec1), (Ok(x), Ok(g), Ok(y)) if &x.bytes == g && y.bytes == out1.bytes);
                        if let (Some((x, y)), true) = (&t2, spec_agrees) {
                            fails.push(format!("RDFC-1.0 tie between non-automorphic nodes (_:{x} and _:{y} get equal hash-n-degree results; the independent transcription of the W3C text behaves identically{}): the same quads inserted in the orders {} and {} get different canonical documents {:?} and {:?}", if has_three(&d) { "; the dataset has a quad with three blank nodes" } else { "" }, show_d(&o1), show_d(ord), out1.bytes, got));
                        } else {
                            fails.push(format!("canonical bytes depend on the insertion order: {} (as enumerated by {}) gives {:?} but the same quads inserted in the order {} give {:?}", show_d(&o1), STORES[s1], out1.bytes, show_d(ord), got));
                        }
                        if third.is_none() { third = Some(ord.clone()); }
                        break;
                    }
                    if k == pick && new_shape { third = Some(ord.clone()); }
                }
            }
            if let Some(ord) = third {
                // one of them is also run with the recording hash function and handed to the model
                let (o3, out3) = run_impl_p(&ord, ORDERED, sha384, 1.0, 6, false);
                let spec3 = spec_run(&o3, sha384);
                check_one("another insertion order in OrderedVec", &o3, &o3, &out3, &spec3, 1000, 6, &mut fails);
                body.push(format!("impl_ok {once} tbl 1000 6 {} {} {} {}", c_quads(&o3), out3.code, pstr(&out3.bytes), c_idmap(&out3.idmap)));
                if a.only.is_some() { println!("THIRD order={} => code {} {} bytes={:?} idmap={:?}", show_d(&o3), out3.code, out3.msg, out3.bytes, out3.idmap); }
            }
            // (f) other limits: an error only when the limit is exceeded; a result, when there is one, is the same
            if r.chance(1, 5) && light {
                let (dfg, plg) = (*r.pick(&DF_GRID), *r.pick(&PL_GRID));
                sum.bump("run:other-limits");
                for (dd, st, dflt_out) in [(&d, s1, &out1), (&d2, s2, &out2)] {
                    let (o, out) = run_impl_p(dd, st, sha384, dfg as f32 / 1000.0, plg, false);
                    let sp = spec_run(&o, sha384);
                    check_one(&format!("limits ({},{}) in {}", dfg as f32 / 1000.0, plg, STORES[st]), &o, &o, &out, &sp, dfg, plg, &mut fails);
                    if out.code == 0 && dflt_out.code == 0 && out.bytes != dflt_out.bytes { fails.push(format!("the canonical document depends on the limits: {:?} with (1.0, 6) but {:?} with ({}, {}) for {}", dflt_out.bytes, out.bytes, dfg as f32 / 1000.0, plg, show_d(dd))); }
                    if out.code != 0 && dflt_out.code == 0 { sum.bump("outcome:limit-fired-under-other-limits"); }
                    body.push(format!("impl_ok {once} tbl {dfg} {plg} {} {} {} {}", c_quads(&o), out.code, pstr(&out.bytes), c_idmap(&out.idmap)));
                    if a.only.is_some() { println!("LIMITS ({dfg}/1000,{plg}) store={} => code {} {}", STORES[st], out.code, out.msg); }
                }
            }
            // (g) a dataset that fails while it is enumerated: an explicit error, nothing written
            if r.chance(1, 8) && !o1.is_empty() && light {
                let k = r.below(o1.len() + 1);
                let out = run_failing(&o1, k, sha384);
                sum.bump(if k < o1.len() { "run:dataset-fails" } else { "run:fallible-dataset-succeeds" });
                for x in &out.extra { fails.push(format!("fallible dataset: {x}")); }
                if k < o1.len() {
                    if out.code != 6 { fails.push(format!("the dataset failed at item {k} of {} but canonicalisation ended with code {} {} {:?}", show_d(&o1), out.code, out.msg, out.bytes)); }
                } else if out.code != out1.code || out.bytes != out1.bytes || out.idmap != out1.idmap {
                    fails.push(format!("the same quads in the same order through a fallible dataset type give code {} {:?} {:?} instead of code {} {:?} {:?}", out.code, out.bytes, out.idmap, out1.code, out1.bytes, out1.idmap));
                }
                let items = coq_list(o1.iter().enumerate().map(|(i, q)| if i == k { "None".to_string() } else { format!("Some {}", c_quad(q)) }));
                body.push(format!("src_ok {once} tbl 1000 6 {items} {} {} {}", out.code, pstr(&out.bytes), c_idmap(&out.idmap)));
            }
            // (h) a dataset that yields one quad twice (outside the SetDataset contract): implementation against its
            // model and against the transcription of the W3C text run on the same list
            if r.chance(1, 10) && out1.code == 0 && spec1.is_ok() && !o1.is_empty() && light {
                let (order, out) = dup_run(&o1, &mut r, sha384, &mut fails);
                sum.bump("run:dataset-yielding-a-quad-twice");
                body.push(format!("impl_ok {once} tbl 1000 6 {} {} {} {}", c_quads(&order), out.code, pstr(&out.bytes), c_idmap(&out.idmap)));
            }
            // (i) blank node labels taken from the name spaces the algorithm uses itself (c14n0.. in the canonical and
            // in other arrangements, near misses, b0.., a / z), on the dataset and on edited versions of it: same
            // document, and (when step 5 meets no tie) the same identifier for every node
            if out1.code == 0 && spec1.is_ok() && !d_blanks(&o1).is_empty() && work <= 200 {
                let mut ra = base.fork(idx as u64).fork(0xA11A5);
                let canon: BTreeMap<String, String> = out1.idmap.iter().cloned().collect();
                let labels1: Vec<String> = d_blanks(&o1).into_iter().collect();
                if labels1.iter().all(|l| canon.contains_key(l)) {
                    let other = quick_relabel(&o1, !sha384).ok().map(|x| x.1);
                    let no_ties = spec1.as_ref().map(|s| s.ties.is_empty()).unwrap_or(false);
                    let mut variants: Vec<(String, Vec<Q>, Result<String, String>, Vec<(String, String)>, bool)> = vec![];
                    for (name, new) in alias_schemes(&labels1, &canon, other.as_ref(), &mut ra) {
                        variants.push((name, o1.clone(), Ok(out1.bytes.clone()), labels1.iter().cloned().zip(new).collect(), true));
                    }
                    for (name, dd, m) in alias_edits(&o1, &canon, &mut ra) {
                        let rb = quick_bytes(&dd, sha384);
                        variants.push((name, dd, rb, m, false));
                    }
                    let pick = ra.below(variants.len());
                    let mut bad_handed = false;
                    let got1: Vec<String> = out1.quads.iter().map(show_q).collect();
                    for (k, (name, dd, refb, m, pure)) in variants.iter().enumerate() {
                        let mm: BTreeMap<String, String> = m.iter().cloned().collect();
                        let f = |l: &str| mm.get(l).cloned().unwrap_or_else(|| l.to_string());
                        let dv: Vec<Q> = dd.iter().map(|q| rename_q(q, &f)).collect();
                        let shaped = canonical_shaped(&d_blanks(&dv));
                        sum.bump("relabelled-with-the-algorithm's-own-identifiers");
                        sum.bump(if shaped { "labels:exactly-c14n0..c14n(n-1)" } else { "labels:other-own-identifiers" });
                        if !*pure { sum.bump("labels:on-an-edited-document"); }
                        let before = fails.len();
                        let got = quick_bytes(&dv, sha384);
                        if got != *refb { alias_mismatch(name, dd, refb, &dv, &got, sha384, &mut fails); }
                        if *pure && no_ties {
                            // the relabelling map does not depend on the labels: every node gets the identifier it got before
                            match quick_relabel(&dv, sha384) {
                                Err(e) => fails.push(format!("relabel fails ({e}) on {} ({name})", show_d(&dv))),
                                Ok((qs, im)) => {
                                    if let Some(l) = labels1.iter().find(|l| im.get(&f(l.as_str())) != canon.get(l.as_str())) {
                                        fails.push(format!("the identifier map depends on the blank node labels (no tie in step 5): _:{l} of {} gets {:?}, but under the label _:{} ({name}) in {} it gets {:?}", show_d(dd), canon.get(l.as_str()), f(l.as_str()), show_d(&dv), im.get(&f(l.as_str()))));
                                    } else if qs != got1 {
                                        fails.push(format!("the relabelled quads depend on the blank node labels (no tie in step 5): {:?} for {} but {:?} for {} ({name})", got1, show_d(dd), qs, show_d(&dv)));
                                    }
                                }
                            }
                        }
                        let bad = fails.len() > before;
                        if k == pick || (bad && !bad_handed) {
                            // run with the recording hash function, checked on its own and handed to the model
                            if bad { bad_handed = true; }
                            if !*pure {
                                let (ob, outb) = run_impl_p(dd, ORDERED, sha384, 1.0, 6, false);
                                let specb = spec_run(&ob, sha384);
                                check_one(&format!("edited dataset ({name})"), &ob, &ob, &outb, &specb, 1000, 6, &mut fails);
                                body.push(format!("impl_ok {once} tbl 1000 6 {} {} {} {}", c_quads(&ob), outb.code, pstr(&outb.bytes), c_idmap(&outb.idmap)));
                            }
                            let (o3, out3) = run_impl_p(&dv, ORDERED, sha384, 1.0, 6, false);
                            let spec3 = spec_run(&o3, sha384);
                            check_one(&format!("relabelled ({name})"), &o3, &o3, &out3, &spec3, 1000, 6, &mut fails);
                            sum.bump("run:relabelled-with-own-identifiers,model-compared");
                            body.push(format!("alias_ok {once} tbl 1000 6 {} {} {} {} {} {}", c_quads(dd), c_idmap(m), coq_bool(shaped), out3.code, pstr(&out3.bytes), c_idmap(&out3.idmap)));
                            if a.only.is_some() { println!("ALIAS {name}: order={} => code {} {} bytes={:?} idmap={:?}", show_d(&o3), out3.code, out3.msg, out3.bytes, out3.idmap); }
                        }
                    }
                }
            }
            text.push_str(&format!(" copy={}", show_d(&d2)));
        }
        let table = take_table();
        max_table = max_table.max(table.len());
        if a.only.is_some() {
            println!("CASE {idx}: {text}");
            if let Ok(s) = &spec1 { println!("SPEC bytes={:?} idmap={:?} max_depth={} max_list={} ties={:?}", s.bytes, s.idmap, s.max_depth, s.max_list, s.ties); }
            println!("hash table: {} entries", table.len());
            for f in &fails { println!("ORACLE FAILURE: {f}"); }
        }
        for f in fails { sum.oracle_failures.push((idx.to_string(), f)); }
        let escapes = d.iter().any(|q| q.0.iter().any(|t| matches!(t, SimpleTerm::LiteralDatatype(l, _) | SimpleTerm::LiteralLanguage(l, _) if l.chars().any(|c| (c as u32) < 0x20 || c == '"' || c == '\\' || c == '\u{7f}'))));
        let nontrivial = nontrivial_nd || (c06 && (escapes || !is_supported(&d)));
        if seen.insert(text.clone()) && nontrivial { sum.distinct_nontrivial += 1; }
        sum.bump(&format!("shape:{shape_name}"));
        if d.iter().any(|q| matches!(q.0[1], SimpleTerm::LiteralDatatype(..) | SimpleTerm::LiteralLanguage(..))) { sum.bump("generalized:literal-predicate"); }
        if has_repeat(&d) { sum.bump("class:node-twice-in-a-quad"); }
        if has_three(&d) { sum.bump("class:three-blank-nodes-in-a-quad"); }
        if has_multi_pred(&d) { sum.bump(if nontrivial_nd { "class:two-nodes-related-by-several-predicates,hash-n-degree-ran" } else { "class:two-nodes-related-by-several-predicates" }); }
        if nontrivial_nd { sum.bump("hash-n-degree-ran"); }
        if escapes { sum.bump("literal-needs-escaping"); }
        sum.bump(if sha384 { "hash:sha384" } else { "hash:sha256" });
        if sum.samples.len() < 5 && nontrivial { sum.samples.push(format!("case {idx}: {text}")); }
        sum.evaluations += 1;
        cases.push((idx, format!("let tbl := {} in {}", coq_table(&table), body.join(" && "))));
    }
    if a.only.is_none() {
        let header = if c06 { "From Coq Require Import Uint63.\nFrom Sophia.C05 Require Import Model.\nFrom Sophia.C06 Require Import Model." } else { "From Coq Require Import Uint63.\nFrom Sophia.C05 Require Import Model Entry Alias." };
        sum.shards = write_shards(&a.out, header, &cases, a.shards);
        sum.extra.push(("max_hash_table_entries".into(), max_table.to_string()));
        std::fs::write(format!("{}/summary.json", a.out), sum.to_json()).unwrap();
    }
    println!("{}: {} cases, {} distinct non-trivial, {} oracle failures", mode.to_lowercase(), sum.evaluations, sum.distinct_nontrivial, sum.oracle_failures.len());
}
