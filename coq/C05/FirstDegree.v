From Sophia.C05 Require Import Model.
From Coq Require Import Permutation.

(* C05/FirstDegree.v -- steps 2 and 3 of relabel_with: the blank-node-to-quads map and the
   first-degree hash.  Universally quantified statements, no assumptions. *)

(* ================= 1. BTreeMap as a key-sorted association list ================= *)

Lemma ks_head_lt {V} (k : str) (v : V) r :
  keys_sorted ((k, v) :: r) -> forall k' v', In (k', v') r -> str_cmp k k' = Lt.
Proof.
  revert k v; induction r as [|[k1 v1] r IH]; intros k v Hs k' v' Hin.
  - destruct Hin.
  - destruct Hs as [H1 H2]. destruct Hin as [E|Hin].
    + inversion E; subst; exact H1.
    + eapply str_cmp_lt_trans; [exact H1|]. eapply IH; eauto.
Qed.

Lemma ks_cons_iff {V} (k : str) (v : V) r :
  keys_sorted ((k, v) :: r) <->
  (forall k' v', In (k', v') r -> str_cmp k k' = Lt) /\ keys_sorted r.
Proof.
  split.
  - intros Hs. split; [apply (ks_head_lt _ _ _ Hs)|]. destruct Hs; assumption.
  - intros [Ha Hs]. destruct r as [|[k1 v1] r].
    + split; exact I.
    + split; [apply (Ha k1 v1); left; reflexivity | exact Hs].
Qed.

Lemma bt_get_lt {V} (m : list (str * V)) k :
  (forall k' v', In (k', v') m -> str_cmp k k' = Lt) -> bt_get m k = None.
Proof.
  induction m as [|[k1 v1] m IH]; intros Ha; cbn [bt_get]; [reflexivity|].
  destruct (str_eqb_spec k1 k) as [->|Hn].
  - specialize (Ha k v1 (or_introl eq_refl)). rewrite str_cmp_refl in Ha; discriminate.
  - apply IH; intros; eapply Ha; right; eauto.
Qed.

Lemma bt_push_in {V} k (v : V) m k' l :
  In (k', l) (bt_push k v m) -> k' = k \/ exists l', In (k', l') m.
Proof.
  induction m as [|[k1 vs] m IH]; cbn [bt_push]; intros Hin.
  - destruct Hin as [E|[]]; inversion E; auto.
  - destruct (str_cmp k k1) eqn:E.
    + destruct Hin as [E1|Hin].
      * inversion E1; subst. right; exists vs; left; reflexivity.
      * right; exists l; right; auto.
    + destruct Hin as [E1|Hin].
      * inversion E1; auto.
      * right; exists l; exact Hin.
    + destruct Hin as [E1|Hin].
      * inversion E1; subst; right; exists l; left; reflexivity.
      * destruct (IH Hin) as [->|[l' Hl]]; auto. right; exists l'; right; auto.
Qed.

Theorem bt_push_sorted {V} k (v : V) (m : list (str * list V)) :
  keys_sorted m -> keys_sorted (bt_push k v m).
Proof.
  induction m as [|[k1 vs] m IH]; intros Hs; cbn [bt_push].
  - split; exact I.
  - destruct (str_cmp k k1) eqn:E.
    + apply ks_cons_iff in Hs. apply ks_cons_iff. exact Hs.
    + split; [exact E | exact Hs].
    + apply ks_cons_iff in Hs as [Ha Hs]. apply ks_cons_iff. split; [|apply IH; exact Hs].
      intros k' l Hin. apply bt_push_in in Hin as [->|[l' Hl]].
      * rewrite str_cmp_antisym, E; reflexivity.
      * eapply Ha; eauto.
Qed.

Theorem bt_get_push_same {V} k (v : V) (m : list (str * list V)) :
  keys_sorted m ->
  bt_get (bt_push k v m) k = Some (match bt_get m k with Some l => l ++ [v] | None => [v] end).
Proof.
  induction m as [|[k1 vs] m IH]; intros Hs; cbn [bt_push bt_get].
  - rewrite str_eqb_refl. reflexivity.
  - destruct (str_cmp k k1) eqn:E; cbn [bt_get].
    + apply str_cmp_eq in E; subst k1. rewrite str_eqb_refl. reflexivity.
    + rewrite str_eqb_refl. destruct (str_eqb_spec k1 k) as [->|Hn].
      * rewrite str_cmp_refl in E; discriminate.
      * rewrite (bt_get_lt m k); [reflexivity|]. intros k' v' Hin.
        apply ks_cons_iff in Hs as [Ha _].
        eapply str_cmp_lt_trans; [exact E | eapply Ha; eauto].
    + destruct (str_eqb_spec k1 k) as [->|Hn].
      * rewrite str_cmp_refl in E; discriminate.
      * apply IH. apply ks_cons_iff in Hs; tauto.
Qed.

Theorem bt_get_push_other {V} k k' (v : V) (m : list (str * list V)) :
  keys_sorted m -> k' <> k -> bt_get (bt_push k v m) k' = bt_get m k'.
Proof.
  intros _ Hne. induction m as [|[k1 vs] m IH]; cbn [bt_push bt_get].
  - destruct (str_eqb_spec k k') as [E|_]; [congruence|reflexivity].
  - destruct (str_cmp k k1) eqn:E; cbn [bt_get].
    + apply str_cmp_eq in E; subst k1.
      destruct (str_eqb_spec k k') as [E|_]; [congruence|reflexivity].
    + destruct (str_eqb_spec k k') as [E'|_]; [congruence|reflexivity].
    + destruct (str_eqb k1 k'); [reflexivity|exact IH].
Qed.

(* ================= 2. step 2 of relabel_with ================= *)

Definition mentions (b : str) (q : quad) : bool := mem b (bnodes_q q).
Definition labels (cs : list (N * term)) : list str := flat_map comp_label cs.

Lemma mem_cons b x l : mem b (x :: l) = str_eqb b x || mem b l.
Proof. reflexivity. Qed.

Lemma mem_In b l : mem b l = true <-> In b l.
Proof.
  unfold mem. rewrite existsb_exists. split.
  - intros [x [Hx E]]. apply str_eqb_eq in E. subst; auto.
  - intros Hin. exists b. split; auto. apply str_eqb_refl.
Qed.

(* one quad: q is pushed exactly once under each label of cs that is not in seen *)
Lemma step2_comps_spec q cs : forall seen m0 m,
  step2_comps true q seen cs m0 = Ok m -> keys_sorted m0 ->
  keys_sorted m /\
  forall b, bt_get m b =
    if mem b (labels cs) && negb (mem b seen)
    then Some (match bt_get m0 b with Some l => l ++ [q] | None => [q] end)
    else bt_get m0 b.
Proof.
  induction cs as [|[p c] cs IH]; intros seen m0 m Hst Hs; cbn [step2_comps] in Hst.
  - inversion Hst; subst. split; auto.
  - destruct (is_bad c); [discriminate|].
    unfold labels; cbn [flat_map]; fold (labels cs). unfold comp_label at 1; cbn [snd].
    destruct (bnode_id c) as [b0|].
    + cbn [andb] in Hst. destruct (mem b0 seen) eqn:Em.
      * destruct (IH _ _ _ Hst Hs) as [Hk Hg]. split; auto. intros b. rewrite Hg.
        cbn [app]. rewrite mem_cons.
        destruct (str_eqb_spec b b0) as [->|Hn]; cbn [orb]; [|reflexivity].
        rewrite Em. cbn [negb]. rewrite !andb_false_r. reflexivity.
      * destruct (IH _ _ _ Hst (bt_push_sorted b0 q m0 Hs)) as [Hk Hg]. split; auto.
        intros b. rewrite Hg. cbn [app]. rewrite !mem_cons.
        destruct (str_eqb_spec b b0) as [->|Hn]; cbn [orb negb].
        -- rewrite andb_false_r, Em. cbn [negb andb].
           rewrite bt_get_push_same by auto. reflexivity.
        -- rewrite bt_get_push_other by auto. reflexivity.
    + cbn [app]. apply IH; auto.
Qed.

Definition opt_app {V} (o : option (list V)) (l : list V) : option (list V) :=
  match l with
  | [] => o
  | _ => Some (match o with Some x => x | None => [] end ++ l)
  end.

Lemma step2_spec d : forall m0 m,
  step2 true d m0 = Ok m -> keys_sorted m0 ->
  keys_sorted m /\ forall b, bt_get m b = opt_app (bt_get m0 b) (filter (mentions b) d).
Proof.
  induction d as [|q d IH]; intros m0 m Hst Hs; cbn [step2] in Hst.
  - inversion Hst; subst; split; auto.
  - destruct (bnode_id (q_pred q)); [discriminate|].
    destruct (step2_comps true q [] (comps q) m0) as [m1|e] eqn:E1; [|discriminate].
    destruct (step2_comps_spec _ _ _ _ _ E1 Hs) as [Hk1 Hg1].
    destruct (IH _ _ Hst Hk1) as [Hk Hg]. split; auto.
    intros b. rewrite Hg, Hg1.
    change (mem b (labels (comps q))) with (mentions b q).
    change (mem b []) with false. cbn [negb filter]. rewrite andb_true_r.
    destruct (mentions b q); [|reflexivity].
    destruct (bt_get m0 b); unfold opt_app; destruct (filter (mentions b) d);
      cbn [app]; rewrite <- ?app_assoc; reflexivity.
Qed.

Lemma existsb_filter {A} (f : A -> bool) l :
  existsb f l = match filter f l with [] => false | _ => true end.
Proof. induction l as [|a l IH]; cbn [existsb filter]; auto. destruct (f a); auto. Qed.

Theorem b2q_spec : forall d m b, step2 true d [] = Ok m ->
  keys_sorted m /\
  bt_get m b = (if existsb (mentions b) d then Some (filter (mentions b) d) else None).
Proof.
  intros d m b Hst. destruct (step2_spec d [] m Hst I) as [Hk Hg]. split; auto.
  rewrite Hg, existsb_filter. cbn [bt_get]. unfold opt_app.
  destruct (filter (mentions b) d); reflexivity.
Qed.

(* the code before the repair (once = false): one push per occurrence of the label *)
Definition occ (b : str) (q : quad) : nat := length (filter (str_eqb b) (bnodes_q q)).

Lemma opt_app_push {V} (o : option (list V)) v R :
  opt_app (Some (match o with Some l => l ++ [v] | None => [v] end)) R = opt_app o (v :: R).
Proof.
  destruct o, R; unfold opt_app; cbn [app]; rewrite <- ?app_assoc; reflexivity.
Qed.

Lemma opt_app_app {V} (o : option (list V)) l1 l2 :
  opt_app (opt_app o l1) l2 = opt_app o (l1 ++ l2).
Proof.
  destruct l1 as [|a l1]; [reflexivity|]. destruct l2 as [|c l2].
  - rewrite app_nil_r. reflexivity.
  - unfold opt_app. cbn [app]. rewrite <- app_assoc. reflexivity.
Qed.

Lemma step2_comps_prefix_spec q cs : forall seen m0 m,
  step2_comps false q seen cs m0 = Ok m -> keys_sorted m0 ->
  keys_sorted m /\
  forall b, bt_get m b =
    opt_app (bt_get m0 b) (repeat q (length (filter (str_eqb b) (labels cs)))).
Proof.
  induction cs as [|[p c] cs IH]; intros seen m0 m Hst Hs; cbn [step2_comps] in Hst.
  - inversion Hst; subst. split; auto.
  - destruct (is_bad c); [discriminate|].
    unfold labels; cbn [flat_map]; fold (labels cs). unfold comp_label at 1; cbn [snd].
    destruct (bnode_id c) as [b0|].
    + cbn [andb] in Hst.
      destruct (IH _ _ _ Hst (bt_push_sorted b0 q m0 Hs)) as [Hk Hg]. split; auto.
      intros b. rewrite Hg. cbn [app filter].
      destruct (str_eqb_spec b b0) as [->|Hn].
      * rewrite bt_get_push_same by auto. cbn [length repeat]. apply opt_app_push.
      * rewrite bt_get_push_other by auto. reflexivity.
    + cbn [app]. eapply IH; eauto.
Qed.

Lemma step2_prefix_spec d : forall m0 m,
  step2 false d m0 = Ok m -> keys_sorted m0 ->
  keys_sorted m /\
  forall b, bt_get m b = opt_app (bt_get m0 b) (flat_map (fun q => repeat q (occ b q)) d).
Proof.
  induction d as [|q d IH]; intros m0 m Hst Hs; cbn [step2] in Hst.
  - inversion Hst; subst; split; auto.
  - destruct (bnode_id (q_pred q)); [discriminate|].
    destruct (step2_comps false q [] (comps q) m0) as [m1|e] eqn:E1; [|discriminate].
    destruct (step2_comps_prefix_spec _ _ _ _ _ E1 Hs) as [Hk1 Hg1].
    destruct (IH _ _ Hst Hk1) as [Hk Hg]. split; auto.
    intros b. rewrite Hg, Hg1, opt_app_app. reflexivity.
Qed.

Lemma mem_count b l :
  mem b l = match length (filter (str_eqb b) l) with O => false | S _ => true end.
Proof.
  induction l as [|a l IH]; [reflexivity|]. rewrite mem_cons. cbn [filter].
  destruct (str_eqb b a); cbn [orb length]; auto.
Qed.

Lemma existsb_mentions_occ b d :
  existsb (mentions b) d =
  match flat_map (fun q => repeat q (occ b q)) d with [] => false | _ => true end.
Proof.
  induction d as [|q d IH]; cbn [existsb flat_map]; [reflexivity|].
  unfold mentions at 1. rewrite mem_count. fold (occ b q).
  destruct (occ b q); cbn [orb repeat app]; auto.
Qed.

Theorem b2q_spec_prefix : forall d m b, step2 false d [] = Ok m ->
  bt_get m b = (if existsb (mentions b) d
                then Some (flat_map (fun q => repeat q (occ b q)) d) else None).
Proof.
  intros d m b Hst. destruct (step2_prefix_spec d [] m Hst I) as [_ Hg].
  rewrite Hg, existsb_mentions_occ. cbn [bt_get]. unfold opt_app.
  destruct (flat_map (fun q => repeat q (occ b q)) d); reflexivity.
Qed.

(* ================= 3. sorting strings ================= *)

Lemma str_leb_total x y : str_leb x y = false -> str_leb y x = true.
Proof.
  unfold str_leb. rewrite (str_cmp_antisym x y). destruct (str_cmp x y); cbn; congruence.
Qed.

Lemma str_leb_antisym x y : str_leb x y = true -> str_leb y x = true -> x = y.
Proof.
  unfold str_leb. rewrite (str_cmp_antisym x y). destruct (str_cmp x y) eqn:E; cbn; try congruence.
  intros _ _. apply str_cmp_eq; exact E.
Qed.

Lemma str_leb_trans x y z : str_leb x y = true -> str_leb y z = true -> str_leb x z = true.
Proof.
  unfold str_leb. destruct (str_cmp x y) eqn:E1; try congruence;
  destruct (str_cmp y z) eqn:E2; try congruence; intros _ _.
  - apply str_cmp_eq in E1, E2; subst. rewrite str_cmp_refl; reflexivity.
  - apply str_cmp_eq in E1; subst. rewrite E2; reflexivity.
  - apply str_cmp_eq in E2; subst. rewrite E1; reflexivity.
  - rewrite (str_cmp_lt_trans _ _ _ E1 E2); reflexivity.
Qed.

Lemma insert_str_comm (x y : str) l :
  insert_by str_leb x (insert_by str_leb y l) = insert_by str_leb y (insert_by str_leb x l).
Proof.
  induction l as [|z l IH]; cbn [insert_by].
  - destruct (str_leb x y) eqn:Exy, (str_leb y x) eqn:Eyx; cbn [insert_by]; rewrite ?Exy, ?Eyx; auto.
    + rewrite (str_leb_antisym _ _ Exy Eyx). reflexivity.
    + apply str_leb_total in Exy. congruence.
  - destruct (str_leb y z) eqn:Eyz, (str_leb x z) eqn:Exz; cbn [insert_by]; rewrite ?Eyz, ?Exz.
    + destruct (str_leb x y) eqn:Exy, (str_leb y x) eqn:Eyx; cbn [insert_by]; rewrite ?Eyz, ?Exz; auto.
      * rewrite (str_leb_antisym _ _ Exy Eyx). reflexivity.
      * apply str_leb_total in Exy. congruence.
    + assert (Exy : str_leb x y = false).
      { destruct (str_leb x y) eqn:E; auto. rewrite (str_leb_trans _ _ _ E Eyz) in Exz. discriminate. }
      rewrite ?Exy; cbn [insert_by]; rewrite ?Exy, ?Exz, ?Eyz. reflexivity.
    + assert (Eyx : str_leb y x = false).
      { destruct (str_leb y x) eqn:E; auto. rewrite (str_leb_trans _ _ _ E Exz) in Eyz. discriminate. }
      rewrite ?Eyx; cbn [insert_by]; rewrite ?Eyx, ?Exz, ?Eyz. reflexivity.
    + rewrite IH. reflexivity.
Qed.

Theorem sort_by_str_perm : forall l l' : list str,
  Permutation l l' -> sort_by str_leb l = sort_by str_leb l'.
Proof.
  unfold sort_by. induction 1; cbn [fold_right]; auto.
  - congruence.
  - apply insert_str_comm.
  - congruence.
Qed.

(* ================= 4. hash_first_degree_quads ================= *)

Lemma bnodes_q_eq s p o g :
  bnodes_q (s, p, o, g) =
  comp_label (pos_s, s) ++ comp_label (pos_p, p) ++ comp_label (pos_o, o)
  ++ match g with Some t => comp_label (pos_g, t) | None => [] end.
Proof.
  unfold bnodes_q, comps. destruct g; cbn [flat_map app]; rewrite ?app_nil_r; reflexivity.
Qed.

Lemma nq_for_hash_rename pi b t :
  (forall x, In x (comp_label (0, t)) -> pi x = pi b -> x = b) ->
  nq_for_hash (pi b) (rename_t pi t) = nq_for_hash b t.
Proof.
  destruct t; try reflexivity. intros Hx. cbn [rename_t nq_for_hash].
  destruct (str_eqb_spec s b) as [->|Hn].
  - rewrite str_eqb_refl; reflexivity.
  - destruct (str_eqb_spec (pi s) (pi b)) as [E|_]; [|reflexivity].
    exfalso. apply Hn. apply Hx; auto. left; reflexivity.
Qed.

Lemma comp_label_pos n n' t : comp_label (n, t) = comp_label (n', t).
Proof. reflexivity. Qed.

Lemma h1d_line_rename pi b q :
  (forall x, In x (bnodes_q q) -> pi x = pi b -> x = b) ->
  h1d_line (pi b) (rename_q pi q) = h1d_line b q.
Proof.
  destruct q as [[[s p] o] g]. rewrite bnodes_q_eq. intros Hx.
  cbn [rename_q h1d_line].
  rewrite !nq_for_hash_rename.
  - destruct g as [t|]; cbn [option_map]; [|reflexivity].
    rewrite nq_for_hash_rename; [reflexivity|].
    intros x Hin. apply Hx. rewrite !in_app_iff. right; right; right. exact Hin.
  - intros x Hin. apply Hx. rewrite !in_app_iff. right; right; left. exact Hin.
  - intros x Hin. apply Hx. rewrite !in_app_iff. right; left. exact Hin.
  - intros x Hin. apply Hx. rewrite !in_app_iff. left. exact Hin.
Qed.

Theorem h1d_invariant : forall (H : str -> str) (pi : str -> str) (b : str) (qs qs' : list quad),
  (forall x, In x (bnodes qs) -> pi x = pi b -> x = b) ->
  Permutation qs' (map (rename_q pi) qs) ->
  h1d H (pi b) qs' = h1d H b qs.
Proof.
  intros H pi b qs qs' Hx Hp. unfold h1d. f_equal. f_equal.
  rewrite (sort_by_str_perm _ _ (Permutation_map (h1d_line (pi b)) Hp)).
  f_equal. rewrite map_map. apply map_ext_in. intros q Hq.
  apply h1d_line_rename. intros x Hin. apply Hx.
  unfold bnodes. apply in_flat_map. exists q; auto.
Qed.

(* ================= 5. the dataset-level statement ================= *)

Lemma step2_comps_ok once q cs :
  forallb (fun c => negb (is_bad (snd c))) cs = true ->
  forall seen m, exists m', step2_comps once q seen cs m = Ok m'.
Proof.
  induction cs as [|[p c] cs IH]; cbn [forallb step2_comps snd]; intros Hf seen m.
  - eexists; reflexivity.
  - apply andb_true_iff in Hf as [H1 H2]. destruct (is_bad c); [discriminate|].
    destruct (bnode_id c); [destruct (once && mem s seen)|]; apply IH; auto.
Qed.

Lemma step2_ok once d :
  supported d = true -> forall m, exists m', step2 once d m = Ok m'.
Proof.
  unfold supported. induction d as [|q d IH]; cbn [forallb step2]; intros Hf m.
  - eexists; reflexivity.
  - apply andb_true_iff in Hf as [H1 H2]. unfold supported_q in H1.
    apply andb_true_iff in H1 as [H0 H1].
    destruct (bnode_id (q_pred q)); [discriminate|].
    destruct (step2_comps_ok once q (comps q) H1 [] m) as [m1 ->]. apply IH; auto.
Qed.

Lemma is_bad_rename pi t : is_bad (rename_t pi t) = is_bad t.
Proof. destruct t; reflexivity. Qed.

Lemma supported_q_rename pi q : supported_q (rename_q pi q) = supported_q q.
Proof.
  destruct q as [[[s p] o] g]. unfold supported_q. cbn [rename_q q_pred]. f_equal.
  - destruct p; reflexivity.
  - unfold comps. destruct g; cbn [option_map app forallb snd]; rewrite !is_bad_rename; reflexivity.
Qed.

Lemma supported_rename pi d : supported (map (rename_q pi) d) = supported d.
Proof.
  unfold supported. induction d as [|q d IH]; cbn [map forallb]; auto.
  rewrite supported_q_rename, IH. reflexivity.
Qed.

Lemma supported_perm d d' : Permutation d d' -> supported d = supported d'.
Proof.
  unfold supported. induction 1; cbn [forallb]; auto; try congruence.
  destruct (supported_q x), (supported_q y); reflexivity.
Qed.

Lemma filter_perm {A} (f : A -> bool) l l' :
  Permutation l l' -> Permutation (filter f l) (filter f l').
Proof.
  induction 1; cbn [filter].
  - constructor.
  - destruct (f x); auto.
  - destruct (f x), (f y); auto. constructor.
  - eapply perm_trans; eauto.
Qed.

Lemma filter_map_in {A B} (f' : B -> bool) (f : A -> bool) (g : A -> B) l :
  (forall a, In a l -> f' (g a) = f a) -> filter f' (map g l) = map g (filter f l).
Proof.
  induction l as [|a l IH]; intros Hf; cbn [map filter]; auto.
  rewrite (Hf a (or_introl eq_refl)), IH.
  - destruct (f a); reflexivity.
  - intros; apply Hf; right; auto.
Qed.

Lemma comp_label_rename pi n t : comp_label (n, rename_t pi t) = map pi (comp_label (n, t)).
Proof. destruct t; reflexivity. Qed.

Lemma bnodes_q_rename pi q : bnodes_q (rename_q pi q) = map pi (bnodes_q q).
Proof.
  destruct q as [[[s p] o] g]. cbn [rename_q]. rewrite !bnodes_q_eq, !map_app, !comp_label_rename.
  destruct g; cbn [option_map]; rewrite ?comp_label_rename; reflexivity.
Qed.

Lemma mem_map_inj pi b l :
  (forall x, In x l -> pi x = pi b -> x = b) -> mem (pi b) (map pi l) = mem b l.
Proof.
  induction l as [|x l IH]; intros Hx; cbn [map]; [reflexivity|].
  rewrite !mem_cons, IH by (intros; apply Hx; auto; right; auto). f_equal.
  destruct (str_eqb_spec b x) as [->|Hn].
  - apply str_eqb_refl.
  - destruct (str_eqb_spec (pi b) (pi x)) as [E|_]; [|reflexivity].
    exfalso. apply Hn. symmetry. apply Hx; auto. left; reflexivity.
Qed.

Lemma mentions_rename pi b q :
  (forall x, In x (bnodes_q q) -> pi x = pi b -> x = b) ->
  mentions (pi b) (rename_q pi q) = mentions b q.
Proof. intros Hx. unfold mentions. rewrite bnodes_q_rename. apply mem_map_inj; auto. Qed.

Theorem first_degree_invariant : forall H pi d1 d2 b,
  (forall x y, In x (bnodes d1) -> In y (bnodes d1) -> pi x = pi y -> x = y) ->
  Permutation d2 (map (rename_q pi) d1) ->
  supported d1 = true ->
  In b (bnodes d1) ->
  first_degree H true d2 (pi b) = first_degree H true d1 b
  /\ exists h, first_degree H true d1 b = Some h.
Proof.
  intros H pi d1 d2 b Hinj Hp Hsup Hb.
  assert (Hsup2 : supported d2 = true).
  { rewrite (supported_perm _ _ Hp), supported_rename; auto. }
  destruct (step2_ok true d1 Hsup []) as [m1 E1].
  destruct (step2_ok true d2 Hsup2 []) as [m2 E2].
  unfold first_degree. rewrite E1, E2.
  destruct (b2q_spec d1 m1 b E1) as [_ G1].
  destruct (b2q_spec d2 m2 (pi b) E2) as [_ G2]. rewrite G1, G2.
  assert (Hloc : forall q, In q d1 -> forall x, In x (bnodes_q q) -> pi x = pi b -> x = b).
  { intros q Hq x Hx E. apply Hinj; auto. unfold bnodes. apply in_flat_map. exists q; auto. }
  unfold bnodes in Hb. apply in_flat_map in Hb as [q0 [Hq0 Hb0]].
  assert (X1 : existsb (mentions b) d1 = true).
  { apply existsb_exists. exists q0. split; auto. apply mem_In; auto. }
  assert (X2 : existsb (mentions (pi b)) d2 = true).
  { apply existsb_exists. exists (rename_q pi q0). split.
    - eapply Permutation_in; [apply Permutation_sym; exact Hp|]. apply in_map; auto.
    - rewrite mentions_rename by (apply Hloc; auto). apply mem_In; auto. }
  rewrite X1, X2. cbn [option_map]. split; [|eexists; reflexivity]. f_equal.
  apply h1d_invariant.
  - intros x Hx E. unfold bnodes in Hx. apply in_flat_map in Hx as [q [Hq Hx]].
    apply filter_In in Hq as [Hq _]. eapply Hloc; eauto.
  - eapply perm_trans; [apply filter_perm; exact Hp|].
    rewrite (filter_map_in (mentions (pi b)) (mentions b) (rename_q pi) d1).
    + apply Permutation_refl.
    + intros q Hq. apply mentions_rename. apply Hloc; auto.
Qed.

