(* C05/Reader.v -- a reader for canonical N-Quads documents (the inverse of _cnq.rs `nq` and of
   the line format of normalize_with).  Definitions only; the proofs are in NqProofs.v. *)
From Sophia.C05 Require Import Model.

(* ---------- un-escaping of a literal's lexical form ---------- *)
(* ECHAR: the character after a backslash *)
Definition unesc1 (d : N) : option N :=
  if d =? 34 then Some 34          (* backslash quote *)
  else if d =? 92 then Some 92     (* \\ *)
  else if d =? 110 then Some 10    (* \n *)
  else if d =? 114 then Some 13    (* \r *)
  else if d =? 116 then Some 9     (* \t *)
  else if d =? 98 then Some 8      (* \b *)
  else if d =? 102 then Some 12    (* \f *)
  else None.

(* HEX: 0-9 A-F a-f *)
Definition hexval (c : N) : option N :=
  if (48 <=? c) && (c <=? 57) then Some (c - 48)
  else if (65 <=? c) && (c <=? 70) then Some (c - 55)
  else if (97 <=? c) && (c <=? 102) then Some (c - 87)
  else None.

Fixpoint unesc (s : str) : str :=
  match s with
  | [] => []
  | c :: s1 =>
      if c =? 92 then
        match s1 with
        | [] => [c]
        | d :: s2 =>
            match unesc1 d with
            | Some x => x :: unesc s2
            | None =>
                if d =? 117 then                       (* \uXXXX *)
                  match s2 with
                  | h1 :: h2 :: h3 :: h4 :: s3 =>
                      match hexval h1, hexval h2, hexval h3, hexval h4 with
                      | Some a, Some b, Some e, Some f =>
                          (((a * 16 + b) * 16 + e) * 16 + f) :: unesc s3
                      | _, _, _, _ => c :: unesc s1
                      end
                  | _ => c :: unesc s1
                  end
                else c :: unesc s1
            end
        end
      else c :: unesc s1
  end.

(* split at the first quote (34) that is not preceded by a backslash escape:
   (the raw text before it, the text after it) *)
Fixpoint scan_quote (s : str) : option (str * str) :=
  match s with
  | [] => None
  | c :: s1 =>
      if c =? 34 then Some ([], s1)
      else if c =? 92 then
        match s1 with
        | [] => None
        | d :: s2 =>
            match scan_quote s2 with
            | Some (a, r) => Some (c :: d :: a, r)
            | None => None
            end
        end
      else
        match scan_quote s1 with
        | Some (a, r) => Some (c :: a, r)
        | None => None
        end
  end.

(* split at the first occurrence of [d] (which is consumed) *)
Fixpoint split_at (d : N) (s : str) : option (str * str) :=
  match s with
  | [] => None
  | c :: s1 =>
      if c =? d then Some ([], s1)
      else match split_at d s1 with
           | Some (a, r) => Some (c :: a, r)
           | None => None
           end
  end.

(* ---------- one term, including its trailing space ---------- *)
(* after '<': the IRI, '>' and the space *)
Definition read_iri_body (s : str) : option (str * str) :=
  match split_at 62 s with
  | Some (i, sp :: r) => if sp =? 32 then Some (i, r) else None
  | _ => None
  end.

(* after '_': ':' label ' ' *)
Definition read_bnode_body (s : str) : option (term * str) :=
  match s with
  | d :: s2 =>
      if d =? 58 then
        match split_at 32 s2 with
        | Some (b, r) => Some (Bnode b, r)
        | None => None
        end
      else None
  | [] => None
  end.

(* after the opening quote *)
Definition read_lit_body (s : str) : option (term * str) :=
  match scan_quote s with
  | Some (raw, r) =>
      match r with
      | [] => None
      | e :: r1 =>
          if e =? 32 then Some (LitDt (unesc raw) xsd_string, r1)
          else if e =? 64 then
            match split_at 32 r1 with
            | Some (tag, r2) => Some (LitLang (unesc raw) tag, r2)
            | None => None
            end
          else if e =? 94 then
            match r1 with
            | e2 :: e3 :: r2 =>
                if (e2 =? 94) && (e3 =? 60) then
                  match read_iri_body r2 with
                  | Some (dt, r3) => Some (LitDt (unesc raw) dt, r3)
                  | None => None
                  end
                else None
            | _ => None
            end
          else None
      end
  | None => None
  end.

Definition read_term (s : str) : option (term * str) :=
  match s with
  | [] => None
  | c :: s1 =>
      if c =? 60 then
        match read_iri_body s1 with
        | Some (i, r) => Some (Iri i, r)
        | None => None
        end
      else if c =? 95 then read_bnode_body s1
      else if c =? 34 then read_lit_body s1
      else None
  end.

(* ---------- one line ---------- *)
Definition read_eol (s : str) : option str :=
  match s with
  | a :: b :: r => if (a =? 46) && (b =? 10) then Some r else None
  | _ => None
  end.

Definition read_line (s : str) : option (quad * str) :=
  match read_term s with
  | Some (ts, r1) =>
      match read_term r1 with
      | Some (tp, r2) =>
          match read_term r2 with
          | Some (to, r3) =>
              match read_eol r3 with
              | Some r => Some ((ts, tp, to, None), r)
              | None =>
                  match read_term r3 with
                  | Some (tg, r4) =>
                      match read_eol r4 with
                      | Some r => Some ((ts, tp, to, Some tg), r)
                      | None => None
                      end
                  | None => None
                  end
              end
          | None => None
          end
      | None => None
      end
  | None => None
  end.

(* ---------- a whole document; fuel = an upper bound of the number of lines ---------- *)
Fixpoint read_doc (fuel : nat) (s : str) : option (list quad) :=
  match s with
  | [] => Some []
  | _ :: _ =>
      match fuel with
      | O => None
      | S f =>
          match read_line s with
          | Some (q, r) =>
              match read_doc f r with
              | Some qs => Some (q :: qs)
              | None => None
              end
          | None => None
          end
      end
  end.

(* ---------- well-formedness: what the line format can represent ---------- *)
(* the delimiter of each kind of term does not occur inside it; quoted triples and variables are
   not supported by RDFC-1.0 (rdfc10.rs rejects them before anything is serialised) *)
Definition wf_term (t : term) : Prop :=
  match t with
  | Iri s => ~ In 62 s
  | Bnode b => ~ In 32 b
  | LitDt _ dt => ~ In 62 dt
  | LitLang _ tag => ~ In 32 tag
  | Triple _ _ _ => False
  | Var _ => False
  end.

Definition is_iri (t : term) : Prop := match t with Iri _ => True | _ => False end.
Definition is_iri_or_bnode (t : term) : Prop :=
  match t with Iri _ | Bnode _ => True | _ => False end.

Definition wf_graph (g : option term) : Prop :=
  match g with
  | None => True
  | Some t => wf_term t /\ is_iri_or_bnode t
  end.

Definition wf_quad (q : quad) : Prop :=
  let '(s, p, o, g) := q in
  (wf_term s /\ is_iri_or_bnode s) /\ (wf_term p /\ is_iri p) /\ wf_term o /\ wf_graph g.
