(* C13/FreshProofs.v -- created blank nodes keep solutions apart; windows have the prescribed size *)
From Sophia.C13 Require Import Model Maps Fresh.
From Coq Require Import Lia.

Lemma nodupb_NoDup l : nodupb l = true <-> NoDup l.
Proof.
  induction l as [|x l IH]; simpl.
  - split; [constructor | reflexivity].
  - rewrite andb_true_iff, negb_true_iff, IH, (memb_false str_eqb str_eqb_eq). split.
    + intros [H1 H2]. constructor; assumption.
    + intros H. inversion H; subst. split; assumption.
Qed.

(* the checker says what it should *)
Theorem fresh_ok_spec D rows :
  fresh_ok D rows = true <->
  NoDup (concat rows) /\ forall l, In l (concat rows) -> ~ In l (ds_bnodes D).
Proof.
  unfold fresh_ok. rewrite andb_true_iff, nodupb_NoDup, forallb_forall.
  split; intros [H1 H2]; split; try assumption; intros l Hl.
  - apply (memb_false str_eqb str_eqb_eq). apply negb_true_iff. apply H2; assumption.
  - apply negb_true_iff. apply (memb_false str_eqb str_eqb_eq). apply H2; assumption.
Qed.
Lemma NoDup_app_tail {A} (a b : list A) : NoDup (a ++ b) -> NoDup b.
Proof. induction a as [|x a IH]; simpl; [tauto|]. intros H. inversion H; subst. auto. Qed.
(* in particular two different rows share no created node *)
Theorem fresh_ok_rows_disjoint D rows i j ri rj l :
  fresh_ok D rows = true -> nth_error rows i = Some ri -> nth_error rows j = Some rj ->
  In l ri -> In l rj -> i = j.
Proof.
  intros H. apply fresh_ok_spec in H. destruct H as [H _]. revert i j ri rj l H.
  induction rows as [|r rows IH]; intros i j ri rj l H Hi Hj Li Lj.
  - destruct i; discriminate.
  - simpl in H. pose proof (NoDup_app_tail _ _ H) as H'.
    destruct i as [|i], j as [|j]; simpl in Hi, Hj.
    + reflexivity.
    + exfalso. injection Hi as <-. apply nth_error_In in Hj.
      assert (In l (concat rows)) by (apply in_concat; exists rj; split; assumption).
      revert H Li H0. clear. intros H Li Lc. induction r as [|x r IHr]; [destruct Li|].
      simpl in H. inversion H; subst. destruct Li as [->|Li].
      * apply H2. apply in_or_app. right; assumption.
      * apply IHr; assumption.
    + exfalso. injection Hj as <-. apply nth_error_In in Hi.
      assert (In l (concat rows)) by (apply in_concat; exists ri; split; assumption).
      revert H Lj H0. clear. intros H Li Lc. induction r as [|x r IHr]; [destruct Li|].
      simpl in H. inversion H; subst. destruct Li as [->|Li].
      * apply H2. apply in_or_app. right; assumption.
      * apply IHr; assumption.
    + f_equal. eapply IH; eassumption.
Qed.

(* Extend(P, v, BNODE()): with pairwise distinct labels the solutions are pairwise distinct on v,
   whatever P's solutions are (also when they are all equal): DISTINCT merges none of them *)
Theorem extend_fresh_distinct v rows labels :
  NoDup labels -> NoDup (map (lookup v) (extend_fresh v rows labels)).
Proof.
  unfold extend_fresh. revert labels. induction rows as [|mu rows IH]; intros labels H; simpl.
  - constructor.
  - destruct labels as [|l labels]; simpl; [constructor|].
    inversion H; subst. constructor; [|apply IH; assumption].
    rewrite lookup_insert_eq. intros Hin. apply in_map_iff in Hin.
    destruct Hin as [mu' [E Hin]]. apply in_map_iff in Hin. destruct Hin as [[m l'] [<- Hin]].
    simpl in E. rewrite lookup_insert_eq in E. injection E as ->.
    apply in_combine_r in Hin. contradiction.
Qed.
Theorem extend_fresh_length v rows labels :
  length labels = length rows -> length (extend_fresh v rows labels) = length rows.
Proof. intros H. unfold extend_fresh. rewrite map_length, combine_length. lia. Qed.
Theorem extend_fresh_NoDup v rows labels :
  NoDup labels -> NoDup (extend_fresh v rows labels).
Proof.
  intros H. apply extend_fresh_distinct with (v := v) (rows := rows) in H.
  revert H. generalize (extend_fresh v rows labels). intros l.
  induction l as [|x l IH]; simpl; intros H; [constructor|].
  inversion H; subst. constructor; [|apply IH; assumption].
  intros Hin. apply H2. apply in_map. assumption.
Qed.

(* OFFSET s LIMIT n over a sequence of N solutions keeps min(n, N - s) of them, and they are the
   solutions s .. s + n - 1 of the sequence: a window never loses solutions that exist *)
Theorem slice_length {A} (s n : nat) (l : list A) :
  length (slice s (Some n) l) = Nat.min n (length l - s)%nat.
Proof. unfold slice. rewrite firstn_length, skipn_length. reflexivity. Qed.
Lemma nth_error_firstn_lt {A} (n k : nat) (l : list A) :
  (k < n)%nat -> nth_error (firstn n l) k = nth_error l k.
Proof.
  revert k l. induction n as [|n IH]; intros k l Hk; [lia|].
  destruct l as [|x l]; [destruct k; reflexivity|].
  destruct k as [|k]; simpl; [reflexivity | apply IH; lia].
Qed.
Theorem slice_nth {A} (s n : nat) (l : list A) (k : nat) :
  (k < n)%nat -> nth_error (slice s (Some n) l) k = nth_error l (s + k)%nat.
Proof.
  intros Hk. unfold slice. rewrite nth_error_firstn_lt by assumption.
  revert l. induction s as [|s IH]; intros l; simpl; [reflexivity|].
  destruct l as [|x l]; simpl; [destruct k; reflexivity | apply IH].
Qed.
Theorem select_slice_window (L : exprlib) qm names inner (s n : nat) gm b vs rows :
  select L qm names inner gm b = Ok vs rows ->
  exists rows', select L qm names (@Slice L inner s (Some n)) gm b = Ok vs rows' /\
                length rows' = Nat.min n (length rows - s)%nat /\
                forall k : nat, (k < n)%nat -> nth_error rows' k = nth_error rows (s + k)%nat.
Proof.
  intros H. exists (slice s (Some n) rows). simpl. rewrite H.
  split; [reflexivity|]. split; [apply slice_length | intros k Hk; apply slice_nth; assumption].
Qed.
