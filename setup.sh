#!/bin/bash
# Build the framework from files on disk only (offline): Coq development, harness crate.
set -u
cd "$(dirname "$0")"
export CARGO_NET_OFFLINE=true
mkdir -p build/logs coq/gen
python3 lib/gen_all.py || echo "setup: translators reported a problem (checks will report it)"
( cd coq && coq_makefile -f _CoqProject -o Makefile >/dev/null && timeout 3000 make -j16 > ../build/logs/setup-coq.log 2>&1; echo "setup: coq make exit $?" )
( cd harness && RUSTFLAGS="--cfg sophia_verif -Awarnings" CARGO_TARGET_DIR=../build/target timeout 3000 cargo build --offline --bins --keep-going > ../build/logs/setup-cargo.log 2>&1; echo "setup: cargo build exit $?" )
exit 0
