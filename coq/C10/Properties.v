(* C10/Properties.v -- pinned statements of property C10 (ownership model of the term index).
   Designs (Model.clone_mode): Owned = the current code (i2t owns a copy of every term); Rebuilt = i2t borrows
   from the keys, Clone rebuilds it; Derived = i2t borrows, derived Clone.  The theorems hold for every design
   but Derived; the two defects found in the borrowing designs are kept as refuted witnesses. *)
From Sophia.C10 Require Import Model Proofs.

(* every reachable world is well-formed: stores own pairwise disjoint, never-freed allocations (the text of
   their keys AND of the entries of i2t that own theirs), each i2t is aligned with the store's own keys *)
Check (reachable_wf : forall m ops, m <> Derived -> WF m (run m ops)).
Check (step_wf : forall m w o, m <> Derived -> WF m w -> WF m (step m w o)).
(* no read of a live store touches released memory or another store's memory, after ANY history
   interleaving insert / clone / drop (of originals or clones) / swap-move / growth *)
Check (reachable_read_safe : forall m ops sid s i, m <> Derived -> In (sid, s) (live (run m ops)) ->
  read (run m ops) s i = ReadOutOfRange \/ exists t, read (run m ops) s i = ReadOk t).
Check (reachable_read_safe Owned : forall ops sid s i, Owned <> Derived -> In (sid, s) (live (run Owned ops)) ->
  read (run Owned ops) s i = ReadOutOfRange \/ exists t, read (run Owned ops) s i = ReadOk t).
(* the audit hook reports all-true on every reachable store *)
Check (reachable_audit : forall m ops sid s, m <> Derived -> In (sid, s) (live (run m ops)) ->
  forallb (fun b => b) (audit s) = true).
(* independence: an operation on another store changes neither this store nor what it returns *)
Check (frame : forall m w o sid, touches o sid = false ->
  find_store (live (step m w o)) sid = find_store (live w) sid).
Check (independent_reads : forall m w o sid s i, m <> Derived -> WF m w -> touches o sid = false ->
  find_store (live w) sid = Some s ->
  find_store (live (step m w o)) sid = Some s
  /\ read (step m w o) s i = read w s i).
(* a clone has the content of its original at the time of cloning *)
Check (clone_keys_spec : forall ks from ks' nx, clone_keys ks from = (ks', nx) ->
  map k_index ks' = map k_index ks /\ map k_term ks' = map k_term ks /\ length ks' = length ks
  /\ from <= nx
  /\ (forall a, In a (flat_map k_owned ks') -> from <= a < nx)
  /\ NoDup (flat_map k_owned ks')).
Check (clone_slots_spec : forall l from l' nx, clone_slots l from = (l', nx) ->
  map s_term l' = map s_term l /\ map s_self l' = map s_self l
  /\ from <= nx
  /\ (forall a, In a (flat_map slot_owned l') -> from <= a < nx)
  /\ NoDup (flat_map slot_owned l')).

(* ---- terms cloned out of a store (Clone::clone of what get_term / triples() / quads() hand out) ---- *)
(* Owned design: after any history, a term cloned out of any live store stays readable whatever is done
   afterwards, to that store (drop included) or to any other *)
Check (escaped_clone_safe : forall ops sid s i sl ops',
  In (sid, s) (live (run Owned ops)) -> nth_error (i2t s) i = Some sl ->
  read_term (fold_left (step Owned) ops' (fst (clone_term (run Owned ops) sl))) (snd (clone_term (run Owned ops) sl))
  = ReadOk (s_term sl)).
(* and cloning it out disturbs nothing *)
Check (clone_term_wf : forall m w sl, WF m w ->
  WF m (fst (clone_term w sl)) /\ live (fst (clone_term w sl)) = live w /\ freed (fst (clone_term w sl)) = freed w).

(* ---- compound operations of the widened harness ---- *)
(* a clone returns, index by index, what its original returned when it was cloned; the original is unchanged *)
Check (clone_same_content : forall m w s w' s', m <> Derived -> Inv_s m s -> clone_store m w s = (w', s') ->
  content s' = content s).
Check (clone_step_content : forall m w src dst s, m <> Derived -> WF m w ->
  find_store (live w) src = Some s -> find_store (live w) dst = None ->
  exists s', find_store (live (step m w (Clone src dst))) dst = Some s'
             /\ content s' = content s
             /\ find_store (live (step m w (Clone src dst))) src = Some s).
(* Clone::clone_from *)
Check (clone_from_content : forall m w src dst s sd, m <> Derived -> WF m w -> src <> dst ->
  find_store (live w) src = Some s -> find_store (live w) dst = Some sd ->
  let w' := fold_left (step m) (clone_from_ops src dst) w in
  exists s', find_store (live w') dst = Some s' /\ content s' = content s
             /\ find_store (live w') src = Some s).
(* std::mem::take / mem::replace: the content moves, an empty store stays, nothing is allocated or freed *)
Check (take_spec : forall m w src dst s,
  find_store (live w) src = Some s -> find_store (live w) dst = None ->
  let w' := fold_left (step m) (take_ops src dst) w in
  find_store (live w') dst = Some s /\ find_store (live w') src = Some empty_store
  /\ next w' = next w /\ freed w' = freed w).
(* the bulk constructors are the fold of the single inserts from the empty store: after any history the new
   store returns the terms of the source sequence, first occurrences only, in order *)
Check (collect_content : forall m ops d ts, m <> Derived -> find_store (live (run m ops)) d = None ->
  exists s, find_store (live (run m (ops ++ collect_ops d ts))) d = Some s
            /\ content s = add_new [] (map (fun x => fst (fst x)) ts)).

Print Assumptions reachable_wf.
Print Assumptions step_wf.
Print Assumptions reachable_read_safe.
Print Assumptions reachable_audit.
Print Assumptions frame.
Print Assumptions independent_reads.
Print Assumptions clone_keys_spec.
Print Assumptions clone_slots_spec.
Print Assumptions escaped_clone_safe.
Print Assumptions clone_term_wf.
Print Assumptions derived_clone_refuted.
Print Assumptions term_clone_escapes_refuted.
Print Assumptions rebuilt_clone_ok.
Print Assumptions owned_clone_ok.
Print Assumptions term_clone_owned_ok.
Print Assumptions clone_same_content.
Print Assumptions clone_step_content.
Print Assumptions clone_from_content.
Print Assumptions take_spec.
Print Assumptions collect_content.
Print Assumptions collect_example.
Print Assumptions compound_example.
