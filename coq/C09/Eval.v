(* C09/Eval.v -- interpretation of a regular expression in an arbitrary Kleene algebra
   (RelationAlgebra's monoid.ops), so that `ka` can be applied to generated terms. *)
From RelationAlgebra Require Import lattice monoid kleene.
From Sophia.C09 Require Import Model.

Section ev.
  Context {X : monoid.ops} {A : Type} (n : ob X) (f : A -> X n n).
  Fixpoint eval (r : rex A) : X n n :=
    match r with
    | Emp => 0
    | Eps => 1
    | Lf a => f a
    | Alt r s => eval r + eval s
    | Cat r s => eval r ⋅ eval s
    | Star r => (eval r)^*
    end.
End ev.
