(* C14/Engine.v -- what SparqlNumber::coerce_to_double / coerce_to_float (sparql/src/value/_number.rs)
   compute on the integer and decimal variants.
   [c64_engine] / [c32_engine]: the repaired code
     NativeInt  `isize as f64` / `as f32`                               hardware: round-to-nearest-even
     BigInt     inner.to_string().parse::<f64>() / ::<f32>()            Rust's parser: correctly rounded
     Decimal    nearest_float: "{digits}e{-scale}".parse::<f64>() / ::<f32>()
   str::parse::<f64> / <f32> is correctly rounded (Rust's dec2flt): trusted, and compared with
   Rounding.v on every conversion case of the harness.
   [c64_prefix] / [c32_prefix]: the tree before the repairs (fix: commits 9d45a4d, 20e135a), where
     BigInt     num-bigint 0.4.8  biguint/convert.rs  high_bits_to_u64, BigUint::to_f64 / to_f32,
                                  bigint/convert.rs   BigInt::to_f64 / to_f32 (sign copied)
     Decimal    bigdecimal 0.4.10 impl_num.rs         BigDecimalRef::to_f64;
                num-traits 0.2.19 cast.rs             ToPrimitive::to_f32 (default: to_f64 then `as f32`)
   transcribed function by function (the transcription was tied bit for bit to that tree by the harness
   before the repairs: 400 conversions, 0 disagreements; it is kept for the witnesses of EngineProofs.v
   and is no longer reachable through the engine).  Those routines are not round-to-nearest-even:
     - high_bits_to_u64 collects the sticky bit of a number of three limbs or more from the t low
       bits of every limb only (t = bit length of the leading limb): 2^128 + 2^75 + 2 becomes 2^128
       (one of the two neighbours all the same: no double is crossed);
     - BigDecimal::to_f64 first truncates the digits to 25..43 significant ones, then either parses
       "<digits>e<exp>" (correctly rounded, of the truncated number) or, when the remaining scale is
       not positive, multiplies the rounded integer by powi(10.0, -scale): two roundings and an
       inexact power of ten; 10^100 + 1.5 becomes the second double above 10^100: a double is crossed;
     - to_f32 rounds to f64 first: 1.0000000596046448 becomes 1.0f32.
   f64 arithmetic (`*`, `as`) is IEEE-754: the correctly rounded exact result (Rounding.v).
   f64::powi is compiler-builtins' __powidf2 (square and multiply, one rounding per product).
   Definitions only. *)
From Coq Require Import QArith Qround.
From Sophia.C14 Require Import Model Rounding.
Local Close Scope N_scope.
Local Open Scope Z_scope.

(* ---------- IEEE-754 multiplication, `as f32`, negation ---------- *)
Definition fl_mul (rnd : Q -> fl) (a b : fl) : fl :=
  match a, b with
  | FNaN, _ | _, FNaN => FNaN
  | FInf s, FInf t => FInf (xorb s t)
  | FInf s, FFin t m _ | FFin t m _, FInf s => if N.eqb m 0 then FNaN else FInf (xorb s t)
  | FFin s m e, FFin t m' e' =>
      if N.eqb m 0 || N.eqb m' 0 then FFin (xorb s t) 0 0
      else rnd (Qmult (q_of_fin s m e) (q_of_fin t m' e'))
  end.
Definition fl_cast (rnd : Q -> fl) (a : fl) : fl :=
  match a with
  | FFin s m e => if N.eqb m 0 then FFin s 0 0 else rnd (q_of_fin s m e)
  | _ => a
  end.
Definition fl_opp (a : fl) : fl :=
  match a with FNaN => FNaN | FInf s => FInf (negb s) | FFin s m e => FFin (negb s) m e end.
Definition fl_one : fl := FFin false 1 0.
Definition fl_of_Z (rnd : Q -> fl) (z : Z) : fl := rnd (inject_Z z).   (* integer `as` float *)

(* compiler-builtins float/pow.rs (__powidf2 / __powisf2), 0 <= n:
     let mut mul = 1.0; loop { if pow & 1 != 0 { mul *= a } pow >>= 1; if pow == 0 { break } a *= a }  *)
Fixpoint powi_loop (rnd : Q -> fl) (fuel : nat) (a : fl) (pow : Z) (mul : fl) : fl :=
  match fuel with
  | O => mul
  | S k =>
      let mul := if Z.odd pow then fl_mul rnd mul a else mul in
      let pow := Z.shiftr pow 1 in
      if pow =? 0 then mul else powi_loop rnd k (fl_mul rnd a a) pow mul
  end.
Definition powi (rnd : Q -> fl) (a : fl) (n : Z) : fl := powi_loop rnd 40 a n fl_one.

(* ---------- num-bigint: BigUint::bits, high_bits_to_u64, to_f64 / to_f32 ---------- *)
Definition bitlen (v : Z) : Z := if v <=? 0 then 0 else Z.log2 v + 1.
(* some limb (but the leading one) has a one among its t low bits; n = number of those limbs *)
Fixpoint sticky_limbs (n : nat) (v t : Z) : bool :=
  match n with
  | O => false
  | S k => negb (v mod 2 ^ t =? 0) || sticky_limbs k (Z.shiftr v 64) t
  end.
Definition high_bits_to_u64 (v : Z) : Z :=
  if v <? 2 ^ 64 then v                                   (* data.len() <= 1 *)
  else
    let bits := bitlen v in
    let t := (bits - 1) mod 64 + 1 in                      (* digit_bits of the leading limb *)
    let limbs := (bits + 63) / 64 in
    let top := Z.shiftr v (bits - 64) in
    if sticky_limbs (Z.to_nat (limbs - 1)) v t then Z.lor top 1 else top.
(* max_exp = f64::MAX_EXP / f32::MAX_EXP; 2.0.powi(k) is exact, infinite from 2^max_exp on *)
Definition biguint_to_float (rnd : Q -> fl) (max_exp : Z) (v : Z) : fl :=
  let mantissa := high_bits_to_u64 v in
  let exponent := bitlen v - bitlen mantissa in
  if max_exp <? exponent then FInf false
  else fl_mul rnd (fl_of_Z rnd mantissa) (powi rnd (FFin false 2 0) exponent).
Definition bigint_to_float (rnd : Q -> fl) (max_exp : Z) (z : Z) : fl :=
  let n := biguint_to_float rnd max_exp (Z.abs z) in
  if z <? 0 then fl_opp n else n.

(* ---------- bigdecimal: BigDecimalRef::to_f64 ---------- *)
Definition log10_2 : fl := FFin false 5422874305198591 (-54).     (* f64::consts::LOG10_2 *)
(* f64::floor() as u64 of a non-negative finite float *)
Definition fl_floor (a : fl) : Z :=
  match a with FFin false m e => Qfloor (q_of_fin false m e) | _ => 0 end.
Definition i32_min : Z := -2147483648.
Definition i32_max : Z := 2147483647.
Definition bigdecimal_to_f64 (m scale : Z) : fl :=
  let copy_sign (f : fl) := if m <? 0 then fl_opp f else f in
  let int := Z.abs m in
  if int =? 0 then FFin false 0 0
  else if scale =? 0 then copy_sign (biguint_to_float round64 1024 int)
  else
    (* approximate number of decimal digits; all but about 25 are cut off, 19 at a time *)
    let digit_count := fl_floor (fl_mul round64 (fl_of_Z round64 (bitlen int + 1)) log10_2) in
    let digits_to_remove := Z.max 0 (digit_count - 25) in
    let iter_count := digits_to_remove / 19 in
    let int := int / 10 ^ (19 * iter_count) in
    let scale := scale - 19 * iter_count in
    if (scale <? i32_min) || (i32_max <? scale) || (- scale <? i32_min) || (i32_max <? - scale)
    then FInf (m <? 0)                     (* scale.to_i32().and_then(checked_neg) is None *)
    else if scale <=? 0 then
      (* 'simple' integer case: f * powi(10.0, pow) *)
      fl_mul round64 (copy_sign (biguint_to_float round64 1024 int)) (powi round64 (FFin false 10 0) (- scale))
    else
      (* "{int}e{-scale}".parse::<f64>() *)
      copy_sign (round64 (Qmake int (Z.to_pos (10 ^ scale)))).

(* ---------- coerce_to_double / coerce_to_float on the integer and decimal variants ---------- *)
(* Rust's parser on the decimal digits of the number: the correctly rounded exact value *)
Definition parse_int (rnd : Q -> fl) (z : Z) : fl := rnd (inject_Z z).              (* z.to_string().parse() *)
Definition nearest_float (rnd : Q -> fl) (m scale : Z) : fl := rnd (q_of_dec m scale).   (* "{m}e{-scale}".parse() *)
Definition c64_engine (n : num) : fl :=
  match n with
  | NativeInt z => fl_of_Z round64 z
  | BigInt z => parse_int round64 z
  | Decimal m s => nearest_float round64 m s
  | Float _ | Double _ => FNaN
  end.
Definition c32_engine (n : num) : fl :=
  match n with
  | NativeInt z => fl_of_Z round32 z
  | BigInt z => parse_int round32 z
  | Decimal m s => nearest_float round32 m s
  | Float _ | Double _ => FNaN
  end.
(* before the repairs *)
Definition c64_prefix (n : num) : fl :=
  match n with
  | NativeInt z => fl_of_Z round64 z
  | BigInt z => bigint_to_float round64 1024 z
  | Decimal m s => bigdecimal_to_f64 m s
  | Float _ | Double _ => FNaN
  end.
Definition c32_prefix (n : num) : fl :=
  match n with
  | NativeInt z => fl_of_Z round32 z
  | BigInt z => bigint_to_float round32 128 z
  | Decimal m s => fl_cast round32 (bigdecimal_to_f64 m s)
  | Float _ | Double _ => FNaN
  end.

(* ---------- harness-facing checkers ---------- *)
(* obs64 / obs32: the observed results of  n * 1e0  and  n * "1"^^xsd:float  (coerce_to_double /
   coerce_to_float followed by an exact product); ref64 / ref32: the exact decimal value of n parsed
   by Rust's str::parse::<f64> / <f32> (correctly rounded): the reference that the harness oracle uses
   for the promotions, computed from the lexical form and not from the engine's BigInt / BigDecimal *)
Definition conv_case_ok (n : num) (obs64 obs32 ref64 ref32 : fl) : bool :=
  let r64 := c64_engine n in          (* = c64_round n (EngineProofs.v: engine_is_rne) *)
  let r32 := c32_engine n in          (* = c32_round n *)
  fl_same r64 obs64 && fl_same r32 obs32 && fl_same r64 ref64 && fl_same r32 ref32
  && f64_b obs64 && f32_b obs32 && f64_b ref64 && f32_b ref32.
(* the old library routines and round-to-nearest-even agree on this input *)
Definition prefix_agree_b (n : num) : bool :=
  fl_same (c64_prefix n) (c64_round n) && fl_same (c32_prefix n) (c32_round n).

(* ---------- the operator '<' of the engine on two keys, conversions included ----------
   Model.v's [lt_entry_ok] compares the modelled operator with the observed answer only when no integer or
   decimal meets a float (the conversions were parameters there); with [c64_engine] / [c32_engine] every
   pair is compared *)
Definition lt_entry_engine_ok (k1 k2 : option item) (code : N) : bool :=
  lt_entry_ok k1 k2 code
  && match k1, k2 with
     | Some _, Some _ => N.eqb (lt_code (lt_keys c64_engine c32_engine k1 k2)) code
     | _, _ => true
     end.
Definition lt_table_engine_ok (rows : list row) (k : N) (table : list (list N)) : bool :=
  forallb2 (fun r1 line =>
              forallb2 (fun r2 code => lt_entry_engine_ok (key_at k r1) (key_at k r2) code) rows line)
           rows table.
