(* C15/Properties.v -- pinned statements of property C15. *)
From Sophia.C15 Require Import Model Proofs.

(* refinement of the adapter stack (any depth) to "filter_map, stop at the first fault" *)
Check (try_for_each_spec : forall St src chain (f : sink St) st,
  try_for_each St src chain f st = spec St src chain f st).
Check (wrap_through : forall St chain (f : sink St) x st,
  wrap St chain f x st = match through chain x with Some y => f y st | None => (st, None) end).
(* step-wise driving = whole-stream driving *)
Check (stepwise_is_try_for_each : forall St src chain (f : sink St) st fuel,
  (length src < fuel)%nat -> stepwise St fuel src chain f st = try_for_each St src chain f st).
Check (try_for_some_pulls_one : forall St src chain (f : sink St) st,
  let '(rest, _, o) := try_for_some St src chain f st in
  match src with [] => rest = [] /\ o = Done | _ :: tl => rest = tl end).
(* source fault at any position, any chain, any initial consumer state *)
Check (source_fault_prefix : forall chain fault pre e post st,
  not_reached fault (length (st ++ fm chain pre)) ->
  try_for_each _ (map inl pre ++ inr e :: post) chain (rec_sink fault) st
  = (post, st ++ fm chain pre, SourceError e)).
(* sink fault at any position *)
Check (sink_fault_prefix : forall chain pre x y post j e st,
  through chain x = Some y -> length (st ++ fm chain pre) = j ->
  try_for_each _ (map inl pre ++ inl x :: post) chain (rec_sink (Some (j, e))) st
  = (post, st ++ fm chain pre ++ [y], SinkError e)).
(* no fault *)
Check (no_fault_all : forall chain fault items st,
  not_reached fault (length (st ++ fm chain items)) ->
  try_for_each _ (map inl items) chain (rec_sink fault) st = ([], st ++ fm chain items, Done)).
(* what the chain computes *)
Check (fm_nil : forall l, fm [] l = l).
Check (fm_filter : forall p c l, fm (AFilter p :: c) l = fm c (filter p l)).
Check (fm_map : forall m c l, fm (AMap m :: c) l = fm c (map m l)).
(* insert_all returns the number of effective changes *)
Check (insert_all_count : forall chain items s c, NoDup s ->
  let '(rest, (s', c'), o) := try_for_each _ (map inl items) chain (insert_sink None 0) (s, c) in
  o = Done /\ rest = [] /\ NoDup s'
  /\ (c' - c = length s' - length s)%nat /\ (c <= c')%nat
  /\ (forall x, In x s' <-> In x s \/ In x (fm chain items))).

(* non-vacuity: a depth-3 chain, a source fault in the middle, a sink fault on the second item *)
Example ex_source_fault :
  run_rec [inl 1; inl 2; inl 4; inr 7; inl 6] [DFilterEven; DMapSucc; DFilterMapLtSucc 5] None
  = ([4], KSource 7, 4).
Proof. vm_compute. reflexivity. Qed.
Example ex_sink_fault :
  run_rec [inl 2; inl 3; inl 4; inl 6; inr 9] [DFilterEven; DMapSucc] (Some (1%nat, 5))
  = ([3; 5], KSink 5, 3).
Proof. vm_compute. reflexivity. Qed.

Print Assumptions try_for_each_spec.
Print Assumptions wrap_through.
Print Assumptions stepwise_is_try_for_each.
Print Assumptions try_for_some_pulls_one.
Print Assumptions source_fault_prefix.
Print Assumptions sink_fault_prefix.
Print Assumptions no_fault_all.
Print Assumptions fm_nil.
Print Assumptions fm_filter.
Print Assumptions fm_map.
Print Assumptions insert_all_count.
