#!/bin/bash
# usage: confirm_seed.sh <seeddir> <worktree> <crate> <relative test path>
# Confirms in a scratch worktree: patch applies & builds, existing workspace tests pass with it,
# the demonstration fails with it and passes without it.  Prints a summary line per step.
sd=$1; wt=$2; crate=$3; tp=$4
export CARGO_NET_OFFLINE=true CARGO_TARGET_DIR=$wt/target
cd "$wt" || exit 2
git checkout -q -- . ; git clean -fdq -e target
tn=$(basename "$tp" .rs)
mkdir -p "$(dirname "$tp")"; cp "$sd/demo_test.rs" "$tp"
cargo test --offline -p "$crate" ${FEATURES:+--features $FEATURES} --test "$tn" > "$sd/confirm_demo_without.log" 2>&1; echo "demo WITHOUT change: exit $? (expect 0)"
git apply "$sd/patch.diff" || { echo "PATCH DOES NOT APPLY"; exit 1; }
cargo test --offline -p "$crate" ${FEATURES:+--features $FEATURES} --test "$tn" > "$sd/confirm_demo_with.log" 2>&1; echo "demo WITH change: exit $? (expect non-zero)"
rm -f "$tp"; rmdir "$(dirname "$tp")" 2>/dev/null
cargo test --workspace --offline --no-fail-fast > "$sd/confirm_suite_with.log" 2>&1; rc=$?
echo "existing suite WITH change: exit $rc (expect 0); $(grep -c '^test result: ok' "$sd/confirm_suite_with.log") ok result lines, $(grep -c 'FAILED' "$sd/confirm_suite_with.log") FAILED"
git checkout -q -- . ; git clean -fdq -e target
