(* C16/PrettyChain.v -- cost-instrumented model of the pretty Turtle / TriG writer
   (turtle/src/serializer/_pretty.rs) on a CHAIN of blank nodes, under any indentation.

   The data has no nesting: x:s -> b1 -> b2 -> ... -> bn, one statement per node (linked by an
   ordinary predicate, or by rdf:type, which is written by a separate code path).  The WRITER
   chooses to nest the nodes in square brackets, through the recursion
       write_properties -> [write_objects ->] write_object -> write_term -> write_bnode
                        -> write_properties -> ...
   and cuts the nesting at MAX_DEPTH levels (the node gets a label and becomes the root of a tree
   of its own, picked up by the loop of write_graph).  The guard of write_bnode reads the counter
   `self.depth`; the indentation string `self.indent` grows and shrinks by the configured unit,
   which may be EMPTY (TurtleConfig::with_indentation("") is legal): the model carries both, and
   takes the guard as a parameter so that a guard deduced from the indentation can be stated next
   to the one of the code (see PrettyChainProofs.v: indent_guard_refuted).

   Tokens of the output: a line feed followed by k bytes of indentation, "[", "]", "[]",
   a blank node label, the end of a statement.  Definitions only. *)
From Sophia.C16 Require Import Model.

Inductive ptok := PNewline (bytes : nat) | POpen | PClose | PEmpty | PLabel (j : nat) | PDot.

Definition MAX_DEPTH : nat := 64.

(* write_bytes / write_newline / write!: a method of the writer that calls io::Write::write_all *)
Definition emit (t : list ptok) : C (list ptok) := call (leaf t).

Section Chain.
  (* "too deep": from the counter and the length of the indentation string *)
  Variable guard : nat -> nat -> bool.
  Variable unit : nat.            (* length in bytes of the configured indentation *)
  Variable typed : bool.          (* the nodes are linked by rdf:type (written "a") *)
  Variable n : nat.               (* b1 .. bn; node 0 is the IRI x:s; node i points to node i+1 *)

  (* write_properties(node i), entered with self.depth = d and self.indent of [ind] bytes.
     Result: the tokens written and the nodes that were made roots. *)
  Fixpoint props_c (fuel i d ind : nat) : C (list ptok * list nat) :=
    match fuel with
    | O => ret ([], [])
    | S f =>
        call (                                                    (* write_properties *)
          let d1 := S d in                                        (* self.depth += 1 *)
          let ind1 := (ind + unit)%nat in                         (* self.indent(): predicate level *)
          pre <- (if typed then emit []                           (* " a " *)
                  else emit [PNewline ind1]) ;;                   (* write_newline, the predicate, " " *)
          let ind2 := (ind1 + unit)%nat in                        (* self.indent(): object level *)
          let j := S i in
          let object :=                                           (* write_object -> write_term -> write_bnode *)
            call (call (call (
              if (n <=? j)%nat then t <- emit [PEmpty] ;; ret (t, [])          (* not a subject: "[]" *)
              else if guard d1 ind2 then t <- emit [PLabel j] ;; ret (t, [j])  (* too deep: label, new root *)
              else o <- emit [POpen] ;;
                   '(inner, roots) <- props_c f j d1 ind2 ;;
                   c <- emit [PClose] ;;
                   ret (o ++ inner ++ c, roots)))) in
          '(obj, roots) <- (if typed then call object else object) ;;          (* write_objects *)
          ret (pre ++ obj, roots))                                (* unindent twice, self.depth -= 1 *)
    end.

  (* write_graph: `while again { for i in graph_range { if Root { write_tree } } }`: loops, no frame per tree.
     write_tree(root): write_newline, write_term(root), write_properties(root), ".\n" *)
  Fixpoint trees_c (fuel root : nat) : C (list ptok) :=
    match fuel with
    | O => ret []
    | S f =>
        '(t, roots) <- call (
            nl <- emit [PNewline 0] ;;
            lbl <- (if (root =? 0)%nat then call (emit [])                     (* write_term -> write_iri *)
                    else call (call (emit [PLabel root]))) ;;                  (* write_term -> write_bnode: labelled *)
            '(p, roots) <- props_c (S n) root 0 0 ;;
            dot <- emit [PDot] ;;
            ret (nl ++ lbl ++ p ++ dot, roots)) ;;
        match roots with
        | [] => ret t
        | r :: _ => rest <- trees_c f r ;; ret (t ++ rest)
        end
    end.
  (* prettify -> Prettifier::write_all -> write_graph *)
  Definition chain_doc_c : C (list ptok) := call (call (call (trees_c (S n) 0))).
End Chain.

(* the guard of the code: `self.depth >= MAX_DEPTH` *)
Definition counter_guard (m : nat) : nat -> nat -> bool := fun d _ => (m <=? d)%nat.
(* a guard that deduces the nesting from the indentation (each property list indents twice):
   `self.indent.len().checked_div(2 * unit).unwrap_or(0) >= MAX_DEPTH`: NOT the code *)
Definition indent_guard (m unit : nat) : nat -> nat -> bool :=
  fun _ ind => match (2 * unit)%nat with O => false | w => (m <=? ind / w)%nat end.

(* deepest nesting of square brackets in a token list *)
Fixpoint max_nesting (cur best : nat) (ts : list ptok) : nat :=
  match ts with
  | [] => best
  | POpen :: r => max_nesting (S cur) (Nat.max best (S cur)) r
  | PClose :: r => max_nesting (pred cur) best r
  | _ :: r => max_nesting cur best r
  end.
Definition is_newline (t : ptok) : bool := match t with PNewline _ => true | _ => false end.
Definition no_newlines (ts : list ptok) : list ptok := filter (fun t => negb (is_newline t)) ts.

(* ---- harness-facing checker ----------------------------------------------------------------- *)
(* tokens as numbers: 0 "[", 1 "]", 2 "[]", 3 end of statement, 4 + 2j label of bj, 5 + 2k line
   feed followed by k bytes of indentation *)
Definition ptok_code (t : ptok) : N :=
  match t with
  | POpen => 0 | PClose => 1 | PEmpty => 2 | PDot => 3
  | PLabel j => 4 + 2 * N.of_nat j
  | PNewline k => 5 + 2 * N.of_nat k
  end.
(* [unit]: bytes of the indentation configured; the tokens of the document the serializer wrote *)
Definition chain_ok (unit : N) (typed : bool) (n : N) (toks : list N) : bool :=
  list_eqb N.eqb
    (map ptok_code (res (chain_doc_c (counter_guard MAX_DEPTH) (N.to_nat unit) typed (N.to_nat n))))
    toks.
