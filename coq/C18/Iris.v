(* C18/Iris.v -- IRIs of every RFC 3986 / RFC 3987 shape on their way through the serializer and back.
     rio/src/serializer.rs   convert_triple never looks INSIDE an IRI: whatever its scheme, authority, path,
                             query or fragment, a triple of IRIs (and literals with any datatype IRI) is handed
                             to Rio's formatter (C18/Model.v [convert]; the theorems are in IrisProofs.v)
     rio_xml parser.rs       `resolve`: the values of rdf:about / rdf:resource / rdf:datatype go through oxiri:
                             without a base Iri::parse -- the text must be an IRI --, with a base Iri::resolve.
                             Element names (predicates) are namespace name ++ local name, taken as they are.
     oxiri 0.2.11 lib.rs     parse_scheme_start / parse_scheme (what makes a reference absolute) and the resolver
                             (parse_relative, parse_relative_slash, parse_path::<true>, remove_last_segment)
   The grammar of RFC 3987 and the resolution of RFC 3986 5.2 are the hand-written specifications of
   C09/Rfc3987.v and C09/Resolve.v (no generated file is used).
   Definitions only. *)
From Sophia.C09 Require Import Regex Rfc3987 Resolve.
From Sophia.C18 Require Export Model Paths.

(* ------------------------------------------------------------------------------------------- *)
(* 1. the scheme: RFC 3986 3.1  scheme = ALPHA *( ALPHA / DIGIT / "+" / "-" / "." )               *)
(*    oxiri parse_scheme_start / parse_scheme: a reference is absolute iff it starts with one      *)
(*    followed by ':'                                                                              *)
(* ------------------------------------------------------------------------------------------- *)
Definition is_alpha (c : N) : bool := in_rng c 65 90 || in_rng c 97 122.
Definition is_scheme_char (c : N) : bool :=
  is_alpha c || in_rng c 48 57 || (c =? 43) || (c =? 45) || (c =? 46).
Definition scheme_ok (s : str) : bool :=
  match s with c :: r => is_alpha c && forallb is_scheme_char r | [] => false end.
(* the loop of parse_scheme: scheme characters up to the first ':'; anything else: "reset", relative *)
Fixpoint scheme_tail (s : str) : option (str * str) :=
  match s with
  | [] => None
  | c :: r => if c =? 58 then Some ([], r)
              else if is_scheme_char c
                   then match scheme_tail r with Some (a, b) => Some (c :: a, b) | None => None end
                   else None
  end.
(* (scheme, what follows the ':') *)
Definition scheme_of (i : str) : option (str * str) :=
  match i with
  | c :: r => if is_alpha c
              then match scheme_tail r with Some (a, b) => Some (c :: a, b) | None => None end
              else None
  | [] => None
  end.
Definition has_scheme (i : str) : bool := match scheme_of i with Some _ => true | None => false end.

(* ------------------------------------------------------------------------------------------- *)
(* 2. validity: the grammar of RFC 3987 (C09/Rfc3987.v) run by the derivative matcher             *)
(* ------------------------------------------------------------------------------------------- *)
Definition rio_iri (i : str) : bool := matchb IRI i.                 (* oxiri Iri::parse *)
Definition rio_ref (i : str) : bool := matchb IRI_reference i.       (* oxiri IriRef::parse *)

(* ------------------------------------------------------------------------------------------- *)
(* 3. oxiri's resolution of a reference against a base IRI (Iri::resolve, the checked entry point) *)
(* ------------------------------------------------------------------------------------------- *)
Definition ends_with (suf s : str) : bool :=
  match strip_prefix (rev suf) (rev s) with Some _ => true | None => false end.
Definition starts_with (pre s : str) : bool :=
  match strip_prefix pre s with Some _ => true | None => false end.
(* IriParser::remove_last_segment on the path part of the output *)
Definition ox_remove_last (has_auth : bool) (p : str) : str :=
  if existsb (N.eqb k_slash) p then rev (drop_while not_slash (rev p))   (* keep up to the last "/" *)
  else if has_auth then [k_slash] else [].
(* parse_path::<true>, the branch taken at a "/", "?", "#" or at the end of the input:
   the new path and whether control falls through to the "//" check *)
Definition ox_close (has_auth : bool) (p : str) (at_slash : bool) : str * bool :=
  if ends_with [k_slash; k_dot; k_dot] p
  then (ox_remove_last has_auth (firstn (length p - 3) p), true)
  else if ends_with [k_slash; k_dot] p || str_eqb p [k_dot] then (removelast p, true)
  else if str_eqb p [k_dot; k_dot] then ([], true)
  else if at_slash then (p ++ [k_slash], false)
  else (p, true).
(* IriParseErrorKind::PathStartingWithTwoSlashes *)
Definition ox_ambiguous (has_auth : bool) (p : str) : bool :=
  negb has_auth && starts_with [k_slash; k_slash] p.
(* parse_path::<true>: result path and the unread rest of the reference ("?..." / "#..." / "") *)
Fixpoint ox_path (has_auth : bool) (p : str) (inp : str) : option (str * str) :=
  match inp with
  | [] => let (p', _) := ox_close has_auth p false in
          if ox_ambiguous has_auth p' then None else Some (p', [])
  | c :: rest =>
      if N.eqb c k_slash then
        let (p', fall) := ox_close has_auth p true in
        if fall && ox_ambiguous has_auth p' then None else ox_path has_auth p' rest
      else if N.eqb c k_qmark || N.eqb c k_hash then
        let (p', _) := ox_close has_auth p false in
        if ox_ambiguous has_auth p' then None else Some (p', inp)
      else ox_path has_auth (p ++ [c]) rest
  end.
(* None = Err(IriParseError), for a valid base and a valid reference *)
Definition ox_resolve (base ref : str) : option str :=
  let b := parse5 base in
  let pre := match p_scheme b with Some s => s ++ [k_colon] | None => [] end in          (* base[..scheme_end] *)
  let has_auth := match p_authority b with Some _ => true | None => false end in
  let pre_auth := pre ++ match p_authority b with Some a => k_slash :: k_slash :: a | None => [] end in
  let bq := match p_query b with Some q => k_qmark :: q | None => [] end in
  let finish (x : option (str * str)) :=
    match x with Some (p, tail) => Some (pre_auth ++ p ++ tail) | None => None end in
  if has_scheme ref then Some ref                       (* parse_scheme: copied, no dot removal *)
  else
    match ref with
    | [] => Some (pre_auth ++ p_path b ++ bq)
    | c :: rest =>
        if N.eqb c k_slash then
          match rest with
          | d :: _ => if N.eqb d k_slash then Some (pre ++ ref)    (* parse_relative_slash, "//": copied *)
                      else finish (ox_path has_auth [k_slash] rest)
          | [] => finish (ox_path has_auth [k_slash] rest)
          end
        else if N.eqb c k_qmark then Some (pre_auth ++ p_path b ++ ref)
        else if N.eqb c k_hash then Some (pre_auth ++ p_path b ++ bq ++ ref)
        else finish (ox_path has_auth (ox_remove_last has_auth (p_path b)) ref)
    end.

(* ------------------------------------------------------------------------------------------- *)
(* 4. Rio's reader with its IRI handling, on the events the formatter wrote                       *)
(* ------------------------------------------------------------------------------------------- *)
Fixpoint map_opt {A B} (f : A -> option B) (l : list A) : option (list B) :=
  match l with
  | [] => Some []
  | x :: r => match f x, map_opt f r with Some y, Some ys => Some (y :: ys) | _, _ => None end
  end.
(* [f] = what `resolve` makes of the value of rdf:about / rdf:resource / rdf:datatype *)
Definition res_node (f : str -> option str) (n : rnode) : option rnode :=
  match n with RIri i => option_map RIri (f i) | RBnode b => Some (RBnode b) end.
Definition res_obj (f : str -> option str) (o : robj) : option robj :=
  match o with
  | ONode n => option_map ONode (res_node f n)
  | OTyped v d => option_map (OTyped v) (f d)
  | OSimple v => Some (OSimple v)
  | OLang v tag => Some (OLang v tag)
  end.
Definition res_t (f : str -> option str) (t : rtriple) : option rtriple :=
  let '(s, p, o) := t in
  match res_node f s, res_obj f o with
  | Some s', Some o' => Some (s', p, o')       (* the predicate is an element name: never resolved *)
  | _, _ => None
  end.
Definition nobase_iri (i : str) : option str := if rio_iri i then Some i else None.
Definition base_iri (base i : str) : option str := if rio_ref i then ox_resolve base i else None.
(* the first error ends the parse: collect_triples returns that error *)
Definition parse_iris (f : str -> option str) (guard : bool) (indentation : N) (g : list (term * term * term))
  : option (list (term * term * term)) :=
  match collect guard g with
  | (ts, None) => match read false (doc_events indentation ts) with
                  | Some rs => option_map (map unconvert) (map_opt (res_t f) rs)
                  | None => None
                  end
  | _ => None
  end.
Definition nobase_parse := parse_iris nobase_iri.
Definition base_parse (guard : bool) (indentation : N) (base : str) := parse_iris (base_iri base) guard indentation.

(* the resolved positions of a Rio triple all satisfy P *)
Definition node_pos (P : str -> bool) (n : rnode) : bool := match n with RIri i => P i | RBnode _ => true end.
Definition obj_pos (P : str -> bool) (o : robj) : bool :=
  match o with ONode n => node_pos P n | OTyped _ d => P d | _ => true end.
Definition t_pos (P : str -> bool) (t : rtriple) : bool :=
  let '(s, _, o) := t in node_pos P s && obj_pos P o.
(* a valid reference that is an IRI: what reads back unchanged under any base *)
Definition iri_any_base (i : str) : bool := rio_ref i && has_scheme i.

(* ------------------------------------------------------------------------------------------- *)
(* 5. harness-facing checkers                                                                    *)
(* ------------------------------------------------------------------------------------------- *)
(* observed: what RdfXmlParser without a base made of the real document *)
Definition nobase_ok (guard : bool) (indentation : N) (g : list (term * term * term))
  (o : option (list (term * term * term))) : bool :=
  opt_eqb (list_eqb triple3_same) (nobase_parse guard indentation g) o.
Definition nobase_std (guard : bool) (indentation : N) (g : list (term * term * term)) : bool :=
  nobase_ok guard indentation g (Some (expected_parse guard g)).
(* observed: what RdfXmlParser { base } made of it *)
Definition base_ok (guard : bool) (indentation : N) (base : str) (g : list (term * term * term))
  (o : option (list (term * term * term))) : bool :=
  opt_eqb (list_eqb triple3_same) (base_parse guard indentation base g) o.
(* every IRI / reference the harness built, with its claim "this one is absolute": valid per RFC 3987, and
   absolute exactly when claimed, by the grammar and by the scheme rule *)
Definition iris_ok (l : list (str * bool)) : bool :=
  forallb (fun x => rio_ref (fst x) && Bool.eqb (rio_iri (fst x)) (snd x) && Bool.eqb (has_scheme (fst x)) (snd x)) l.
(* the harness's own RFC 3986 5.2 resolution (its oracle for relative references) against the specification *)
Definition resolved_ok (base : str) (l : list (str * str)) : bool :=
  forallb (fun x => str_eqb (resolve base (fst x)) (snd x)) l.
