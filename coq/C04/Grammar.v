(* C04/Grammar.v -- the lexical productions of the W3C Turtle grammar (RDF 1.1 Turtle, section 6.5) that
   the pretty-printer's abbreviations rely on, transcribed BY HAND as regular expressions over character
   classes (this file is the reference: it does not look at sophia's sources).  Definitions only.

     [19]   INTEGER      ::= [+-]? [0-9]+
     [20]   DECIMAL      ::= [+-]? [0-9]* '.' [0-9]+
     [21]   DOUBLE       ::= [+-]? ([0-9]+ '.' [0-9]* EXPONENT | '.' [0-9]+ EXPONENT | [0-9]+ EXPONENT)
     [154s] EXPONENT     ::= [eE] [+-]? [0-9]+
     [133s] BooleanLiteral ::= 'true' | 'false'
     [163s] PN_CHARS_BASE ::= [A-Z] | [a-z] | [#x00C0-#x00D6] | [#x00D8-#x00F6] | [#x00F8-#x02FF] | [#x0370-#x037D]
                            | [#x037F-#x1FFF] | [#x200C-#x200D] | [#x2070-#x218F] | [#x2C00-#x2FEF] | [#x3001-#xD7FF]
                            | [#xF900-#xFDCF] | [#xFDF0-#xFFFD] | [#x10000-#xEFFFF]
     [164s] PN_CHARS_U   ::= PN_CHARS_BASE | '_'
     [166s] PN_CHARS     ::= PN_CHARS_U | '-' | [0-9] | #x00B7 | [#x0300-#x036F] | [#x203F-#x2040]
     [168s] PN_LOCAL     ::= (PN_CHARS_U | ':' | [0-9] | PLX) ((PN_CHARS | '.' | ':' | PLX)* (PN_CHARS | ':' | PLX))?
     [169s] PLX          ::= PERCENT | PN_LOCAL_ESC
     [170s] PERCENT      ::= '%' HEX HEX
     [171s] HEX          ::= [0-9] | [A-F] | [a-f]
     [172s] PN_LOCAL_ESC ::= '\' ('_' | '~' | '.' | '-' | '!' | '$' | '&' | "'" | '(' | ')' | '*' | '+' | ',' | ';' | '='
                            | '/' | '?' | '#' | '@' | '%')                                                       *)
From Sophia.Common Require Import Prelude.
From Sophia.C04 Require Import Regex.

Definition c_plus : N := 43.    Definition c_minus : N := 45.  Definition c_dot : N := 46.
Definition c_colon : N := 58.   Definition c_under : N := 95.  Definition c_percent : N := 37.
Definition c_bslash : N := 92.  Definition c_e : N := 101.     Definition c_E : N := 69.

Definition t_sign : rex cclass := Lf [(c_plus, c_plus); (c_minus, c_minus)].
Definition t_digit : rex cclass := rng 48 57.
Definition t_dot : rex cclass := chr c_dot.

Definition EXPONENT : rex cclass := cats [Lf [(c_E, c_E); (c_e, c_e)]; opt t_sign; plus t_digit].
Definition INTEGER : rex cclass := cats [opt t_sign; plus t_digit].
Definition DECIMAL : rex cclass := cats [opt t_sign; Star t_digit; t_dot; plus t_digit].
Definition DOUBLE : rex cclass :=
  cats [opt t_sign;
        alts [cats [plus t_digit; t_dot; Star t_digit; EXPONENT];
              cats [t_dot; plus t_digit; EXPONENT];
              cats [plus t_digit; EXPONENT]]].
(* "true" | "false" *)
Definition BOOLEAN : rex cclass :=
  alts [cats [chr 116; chr 114; chr 117; chr 101]; cats [chr 102; chr 97; chr 108; chr 115; chr 101]].

Definition pn_chars_base_ranges : cclass :=
  [(65, 90); (97, 122); (192, 214); (216, 246); (248, 767); (880, 893); (895, 8191); (8204, 8205);
   (8304, 8591); (11264, 12271); (12289, 55295); (63744, 64975); (65008, 65533); (65536, 983039)].
Definition PN_CHARS_BASE : rex cclass := Lf pn_chars_base_ranges.
Definition PN_CHARS_U : rex cclass := alts [PN_CHARS_BASE; chr c_under].
Definition PN_CHARS : rex cclass :=
  alts [PN_CHARS_U; chr c_minus; t_digit; chr 183; rng 768 879; rng 8255 8256].
Definition HEX : rex cclass := alts [t_digit; rng 65 70; rng 97 102].
Definition PERCENT : rex cclass := cats [chr c_percent; HEX; HEX].
(* _ ~ . - ! $ & ' ( ) * + , ; = / ? # @ % *)
Definition pn_local_esc_chars : list N :=
  [95; 126; 46; 45; 33; 36; 38; 39; 40; 41; 42; 43; 44; 59; 61; 47; 63; 35; 64; 37].
Definition PN_LOCAL_ESC : rex cclass := cats [chr c_bslash; Lf (map (fun c => (c, c)) pn_local_esc_chars)].
Definition PLX : rex cclass := alts [PERCENT; PN_LOCAL_ESC].
Definition PN_LOCAL : rex cclass :=
  cats [alts [PN_CHARS_U; chr c_colon; t_digit; PLX];
        opt (cats [Star (alts [PN_CHARS; t_dot; chr c_colon; PLX]); alts [PN_CHARS; chr c_colon; PLX]])].

(* the same production without the escape alternative: what a prefixed name can be when its local part is
   copied verbatim from an IRI (a backslash never occurs in an IRI), so that reading it back performs no
   unescaping *)
Definition PLX_noesc : rex cclass := PERCENT.
Definition PN_LOCAL_noesc : rex cclass :=
  cats [alts [PN_CHARS_U; chr c_colon; t_digit; PLX_noesc];
        opt (cats [Star (alts [PN_CHARS; t_dot; chr c_colon; PLX_noesc]); alts [PN_CHARS; chr c_colon; PLX_noesc]])].

(* ---------- coarse "shape" languages used to separate the three numeric productions ---------- *)
Definition full_range : cclass := [(0, 1114111)].
Definition any_char : rex cclass := Lf full_range.
(* every character except '.', 'e', 'E' *)
Definition cls_not_dot_e : cclass := [(0, 45); (47, 68); (70, 100); (102, 1114111)].
Definition not_dot_e : rex cclass := Lf cls_not_dot_e.
(* words without '.', 'e', 'E' / words containing '.' / words containing 'e' or 'E' *)
Definition NO_DOT_E : rex cclass := Star not_dot_e.
Definition cls_not_e : cclass := [(0, 68); (70, 100); (102, 1114111)].
Definition not_e : rex cclass := Lf cls_not_e.
Definition HAS_DOT_NO_E : rex cclass := cats [Star not_e; t_dot; Star not_e].
Definition HAS_E : rex cclass := cats [Star any_char; Lf [(c_E, c_E); (c_e, c_e)]; Star any_char].
(* words containing a backslash *)
Definition HAS_BSLASH : rex cclass := cats [Star any_char; chr c_bslash; Star any_char].
