(* C06/Agree.v -- implementation model = specification model, part 3: steps 4 and 5 of the
   canonicalization algorithm, the serialisation, and the final theorem
   [impl_equals_spec_without_5_2_1].  Stdlib only, no assumptions. *)
From Sophia.C06 Require Import Model Limits Agree1 Agree2.
From Sophia.C05 Require Import Reader NqProofs FirstDegree Bijection Heap.

(* ====================================================================================== *)
(* step 4                                                                                   *)
(* ====================================================================================== *)
Lemma step4_agree : forall h2b canon,
  sp_step4 h2b (R s_c14n canon) = (fst (step4 h2b canon), R s_c14n (snd (step4 h2b canon))).
Proof.
  induction h2b as [|[h bl] r IH]; intros canon; cbn [step4 sp_step4].
  - reflexivity.
  - destruct bl as [|b [|b' bl]].
    + rewrite IH. destruct (step4 r canon) as [n1 c1]. reflexivity.
    + rewrite sp_issue__R. apply IH.
    + rewrite IH. destruct (step4 r canon) as [n1 c1]. reflexivity.
Qed.

(* ====================================================================================== *)
(* step 5.3                                                                                 *)
(* ====================================================================================== *)
Lemma issue_all_agree pfx bs : forall i,
  fold_left sp_issue_ bs (R pfx i) = R pfx (issue_all pfx i bs).
Proof.
  unfold issue_all. induction bs as [|b bs IH]; intros i; cbn [fold_left]; [reflexivity|].
  rewrite sp_issue__R. apply IH.
Qed.

Lemma step5_fold_agree : forall (L : list (str * issuer)) canon,
  fold_left (fun c result => fold_left sp_issue_ (map fst (si_issued (snd result))) c)
            (map cv_hi L) (R s_c14n canon)
  = R s_c14n (fold_left (fun c r => issue_all s_c14n c (map fst (snd r))) L canon).
Proof.
  induction L as [|r L IH]; intros canon; cbn [map fold_left]; [reflexivity|].
  unfold cv_hi at 1. cbn [snd R si_issued]. fold (R s_c14n canon).
  rewrite issue_all_agree. apply IH.
Qed.

Lemma step5_issue_agree canon paths :
  sp_step5_3 (R s_c14n canon) (map cv_hi paths) = R s_c14n (step5_issue canon paths).
Proof.
  unfold sp_step5_3, step5_issue.
  rewrite <- (map_sort_by cv_hi path_leb (fun a b => str_leb (fst a) (fst b)) (fun _ => True)).
  - apply step5_fold_agree.
  - intros x y _ _. reflexivity.
  - apply Forall_forall. intros; exact I.
Qed.

(* ====================================================================================== *)
(* steps 5.2 and 5                                                                          *)
(* ====================================================================================== *)
Section Steps.
Variable H : str -> str.
Variable d : list quad.
Hypothesis Hd : forallb sp_supported d = true.

Lemma step5_paths_agree fuel st : st_ok H d st -> forall ids,
  agree (map cv_hi) (step5_paths H fuel st ids)
        (sp_step5_2 H heap_perms false d fuel (R s_c14n (st_canon st)) ids).
Proof.
  intros Hst. induction ids as [|n ids IH]; cbn [step5_paths sp_step5_2 andb].
  - reflexivity.
  - rewrite R_nil_b, sp_issue__R.
    pose proof (hnd_agree H d Hd fuel st n (issue_ s_b [] n) 0 Hst) as Hh.
    destruct (hnd H fuel st n (issue_ s_b [] n) 0) as [r|e].
    + cbn [agree] in Hh. rewrite Hh.
      destruct (step5_paths H fuel st ids) as [l|e].
      * cbn [agree] in IH. rewrite IH. reflexivity.
      * apply agree_err. intros ->. cbn [agree] in IH. rewrite IH. reflexivity.
    + apply agree_err. intros ->. cbn [agree] in Hh. rewrite Hh. reflexivity.
Qed.

Lemma st_ok_with_canon st c : st_ok H d st -> st_ok H d (with_canon st c).
Proof. unfold st_ok, with_canon. cbn [st_b2q st_b2h st_df1000 st_plimit st_prune]. auto. Qed.

Lemma step5_agree fuel : forall h2b st, st_ok H d st ->
  agree (R s_c14n) (step5 H fuel st h2b)
        (sp_step5 H heap_perms false d fuel (R s_c14n (st_canon st)) h2b).
Proof.
  induction h2b as [|[h ids] r IH]; intros st Hst; cbn [step5 sp_step5].
  - reflexivity.
  - pose proof (step5_paths_agree fuel st Hst ids) as Hp.
    destruct (step5_paths H fuel st ids) as [paths|e].
    + cbn [agree] in Hp. rewrite Hp, step5_issue_agree.
      apply (IH (with_canon st (step5_issue (st_canon st) paths))).
      apply st_ok_with_canon. exact Hst.
    + apply agree_err. intros ->. cbn [agree] in Hp. rewrite Hp. reflexivity.
Qed.
End Steps.

(* ====================================================================================== *)
(* step 6 and the serialisation                                                             *)
(* ====================================================================================== *)
Lemma wf_term_rdf t : wf_term t -> is_rdf_term t = true.
Proof. destruct t; cbn [wf_term is_rdf_term]; tauto. Qed.

Lemma wf_quad_sp_supported q : wf_quad q -> sp_supported q = true.
Proof.
  destruct q as [[[s p] o] g]. intros ((Hs & _) & (Hp & Ip) & Ho & Hg).
  unfold sp_supported. destruct p; try contradiction.
  rewrite (wf_term_rdf s Hs), (wf_term_rdf o Ho). destruct g as [gn|]; [|reflexivity].
  destruct Hg as [Hg _]. rewrite (wf_term_rdf gn Hg). reflexivity.
Qed.

Lemma wf_dataset_supported d : Forall wf_quad d -> forallb sp_supported d = true.
Proof.
  intros Hwf. apply forallb_forall. intros q Hq. apply wf_quad_sp_supported.
  rewrite Forall_forall in Hwf. apply Hwf; exact Hq.
Qed.

(* identifiers contain no space *)
Lemma rdigits_range f : forall n x, In x (rdigits f n) -> 48 <= x < 58.
Proof.
  induction f as [|f IH]; intros n x; cbn [rdigits]; [intros []|].
  intros [<-|Hx].
  - assert (Hm : n mod 10 < 10) by (apply N.mod_upper_bound; discriminate).
    remember (n mod 10) as m eqn:Em. clear Em. lia.
  - destruct (n <? 10); [destruct Hx|eapply IH; exact Hx].
Qed.

Lemma dec_no_space k : ~ In 32 (dec k).
Proof.
  unfold dec. intros Hin. apply in_rev in Hin. apply rdigits_range in Hin. lia.
Qed.

Lemma c14n_no_space k : ~ In 32 (s_c14n ++ dec k).
Proof.
  intros Hin. apply in_app_or in Hin as [Hin|Hin]; [|exact (dec_no_space k Hin)].
  unfold s_c14n in Hin. cbn [In] in Hin.
  repeat (destruct Hin as [Hin|Hin]; [discriminate Hin|]). exact Hin.
Qed.

Lemma wf_iss_no_space issued id :
  wf_iss s_c14n issued -> In id (map snd issued) -> ~ In 32 id.
Proof.
  intros [_ Hs] Hin. rewrite Hs in Hin. apply in_map_iff in Hin as [k [<- _]].
  apply c14n_no_space.
Qed.

(* the specification's relabelling function, through the implementation's lookup *)
Definition relabel_of (issued : issuer) (b : str) : str :=
  match iss_get issued b with Some c => c | None => [] end.

Lemma relabel_of_no_space issued b : wf_iss s_c14n issued -> ~ In 32 (relabel_of issued b).
Proof.
  intros Hw. unfold relabel_of. destruct (iss_get issued b) as [id|] eqn:E; [|intros []].
  apply (wf_iss_no_space issued id Hw). apply iss_get_In in E.
  apply (in_map snd) in E. exact E.
Qed.

Lemma relabel_of_id_of issued b : In b (map fst issued) -> id_of issued b = relabel_of issued b.
Proof.
  intros Hin. unfold id_of, relabel_of. destruct (iss_get issued b) eqn:E; [reflexivity|].
  exfalso. apply (bt_get_None_notin issued b E). exact Hin.
Qed.

Lemma rename_t_ext f g t : (forall b, t = Bnode b -> f b = g b) -> rename_t f t = rename_t g t.
Proof. destruct t; cbn [rename_t]; try reflexivity. intros E. rewrite (E s eq_refl). reflexivity. Qed.

Lemma rename_q_ext f g q :
  (forall b, In b (bnodes_q q) -> f b = g b) -> rename_q f q = rename_q g q.
Proof.
  destruct q as [[[s p] o] gr]. rewrite bnodes_q_eq. intros E. cbn [rename_q].
  rewrite (rename_t_ext f g s), (rename_t_ext f g p), (rename_t_ext f g o).
  - destruct gr as [t|]; cbn [option_map]; [|reflexivity].
    rewrite (rename_t_ext f g t); [reflexivity|].
    intros b ->. apply E. rewrite !in_app_iff. right; right; right. left; reflexivity.
  - intros b ->. apply E. rewrite !in_app_iff. right; right; left. left; reflexivity.
  - intros b ->. apply E. rewrite !in_app_iff. right; left. left; reflexivity.
  - intros b ->. apply E. rewrite !in_app_iff. left. left; reflexivity.
Qed.

Lemma wf_term_rename f t : (forall b, ~ In 32 (f b)) -> wf_term t -> wf_term (rename_t f t).
Proof. intros Hf. destruct t; cbn [rename_t wf_term]; auto. Qed.

Lemma iri_or_bnode_rename f t : is_iri_or_bnode t -> is_iri_or_bnode (rename_t f t).
Proof. destruct t; cbn; auto. Qed.

Lemma is_iri_rename f t : is_iri t -> is_iri (rename_t f t).
Proof. destruct t; cbn; auto. Qed.

Lemma wf_quad_rename f q : (forall b, ~ In 32 (f b)) -> wf_quad q -> wf_quad (rename_q f q).
Proof.
  intros Hf. destruct q as [[[s p] o] g]. intros ((Hs & Is) & (Hp & Ip) & Ho & Hg).
  cbn [rename_q wf_quad].
  repeat split; auto using wf_term_rename, iri_or_bnode_rename, is_iri_rename.
  destruct g as [t|]; cbn [option_map wf_graph]; [|exact I].
  destruct Hg as [Hg Ig]. split; auto using wf_term_rename, iri_or_bnode_rename.
Qed.

Lemma cnq_term_rename f t : cnq_term (fun b => b) (rename_t f t) = cnq_term f t.
Proof. destruct t; reflexivity. Qed.

Lemma is_rdf_term_rename f t : is_rdf_term (rename_t f t) = is_rdf_term t.
Proof. destruct t; reflexivity. Qed.

Lemma sp_supported_rename f q : sp_supported (rename_q f q) = sp_supported q.
Proof.
  destruct q as [[[s p] o] g]. unfold sp_supported. cbn [rename_q].
  rewrite !is_rdf_term_rename. destruct g as [t|]; cbn [option_map];
    rewrite ?is_rdf_term_rename; destruct p; reflexivity.
Qed.

Lemma nq_line_rename f q : sp_supported q = true -> nq_line (rename_q f q) = cnq_quad f q.
Proof.
  intros Hq. rewrite nq_line_is_canonical by (rewrite sp_supported_rename; exact Hq).
  destruct q as [[[s p] o] g]. cbn [rename_q cnq_quad]. rewrite !cnq_term_rename.
  destruct g as [t|]; cbn [option_map]; rewrite ?cnq_term_rename; reflexivity.
Qed.

Lemma cnq_term_ext f g t : (forall b, f b = g b) -> cnq_term f t = cnq_term g t.
Proof. intros E. destruct t; cbn [cnq_term]; rewrite ?E; reflexivity. Qed.

Lemma cnq_quad_ext f g q : (forall b, f b = g b) -> cnq_quad f q = cnq_quad g q.
Proof.
  intros E. destruct q as [[[s p] o] gr]. cbn [cnq_quad].
  rewrite (cnq_term_ext f g s E), (cnq_term_ext f g p E), (cnq_term_ext f g o E).
  destruct gr as [t|]; [rewrite (cnq_term_ext f g t E)|]; reflexivity.
Qed.

Theorem serialize_agree d issued :
  Forall wf_quad d -> wf_iss s_c14n issued -> incl (bnodes d) (map fst issued) ->
  serialize (map (rename_q (id_of issued)) d)
  = concat (sort_by str_leb
      (map (cnq_quad (fun b => match sp_lookup issued b with Some c => c | None => [] end)) d)).
Proof.
  intros Hwf Hw Hincl.
  assert (E : map (rename_q (id_of issued)) d = map (rename_q (relabel_of issued)) d).
  { apply map_ext_in. intros q Hq. apply rename_q_ext. intros b Hb.
    apply relabel_of_id_of. apply Hincl. eapply bnodes_q_incl; eauto. }
  rewrite E. rewrite serialize_sorts_lines.
  - f_equal. f_equal. rewrite map_map. apply map_ext_in. intros q Hq.
    rewrite Forall_forall in Hwf.
    rewrite nq_line_rename by (apply wf_quad_sp_supported, Hwf, Hq).
    apply cnq_quad_ext. intros b. unfold relabel_of. rewrite sp_lookup_eq. reflexivity.
  - apply Forall_forall. intros q' Hq'. apply in_map_iff in Hq' as [q [<- Hq]].
    apply wf_quad_rename; [intros b; apply relabel_of_no_space; exact Hw|].
    rewrite Forall_forall in Hwf. apply Hwf; exact Hq.
Qed.

(* ====================================================================================== *)
(* the theorem                                                                              *)
(* ====================================================================================== *)
Theorem impl_equals_spec_without_5_2_1 : forall H fuel d,
  Forall wf_quad d ->
  match normalize_with H (mkVar true true) fuel None None d with
  | Ok (bytes, issued) => spec_model H heap_perms label_order false d fuel = SpOk (bytes, issued)
  | Err EFuel => spec_model H heap_perms label_order false d fuel = SpFuel
  | Err _ => True
  end.
Proof.
  intros H fuel d Hwf. pose proof (wf_dataset_supported d Hwf) as Hd.
  unfold normalize_with.
  destruct (relabel_with H (mkVar true true) fuel None None d) as [[qs issued]|e] eqn:Er.
  - pose proof (relabel_with_core _ _ _ _ _ _ _ _ Er) as (Hw & _ & Hincl & ->).
    unfold relabel_with in Er. cbn [v_once v_prune] in Er.
    destruct (step2 true d []) as [b2q|e] eqn:E2; [|discriminate].
    destruct (step4 (step3_h2b (step3_b2h H b2q)) []) as [h2b canon] eqn:E4.
    set (st := mkState b2q (step3_b2h H b2q) canon None None true) in *.
    assert (Hst : st_ok H d st) by (unfold st_ok, st; cbn; auto).
    pose proof (step5_agree H d Hd fuel h2b st Hst) as H5.
    destruct (step5 H fuel st h2b) as [iss|e] eqn:E5; [|discriminate].
    destruct (relabel_qs iss d) as [qs1|e]; [|discriminate]. injection Er as _ <-.
    cbn [agree] in H5. unfold spec_model. rewrite Hd. cbn [negb].
    rewrite <- (h2b_is_spec H d b2q Hd E2), R_nil_c, step4_agree, E4. cbn [fst snd].
    change canon with (st_canon st). rewrite H5. cbn [R si_issued].
    rewrite (serialize_agree d iss Hwf Hw Hincl). reflexivity.
  - destruct e; try exact I.
    unfold relabel_with in Er. cbn [v_once v_prune] in Er.
    destruct (step2 true d []) as [b2q|e] eqn:E2.
    2:{ injection Er as ->. apply step2_errors in E2. destruct E2; discriminate. }
    destruct (step4 (step3_h2b (step3_b2h H b2q)) []) as [h2b canon] eqn:E4.
    set (st := mkState b2q (step3_b2h H b2q) canon None None true) in *.
    assert (Hst : st_ok H d st) by (unfold st_ok, st; cbn; auto).
    pose proof (step5_agree H d Hd fuel h2b st Hst) as H5.
    destruct (step5 H fuel st h2b) as [iss|e] eqn:E5.
    + destruct (relabel_qs iss d) as [qs1|e] eqn:E6; [discriminate|].
      injection Er as ->. apply relabel_qs_err in E6. discriminate.
    + injection Er as ->. cbn [agree] in H5. unfold spec_model. rewrite Hd. cbn [negb].
      rewrite <- (h2b_is_spec H d b2q Hd E2), R_nil_c, step4_agree, E4. cbn [fst snd].
      change canon with (st_canon st). rewrite H5. reflexivity.
Qed.

(* the essential implication *)
Corollary impl_ok_is_spec : forall H fuel d bytes issued,
  Forall wf_quad d ->
  normalize_with H (mkVar true true) fuel None None d = Ok (bytes, issued) ->
  spec_model H heap_perms label_order false d fuel = SpOk (bytes, issued).
Proof.
  intros H fuel d bytes issued Hwf E.
  pose proof (impl_equals_spec_without_5_2_1 H fuel d Hwf) as T. rewrite E in T. exact T.
Qed.
