(* C04/DocRead.v -- a REFERENCE READER for a Turtle / TriG DOCUMENT, written from the W3C grammars (RDF 1.1 Turtle
   section 6.5, RDF 1.1 TriG section 4.5), NOT from sophia's writer or parser.  It calls the term reader of
   TermRead.v for every term and returns the quads of the document IN DOCUMENT ORDER.  Definitions only; proofs
   are in DocProofs.v.

   Productions covered:
     trigDoc             ::= (directive | block)*
     directive           ::= sparqlPrefix                      sparqlPrefix ::= "PREFIX" PNAME_NS IRIREF
     block               ::= triples '.'  |  "GRAPH" labelOrSubject wrappedGraph
     wrappedGraph        ::= '{' triplesBlock? '}'             triplesBlock ::= triples ('.' triplesBlock?)?
     triples             ::= subject predicateObjectList
     predicateObjectList ::= verb objectList (';' verb objectList)*
     objectList          ::= object (',' object)*              verb ::= predicate | 'a'
   White space and '#' comments may separate tokens ([skip] of TermRead.v); the key words PREFIX and GRAPH are
   matched in any letter case (TriG 4.5: key words in double quotes are case-insensitive).
   NOT covered (the reader answers None): @prefix / @base / BASE, a graph block without the word GRAPH, a bare
   `{ ... }`, blankNodePropertyList as subject, the empty alternatives of production [7] (`;` not followed by a verb),
   and what TermRead.v does not cover.  One restriction against the grammar, which keeps the key words apart from
   prefixed names without a full tokeniser: PREFIX and GRAPH must be followed by a white space character
   (`GRAPH<g>{` is not read; `GRAPH:x` and `GRAPH_:x` are, correctly, prefixed names). *)
From Sophia.Common Require Import Prelude Term.
From Sophia.C04 Require Import Regex Grammar TermGrammar TermRead.
From Sophia.C03 Require Model.

(* (graph name, subject, predicate, object) *)
Definition rquad := (option term * term * term * term)%type.

(* one term at position p, the nesting of quoted triples being bounded by the length of the input *)
Definition read_tm (p : tpos) (pm : list (str * str)) (l : str) : option (term * str) :=
  read_at (S (length l)) p pm l.

(* ---------- key words ---------- *)
Definition kw_PREFIX : str := [80; 82; 69; 70; 73; 88].
Definition kw_GRAPH : str := [71; 82; 65; 80; 72].
(* [kw] is in upper case; Some (what follows) if l starts with kw in any letter case *)
Fixpoint strip_ci (kw l : str) : option str :=
  match kw, l with
  | [], _ => Some l
  | k :: kw', c :: l' => if (c =? k) || (c =? k + 32) then strip_ci kw' l' else None
  | _ :: _, [] => None
  end.
(* the key word, then one white space character *)
Definition kw_ws (kw l : str) : option str :=
  match strip_ci kw l with
  | Some (c :: r) => if is_ws c then Some r else None
  | _ => None
  end.

(* ---------- objectList, predicateObjectList ---------- *)
(* (',' object)*  -- fuel bounds the number of iterations *)
Fixpoint read_objs_tail (fuel : nat) (pm : list (str * str)) (l : str) : option (list term * str) :=
  match fuel with
  | O => None
  | S f =>
      match skip l with
      | c :: r =>
          if c =? 44 then
            match read_tm TObj pm (skip r) with
            | Some (o, l1) =>
                match read_objs_tail f pm l1 with
                | Some (os, l2) => Some (o :: os, l2)
                | None => None
                end
            | None => None
            end
          else Some ([], l)
      | [] => Some ([], l)
      end
  end.
(* objectList ::= object (',' object)* *)
Definition read_objs (fuel : nat) (pm : list (str * str)) (l : str) : option (list term * str) :=
  match read_tm TObj pm (skip l) with
  | Some (o, l1) =>
      match read_objs_tail fuel pm l1 with
      | Some (os, l2) => Some (o :: os, l2)
      | None => None
      end
  | None => None
  end.
(* verb objectList: the (predicate, object) pairs it states.  The verb `a` is read by TermRead.read_keyword. *)
Definition read_vo (fuel : nat) (pm : list (str * str)) (l : str) : option (list (term * term) * str) :=
  match read_tm TPred pm (skip l) with
  | Some (v, l1) =>
      match read_objs fuel pm l1 with
      | Some (os, l2) => Some (map (pair v) os, l2)
      | None => None
      end
  | None => None
  end.
(* (';' verb objectList)* *)
Fixpoint read_pol_tail (fuel : nat) (pm : list (str * str)) (l : str) : option (list (term * term) * str) :=
  match fuel with
  | O => None
  | S f =>
      match skip l with
      | c :: r =>
          if c =? 59 then
            match read_vo f pm r with
            | Some (prs, l1) =>
                match read_pol_tail f pm l1 with
                | Some (prs', l2) => Some (prs ++ prs', l2)
                | None => None
                end
            | None => None
            end
          else Some ([], l)
      | [] => Some ([], l)
      end
  end.
(* predicateObjectList ::= verb objectList (';' verb objectList)* *)
Definition read_pol (fuel : nat) (pm : list (str * str)) (l : str) : option (list (term * term) * str) :=
  match read_vo fuel pm l with
  | Some (prs, l1) =>
      match read_pol_tail fuel pm l1 with
      | Some (prs', l2) => Some (prs ++ prs', l2)
      | None => None
      end
  | None => None
  end.

(* triples ::= subject predicateObjectList, in graph g; l starts with the subject *)
Definition read_triples (fuel : nat) (pm : list (str * str)) (g : option term) (l : str) : option (list rquad * str) :=
  match read_tm TSubj pm l with
  | Some (s, l1) =>
      match read_pol fuel pm l1 with
      | Some (prs, l2) => Some (map (fun po => (g, s, fst po, snd po)) prs, l2)
      | None => None
      end
  | None => None
  end.

(* triplesBlock? '}'  -- after the opening brace of a wrappedGraph *)
Fixpoint read_block (fuel : nat) (pm : list (str * str)) (g : option term) (l : str) : option (list rquad * str) :=
  match fuel with
  | O => None
  | S f =>
      match skip l with
      | [] => None
      | c :: r =>
          if c =? 125 then Some ([], r)
          else
            match read_triples f pm g (c :: r) with
            | Some (qs, l1) =>
                match skip l1 with
                | c1 :: r1 =>
                    if c1 =? 46 then
                      match read_block f pm g r1 with
                      | Some (qs', l2) => Some (qs ++ qs', l2)
                      | None => None
                      end
                    else if c1 =? 125 then Some (qs, r1)
                    else None
                | [] => None
                end
            | None => None
            end
      end
  end.

(* sparqlPrefix, after the key word: PNAME_NS IRIREF; Some (prefix, namespace, rest) *)
Definition read_prefix_decl (l : str) : option (str * str * str) :=
  match longest PNAME (skip l) with
  | Some (tok, r1) =>
      let (pre, loc) := split_colon tok in
      match loc, skip r1 with
      | [], c :: r2 =>
          if c =? 60 then
            match rd_iri_body r2 with
            | Some (ns, r3) => Some (pre, ns, r3)
            | None => None
            end
          else None
      | _, _ => None
      end
  | None => None
  end.

(* trigDoc ::= (directive | block)*  -- [pm]: the declarations read so far, in order *)
Fixpoint read_top (fuel : nat) (pm : list (str * str)) (l : str) : option (list rquad) :=
  match fuel with
  | O => None
  | S f =>
      match skip l with
      | [] => Some []
      | c :: r =>
          match kw_ws kw_PREFIX (c :: r) with
          | Some r0 =>
              match read_prefix_decl r0 with
              | Some (pre, ns, r3) => read_top f (pm ++ [(pre, ns)]) r3
              | None => None
              end
          | None =>
              match kw_ws kw_GRAPH (c :: r) with
              | Some r0 =>
                  match read_tm TGraph pm (skip r0) with
                  | Some (g, r1) =>
                      match skip r1 with
                      | c2 :: r2 =>
                          if c2 =? 123 then
                            match read_block f pm (Some g) r2 with
                            | Some (qs, r3) =>
                                match read_top f pm r3 with
                                | Some qs' => Some (qs ++ qs')
                                | None => None
                                end
                            | None => None
                            end
                          else None
                      | [] => None
                      end
                  | None => None
                  end
              | None =>
                  match read_triples f pm None (c :: r) with
                  | Some (qs, l1) =>
                      match skip l1 with
                      | c1 :: r1 =>
                          if c1 =? 46 then
                            match read_top f pm r1 with
                            | Some qs' => Some (qs ++ qs')
                            | None => None
                            end
                          else None
                      | [] => None
                      end
                  | None => None
                  end
              end
          end
      end
  end.

(* a whole document, no declaration being in force at its start *)
Definition read_doc (l : str) : option (list rquad) := read_top (S (length l)) [] l.

(* the same on bytes: strict UTF-8 decoding first (C03) *)
Definition read_doc_bytes (bytes : list N) : option (list rquad) :=
  match Sophia.C03.Model.utf8_dec bytes with
  | Some cps => read_doc cps
  | None => None
  end.
