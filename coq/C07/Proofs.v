(* C07/Proofs.v -- the isomorphism test never answers false on a renamed, reordered copy
   (for EVERY hash function), is symmetric, and a positive answer implies equal sizes, equal
   numbers of blank nodes and equal multisets of blanked statements. *)
From Sophia.C02 Require Import Model Proofs.
From Sophia.C07 Require Import Model Keys Isort.
From Coq Require Import Permutation.

(* ---------- the two concrete orders ---------- *)
Definition sleb (x y : str) : bool := match str_cmp x y with Gt => false | _ => true end.
Lemma sleb_total x y : sleb x y = false -> sleb y x = true.
Proof. unfold sleb. rewrite (str_cmp_antisym x y). destruct (str_cmp x y); simpl; congruence. Qed.
Lemma sleb_antisym x y : sleb x y = true -> sleb y x = true -> x = y.
Proof.
  unfold sleb. rewrite (str_cmp_antisym x y). destruct (str_cmp x y) eqn:E; simpl; try congruence.
  intros _ _. apply str_cmp_eq. exact E.
Qed.
Lemma sleb_trans x y z : sleb x y = true -> sleb y z = true -> sleb x z = true.
Proof.
  unfold sleb. destruct (str_cmp x y) eqn:E1; try discriminate; destruct (str_cmp y z) eqn:E2; try discriminate; intros _ _.
  - apply str_cmp_eq in E1, E2. subst. rewrite str_cmp_refl. reflexivity.
  - apply str_cmp_eq in E1. subst. rewrite E2. reflexivity.
  - apply str_cmp_eq in E2. subst. rewrite E1. reflexivity.
  - rewrite (str_cmp_trans Lt x y z E1 E2). reflexivity.
Qed.
Definition ssort := gsort str sleb.
Lemma ssort_perm_eq l l' : Permutation l l' -> ssort l = ssort l'.
Proof. apply gsort_perm_eq; [apply sleb_total | apply sleb_antisym | apply sleb_trans]. Qed.

Lemma nleb_total x y : N.leb x y = false -> N.leb y x = true.
Proof. rewrite N.leb_gt, N.leb_le. lia. Qed.
Lemma nleb_antisym x y : N.leb x y = true -> N.leb y x = true -> x = y.
Proof. rewrite !N.leb_le. lia. Qed.
Lemma nleb_trans x y z : N.leb x y = true -> N.leb y z = true -> N.leb x z = true.
Proof. rewrite !N.leb_le. lia. Qed.
Lemma insN_g k l : insN k l = ginsert N N.leb k l.
Proof. induction l as [|x l IH]; simpl; [reflexivity|]. rewrite IH. reflexivity. Qed.
Lemma sortN_g l : sortN l = gsort N N.leb l.
Proof. induction l as [|x l IH]; [reflexivity|]. unfold sortN in *. simpl. rewrite IH. apply insN_g. Qed.
Lemma sortN_perm_eq l l' : Permutation l l' -> sortN l = sortN l'.
Proof.
  intros H. rewrite !sortN_g.
  apply gsort_perm_eq; [apply nleb_total | apply nleb_antisym | apply nleb_trans | exact H].
Qed.

(* ---------- sorting statements = sorting their keys ---------- *)
Lemma insert_q_key x l : wfq x -> Forall wfq l ->
  map key (insert_q iso_cmp x l) = ginsert str sleb (key x) (map key l)
  /\ Forall wfq (insert_q iso_cmp x l).
Proof.
  intros Wx. induction 1 as [|y l Wy Wl IH]; simpl.
  - split; auto.
  - rewrite quad_cmp_key by assumption. unfold sleb.
    destruct (str_cmp (key x) (key y)); simpl; try (split; auto; fail).
    destruct IH as [IH1 IH2]. rewrite IH1. split; auto.
Qed.
Lemma sort_q_key d : Forall wfq d ->
  map key (sort_q iso_cmp d) = ssort (map key d) /\ Forall wfq (sort_q iso_cmp d).
Proof.
  induction 1 as [|x l Wx Wl IH]; simpl; auto.
  destruct IH as [IH1 IH2]. destruct (insert_q_key x (sort_q iso_cmp l) Wx IH2) as [H1 H2].
  unfold sort_q in *. simpl. rewrite H1, IH1. split; auto.
Qed.

Lemma insert_q_perm (tc : term -> term -> comparison) x l : Permutation (x :: l) (insert_q tc x l).
Proof.
  induction l as [|y l IH]; simpl; auto.
  destruct (quad_cmp tc x y); auto.
  eapply perm_trans; [apply perm_swap|]. apply perm_skip. exact IH.
Qed.
Lemma sort_q_perm tc d : Permutation d (sort_q tc d).
Proof.
  induction d as [|x l IH]; simpl; auto. unfold sort_q in *. simpl.
  eapply perm_trans; [apply perm_skip; exact IH|]. apply insert_q_perm.
Qed.

(* pointwise comparison of two sorted lists of the same length = equality of key lists *)
Lemma all2_keys a : forall b, Forall wfq a -> Forall wfq b -> length a = length b ->
  (all2 (quad_eqb iso_eqb) a b = true <-> map key a = map key b).
Proof.
  induction a as [|x a IH]; intros [|y b] Wa Wb Hl; simpl in *; try discriminate; try tauto.
  inversion Wa; inversion Wb; subst.
  rewrite andb_true_iff, quad_eqb_key, IH by (auto; congruence).
  split; [intros [-> ->]; reflexivity | intros E; injection E; auto].
Qed.

(* ---------- blank nodes and renaming ---------- *)
Lemma bnodes_rename_t pi t : bnodes_t (rename_t pi t) = map pi (bnodes_t t).
Proof. induction t; simpl; auto. rewrite !map_app. congruence. Qed.
Lemma bnodes_rename_q pi q : bnodes_q (rename_q pi q) = map pi (bnodes_q q).
Proof.
  unfold bnodes_q, rename_q. simpl. rewrite !map_app, !bnodes_rename_t.
  destruct (qg q); simpl; rewrite ?bnodes_rename_t; reflexivity.
Qed.

Lemma existsb_str_In b l : existsb (str_eqb b) l = true <-> In b l.
Proof.
  rewrite existsb_exists. split.
  - intros [x [H E]]. apply str_eqb_eq in E. subst; auto.
  - intros H. exists b. split; auto. apply str_eqb_refl.
Qed.

Lemma dedup_In x l : In x (dedup l) <-> In x l.
Proof.
  induction l as [|y l IH]; simpl; [tauto|].
  destruct (existsb (str_eqb y) l) eqn:E.
  - rewrite IH. split; auto. intros [<-|H]; auto. apply existsb_str_In. exact E.
  - simpl. rewrite IH. tauto.
Qed.
Lemma dedup_NoDup l : NoDup (dedup l).
Proof.
  induction l as [|y l IH]; simpl; [constructor|].
  destruct (existsb (str_eqb y) l) eqn:E; auto.
  constructor; auto. rewrite dedup_In, <- existsb_str_In. congruence.
Qed.

Definition inj_on (pi : str -> str) (l : list str) : Prop :=
  forall x y, In x l -> In y l -> pi x = pi y -> x = y.

Lemma NoDup_map_inj (pi : str -> str) l : inj_on pi l -> NoDup l -> NoDup (map pi l).
Proof.
  induction l as [|x l IH]; simpl; intros Hi Hn; [constructor|].
  inversion Hn; subst. constructor.
  - rewrite in_map_iff. intros [y [E Hy]]. assert (y = x) by (apply Hi; simpl; auto). subst. auto.
  - apply IH; auto. intros a b Ha Hb. apply Hi; simpl; auto.
Qed.

Lemma flat_map_perm_top {A B} (f : A -> list B) l l' : Permutation l l' -> Permutation (flat_map f l) (flat_map f l').
Proof.
  induction 1; simpl; auto.
  - apply Permutation_app_head. assumption.
  - rewrite !app_assoc. apply Permutation_app_tail. apply Permutation_app_comm.
  - eapply perm_trans; eauto.
Qed.

Section Equivariance.
Variable Hv : vquad -> N.
Variable pi : str -> str.
Variables s1 s2 : list quad.
Hypothesis Hperm : Permutation s2 (map (rename_q pi) s1).
Let all1 := flat_map bnodes_q s1.
Hypothesis Hinj : inj_on pi all1.

Let bn1 := bn_of s1.
Let bn2 := bn_of s2.

Lemma bn1_In b : In b bn1 <-> In b all1.
Proof. apply dedup_In. Qed.

Lemma flat_map_perm {A B} (f : A -> list B) l l' : Permutation l l' -> Permutation (flat_map f l) (flat_map f l').
Proof.
  induction 1; simpl; auto.
  - apply Permutation_app_head. assumption.
  - rewrite !app_assoc. apply Permutation_app_tail. apply Permutation_app_comm.
  - eapply perm_trans; eauto.
Qed.

Lemma all2_perm : Permutation (flat_map bnodes_q s2) (map pi all1).
Proof.
  eapply perm_trans; [apply flat_map_perm; exact Hperm|].
  unfold all1. rewrite flat_map_concat_map, map_map.
  rewrite (map_ext _ (fun q => map pi (bnodes_q q))) by (intros; apply bnodes_rename_q).
  rewrite <- map_map, <- concat_map, <- flat_map_concat_map. apply Permutation_refl.
Qed.

Lemma bn2_perm : Permutation bn2 (map pi bn1).
Proof.
  apply NoDup_Permutation.
  - apply dedup_NoDup.
  - apply NoDup_map_inj; [|apply dedup_NoDup].
    intros x y Hx Hy. apply Hinj; apply bn1_In; assumption.
  - intros x. unfold bn2, bn_of. rewrite dedup_In. split.
    + intros H. apply (Permutation_in _ all2_perm) in H. apply in_map_iff in H as [y [E Hy]].
      apply in_map_iff. exists y. split; auto. apply bn1_In; auto.
    + intros H. apply in_map_iff in H as [y [E Hy]].
      apply (Permutation_in _ (Permutation_sym all2_perm)). apply in_map_iff.
      exists y; split; auto. apply bn1_In; auto.
Qed.

Lemma bn_len : length bn2 = length bn1.
Proof. rewrite (Permutation_length bn2_perm). apply map_length. Qed.

Lemma pi_in_bn2 x : In x all1 -> In (pi x) bn2.
Proof.
  intros H. apply (Permutation_in _ (Permutation_sym bn2_perm)). apply in_map. apply bn1_In. exact H.
Qed.

Lemma existsb_map_inj b l : In b all1 -> incl l all1 ->
  existsb (str_eqb (pi b)) (map pi l) = existsb (str_eqb b) l.
Proof.
  intros Hb Hl. induction l as [|x l IH]; simpl; auto.
  rewrite IH by (intros y Hy; apply Hl; right; exact Hy). f_equal.
  destruct (str_eqb_spec b x) as [->|Hn]; [apply str_eqb_refl|].
  apply not_true_is_false. rewrite str_eqb_eq. intros E. apply Hn. apply Hinj; auto. apply Hl. left. reflexivity.
Qed.

Lemma q_incl q : In q s1 -> incl (bnodes_q q) all1.
Proof. intros Hq x Hx. unfold all1. apply in_flat_map. exists q. auto. Qed.

Lemma has_rename b q : In b all1 -> In q s1 ->
  has_bnode (pi b) (rename_q pi q) = has_bnode b q.
Proof.
  intros Hb Hq. unfold has_bnode. rewrite bnodes_rename_q. apply existsb_map_inj; auto. apply q_incl; auto.
Qed.

Lemma filter_perm {A} (f : A -> bool) l l' : Permutation l l' -> Permutation (filter f l) (filter f l').
Proof.
  induction 1; simpl; auto.
  - destruct (f x); auto.
  - destruct (f x), (f y); auto. apply perm_swap.
  - eapply perm_trans; eauto.
Qed.
Lemma filter_map_comm {A B} (g : A -> B) (f : B -> bool) l :
  filter f (map g l) = map g (filter (fun x => f (g x)) l).
Proof. induction l as [|x l IH]; simpl; auto. destruct (f (g x)); simpl; congruence. Qed.

Lemma quads_of_perm b : In b all1 ->
  Permutation (filter (has_bnode (pi b)) s2) (map (rename_q pi) (filter (has_bnode b) s1)).
Proof.
  intros Hb. eapply perm_trans; [apply filter_perm; exact Hperm|].
  rewrite filter_map_comm.
  rewrite (filter_ext_in (fun x => has_bnode (pi b) (rename_q pi x)) (has_bnode b)); auto.
  intros q Hq. apply has_rename; auto.
Qed.

Definition Inv (c1 c2 : colouring) : Prop := forall x, In x all1 -> look c2 (pi x) = look c1 x.

Lemma view_t_rename c1 c2 b t : Inv c1 c2 -> In b all1 -> incl (bnodes_t t) all1 ->
  view_t c2 (pi b) (rename_t pi t) = view_t c1 b t.
Proof.
  intros HI Hb. induction t as [s|s|l d|l tg|s IHs p IHp o IHo|s]; intros Hinc; simpl; auto.
  - assert (In s all1) by (apply Hinc; left; reflexivity).
    rewrite HI by assumption. f_equal.
    destruct (str_eqb_spec s b) as [->|Hn]; [apply str_eqb_refl|].
    apply not_true_is_false. rewrite str_eqb_eq. intros E. apply Hn. apply Hinj; auto.
  - simpl in Hinc. rewrite IHs, IHp, IHo; auto; intros x Hx; apply Hinc; rewrite !in_app_iff; auto.
Qed.

Lemma view_q_rename c1 c2 b q : Inv c1 c2 -> In b all1 -> In q s1 ->
  view_q c2 (pi b) (rename_q pi q) = view_q c1 b q.
Proof.
  intros HI Hb Hq. pose proof (q_incl q Hq) as Hinc. unfold bnodes_q in Hinc.
  unfold view_q, rename_q. simpl.
  rewrite !(view_t_rename c1 c2) by (auto; intros x Hx; apply Hinc; rewrite !in_app_iff; auto).
  destruct (qg q) as [g|] eqn:Eg; auto.
  rewrite (view_t_rename c1 c2) by (auto; intros x Hx; apply Hinc; rewrite !in_app_iff; auto).
  reflexivity.
Qed.

Lemma xor_all_perm l l' : Permutation l l' -> xor_all l = xor_all l'.
Proof.
  induction 1; simpl; auto.
  - congruence.
  - rewrite <- !N.lxor_assoc. f_equal. apply N.lxor_comm.
  - congruence.
Qed.

Lemma new_colour_rename c1 c2 b : Inv c1 c2 -> In b all1 ->
  new_colour Hv s2 c2 (pi b) = new_colour Hv s1 c1 b.
Proof.
  intros HI Hb. unfold new_colour.
  rewrite (xor_all_perm _ _ (Permutation_map _ (quads_of_perm b Hb))).
  rewrite map_map. f_equal. apply map_ext_in. intros q Hq. f_equal.
  apply view_q_rename; auto. apply filter_In in Hq. tauto.
Qed.

Lemma look_map (f : str -> N) bn b : In b bn -> look (map (fun x => (x, f x)) bn) b = f b.
Proof.
  induction bn as [|x bn IH]; simpl; [tauto|].
  intros [->|H]; [rewrite str_eqb_refl; reflexivity|].
  destruct (str_eqb_spec x b) as [->|Hn]; auto.
Qed.

Lemma round_inv c1 c2 : Inv c1 c2 -> Inv (round Hv s1 bn1 c1) (round Hv s2 bn2 c2).
Proof.
  intros HI x Hx. unfold round.
  rewrite (look_map (new_colour Hv s2 c2)) by (apply pi_in_bn2; exact Hx).
  rewrite (look_map (new_colour Hv s1 c1)) by (apply bn1_In; exact Hx).
  apply new_colour_rename; auto.
Qed.

Lemma init_inv : Inv (init_colouring s1 bn1) (init_colouring s2 bn2).
Proof.
  intros x Hx. unfold init_colouring.
  rewrite (look_map (fun b => N.of_nat (length (filter (has_bnode b) s2)))) by (apply pi_in_bn2; exact Hx).
  rewrite (look_map (fun b => N.of_nat (length (filter (has_bnode b) s1)))) by (apply bn1_In; exact Hx).
  f_equal. rewrite (Permutation_length (quads_of_perm x Hx)). apply map_length.
Qed.

Lemma round_colours c1 c2 : Inv c1 c2 ->
  colours (round Hv s2 bn2 c2) = colours (round Hv s1 bn1 c1).
Proof.
  intros HI. unfold colours, round. rewrite !map_map. simpl.
  apply sortN_perm_eq.
  eapply perm_trans; [apply Permutation_map; exact bn2_perm|].
  rewrite map_map. rewrite (map_ext_in _ (new_colour Hv s1 c1)); auto.
  intros b Hb. apply new_colour_rename; auto. apply bn1_In. exact Hb.
Qed.

Lemma refine_no_false fuel : forall c1 c2 o1 o2, Inv c1 c2 ->
  refine Hv fuel s1 s2 bn1 bn2 c1 c2 o1 o2 <> Some false.
Proof.
  induction fuel as [|f IH]; intros c1 c2 o1 o2 HI; simpl; [discriminate|].
  rewrite (round_colours c1 c2 HI). rewrite str_eqb_refl.
  destruct (_ && _); [discriminate|]. destruct (_ && _); [discriminate|].
  apply IH. apply round_inv. exact HI.
Qed.
End Equivariance.
(* ================= the theorems ================= *)

Lemma Forall_perm {A} (P : A -> Prop) l l' : Permutation l l' -> Forall P l -> Forall P l'.
Proof.
  intros Hp Hf. apply Forall_forall. intros x Hx. eapply Forall_forall in Hf; eauto.
  eapply Permutation_in; [apply Permutation_sym|]; eauto.
Qed.

(* 1. no false negative: any bijective renaming of blank nodes (wherever they occur: inside
   quoted triples, as graph names), any reordering of the statements, ANY hash function *)
Theorem iso_no_false_negative (Hv : vquad -> N) (pi : str -> str) (d1 d2 : list quad) fuel :
  Forall wfq d1 ->
  Permutation d2 (map (rename_q pi) d1) ->
  inj_on pi (flat_map bnodes_q d1) ->
  isomorphic Hv iso_eqb iso_cmp fuel d1 d2 <> Some false.
Proof.
  intros W1 Hp Hi. unfold isomorphic.
  assert (W2 : Forall wfq d2).
  { eapply Forall_perm; [apply Permutation_sym; exact Hp|]. apply Forall_forall. intros x Hx.
    apply in_map_iff in Hx as [y [<- Hy]]. apply rename_wfq. eapply Forall_forall in W1; eauto. }
  assert (Hlen : length d1 = length d2).
  { rewrite (Permutation_length Hp). symmetry. apply map_length. }
  rewrite Hlen, Nat.eqb_refl. simpl.
  destruct (sort_q_key d1 W1) as [K1 S1], (sort_q_key d2 W2) as [K2 S2].
  assert (Hk : map key (sort_q iso_cmp d1) = map key (sort_q iso_cmp d2)).
  { rewrite K1, K2. apply ssort_perm_eq. apply Permutation_sym.
    eapply perm_trans; [apply Permutation_map; exact Hp|]. rewrite map_map.
    rewrite (map_ext _ key) by (intros; apply key_rename). apply Permutation_refl. }
  assert (Hl2 : length (sort_q iso_cmp d1) = length (sort_q iso_cmp d2)).
  { rewrite <- (Permutation_length (sort_q_perm iso_cmp d1)), <- (Permutation_length (sort_q_perm iso_cmp d2)). exact Hlen. }
  rewrite (proj2 (all2_keys _ _ S1 S2 Hl2) Hk). simpl.
  assert (Hps : Permutation (sort_q iso_cmp d2) (map (rename_q pi) (sort_q iso_cmp d1))).
  { eapply perm_trans; [apply Permutation_sym; apply sort_q_perm|].
    eapply perm_trans; [exact Hp|]. apply Permutation_map. apply sort_q_perm. }
  assert (His : inj_on pi (flat_map bnodes_q (sort_q iso_cmp d1))).
  { intros x y Hx Hy. apply Hi.
    - eapply Permutation_in; [apply flat_map_perm_top; apply Permutation_sym; apply sort_q_perm|]; exact Hx.
    - eapply Permutation_in; [apply flat_map_perm_top; apply Permutation_sym; apply sort_q_perm|]; exact Hy. }
  rewrite (bn_len pi _ _ Hps His), Nat.eqb_refl. simpl.
  apply (refine_no_false Hv pi _ _ Hps His). apply init_inv; assumption.
Qed.

(* 2. symmetry *)
Lemma all2_sym {A} (f : A -> A -> bool) : (forall x y, f x y = f y x) ->
  forall a b, all2 f a b = all2 f b a.
Proof.
  intros Hf a. induction a as [|x a IH]; intros [|y b]; simpl; auto. rewrite Hf, IH. reflexivity.
Qed.
Lemma str_eqb_sym a b : str_eqb a b = str_eqb b a.
Proof.
  destruct (str_eqb_spec a b) as [->|H]; [symmetry; apply str_eqb_refl|].
  symmetry. apply not_true_is_false. rewrite str_eqb_eq. congruence.
Qed.
Lemma refine_sym Hv fuel : forall d1 d2 bn1 bn2 c1 c2 o1 o2,
  refine Hv fuel d1 d2 bn1 bn2 c1 c2 o1 o2 = refine Hv fuel d2 d1 bn2 bn1 c2 c1 o2 o1.
Proof.
  induction fuel as [|f IH]; intros; simpl; auto.
  rewrite (andb_comm (Nat.eqb (nclasses (round Hv d1 bn1 c1)) o1)).
  rewrite (andb_comm (Nat.eqb (nclasses (round Hv d1 bn1 c1)) (length (round Hv d1 bn1 c1)))).
  rewrite (str_eqb_sym (colours (round Hv d1 bn1 c1))). rewrite IH. reflexivity.
Qed.
Lemma iso_eqb_sym a b : iso_eqb a b = iso_eqb b a.
Proof. rewrite !iso_eqb_blank. apply term_eqb_sym. Qed.
Lemma quad_eqb_sym a b : quad_eqb iso_eqb a b = quad_eqb iso_eqb b a.
Proof.
  unfold quad_eqb. rewrite (iso_eqb_sym (qs a)), (iso_eqb_sym (qp a)), (iso_eqb_sym (qo a)). f_equal.
  destruct (qg a), (qg b); simpl; auto. apply iso_eqb_sym.
Qed.
Theorem iso_symmetric Hv fuel d1 d2 :
  isomorphic Hv iso_eqb iso_cmp fuel d1 d2 = isomorphic Hv iso_eqb iso_cmp fuel d2 d1.
Proof.
  unfold isomorphic. rewrite (Nat.eqb_sym (length d1)).
  destruct (Nat.eqb (length d2) (length d1)); simpl; auto.
  rewrite (all2_sym _ quad_eqb_sym (sort_q iso_cmp d1)).
  destruct (all2 _ (sort_q iso_cmp d2) (sort_q iso_cmp d1)); simpl; auto.
  rewrite (Nat.eqb_sym (length (bn_of (sort_q iso_cmp d1)))).
  destruct (Nat.eqb _ _); simpl; auto. apply refine_sym.
Qed.

(* 3. a positive answer implies: same size, same number of blank nodes, same multiset of
   statements once blank nodes are blanked out (so any such difference is answered false,
   or not answered at all if the loop runs out of fuel) *)
Lemma bn_of_perm l l' : Permutation l l' -> length (bn_of l) = length (bn_of l').
Proof.
  intros H. apply Permutation_length. apply NoDup_Permutation; try apply dedup_NoDup.
  intros x. unfold bn_of. rewrite !dedup_In.
  split; apply Permutation_in; [|apply Permutation_sym]; apply flat_map_perm_top; exact H.
Qed.

Theorem iso_true_implies Hv fuel d1 d2 :
  Forall wfq d1 -> Forall wfq d2 ->
  isomorphic Hv iso_eqb iso_cmp fuel d1 d2 = Some true ->
  length d1 = length d2
  /\ length (bn_of d1) = length (bn_of d2)
  /\ Permutation (map key d1) (map key d2).
Proof.
  intros W1 W2. unfold isomorphic.
  destruct (Nat.eqb_spec (length d1) (length d2)) as [Hl|Hl]; simpl; [|discriminate].
  destruct (sort_q_key d1 W1) as [K1 S1], (sort_q_key d2 W2) as [K2 S2].
  assert (Hl2 : length (sort_q iso_cmp d1) = length (sort_q iso_cmp d2)).
  { rewrite <- (Permutation_length (sort_q_perm iso_cmp d1)), <- (Permutation_length (sort_q_perm iso_cmp d2)). exact Hl. }
  destruct (all2 (quad_eqb iso_eqb) (sort_q iso_cmp d1) (sort_q iso_cmp d2)) eqn:Ea; simpl; [|discriminate].
  apply (all2_keys _ _ S1 S2 Hl2) in Ea. rewrite K1, K2 in Ea.
  destruct (Nat.eqb_spec (length (bn_of (sort_q iso_cmp d1))) (length (bn_of (sort_q iso_cmp d2)))) as [Hb|Hb]; simpl; [|discriminate].
  intros _. repeat split; auto.
  - rewrite (bn_of_perm _ _ (sort_q_perm iso_cmp d1)), (bn_of_perm _ _ (sort_q_perm iso_cmp d2)). exact Hb.
  - eapply perm_trans; [apply (gsort_perm str sleb)|]. fold ssort. rewrite Ea.
    apply Permutation_sym. apply (gsort_perm str sleb).
Qed.

(* the defect fixed by "fix: isomorphism ignores blank node labels inside quoted triples":
   with the pre-fix Eq/Ord of IsoTerm a one-statement dataset is declared different from its
   renamed copy *)
Definition ex_q (b : str) : quad :=
  mkQ (Triple (Bnode b) (Iri [112]) (LitDt [111] [100])) (Iri [112]) (LitDt [120] [100]) None.
Example prefix_false_negative :
  isomorphic Hfnv iso_eqb_prefix iso_cmp_prefix 8 [ex_q [97]] [ex_q [98]] = Some false.
Proof. vm_compute. reflexivity. Qed.
Example fixed_accepts :
  isomorphic Hfnv iso_eqb iso_cmp 8 [ex_q [97]] [ex_q [98]] = Some true.
Proof. vm_compute. reflexivity. Qed.
(* non-vacuity of theorem 1's premises: a two-cycle with a blank graph name, swapped labels *)
Example nonvacuous :
  let d := [mkQ (Bnode [97]) (Iri [112]) (Bnode [98]) (Some (Bnode [103]));
            mkQ (Bnode [98]) (Iri [112]) (Bnode [97]) None] in
  let pi := fun b => if str_eqb b [97] then [98] else if str_eqb b [98] then [97] else b in
  Forall wfq d /\ inj_on pi (flat_map bnodes_q d)
  /\ iso_run d (rev (map (rename_q pi) d)) = Some true.
Proof.
  split; [repeat constructor|]. split; [|vm_compute; reflexivity].
  intros x y Hx Hy. simpl in Hx, Hy.
  repeat (destruct Hx as [<-|Hx]; [repeat (destruct Hy as [<-|Hy]; [vm_compute; congruence|]); try contradiction|]); contradiction.
Qed.

