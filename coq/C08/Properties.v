(* C08/Properties.v -- pinned statements of the logical core of property C08: the terms the
   parsing back-ends hand over satisfy the toolkit's own validators.  The validators are
   re-generated from api/src/term/{bnode_id,var_name,language_tag}.rs on every run. *)
From Sophia.Common Require Import Prelude.
From Sophia.C08 Require Import Regex Tokens Lang Incl Examples.
From Sophia.gen Require Import LabelSrc.
From Sophia.Common Require Import Term.
From Sophia.C08 Require Import Utf8 Utf8Proofs.
From Sophia.C08 Require Import Source SourceProofs.
From Sophia.C08 Require Import Messages MessagesProofs Literal LiteralProofs.

Check (rio_label_accepted : forall w, matchb rio_bnode_label w = true -> matchb bnode_id_regex w = true).
Check (rio_label_is_bnode_id : forall w, matchb rio_bnode_label w = matchb bnode_id_regex w).
Check (bnode_id_within_w3c : forall w, matchb bnode_id_regex w = true -> matchb w3c_bnode_label w = true).
Check (rio_langtag_accepted : forall w, matchb rio_langtag w = true -> matchb lang_tag_regex w = true).
Check (varname_is_sparql : forall w, matchb sparql_varname w = matchb varname_regex w).
(* the matcher used to state them decides the regular language *)
Check (matchb_spec : forall r w, matchb r w = true <-> langc r w).

(* the byte -> text layer under every entry point ("given any byte sequence"): the strict decoder accepts exactly the
   encodings of scalar-value strings; decoding splits on character boundaries and fails inside a character *)
Check (utf8_dec_utf8 : forall s, scalar_str s = true -> utf8_dec (utf8 s) = Some s).
Check (utf8_dec_sound : forall b s, utf8_dec b = Some s -> utf8 s = b /\ scalar_str s = true).
Check (utf8_valid_iff : forall b, utf8_valid b = true <-> exists s, scalar_str s = true /\ utf8 s = b).
Check (utf8_injective : forall s t, scalar_str s = true -> scalar_str t = true -> utf8 s = utf8 t -> s = t).
Check (utf8_dec_app : forall s r, scalar_str s = true -> utf8_dec (utf8 s ++ r) = option_map (app s) (utf8_dec r)).
Check (utf8_dec_starts_inside : forall x r, cont x = true -> utf8_dec (x :: r) = None).
Check (utf8_dec_after_first_byte : forall c r, scalar c = true -> 128 <= c -> utf8_dec (tl (utf8_1 c) ++ r) = None).
Check (boundary_after_prefix : forall s t, scalar_str s = true -> scalar_str t = true ->
         is_boundary (utf8 s ++ utf8 t) (length (utf8 s)) = true).
(* the JSON-LD parser's bytes entry point (read, String::from_utf8, parse_str) *)
Check (jsonld_bytes_error_iff : forall b, jsonld_parse_bytes b = Utf8Error <-> utf8_valid b = false).
Check (jsonld_bytes_text : forall s, scalar_str s = true -> jsonld_parse_bytes (utf8 s) = Text s).
(* the checker the harness cases use *)
Check (utf8_ok_complete : forall s, scalar_str s = true ->
         utf8_ok (utf8 s) true s None = true /\ utf8_ok (utf8 s) true s (Some false) = true).
Check (utf8_ok_sound : forall b cps j, utf8_ok b true cps j = true -> utf8 cps = b /\ scalar_str cps = true /\ j <> Some true).

(* driving a source (api/src/source.rs): the provided methods are determined by the required one.  The default loops
   `while self.try_for_some_item(&mut f)? {}` / `while self.for_some_item(&mut f)? {}` end and equal the closed form *)
Check (try_each_closed : forall atomic s b, try_each atomic s b = each atomic s b).
Check (for_each_closed : forall atomic s, for_each atomic s = each atomic s None).
Check (for_each_is_try_each : forall atomic s, for_each atomic s = try_each atomic s None).
(* an exhausted source stays exhausted, however it is asked again *)
Check (exhausted_stays : forall atomic b,
         try_some atomic [] b = ([], REnd, Some [], b) /\ try_each atomic [] b = ([], RDone, Some []) /\
         for_some atomic [] = ([], REnd, Some []) /\ for_each atomic [] = ([], RDone, Some []) /\
         iter_next [] [] = (([], REnd), [], [])).
(* whatever the sequence of calls: every statement and every error is delivered exactly once, in order *)
Check (history_conserves : forall atomic ops s l st,
         forallb infallible ops = true -> run_ops atomic s ops = (l, st) ->
         exists s', st = Some s' /\ events s = flat_map obs_events l ++ events s').
Check (each_progress : forall atomic s d r st, each atomic s None = (d, r, st) ->
         (r = RDone /\ st = Some []) \/ (exists e s', r = RSrcErr e /\ st = Some s' /\ (length s' < length s)%nat)).
(* the iterators of the map / filter_map adapters flatten the steps and go on after an error *)
Check (iter_conserves : forall buf s o buf' s', iter_next buf s = (o, buf', s') -> buf ++ events s = obs_events o ++ buf' ++ events s').
Check (iter_end : forall s o buf' s', iter_next [] s = (o, buf', s') -> snd o = REnd -> events s = [] /\ buf' = [] /\ s' = []).
(* the filter adapters *)
Check (filter_all_identity : forall s n, filter_steps 0 n s = s).
Check (filter_keeps_errors : forall k s n, map snd (filter_steps k n s) = map snd s).
Check (filter_none_no_statement : forall s n, remaining (filter_steps 2 n s) = 0).
(* the checker the harness cases use accepts only what the model determines *)
Check (check_ops_sound : forall atomic ops s l st rest,
         forallb infallible ops = true -> check_ops atomic (Some s) ops l = (true, st, rest) ->
         exists l0, l = l0 ++ rest /\ run_ops atomic s ops = (l0, st)).
Check (hist_ok_conserves : forall atomic s pre l,
         forallb infallible pre = true -> hist_ok atomic s pre FNone [] l = true ->
         exists s', events s = flat_map obs_events l ++ events s').

(* round 7 -- error paths: a message that quotes the document is text; shortening it at a byte offset (String::truncate, slicing)
   panics exactly when the offset falls inside a character; the long tokens of the error stream (a k-byte character repeated,
   behind 0..3 letters) put EVERY cut offset inside a character for one of the shifts *)
Check (truncate_none_iff : forall b n, truncate b n = None <-> (n <= length b)%nat /\ is_boundary b n = false).
Check (truncate_some_prefix : forall b n b', truncate b n = Some b' -> b' = firstn n b).
Check (inside_char_not_boundary : forall s c t j, scalar_str s = true -> scalar c = true -> (0 < j)%nat -> (j < length (utf8_1 c))%nat ->
         is_boundary (utf8 s ++ utf8_1 c ++ t) (length (utf8 s) + j) = false).
Check (truncate_inside_char_panics : forall s c t j, scalar_str s = true -> scalar c = true -> (0 < j)%nat -> (j < length (utf8_1 c))%nat ->
         truncate (utf8 s ++ utf8_1 c ++ t) (length (utf8 s) + j) = None).
Check (truncate_at_char_end_ok : forall s t, scalar_str s = true -> scalar_str t = true -> truncate (utf8 s ++ utf8 t) (length (utf8 s)) = Some (utf8 s)).
Check (utf8_1_length_le_4 : forall c, (1 <= length (utf8_1 c) <= 4)%nat).
Check (pads_cover_every_cut : forall s c reps n t, scalar_str s = true -> scalar c = true -> (2 <= length (utf8_1 c))%nat ->
         (length (utf8 s) < n)%nat -> (n <= length (utf8 s) + length (utf8_1 c) * reps)%nat ->
         exists pad, (pad < length (utf8_1 c))%nat /\ truncate (utf8 (s ++ filler pad c reps) ++ t) n = None).
(* the checkers the harness cases use *)
Check (family_covers_sound : forall msgs lo hi, family_covers msgs lo hi = true ->
         forall n, (lo <= n)%nat -> (n < hi)%nat -> exists m, In m msgs /\ truncate m n = None).
Check (msg_ok_sound : forall bytes cps lo hi nb, msg_ok bytes cps lo hi nb = true -> utf8 cps = bytes /\ scalar_str cps = true).
Check (msg_ok_offsets : forall bytes cps lo hi nb, msg_ok bytes cps lo hi nb = true ->
         forall n, (lo <= n)%nat -> (n < hi)%nat -> (In (N.of_nat n) nb <-> is_boundary bytes n = false)).

(* round 7 -- legal but unusual terms: the literal accessors are total; a language tag implies rdf:langString, but a literal
   explicitly typed rdf:langString ("chat"^^rdf:langString) is a typed literal WITHOUT language tag: nothing may assume the converse *)
Check (language_implies_langString : forall l t, lit_language l = Some t -> lit_datatype l = rdf_langString).
Check (langString_without_language : exists l, lit_datatype l = rdf_langString /\ lit_language l = None).
Check (typed_datatype_verbatim : forall v dt, lit_datatype (LTyped v dt) = dt /\ lit_language (LTyped v dt) = None /\ lit_lexical (LTyped v dt) = v).
Check (simple_is_typed_string : forall v, lit_datatype (LSimple v) = lit_datatype (LTyped v xsd_string) /\ lit_language (LSimple v) = lit_language (LTyped v xsd_string)).
Check (xsd_string_not_langString : xsd_string <> rdf_langString).
Check (view_ok_all : forall l, view_ok (lit_datatype l) (lit_language l) = true).
Check (view_ok_jl : forall t, view_ok (jl_datatype t) (jl_language t) = true).
Check (jl_langString_without_language : exists t, jl_datatype t = rdf_langString /\ jl_language t = None).
Check (lit_ok_iff : forall l lex dt lang, lit_ok l lex dt lang = true <-> lex = Some (lit_lexical l) /\ dt = Some (lit_datatype l) /\ lang = lit_language l).
Check (lit_ok_needs_datatype : forall l lex lang, lit_ok l lex None lang = false).

Print Assumptions rio_label_accepted.
Print Assumptions rio_label_is_bnode_id.
Print Assumptions bnode_id_within_w3c.
Print Assumptions rio_langtag_accepted.
Print Assumptions varname_is_sparql.
Print Assumptions matchb_spec.
Print Assumptions w3c_label_strictly_larger.
Print Assumptions labels_nonvacuous.
Print Assumptions utf8_dec_utf8.
Print Assumptions utf8_dec_sound.
Print Assumptions utf8_valid_iff.
Print Assumptions utf8_injective.
Print Assumptions utf8_dec_app.
Print Assumptions utf8_dec_starts_inside.
Print Assumptions utf8_dec_after_first_byte.
Print Assumptions boundary_after_prefix.
Print Assumptions jsonld_bytes_error_iff.
Print Assumptions jsonld_bytes_text.
Print Assumptions utf8_ok_complete.
Print Assumptions utf8_ok_sound.
Print Assumptions lowercase_changes_length.
Print Assumptions shifted_offset_not_boundary.
Print Assumptions utf8_examples.
Print Assumptions try_each_closed.
Print Assumptions for_each_closed.
Print Assumptions for_each_is_try_each.
Print Assumptions exhausted_stays.
Print Assumptions history_conserves.
Print Assumptions each_progress.
Print Assumptions iter_conserves.
Print Assumptions iter_end.
Print Assumptions filter_all_identity.
Print Assumptions filter_keeps_errors.
Print Assumptions filter_none_no_statement.
Print Assumptions check_ops_sound.
Print Assumptions hist_ok_conserves.
Print Assumptions failed_parse_driven_twice.
Print Assumptions statements_errors_and_adapters.
Print Assumptions truncate_none_iff.
Print Assumptions truncate_some_prefix.
Print Assumptions inside_char_not_boundary.
Print Assumptions truncate_inside_char_panics.
Print Assumptions truncate_at_char_end_ok.
Print Assumptions utf8_1_length_le_4.
Print Assumptions pads_cover_every_cut.
Print Assumptions family_covers_sound.
Print Assumptions msg_ok_sound.
Print Assumptions msg_ok_offsets.
Print Assumptions messages_examples.
Print Assumptions language_implies_langString.
Print Assumptions langString_without_language.
Print Assumptions typed_datatype_verbatim.
Print Assumptions simple_is_typed_string.
Print Assumptions xsd_string_not_langString.
Print Assumptions view_ok_all.
Print Assumptions view_ok_jl.
Print Assumptions jl_langString_without_language.
Print Assumptions lit_ok_iff.
Print Assumptions lit_ok_needs_datatype.
Print Assumptions literal_examples.
