(* C05/RelatedProofs.v -- a blank node related to ONE other node through several quads (different
   predicates, graph names, directions): what the related hash depends on, and independence of
   step 3 of Hash N-Degree Quads from the order in which the dataset yields the quads. *)
From Sophia.C05 Require Import Model Related.
From Coq Require Import Permutation.

(* ---------- hash_related_bnode = H (quad part ++ node part) ---------- *)
Theorem hash_related_factor : forall H st related q iss pos,
  hash_related H st related q iss pos
  = match related_pre q pos with
    | Err e => Err e
    | Ok pre =>
        match related_id st iss related with
        | Some x => Ok (H (pre ++ x))
        | None => Err ENoId
        end
    end.
Proof.
  intros H st related q iss pos. unfold hash_related, related_pre, related_id.
  destruct (pos =? pos_g).
  - destruct (iss_get (st_canon st) related); [reflexivity|].
    destruct (iss_get iss related); [reflexivity|].
    destruct (bt_get (st_b2h st) related); reflexivity.
  - destruct (q_pred q); try reflexivity.
    destruct (iss_get (st_canon st) related); [reflexivity|].
    destruct (iss_get iss related); [reflexivity|].
    destruct (bt_get (st_b2h st) related); reflexivity.
Qed.

(* the quad part tells the position, and (unless the position is g) the predicate *)
Lemma app_last_inj {A} (a b : list A) x y : a ++ [x] = b ++ [y] -> a = b /\ x = y.
Proof. intro E. apply app_inj_tail in E. exact E. Qed.

Theorem related_pre_inj : forall q1 q2 pos1 pos2 a,
  related_pre q1 pos1 = Ok a -> related_pre q2 pos2 = Ok a ->
  pos1 = pos2 /\ (pos1 <> pos_g -> q_pred q1 = q_pred q2).
Proof.
  intros q1 q2 pos1 pos2 a E1 E2. unfold related_pre in *.
  destruct (pos1 =? pos_g) eqn:G1; destruct (pos2 =? pos_g) eqn:G2.
  - apply N.eqb_eq in G1, G2. split; [congruence|]. intro Hn. contradiction.
  - injection E1 as E1. subst a. destruct (q_pred q2); discriminate.
  - injection E2 as E2. subst a. destruct (q_pred q1); discriminate.
  - destruct (q_pred q1) as [p1| | | | |]; try discriminate.
    destruct (q_pred q2) as [p2| | | | |]; try discriminate.
    injection E1 as E1. subst a. injection E2 as E3 E2. split; [congruence|]. intros _.
    apply app_last_inj in E2. destruct E2 as [E2 _]. congruence.
Qed.
Theorem related_pre_graph : forall q, related_pre q pos_g = Ok [pos_g].
Proof. reflexivity. Qed.
Theorem related_pre_pred : forall s p o g pos, pos <> pos_g ->
  related_pre (s, Iri p, o, g) pos = Ok ([pos] ++ [60] ++ p ++ [62]).
Proof.
  intros s p o g pos Hn. unfold related_pre. apply N.eqb_neq in Hn. rewrite Hn. reflexivity.
Qed.

(* with an injective hash function (no collision), two quads relating the same two nodes at the
   same position under DIFFERENT predicates give different related hashes: the value computed for
   one of them cannot stand for the other *)
Theorem hash_related_separates_predicates : forall H st related iss pos s1 p1 o1 g1 s2 p2 o2 g2 h1 h2,
  (forall a b, H a = H b -> a = b) ->
  pos <> pos_g -> p1 <> p2 ->
  hash_related H st related (s1, Iri p1, o1, g1) iss pos = Ok h1 ->
  hash_related H st related (s2, Iri p2, o2, g2) iss pos = Ok h2 ->
  h1 <> h2.
Proof.
  intros H st related iss pos s1 p1 o1 g1 s2 p2 o2 g2 h1 h2 Hinj Hn Hp E1 E2 Eh.
  rewrite hash_related_factor in E1, E2. rewrite related_pre_pred in E1, E2 by exact Hn.
  destruct (related_id st iss related) as [x|]; [|discriminate].
  injection E1 as E1. injection E2 as E2. subst h1 h2. apply Hinj in Eh.
  cbn [app] in Eh. injection Eh as Eh. apply app_inv_tail in Eh. apply app_last_inj in Eh.
  destruct Eh as [Eh _]. contradiction.
Qed.
(* ... and so do two quads relating them at different positions (both directions) *)
Theorem hash_related_separates_positions : forall H st related iss pos1 pos2 q1 q2 h1 h2,
  (forall a b, H a = H b -> a = b) ->
  pos1 <> pos2 ->
  hash_related H st related q1 iss pos1 = Ok h1 ->
  hash_related H st related q2 iss pos2 = Ok h2 ->
  h1 <> h2.
Proof.
  intros H st related iss pos1 pos2 q1 q2 h1 h2 Hinj Hn E1 E2 Eh.
  rewrite hash_related_factor in E1, E2.
  destruct (related_pre q1 pos1) as [a1|] eqn:P1; [|discriminate].
  destruct (related_pre q2 pos2) as [a2|] eqn:P2; [|discriminate].
  destruct (related_id st iss related) as [x|]; [|discriminate].
  injection E1 as E1. injection E2 as E2. subst h1 h2. apply Hinj in Eh.
  apply app_inv_tail in Eh. subst a2.
  destruct (related_pre_inj _ _ _ _ _ P1 P2) as [E _]. contradiction.
Qed.
(* the graph name of the quad and (at position g) its predicate play no part *)
Theorem hash_related_ignores_graph : forall H st related iss pos s p o g g',
  hash_related H st related (s, p, o, g) iss pos = hash_related H st related (s, p, o, g') iss pos.
Proof. intros. rewrite !hash_related_factor. reflexivity. Qed.
Theorem hash_related_at_g_ignores_predicate : forall H st related iss q q',
  hash_related H st related q iss pos_g = hash_related H st related q' iss pos_g.
Proof. intros. rewrite !hash_related_factor. reflexivity. Qed.

(* ---------- step 3 = push all the pairs ---------- *)
Lemma hn_comps_pairs H st ident iss q : forall cs hn,
  hn_comps H st ident iss q cs hn
  = match pairs_comps H st ident iss q cs with
    | Ok l => Ok (push_all l hn)
    | Err e => Err e
    end.
Proof.
  induction cs as [|[pos c] cs IH]; intro hn; cbn [hn_comps pairs_comps]; [reflexivity|].
  destruct (bnode_id c) as [b|]; [|apply IH].
  destruct (str_eqb b ident); [apply IH|].
  destruct (hash_related H st b q iss pos) as [h|e]; [|reflexivity].
  rewrite IH. destruct (pairs_comps H st ident iss q cs); reflexivity.
Qed.
Lemma push_all_app l1 l2 hn : push_all (l1 ++ l2) hn = push_all l2 (push_all l1 hn).
Proof. unfold push_all. apply fold_left_app. Qed.
Theorem hn_quads_pairs : forall H st ident iss qs hn,
  hn_quads H st ident iss qs hn
  = match pairs_quads H st ident iss qs with
    | Ok l => Ok (push_all l hn)
    | Err e => Err e
    end.
Proof.
  intros H st ident iss. induction qs as [|q qs IH]; intro hn; cbn [hn_quads pairs_quads]; [reflexivity|].
  rewrite hn_comps_pairs. destruct (pairs_comps H st ident iss q (comps q)) as [l|e]; [|reflexivity].
  rewrite IH. destruct (pairs_quads H st ident iss qs) as [l'|e]; [|reflexivity].
  rewrite push_all_app. reflexivity.
Qed.

(* the pairs of a permuted list of quads are a permutation of the pairs *)
Lemma pairs_quads_perm H st ident iss : forall qs qs', Permutation qs qs' ->
  forall l, pairs_quads H st ident iss qs = Ok l ->
  exists l', pairs_quads H st ident iss qs' = Ok l' /\ Permutation l l'.
Proof.
  induction 1 as [|q qs qs' P IH|q1 q2 qs|qs1 qs2 qs3 P1 IH1 P2 IH2]; intros l E.
  - exists l. split; [exact E|apply Permutation_refl].
  - cbn [pairs_quads] in *. destruct (pairs_comps H st ident iss q (comps q)) as [a|]; [|discriminate].
    destruct (pairs_quads H st ident iss qs) as [b|]; [|discriminate]. injection E as E. subst l.
    destruct (IH b eq_refl) as [b' [E' Pb]]. rewrite E'. exists (a ++ b'). split; [reflexivity|].
    apply Permutation_app_head. exact Pb.
  - cbn [pairs_quads] in *.
    destruct (pairs_comps H st ident iss q2 (comps q2)) as [a2|]; [|discriminate].
    destruct (pairs_comps H st ident iss q1 (comps q1)) as [a1|]; [|discriminate].
    destruct (pairs_quads H st ident iss qs) as [b|]; [|discriminate]. injection E as E. subst l.
    exists (a1 ++ a2 ++ b). split; [reflexivity|].
    rewrite !app_assoc. apply Permutation_app_tail. apply Permutation_app_comm.
  - destruct (IH1 l E) as [l2 [E2 Q2]]. destruct (IH2 l2 E2) as [l3 [E3 Q3]].
    exists l3. split; [exact E3|]. eapply perm_trans; eassumption.
Qed.

(* ---------- pushes commute ---------- *)
Lemma hn_equiv_refl m : hn_equiv m m.
Proof. induction m; constructor; [split; [reflexivity|apply Permutation_refl]|assumption]. Qed.
Lemma hn_equiv_trans m1 m2 m3 : hn_equiv m1 m2 -> hn_equiv m2 m3 -> hn_equiv m1 m3.
Proof.
  intro E. revert m3. induction E as [|a b m1 m2 [Ek Ep] E IH]; intros m3 E2; inversion E2; subst.
  - constructor.
  - constructor; [|apply IH; assumption]. destruct H1 as [Ek' Ep'].
    split; [congruence|eapply perm_trans; eassumption].
Qed.
Lemma hn_equiv_of_eq m m' : m = m' -> hn_equiv m m'.
Proof. intros ->. apply hn_equiv_refl. Qed.

Lemma bt_push_equiv k v m m' : hn_equiv m m' -> hn_equiv (bt_push k v m) (bt_push k v m').
Proof.
  induction 1 as [|[k1 v1] [k2 v2] m m' [Ek Ep] E IH]; cbn [bt_push fst snd] in *.
  - apply hn_equiv_refl.
  - subst k2. destruct (str_cmp k k1).
    + constructor; [|exact E]. split; [reflexivity|]. cbn [snd]. apply Permutation_app_tail. exact Ep.
    + constructor; [split; [reflexivity|apply Permutation_refl]|].
      constructor; [split; [reflexivity|exact Ep]|exact E].
    + constructor; [split; [reflexivity|exact Ep]|exact IH].
Qed.

Lemma cmp_flip a b c : str_cmp a b = c -> str_cmp b a = CompOpp c.
Proof. intro E. rewrite str_cmp_antisym, E. reflexivity. Qed.

(* different keys: the two pushes commute exactly *)
Lemma bt_push_comm_lt {V} k1 (v1 : V) k2 v2 : str_cmp k1 k2 = Lt -> forall m,
  bt_push k1 v1 (bt_push k2 v2 m) = bt_push k2 v2 (bt_push k1 v1 m).
Proof.
  intros L. pose proof (cmp_flip _ _ _ L) as G. cbn [CompOpp] in G.
  induction m as [|[k' vs] m IH].
  - cbn [bt_push]. rewrite L, G. reflexivity.
  - cbn [bt_push]. destruct (str_cmp k1 k') eqn:C1; destruct (str_cmp k2 k') eqn:C2; cbn [bt_push];
      rewrite ?L, ?G, ?C1, ?C2; try reflexivity.
    + (* k1 = k', k2 = k' *) apply str_cmp_eq in C1, C2. subst. rewrite str_cmp_refl in L. discriminate.
    + (* k1 = k', k2 < k' *) apply str_cmp_eq in C1. subst k'. rewrite C2 in G. discriminate.
    + (* k1 > k', k2 < k' *)
      pose proof (str_cmp_lt_trans _ _ _ L C2) as T. rewrite T in C1. discriminate.
    + (* both greater *) rewrite IH. reflexivity.
Qed.
Lemma bt_push_comm_same k v1 v2 : forall m,
  hn_equiv (bt_push k v1 (bt_push k v2 m)) (bt_push k v2 (bt_push k v1 m)).
Proof.
  induction m as [|[k' vs] m IH].
  - cbn [bt_push]. rewrite str_cmp_refl. constructor; [|constructor].
    split; [reflexivity|]. cbn [snd app]. apply perm_swap.
  - cbn [bt_push]. destruct (str_cmp k k') eqn:C; cbn [bt_push]; rewrite ?C, ?str_cmp_refl.
    + constructor; [|apply hn_equiv_refl]. split; [reflexivity|]. cbn [snd].
      rewrite <- !app_assoc. apply Permutation_app_head. cbn [app]. apply perm_swap.
    + constructor; [|apply hn_equiv_refl]. split; [reflexivity|]. cbn [snd app]. apply perm_swap.
    + constructor; [split; [reflexivity|apply Permutation_refl]|exact IH].
Qed.
Lemma bt_push_comm k1 v1 k2 v2 m :
  hn_equiv (bt_push k1 v1 (bt_push k2 v2 m)) (bt_push k2 v2 (bt_push k1 v1 m)).
Proof.
  destruct (str_cmp k1 k2) eqn:C.
  - apply str_cmp_eq in C. subst k2. apply bt_push_comm_same.
  - apply hn_equiv_of_eq. apply bt_push_comm_lt. exact C.
  - apply hn_equiv_of_eq. symmetry. apply bt_push_comm_lt.
    pose proof (cmp_flip _ _ _ C) as G. exact G.
Qed.

Lemma push_all_equiv l : forall m m', hn_equiv m m' -> hn_equiv (push_all l m) (push_all l m').
Proof.
  induction l as [|[k v] l IH]; intros m m' E; [exact E|].
  cbn [push_all fold_left fst snd]. apply IH. apply bt_push_equiv. exact E.
Qed.
Theorem push_all_perm : forall l l', Permutation l l' ->
  forall m, hn_equiv (push_all l m) (push_all l' m).
Proof.
  induction 1 as [|[k v] l l' P IH|[k1 v1] [k2 v2] l|l1 l2 l3 P1 IH1 P2 IH2]; intro m.
  - apply hn_equiv_refl.
  - cbn [push_all fold_left fst snd]. apply IH.
  - cbn [push_all fold_left fst snd]. apply push_all_equiv. apply bt_push_comm.
  - eapply hn_equiv_trans; [apply IH1|apply IH2].
Qed.

(* ---------- the map Hn of step 3 does not depend on the order of the quads of the node ---------- *)
Theorem hn_quads_order_independent : forall H st ident iss qs qs' hn,
  Permutation qs qs' ->
  hn_quads H st ident iss qs [] = Ok hn ->
  exists hn', hn_quads H st ident iss qs' [] = Ok hn' /\ hn_equiv hn hn'.
Proof.
  intros H st ident iss qs qs' hn P E. rewrite hn_quads_pairs in E.
  destruct (pairs_quads H st ident iss qs) as [l|] eqn:El; [|discriminate]. injection E as E. subst hn.
  destruct (pairs_quads_perm H st ident iss qs qs' P l El) as [l' [El' Pl]].
  exists (push_all l' []). split.
  - rewrite hn_quads_pairs, El'. reflexivity.
  - apply push_all_perm. exact Pl.
Qed.
(* what hn_equiv gives: the same related hashes in the same order (hence the same data hashed before
   the chosen paths), and under each of them the same multiset of related nodes *)
Theorem hn_equiv_keys : forall m m', hn_equiv m m' -> map fst m = map fst m'.
Proof. induction 1 as [|a b m m' [Ek _] E IH]; [reflexivity|]. cbn [map]. congruence. Qed.
Theorem hn_equiv_lists : forall m m' k l l', hn_equiv m m' -> NoDup (map fst m) ->
  In (k, l) m -> In (k, l') m' -> Permutation l l'.
Proof.
  induction 1 as [|[k1 v1] [k2 v2] m m' [Ek Ep] E IH]; intros ND I1 I2; [destruct I1|].
  cbn [fst snd map] in *. subst k2. inversion ND as [|? ? Hnot ND']; subst.
  destruct I1 as [I1|I1]; destruct I2 as [I2|I2].
  - inversion I1; subst. inversion I2; subst. exact Ep.
  - inversion I1; subst. exfalso. apply Hnot. rewrite (hn_equiv_keys _ _ E).
    change k with (fst (k, l')). apply in_map. exact I2.
  - inversion I2; subst. exfalso. apply Hnot. change k with (fst (k, l)). apply in_map. exact I1.
  - apply IH; assumption.
Qed.

(* ---------- the witness of the class under every choice of which link quad comes first ---------- *)
Definition mpH (x : str) : str := N.of_nat (length x) :: x.
Definition mp_run (mask : N) : res (str * issuer) :=
  impl_model mpH 40 (Some 1000) (Some 6) (mp_witness mask).
Definition res_eqb (a b : res (str * issuer)) : bool :=
  match a, b with
  | Ok (x, i), Ok (y, j) => str_eqb x y && list_eqb pair_eqb (sort_by pair_leb i) (sort_by pair_leb j)
  | _, _ => false
  end.
(* the siblings share their first-degree hash (so Hash N-Degree Quads orders them), the x_i do not *)
Example mp_witness_siblings :
  first_degree mpH true (mp_witness 0) [110; 49] = first_degree mpH true (mp_witness 0) [110; 52]
  /\ first_degree mpH true (mp_witness 0) [110; 49] <> None
  /\ first_degree mpH true (mp_witness 0) [120; 49] <> first_degree mpH true (mp_witness 0) [120; 52].
Proof. vm_compute. repeat split; discriminate. Qed.
Example mp_witness_all_orders :
  forallb (fun mask => res_eqb (mp_run mask) (mp_run 0)) [0;1;2;3;4;5;6;7;8;9;10;11;12;13;14;15] = true.
Proof. vm_compute. reflexivity. Qed.
