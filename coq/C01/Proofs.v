(* C01/Proofs.v -- the theorems of property C01, assembled from Sets (sorted sets, term index),
   Iters (cached iterators), Graph / Dataset (the four sophia_inmem stores) and Refine
   (default methods; simulation by the mathematical set). *)
From Coq Require Import Permutation.
From Sophia.C01 Require Export Model Sets Iters Refine Graph Dataset.

(* ================================================================================== *)
(* HashSet / BTreeSet based stores: the std set is trusted to be a set modulo Eq/Hash/Ord
   (lawfulness of these on terms is C02); what is checked is that the inherited default
   methods turn it into the specification                                                *)
(* ================================================================================== *)
Lemma intern_list_unbounded ts l : snd (intern_list None ts l) = true.
Proof.
  revert ts. induction l as [|t l IH]; intros ts; simpl; auto.
  unfold intern. destruct (memN t ts); apply IH.
Qed.

Definition HInv (isgraph : bool) (l : list quad) : Prop :=
  NoDup l /\ forall q, In q l -> norm isgraph q = q.

(* a std set with ghost interning satisfies the interface, hence refines the specification *)
Definition gset_impl (isgraph : bool) : impl :=
  mkImpl sstate (mkS [] []) (spec_insert None isgraph) (spec_remove isgraph) s_quads
         (fun s => default_query isgraph (s_quads s)) isgraph.

Lemma NoDup_app_single {A} (l : list A) x : NoDup l -> ~ In x l -> NoDup (l ++ [x]).
Proof.
  intros Hn Hx. apply NoDup_rev in Hn. rewrite <- (rev_involutive (l ++ [x])).
  apply NoDup_rev. rewrite rev_app_distr. simpl. constructor; auto.
  rewrite <- in_rev. auto.
Qed.

Definition gset_ok (isgraph : bool) : impl_ok None (gset_impl isgraph).
Proof.
  refine (mkOk None (gset_impl isgraph) (fun s => HInv isgraph (s_quads s)) s_terms _ _ _ _ _ _).
  - split; [split; [constructor | intros q []] | split; reflexivity].
  - intros s [H _]. exact H.
  - intros s q [_ H] Hin. apply H; auto.
  - intros s q s' r [Hn Hnorm] E. cbv zeta. cbn [gset_impl i_insert i_remove i_all i_query i_isgraph] in *.
    unfold spec_insert in E.
    pose proof (intern_list_unbounded (s_terms s) (quad_terms (norm isgraph q))) as Hu.
    destruct (intern_list None (s_terms s) (quad_terms (norm isgraph q))) as [ts ok] eqn:Ei.
    cbn [fst snd] in *. subst ok.
    destruct (memq (norm isgraph q) (s_quads s)) eqn:Em; inversion E; subst; cbn [s_quads s_terms].
    + split; [split; auto|]. split; auto. split; [discriminate|]. intros _. split; auto.
    + split.
      * split.
        -- apply NoDup_app_single; auto. intros Hin. apply memq_in in Hin. congruence.
        -- intros x Hx. apply in_app_or in Hx. destruct Hx as [Hx|[<-|[]]]; auto. apply norm_idem.
      * split; auto. split; [discriminate|]. intros _. split; auto.
  - intros s q s' b [Hn Hnorm] E. cbv zeta. cbn [gset_impl i_insert i_remove i_all i_query i_isgraph] in *.
    unfold spec_remove in E. inversion E; subst; cbn [s_quads s_terms].
    split; [split|].
    + apply NoDup_filter; auto.
    + intros x Hx. apply filter_In in Hx. apply Hnorm. tauto.
    + repeat split; auto.
  - intros s sm pm om gm _ _ _ _ _. simpl. unfold default_query. apply Permutation_refl.
Defined.

(* the set store proper (no ghost) has the same observable behaviour as the ghosted one *)
Lemma hset_ghost isgraph pl ops : forall l ts,
  run_from pl (hset_impl isgraph) l ops = run_from pl (gset_impl isgraph) (mkS l ts) ops.
Proof.
  induction ops as [|o ops IH]; intros l ts; [reflexivity|].
  cbn [run_from].
  assert (Hins : forall l ts q,
     i_insert (hset_impl isgraph) l q
     = (s_quads (fst (spec_insert None isgraph (mkS l ts) q)), snd (spec_insert None isgraph (mkS l ts) q))).
  { intros l0 ts0 q. cbn [hset_impl i_insert]. unfold spec_insert. cbn [s_quads s_terms].
    pose proof (intern_list_unbounded ts0 (quad_terms (norm isgraph q))) as H.
    destruct (intern_list None ts0 (quad_terms (norm isgraph q))) as [ts' ok]. cbn [snd] in H. subst ok.
    destruct (memq (norm isgraph q) l0); reflexivity. }
  assert (Hrem : forall l ts q,
     i_remove (hset_impl isgraph) l q
     = (s_quads (fst (spec_remove isgraph (mkS l ts) q)), snd (spec_remove isgraph (mkS l ts) q))).
  { intros l0 ts0 q. simpl. destruct (memq (norm isgraph q) l0) eqn:Em; auto.
    f_equal. symmetry. apply filter_all. intros x Hx. destruct (quad_eqb (norm isgraph q) x) eqn:Eq; auto.
    apply quad_eqb_eq in Eq. subst. apply memq_in in Hx. congruence. }
  assert (Hia : forall qs l ts c,
     exists ts', api_insert_all (hset_impl isgraph) l qs c
       = (s_quads (fst (api_insert_all (gset_impl isgraph) (mkS l ts) qs c)),
          snd (api_insert_all (gset_impl isgraph) (mkS l ts) qs c))
       /\ s_terms (fst (api_insert_all (gset_impl isgraph) (mkS l ts) qs c)) = ts').
  { induction qs as [|q qs IHq]; intros l0 ts0 c; [exists ts0; auto|].
    cbn [api_insert_all]. rewrite (Hins l0 ts0 q).
    change (i_insert (gset_impl isgraph) (mkS l0 ts0) q) with (spec_insert None isgraph (mkS l0 ts0) q).
    destruct (spec_insert None isgraph (mkS l0 ts0) q) as [[l1 ts1] [b|]]; simpl.
    - apply IHq.
    - exists ts1; auto. }
  assert (Hra : forall qs l ts c,
     api_remove_all (hset_impl isgraph) l qs c
       = (s_quads (fst (api_remove_all (gset_impl isgraph) (mkS l ts) qs c)),
          snd (api_remove_all (gset_impl isgraph) (mkS l ts) qs c))
     /\ s_terms (fst (api_remove_all (gset_impl isgraph) (mkS l ts) qs c)) = ts).
  { induction qs as [|q qs IHq]; intros l0 ts0 c; [auto|].
    cbn [api_remove_all]. rewrite (Hrem l0 ts0 q).
    change (i_remove (gset_impl isgraph) (mkS l0 ts0) q) with (spec_remove isgraph (mkS l0 ts0) q).
    unfold spec_remove. cbn [fst snd s_quads s_terms]. apply IHq. }
  destruct o; cbn [step].
  - rewrite (Hins l ts q).
    change (i_insert (gset_impl isgraph) (mkS l ts) q) with (spec_insert None isgraph (mkS l ts) q).
    destruct (spec_insert None isgraph (mkS l ts) q) as [[l1 ts1] r]. simpl. f_equal. apply IH.
  - rewrite (Hrem l ts q).
    change (i_remove (gset_impl isgraph) (mkS l ts) q) with (spec_remove isgraph (mkS l ts) q).
    unfold spec_remove. simpl. f_equal. apply IH.
  - f_equal. apply IH.
  - f_equal. apply IH.
  - f_equal. apply IH.
  - unfold api_remove_matching.
    change (i_query (gset_impl isgraph) (mkS l ts) sm pm om gm) with (i_query (hset_impl isgraph) l sm pm om gm).
    destruct (Hra (i_query (hset_impl isgraph) l sm pm om gm) l ts 0) as [E1 E2]. rewrite E1.
    destruct (api_remove_all (gset_impl isgraph) (mkS l ts) (i_query (hset_impl isgraph) l sm pm om gm) 0)
      as [[l1 ts1] n1]. simpl. f_equal. apply IH.
  - unfold api_retain_matching.
    change (i_all (gset_impl isgraph) (mkS l ts)) with (i_all (hset_impl isgraph) l).
    change (i_isgraph (gset_impl isgraph)) with (i_isgraph (hset_impl isgraph)).
    set (L := filter _ (i_all (hset_impl isgraph) l)).
    destruct (Hra L l ts 0) as [E1 E2]. rewrite E1.
    destruct (api_remove_all (gset_impl isgraph) (mkS l ts) L 0) as [[l1 ts1] n1]. simpl. f_equal. apply IH.
  - destruct (Hia l0 l ts 0) as (ts' & E1 & E2). rewrite E1.
    destruct (api_insert_all (gset_impl isgraph) (mkS l ts) l0 0) as [[l1 ts1] r]. simpl. f_equal. apply IH.
  - destruct (Hra l0 l ts 0) as [E1 E2]. rewrite E1.
    destruct (api_remove_all (gset_impl isgraph) (mkS l ts) l0 0) as [[l1 ts1] r]. simpl. f_equal. apply IH.
  - f_equal. apply IH.
Qed.

(* ================================================================================== *)
(* configurations                                                                        *)
(* ================================================================================== *)
Definition set_config (c : config) : bool :=
  match c with VecGraph | VecSpogDataset | VecGspoDataset => false | _ => true end.
Definition cfg_isgraph (c : config) : bool :=
  match c with LightGraph | FastGraph | SetGraph | VecGraph => true | _ => false end.
Definition cfg_cap (c : config) (max : N) : option N :=
  match c with SetGraph | SetDataset => None | _ => Some max end.

Lemma impl_isgraph c max : i_isgraph (impl_of c max) = cfg_isgraph c.
Proof. destruct c; reflexivity. Qed.

Definition out_sim_list := Forall2 out_sim.

Lemma out_sim_refl a : out_sim a a.
Proof. destruct a; simpl; auto. Qed.
Lemma out_sim_sym a b : out_sim a b -> out_sim b a.
Proof. destruct a, b; simpl; auto; try congruence; apply Permutation_sym. Qed.
Lemma out_sim_trans a b c : out_sim a b -> out_sim b c -> out_sim a c.
Proof.
  destruct a, b, c; simpl; try congruence; try discriminate; try apply perm_trans.
Qed.
Lemma out_sims_sym a b : Forall2 out_sim a b -> Forall2 out_sim b a.
Proof. induction 1; constructor; auto. apply out_sim_sym; auto. Qed.
Lemma out_sims_trans a b c : Forall2 out_sim a b -> Forall2 out_sim b c -> Forall2 out_sim a c.
Proof.
  intros H; revert c. induction H; intros c Hc; inversion Hc; subst; constructor; eauto.
  eapply out_sim_trans; eauto.
Qed.
Lemma out_sims_refl a : Forall2 out_sim a a.
Proof. induction a; constructor; auto. apply out_sim_refl. Qed.

(* THEOREM 2 (refinement): every set-like configuration, with any I::MAX, produces on every
   finite history the outputs of the mathematical set (flags, counts, errors equal; query
   results equal up to order) *)
Theorem store_refines_set c max pl ops :
  set_config c = true -> Forall op_wf ops ->
  Forall2 out_sim (run pl (impl_of c max) ops) (spec_run pl (cfg_cap c max) (cfg_isgraph c) ops).
Proof.
  intros Hc Hw. unfold run, spec_run. destruct c; try discriminate; simpl cfg_cap; simpl cfg_isgraph.
  - apply (run_sim (Some max) (graph_impl false max) (graph_ok false max)); auto. apply R_init.
  - apply (run_sim (Some max) (graph_impl true max) (graph_ok true max)); auto. apply R_init.
  - apply (run_sim (Some max) (dataset_impl false max) (dataset_ok false max)); auto. apply R_init.
  - apply (run_sim (Some max) (dataset_impl true max) (dataset_ok true max)); auto. apply R_init.
  - simpl impl_of. simpl i_init. rewrite (hset_ghost true pl ops [] []).
    apply (run_sim None (gset_impl true) (gset_ok true)); auto. apply R_init.
  - simpl impl_of. simpl i_init. rewrite (hset_ghost false pl ops [] []).
    apply (run_sim None (gset_impl false) (gset_ok false)); auto. apply R_init.
Qed.

(* THEOREM 1 (invariant): in every reachable state of the four sophia_inmem stores the
   secondary indexes are the images of the primary one, all index lists are strictly sorted,
   the term index is a bijection onto 0..n-1 with n <= MAX, stored indexes are < n (graph
   position: < n or MAX) *)
Theorem graph_inv_reachable fast max pl ops : Forall op_wf ops ->
  GInv fast max (final pl (graph_impl fast max) ops).
Proof. intros Hw. destruct (final_sim (Some max) _ (graph_ok fast max) pl ops Hw) as [H _]. exact H. Qed.
Theorem dataset_inv_reachable fast max pl ops : Forall op_wf ops ->
  DInv fast max (final pl (dataset_impl fast max) ops).
Proof. intros Hw. destruct (final_sim (Some max) _ (dataset_ok fast max) pl ops Hw) as [H _]. exact H. Qed.

(* the final state holds exactly the specification's set and interned terms *)
Theorem graph_state_is_set fast max pl ops : Forall op_wf ops ->
  let st := final pl (graph_impl fast max) ops in
  let sp := spec_final pl (Some max) true ops in
  Permutation (g_all st) (s_quads sp) /\ NoDup (g_all st) /\ i2t (g_ti st) = s_terms sp.
Proof.
  intros Hw. destruct (final_sim (Some max) _ (graph_ok fast max) pl ops Hw) as (H1 & H2 & H3).
  cbn zeta. split; [exact H2|]. split; [|exact H3]. exact (ginv_nodup fast max _ H1).
Qed.
Theorem dataset_state_is_set fast max pl ops : Forall op_wf ops ->
  let st := final pl (dataset_impl fast max) ops in
  let sp := spec_final pl (Some max) false ops in
  Permutation (d_all max st) (s_quads sp) /\ NoDup (d_all max st) /\ i2t (d_ti st) = s_terms sp.
Proof.
  intros Hw. destruct (final_sim (Some max) _ (dataset_ok fast max) pl ops Hw) as (H1 & H2 & H3).
  cbn zeta. split; [exact H2|]. split; [|exact H3]. exact (dinv_nodup fast max _ H1).
Qed.

(* a query in any reachable state returns exactly the matching members, each once *)
Theorem graph_query_each_once fast max pl ops sm pm om gm :
  Forall op_wf ops -> tm_wf sm -> tm_wf pm -> tm_wf om ->
  let st := final pl (graph_impl fast max) ops in
  NoDup (g_query fast max st sm pm om gm)
  /\ Permutation (g_query fast max st sm pm om gm) (filter (qmatch true sm pm om gm) (g_all st)).
Proof.
  intros Hw W1 W2 W3. pose proof (graph_inv_reachable fast max pl ops Hw) as HI. simpl.
  pose proof (g_query_ok fast max _ sm pm om gm HI W1 W2 W3) as P. split; auto.
  eapply Permutation_NoDup; [apply Permutation_sym, P|]. apply NoDup_filter. eapply ginv_nodup; eauto.
Qed.
Theorem dataset_query_each_once fast max pl ops sm pm om gm :
  Forall op_wf ops -> tm_wf sm -> tm_wf pm -> tm_wf om -> gm_wf gm ->
  let st := final pl (dataset_impl fast max) ops in
  NoDup (d_query fast max st sm pm om gm)
  /\ Permutation (d_query fast max st sm pm om gm) (filter (qmatch false sm pm om gm) (d_all max st)).
Proof.
  intros Hw W1 W2 W3 W4. pose proof (dataset_inv_reachable fast max pl ops Hw) as HI. simpl.
  pose proof (d_query_ok fast max _ sm pm om gm HI W1 W2 W3 W4) as P. split; auto.
  eapply Permutation_NoDup; [apply Permutation_sym, P|]. apply NoDup_filter. eapply dinv_nodup; eauto.
Qed.

(* a TermIndexFull error leaves the set of quads unchanged; interned terms stay interned *)
Lemma intern_list_incl cap l : forall ts, incl ts (fst (intern_list cap ts l)).
Proof.
  induction l as [|t l IH]; intros ts; simpl; [apply incl_refl|].
  unfold intern. destruct (memN t ts); [apply IH|].
  destruct cap as [m|].
  - destruct (m <=? N.of_nat (length ts)); [apply incl_refl|].
    eapply incl_tran; [|apply IH]. apply incl_appl, incl_refl.
  - eapply incl_tran; [|apply IH]. apply incl_appl, incl_refl.
Qed.
Theorem dataset_index_full fast max st q :
  DInv fast max st -> snd (d_insert fast max st q) = None ->
  let st' := fst (d_insert fast max st q) in
  DInv fast max st' /\ d_all max st' = d_all max st /\ incl (i2t (d_ti st)) (i2t (d_ti st')).
Proof.
  intros HI Hn. destruct (d_insert fast max st q) as [st' r] eqn:E. simpl in *. subst r.
  destruct (d_insert_ok fast max st q st' None HI E) as (H1 & H2 & H3 & H4).
  split; auto. destruct (snd (intern_list (Some max) (i2t (d_ti st)) (quad_terms q))) eqn:Eb.
  - destruct (H4 eq_refl) as [X _]. discriminate.
  - destruct (H3 eq_refl) as [_ X]. split; auto. rewrite H2. apply intern_list_incl.
Qed.
Theorem graph_index_full fast max st q :
  GInv fast max st -> snd (g_insert fast max st q) = None ->
  let st' := fst (g_insert fast max st q) in
  GInv fast max st' /\ g_all st' = g_all st /\ incl (i2t (g_ti st)) (i2t (g_ti st')).
Proof.
  intros HI Hn. destruct (g_insert fast max st q) as [st' r] eqn:E. simpl in *. subst r.
  destruct (g_insert_ok fast max st q st' None HI E) as (H1 & H2 & H3 & H4).
  split; auto. destruct (snd (intern_list (Some max) (i2t (g_ti st)) (quad_terms (norm true q)))) eqn:Eb.
  - destruct (H4 eq_refl) as [X _]. discriminate.
  - destruct (H3 eq_refl) as [_ X]. split; auto. rewrite H2. apply intern_list_incl.
Qed.

(* ================================================================================== *)
(* THEOREM 4: all configurations agree below exhaustion                                  *)
(* ================================================================================== *)
Lemma intern_cap_indep c1 c2 ts t r1 r2 :
  intern c1 ts t = Some r1 -> intern c2 ts t = Some r2 -> r1 = r2.
Proof.
  unfold intern. destruct (memN t ts); [congruence|].
  destruct c1 as [m1|], c2 as [m2|];
    repeat match goal with |- context [?a <=? ?b] => destruct (a <=? b) end; congruence.
Qed.
Lemma intern_list_cap_indep c1 c2 l : forall ts,
  snd (intern_list c1 ts l) = true -> snd (intern_list c2 ts l) = true ->
  intern_list c1 ts l = intern_list c2 ts l.
Proof.
  induction l as [|t l IH]; intros ts H1 H2; simpl in *; auto.
  destruct (intern c1 ts t) as [r1|] eqn:E1; [|discriminate].
  destruct (intern c2 ts t) as [r2|] eqn:E2; [|discriminate].
  rewrite (intern_cap_indep _ _ _ _ _ _ E1 E2) in *. apply IH; auto.
Qed.
Lemma spec_insert_cap_indep c1 c2 g sp q :
  snd (spec_insert c1 g sp q) <> None -> snd (spec_insert c2 g sp q) <> None ->
  spec_insert c1 g sp q = spec_insert c2 g sp q.
Proof.
  unfold spec_insert. intros H1 H2.
  destruct (intern_list c1 (s_terms sp) (quad_terms (norm g q))) as [ts1 ok1] eqn:E1.
  destruct (intern_list c2 (s_terms sp) (quad_terms (norm g q))) as [ts2 ok2] eqn:E2.
  destruct ok1; [|simpl in H1; congruence]. destruct ok2; [|simpl in H2; congruence].
  pose proof (intern_list_cap_indep c1 c2 (quad_terms (norm g q)) (s_terms sp)) as H.
  rewrite E1, E2 in H. specialize (H eq_refl eq_refl). inversion H; subst. reflexivity.
Qed.
Lemma spec_insert_all_cap_indep c1 c2 g l : forall sp c,
  snd (spec_insert_all c1 g sp l c) <> None -> snd (spec_insert_all c2 g sp l c) <> None ->
  spec_insert_all c1 g sp l c = spec_insert_all c2 g sp l c.
Proof.
  induction l as [|q l IH]; intros sp c H1 H2; [reflexivity|]. cbn [spec_insert_all] in *.
  assert (A1 : snd (spec_insert c1 g sp q) <> None).
  { destruct (spec_insert c1 g sp q) as [sp1 [b|]]; simpl in *; congruence. }
  assert (A2 : snd (spec_insert c2 g sp q) <> None).
  { destruct (spec_insert c2 g sp q) as [sp1 [b|]]; simpl in *; congruence. }
  rewrite (spec_insert_cap_indep c1 c2 g sp q A1 A2) in *.
  destruct (spec_insert c2 g sp q) as [sp1 [b|]]; [|reflexivity]. apply IH; auto.
Qed.
Lemma spec_step_cap_indep pl c1 c2 g sp o :
  snd (spec_step pl c1 g sp o) <> OErr -> snd (spec_step pl c2 g sp o) <> OErr ->
  spec_step pl c1 g sp o = spec_step pl c2 g sp o.
Proof.
  destruct o; cbn [spec_step]; auto.
  - intros H1 H2. rewrite (spec_insert_cap_indep c1 c2 g sp q); auto.
    + destruct (spec_insert c1 g sp q) as [sp1 [b|]]; simpl in *; congruence.
    + destruct (spec_insert c2 g sp q) as [sp1 [b|]]; simpl in *; congruence.
  - intros H1 H2. rewrite (spec_insert_all_cap_indep c1 c2 g l sp 0); auto.
    + destruct (spec_insert_all c1 g sp l 0) as [sp1 [b|]]; simpl in *; congruence.
    + destruct (spec_insert_all c2 g sp l 0) as [sp1 [b|]]; simpl in *; congruence.
Qed.
Lemma spec_run_cap_indep pl c1 c2 g ops : forall sp,
  ~ In OErr (spec_run_from pl c1 g sp ops) -> ~ In OErr (spec_run_from pl c2 g sp ops) ->
  spec_run_from pl c1 g sp ops = spec_run_from pl c2 g sp ops.
Proof.
  induction ops as [|o ops IH]; intros sp H1 H2; [reflexivity|]. cbn [spec_run_from] in *.
  assert (A1 : snd (spec_step pl c1 g sp o) <> OErr).
  { destruct (spec_step pl c1 g sp o) as [sp1 r1]. simpl in *. intros ->. apply H1. left; auto. }
  assert (A2 : snd (spec_step pl c2 g sp o) <> OErr).
  { destruct (spec_step pl c2 g sp o) as [sp1 r1]. simpl in *. intros ->. apply H2. left; auto. }
  rewrite (spec_step_cap_indep pl c1 c2 g sp o A1 A2) in *.
  destruct (spec_step pl c2 g sp o) as [sp1 r1]. f_equal. apply IH.
  - intros Hin. apply H1. right; auto.
  - intros Hin. apply H2. right; auto.
Qed.

(* a history stays below exhaustion for capacity [cap] if the specification never reports
   an index-full error on it *)
Definition below_exhaustion pl (cap : option N) (isgraph : bool) (ops : list op) : Prop :=
  ~ In OErr (spec_run pl cap isgraph ops).

Theorem configs_agree c1 c2 max1 max2 pl ops :
  set_config c1 = true -> set_config c2 = true -> cfg_isgraph c1 = cfg_isgraph c2 ->
  Forall op_wf ops ->
  below_exhaustion pl (cfg_cap c1 max1) (cfg_isgraph c1) ops ->
  below_exhaustion pl (cfg_cap c2 max2) (cfg_isgraph c2) ops ->
  Forall2 out_sim (run pl (impl_of c1 max1) ops) (run pl (impl_of c2 max2) ops).
Proof.
  intros S1 S2 G Hw B1 B2.
  pose proof (store_refines_set c1 max1 pl ops S1 Hw) as R1.
  pose proof (store_refines_set c2 max2 pl ops S2 Hw) as R2.
  unfold below_exhaustion, spec_run in *. rewrite <- G in *.
  rewrite (spec_run_cap_indep pl (cfg_cap c1 max1) (cfg_cap c2 max2) (cfg_isgraph c1) ops (mkS [] []) B1 B2) in R1.
  eapply out_sims_trans; [exact R1|]. apply out_sims_sym. exact R2.
Qed.

(* ================================================================================== *)
(* vector-backed stores are the corresponding list                                      *)
(* ================================================================================== *)
Theorem vec_content_is_list isgraph l q :
  i_all (vec_all_impl isgraph) (fst (i_insert (vec_all_impl isgraph) l q)) = l ++ [norm isgraph q]
  /\ i_all (vec_all_impl isgraph) (fst (i_remove (vec_all_impl isgraph) l q))
     = filter (fun x => negb (quad_eqb (norm isgraph q) x)) l
  /\ (forall sm pm om gm, i_query (vec_all_impl isgraph) l sm pm om gm = filter (qmatch isgraph sm pm om gm) l).
Proof. repeat split. Qed.

Lemma remove_first_perm q l : In q l -> Permutation l (q :: remove_first q l).
Proof.
  induction l as [|x l IH]; intros Hin; [destruct Hin|]. simpl.
  destruct (quad_eqb q x) eqn:E.
  - apply quad_eqb_eq in E. subst. auto.
  - destruct Hin as [->|Hin]; [rewrite quad_eqb_refl in E; discriminate|].
    eapply perm_trans; [apply perm_skip, IH, Hin | apply perm_swap].
Qed.
Theorem vec_gspo_remove_one l q :
  let '(l', b) := i_remove vec_first_impl l q in
  (b = true -> Permutation l (q :: l')) /\ (b = false -> l' = l /\ ~ In q l).
Proof.
  simpl. destruct (memq q l) eqn:E; split; try discriminate.
  - intros _. apply remove_first_perm. apply memq_in. auto.
  - intros _. split; auto. intros Hin. apply memq_in in Hin. congruence.
Qed.

(* bulk removal on Vec<Spog<T>> / Vec<[T;3]>: collect, then remove every copy of each collected
   item; every remove answers true, so the count is the number of collected items *)
Lemma vec_all_remove_all g L : forall l c,
  api_remove_all (vec_all_impl g) l L c
  = (filter (fun x => negb (memq x (map (norm g) L))) l, c + N.of_nat (length L)).
Proof.
  induction L as [|q L IH]; intros l c.
  - simpl. rewrite filter_all by auto. f_equal. lia.
  - cbn [api_remove_all vec_all_impl i_remove]. rewrite IH. f_equal.
    + rewrite filter_filter. apply filter_ext_in'. intros x _. cbn [map memq existsb].
      fold (memq x (map (norm g) L)). rewrite (quad_eqb_sym x). rewrite negb_orb. reflexivity.
    + cbn [length]. lia.
Qed.

Theorem vec_remove_matching g l sm pm om gm :
  (forall q, In q l -> norm g q = q) ->
  api_remove_matching (vec_all_impl g) l sm pm om gm
  = (filter (fun q => negb (qmatch g sm pm om gm q)) l,
     N.of_nat (length (filter (qmatch g sm pm om gm) l))).
Proof.
  intros Hn. unfold api_remove_matching. rewrite vec_all_remove_all.
  cbn [vec_all_impl i_query default_query]. f_equal.
  apply filter_ext_in'. intros x Hx. f_equal.
  assert (Hm : map (norm g) (filter (qmatch g sm pm om gm) l) = filter (qmatch g sm pm om gm) l).
  { erewrite map_ext_in; [apply map_id|]. intros a Ha. apply filter_In in Ha. apply Hn. tauto. }
  unfold default_query. rewrite Hm. destruct (qmatch g sm pm om gm x) eqn:E.
  - apply memq_in. apply filter_In. auto.
  - destruct (memq x (filter (qmatch g sm pm om gm) l)) eqn:E2; auto.
    apply memq_in in E2. apply filter_In in E2. destruct E2. congruence.
Qed.

Theorem vec_retain_matching g l sm pm om gm :
  (forall q, In q l -> norm g q = q) ->
  api_retain_matching (vec_all_impl g) l sm pm om gm = filter (qmatch g sm pm om gm) l.
Proof.
  intros Hn. unfold api_retain_matching. rewrite vec_all_remove_all. cbn [fst vec_all_impl i_all i_isgraph].
  apply filter_ext_in'. intros x Hx.
  set (L := filter (fun q => negb (qmatch g sm pm om gm q)) l).
  assert (Hm : map (norm g) L = L).
  { erewrite map_ext_in; [apply map_id|]. intros a Ha. apply filter_In in Ha. apply Hn. tauto. }
  rewrite Hm. destruct (qmatch g sm pm om gm x) eqn:E.
  - destruct (memq x L) eqn:E2; auto. apply memq_in in E2. apply filter_In in E2.
    destruct E2 as [_ E2]. rewrite E in E2. discriminate.
  - assert (E2 : memq x L = true) by (apply memq_in, filter_In; rewrite E; auto). rewrite E2. reflexivity.
Qed.

(* the histories printed by the harness only use matchers obeying the constant() contract *)
Lemma harness_matchers_wf a b c d : tm_wf (md a) /\ tm_wf (md b) /\ tm_wf (md c) /\ gm_wf (gd d).
Proof. repeat split; first [apply md_wf | apply gd_wf]. Qed.

(* ================================================================================== *)
(* the extended alphabet (Model.v section 13): bulk constructors, clones, failing        *)
(* sources, term count                                                                   *)
(* ================================================================================== *)
(* on histories of base operations the extended machine is the base machine *)
Theorem xrun_base pl I tc ops : forall s,
  xrun_from pl I tc s (map XBase ops) = run_from pl I s ops.
Proof.
  induction ops as [|o ops IH]; intros s; [reflexivity|].
  cbn [map xrun_from run_from xstep]. destruct (step pl I s o) as [s' r]. f_equal. apply IH.
Qed.

(* the bulk constructor is the fold of single inserts from the empty store: what follows a
   successful from_quad_source(l) is what follows insert_all(l) on a new store, whatever the
   store held before *)
Theorem collect_is_insert_all pl I tc l xs s0 :
  snd (api_insert_all I (i_init I) l 0) <> None ->
  xrun_from pl I tc s0 (XCollect l false :: xs)
  = OFlag true :: xrun_from pl I tc (fst (api_insert_all I (i_init I) l 0)) xs.
Proof.
  intros H. cbn [xrun_from xstep]. unfold api_collect.
  destruct (api_insert_all I (i_init I) l 0) as [s' [n|]]; simpl in *; [reflexivity | congruence].
Qed.
Theorem collect_then_base pl I tc l ops s0 :
  snd (api_insert_all I (i_init I) l 0) <> None ->
  xrun_from pl I tc s0 (XCollect l false :: map XBase ops)
  = OFlag true :: tl (run pl I (InsertAll l :: ops)).
Proof.
  intros H. rewrite collect_is_insert_all by exact H. rewrite xrun_base.
  unfold run. cbn [run_from step]. destruct (api_insert_all I (i_init I) l 0) as [s' r]. reflexivity.
Qed.
(* a failed bulk constructor (full term index, or a failing source) leaves the current store alone *)
Theorem collect_failure_keeps_store pl I tc l fail s0 :
  snd (xstep pl I tc s0 (XCollect l fail)) <> OFlag true -> fst (xstep pl I tc s0 (XCollect l fail)) = s0.
Proof.
  cbn [xstep]. destruct (api_collect I l) as [s'|]; [|reflexivity].
  destruct fail; simpl; [reflexivity | congruence].
Qed.

Definition xop_wf (o : xop) : Prop := match o with XBase o => op_wf o | _ => True end.

Section XGeneric.
Variable cap : option N.
Variable I : impl.
Variable ok : impl_ok cap I.
Variable pl : pool.
Variable tc : St I -> option N.
Variable counted : bool.
Hypothesis tc_ok : forall s, tc s = if counted then Some (N.of_nat (length (terms ok s))) else None.

Theorem xstep_sim s sp o : R cap I ok s sp -> xop_wf o ->
  R cap I ok (fst (xstep pl I tc s o)) (fst (xspec_step pl cap (i_isgraph I) counted sp o))
  /\ out_sim (snd (xstep pl I tc s o)) (snd (xspec_step pl cap (i_isgraph I) counted sp o)).
Proof.
  intros HR Hw. destruct o as [o| |l fail|l|l|]; cbn [xstep xspec_step].
  - apply step_sim; auto.
  - split; [exact HR | reflexivity].
  - unfold api_collect.
    destruct (sim_insert_all cap I ok l (i_init I) (mkS [] []) 0 (R_init cap I ok)) as [H1 H2].
    destruct (api_insert_all I (i_init I) l 0) as [s' r].
    destruct (spec_insert_all cap (i_isgraph I) (mkS [] []) l 0) as [sp' r'].
    simpl in H1, H2. subst r'. destruct r as [n|]; [destruct fail|]; simpl; split; auto; reflexivity.
  - destruct (sim_insert_all cap I ok l s sp 0 HR) as [H1 H2].
    destruct (api_insert_all I s l 0) as [s' r].
    destruct (spec_insert_all cap (i_isgraph I) sp l 0) as [sp' r'].
    simpl in H1, H2. subst r'. destruct r as [n|]; simpl; split; auto; reflexivity.
  - destruct (sim_remove_all cap I ok l s sp 0 HR) as [H1 _]. simpl. split; [exact H1 | reflexivity].
  - split; [exact HR|]. rewrite tc_ok. destruct HR as (_ & _ & HT). rewrite HT.
    destruct counted; reflexivity.
Qed.

Theorem xrun_sim xs : forall s sp, R cap I ok s sp -> Forall xop_wf xs ->
  Forall2 out_sim (xrun_from pl I tc s xs) (xspec_run_from pl cap (i_isgraph I) counted sp xs).
Proof.
  induction xs as [|o xs IH]; intros s sp HR Hw; cbn [xrun_from xspec_run_from]; [constructor|].
  inversion Hw; subst.
  destruct (xstep_sim s sp o HR H1) as [HR' Ho].
  destruct (xstep pl I tc s o) as [s' r]. destruct (xspec_step pl cap (i_isgraph I) counted sp o) as [sp' r'].
  simpl in *. constructor; auto.
Qed.
End XGeneric.

(* the std sets: one step of the set store proper and of the ghosted one (from hset_ghost) *)
Lemma hset_ghost_step isgraph pl o l ts :
  step pl (hset_impl isgraph) l o
  = (s_quads (fst (step pl (gset_impl isgraph) (mkS l ts) o)),
     snd (step pl (gset_impl isgraph) (mkS l ts) o)).
Proof.
  pose proof (hset_ghost isgraph pl [o; All] l ts) as H. cbn [run_from] in H.
  destruct (step pl (hset_impl isgraph) l o) as [l1 r1].
  destruct (step pl (gset_impl isgraph) (mkS l ts) o) as [s1 r1'].
  cbn [step] in H. inversion H. simpl. reflexivity.
Qed.
Lemma hset_ghost_insert_all g l0 l ts :
  fst (api_insert_all (hset_impl g) l l0 0) = s_quads (fst (api_insert_all (gset_impl g) (mkS l ts) l0 0))
  /\ (snd (api_insert_all (hset_impl g) l l0 0) = None
      <-> snd (api_insert_all (gset_impl g) (mkS l ts) l0 0) = None).
Proof.
  pose proof (hset_ghost_step g [] (InsertAll l0) l ts) as H. cbn [step] in H.
  destruct (api_insert_all (hset_impl g) l l0 0) as [a [n|]];
    destruct (api_insert_all (gset_impl g) (mkS l ts) l0 0) as [b [m|]]; simpl in *;
    inversion H; split; auto; split; congruence.
Qed.
Lemma hset_ghost_remove_all g l0 l ts :
  fst (api_remove_all (hset_impl g) l l0 0) = s_quads (fst (api_remove_all (gset_impl g) (mkS l ts) l0 0)).
Proof.
  pose proof (hset_ghost_step g [] (RemoveAll l0) l ts) as H. cbn [step] in H.
  destruct (api_remove_all (hset_impl g) l l0 0) as [a n];
    destruct (api_remove_all (gset_impl g) (mkS l ts) l0 0) as [b m]; simpl in *.
  inversion H. reflexivity.
Qed.
Lemma xhset_ghost g pl xs : forall l ts,
  xrun_from pl (hset_impl g) (fun _ => None) l xs
  = xrun_from pl (gset_impl g) (fun _ => None) (mkS l ts) xs.
Proof.
  induction xs as [|o xs IH]; intros l ts; [reflexivity|].
  destruct o as [o| |l0 fail|l0|l0|]; cbn [xrun_from xstep].
  - rewrite (hset_ghost_step g pl o l ts).
    destruct (step pl (gset_impl g) (mkS l ts) o) as [[l1 ts1] r1]. simpl. f_equal. apply IH.
  - f_equal. apply IH.
  - unfold api_collect. cbn [hset_impl gset_impl i_init].
    destruct (hset_ghost_insert_all g l0 [] []) as [E1 E2].
    destruct (api_insert_all (hset_impl g) [] l0 0) as [a ra].
    destruct (api_insert_all (gset_impl g) (mkS [] []) l0 0) as [[b tb] rb]. simpl in E1, E2. subst a.
    destruct ra as [n|], rb as [m|].
    + destruct fail; f_equal; apply IH.
    + exfalso. destruct E2 as [_ E2]. specialize (E2 eq_refl). discriminate.
    + exfalso. destruct E2 as [E2 _]. specialize (E2 eq_refl). discriminate.
    + f_equal. apply IH.
  - destruct (hset_ghost_insert_all g l0 l ts) as [E1 E2].
    destruct (api_insert_all (hset_impl g) l l0 0) as [a ra].
    destruct (api_insert_all (gset_impl g) (mkS l ts) l0 0) as [[b tb] rb]. simpl in E1, E2. subst a.
    destruct ra as [n|], rb as [m|].
    + f_equal. apply IH.
    + exfalso. destruct E2 as [_ E2]. specialize (E2 eq_refl). discriminate.
    + exfalso. destruct E2 as [E2 _]. specialize (E2 eq_refl). discriminate.
    + f_equal. apply IH.
  - rewrite (hset_ghost_remove_all g l0 l ts).
    destruct (fst (api_remove_all (gset_impl g) (mkS l ts) l0 0)) as [b tb]. simpl. f_equal. apply IH.
  - f_equal. apply IH.
Qed.

Definition cfg_counted (c : config) : bool :=
  match c with LightGraph | FastGraph | LightDataset | FastDataset => true | _ => false end.

(* THEOREM 2x: the refinement theorem over the extended alphabet *)
Theorem xstore_refines_set c max pl xs :
  set_config c = true -> Forall xop_wf xs ->
  Forall2 out_sim (xrun pl c max xs) (xspec_run pl (cfg_cap c max) (cfg_isgraph c) (cfg_counted c) xs).
Proof.
  intros Hc Hw. unfold xrun, xspec_run.
  destruct c; try discriminate; cbn [cfg_cap cfg_isgraph cfg_counted].
  - apply (xrun_sim (Some max) (graph_impl false max) (graph_ok false max) pl _ true);
      [intros s; reflexivity | apply R_init | exact Hw].
  - apply (xrun_sim (Some max) (graph_impl true max) (graph_ok true max) pl _ true);
      [intros s; reflexivity | apply R_init | exact Hw].
  - apply (xrun_sim (Some max) (dataset_impl false max) (dataset_ok false max) pl _ true);
      [intros s; reflexivity | apply R_init | exact Hw].
  - apply (xrun_sim (Some max) (dataset_impl true max) (dataset_ok true max) pl _ true);
      [intros s; reflexivity | apply R_init | exact Hw].
  - cbn [impl_of term_count i_init hset_impl]. rewrite (xhset_ghost true pl xs [] []).
    apply (xrun_sim None (gset_impl true) (gset_ok true) pl _ false);
      [intros s; reflexivity | apply R_init | exact Hw].
  - cbn [impl_of term_count i_init hset_impl]. rewrite (xhset_ghost false pl xs [] []).
    apply (xrun_sim None (gset_impl false) (gset_ok false) pl _ false);
      [intros s; reflexivity | apply R_init | exact Hw].
Qed.

(* ================================================================================== *)
(* SimpleTermIndex used directly (Model.v section 14)                                    *)
(* ================================================================================== *)
Lemma ti_step_inv max ti o : TInv max ti -> TInv max (fst (ti_step max ti o)).
Proof.
  intros H. destruct o; cbn [ti_step fst]; auto.
  destruct (ensure_index max ti t) as [ti' r] eqn:E.
  destruct (ensure_index_spec max ti t ti' r H E) as [H' _]. exact H'.
Qed.
Lemma ti_fold_inv max ops : forall ti, TInv max ti ->
  TInv max (fold_left (fun ti o => fst (ti_step max ti o)) ops ti).
Proof. induction ops as [|o ops IH]; intros ti H; simpl; auto. apply IH, ti_step_inv, H. Qed.
(* every reachable term index is a bijection between its terms and 0..len-1, and len <= MAX *)
Theorem ti_reachable_inv max ops : TInv max (ti_final max ops).
Proof. apply ti_fold_inv, tinv_empty. Qed.

(* an index handed out by ensure_index is, from then on, the index of that term and of no other *)
Theorem ti_ensure_roundtrip max ops t i :
  snd (ti_step max (ti_final max ops) (TiEnsure t)) = Some i ->
  let ti' := ti_final max (ops ++ [TiEnsure t]) in
  get_index ti' t = Some i /\ get_term ti' i = t /\ i < tlen ti'.
Proof.
  intros H. unfold ti_final. rewrite fold_left_app. cbn [fold_left]. fold (ti_final max ops).
  pose proof (ti_reachable_inv max ops) as HI. cbn [ti_step] in *.
  destruct (ensure_index max (ti_final max ops) t) as [ti' r] eqn:E. simpl in H. subst r.
  destruct (ensure_index_spec max _ t ti' (Some i) HI E) as (HI' & _ & _ & _ & Hg & _). simpl.
  split; [exact Hg|]. destruct HI' as [HB _]. apply HB in Hg. tauto.
Qed.

(* the terms held by the index are those the specification's [intern] holds, in the same order *)
Lemma ti_spec_fold max ops : forall ti, TInv max ti ->
  i2t (fold_left (fun ti o => fst (ti_step max ti o)) ops ti) = ti_spec max (i2t ti) ops.
Proof.
  induction ops as [|o ops IH]; intros ti H; [reflexivity|]. cbn [fold_left].
  rewrite IH by (apply ti_step_inv; exact H).
  destruct o; cbn [ti_step fst ti_spec]; try reflexivity.
  destruct (ensure_index max ti t) as [ti' r] eqn:E.
  destruct (ensure_index_spec max ti t ti' r H E) as (_ & _ & _ & _ & Hr). simpl.
  destruct r as [i|].
  - destruct Hr as [_ ->]. reflexivity.
  - destruct Hr as [-> ->]. reflexivity.
Qed.
Theorem ti_is_intern max ops : i2t (ti_final max ops) = ti_spec max [] ops.
Proof. apply (ti_spec_fold max ops ti_empty), tinv_empty. Qed.

(* ---- enumeration matchers ([T;N], &[T] and their graph-name forms) ----
   How an enumeration is spelled (a term listed several times, the order of the list) is invisible:
   the answer is the members whose component occurs in the list, each once, and two lists with the
   same members give the same answer up to order. *)
Lemma tm_array_pred l x : tm_pred (tm_array l) x = true <-> In x l.
Proof.
  unfold tm_array; cbn [tm_pred]. rewrite existsb_exists. split.
  - intros (y & Hy & E). apply N.eqb_eq in E. subst y. exact Hy.
  - intros H. exists x. split; [exact H|apply N.eqb_refl].
Qed.
Lemma tm_array_pred_ext l l' : (forall x, In x l <-> In x l') ->
  forall x, tm_pred (tm_array l) x = tm_pred (tm_array l') x.
Proof.
  intros H x. destruct (tm_pred (tm_array l) x) eqn:E1, (tm_pred (tm_array l') x) eqn:E2; try reflexivity.
  - apply tm_array_pred, H, tm_array_pred in E1. congruence.
  - apply tm_array_pred, H, tm_array_pred in E2. congruence.
Qed.
Lemma qmatch_array_ext isgraph ls ls' lp lp' lo lo' gm :
  (forall x, In x ls <-> In x ls') -> (forall x, In x lp <-> In x lp') -> (forall x, In x lo <-> In x lo') ->
  forall q, qmatch isgraph (tm_array ls) (tm_array lp) (tm_array lo) gm q
          = qmatch isgraph (tm_array ls') (tm_array lp') (tm_array lo') gm q.
Proof.
  intros Hs Hp Ho q. unfold qmatch.
  rewrite (tm_array_pred_ext ls ls' Hs), (tm_array_pred_ext lp lp' Hp), (tm_array_pred_ext lo lo' Ho). reflexivity.
Qed.
Theorem graph_query_enumeration fast max pl ops ls lp lo gm :
  Forall op_wf ops ->
  let st := final pl (graph_impl fast max) ops in
  let ans := g_query fast max st (tm_array ls) (tm_array lp) (tm_array lo) gm in
  NoDup ans
  /\ (forall q, In q ans <-> In q (g_all st) /\ In (qs q) ls /\ In (qp q) lp /\ In (qo q) lo).
Proof.
  intros Hw st ans.
  destruct (graph_query_each_once fast max pl ops (tm_array ls) (tm_array lp) (tm_array lo) gm Hw
              (tm_array_wf ls) (tm_array_wf lp) (tm_array_wf lo)) as [ND P].
  split; [exact ND|]. intros q. split.
  - intros H. apply (Permutation_in _ P), filter_In in H. destruct H as [H M]. split; [exact H|].
    unfold qmatch in M. cbn [orb] in M. rewrite Bool.andb_true_r in M.
    apply Bool.andb_true_iff in M. destruct M as [M Mo]. apply Bool.andb_true_iff in M. destruct M as [Ms Mp].
    repeat split; apply tm_array_pred; assumption.
  - intros (H & Hs & Hp & Ho). apply (Permutation_in _ (Permutation_sym P)), filter_In. split; [exact H|].
    unfold qmatch. cbn [orb]. rewrite Bool.andb_true_r.
    apply tm_array_pred in Hs, Hp, Ho. rewrite Hs, Hp, Ho. reflexivity.
Qed.
Theorem graph_query_respelled fast max pl ops ls ls' lp lp' lo lo' gm :
  Forall op_wf ops ->
  (forall x, In x ls <-> In x ls') -> (forall x, In x lp <-> In x lp') -> (forall x, In x lo <-> In x lo') ->
  let st := final pl (graph_impl fast max) ops in
  Permutation (g_query fast max st (tm_array ls) (tm_array lp) (tm_array lo) gm)
              (g_query fast max st (tm_array ls') (tm_array lp') (tm_array lo') gm).
Proof.
  intros Hw Hs Hp Ho st.
  destruct (graph_query_each_once fast max pl ops (tm_array ls) (tm_array lp) (tm_array lo) gm Hw
              (tm_array_wf ls) (tm_array_wf lp) (tm_array_wf lo)) as [_ P].
  destruct (graph_query_each_once fast max pl ops (tm_array ls') (tm_array lp') (tm_array lo') gm Hw
              (tm_array_wf ls') (tm_array_wf lp') (tm_array_wf lo')) as [_ P'].
  eapply Permutation_trans; [exact P|]. eapply Permutation_trans; [|apply Permutation_sym; exact P'].
  rewrite (filter_ext _ _ (qmatch_array_ext true ls ls' lp lp' lo lo' gm Hs Hp Ho)). apply Permutation_refl.
Qed.
Theorem dataset_query_respelled fast max pl ops ls ls' lp lp' lo lo' lg lg' :
  Forall op_wf ops ->
  (forall x, In x ls <-> In x ls') -> (forall x, In x lp <-> In x lp') -> (forall x, In x lo <-> In x lo') ->
  (forall g, gm_pred (gm_array lg) g = gm_pred (gm_array lg') g) ->
  let st := final pl (dataset_impl fast max) ops in
  NoDup (d_query fast max st (tm_array ls) (tm_array lp) (tm_array lo) (gm_array lg))
  /\ Permutation (d_query fast max st (tm_array ls) (tm_array lp) (tm_array lo) (gm_array lg))
                 (d_query fast max st (tm_array ls') (tm_array lp') (tm_array lo') (gm_array lg')).
Proof.
  intros Hw Hs Hp Ho Hg st.
  destruct (dataset_query_each_once fast max pl ops (tm_array ls) (tm_array lp) (tm_array lo) (gm_array lg) Hw
              (tm_array_wf ls) (tm_array_wf lp) (tm_array_wf lo) (gm_array_wf lg)) as [ND P].
  destruct (dataset_query_each_once fast max pl ops (tm_array ls') (tm_array lp') (tm_array lo') (gm_array lg') Hw
              (tm_array_wf ls') (tm_array_wf lp') (tm_array_wf lo') (gm_array_wf lg')) as [_ P'].
  split; [exact ND|].
  eapply Permutation_trans; [exact P|]. eapply Permutation_trans; [|apply Permutation_sym; exact P'].
  erewrite filter_ext; [apply Permutation_refl|]. intros q. unfold qmatch.
  rewrite (tm_array_pred_ext ls ls' Hs), (tm_array_pred_ext lp lp' Hp), (tm_array_pred_ext lo lo' Ho), Hg. reflexivity.
Qed.
