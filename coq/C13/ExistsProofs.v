(* C13/ExistsProofs.v -- EXISTS (Exists.v):
   (1) weval / wselect are a conservative extension of Eval.ceval / Model.select: on queries
       without EXISTS they compute the same thing, so every theorem of Proofs.v applies to them;
   (2) a group evaluated from an outer solution (the `binding` argument of select, which only
       EXISTS supplies) returns solutions that EXTEND it: every operator of the group -- FILTER,
       BIND, a nested EXISTS, GRAPH -- sees all the variables of the outer solution, whether or
       not they occur in the triple patterns of the group (18.6: substitute replaces them
       everywhere);
   (3) consequences for EXISTS itself. *)
From Sophia.C13 Require Import Model Maps BgpProofs Proofs NumModel Eval Exists.
From Coq Require Import Permutation.

(* ---------- the defining equations (the mutual fixpoint unfolds badly under cbn) ---------- *)
Section Equations.
Variable qm : matcher3 -> list (option term) -> list triple.
Variable gnames : list term.
Notation wsel := (wselect qm gnames).
Notation wev := (weval qm gnames).
Lemma wselect_bgp ps gm b : wsel (WBgp ps) gm b = bgp qm ps gm b.
Proof. reflexivity. Qed.
Lemma wselect_filter e i gm b : wsel (WFilter e i) gm b =
  match wsel i gm b with Err x => Err x | Ok vs rows => Ok vs (filter (fun r => wkeep (wev e r gm)) rows) end.
Proof. reflexivity. Qed.
Lemma wselect_union l r gm b : wsel (WUnion l r) gm b =
  match wsel l gm b with
  | Err x => Err x
  | Ok lv li => match wsel r gm b with
                | Err x => Err x
                | Ok rv ri => Ok (lv ++ filter (fun v => negb (memb str_eqb v lv)) rv) (li ++ ri)
                end
  end.
Proof. reflexivity. Qed.
Lemma wselect_graph n i gm b : wsel (WGraph n i) gm b = graph gnames (wsel i) n b.
Proof. reflexivity. Qed.
Lemma wselect_extend i v e gm b : wsel (WExtend i v e) gm b =
  match wsel i gm b with
  | Err x => Err x
  | Ok vs rows => if memb str_eqb v vs then Err (Override v)
                  else Ok (vs ++ [v]) (map (fun r => wextend_row v (wev e r gm) r) rows)
  end.
Proof. reflexivity. Qed.
Lemma wselect_orderby i n gm b : wsel (WOrderBy i n) gm b = wsel i gm b.
Proof. reflexivity. Qed.
Lemma wselect_project i vs gm b : wsel (WProject i vs) gm b =
  match wsel i gm b with Err x => Err x | Ok _ rows => Ok vs (map (restrict_row vs) rows) end.
Proof. reflexivity. Qed.
Lemma wselect_distinct i gm b : wsel (WDistinct i) gm b =
  match wsel i gm b with Err x => Err x | Ok vs rows => Ok vs (dedup_rows vs [] rows) end.
Proof. reflexivity. Qed.
Lemma wselect_slice i s len gm b : wsel (WSlice i s len) gm b =
  match wsel i gm b with Err x => Err x | Ok vs rows => Ok vs (slice s len rows) end.
Proof. reflexivity. Qed.
Lemma wselect_unsup k gm b : wsel (WUnsup k) gm b = Err (NotImplemented k).
Proof. reflexivity. Qed.
Lemma weval_exists p b gm : wev (WExists p) b gm =
  Some (vbool (match wsel p gm (Some b) with Ok _ rows => nonempty rows | Err _ => false end)).
Proof. reflexivity. Qed.
Lemma weval_not a b gm : wev (WNot a) b gm =
  match wev a b gm with Some x => option_map (fun t => vbool (negb t)) (c_is_truthy x) | None => None end.
Proof. reflexivity. Qed.
End Equations.

(* ---------- (1) the common fragment ---------- *)
Section Embed.
Variable qm : matcher3 -> list (option term) -> list triple.
Variable gnames : list term.

Lemma weval_embed e : forall b gm, weval qm gnames (embed_e e) b gm = ceval e (bv b).
Proof.
  induction e; intros b gm; cbn [embed_e weval ceval];
    rewrite ?IHe, ?IHe1, ?IHe2; reflexivity.
Qed.

Lemma graph_rec_ext (s1 s2 : list (option term) -> option binding -> result) var names b :
  (forall gm b, s1 gm b = s2 gm b) -> graph_rec s1 var names b = graph_rec s2 var names b.
Proof.
  intros H. induction names as [|n names IH]; [reflexivity|].
  cbn [graph_rec]. rewrite H, IH. reflexivity.
Qed.
Lemma graph_ext (s1 s2 : list (option term) -> option binding -> result) name b :
  (forall gm b, s1 gm b = s2 gm b) -> graph gnames s1 name b = graph gnames s2 name b.
Proof.
  intros H. unfold graph. destruct name as [i|var].
  - rewrite H. reflexivity.
  - destruct (match b with Some b0 => lookup var (bv b0) | None => None end).
    + rewrite H. reflexivity.
    + rewrite H. destruct (s2 [] b); [|reflexivity]. destruct gnames; [reflexivity|].
      apply graph_rec_ext. exact H.
Qed.

Theorem wselect_embed (p : cpattern) : forall gm b,
  wselect qm gnames (embed_p p) gm b = select CL qm gnames p gm b.
Proof.
  induction p as [ps|e i IH|l IHl r IHr|n i IH|i IH v e|i IH c|i IH vs|i IH|i IH s len|k];
    intros gm b; cbn [embed_p select];
    rewrite ?wselect_bgp, ?wselect_filter, ?wselect_union, ?wselect_graph, ?wselect_extend, ?wselect_orderby,
            ?wselect_project, ?wselect_distinct, ?wselect_slice, ?wselect_unsup.
  - reflexivity.
  - rewrite IH. destruct (select CL qm gnames i gm b) as [vs rows|x]; [|reflexivity].
    f_equal. apply filter_ext. intros r. unfold wkeep, filter_keep. rewrite weval_embed. reflexivity.
  - rewrite IHl, IHr. reflexivity.
  - apply graph_ext. intros gm' b'. apply IH.
  - rewrite IH. destruct (select CL qm gnames i gm b) as [vs rows|x]; [|reflexivity].
    destruct (memb str_eqb v vs); [reflexivity|]. f_equal. apply map_ext. intros r.
    unfold wextend_row, extend_row. rewrite weval_embed. reflexivity.
  - rewrite IH. destruct (select CL qm gnames i gm b); reflexivity.
  - rewrite IH. reflexivity.
  - rewrite IH. reflexivity.
  - rewrite IH. reflexivity.
  - reflexivity.
Qed.
End Embed.

Theorem wrun_select_embed D ds (p : cpattern) :
  wrun_query D (WSelect ds (embed_p p)) = run_query CL D (QSelect ds p).
Proof.
  unfold wrun_query, wbindings_of, run_query. destruct (default_matcher ds); [|reflexivity].
  rewrite wselect_embed. destruct (select CL (ds_qm D) (ds_names D) p l None); reflexivity.
Qed.
Theorem wrun_ask_embed D ds (p : cpattern) :
  wrun_query D (WAsk ds (embed_p p)) = run_query CL D (QAsk ds p).
Proof.
  unfold wrun_query, wbindings_of, run_query. destruct (default_matcher ds); [|reflexivity].
  rewrite wselect_embed. destruct (select CL (ds_qm D) (ds_names D) p l None) as [vs [|r rows]|e]; reflexivity.
Qed.

(* ---------- (2) the outer solution is carried through the whole group ---------- *)
Lemma populate_ext p : forall t b b', populate p t b = Some b' -> ext b b'.
Proof.
  induction p as [c|a|s IHs p IHp o IHo]; intros t b b'; cbn [populate].
  - intros E; injection E as <-. apply ext_refl.
  - destruct (get a b) as [t'|] eqn:G.
    + destruct (teq t' t); [|discriminate]. intros E; injection E as <-. apply ext_refl.
    + intros E; injection E as <-. apply ext_set. exact G.
  - destruct t; try discriminate.
    destruct (populate s t1 b) as [b1|] eqn:E1; [|discriminate].
    destruct (populate p t2 b1) as [b2|] eqn:E2; [|discriminate].
    intros E3. eapply ext_trans; [eapply IHs; eauto|]. eapply ext_trans; [eapply IHp; eauto|].
    eapply IHo; eauto.
Qed.
Lemma populate3_ext tp m b b' : populate3 tp m b = Some b' -> ext b b'.
Proof.
  destruct tp as [[ps pp] po], m as [[ms mp] mo]. cbn [populate3].
  destruct (populate ps ms b) as [b1|] eqn:E1; [|discriminate].
  destruct (populate pp mp b1) as [b2|] eqn:E2; [|discriminate].
  intros E3. eapply ext_trans; [eapply populate_ext; eauto|].
  eapply ext_trans; eapply populate_ext; eauto.
Qed.
(* bgp.rs: whatever the dataset answers, a solution of the BGP extends the solution it started from *)
Lemma bgp_rec_extends qm gm ps : forall b r, In r (bgp_rec qm ps b gm) -> ext b r.
Proof.
  induction ps as [|tp ps IH]; intros b r.
  - cbn [bgp_rec]. intros [<-|[]]. apply ext_refl.
  - rewrite bgp_rec_cons. destruct (qm (build3 tp b) gm) as [|m0 ms] eqn:E; [intros []|]. rewrite <- E.
    destruct (all_bound3 (build3 tp b)); [apply IH|].
    intros Hin. apply in_flat_map in Hin as [m [_ Hin]]. unfold bgp_step in Hin.
    destruct (populate3 tp m b) as [b'|] eqn:P; [|destruct Hin].
    eapply ext_trans; [eapply populate3_ext; eauto | apply IH; exact Hin].
Qed.

Lemma dedup_rows_In vs rows : forall seen r, In r (dedup_rows vs seen rows) -> In r rows.
Proof.
  induction rows as [|x rows IH]; intros seen r; cbn [dedup_rows]; [auto|].
  destruct (memb (list_eqb oteq) (row_key vs x) seen).
  - intros H. right. eapply IH; eauto.
  - intros [<-|H]; [left; reflexivity | right; eapply IH; eauto].
Qed.
Lemma join_var_ext var name r r' : join_var var name r = Some r' -> ext r r'.
Proof.
  unfold join_var. destruct (lookup var (bv r)) as [o|] eqn:E.
  - destruct (teq o name); [|discriminate]. intros H; injection H as <-. apply ext_refl.
  - intros H; injection H as <-. apply (ext_set (AV var) name r). exact E.
Qed.
Lemma keys_lookup k m : In k (keys m) -> lookup k m <> None.
Proof. apply lookup_keys. Qed.

(* the invariant: the rows extend the outer solution, and its variables are in the variable list
   (so that a BIND of the group cannot silently override one of them: Override) *)
Definition carries (b0 : binding) (res : result) : Prop :=
  match res with
  | Ok vs rows => (forall r, In r rows -> ext b0 r) /\ (forall k, In k (keys (bv b0)) -> In k vs)
  | Err _ => True
  end.
Lemma carries_rows b0 vs rows rows' :
  carries b0 (Ok vs rows) -> (forall r, In r rows' -> In r rows) -> carries b0 (Ok vs rows').
Proof. intros [H1 H2] Hs. split; auto. Qed.
Lemma carries_only_if_named gnames b0 n res : carries b0 res -> carries b0 (only_if_named gnames n res).
Proof.
  destruct res as [vs rows|e]; cbn [only_if_named]; [|auto].
  destruct (memb teq n gnames); [auto|]. intros [_ H]. split; [intros r []|exact H].
Qed.
Lemma In_add_var' v vs k : In k vs -> In k (add_var v vs).
Proof. unfold add_var. destruct (memb str_eqb v vs); [auto|]. intros; apply in_or_app; auto. Qed.
Lemma carries_graph_rec sel var b0 names :
  (forall gm, carries b0 (sel gm (Some b0))) -> names <> [] ->
  carries b0 (graph_rec sel var names (Some b0)).
Proof.
  intros Hsel. induction names as [|n names IH]; [congruence|]. intros _.
  cbn [graph_rec]. pose proof (Hsel [Some n]) as H1.
  destruct (sel [Some n] (Some b0)) as [vs rows|e]; [|exact I].
  destruct names as [|n2 names'].
  - cbn [graph_rec]. destruct H1 as [R V]. split.
    + intros r Hin. rewrite app_nil_r in Hin. apply filter_map_In in Hin as [r1 [Hin J]].
      eapply ext_trans; [apply R; eauto | eapply join_var_ext; eauto].
    + intros k Hk. apply In_add_var'. auto.
  - assert (IH' := IH ltac:(discriminate)).
    destruct (graph_rec sel var (n2 :: names') (Some b0)) as [vs2 rows2|e2]; [|exact I].
    destruct H1 as [R V], IH' as [R2 _]. split.
    + intros r Hin. apply in_app_or in Hin as [Hin|Hin]; [|auto].
      apply filter_map_In in Hin as [r1 [Hin J]].
      eapply ext_trans; [apply R; eauto | eapply join_var_ext; eauto].
    + intros k Hk. apply In_add_var'. auto.
Qed.

Section Carried.
Variable qm : matcher3 -> list (option term) -> list triple.
Variable gnames : list term.

Theorem group_carries_outer_solution (p : wpat) : group_p p = true ->
  forall gm b0, carries b0 (wselect qm gnames p gm (Some b0)).
Proof.
  induction p as [ps|e i IH|l IHl r IHr|n i IH|i IH v e|i IH c|i IH vs|i IH|i IH s len|k]
    using wpat_ind; intros G gm b0; cbn [group_p] in G;
    rewrite ?wselect_bgp, ?wselect_filter, ?wselect_union, ?wselect_graph, ?wselect_extend, ?wselect_orderby,
            ?wselect_project, ?wselect_distinct, ?wselect_slice, ?wselect_unsup.
  - (* BGP *)
    unfold bgp. split.
    + intros r. apply bgp_rec_extends.
    + intros k Hk. unfold populate_variables. apply (dedupb_In _ str_eqb_eq). apply in_or_app. auto.
  - apply andb_true_iff in G as [_ G]. specialize (IH G gm b0).
    destruct (wselect qm gnames i gm (Some b0)) as [vs rows|x]; [|exact I].
    eapply carries_rows; [exact IH|]. intros r Hin. apply filter_In in Hin. tauto.
  - apply andb_true_iff in G as [G1 G2]. specialize (IHl G1 gm b0). specialize (IHr G2 gm b0).
    destruct (wselect qm gnames l gm (Some b0)) as [lv li|x]; [|exact I].
    destruct (wselect qm gnames r gm (Some b0)) as [rv ri|x]; [|exact I].
    destruct IHl as [R1 V1], IHr as [R2 V2]. split.
    + intros x Hin. apply in_app_or in Hin as [H|H]; auto.
    + intros k Hk. apply in_or_app. auto.
  - (* GRAPH *)
    unfold graph. destruct n as [iri|var].
    + apply carries_only_if_named. apply IH; auto.
    + cbn [bv]. destruct (lookup var (bv b0)) as [name|].
      * apply carries_only_if_named. apply IH; auto.
      * pose proof (IH G [] b0) as H0.
        destruct (wselect qm gnames i [] (Some b0)) as [vs0 rows0|x]; [|exact I].
        destruct gnames as [|g1 gs] eqn:EG.
        -- destruct H0 as [_ V]. split; [intros r []|]. intros k Hk. apply In_add_var'. auto.
        -- apply carries_graph_rec; [|discriminate]. intros gm'. apply IH; auto.
  - (* BIND *)
    apply andb_true_iff in G as [G _]. specialize (IH G gm b0).
    destruct (wselect qm gnames i gm (Some b0)) as [vs rows|x]; [|exact I].
    destruct (memb str_eqb v vs) eqn:M; [exact I|].
    destruct IH as [R V]. split.
    + intros r Hin. apply in_map_iff in Hin as [r1 [<- Hin]]. specialize (R r1 Hin).
      unfold wextend_row. destruct (weval qm gnames e r1 gm) as [val|]; [|exact R].
      intros a t Ha. rewrite get_set. destruct (atom_eqb a (AV v)) eqn:Ea; [|apply R; exact Ha].
      apply atom_eqb_eq in Ea. subst a. exfalso.
      apply (memb_false _ str_eqb_eq) in M. apply M, V. apply lookup_keys. cbn [get] in Ha. congruence.
    + intros k Hk. apply in_or_app. auto.
  - apply IH; auto.
  - discriminate.
  - specialize (IH G gm b0). destruct (wselect qm gnames i gm (Some b0)) as [vs' rows|x]; [|exact I].
    eapply carries_rows; [exact IH|]. intros r. apply dedup_rows_In.
  - specialize (IH G gm b0). destruct (wselect qm gnames i gm (Some b0)) as [vs' rows|x]; [|exact I].
    eapply carries_rows; [exact IH|]. intros r. apply In_slice.
  - exact I.
Qed.

(* every variable of the outer solution keeps its value in every solution of the group: this is
   what a FILTER / BIND / nested EXISTS of the group reads *)
Corollary group_sees_outer_variables (p : wpat) gm b0 vs rows r v t :
  group_p p = true -> wselect qm gnames p gm (Some b0) = Ok vs rows -> In r rows ->
  lookup v (bv b0) = Some t -> lookup v (bv r) = Some t.
Proof.
  intros G E Hin Hv. pose proof (group_carries_outer_solution p G gm b0) as H. rewrite E in H.
  destruct H as [R _]. exact (R r Hin (AV v) t Hv).
Qed.

(* ---------- (3) EXISTS ---------- *)
(* EXISTS always has a value, a boolean (its errors are hidden: known finding) *)
Theorem exists_total p b gm : exists t, weval qm gnames (WExists p) b gm = Some (vbool t).
Proof. rewrite weval_exists. eexists. reflexivity. Qed.
(* a group without triple patterns is decided by the outer solution alone:
   EXISTS { FILTER(e) } is the effective boolean value of e, errors being false *)
Theorem exists_filter_only e b gm :
  weval qm gnames (WExists (WFilter e (WBgp []))) b gm = Some (vbool (wkeep (weval qm gnames e b gm))).
Proof.
  rewrite weval_exists, wselect_filter, wselect_bgp. unfold bgp. cbn [bgp_rec filter].
  destruct (wkeep (weval qm gnames e b gm)); reflexivity.
Qed.
(* ... and so is a group made of a BIND and a FILTER on the bound variable *)
Theorem not_exists_is_negation p b gm t :
  weval qm gnames (WExists p) b gm = Some (vbool t) ->
  weval qm gnames (WNot (WExists p)) b gm = Some (vbool (negb t)).
Proof. rewrite weval_not. intros ->. reflexivity. Qed.
(* the FILTER of a group is evaluated on solutions that contain the outer solution: if it only
   mentions outer variables and BGP variables, its value under a row is its value under the union *)
Theorem exists_filter_rows e i b gm vs rows :
  group_p i = true -> wselect qm gnames i gm (Some b) = Ok vs rows ->
  weval qm gnames (WExists (WFilter e i)) b gm
  = Some (vbool (existsb (fun r => wkeep (weval qm gnames e r gm)) rows))
  /\ forall r, In r rows -> ext b r.
Proof.
  intros G E. split.
  - rewrite weval_exists, wselect_filter, E. f_equal. f_equal. clear E.
    induction rows as [|r rows IH]; [reflexivity|]. cbn [filter existsb].
    destruct (wkeep (weval qm gnames e r gm)); [reflexivity|]. exact IH.
  - pose proof (group_carries_outer_solution i G gm b) as H. rewrite E in H. apply H.
Qed.
End Carried.
