(* C01/Refine.v -- what an implementation of the four required methods must satisfy
   (record [impl_ok]), and the generic refinement: any such implementation, together with the
   default methods it inherits from the API traits, produces the outputs of the mathematical
   set on every finite history. *)
From Coq Require Import Permutation.
From Sophia.C01 Require Import Model Sets.

(* ---------- quads ---------- *)
Lemma quad_eqb_eq a b : quad_eqb a b = true <-> a = b.
Proof.
  destruct a as [s p o g], b as [s' p' o' g']. unfold quad_eqb. simpl.
  rewrite !andb_true_iff, !N.eqb_eq. split.
  - intros [[[-> ->] ->] H]. f_equal. destruct g, g'; simpl in H; try discriminate; auto.
    apply N.eqb_eq in H. congruence.
  - intros E. inversion E; subst. repeat split; auto. destruct g'; simpl; auto. apply N.eqb_refl.
Qed.
Lemma quad_eqb_refl a : quad_eqb a a = true.
Proof. apply quad_eqb_eq. reflexivity. Qed.
Lemma quad_eqb_sym a b : quad_eqb a b = quad_eqb b a.
Proof.
  destruct (quad_eqb a b) eqn:E.
  - apply quad_eqb_eq in E. subst. symmetry. apply quad_eqb_refl.
  - destruct (quad_eqb b a) eqn:E2; auto. apply quad_eqb_eq in E2. subst.
    rewrite quad_eqb_refl in E. discriminate.
Qed.
Lemma memq_in q l : memq q l = true <-> In q l.
Proof.
  unfold memq. rewrite existsb_exists. split.
  - intros (x & Hx & E). apply quad_eqb_eq in E. subst. auto.
  - intros H. exists q. split; auto. apply quad_eqb_refl.
Qed.
Lemma memq_perm q l l' : Permutation l l' -> memq q l = memq q l'.
Proof.
  intros P. destruct (memq q l) eqn:E; symmetry.
  - apply memq_in. apply memq_in in E. eapply Permutation_in; eauto.
  - destruct (memq q l') eqn:E'; auto. apply memq_in in E'.
    apply Permutation_sym in P. eapply Permutation_in in E'; eauto. apply memq_in in E'. congruence.
Qed.
Lemma norm_idem g q : norm g (norm g q) = norm g q.
Proof. destruct g; reflexivity. Qed.

(* matchers of the harness and of contains() obey the constant() contract *)
Lemma md_wf m : tm_wf (md m).
Proof. destruct m; intros c0 H x; simpl in *; try discriminate. inversion H; subst. reflexivity. Qed.
Lemma gd_wf m : gm_wf (gd m).
Proof. destruct m; intros c0 H x; simpl in *; try discriminate. inversion H; subst. reflexivity. Qed.
Lemma tm_array_wf l : tm_wf (tm_array l).
Proof.
  intros c H x. destruct l as [|a [|b l]]; simpl in *; try discriminate. inversion H; subst.
  rewrite orb_false_r. apply N.eqb_sym.
Qed.
Lemma opt_eqb_sym (a b : option N) : opt_eqb N.eqb a b = opt_eqb N.eqb b a.
Proof. destruct a, b; simpl; auto. apply N.eqb_sym. Qed.
Lemma gm_array_wf l : gm_wf (gm_array l).
Proof.
  intros c H x. destruct l as [|a [|b l]]; simpl in *; try discriminate. inversion H; subst.
  rewrite orb_false_r. apply opt_eqb_sym.
Qed.
Lemma tm_gn_wf m : tm_wf m -> gm_wf (tm_gn m).
Proof.
  intros Hw c H x. unfold tm_gn in *. simpl in *.
  destruct (tm_const m) as [c0|] eqn:E; simpl in H; try discriminate. inversion H; subst.
  destruct x as [t|]; simpl; auto.
Qed.

(* ================================================================================== *)
Record impl_ok (cap : option N) (I : impl) : Type := mkOk {
  Inv : St I -> Prop;
  terms : St I -> list N;                 (* the interned terms, in order of first use *)
  ok_init : Inv (i_init I) /\ i_all I (i_init I) = [] /\ terms (i_init I) = [];
  ok_nodup : forall s, Inv s -> NoDup (i_all I s);
  ok_norm : forall s q, Inv s -> In q (i_all I s) -> norm (i_isgraph I) q = q;
  ok_insert : forall s q s' r, Inv s -> i_insert I s q = (s', r) ->
    let q' := norm (i_isgraph I) q in
    let il := intern_list cap (terms s) (quad_terms q') in
    Inv s' /\ terms s' = fst il /\
    (snd il = false -> r = None /\ i_all I s' = i_all I s) /\
    (snd il = true -> r = Some (negb (memq q' (i_all I s))) /\
       Permutation (i_all I s') (if memq q' (i_all I s) then i_all I s else i_all I s ++ [q']));
  ok_remove : forall s q s' b, Inv s -> i_remove I s q = (s', b) ->
    let q' := norm (i_isgraph I) q in
    Inv s' /\ terms s' = terms s /\ b = memq q' (i_all I s) /\
    Permutation (i_all I s') (filter (fun x => negb (quad_eqb q' x)) (i_all I s));
  ok_query : forall s sm pm om gm, Inv s -> tm_wf sm -> tm_wf pm -> tm_wf om -> gm_wf gm ->
    Permutation (i_query I s sm pm om gm) (filter (qmatch (i_isgraph I) sm pm om gm) (i_all I s))
}.
Arguments Inv {cap I}. Arguments terms {cap I}.

Definition op_wf (o : op) : Prop :=
  match o with
  | Query sm pm om gm | RemoveMatching sm pm om gm | RetainMatching sm pm om gm =>
      tm_wf sm /\ tm_wf pm /\ tm_wf om /\ gm_wf gm
  | _ => True
  end.

(* outputs are compared up to the order of enumeration *)
Definition out_sim (a b : out) : Prop :=
  match a, b with
  | OQuads x, OQuads y => Permutation x y
  | OTerms x, OTerms y => Permutation x y
  | _, _ => a = b
  end.

Lemma enum_terms_perm pl k l l' : Permutation l l' -> Permutation (enum_terms pl k l) (enum_terms pl k l').
Proof.
  intros P. destruct k; simpl.
  - apply Permutation_map; auto.
  - apply Permutation_map; auto.
  - apply Permutation_map; auto.
  - apply Permutation_flat_map'; auto.
  - apply Permutation_filter. repeat apply Permutation_flat_map'. auto.
  - apply Permutation_filter. repeat apply Permutation_flat_map'. auto.
Qed.

Section Generic.
Variable cap : option N.
Variable I : impl.
Variable ok : impl_ok cap I.
Variable pl : pool.
Notation isg := (i_isgraph I).

Definition R (s : St I) (sp : sstate) : Prop :=
  Inv ok s /\ Permutation (i_all I s) (s_quads sp) /\ terms ok s = s_terms sp.

Lemma R_init : R (i_init I) (mkS [] []).
Proof. destruct (ok_init cap I ok) as (H1 & H2 & H3). split; auto. rewrite H2, H3. simpl. auto. Qed.

Lemma sim_insert s sp q : R s sp ->
  R (fst (i_insert I s q)) (fst (spec_insert cap isg sp q))
  /\ snd (i_insert I s q) = snd (spec_insert cap isg sp q).
Proof.
  intros (HI & HP & HT). destruct (i_insert I s q) as [s' r] eqn:E.
  destruct (ok_insert cap I ok s q s' r HI E) as (HI' & Ht & Hf & Hs). simpl.
  unfold spec_insert. rewrite <- HT.
  destruct (intern_list cap (terms ok s) (quad_terms (norm isg q))) as [ts b] eqn:Ei.
  simpl in *. rewrite <- (memq_perm _ _ _ HP). destruct b.
  - destruct (Hs eq_refl) as [-> HP']. destruct (memq (norm isg q) (i_all I s)) eqn:Em; simpl.
    + repeat split; auto. eapply perm_trans; eauto.
    + repeat split; auto. simpl. eapply perm_trans; [exact HP'|]. apply Permutation_app_tail. auto.
  - destruct (Hf eq_refl) as [-> Ha]. simpl. repeat split; auto. simpl. rewrite Ha. auto.
Qed.

Lemma sim_remove s sp q : R s sp ->
  R (fst (i_remove I s q)) (fst (spec_remove isg sp q))
  /\ snd (i_remove I s q) = snd (spec_remove isg sp q).
Proof.
  intros (HI & HP & HT). destruct (i_remove I s q) as [s' b] eqn:E.
  destruct (ok_remove cap I ok s q s' b HI E) as (HI' & Ht & Hb & HP'). simpl.
  rewrite <- (memq_perm _ _ _ HP). repeat split; auto; simpl.
  - eapply perm_trans; [exact HP'|]. apply Permutation_filter. auto.
  - congruence.
Qed.

Lemma sim_insert_all l : forall s sp c, R s sp ->
  R (fst (api_insert_all I s l c)) (fst (spec_insert_all cap isg sp l c))
  /\ snd (api_insert_all I s l c) = snd (spec_insert_all cap isg sp l c).
Proof.
  induction l as [|q l IH]; intros s sp c HR; [simpl; auto|].
  cbn [api_insert_all spec_insert_all].
  destruct (sim_insert s sp q HR) as [HR' Hr].
  destruct (i_insert I s q) as [s' r]. destruct (spec_insert cap isg sp q) as [sp' r'].
  simpl in *. subst r'. destruct r as [b|]; simpl; auto.
Qed.

Lemma sim_remove_all l : forall s sp c, R s sp ->
  R (fst (api_remove_all I s l c)) (fst (spec_remove_all isg sp l c))
  /\ snd (api_remove_all I s l c) = snd (spec_remove_all isg sp l c).
Proof.
  induction l as [|q l IH]; intros s sp c HR; [simpl; auto|].
  cbn [api_remove_all spec_remove_all].
  destruct (sim_remove s sp q HR) as [HR' Hr].
  destruct (i_remove I s q) as [s' b]. destruct (spec_remove isg sp q) as [sp' b'].
  simpl in *. subst b'. apply IH. auto.
Qed.

(* removing a duplicate-free list of members one by one removes exactly that list, and the
   count is its length: the core of remove_matching / retain_matching *)
Lemma remove_members l : forall s c, Inv ok s -> NoDup l -> incl l (i_all I s) ->
  Inv ok (fst (api_remove_all I s l c))
  /\ terms ok (fst (api_remove_all I s l c)) = terms ok s
  /\ snd (api_remove_all I s l c) = c + N.of_nat (length l)
  /\ Permutation (i_all I (fst (api_remove_all I s l c)))
                 (filter (fun x => negb (memq x l)) (i_all I s)).
Proof.
  induction l as [|q l IH]; intros s c HI Hnd Hincl.
  - simpl. repeat split; auto. lia. rewrite filter_all; auto.
  - cbn [api_remove_all]. destruct (i_remove I s q) as [s' b] eqn:E.
    destruct (ok_remove cap I ok s q s' b HI E) as (HI' & Ht & Hb & HP').
    assert (Hq : In q (i_all I s)) by (apply Hincl; left; auto).
    assert (Hn : norm isg q = q) by exact (ok_norm cap I ok s q HI Hq).
    rewrite Hn in *. assert (Hbt : b = true) by (rewrite Hb; apply memq_in; auto). clear Hb. subst b.
    inversion Hnd as [|? ? Hnotin Hnd']; subst.
    assert (Hincl' : incl l (i_all I s')).
    { intros x Hx. eapply Permutation_in; [apply Permutation_sym, HP'|].
      apply filter_In. split; [apply Hincl; right; auto|].
      destruct (quad_eqb q x) eqn:Eq; auto. apply quad_eqb_eq in Eq. subst. tauto. }
    destruct (IH s' (c + 1) HI' Hnd' Hincl') as (H1 & H2 & H3 & H4).
    repeat split; auto.
    + congruence.
    + rewrite H3. cbn [length]. lia.
    + eapply perm_trans; [exact H4|].
      eapply perm_trans; [apply Permutation_filter, HP'|].
      rewrite filter_filter. erewrite filter_ext_in'; [apply Permutation_refl|].
      intros x _. simpl. rewrite (quad_eqb_sym x q). rewrite negb_orb. reflexivity.
Qed.

Lemma sim_contains s sp q : R s sp -> api_contains I s q = memq (norm isg q) (s_quads sp).
Proof.
  intros (HI & HP & HT). unfold api_contains.
  pose proof (ok_query cap I ok s _ _ _ _ HI (tm_array_wf [qs q]) (tm_array_wf [qp q])
               (tm_array_wf [qo q]) (gm_array_wf [qg q])) as P.
  rewrite <- (memq_perm _ _ _ HP).
  set (res := i_query I s _ _ _ _) in *.
  set (F := filter _ (i_all I s)) in *.
  assert (HF : forall x, In x F <-> x = norm isg q /\ In x (i_all I s)).
  { intros x. unfold F. rewrite filter_In. split.
    - intros [Hin Hm]. split; auto. pose proof (ok_norm cap I ok s x HI Hin) as Hn.
      unfold qmatch in Hm. simpl in Hm. rewrite !orb_false_r in Hm.
      rewrite !andb_true_iff in Hm. destruct Hm as [[[H1 H2] H3] H4].
      apply N.eqb_eq in H1, H2, H3. destruct x as [xs xp xo xg]. simpl in *. subst.
      unfold norm in *. destruct isg; simpl in *.
      + symmetry. exact Hn.
      + destruct q as [s0 p0 o0 g0]. simpl in *. f_equal.
        destruct g0, xg; simpl in H4; try discriminate; auto.
        apply N.eqb_eq in H4. congruence.
    - intros [-> Hin]. split; auto. unfold qmatch. simpl. rewrite !orb_false_r.
      unfold norm. destruct isg; simpl; rewrite !N.eqb_refl; simpl; auto.
      destruct (qg q); simpl; auto. apply N.eqb_refl. }
  destruct (memq (norm isg q) (i_all I s)) eqn:Em.
  - apply memq_in in Em. assert (Hin : In (norm isg q) F) by (apply HF; auto).
    eapply Permutation_in in Hin; [|apply Permutation_sym, P]. destruct res; [destruct Hin | auto].
  - destruct res as [|x res]; auto. exfalso.
    assert (Hin : In x F) by (eapply Permutation_in; [exact P | left; auto]).
    apply HF in Hin. destruct Hin as [-> Hin]. apply memq_in in Hin. congruence.
Qed.

Lemma sim_remove_matching s sp sm pm om gm : R s sp ->
  tm_wf sm -> tm_wf pm -> tm_wf om -> gm_wf gm ->
  R (fst (api_remove_matching I s sm pm om gm))
    (mkS (filter (fun q => negb (qmatch isg sm pm om gm q)) (s_quads sp)) (s_terms sp))
  /\ snd (api_remove_matching I s sm pm om gm)
     = N.of_nat (length (filter (qmatch isg sm pm om gm) (s_quads sp))).
Proof.
  intros (HI & HP & HT) H1 H2 H3 H4. unfold api_remove_matching.
  pose proof (ok_query cap I ok s sm pm om gm HI H1 H2 H3 H4) as P.
  set (L := i_query I s sm pm om gm) in *.
  assert (Hnd : NoDup L).
  { eapply Permutation_NoDup; [apply Permutation_sym, P|]. apply NoDup_filter. eapply ok_nodup; eauto. }
  assert (Hincl : incl L (i_all I s)).
  { intros x Hx. eapply Permutation_in in Hx; [|exact P]. apply filter_In in Hx. tauto. }
  destruct (remove_members L s 0 HI Hnd Hincl) as (A1 & A2 & A3 & A4).
  split; [split; [|split]|]; auto.
  - simpl. eapply perm_trans; [exact A4|].
    erewrite filter_ext_in'; [apply Permutation_filter; exact HP|].
    intros x Hx. simpl. f_equal.
    destruct (qmatch isg sm pm om gm x) eqn:Em.
    + apply memq_in. eapply Permutation_in; [apply Permutation_sym, P|]. apply filter_In. auto.
    + destruct (memq x L) eqn:E; auto. apply memq_in in E. eapply Permutation_in in E; [|exact P].
      apply filter_In in E. destruct E. congruence.
  - simpl. congruence.
  - rewrite A3. simpl. f_equal. rewrite (Permutation_length P).
    apply Permutation_length. apply Permutation_filter. auto.
Qed.

Lemma sim_retain_matching s sp sm pm om gm : R s sp ->
  R (api_retain_matching I s sm pm om gm)
    (mkS (filter (qmatch isg sm pm om gm) (s_quads sp)) (s_terms sp)).
Proof.
  intros (HI & HP & HT). unfold api_retain_matching.
  set (L := filter (fun q => negb (qmatch isg sm pm om gm q)) (i_all I s)).
  assert (Hnd : NoDup L) by (apply NoDup_filter; eapply ok_nodup; eauto).
  assert (Hincl : incl L (i_all I s)) by (intros x Hx; apply filter_In in Hx; tauto).
  destruct (remove_members L s 0 HI Hnd Hincl) as (A1 & A2 & A3 & A4).
  split; [|split]; auto.
  - simpl. eapply perm_trans; [exact A4|].
    erewrite filter_ext_in'; [apply Permutation_filter; exact HP|].
    intros x Hx. simpl.
    destruct (qmatch isg sm pm om gm x) eqn:Em.
    + destruct (memq x L) eqn:E; auto. apply memq_in in E. apply filter_In in E.
      destruct E as [_ E]. rewrite Em in E. discriminate.
    + assert (E : memq x L = true) by (apply memq_in, filter_In; rewrite Em; auto).
      rewrite E. reflexivity.
  - simpl. congruence.
Qed.

(* one step of any history: the simulation relation is kept and the outputs agree *)
Theorem step_sim s sp o : R s sp -> op_wf o ->
  R (fst (step pl I s o)) (fst (spec_step pl cap isg sp o))
  /\ out_sim (snd (step pl I s o)) (snd (spec_step pl cap isg sp o)).
Proof.
  intros HR Hw. destruct o; cbn [step spec_step].
  - destruct (sim_insert s sp q HR) as [H1 H2].
    destruct (i_insert I s q) as [s' r]. destruct (spec_insert cap isg sp q) as [sp' r'].
    simpl in *. subst. split; auto; destruct r'; simpl; try reflexivity.
  - destruct (sim_remove s sp q HR) as [H1 H2].
    destruct (i_remove I s q) as [s' r]. destruct (spec_remove isg sp q) as [sp' r'].
    simpl in *. subst. split; auto; simpl; try reflexivity.
  - split; auto. simpl. f_equal. apply sim_contains; auto.
  - split; auto. simpl. destruct HR as (HI & HP & HT). destruct Hw as (W1 & W2 & W3 & W4).
    eapply perm_trans; [apply (ok_query cap I ok); auto|]. apply Permutation_filter; auto.
  - split; auto. simpl. destruct HR as (HI & HP & HT). auto.
  - destruct Hw as (W1 & W2 & W3 & W4).
    destruct (sim_remove_matching s sp sm pm om gm HR W1 W2 W3 W4) as [H1 H2].
    destruct (api_remove_matching I s sm pm om gm) as [s' n]. simpl in *. subst. split; auto; simpl; try reflexivity.
  - split; [apply sim_retain_matching; auto | simpl; reflexivity].
  - destruct (sim_insert_all l s sp 0 HR) as [H1 H2].
    destruct (api_insert_all I s l 0) as [s' r]. destruct (spec_insert_all cap isg sp l 0) as [sp' r'].
    simpl in *. subst. split; auto; destruct r'; simpl; try reflexivity.
  - destruct (sim_remove_all l s sp 0 HR) as [H1 H2].
    destruct (api_remove_all I s l 0) as [s' r]. destruct (spec_remove_all isg sp l 0) as [sp' r'].
    simpl in *. subst. split; auto; simpl; try reflexivity.
  - split; auto. simpl. destruct HR as (HI & HP & HT). apply enum_terms_perm; auto.
Qed.

Theorem run_sim ops : forall s sp, R s sp -> Forall op_wf ops ->
  Forall2 out_sim (run_from pl I s ops) (spec_run_from pl cap isg sp ops).
Proof.
  induction ops as [|o ops IH]; intros s sp HR Hw; simpl; [constructor|].
  inversion Hw; subst.
  destruct (step_sim s sp o HR H1) as [HR' Ho].
  destruct (step pl I s o) as [s' r]. destruct (spec_step pl cap isg sp o) as [sp' r'].
  simpl in *. constructor; auto.
Qed.

Theorem final_sim ops : Forall op_wf ops ->
  R (final pl I ops) (spec_final pl cap isg ops).
Proof.
  unfold final, spec_final. intros Hw.
  assert (G : forall s sp, R s sp ->
     R (fold_left (fun s o => fst (step pl I s o)) ops s)
       (fold_left (fun s o => fst (spec_step pl cap isg s o)) ops sp)).
  { induction Hw as [|o ops Ho Hw IH]; intros s sp HR; simpl; auto.
    apply IH. apply step_sim; auto. }
  apply G. apply R_init.
Qed.

End Generic.
